/-
C01: `bernoulli_neg_exp` under the uniform stream measure.  The paths of the inner loop are the boxes
`u_0 ≤ γ/1, …, u_{n-1} ≤ γ/n, u_n > γ/(n+1)`; under `streamμ` box `n` has probability `stopAt γ n` (a product of
`unif01` masses — `Measure.infinitePi_pi`, no Bernoulli-branch modelling), the even ones sum to `exp(-γ)`.
Composition with an arbitrary continuation is `bind_law`; the outer loop (`γ > 1`) follows by induction.
-/
import DPL.Proofs.DiscreteStream
import DPL.Proofs.DiscreteBern
import Mathlib.Topology.Algebra.InfiniteSum.ENNReal
import Mathlib.Topology.Algebra.InfiniteSum.NatInt

namespace DPL.Discrete
open MeasureTheory Set
open scoped ENNReal

/-! ### the paths of the inner loop -/

theorem bernLoop_cons (γ u : ℝ) (us : List ℝ) (c : ℕ) :
    bernLoop γ (u :: us) c = if u ≤ γ / (c : ℝ) then bernLoop γ us (c + 1) else .ok (c % 2 == 1, us) := rfl

/-- inversion of `bernLoop_stop`: a returning run has exactly that shape -/
theorem bernLoop_inv (γ : ℝ) (l : List ℝ) (c : ℕ) (b : Bool) (rest : List ℝ)
    (h : bernLoop γ l c = .ok (b, rest)) :
    ∃ n, ∃ hn : n < l.length, (∀ j (hj : j < n), l[j] ≤ γ / ((c + j : ℕ) : ℝ)) ∧ ¬ l[n] ≤ γ / ((c + n : ℕ) : ℝ) ∧
      b = ((c + n) % 2 == 1) ∧ rest = l.drop (n + 1) := by
  induction l generalizing c with
  | nil => simp [bernLoop] at h
  | cons u us ih =>
    rw [bernLoop_cons] at h
    by_cases hu : u ≤ γ / (c : ℝ)
    · rw [if_pos hu] at h
      obtain ⟨n, hn, h1, h2, h3, h4⟩ := ih (c + 1) h
      refine ⟨n + 1, by simpa using hn, ?_, ?_, ?_, ?_⟩
      · intro j hj
        cases j with
        | zero => simpa using hu
        | succ i =>
          have := h1 i (by omega)
          simpa [Nat.add_assoc, Nat.add_comm 1 i] using this
      · simpa [Nat.add_assoc, Nat.add_comm 1 n] using h2
      · rw [h3]; congr 2; omega
      · simpa using h4
    · rw [if_neg hu] at h
      injection h with h
      obtain ⟨hb, hr⟩ := Prod.mk.inj h
      exact ⟨0, by simp, fun j hj => absurd hj (Nat.not_lt_zero j), by simpa using hu, by simpa using hb.symm,
        by simpa using hr.symm⟩

/-- the box of path `n` of `bernLoop γ · 1` -/
def bernBox (γ : ℝ) (n i : ℕ) : Set ℝ :=
  if i < n then Iic (γ / ((1 + i : ℕ) : ℝ)) else (Iic (γ / ((1 + n : ℕ) : ℝ)))ᶜ

theorem bernBox_measurable (γ : ℝ) (n i : ℕ) : MeasurableSet (bernBox γ n i) := by
  unfold bernBox; split_ifs
  · exact measurableSet_Iic
  · exact measurableSet_Iic.compl

theorem bernLoop_spec (γ : ℝ) :
    BoxSpec (fun l => bernLoop γ l 1) (fun n : ℕ => n + 1) (fun n => (1 + n) % 2 == 1) (bernBox γ) := by
  intro l b rest
  constructor
  · intro h
    obtain ⟨n, hn, h1, h2, h3, h4⟩ := bernLoop_inv γ l 1 b rest h
    refine ⟨n, hn, fun i hi hin => ?_, h3.symm, h4⟩
    have hin : i < n + 1 := hin
    unfold bernBox
    by_cases hlt : i < n
    · rw [if_pos hlt]; exact h1 i hlt
    · have : i = n := by omega
      subst this
      rw [if_neg hlt]; exact h2
  · rintro ⟨n, hn, hbox, hout, hrest⟩
    have hn' : n < l.length := hn
    have hbox : ∀ i (h : i < l.length), i < n + 1 → l[i] ∈ bernBox γ n i := hbox
    have hl : l = l.take n ++ l[n] :: l.drop (n + 1) := by
      rw [List.getElem_cons_drop, List.take_append_drop]
    have hlen : (l.take n).length = n := by rw [List.length_take]; omega
    have := bernLoop_stop γ (l.take n) l[n] (l.drop (n + 1)) 1 (fun j hj => by
        have hjn : j < n := by rw [hlen] at hj; exact hj
        have := hbox j (by omega) (by omega)
        unfold bernBox at this
        rw [if_pos hjn] at this
        rw [List.getElem_take]; exact this) (by
        have := hbox n hn' (by omega)
        unfold bernBox at this
        rw [if_neg (lt_irrefl n)] at this
        rw [hlen]; exact this)
    show bernLoop γ l 1 = _
    rw [hl, this, hlen, ← hout, hrest]

theorem bernBox_disjoint (γ : ℝ) :
    Pairwise (Function.onFun Disjoint (fun n : ℕ => Set.pi (Finset.range (n + 1) : Set ℕ) (bernBox γ n))) := by
  intro n m hnm
  rw [Function.onFun, Set.disjoint_left]
  intro ω h1 h2
  simp only [Set.mem_pi, Finset.mem_coe, Finset.mem_range] at h1 h2
  rcases lt_or_gt_of_ne hnm with h | h
  · have a := h1 n (by omega)
    have b := h2 n (by omega)
    unfold bernBox at a b
    rw [if_neg (lt_irrefl n)] at a
    rw [if_pos h] at b
    exact a b
  · have a := h1 m (by omega)
    have b := h2 m (by omega)
    unfold bernBox at a b
    rw [if_pos h] at a
    rw [if_neg (lt_irrefl m)] at b
    exact b a

/-! ### the probability of a path -/

theorem unif01_Iic (t : ℝ) (h0 : 0 ≤ t) (h1 : t ≤ 1) : unif01 (Iic t) = ENNReal.ofReal t := by
  rw [unif01_apply]
  rcases h1.lt_or_eq with h | h
  · have : {u : ℝ | u ∈ Ico (0:ℝ) 1 ∧ u ∈ Iic t} = Icc 0 t := by
      ext u
      simp only [mem_ofPred_eq, mem_Ico, mem_Iic, mem_Icc]
      constructor
      · rintro ⟨⟨a, _⟩, b⟩; exact ⟨a, b⟩
      · rintro ⟨a, b⟩; exact ⟨⟨a, lt_of_le_of_lt b h⟩, b⟩
    rw [this, Real.volume_Icc, sub_zero]
  · subst h
    have : {u : ℝ | u ∈ Ico (0:ℝ) 1 ∧ u ∈ Iic (1:ℝ)} = Ico 0 1 := by
      ext u
      simp only [mem_ofPred_eq, mem_Ico, mem_Iic]
      constructor
      · rintro ⟨a, _⟩; exact a
      · rintro ⟨a, b⟩; exact ⟨⟨a, b⟩, b.le⟩
    rw [this, Real.volume_Ico, sub_zero]

theorem unif01_Iic_compl (t : ℝ) (h0 : 0 ≤ t) (h1 : t ≤ 1) : unif01 (Iic t)ᶜ = ENNReal.ofReal (1 - t) := by
  rw [prob_compl_eq_one_sub measurableSet_Iic, unif01_Iic t h0 h1, ENNReal.ofReal_sub _ h0, ENNReal.ofReal_one]

theorem stopAt_nonneg (γ : ℝ) (h0 : 0 ≤ γ) (h1 : γ ≤ 1) (n : ℕ) : 0 ≤ stopAt γ n := by
  rw [stopAt_eq_prod]
  apply mul_nonneg
  · exact Finset.prod_nonneg (fun j _ => (branch_prob_range γ h0 h1 j).1)
  · linarith [(branch_prob_range γ h0 h1 n).2]

/-- under the stream measure path `n` has probability `stopAt γ n` -/
theorem bernBox_prob (γ : ℝ) (h0 : 0 ≤ γ) (h1 : γ ≤ 1) (n : ℕ) :
    ∏ i ∈ Finset.range (n + 1), unif01 (bernBox γ n i) = ENNReal.ofReal (stopAt γ n) := by
  have hcast : ∀ j : ℕ, ((1 + j : ℕ) : ℝ) = (j : ℝ) + 1 := fun j => by push_cast; ring
  rw [Finset.prod_range_succ, stopAt_eq_prod,
    ENNReal.ofReal_mul (Finset.prod_nonneg (fun j _ => (branch_prob_range γ h0 h1 j).1)),
    ENNReal.ofReal_prod_of_nonneg (fun j _ => (branch_prob_range γ h0 h1 j).1)]
  congr 1
  · apply Finset.prod_congr rfl
    intro i hi
    unfold bernBox
    rw [if_pos (Finset.mem_range.mp hi), hcast,
      unif01_Iic _ (branch_prob_range γ h0 h1 i).1 (branch_prob_range γ h0 h1 i).2]
  · unfold bernBox
    rw [if_neg (lt_irrefl n), hcast,
      unif01_Iic_compl _ (branch_prob_range γ h0 h1 n).1 (branch_prob_range γ h0 h1 n).2]

/-! ### the series -/

theorem stopAt_total (γ : ℝ) : HasSum (fun n : ℕ => stopAt γ n) 1 := by
  obtain ⟨f, hf⟩ : ∃ f : ℕ → ℝ, f = fun n => γ ^ n / (Nat.factorial n : ℝ) := ⟨_, rfl⟩
  have h : HasSum f (Real.exp γ) := by
    rw [hf, Real.exp_eq_exp_ℝ]; exact NormedSpace.expSeries_div_hasSum_exp γ
  have h' : HasSum (fun n => f (n + 1)) (Real.exp γ - 1) := by
    have := (hasSum_nat_add_iff' 1).mpr h
    simpa [hf] using this
  have hsub : HasSum (fun n => f n - f (n + 1)) (Real.exp γ - (Real.exp γ - 1)) := h.sub h'
  have hterm : ∀ n, stopAt γ n = f n - f (n + 1) := by intro n; simp only [hf, stopAt]
  simp only [hterm]
  rw [show (1:ℝ) = Real.exp γ - (Real.exp γ - 1) by ring]
  exact hsub

theorem bern_odd_sum (γ : ℝ) : HasSum (fun m : ℕ => stopAt γ (2 * m + 1)) (1 - Real.exp (-γ)) := by
  have ht := stopAt_total γ
  have he := bern_even_sum γ
  have ho : Summable (fun m : ℕ => stopAt γ (2 * m + 1)) :=
    ht.summable.comp_injective (i := fun m : ℕ => 2 * m + 1) (fun a b hab => by simpa using hab)
  have := tsum_even_add_odd he.summable ho
  rw [he.tsum_eq, ht.tsum_eq] at this
  have h2 : ∑' m : ℕ, stopAt γ (2 * m + 1) = 1 - Real.exp (-γ) := by linarith
  rw [← h2]; exact ho.hasSum

/-! ### the laws -/

/-- **inner loop, any continuation** (`0 ≤ γ ≤ 1`): the coin is 1 with probability `exp(-γ)`, and what follows sees a
fresh stream -/
theorem bernLoop_bind_law (γ : ℝ) (h0 : 0 ≤ γ) (h1 : γ ≤ 1) {β : Type}
    (K : Bool → List ℝ → Except DErr (β × List ℝ)) (c : β) (hK : ∀ b, MeasurableSet (Ret (K b) c)) :
    MeasurableSet (Ret (bindS (fun l => bernLoop γ l 1) K) c) ∧
    streamμ (Ret (bindS (fun l => bernLoop γ l 1) K) c)
      = ENNReal.ofReal (Real.exp (-γ)) * streamμ (Ret (K true) c)
        + ENNReal.ofReal (1 - Real.exp (-γ)) * streamμ (Ret (K false) c) := by
  obtain ⟨hm, hμ⟩ := bind_law (fun l => bernLoop γ l 1) K (fun n : ℕ => n + 1) (fun n => (1 + n) % 2 == 1)
    (bernBox γ) (bernLoop_spec γ) (bernBox_measurable γ) (bernBox_disjoint γ) c (fun _ => hK _)
  refine ⟨hm, ?_⟩
  rw [hμ]
  simp_rw [bernBox_prob γ h0 h1]
  rw [← tsum_even_add_odd ENNReal.summable ENNReal.summable]
  have hev : ∀ m : ℕ, ((1 + 2 * m) % 2 == 1) = true := by
    intro m
    have : (1 + 2 * m) % 2 = 1 := by omega
    simp [this]
  have hod : ∀ m : ℕ, ((1 + (2 * m + 1)) % 2 == 1) = false := by
    intro m
    have : (1 + (2 * m + 1)) % 2 = 0 := by omega
    simp [this]
  simp_rw [hev, hod]
  rw [ENNReal.tsum_mul_right, ENNReal.tsum_mul_right,
    ← ENNReal.ofReal_tsum_of_nonneg (fun m => stopAt_nonneg γ h0 h1 (2 * m)) (bern_even_sum γ).summable,
    ← ENNReal.ofReal_tsum_of_nonneg (fun m => stopAt_nonneg γ h0 h1 (2 * m + 1)) (bern_odd_sum γ).summable,
    (bern_even_sum γ).tsum_eq, (bern_odd_sum γ).tsum_eq]

theorem bernOuter_succ (fuel : ℕ) (γ : ℝ) :
    bernOuter (fuel + 1) γ = if 1 < γ then
        bindS (fun l => bernLoop (1:ℝ) l 1) (fun b => if b then bernOuter fuel (γ - 1) else retS false)
      else fun l => bernLoop γ l 1 := by
  funext us
  by_cases h : 1 < γ
  · simp only [bernOuter, h, if_true, bindS]
    cases hb : bernLoop (1:ℝ) us 1 with
    | error e => rfl
    | ok p =>
      obtain ⟨b, r⟩ := p
      cases b <;> rfl
  · simp only [bernOuter, h, if_false]

/-- **outer loop, any continuation** (`0 ≤ γ < fuel`) -/
theorem bernOuter_bind_law (fuel : ℕ) (γ : ℝ) (h0 : 0 ≤ γ) (hf : γ < fuel) {β : Type}
    (K : Bool → List ℝ → Except DErr (β × List ℝ)) (c : β) (hK : ∀ b, MeasurableSet (Ret (K b) c)) :
    MeasurableSet (Ret (bindS (bernOuter fuel γ) K) c) ∧
    streamμ (Ret (bindS (bernOuter fuel γ) K) c)
      = ENNReal.ofReal (Real.exp (-γ)) * streamμ (Ret (K true) c)
        + ENNReal.ofReal (1 - Real.exp (-γ)) * streamμ (Ret (K false) c) := by
  induction fuel generalizing γ with
  | zero => exfalso; simp only [Nat.cast_zero] at hf; linarith
  | succ n ih =>
    rw [bernOuter_succ]
    by_cases h : 1 < γ
    · rw [if_pos h, bindS_assoc]
      have hγ0 : 0 ≤ γ - 1 := by linarith
      have hγn : γ - 1 < n := by push_cast at hf; linarith
      obtain ⟨ihm, ihμ⟩ := ih (γ - 1) hγ0 hγn
      set K' : Bool → List ℝ → Except DErr (β × List ℝ) :=
        fun b => bindS (if b then bernOuter n (γ - 1) else retS false) K with hK'
      have hKt : K' true = bindS (bernOuter n (γ - 1)) K := by simp [hK']
      have hKf : K' false = K false := by
        simp only [hK']; funext l; rfl
      have hK'm : ∀ b, MeasurableSet (Ret (K' b) c) := by
        intro b; cases b
        · rw [hKf]; exact hK false
        · rw [hKt]; exact ihm
      obtain ⟨hm, hμ⟩ := bernLoop_bind_law 1 zero_le_one le_rfl K' c hK'm
      refine ⟨hm, ?_⟩
      rw [hμ, hKt, hKf, ihμ, mul_add, ← mul_assoc, ← mul_assoc, add_assoc, ← add_mul,
        ← ENNReal.ofReal_mul (Real.exp_pos _).le, ← ENNReal.ofReal_mul (Real.exp_pos _).le,
        ← ENNReal.ofReal_add (by
          have : Real.exp (-(γ - 1)) ≤ 1 := Real.exp_le_one_iff.mpr (by linarith)
          exact mul_nonneg (Real.exp_pos _).le (by linarith)) (by
          have : Real.exp (-(1:ℝ)) ≤ 1 := Real.exp_le_one_iff.mpr (by norm_num)
          linarith),
        ← Real.exp_add]
      have e1 : -(1:ℝ) + -(γ - 1) = -γ := by ring
      have e2 : Real.exp (-1) * (1 - Real.exp (-(γ - 1))) + (1 - Real.exp (-1)) = 1 - Real.exp (-γ) := by
        rw [mul_sub, mul_one, ← Real.exp_add, e1]; ring
      rw [e1, e2]
    · rw [if_neg h]
      exact bernLoop_bind_law γ h0 (not_lt.mp h) K c hK

theorem Ret_retS_measurable {β : Type} [DecidableEq β] (b c : β) : MeasurableSet (Ret (retS b) c) := by
  rw [Ret_retS]; split_ifs
  · exact MeasurableSet.univ
  · exact MeasurableSet.empty

theorem bernNegExp_eq (fuel : ℕ) (γ : ℝ) (h0 : 0 ≤ γ) : bernNegExp fuel γ = bernOuter fuel γ := by
  funext us
  simp [bernNegExp, not_lt.mpr h0]

/-- **`bernoulli_neg_exp(γ)` any continuation** -/
theorem bernNegExp_bind_law (fuel : ℕ) (γ : ℝ) (h0 : 0 ≤ γ) (hf : γ < fuel) {β : Type}
    (K : Bool → List ℝ → Except DErr (β × List ℝ)) (c : β) (hK : ∀ b, MeasurableSet (Ret (K b) c)) :
    MeasurableSet (Ret (bindS (bernNegExp fuel γ) K) c) ∧
    streamμ (Ret (bindS (bernNegExp fuel γ) K) c)
      = ENNReal.ofReal (Real.exp (-γ)) * streamμ (Ret (K true) c)
        + ENNReal.ofReal (1 - Real.exp (-γ)) * streamμ (Ret (K false) c) := by
  rw [bernNegExp_eq fuel γ h0]
  exact bernOuter_bind_law fuel γ h0 hf K c hK

/-- **the law of `bernoulli_neg_exp(γ)` over the uniform stream**: the model function, run on the i.i.d. uniform stream,
returns 1 with probability `exp(-γ)` and 0 with probability `1 - exp(-γ)` (so it returns with probability one; the
fuel of the model's outer loop is never exhausted when it exceeds `γ`) -/
theorem bernNegExp_stream_law (fuel : ℕ) (γ : ℝ) (h0 : 0 ≤ γ) (hf : γ < fuel) :
    MeasurableSet (Ret (bernNegExp fuel γ) true) ∧ MeasurableSet (Ret (bernNegExp fuel γ) false) ∧
    streamμ (Ret (bernNegExp fuel γ) true) = ENNReal.ofReal (Real.exp (-γ)) ∧
    streamμ (Ret (bernNegExp fuel γ) false) = ENNReal.ofReal (1 - Real.exp (-γ)) := by
  have ht := bernNegExp_bind_law fuel γ h0 hf retS true (fun b => Ret_retS_measurable b true)
  have hfl := bernNegExp_bind_law fuel γ h0 hf retS false (fun b => Ret_retS_measurable b false)
  rw [bindS_retS] at ht hfl
  refine ⟨ht.1, hfl.1, ?_, ?_⟩
  · rw [ht.2, Ret_retS, Ret_retS]; simp
  · rw [hfl.2, Ret_retS, Ret_retS]; simp

/-! ### determinism -/

theorem bernLoop_mono (γ : ℝ) : Mono (fun l => bernLoop γ l 1) := Mono.of_boxSpec (bernLoop_spec γ)

theorem bernOuter_mono (fuel : ℕ) (γ : ℝ) : Mono (bernOuter fuel γ) := by
  induction fuel generalizing γ with
  | zero => intro l b rest ext h; simp [bernOuter] at h
  | succ n ih =>
    rw [bernOuter_succ]
    split_ifs
    · refine Mono.bindS (bernLoop_mono 1) (fun b => ?_)
      cases b
      · exact Mono.retS false
      · exact ih (γ - 1)
    · exact bernLoop_mono γ

theorem bernInf_succ (fuel : ℕ) :
    bernInf (α := ℝ) (fuel + 1)
      = bindS (fun l => bernLoop (1:ℝ) l 1) (fun b => if b then bernInf fuel else retS false) := by
  funext us
  simp only [bernInf, bindS]
  cases hb : bernLoop (1:ℝ) us 1 with
  | error e => rfl
  | ok p =>
    obtain ⟨b, r⟩ := p
    cases b <;> rfl

theorem bernInf_mono (fuel : ℕ) : Mono (bernInf (α := ℝ) fuel) := by
  induction fuel with
  | zero => intro l b rest ext h; simp [bernInf] at h
  | succ n ih =>
    rw [bernInf_succ]
    refine Mono.bindS (bernLoop_mono 1) (fun b => ?_)
    cases b
    · exact Mono.retS false
    · exact ih

theorem bernNegExp_mono (fuel : ℕ) (γ : ℝ) : Mono (bernNegExp fuel γ) := by
  by_cases h : γ < 0
  · intro l b rest ext hh; simp [bernNegExp, h] at hh
  · rw [bernNegExp_eq fuel γ (not_lt.mp h)]; exact bernOuter_mono fuel γ

/-- the run returns (0 or 1) with probability one: neither the fuel of the outer loop (`> γ`) nor an endless run of
successes has positive probability -/
theorem bernNegExp_returns_ae (fuel : ℕ) (γ : ℝ) (h0 : 0 ≤ γ) (hf : γ < fuel) :
    streamμ (Ret (bernNegExp fuel γ) true ∪ Ret (bernNegExp fuel γ) false)ᶜ = 0 := by
  obtain ⟨hm1, hm2, h1, h2⟩ := bernNegExp_stream_law fuel γ h0 hf
  rw [prob_compl_eq_zero_iff (hm1.union hm2),
    measure_union (Ret_disjoint (bernNegExp_mono fuel γ) true false (by simp)) hm2, h1, h2,
    ← ENNReal.ofReal_add (Real.exp_pos _).le (by
      have : Real.exp (-γ) ≤ 1 := Real.exp_le_one_iff.mpr (by linarith)
      linarith)]
  simp

/-! ### `bernoulli_neg_exp(+∞)` (the model's `bernInf`) -/

theorem bernInf_zero : bernInf (α := ℝ) 0 = fun _ => .error .exhausted := by
  funext us; simp [bernInf]

/-- **`bernInf fuel`, any continuation**: it never returns 1, returns 0 with probability `1 − exp(−fuel)`, and runs out
of fuel (a model artefact: the Python loop is unbounded) with probability `exp(−fuel)` -/
theorem bernInf_bind_law (fuel : ℕ) {β : Type} (K : Bool → List ℝ → Except DErr (β × List ℝ)) (c : β)
    (hK : ∀ b, MeasurableSet (Ret (K b) c)) :
    MeasurableSet (Ret (bindS (bernInf fuel) K) c) ∧
    streamμ (Ret (bindS (bernInf fuel) K) c)
      = ENNReal.ofReal (1 - Real.exp (-(fuel : ℝ))) * streamμ (Ret (K false) c) := by
  induction fuel with
  | zero =>
    have : bindS (bernInf (α := ℝ) 0) K = fun _ => .error .exhausted := by
      funext l; rw [bernInf_zero]; rfl
    rw [this, Ret_error]
    simp
  | succ n ih =>
    obtain ⟨ihm, ihμ⟩ := ih
    rw [bernInf_succ, bindS_assoc]
    set K' : Bool → List ℝ → Except DErr (β × List ℝ) :=
      fun b => bindS (if b then bernInf n else retS false) K with hK'
    have hKt : K' true = bindS (bernInf n) K := by simp [hK']
    have hKf : K' false = K false := by
      simp only [hK']; funext l; rfl
    have hK'm : ∀ b, MeasurableSet (Ret (K' b) c) := by
      intro b; cases b
      · rw [hKf]; exact hK false
      · rw [hKt]; exact ihm
    obtain ⟨hm, hμ⟩ := bernLoop_bind_law 1 zero_le_one le_rfl K' c hK'm
    refine ⟨hm, ?_⟩
    have hn : Real.exp (-(n : ℝ)) ≤ 1 := Real.exp_le_one_iff.mpr (by simp)
    have h1 : Real.exp (-(1:ℝ)) ≤ 1 := Real.exp_le_one_iff.mpr (by norm_num)
    rw [hμ, hKt, hKf, ihμ, ← mul_assoc, ← add_mul, ← ENNReal.ofReal_mul (Real.exp_pos _).le,
      ← ENNReal.ofReal_add (mul_nonneg (Real.exp_pos _).le (by linarith)) (by linarith)]
    congr 2
    push_cast
    rw [mul_sub, mul_one, ← Real.exp_add]
    have : -(1:ℝ) + -(n : ℝ) = -((n : ℝ) + 1) := by ring
    rw [this]; ring

end DPL.Discrete
