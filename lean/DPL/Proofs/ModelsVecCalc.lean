/-
The privacy-loss calculus of `ModelsCalc.lean` for an arbitrary per-invocation displacement convention
(`rel` for the max-check, `wt` for the weighted sum), so that invocations with vector-valued inputs
(`DPL/Model/PrivLossVec.lean`) are covered.  With `rel = wt = relDisp` it is the scalar calculus (`lossLeW_scalar`,
`dispOkW_scalar`, `privLossW_scalar`).
-/
import DPL.Model.PrivLossVec
import DPL.Proofs.ModelsCalc

namespace DPL
namespace PM
open DPL

variable {δ ρ σ ι : Type}

/-- a per-invocation convention: relative displacement for the max-check, weight for the sum -/
abbrev Conv := MechCall ℝ → ℝ → ℝ → ℝ

/-- along every output sequence: `rel ≤ 1` at every invocation and `Σ εᵢ·wtᵢ ≤ B` (probes assumed to agree) -/
def lossLeW (rel wt : Conv) (D D' : δ) : Plan δ ℝ ρ → ℝ → Prop
  | .release _, B => 0 ≤ B
  | .call c inp k, B =>
      rel c (inp D) (inp D') ≤ 1 ∧ ∀ o, lossLeW rel wt D D' (k o) (B - c.eps * wt c (inp D) (inp D'))
  | .probe occ k, B => occ D = occ D' → lossLeW rel wt D D' (k (occ D)) B

variable (rel wt : Conv)

theorem lossLeW_mono (D D' : δ) (p : Plan δ ℝ ρ) {B B' : ℝ} (h : B ≤ B') (hp : lossLeW rel wt D D' p B) :
    lossLeW rel wt D D' p B' := by
  induction p generalizing B B' with
  | release r => exact le_trans hp h
  | call c inp k ih => exact ⟨hp.1, fun o => ih o (by linarith) (hp.2 o)⟩
  | probe occ k ih => exact fun ho => ih _ h (hp ho)

theorem lossLeW_bind (D D' : δ) (p : Plan δ ℝ ρ) (q : ρ → Plan δ ℝ σ) {B₁ B₂ : ℝ}
    (hp : lossLeW rel wt D D' p B₁) (hq : ∀ r, lossLeW rel wt D D' (q r) B₂) :
    lossLeW rel wt D D' (p.bind q) (B₁ + B₂) := by
  induction p generalizing B₁ with
  | release r => exact lossLeW_mono rel wt D D' _ (by simpa [lossLeW] using hp) (hq r)
  | call c inp k ih =>
    refine ⟨hp.1, fun o => ?_⟩
    have := ih o (hp.2 o)
    exact lossLeW_mono rel wt D D' _ (by linarith) this
  | probe occ k ih => exact fun ho => ih _ (hp ho)

theorem lossLeW_release (D D' : δ) (r : ρ) : lossLeW rel wt D D' (Plan.release r : Plan δ ℝ ρ) 0 := le_refl _

theorem lossLeW_map (D D' : δ) (p : Plan δ ℝ ρ) (f : ρ → σ) {B : ℝ} (hp : lossLeW rel wt D D' p B) :
    lossLeW rel wt D D' (p.bind fun r => .release (f r)) B := by
  have := lossLeW_bind rel wt D D' p (fun r => (Plan.release (f r) : Plan δ ℝ σ)) hp
    (fun r => lossLeW_release rel wt D D' _)
  simpa using this

/-- a single invocation whose relative displacement is ≤ 1 and whose weight is ≤ `w` costs `eps · w` -/
theorem lossLeW_one (D D' : δ) (c : MechCall ℝ) (inp : δ → ℝ) (w : ℝ) (hε : 0 ≤ c.eps)
    (h1 : rel c (inp D) (inp D') ≤ 1) (h2 : wt c (inp D) (inp D') ≤ w) :
    lossLeW rel wt D D' (one c inp) (c.eps * w) := by
  refine ⟨h1, fun o => ?_⟩
  show 0 ≤ _
  have := mul_le_mul_of_nonneg_left h2 hε
  linarith

theorem lossLeW_forList (D D' : δ) (l : List ι) (f : ι → Plan δ ℝ σ) (b : ι → ℝ)
    (h : ∀ i ∈ l, lossLeW rel wt D D' (f i) (b i)) : lossLeW rel wt D D' (forList l f) (l.map b).sum := by
  induction l with
  | nil => exact le_refl _
  | cons i is ih =>
    simp only [forList, List.map_cons, List.sum_cons]
    refine lossLeW_bind rel wt D D' _ _ (h i (by simp)) (fun r => ?_)
    exact lossLeW_map rel wt D D' _ _ (ih (fun j hj => h j (by simp [hj])))

theorem lossLeW_forList_zero (D D' : δ) (l : List ι) (f : ι → Plan δ ℝ σ)
    (h : ∀ i ∈ l, lossLeW rel wt D D' (f i) 0) : lossLeW rel wt D D' (forList l f) 0 := by
  have := lossLeW_forList rel wt D D' l f (fun _ => 0) h
  simpa using this

/-- the tie to `Plan.run`, `dispOkW`, `privLossW` -/
theorem lossLeW_run (D D' : δ) (p : Plan δ ℝ ρ) (B : ℝ) (hp : lossLeW rel wt D D' p B) (outs : List ℝ)
    (hprobe : (p.run D outs).probes = (p.run D' outs).probes)
    (hfull : (p.run D outs).release ≠ none) :
    (p.run D outs).calls = (p.run D' outs).calls ∧
    dispOkW rel (p.run D outs).calls (p.run D outs).inputs (p.run D' outs).inputs = true ∧
    privLossW wt (p.run D outs).calls (p.run D outs).inputs (p.run D' outs).inputs ≤ B := by
  induction p generalizing B outs with
  | release r => exact ⟨rfl, rfl, by simpa [Plan.run, privLossW, lossLeW] using hp⟩
  | call c inp k ih =>
    cases outs with
    | nil => exact absurd rfl hfull
    | cons o os =>
      simp only [Plan.run] at hprobe hfull ⊢
      obtain ⟨h1, h2, h3⟩ := ih o _ (hp.2 o) os hprobe hfull
      refine ⟨by rw [h1], ?_, ?_⟩
      · simp only [dispOkW, Bool.and_eq_true, decide_eq_true_eq]
        exact ⟨hp.1, h2⟩
      · simp only [privLossW]
        linarith
  | probe occ k ih =>
    simp only [Plan.run] at hprobe hfull ⊢
    have h1 : occ D = occ D' := (List.cons.inj hprobe).1
    have h2 := (List.cons.inj hprobe).2
    rw [← h1] at h2 ⊢
    exact ih (occ D) B (hp h1) outs h2 hfull

/-! ### conservative extension: the scalar convention gives back the scalar calculus -/

theorem dispOkW_scalar (cs : List (MechCall ℝ)) (as bs : List ℝ) : dispOkW relDisp cs as bs = dispOk cs as bs := by
  induction cs generalizing as bs with
  | nil => rfl
  | cons c cs ih =>
    cases as with
    | nil => rfl
    | cons a as =>
      cases bs with
      | nil => rfl
      | cons b bs => simp only [dispOkW, dispOk, ih]

theorem privLossW_scalar (cs : List (MechCall ℝ)) (as bs : List ℝ) :
    privLossW relDisp cs as bs = privLoss cs as bs := by
  induction cs generalizing as bs with
  | nil => rfl
  | cons c cs ih =>
    cases as with
    | nil => rfl
    | cons a as =>
      cases bs with
      | nil => rfl
      | cons b bs => simp only [privLossW, privLoss, ih]

theorem lossLeW_scalar (D D' : δ) (p : Plan δ ℝ ρ) (B : ℝ) : lossLeW relDisp relDisp D D' p B ↔ lossLe D D' p B := by
  induction p generalizing B with
  | release r => exact Iff.rfl
  | call c inp k ih => exact and_congr Iff.rfl (forall_congr' fun o => ih o _)
  | probe occ k ih => exact imp_congr Iff.rfl (ih _ _)

/-- invocations without a vector input keep the scalar convention -/
theorem relDispV_scalar (n K : Nat) (c : MechCall ℝ) (a b : ℝ) (h : isVec c = false) :
    relDispV n K c a b = relDisp c a b ∧ wtDispV n K c a b = relDisp c a b := by
  simp [relDispV, wtDispV, h]

/-! ### the vector convention over ℝ -/

theorem maxIncr_self (u : List Nat) : maxIncr u u = 0 := by
  unfold maxIncr
  induction u with
  | nil => rfl
  | cons a as ih => simp only [List.zipWith_cons_cons, List.foldr_cons, ih, Nat.sub_self, Nat.max_self]

/-- an input that did not move costs nothing, whatever the kind of invocation -/
theorem dispV_same (n K : Nat) (c : MechCall ℝ) (a : ℝ) : relDispV n K c a a = 0 ∧ wtDispV n K c a a = 0 := by
  unfold relDispV wtDispV
  split
  · simp [vecRel, vecWt, maxIncr_self]
  · exact ⟨relDisp_eq_zero c a a rfl, relDisp_eq_zero c a a rfl⟩

/-- `maxIncr` of two tabulated vectors is bounded by any bound on the entry-wise increase -/
theorem maxIncr_map_le (l : List Nat) (f g : Nat → Nat) (B : Nat) (h : ∀ c ∈ l, g c - f c ≤ B) :
    maxIncr (l.map f) (l.map g) ≤ B := by
  unfold maxIncr
  induction l with
  | nil => simp
  | cons c cs ih =>
    simp only [List.map_cons, List.zipWith_cons_cons, List.foldr_cons]
    exact max_le (h c (by simp)) (ih fun x hx => h x (by simp [hx]))

/-- the vector convention for a sensitivity-1 invocation whose decoded vectors move by `up ≤ A ≤ 1`, `dn ≤ B ≤ 1` -/
theorem vec_bounds (c : MechCall ℝ) (hs : c.sens = 1) (u v : List Nat) (A B : Nat)
    (hA : maxIncr u v ≤ A) (hB : maxIncr v u ≤ B) (hA1 : A ≤ 1) (hB1 : B ≤ 1) :
    vecRel c u v ≤ 1 ∧ vecWt c u v ≤ (A : ℝ) + (B : ℝ) := by
  unfold vecRel vecWt
  simp only [hs, div_one]
  constructor
  · split
    · norm_num
    · have : max (maxIncr u v) (maxIncr v u) ≤ 1 := max_le (le_trans hA hA1) (le_trans hB hB1)
      exact_mod_cast this
  · split
    · positivity
    · have : maxIncr u v + maxIncr v u ≤ A + B := Nat.add_le_add hA hB
      exact_mod_cast this

end PM
end DPL
