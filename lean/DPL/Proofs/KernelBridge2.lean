/-
End-to-end laws for tools with MORE THAN ONE mechanism invocation (C07 `_wrap_axis`, histograms).

`law_seq_eq_pi_run`: a sequence of `k` one-invocation plans (`Plan.seq (List.ofFn fun i => (f i).plan)`), under a
kernel family `M` that on every configured call is the push-forward of a base probability measure `ν` (one block of
draws) under a sampler function `samp c a`, has as output law the push-forward of the PRODUCT measure
`Measure.pi (fun _ : Fin k => ν)` — `k` independent blocks — under the explicit run `runCells` that feeds block `i` to
call `i`.  Instances: `mean`/`sum` with `axis=` (`ν = unif01x4`, the clamped-Laplace sampler) and the histogram
(`ν = unif01`, the geometric sampler).
-/
import DPL.Proofs.KernelBridge
import DPL.Proofs.ToolsCompose
import DPL.Proofs.ToolsCompose2
import Mathlib.MeasureTheory.Constructions.Pi

namespace DPL
namespace PM
open MeasureTheory

/-! ### two facts about measures -/

section measures
variable {Ω₁ Ω₂ A B C : Type*} [MeasurableSpace Ω₁] [MeasurableSpace Ω₂] [MeasurableSpace A] [MeasurableSpace B]
  [MeasurableSpace C]

/-- draw `a` through `s`, then `b` independently through `r`, release `h (a, b)`: the law is the push-forward of the
product measure -/
theorem bind_map_eq_prod_map (ν : Measure Ω₁) (π : Measure Ω₂) [IsProbabilityMeasure π]
    (s : Ω₁ → A) (hs : Measurable s) (r : Ω₂ → B) (hr : Measurable r) (h : A × B → C) (hh : Measurable h) :
    (ν.map s).bind (fun a => (π.map r).map (fun b => h (a, b))) = (ν.prod π).map (fun p => h (s p.1, r p.2)) := by
  have hπ : IsProbabilityMeasure (π.map r) := Measure.isProbabilityMeasure_map hr.aemeasurable
  have hm : ∀ a, Measurable (fun b => h (a, b)) := fun a => hh.comp measurable_prodMk_left
  have hκ : Measurable (fun a => (π.map r).map (fun b => h (a, b))) := by
    refine Measure.measurable_of_measurable_coe _ (fun T hT => ?_)
    have : (fun a => ((π.map r).map (fun b => h (a, b))) T) = fun a => (π.map r) (Prod.mk a ⁻¹' (h ⁻¹' T)) := by
      funext a; rw [Measure.map_apply (hm a) hT]; rfl
    rw [this]; exact measurable_measure_prodMk_left (hh hT)
  have hF : Measurable (fun p : Ω₁ × Ω₂ => h (s p.1, r p.2)) :=
    hh.comp ((hs.comp measurable_fst).prodMk (hr.comp measurable_snd))
  ext S hS
  have hcoe : Measurable (fun a => ((π.map r).map (fun b => h (a, b))) S) := (Measure.measurable_coe hS).comp hκ
  rw [Measure.bind_apply hS hκ.aemeasurable, lintegral_map hcoe hs,
    Measure.map_apply hF hS, Measure.prod_apply (hF hS)]
  congr 1; funext ω
  rw [Measure.map_apply (hm _) hS, Measure.map_apply hr ((hm _) hS)]
  rfl

end measures

/-- splitting the first block off a product of `n + 1` independent blocks -/
theorem pi_succ_map {Ω : Type} [MeasurableSpace Ω] (ν : Measure Ω) [SigmaFinite ν] (n : ℕ) {C : Type*}
    [MeasurableSpace C] (F : Ω × (Fin n → Ω) → C) (hF : Measurable F) :
    (Measure.pi fun _ : Fin (n + 1) => ν).map (fun ω => F (ω 0, fun i => ω i.succ))
      = (ν.prod (Measure.pi fun _ : Fin n => ν)).map F := by
  have h : (Measure.pi fun _ : Fin (n + 1) => ν).map (MeasurableEquiv.piFinSuccAbove (fun _ => Ω) 0)
      = ν.prod (Measure.pi fun _ : Fin n => ν) :=
    (measurePreserving_piFinSuccAbove (fun _ : Fin (n + 1) => ν) 0).map_eq
  rw [← h, Measure.map_map hF (MeasurableEquiv.measurable _)]
  congr 1

/-! ### the run of a sequence of one-invocation plans on independent blocks of draws -/

variable {δ ρ σ Ω : Type} [MeasurableSpace Ω]

/-- the law of a post-processed plan is the image of the law -/
theorem law_map' [MeasurableSpace ρ] [MeasurableSpace σ] (M : MechCall ℝ → ℝ → Measure ℝ) (p : Plan δ ℝ ρ)
    (hp : p.Meas M) (f : ρ → σ) (hf : Measurable f) (D : δ) : (p.map f).law M D = (p.law M D).map f := by
  unfold Plan.map
  have hq : ∀ D : δ, Measurable fun r => (Plan.release (f r) : Plan δ ℝ σ).law M D := by
    intro D; simp only [Plan.law]; exact Measure.measurable_dirac.comp hf
  rw [law_bind M p _ hp hq D]
  simp only [Plan.law]
  exact Measure.bind_dirac_eq_map _ hf

/-- call `i` (configured call `(f i).c`, input `(f i).inp D`, post-processing `(f i).g`) is run with the sampler on
block `ω i`; the release is the list of the `k` results -/
noncomputable def runCells {k : ℕ} (samp : MechCall ℝ → ℝ → Ω → ℝ) (f : Fin k → Tools.Cell δ ℝ ℝ) (D : δ)
    (ω : Fin k → Ω) : List ℝ :=
  List.ofFn fun i => (f i).g (samp (f i).c ((f i).inp D) (ω i))

theorem runCells_succ {k : ℕ} (samp : MechCall ℝ → ℝ → Ω → ℝ) (f : Fin (k + 1) → Tools.Cell δ ℝ ℝ) (D : δ)
    (ω : Fin (k + 1) → Ω) :
    runCells samp f D ω = (f 0).g (samp (f 0).c ((f 0).inp D) (ω 0)) ::
      runCells samp (fun i => f i.succ) D (fun i => ω i.succ) := by
  simp [runCells, List.ofFn_succ]

theorem measurable_runCells {k : ℕ} (samp : MechCall ℝ → ℝ → Ω → ℝ) (f : Fin k → Tools.Cell δ ℝ ℝ)
    (hs : ∀ i a, Measurable (samp (f i).c a)) (hg : ∀ i, Measurable (f i).g) (D : δ) :
    Measurable (runCells samp f D) := by
  induction k with
  | zero =>
    have : runCells samp f D = fun _ => [] := by funext ω; simp [runCells]
    rw [this]; exact measurable_const
  | succ n ih =>
    have ih' := ih (fun i => f i.succ) (fun i a => hs i.succ a) (fun i => hg i.succ)
    have : runCells samp f D = (fun p : ℝ × List ℝ => p.1 :: p.2) ∘ (fun ω : Fin (n + 1) → Ω =>
        ((f 0).g (samp (f 0).c ((f 0).inp D) (ω 0)), runCells samp (fun i => f i.succ) D (fun i => ω i.succ))) := by
      funext ω; exact runCells_succ samp f D ω
    rw [this]
    refine measurable_list_cons.comp (Measurable.prodMk ?_ ?_)
    · exact (hg 0).comp ((hs 0 _).comp (measurable_pi_apply 0))
    · exact ih'.comp (measurable_pi_lambda _ fun i => measurable_pi_apply _)

/-- **the law of a sequence of one-invocation plans is the law of the run on independent blocks of draws** -/
theorem law_seq_eq_pi_run (ν : Measure Ω) [IsProbabilityMeasure ν] (M : MechCall ℝ → ℝ → Measure ℝ)
    (hprob : ∀ c a, IsProbabilityMeasure (M c a)) (samp : MechCall ℝ → ℝ → Ω → ℝ) {k : ℕ}
    (f : Fin k → Tools.Cell δ ℝ ℝ) (hM : ∀ i a, M (f i).c a = ν.map (samp (f i).c a))
    (hs : ∀ i a, Measurable (samp (f i).c a)) (hg : ∀ i, Measurable (f i).g) (D : δ) :
    (Plan.seq (List.ofFn fun i => (f i).plan)).law M D
      = (Measure.pi fun _ : Fin k => ν).map (runCells samp f D) := by
  induction k with
  | zero =>
    have : runCells samp f D = fun _ => [] := by funext ω; simp [runCells]
    rw [this, Measure.map_const, measure_univ, one_smul]
    simp [Plan.seq, Plan.law]
  | succ n ih =>
    have ih' := ih (fun i => f i.succ) (fun i a => hM i.succ a) (fun i a => hs i.succ a) (fun i => hg i.succ)
    have hr := measurable_runCells samp (fun i => f i.succ) (fun i a => hs i.succ a) (fun i => hg i.succ) D
    have hmeas : (Plan.seq (List.ofFn fun i : Fin n => (f i.succ).plan)).Meas M := by
      have := Tools.meas_seq_cells M hprob (List.ofFn fun i : Fin n => f i.succ) (by
        intro x hx
        obtain ⟨i, rfl⟩ := (List.mem_ofFn).1 hx
        exact hg _)
      rwa [List.map_ofFn] at this
    have hh : Measurable (fun p : ℝ × List ℝ => (f 0).g p.1 :: p.2) :=
      measurable_list_cons.comp (((hg 0).comp measurable_fst).prodMk measurable_snd)
    have hcont : ∀ o : ℝ, ((Plan.seq (List.ofFn fun i : Fin n => (f i.succ).plan)).map
          (fun rs => (f 0).g o :: rs)).law M D
        = ((Measure.pi fun _ : Fin n => ν).map (runCells samp (fun i => f i.succ) D)).map
            (fun rs => (fun p : ℝ × List ℝ => (f 0).g p.1 :: p.2) (o, rs)) := by
      intro o
      have hmo : Measurable (fun rs : List ℝ => (f 0).g o :: rs) := hh.comp measurable_prodMk_left
      rw [law_map' M _ hmeas _ hmo, ih']
    have hstep : (Plan.seq (List.ofFn fun i => (f i).plan)).law M D
        = (M (f 0).c ((f 0).inp D)).bind (fun o =>
            ((Plan.seq (List.ofFn fun i : Fin n => (f i.succ).plan)).map (fun rs => (f 0).g o :: rs)).law M D) := by
      rw [List.ofFn_succ]
      rfl
    rw [hstep, hM 0, funext hcont,
      bind_map_eq_prod_map ν (Measure.pi fun _ : Fin n => ν) _ (hs 0 _) _ hr _ hh,
      ← pi_succ_map ν n (fun p => (f 0).g (samp (f 0).c ((f 0).inp D) p.1) ::
        runCells samp (fun i => f i.succ) D p.2)
        (hh.comp (((hs 0 _).comp measurable_fst).prodMk (hr.comp measurable_snd)))]
    congr 1
    funext ω
    exact (runCells_succ samp f D ω).symm

/-- list-indexed form: the blocks are indexed by the positions of the list of cells -/
theorem law_seq_cells_eq_pi_run (ν : Measure Ω) [IsProbabilityMeasure ν] (M : MechCall ℝ → ℝ → Measure ℝ)
    (hprob : ∀ c a, IsProbabilityMeasure (M c a)) (samp : MechCall ℝ → ℝ → Ω → ℝ)
    (cs : List (Tools.Cell δ ℝ ℝ)) (hM : ∀ x ∈ cs, ∀ a, M x.c a = ν.map (samp x.c a))
    (hs : ∀ x ∈ cs, ∀ a, Measurable (samp x.c a)) (hg : ∀ x ∈ cs, Measurable x.g) (D : δ) :
    (Plan.seq (cs.map Tools.Cell.plan)).law M D
      = (Measure.pi fun _ : Fin cs.length => ν).map (runCells samp cs.get D) := by
  rw [← law_seq_eq_pi_run ν M hprob samp cs.get (fun i a => hM _ (List.get_mem cs i) a)
    (fun i a => hs _ (List.get_mem cs i) a) (fun i => hg _ (List.get_mem cs i)) D]
  congr 2
  exact (List.ofFn_getElem_eq_map cs Tools.Cell.plan).symm

end PM

namespace Tools
open MeasureTheory
open scoped DPL.PM

theorem map_range_eq_ofFn {β : Type} (n : ℕ) (h : ℕ → β) :
    (List.range n).map h = List.ofFn (fun i : Fin n => h i) := by
  apply List.ext_getElem <;> simp

variable {Ω : Type} [MeasurableSpace Ω]

/-- the cells of `_wrap_axis`, indexed by `Fin size` -/
def axisCellFn {β : Type} (dflt : β) (size : ℕ) (bounds : ℕ → ℝ × ℝ) (mk : (l u : ℝ) → Cell (List β) ℝ ℝ)
    (c : Fin size) : Cell (List (List β)) ℝ ℝ :=
  ⟨(mk (bounds c).1 (bounds c).2).c, fun D => (mk (bounds c).1 (bounds c).2).inp (column dflt c D),
    (mk (bounds c).1 (bounds c).2).g⟩

/-- **`_wrap_axis` over one-invocation cells: the output law is the law of the run on `size` independent blocks** -/
theorem wrapAxis_law_eq_pi_run {β : Type} (dflt : β) (size : ℕ) (ε : ℝ) (bounds : ℕ → ℝ × ℝ)
    (cell : (ε l u : ℝ) → Plan (List β) ℝ ℝ) (mk : (l u : ℝ) → Cell (List β) ℝ ℝ)
    (hcell : ∀ l u, cell (ε / (size : ℝ)) l u = (mk l u).plan)
    (ν : Measure Ω) [IsProbabilityMeasure ν] (M : MechCall ℝ → ℝ → Measure ℝ)
    (hprob : ∀ c a, IsProbabilityMeasure (M c a)) (samp : MechCall ℝ → ℝ → Ω → ℝ)
    (hM : ∀ c : Fin size, ∀ a, M (mk (bounds c).1 (bounds c).2).c a = ν.map (samp (mk (bounds c).1 (bounds c).2).c a))
    (hs : ∀ c : Fin size, ∀ a, Measurable (samp (mk (bounds c).1 (bounds c).2).c a))
    (hg : ∀ l u, Measurable (mk l u).g) (D : List (List β)) :
    (wrapAxis dflt size ε bounds cell).law M D
      = (Measure.pi fun _ : Fin size => ν).map (PM.runCells samp (axisCellFn dflt size bounds mk) D) := by
  rw [wrapAxis_eq_cells dflt size ε bounds cell mk hcell]
  unfold axisCells
  rw [List.map_map, map_range_eq_ofFn]
  exact PM.law_seq_eq_pi_run ν M hprob samp (axisCellFn dflt size bounds mk) hM hs (fun c => hg _ _) D

/-- **`mean(axis=…)`, samplers included**: cell `c` (column `c` of the records × cells matrix, its own bounds, `ε/size`)
is released by `meanRun` on the `c`-th block of four uniforms -/
noncomputable def meanAxisRun (size n : ℕ) (ε : ℝ) (bounds : ℕ → ℝ × ℝ) (D : List (List ℝ))
    (ω : Fin size → ℝ × ℝ × ℝ × ℝ) : List ℝ :=
  List.ofFn fun c : Fin size => meanRun n (ε / (size : ℝ)) (bounds c).1 (bounds c).2 (column 0 c D) (ω c)

noncomputable def sumAxisRun (size n : ℕ) (ε : ℝ) (bounds : ℕ → ℝ × ℝ) (D : List (List ℝ))
    (ω : Fin size → ℝ × ℝ × ℝ × ℝ) : List ℝ :=
  List.ofFn fun c : Fin size => sumRun n (ε / (size : ℝ)) (bounds c).1 (bounds c).2 (column 0 c D) (ω c)

/-- the cells `_wrap_axis` builds from `_mean` -/
noncomputable def meanMk (size n : ℕ) (ε : ℝ) (l u : ℝ) : Cell (List ℝ) ℝ ℝ :=
  ⟨⟨"LaplaceTruncated", ε / (size : ℝ), 0, (u - l) / (n : ℝ), l, u, .osCsprng⟩, fun D => mean (D.map (clip l u)), id⟩

noncomputable def sumMk (size n : ℕ) (ε : ℝ) (l u : ℝ) : Cell (List ℝ) ℝ ℝ :=
  ⟨⟨"LaplaceTruncated", ε / (size : ℝ), 0, u - l, l * (n : ℝ), u * (n : ℝ), .osCsprng⟩,
    fun D => sum (D.map (clip l u)), id⟩

theorem meanAxisRun_eq (size n : ℕ) (ε : ℝ) (bounds : ℕ → ℝ × ℝ) (D : List (List ℝ)) :
    meanAxisRun size n ε bounds D
      = PM.runCells PM.truncLapSampler (axisCellFn 0 size bounds (meanMk size n ε)) D := rfl

theorem sumAxisRun_eq (size n : ℕ) (ε : ℝ) (bounds : ℕ → ℝ × ℝ) (D : List (List ℝ)) :
    sumAxisRun size n ε bounds D
      = PM.runCells PM.truncLapSampler (axisCellFn 0 size bounds (sumMk size n ε)) D := rfl

theorem measurable_meanAxisRun (size n : ℕ) (ε : ℝ) (bounds : ℕ → ℝ × ℝ) (D : List (List ℝ)) :
    Measurable (meanAxisRun size n ε bounds D) := by
  rw [meanAxisRun_eq]
  exact PM.measurable_runCells _ _ (fun _ _ => PM.measurable_truncLapSampler _ _) (fun _ => measurable_id) D

theorem measurable_sumAxisRun (size n : ℕ) (ε : ℝ) (bounds : ℕ → ℝ × ℝ) (D : List (List ℝ)) :
    Measurable (sumAxisRun size n ε bounds D) := by
  rw [sumAxisRun_eq]
  exact PM.measurable_runCells _ _ (fun _ _ => PM.measurable_truncLapSampler _ _) (fun _ => measurable_id) D

theorem meanAxis_law_eq_run (size n : ℕ) (hsize : 0 < size) (ε : ℝ) (hε : 0 < ε) (bounds : ℕ → ℝ × ℝ)
    (hb : ∀ c, (bounds c).1 ≤ (bounds c).2) (D : List (List ℝ)) :
    (wrapAxis 0 size ε bounds (meanPlan n)).law PM.truncLapKernel D
      = (Measure.pi fun _ : Fin size => Smp.unif01x4).map (meanAxisRun size n ε bounds D) := by
  rw [meanAxisRun_eq]
  have hpos : 0 < ε / (size : ℝ) := by positivity
  exact wrapAxis_law_eq_pi_run 0 size ε bounds (meanPlan n) (meanMk size n ε) (fun l u => rfl) Smp.unif01x4
    PM.truncLapKernel PM.truncLapKernel_isProb PM.truncLapSampler
    (fun c a => PM.truncLapKernel_eq_sampler_law _ hpos
      (div_nonneg (sub_nonneg.2 (hb c)) (Nat.cast_nonneg n)) rfl (hb c) a)
    (fun _ _ => PM.measurable_truncLapSampler _ _) (fun _ _ => measurable_id) D

theorem sumAxis_law_eq_run (size n : ℕ) (hsize : 0 < size) (ε : ℝ) (hε : 0 < ε) (bounds : ℕ → ℝ × ℝ)
    (hb : ∀ c, (bounds c).1 ≤ (bounds c).2) (D : List (List ℝ)) :
    (wrapAxis 0 size ε bounds (sumPlan n)).law PM.truncLapKernel D
      = (Measure.pi fun _ : Fin size => Smp.unif01x4).map (sumAxisRun size n ε bounds D) := by
  rw [sumAxisRun_eq]
  have hpos : 0 < ε / (size : ℝ) := by positivity
  exact wrapAxis_law_eq_pi_run 0 size ε bounds (sumPlan n) (sumMk size n ε) (fun l u => rfl) Smp.unif01x4
    PM.truncLapKernel PM.truncLapKernel_isProb PM.truncLapSampler
    (fun c a => PM.truncLapKernel_eq_sampler_law _ hpos (sub_nonneg.2 (hb c)) rfl
      (mul_le_mul_of_nonneg_right (hb c) (Nat.cast_nonneg n)) a)
    (fun _ _ => PM.measurable_truncLapSampler _ _) (fun _ _ => measurable_id) D

/-! ### histograms: one `GeometricTruncated` invocation per bin, one uniform per invocation -/

/-- the geometric sampler as a function of its uniform, totalised off the range `[0,1)` of `random()` (value 0 there):
the measurable version of `PM.geomSampler`, equal to it on `[0,1)` -/
noncomputable def geomSamplerT (c : MechCall ℝ) (a : ℝ) (u : ℝ) : ℝ := PM.clampZ c (PM.geomDrawT c.eps ⌊a⌋ u)

theorem geomSamplerT_eq (c : MechCall ℝ) (a u : ℝ) (hu : u ∈ Set.Ico (0 : ℝ) 1) :
    geomSamplerT c a u = PM.geomSampler c a u := by
  simp [geomSamplerT, PM.geomSampler, PM.geomDrawT, hu]

theorem geomKernel_eq_samplerT (c : MechCall ℝ) (hε : 0 < c.eps) (a : ℝ) :
    PM.geomKernel c a = Discrete.unif01.map (geomSamplerT c a) := by
  simp only [PM.geomKernel, if_pos hε]
  rfl

/-- **`histogram*`, samplers included**: bin `i` (in `nditer` order) is released by `GeometricTruncated(ε, 1, 0, maxsize)`
on its count with the `i`-th uniform -/
noncomputable def histRun (edges : List (List ℝ)) (ε maxsize : ℝ) (D : List (WRow ℝ))
    (ω : Fin (histCells edges false ε maxsize).length → ℝ) : List ℝ :=
  PM.runCells geomSamplerT (histCells edges false ε maxsize).get D ω

theorem measurable_histRun (edges : List (List ℝ)) (ε maxsize : ℝ) (hε : 0 < ε) (D : List (WRow ℝ)) :
    Measurable (histRun edges ε maxsize D) := by
  refine PM.measurable_runCells _ _ (fun i a => ?_) (fun i => ?_) D
  · obtain ⟨cell, _, hx⟩ := List.mem_map.mp (List.get_mem (histCells edges false ε maxsize) i)
    rw [← hx]
    exact PM.measurable_geomOut (histCall ε maxsize) hε ⌊a⌋
  · obtain ⟨cell, _, hx⟩ := List.mem_map.mp (List.get_mem (histCells edges false ε maxsize) i)
    rw [← hx]
    exact measurable_id

theorem hist_law_eq_run (edges : List (List ℝ)) (ε maxsize : ℝ) (hε : 0 < ε) (D : List (WRow ℝ)) :
    (histCalls edges false ε maxsize).law PM.geomKernel D
      = (Measure.pi fun _ : Fin (histCells edges false ε maxsize).length => Discrete.unif01).map
          (histRun edges ε maxsize D) := by
  have : IsProbabilityMeasure Discrete.unif01 := ⟨by simp [Discrete.unif01]⟩
  rw [histCalls_eq]
  refine PM.law_seq_cells_eq_pi_run Discrete.unif01 PM.geomKernel PM.geomKernel_isProb geomSamplerT _
    (fun x hx a => ?_) (fun x hx a => ?_) (fun x hx => ?_) D
  · obtain ⟨cell, _, rfl⟩ := List.mem_map.mp hx
    exact geomKernel_eq_samplerT (histCall ε maxsize) hε a
  · obtain ⟨cell, _, rfl⟩ := List.mem_map.mp hx
    exact PM.measurable_geomOut (histCall ε maxsize) hε ⌊a⌋
  · obtain ⟨cell, _, rfl⟩ := List.mem_map.mp hx
    exact measurable_id

end Tools
end DPL
