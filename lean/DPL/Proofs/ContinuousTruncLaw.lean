/-
The truncated (clamped) and the bounded-domain (conditioned) Laplace laws AS MEASURES, and integrals against them
(C19; the one-sided masses are also what C02's bounded-noise statement needs).

For a centre `v` inside a finite domain `[l, u]` and scale `b > 0`:
  * `∫_l^u y^j · lapDensity b v y dy` in closed form (`lap_M0`, `lap_M1`, `lap_M2`),
  * the tails `∫_{y ≤ l} = e^{(l-v)/b}/2`, `∫_{y > u} = e^{(v-u)/b}/2`,
  * `integral_clampLaw`:  `∫ g d(clamp_# Laplace) = g(l)·P[X ≤ l] + ∫_l^u g·density + g(u)·P[X > u]` for continuous `g`,
  * `integral_condLaw`:   `∫ g d(Laplace | [l,u]) = (∫_l^u g·density) / P[l ≤ X ≤ u]`.
-/
import DPL.Proofs.ContinuousIntegrals
import DPL.Proofs.ContinuousDP
import DPL.Proofs.ContinuousTruncIntegrals
import Mathlib.Analysis.SpecialFunctions.ImproperIntegrals
import Mathlib.MeasureTheory.Integral.Bochner.ContinuousLinearMap

namespace DPL.Cont
open MeasureTheory Real Set

/-! ### the two branches of the density -/

theorem lapDensity_of_le (b v y : ℝ) (h : y ≤ v) : lapDensity b v y = Real.exp ((y - v) / b) / (2 * b) := by
  unfold lapDensity
  rw [abs_of_nonpos (by linarith), neg_neg]

theorem lapDensity_of_ge (b v y : ℝ) (h : v ≤ y) : lapDensity b v y = Real.exp ((v - y) / b) / (2 * b) := by
  unfold lapDensity
  rw [abs_of_nonneg (by linarith), neg_sub]

theorem continuous_lapDensity (b v : ℝ) : Continuous (lapDensity b v) := by
  unfold lapDensity
  fun_prop

/-! ### interval integrals on one side of the centre, and across it -/

theorem intervalIntegral_lapDensity_left (g : ℝ → ℝ) (b v a c : ℝ) (hac : a ≤ c) (hcv : c ≤ v) :
    (∫ y in a..c, g y * lapDensity b v y) = ∫ y in a..c, g y * (Real.exp ((y - v) / b) / (2 * b)) := by
  apply intervalIntegral.integral_congr
  intro y hy
  rw [uIcc_of_le hac] at hy
  simp only [lapDensity_of_le b v y (hy.2.trans hcv)]

theorem intervalIntegral_lapDensity_right (g : ℝ → ℝ) (b v a c : ℝ) (hac : a ≤ c) (hva : v ≤ a) :
    (∫ y in a..c, g y * lapDensity b v y) = ∫ y in a..c, g y * (Real.exp ((v - y) / b) / (2 * b)) := by
  apply intervalIntegral.integral_congr
  intro y hy
  rw [uIcc_of_le hac] at hy
  simp only [lapDensity_of_ge b v y (hva.trans hy.1)]

theorem intervalIntegral_lapDensity_split (g : ℝ → ℝ) (hg : Continuous g) (b l u v : ℝ) (hlv : l ≤ v) (hvu : v ≤ u) :
    (∫ y in l..u, g y * lapDensity b v y) =
      (∫ y in l..v, g y * (Real.exp ((y - v) / b) / (2 * b))) +
        ∫ y in v..u, g y * (Real.exp ((v - y) / b) / (2 * b)) := by
  have hc : Continuous (fun y => g y * lapDensity b v y) := hg.mul (continuous_lapDensity b v)
  rw [← intervalIntegral.integral_add_adjacent_intervals (hc.intervalIntegrable l v) (hc.intervalIntegrable v u),
    intervalIntegral_lapDensity_left g b v l v hlv le_rfl, intervalIntegral_lapDensity_right g b v v u hvu le_rfl]

/-- mass of `[l, u]`: `1 - e^{(l-v)/b}/2 - e^{(v-u)/b}/2` -/
theorem lap_M0 (b l u v : ℝ) (hb : b ≠ 0) (hlv : l ≤ v) (hvu : v ≤ u) :
    (∫ y in l..u, lapDensity b v y) = 1 - Real.exp ((l - v) / b) / 2 - Real.exp ((v - u) / b) / 2 := by
  have h := intervalIntegral_lapDensity_split (fun _ => 1) continuous_const b l u v hlv hvu
  simp only [one_mul] at h
  rw [h, integral_up0 b v l v hb, integral_down0 b v v u hb]
  simp only [sub_self, zero_div, Real.exp_zero]
  ring

/-- first moment over `[l, u]` -/
theorem lap_M1 (b l u v : ℝ) (hb : b ≠ 0) (hlv : l ≤ v) (hvu : v ≤ u) :
    (∫ y in l..u, y * lapDensity b v y) =
      ((v - b) / 2 - (l - b) * Real.exp ((l - v) / b) / 2) +
        ((v + b) / 2 - (u + b) * Real.exp ((v - u) / b) / 2) := by
  rw [intervalIntegral_lapDensity_split (fun y => y) continuous_id b l u v hlv hvu,
    integral_up1 b v l v hb, integral_down1 b v v u hb]
  simp only [sub_self, zero_div, Real.exp_zero, mul_one]

/-- second moment over `[l, u]` -/
theorem lap_M2 (b l u v : ℝ) (hb : b ≠ 0) (hlv : l ≤ v) (hvu : v ≤ u) :
    (∫ y in l..u, y ^ 2 * lapDensity b v y) =
      ((v ^ 2 - 2 * b * v + 2 * b ^ 2) / 2 - (l ^ 2 - 2 * b * l + 2 * b ^ 2) * Real.exp ((l - v) / b) / 2) +
        ((v ^ 2 + 2 * b * v + 2 * b ^ 2) / 2 - (u ^ 2 + 2 * b * u + 2 * b ^ 2) * Real.exp ((v - u) / b) / 2) := by
  rw [intervalIntegral_lapDensity_split (fun y => y ^ 2) (by fun_prop) b l u v hlv hvu,
    integral_up2 b v l v hb, integral_down2 b v v u hb]
  simp only [sub_self, zero_div, Real.exp_zero, mul_one]

/-! ### centred versions, by linearity -/

theorem lap_centered1 (b l u v c : ℝ) :
    (∫ y in l..u, (y - c) * lapDensity b v y) =
      (∫ y in l..u, y * lapDensity b v y) - c * ∫ y in l..u, lapDensity b v y := by
  have hd := continuous_lapDensity b v
  have h1 : IntervalIntegrable (fun y => y * lapDensity b v y) volume l u :=
    (continuous_id.mul hd).intervalIntegrable _ _
  have h0 : IntervalIntegrable (fun y => c * lapDensity b v y) volume l u :=
    (continuous_const.mul hd).intervalIntegrable _ _
  rw [← intervalIntegral.integral_const_mul, ← intervalIntegral.integral_sub h1 h0]
  refine intervalIntegral.integral_congr (fun y _ => ?_)
  ring

theorem lap_centered2 (b l u v c : ℝ) :
    (∫ y in l..u, (y - c) ^ 2 * lapDensity b v y) =
      (∫ y in l..u, y ^ 2 * lapDensity b v y) - 2 * c * (∫ y in l..u, y * lapDensity b v y) +
        c ^ 2 * ∫ y in l..u, lapDensity b v y := by
  have hd := continuous_lapDensity b v
  have h2 : IntervalIntegrable (fun y => y ^ 2 * lapDensity b v y) volume l u :=
    ((continuous_id.pow 2).mul hd).intervalIntegrable _ _
  have h1 : IntervalIntegrable (fun y => 2 * c * (y * lapDensity b v y)) volume l u :=
    (continuous_const.mul (continuous_id.mul hd)).intervalIntegrable _ _
  have h0 : IntervalIntegrable (fun y => c ^ 2 * lapDensity b v y) volume l u :=
    (continuous_const.mul hd).intervalIntegrable _ _
  rw [← intervalIntegral.integral_const_mul, ← intervalIntegral.integral_const_mul,
    ← intervalIntegral.integral_sub h2 h1, ← intervalIntegral.integral_add (h2.sub h1) h0]
  refine intervalIntegral.integral_congr (fun y _ => ?_)
  ring

/-! ### the tails -/

/-- `P[X ≤ l] = e^{(l-v)/b}/2` for `l ≤ v` -/
theorem integral_lapDensity_Iic (b v l : ℝ) (hb : 0 < b) (hlv : l ≤ v) :
    ∫ y in Iic l, lapDensity b v y = Real.exp ((l - v) / b) / 2 := by
  have h1 : ∫ y in Iic l, lapDensity b v y =
      ∫ y in Iic l, Real.exp (-v / b) / (2 * b) * Real.exp (1 / b * y) := by
    refine setIntegral_congr_fun measurableSet_Iic (fun y hy => ?_)
    have hy' : y ≤ l := hy
    show lapDensity b v y = _
    rw [lapDensity_of_le b v y (hy'.trans hlv), div_mul_eq_mul_div, ← Real.exp_add]
    congr 2
    ring
  have h2 : Real.exp ((l - v) / b) = Real.exp (-v / b) * Real.exp (1 / b * l) := by
    rw [← Real.exp_add]; congr 1; ring
  rw [h1, integral_const_mul, integral_exp_mul_Iic (by positivity) l, h2]
  field_simp

/-- `P[X > u] = e^{(v-u)/b}/2` for `v ≤ u` -/
theorem integral_lapDensity_Ioi (b v u : ℝ) (hb : 0 < b) (hvu : v ≤ u) :
    ∫ y in Ioi u, lapDensity b v y = Real.exp ((v - u) / b) / 2 := by
  have h1 : ∫ y in Ioi u, lapDensity b v y =
      ∫ y in Ioi u, Real.exp (v / b) / (2 * b) * Real.exp (-(1 / b) * y) := by
    refine setIntegral_congr_fun measurableSet_Ioi (fun y hy => ?_)
    have hy' : u < y := hy
    show lapDensity b v y = _
    rw [lapDensity_of_ge b v y (hvu.trans hy'.le), div_mul_eq_mul_div, ← Real.exp_add]
    congr 2
    ring
  have h2 : Real.exp ((v - u) / b) = Real.exp (v / b) * Real.exp (-(1 / b) * u) := by
    rw [← Real.exp_add]; congr 1; ring
  have hneg : -(1 / b) < 0 := by
    have : 0 < 1 / b := by positivity
    linarith
  rw [h1, integral_const_mul, integral_exp_mul_Ioi hneg u, h2]
  field_simp

/-! ### the Laplace measure of a set is the integral of the density -/

theorem lapMeasure_eq_ofReal (b v : ℝ) (hb : 0 < b) (S : Set ℝ) (hS : MeasurableSet S) :
    lapMeasure b v S = ENNReal.ofReal (∫ y in S, lapDensity b v y) := by
  rw [lapMeasure_apply _ _ _ hS,
    ofReal_integral_eq_lintegral_ofReal (integrable_lapDensity b v hb).integrableOn
      (Filter.Eventually.of_forall (fun y => lapDensity_nonneg b v y hb))]

/-- integral against the Laplace law = integral against the density -/
theorem integral_lapMeasure (b v : ℝ) (hb : 0 < b) (h : ℝ → ℝ) :
    ∫ y, h y ∂(lapMeasure b v) = ∫ y, h y * lapDensity b v y := by
  unfold lapMeasure
  rw [integral_withDensity_eq_integral_toReal_smul (measurable_lapDensity b v).ennreal_ofReal
    (Filter.Eventually.of_forall (fun _ => ENNReal.ofReal_lt_top))]
  refine integral_congr_ae (Filter.Eventually.of_forall (fun y => ?_))
  simp only [ENNReal.toReal_ofReal (lapDensity_nonneg b v y hb), smul_eq_mul]
  ring

theorem setIntegral_lapMeasure (b v : ℝ) (hb : 0 < b) (h : ℝ → ℝ) (S : Set ℝ) (hS : MeasurableSet S) :
    ∫ y in S, h y ∂(lapMeasure b v) = ∫ y in S, h y * lapDensity b v y := by
  unfold lapMeasure
  rw [restrict_withDensity hS,
    integral_withDensity_eq_integral_toReal_smul (measurable_lapDensity b v).ennreal_ofReal
      (Filter.Eventually.of_forall (fun _ => ENNReal.ofReal_lt_top))]
  refine integral_congr_ae (Filter.Eventually.of_forall (fun y => ?_))
  simp only [ENNReal.toReal_ofReal (lapDensity_nonneg b v y hb), smul_eq_mul]
  ring

/-! ### the truncated (clamped) law -/

theorem clamp_of_le (l u y : ℝ) (hlu : l ≤ u) (h : y ≤ l) : max l (min y u) = l := by
  rw [min_eq_left (h.trans hlu), max_eq_left h]

theorem clamp_of_mem (l u y : ℝ) (h1 : l ≤ y) (h2 : y ≤ u) : max l (min y u) = y := by
  rw [min_eq_left h2, max_eq_right h1]

theorem clamp_of_ge (l u y : ℝ) (hlu : l ≤ u) (h : u ≤ y) : max l (min y u) = u := by
  rw [min_eq_right h, max_eq_right hlu]

/-- **integral against the law of `clamp(v + Laplace(b))`**, `l ≤ v ≤ u`, for a continuous `g`: point mass
`P[X ≤ l]` at `l`, the density on `(l, u]`, point mass `P[X > u]` at `u` -/
theorem integral_clampLaw (g : ℝ → ℝ) (hg : Continuous g) (b l u v : ℝ) (hb : 0 < b) (hlv : l ≤ v) (hvu : v ≤ u) :
    ∫ y, g y ∂((lapMeasure b v).map (fun y => max l (min y u))) =
      g l * (Real.exp ((l - v) / b) / 2) + (∫ y in l..u, g y * lapDensity b v y) +
        g u * (Real.exp ((v - u) / b) / 2) := by
  have hlu : l ≤ u := hlv.trans hvu
  rw [integral_map (measurable_truncate l u).aemeasurable hg.aestronglyMeasurable, integral_lapMeasure b v hb]
  -- integrability of the integrand: bounded × integrable
  obtain ⟨C, hC⟩ := isCompact_Icc.exists_bound_of_continuousOn (hg.continuousOn (s := Icc l u))
  have hcont : Continuous (fun y => g (max l (min y u)) * lapDensity b v y) := by
    have : Continuous (fun y : ℝ => max l (min y u)) := by fun_prop
    exact (hg.comp this).mul (continuous_lapDensity b v)
  have hint : Integrable (fun y => g (max l (min y u)) * lapDensity b v y) := by
    refine Integrable.mono' ((integrable_lapDensity b v hb).const_mul C) hcont.aestronglyMeasurable
      (Filter.Eventually.of_forall (fun y => ?_))
    have hmem : max l (min y u) ∈ Icc l u := ⟨le_max_left _ _, max_le hlu (min_le_right _ _)⟩
    rw [norm_mul, Real.norm_of_nonneg (lapDensity_nonneg b v y hb)]
    exact mul_le_mul_of_nonneg_right (hC _ hmem) (lapDensity_nonneg b v y hb)
  have hdisj : Disjoint (Ioc l u) (Ioi u) :=
    Set.disjoint_left.mpr (fun y hy1 hy2 => not_lt.mpr hy1.2 hy2)
  rw [← intervalIntegral.integral_Iic_add_Ioi (b := l) hint.integrableOn hint.integrableOn,
    ← Ioc_union_Ioi_eq_Ioi hlu,
    setIntegral_union hdisj measurableSet_Ioi hint.integrableOn hint.integrableOn]
  have e1 : ∫ y in Iic l, g (max l (min y u)) * lapDensity b v y = g l * (Real.exp ((l - v) / b) / 2) := by
    rw [← integral_lapDensity_Iic b v l hb hlv, ← integral_const_mul]
    refine setIntegral_congr_fun measurableSet_Iic (fun y hy => ?_)
    show g (max l (min y u)) * lapDensity b v y = _
    rw [clamp_of_le l u y hlu hy]
  have e2 : ∫ y in Ioc l u, g (max l (min y u)) * lapDensity b v y = ∫ y in l..u, g y * lapDensity b v y := by
    rw [intervalIntegral.integral_of_le hlu]
    refine setIntegral_congr_fun measurableSet_Ioc (fun y hy => ?_)
    show g (max l (min y u)) * lapDensity b v y = _
    rw [clamp_of_mem l u y hy.1.le hy.2]
  have e3 : ∫ y in Ioi u, g (max l (min y u)) * lapDensity b v y = g u * (Real.exp ((v - u) / b) / 2) := by
    rw [← integral_lapDensity_Ioi b v u hb hvu, ← integral_const_mul]
    refine setIntegral_congr_fun measurableSet_Ioi (fun y hy => ?_)
    have hy' : u < y := hy
    show g (max l (min y u)) * lapDensity b v y = _
    rw [clamp_of_ge l u y hlu hy'.le]
  rw [e1, e2, e3]
  ring

/-- the clamped law is a probability law (take `g = 1`) -/
theorem clampLaw_total (b l u v : ℝ) (hb : 0 < b) (hlv : l ≤ v) (hvu : v ≤ u) :
    ∫ _y, (1 : ℝ) ∂((lapMeasure b v).map (fun y => max l (min y u))) = 1 := by
  have h := integral_clampLaw (fun _ => 1) continuous_const b l u v hb hlv hvu
  simp only [one_mul] at h
  rw [h, lap_M0 b l u v hb.ne' hlv hvu]
  ring

/-! ### the bounded-domain (conditioned) law -/

/-- `P[l ≤ X ≤ u]` for the Laplace law centred inside `[l, u]` -/
theorem lapMeasure_Icc (b l u v : ℝ) (hb : 0 < b) (hlv : l ≤ v) (hvu : v ≤ u) :
    lapMeasure b v (Icc l u) =
      ENNReal.ofReal (1 - Real.exp ((l - v) / b) / 2 - Real.exp ((v - u) / b) / 2) := by
  rw [lapMeasure_eq_ofReal b v hb _ measurableSet_Icc, integral_Icc_eq_integral_Ioc,
    ← intervalIntegral.integral_of_le (hlv.trans hvu), lap_M0 b l u v hb.ne' hlv hvu]

/-- the normaliser is positive when the domain is not a single point -/
theorem lap_M0_pos (b l u v : ℝ) (hb : 0 < b) (hlu : l < u) (hlv : l ≤ v) (hvu : v ≤ u) :
    0 < 1 - Real.exp ((l - v) / b) / 2 - Real.exp ((v - u) / b) / 2 := by
  have h1 : Real.exp ((l - v) / b) ≤ 1 := by
    rw [← Real.exp_zero]; apply Real.exp_le_exp.mpr
    exact div_nonpos_of_nonpos_of_nonneg (by linarith) hb.le
  have h2 : Real.exp ((v - u) / b) ≤ 1 := by
    rw [← Real.exp_zero]; apply Real.exp_le_exp.mpr
    exact div_nonpos_of_nonpos_of_nonneg (by linarith) hb.le
  rcases lt_or_ge l v with h | h
  · have : Real.exp ((l - v) / b) < 1 := by
      rw [← Real.exp_zero]; apply Real.exp_lt_exp.mpr
      exact div_neg_of_neg_of_pos (by linarith) hb
    linarith
  · have hv : v < u := by linarith
    have : Real.exp ((v - u) / b) < 1 := by
      rw [← Real.exp_zero]; apply Real.exp_lt_exp.mpr
      exact div_neg_of_neg_of_pos (by linarith) hb
    linarith

/-- **integral against the Laplace law conditioned on `[l, u]`** (the law `LaplaceBoundedDomain` samples from):
the density restricted to the domain and divided by the mass of the domain -/
theorem integral_condLaw (g : ℝ → ℝ) (b l u v : ℝ) (hb : 0 < b) (hlu : l < u) (hlv : l ≤ v) (hvu : v ≤ u) :
    ∫ y, g y ∂((lapMeasure b v (Icc l u))⁻¹ • (lapMeasure b v).restrict (Icc l u)) =
      (∫ y in l..u, g y * lapDensity b v y) /
        (1 - Real.exp ((l - v) / b) / 2 - Real.exp ((v - u) / b) / 2) := by
  have hpos := lap_M0_pos b l u v hb hlu hlv hvu
  rw [integral_smul_measure, lapMeasure_Icc b l u v hb hlv hvu, ENNReal.toReal_inv,
    ENNReal.toReal_ofReal hpos.le, setIntegral_lapMeasure b v hb g _ measurableSet_Icc,
    integral_Icc_eq_integral_Ioc, ← intervalIntegral.integral_of_le hlu.le, smul_eq_mul]
  field_simp

/-! ### the two laws -/

/-- the output law of `LaplaceTruncated` at value `v`: `clamp(v + Laplace(b))` -/
noncomputable def truncLaw (b l u v : ℝ) : Measure ℝ := (lapMeasure b v).map (fun y => max l (min y u))

/-- the output law of `LaplaceBoundedDomain` at value `v`: the Laplace law conditioned on `[l, u]` -/
noncomputable def bdLaw (b l u v : ℝ) : Measure ℝ :=
  (lapMeasure b v (Icc l u))⁻¹ • (lapMeasure b v).restrict (Icc l u)

theorem truncLaw_univ (b l u v : ℝ) (hb : 0 < b) : truncLaw b l u v Set.univ = 1 := by
  unfold truncLaw
  rw [Measure.map_apply (measurable_truncate l u) MeasurableSet.univ, Set.preimage_univ, lapMeasure_univ b v hb]

theorem bdLaw_univ (b l u v : ℝ) (hb : 0 < b) (hlu : l < u) (hlv : l ≤ v) (hvu : v ≤ u) :
    bdLaw b l u v Set.univ = 1 := by
  unfold bdLaw
  rw [Measure.smul_apply, Measure.restrict_apply MeasurableSet.univ, Set.univ_inter, smul_eq_mul]
  refine ENNReal.inv_mul_cancel ?_ ?_
  · rw [lapMeasure_Icc b l u v hb hlv hvu]
    have := lap_M0_pos b l u v hb hlu hlv hvu
    rw [ne_eq, ENNReal.ofReal_eq_zero, not_le]
    exact this
  · exact ne_top_of_le_ne_top ENNReal.one_ne_top (lapMeasure_le_one b v hb _)

end DPL.Cont
