/-
C03: the model's Canonne–Kamath–Steinke loop with ALL its fuels as parameters (`cksLoopG fb fg fa`: coin fuel of the
geometric loop, cap on the geometric count, coin fuel of the acceptance test; the model is the instance 64/4096/4096,
`cksLoopG_model`) and the converse of `cksLoop_sub`: every run of the unbounded loop `loopI` is a run of `cksLoopG` for all
large enough fuels (`loopI_sup`).  Hence "for some fuels the parametrised model returns `y`" is the event `retI`
(`retG_eq_retI`): as the fuels grow the model's law is exactly the discrete Gaussian and the fuel-exhaustion event
vanishes (`abortG_null`).
-/
import DPL.Proofs.SamplersStreamCKSFinal

namespace DPL.SmpS
open MeasureTheory Set DPL.Discrete
open scoped ENNReal

/-- `Smp.geomCount` with the fuel of its `bernoulli_neg_exp` calls as a parameter -/
noncomputable def geomCountG (fb : ℕ) (τ : ℝ) : ℕ → ℕ → List ℝ → Option (ℕ × List ℝ)
  | 0, _, _ => none
  | fuel + 1, n, us =>
    match Smp.bernNegExp fb τ us with
    | none => none
    | some (true, us') => geomCountG fb τ fuel (n + 1) us'
    | some (false, us') => some (n, us')

/-- `Smp.cksLoop` with its three inner fuels as parameters -/
noncomputable def cksLoopG (fb fg fa : ℕ) (τ σ2 : ℝ) : ℕ → List ℝ → Option (ℤ × List ℝ)
  | 0, _ => none
  | fuel + 1, us =>
    match geomCountG fb τ fg 0 us with
    | none => none
    | some (_, []) => none
    | some (gx, u :: us2) =>
      let b := decide (u < 1 / 2)
      if b && gx == 0 then cksLoopG fb fg fa τ σ2 fuel us2
      else
        let y : Int := if b then -(gx : Int) else (gx : Int)
        match Smp.bernNegExp fa (Smp.cksGamma τ σ2 gx) us2 with
        | none => none
        | some (true, us3) => some (y, us3)
        | some (false, us3) => cksLoopG fb fg fa τ σ2 fuel us3

theorem geomCountG_model (τ : ℝ) : ∀ (F n : ℕ) (l : List ℝ), Smp.geomCount τ F n l = geomCountG 64 τ F n l := by
  intro F
  induction F with
  | zero => intro n l; rfl
  | succ F ih =>
    intro n l
    simp only [Smp.geomCount, geomCountG, ih]
    split <;> simp_all

/-- the model is the instance 64 / 4096 / 4096 -/
theorem cksLoopG_model (τ σ2 : ℝ) : ∀ (n : ℕ) (l : List ℝ), Smp.cksLoop τ σ2 n l = cksLoopG 64 4096 4096 τ σ2 n l := by
  intro n
  induction n with
  | zero => intro l; rfl
  | succ n ih =>
    intro l
    simp only [Smp.cksLoop, cksLoopG, geomCountG_model, ih]
    split <;> simp_all
    split_ifs
    all_goals first | rfl | (split <;> simp_all)

/-! ### forward: the parametrised model is a restriction of `loopI` -/

theorem geomCountG_sub (fb : ℕ) (τ : ℝ) (h0 : 0 ≤ τ) : ∀ (F n : ℕ) (l : List ℝ) (m : ℕ) (rest : List ℝ),
    geomCountG fb τ F n l = some (m, rest) → ∃ j, m = n + j ∧ geomI τ F l = .ok (j, rest) := by
  intro F
  induction F with
  | zero => intro n l m rest h; simp [geomCountG] at h
  | succ F ih =>
    intro n l m rest h
    simp only [geomCountG] at h
    cases hb : Smp.bernNegExp fb τ l with
    | none => rw [hb] at h; simp at h
    | some p =>
      obtain ⟨b, us'⟩ := p
      rw [hb] at h
      have hI := bernNegExp_sub fb τ h0 l b us' hb
      cases b with
      | true =>
        simp only at h
        obtain ⟨j, hj, hg⟩ := ih (n + 1) us' m rest h
        refine ⟨j + 1, by omega, ?_⟩
        simp only [geomI, bindS, hI, if_true, hg, retS]
      | false =>
        simp only [Option.some.injEq, Prod.mk.injEq] at h
        refine ⟨0, by omega, ?_⟩
        simp only [geomI, bindS, hI, Bool.false_eq_true, if_false, retS, h.2]

theorem cksLoopG_sub (fb fg fa : ℕ) (τ σ2 : ℝ) (h0 : 0 ≤ τ) (hσ : 0 < σ2) :
    ∀ (n : ℕ) (l : List ℝ) (y : ℤ) (rest : List ℝ),
    cksLoopG fb fg fa τ σ2 n l = some (y, rest) → loopI τ σ2 fg n l = .ok (y, rest) := by
  intro n
  induction n with
  | zero => intro l y rest h; simp [cksLoopG] at h
  | succ n ih =>
    intro l y rest h
    simp only [cksLoopG] at h
    cases hg : geomCountG fb τ fg 0 l with
    | none => rw [hg] at h; simp at h
    | some p =>
      obtain ⟨gx, l1⟩ := p
      rw [hg] at h
      obtain ⟨j, hj, hgI⟩ := geomCountG_sub fb τ h0 fg 0 l gx l1 hg
      have hj' : j = gx := by omega
      subst hj'
      cases l1 with
      | nil => simp at h
      | cons u us2 =>
        simp only at h
        by_cases hb : (decide (u < 1 / 2) && j == 0) = true
        · rw [if_pos hb] at h
          have := ih us2 y rest h
          simp only [loopI, passI, passK1, passK2, bindS, hgI, readBit, hb, if_true, retS, this]
        · rw [if_neg hb] at h
          cases ha : Smp.bernNegExp fa (Smp.cksGamma τ σ2 j) us2 with
          | none => rw [ha] at h; simp at h
          | some q =>
            obtain ⟨a, us3⟩ := q
            rw [ha] at h
            have hI := bernNegExp_sub fa _ (cksGamma_nonneg τ σ2 hσ j) us2 a us3 ha
            cases a with
            | true =>
              simp only [Option.some.injEq, Prod.mk.injEq] at h
              simp only [loopI, passI, passK1, passK2, bindS, hgI, readBit, hb, Bool.false_eq_true, if_false, hI,
                if_true, retS, sgn, h.1, h.2]
            | false =>
              simp only at h
              have := ih us3 y rest h
              simp only [loopI, passI, passK1, passK2, bindS, hgI, readBit, hb, Bool.false_eq_true, if_false, hI,
                retS, this]

/-! ### converse: a run of the unbounded loop is a run of the parametrised model for all large enough fuels -/

theorem bernLoop_sup (g : ℝ) : ∀ (l : List ℝ) (k : ℕ) (b : Bool) (rest : List ℝ),
    Discrete.bernLoop g l k = .ok (b, rest) → rest.length < l.length ∧
    ∀ F, l.length < F → ∃ k', Smp.bernCount g F k l = some (k', rest) ∧ (k' % 2 == 1) = b := by
  intro l
  induction l with
  | nil => intro k b rest h; simp [Discrete.bernLoop] at h
  | cons u us ih =>
    intro k b rest h
    rw [Discrete.bernLoop_cons] at h
    by_cases hu : u ≤ g / (k : ℝ)
    · rw [if_pos hu] at h
      obtain ⟨h1, h2⟩ := ih (k + 1) b rest h
      refine ⟨by simp only [List.length_cons]; omega, fun F hF => ?_⟩
      cases F with
      | zero => simp at hF
      | succ F₀ =>
        simp only [List.length_cons] at hF
        obtain ⟨k', hk', hp⟩ := h2 F₀ (by omega)
        exact ⟨k', by simp only [Smp.bernCount, hu, if_true, hk'], hp⟩
    · rw [if_neg hu] at h
      simp only [Except.ok.injEq, Prod.mk.injEq] at h
      refine ⟨by rw [← h.2]; simp, fun F hF => ?_⟩
      cases F with
      | zero => simp at hF
      | succ F₀ => exact ⟨k, by simp only [Smp.bernCount, hu, if_false, h.2], h.1⟩

theorem bernOuter_sup : ∀ (F' : ℕ) (γ : ℝ) (l : List ℝ) (b : Bool) (rest : List ℝ),
    Discrete.bernOuter F' γ l = .ok (b, rest) → rest.length < l.length ∧
    ∀ F : ℕ, l.length < F → γ < F → Smp.bernNegExp F γ l = some (b, rest) := by
  intro F'
  induction F' with
  | zero => intro γ l b rest h; simp [Discrete.bernOuter] at h
  | succ F' ih =>
    intro γ l b rest h
    simp only [Discrete.bernOuter] at h
    by_cases hg : 1 < γ
    · rw [if_pos hg] at h
      cases hl : Discrete.bernLoop (1:ℝ) l 1 with
      | error e => rw [hl] at h; simp at h
      | ok p =>
        obtain ⟨b1, us'⟩ := p
        rw [hl] at h
        obtain ⟨hlen, hcnt⟩ := bernLoop_sup 1 l 1 b1 us' hl
        cases b1 with
        | false =>
          simp only [Except.ok.injEq, Prod.mk.injEq] at h
          refine ⟨by rw [← h.2]; exact hlen, fun F hF hγ => ?_⟩
          cases F with
          | zero => simp at hF
          | succ F₀ =>
            obtain ⟨k', hk', hp⟩ := hcnt (F₀ + 1) hF
            simp only [Smp.bernNegExp, hg, if_true, hk', hp, Bool.false_eq_true, if_false, ← h.1, ← h.2]
        | true =>
          simp only at h
          obtain ⟨hlen2, hrec⟩ := ih (γ - 1) us' b rest h
          refine ⟨by omega, fun F hF hγ => ?_⟩
          cases F with
          | zero => simp at hF
          | succ F₀ =>
            obtain ⟨k', hk', hp⟩ := hcnt (F₀ + 1) hF
            have := hrec F₀ (by omega) (by push_cast at hγ; linarith)
            simp only [Smp.bernNegExp, hg, if_true, hk', hp, this]
    · rw [if_neg hg] at h
      obtain ⟨hlen, hcnt⟩ := bernLoop_sup γ l 1 b rest h
      refine ⟨hlen, fun F hF hγ => ?_⟩
      cases F with
      | zero => simp at hF
      | succ F₀ =>
        obtain ⟨k', hk', hp⟩ := hcnt (F₀ + 1) hF
        simp only [Smp.bernNegExp, hg, if_false, hk', hp]

theorem bernI_sup (γ : ℝ) (h0 : 0 ≤ γ) (l : List ℝ) (b : Bool) (rest : List ℝ) (h : bernI γ l = .ok (b, rest)) :
    rest.length < l.length ∧ ∀ F : ℕ, l.length < F → γ < F → Smp.bernNegExp F γ l = some (b, rest) := by
  unfold bernI at h
  rw [Discrete.bernNegExp_eq _ γ h0] at h
  exact bernOuter_sup _ γ l b rest h

theorem geomI_sup (τ : ℝ) (h0 : 0 ≤ τ) : ∀ (F : ℕ) (l : List ℝ) (j : ℕ) (rest : List ℝ),
    geomI τ F l = .ok (j, rest) → j + rest.length < l.length ∧
    ∀ fb : ℕ, l.length < fb → τ < fb → ∀ n, geomCountG fb τ F n l = some (n + j, rest) := by
  intro F
  induction F with
  | zero => intro l j rest h; simp [geomI] at h
  | succ F ih =>
    intro l j rest h
    cases hb : bernI τ l with
    | error e => simp [geomI, bindS, hb] at h
    | ok p =>
      obtain ⟨b, us'⟩ := p
      obtain ⟨hlen, hsm⟩ := bernI_sup τ h0 l b us' hb
      cases b with
      | false =>
        simp only [geomI, bindS, hb, Bool.false_eq_true, if_false, retS, Except.ok.injEq, Prod.mk.injEq] at h
        refine ⟨by rw [← h.1, ← h.2]; omega, fun fb hfb hτ n => ?_⟩
        simp only [geomCountG, hsm fb hfb hτ, ← h.1, ← h.2, Nat.add_zero]
      | true =>
        simp only [geomI, bindS, hb, if_true] at h
        cases hg : geomI τ F us' with
        | error e => rw [hg] at h; simp at h
        | ok q =>
          obtain ⟨j', r'⟩ := q
          rw [hg] at h
          simp only [retS, Except.ok.injEq, Prod.mk.injEq] at h
          obtain ⟨hlen2, hrec⟩ := ih us' j' r' hg
          refine ⟨by rw [← h.1, ← h.2]; omega, fun fb hfb hτ n => ?_⟩
          simp only [geomCountG, hsm fb hfb hτ, hrec fb (by omega) hτ (n + 1), ← h.1, ← h.2]
          congr 2; omega

theorem loopI_sup (τ σ2 : ℝ) (h0 : 0 ≤ τ) (hσ : 0 < σ2) (F : ℕ) :
    ∀ (n : ℕ) (l : List ℝ) (y : ℤ) (rest : List ℝ), loopI τ σ2 F n l = .ok (y, rest) →
    ∀ fb fa : ℕ, l.length < fb → τ < fb → l.length < fa → (∀ k, k ≤ l.length → Smp.cksGamma τ σ2 k < fa) →
    cksLoopG fb F fa τ σ2 n l = some (y, rest) := by
  intro n
  induction n with
  | zero => intro l y rest h; simp [loopI] at h
  | succ n ih =>
    intro l y rest h fb fa hfb hτ hfa hγ
    cases hg : geomI τ F l with
    | error e => simp [loopI, passI, bindS, hg] at h
    | ok p =>
      obtain ⟨gx, l1⟩ := p
      obtain ⟨hlen, hG⟩ := geomI_sup τ h0 F l gx l1 hg
      have hG0 := hG fb hfb hτ 0
      rw [Nat.zero_add] at hG0
      cases l1 with
      | nil => simp [loopI, passI, passK1, bindS, hg, readBit] at h
      | cons u us2 =>
        simp only [List.length_cons] at hlen
        by_cases hb : (decide (u < 1 / 2) && gx == 0) = true
        · simp only [loopI, passI, passK1, passK2, bindS, hg, readBit, hb, if_true, retS] at h
          have := ih us2 y rest h fb fa (by omega) hτ (by omega) (fun k hk => hγ k (by omega))
          simp only [cksLoopG, hG0, hb, if_true, this]
        · cases ha : bernI (Smp.cksGamma τ σ2 gx) us2 with
          | error e =>
            simp only [loopI, passI, passK1, passK2, bindS, hg, readBit, hb, Bool.false_eq_true, if_false, ha,
              reduceCtorEq] at h
          | ok q =>
            obtain ⟨a, us3⟩ := q
            obtain ⟨hlen3, hsm⟩ := bernI_sup _ (cksGamma_nonneg τ σ2 hσ gx) us2 a us3 ha
            have hsm' := hsm fa (by omega) (hγ gx (by omega))
            cases a with
            | true =>
              simp only [loopI, passI, passK1, passK2, bindS, hg, readBit, hb, Bool.false_eq_true, if_false, ha,
                if_true, retS, sgn, Except.ok.injEq, Prod.mk.injEq] at h
              simp only [cksLoopG, hG0, hb, Bool.false_eq_true, if_false, hsm', ← h.1, ← h.2]
            | false =>
              simp only [loopI, passI, passK1, passK2, bindS, hg, readBit, hb, Bool.false_eq_true, if_false, ha,
                retS] at h
              have := ih us3 y rest h fb fa (by omega) hτ (by omega) (fun k hk => hγ k (by omega))
              simp only [cksLoopG, hG0, hb, Bool.false_eq_true, if_false, hsm', this]

/-- fuels that suffice for every run on a list of length `L` -/
theorem exists_fuel_bound (τ σ2 : ℝ) (L : ℕ) :
    ∃ K : ℕ, L < K ∧ τ < K ∧ ∀ k, k ≤ L → Smp.cksGamma τ σ2 k < K := by
  refine ⟨L + 1 + (⌊τ⌋₊ + 1) + ∑ k ∈ Finset.range (L + 1), (⌊Smp.cksGamma τ σ2 k⌋₊ + 1), by omega, ?_, ?_⟩
  · have := Nat.lt_floor_add_one τ
    push_cast
    have h1 : (0:ℝ) ≤ ∑ k ∈ Finset.range (L + 1), ((⌊Smp.cksGamma τ σ2 k⌋₊ : ℝ) + 1) :=
      Finset.sum_nonneg (fun _ _ => by positivity)
    have h2 : (0:ℝ) ≤ (L : ℝ) := Nat.cast_nonneg _
    linarith
  · intro k hk
    have hk' : (⌊Smp.cksGamma τ σ2 k⌋₊ + 1 : ℕ) ≤ ∑ k ∈ Finset.range (L + 1), (⌊Smp.cksGamma τ σ2 k⌋₊ + 1) :=
      Finset.single_le_sum (f := fun k => ⌊Smp.cksGamma τ σ2 k⌋₊ + 1) (fun _ _ => Nat.zero_le _)
        (Finset.mem_range.mpr (by omega))
    have h1 : Smp.cksGamma τ σ2 k < ((⌊Smp.cksGamma τ σ2 k⌋₊ + 1 : ℕ) : ℝ) := by
      push_cast; exact Nat.lt_floor_add_one _
    have h2 : ((⌊Smp.cksGamma τ σ2 k⌋₊ + 1 : ℕ) : ℝ)
        ≤ ((∑ k ∈ Finset.range (L + 1), (⌊Smp.cksGamma τ σ2 k⌋₊ + 1) : ℕ) : ℝ) := by exact_mod_cast hk'
    have h3 : ((∑ k ∈ Finset.range (L + 1), (⌊Smp.cksGamma τ σ2 k⌋₊ + 1) : ℕ) : ℝ)
        ≤ ((L + 1 + (⌊τ⌋₊ + 1) + ∑ k ∈ Finset.range (L + 1), (⌊Smp.cksGamma τ σ2 k⌋₊ + 1) : ℕ) : ℝ) := by
      exact_mod_cast Nat.le_add_left _ _
    linarith

/-! ### the law with growing fuels -/

/-- "for some values of all the fuels, the parametrised model returns `y` on a prefix of the stream" -/
def retG (τ σ2 : ℝ) (y : ℤ) : Set (ℕ → ℝ) :=
  {ω | ∃ fb fg fa fuel N rest, cksLoopG fb fg fa τ σ2 fuel (pre ω N) = some (y, rest)}

/-- "whatever the fuels, the parametrised model never returns" -/
def abortG (τ σ2 : ℝ) : Set (ℕ → ℝ) := {ω | ∀ fb fg fa fuel N, cksLoopG fb fg fa τ σ2 fuel (pre ω N) = none}

theorem retG_eq_retI (τ σ2 : ℝ) (h0 : 0 ≤ τ) (hσ : 0 < σ2) (y : ℤ) : retG τ σ2 y = retI τ σ2 y := by
  ext ω
  constructor
  · rintro ⟨fb, fg, fa, fuel, N, rest, h⟩
    exact mem_iUnion.mpr ⟨(fg, fuel), N, rest, cksLoopG_sub fb fg fa τ σ2 h0 hσ fuel _ y rest h⟩
  · intro h
    obtain ⟨p, N, rest, hr⟩ := mem_iUnion.mp h
    obtain ⟨K, hK1, hK2, hK3⟩ := exists_fuel_bound τ σ2 N
    refine ⟨K, p.1, K, p.2, N, rest, ?_⟩
    exact loopI_sup τ σ2 h0 hσ p.1 p.2 _ y rest hr K K (by simpa using hK1) hK2 (by simpa using hK1)
      (fun k hk => hK3 k (by simpa using hk))

/-- **with growing fuels the model's loop has exactly the discrete Gaussian law** -/
theorem retG_law (τ σ2 : ℝ) (h0 : 0 < τ) (hσ : 0 < σ2) (y : ℤ) : streamμ (retG τ σ2 y) = dGauss σ2 y := by
  rw [retG_eq_retI τ σ2 h0.le hσ, retI_law τ σ2 h0 hσ]

/-! determinism of the unbounded loop, for the disjointness of the events `retI y` -/

theorem bernI_mono (γ : ℝ) : Mono (bernI γ) := bernNegExp_mono _ γ

theorem geomI_mono (τ : ℝ) : ∀ F, Mono (geomI τ F)
  | 0 => Mono.error _
  | F + 1 => by
    show Mono (bindS (bernI τ) _)
    refine Mono.bindS (bernI_mono τ) (fun b => ?_)
    cases b
    · simp only [Bool.false_eq_true, if_false]; exact Mono.retS 0
    · simp only [if_true]; exact Mono.bindS (geomI_mono τ F) (fun m => Mono.retS _)

theorem passI_mono (τ σ2 : ℝ) (F : ℕ) : Mono (passI τ σ2 F) := by
  refine Mono.bindS (geomI_mono τ F) (fun gx => Mono.bindS (Mono.of_boxSpec readBit_spec) (fun b => ?_))
  unfold passK2
  split_ifs
  · exact Mono.retS _
  · exact Mono.bindS (bernI_mono _) (fun a => Mono.retS _)

theorem loopI_mono (τ σ2 : ℝ) (F : ℕ) : ∀ n, Mono (loopI τ σ2 F n)
  | 0 => Mono.error _
  | n + 1 => by
    show Mono (bindS (passI τ σ2 F) _)
    refine Mono.bindS (passI_mono τ σ2 F) (fun o => ?_)
    cases o with
    | none => exact loopI_mono τ σ2 F n
    | some y => exact Mono.retS y

theorem retI_disjoint (τ σ2 : ℝ) (y y' : ℤ) (hne : y ≠ y') : Disjoint (retI τ σ2 y) (retI τ σ2 y') := by
  rw [Set.disjoint_left]
  intro ω h1 h2
  obtain ⟨p, hp⟩ := mem_iUnion.mp h1
  obtain ⟨p', hp'⟩ := mem_iUnion.mp h2
  obtain ⟨q, hq1, hq2⟩ := exists_ge_ge p p'
  have a := (loopI_sub τ σ2 hq1).ret_subset y hp
  have b := (loopI_sub τ σ2 hq2).ret_subset y' hp'
  exact Set.disjoint_left.mp (Ret_disjoint (loopI_mono τ σ2 q.1 q.2) y y' hne) a b

theorem retI_measurable (τ σ2 : ℝ) (h0 : 0 ≤ τ) (hσ : 0 < σ2) (y : ℤ) : MeasurableSet (retI τ σ2 y) :=
  MeasurableSet.iUnion (fun p => (loopI_isLaw τ σ2 h0 hσ p.1 p.2).measurable y)

/-- **the fuel-exhaustion event vanishes as the fuels grow**: almost surely the parametrised model returns for some
values of its fuels -/
theorem abortG_null (τ σ2 : ℝ) (h0 : 0 < τ) (hσ : 0 < σ2) : streamμ (abortG τ σ2) = 0 := by
  have hcompl : abortG τ σ2 = (⋃ y : ℤ, retG τ σ2 y)ᶜ := by
    ext ω
    simp only [abortG, mem_ofPred_eq, mem_compl_iff, mem_iUnion, retG, not_exists]
    constructor
    · intro h y fb fg fa fuel N rest hr
      rw [h fb fg fa fuel N] at hr; cases hr
    · intro h fb fg fa fuel N
      cases hr : cksLoopG fb fg fa τ σ2 fuel (pre ω N) with
      | none => rfl
      | some p => exact absurd hr (h p.1 fb fg fa fuel N p.2)
  have hm : ∀ y, MeasurableSet (retG τ σ2 y) := fun y => by
    rw [retG_eq_retI τ σ2 h0.le hσ]; exact retI_measurable τ σ2 h0.le hσ y
  have hd : Pairwise (Function.onFun Disjoint (retG τ σ2)) := by
    intro y y' hne
    simp only [Function.onFun, retG_eq_retI τ σ2 h0.le hσ]
    exact retI_disjoint τ σ2 y y' hne
  rw [hcompl, prob_compl_eq_zero_iff (MeasurableSet.iUnion hm), measure_iUnion hd hm]
  simp_rw [retG_law τ σ2 h0 hσ]
  exact dGauss_tsum σ2 hσ

end DPL.SmpS
