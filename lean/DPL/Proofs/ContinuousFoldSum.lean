/-
C19, folded Laplace: the mean of `fold(X)`, `X ~ Laplace(v, b)`, `l ≤ v ≤ u`, is `v + foldBiasOf b l u v`
(the value `LaplaceFolded.bias` reports).

The line is cut into the periods `(l + n·2w, l + (n+1)·2w]`, `n : ℤ`, `w = u - l`; the period integrals are evaluated in
`ContinuousFoldPieces` (`q^n · foldRc` on the right, `q^|n| · foldLc` on the left, `q = e^{-2w/b}`), summed as two
geometric series, and the result is simplified with `E1 = e^{(l-v)/b}`, `E2 = e^{(v-u)/b}` as atoms.
-/
import DPL.Proofs.ContinuousFoldPieces
import DPL.Proofs.ContinuousDP
import DPL.Proofs.RealCarrier
import DPL.Model.Moments
import Mathlib.Algebra.Order.ToIntervalMod
import Mathlib.Analysis.SpecificLimits.Basic
import Mathlib.Topology.Algebra.InfiniteSum.NatInt
import Mathlib.MeasureTheory.Integral.Bochner.ContinuousLinearMap

namespace DPL.Cont
open MeasureTheory Real Set

private theorem hasSum_of_eq' {ι : Type} {f g : ι → ℝ} {a b : ℝ} (h : HasSum g b) (hf : ∀ i, f i = g i)
    (hab : a = b) : HasSum f a := by
  have : f = g := funext hf
  rw [this, hab]; exact h

/-- the integral over the whole line is the sum over the periods -/
theorem hasSum_periods (b l u v : ℝ) (hb : 0 < b) (hlu : l < u) :
    HasSum (fun n : ℤ => ∫ y in (l + n * (2 * (u - l)))..(l + (n + 1) * (2 * (u - l))),
        foldMap l u y * lapDensity b v y)
      (∫ y, foldMap l u y * lapDensity b v y) := by
  have hint := integrable_foldMap_mul_lapDensity b l u v hb hlu
  have hp : 0 < 2 * (u - l) := by linarith
  have h := hasSum_integral_iUnion (μ := volume) (f := fun y => foldMap l u y * lapDensity b v y)
    (s := fun n : ℤ => Ioc (l + n • (2 * (u - l))) (l + (n + 1) • (2 * (u - l))))
    (fun _ => measurableSet_Ioc) (pairwise_disjoint_Ioc_add_zsmul l (2 * (u - l))) hint.integrableOn
  rw [iUnion_Ioc_add_zsmul hp l, setIntegral_univ] at h
  refine hasSum_of_eq' h (fun n => ?_) rfl
  simp only [zsmul_eq_mul, Int.cast_add, Int.cast_one]
  rw [intervalIntegral.integral_of_le]
  nlinarith

/-- `q = e^{-2w/b}`: the factor between consecutive periods -/
noncomputable def foldQ (b l u : ℝ) : ℝ := Real.exp (-(2 * (u - l) / b))

theorem foldQ_pos (b l u : ℝ) : 0 < foldQ b l u := Real.exp_pos _

theorem foldQ_lt_one (b l u : ℝ) (hb : 0 < b) (hlu : l < u) : foldQ b l u < 1 := by
  unfold foldQ
  rw [Real.exp_lt_one_iff]
  have : 0 < 2 * (u - l) / b := div_pos (by linarith) hb
  linarith

theorem foldQ_pow (b l u : ℝ) (m : ℕ) :
    foldQ b l u ^ (m + 1) = Real.exp (-(((m : ℝ) + 1) * (2 * (u - l)) / b)) := by
  unfold foldQ
  rw [← Real.exp_nat_mul]
  congr 1
  push_cast
  ring

/-- the mean of the folded variable as central period + two geometric series -/
theorem folded_mean_series (b l u v : ℝ) (hb : 0 < b) (hlu : l < u) (hlv : l ≤ v) (hvu : v ≤ u) :
    (∫ y, foldMap l u y * lapDensity b v y) =
      (foldCentre b l u v + foldHalf b l u v) +
        foldQ b l u * (1 - foldQ b l u)⁻¹ * foldRc b l u v + foldQ b l u * (1 - foldQ b l u)⁻¹ * foldLc b l u v := by
  have hw : 0 < u - l := sub_pos.mpr hlu
  set f : ℤ → ℝ := fun n => ∫ y in (l + n * (2 * (u - l)))..(l + (n + 1) * (2 * (u - l))),
        foldMap l u y * lapDensity b v y with hf
  have htot : HasSum f (∫ y, foldMap l u y * lapDensity b v y) := hasSum_periods b l u v hb hlu
  have hgeo := hasSum_geometric_of_lt_one (foldQ_pos b l u).le (foldQ_lt_one b l u hb hlu)
  have hgeo' : ∀ c : ℝ, HasSum (fun m : ℕ => foldQ b l u ^ (m + 1) * c)
      (foldQ b l u * (1 - foldQ b l u)⁻¹ * c) := by
    intro c
    have := (hgeo.mul_left (foldQ b l u)).mul_right c
    refine hasSum_of_eq' this (fun m => ?_) rfl
    rw [pow_succ']
  -- periods to the right
  have hR : ∀ m : ℕ, f ((m + 1 : ℕ) : ℤ) = foldQ b l u ^ (m + 1) * foldRc b l u v := by
    intro m
    simp only [hf]
    have hm : (0 : ℝ) ≤ m := Nat.cast_nonneg m
    rw [period_right b l u v hb hlu _ (by push_cast; nlinarith), foldQ_pow]
    push_cast
    rfl
  -- periods to the left
  have hL : ∀ m : ℕ, f (-((m : ℤ) + 1)) = foldQ b l u ^ (m + 1) * foldLc b l u v := by
    intro m
    simp only [hf]
    have hm : (0 : ℝ) ≤ m := Nat.cast_nonneg m
    rw [period_left b l u v hb hlu _ (by push_cast; nlinarith), foldQ_pow]
    push_cast
    congr 2
    ring
  have h0 : f 0 = foldCentre b l u v + foldHalf b l u v := by
    simp only [hf]
    have := period_zero b l u v hb hlu hlv hvu
    simpa using this
  have hnat : HasSum (fun n : ℕ => f (n : ℤ))
      (foldQ b l u * (1 - foldQ b l u)⁻¹ * foldRc b l u v + (foldCentre b l u v + foldHalf b l u v)) := by
    have := (hasSum_nat_add_iff (f := fun n : ℕ => f (n : ℤ)) 1).mp
      (hasSum_of_eq' (hgeo' (foldRc b l u v)) (fun m => hR m) rfl)
    simpa [h0] using this
  have hneg : HasSum (fun n : ℕ => f (-((n : ℤ) + 1))) (foldQ b l u * (1 - foldQ b l u)⁻¹ * foldLc b l u v) :=
    hasSum_of_eq' (hgeo' (foldLc b l u v)) (fun m => hL m) rfl
  have hall := HasSum.of_nat_of_neg_add_one hnat hneg
  rw [htot.unique hall]
  ring

/-- **C19, folded Laplace**: the bias `LaplaceFolded.bias` reports is the bias of the folded variable -/
theorem folded_mean (b l u v : ℝ) (hb : 0 < b) (hlu : l < u) (hlv : l ≤ v) (hvu : v ≤ u) :
    (∫ y, foldMap l u y * lapDensity b v y) - v = foldBiasOf b l u v := by
  rw [folded_mean_series b l u v hb hlu hlv hvu]
  have hq := foldQ_lt_one b l u hb hlu
  unfold foldCentre foldHalf foldRc foldLc foldBiasOf
  unfold foldQ at hq ⊢
  simp only [transc_exp]
  have hb' : b ≠ 0 := hb.ne'
  have e1 : Real.exp ((v - l) / b) = (Real.exp ((l - v) / b))⁻¹ := by
    rw [← Real.exp_neg]; congr 1; ring
  have e2 : Real.exp ((u - v) / b) = (Real.exp ((v - u) / b))⁻¹ := by
    rw [← Real.exp_neg]; congr 1; ring
  have e3 : Real.exp ((v - 2 * u + l) / b) = Real.exp ((l - v) / b) * Real.exp ((v - u) / b) ^ 2 := by
    rw [pow_two, ← Real.exp_add, ← Real.exp_add]; congr 1; ring
  have e4 : Real.exp ((2 * u - l - v) / b) = (Real.exp ((l - v) / b))⁻¹ * (Real.exp ((v - u) / b) ^ 2)⁻¹ := by
    rw [← mul_inv, ← e3, ← Real.exp_neg]; congr 1; ring
  have e5 : Real.exp (-(2 * (u - l) / b)) = Real.exp ((l - v) / b) ^ 2 * Real.exp ((v - u) / b) ^ 2 := by
    rw [pow_two, pow_two, ← Real.exp_add, ← Real.exp_add, ← Real.exp_add]; congr 1; ring
  have e6 : Real.exp ((l - u) / b) = Real.exp ((l - v) / b) * Real.exp ((v - u) / b) := by
    rw [← Real.exp_add]; congr 1; ring
  rw [e5] at hq
  rw [e1, e2, e3, e4, e5, e6]
  have p1 : 0 < Real.exp ((l - v) / b) := Real.exp_pos _
  have p2 : 0 < Real.exp ((v - u) / b) := Real.exp_pos _
  generalize Real.exp ((l - v) / b) = A at *
  generalize Real.exp ((v - u) / b) = C at *
  have h1 : 1 - A ^ 2 * C ^ 2 ≠ 0 := by linarith
  have h2 : A * C + 1 ≠ 0 := by positivity
  have h3 : A ≠ 0 := p1.ne'
  have h4 : C ≠ 0 := p2.ne'
  field_simp
  ring

/-- integral against the Laplace law = integral against its density -/
theorem integral_foldMap_lapMeasure (b l u v : ℝ) (hb : 0 < b) :
    (∫ y, foldMap l u y ∂(lapMeasure b v)) = ∫ y, foldMap l u y * lapDensity b v y := by
  unfold lapMeasure
  rw [integral_withDensity_eq_integral_toReal_smul
    ((measurable_lapDensity b v).ennreal_ofReal) (Filter.Eventually.of_forall fun y => ENNReal.ofReal_lt_top)]
  refine integral_congr_ae (Filter.Eventually.of_forall fun y => ?_)
  simp only [smul_eq_mul]
  rw [ENNReal.toReal_ofReal (lapDensity_nonneg b v y hb)]
  ring

/-- the same statement for the law: push-forward of the Laplace law under the folding map -/
theorem folded_mean_law (b l u v : ℝ) (hb : 0 < b) (hlu : l < u) (hlv : l ≤ v) (hvu : v ≤ u) :
    (∫ y, y ∂((lapMeasure b v).map (foldMap l u))) - v = foldBiasOf b l u v := by
  rw [← folded_mean b l u v hb hlu hlv hvu]
  congr 1
  rw [integral_map (measurable_foldMap l u).aemeasurable (f := fun y : ℝ => y) aestronglyMeasurable_id]
  exact integral_foldMap_lapMeasure b l u v hb

end DPL.Cont
