/-
C06 — soundness of the taint checker of DPL/Model/TaintIR.lean (core Lean only).

  `flow_mono`        under data-dependent control a tainted variable stays tainted
  `confined`         a statement that passes the check under data-dependent control (pc = true) writes only variables
                     that are tainted afterwards, consumes no forced output, configures no mechanism and never returns
  `flow_sound`       a statement that passes the check under clean control maps low-equivalent states to low-equivalent
                     results (same forced outputs left, same trace of configured calls, same returned values)
  `noninterference`  the theorem for a whole function (used as `DPL.C06.static_taint_sound`)
Loops are covered (the checker's closure test is the invariant); the statement is termination-, refusal- and
warning-insensitive: it speaks about pairs of runs that both return.
-/
import DPL.Model.TaintIR
namespace DPL
namespace TaintIR

theorem mem_ins (x y : Var) (Γ : Ctx) : y ∈ ins x Γ ↔ y = x ∨ y ∈ Γ := by
  unfold ins; split
  · rename_i h
    constructor
    · exact Or.inr
    · rintro (h' | h')
      · subst h'; simpa using h
      · exact h'
  · simp
theorem mem_del (x y : Var) (Γ : Ctx) : y ∈ del x Γ ↔ y ≠ x ∧ y ∈ Γ := by
  unfold del
  simp [List.mem_filter, and_comm]
theorem mem_union (a b : Ctx) (y : Var) : y ∈ union a b ↔ y ∈ a ∨ y ∈ b := by
  unfold union
  by_cases h : y ∈ a <;> simp [List.mem_filter, h]
theorem subset_spec {a b : Ctx} (h : subset a b = true) (y : Var) (hy : y ∈ a) : y ∈ b := by
  unfold subset at h
  simp only [List.all_eq_true] at h
  simpa using h y hy
theorem tainted_false {Γ : Ctx} {vs : List Var} (h : tainted Γ vs = false) : ∀ v ∈ vs, v ∉ Γ := by
  unfold tainted at h
  intro v hv hc
  have : vs.any (fun v => Γ.contains v) = true := List.any_eq_true.mpr ⟨v, hv, by simpa using hc⟩
  rw [this] at h; cases h

variable {V : Type}

/-- the two environments agree on every variable that is not tainted -/
def lowEq (Γ : Ctx) (e1 e2 : Var → V) : Prop := ∀ x, x ∉ Γ → e1 x = e2 x

theorem map_eq {Γ : Ctx} {vs : List Var} {e1 e2 : Var → V} (h : tainted Γ vs = false) (he : lowEq Γ e1 e2) :
    vs.map e1 = vs.map e2 :=
  List.map_congr_left fun v hv => he v (tainted_false h v hv)

/-! ### monotonicity under data-dependent control -/

theorem flow_mono : ∀ (s : Stmt) (Γ Γ' : Ctx), flow s Γ true = some Γ' → ∀ y, y ∈ Γ → y ∈ Γ' := by
  intro s
  induction s with
  | skip => intro Γ Γ' h y hy; simp only [flow] at h; cases h; exact hy
  | seq a b iha ihb =>
    intro Γ Γ' h y hy
    simp only [flow] at h
    split at h
    · rename_i Γa ha; exact ihb _ _ h y (iha _ _ ha y hy)
    · cases h
  | assign x op args =>
    intro Γ Γ' h y hy
    simp only [flow, Bool.true_or, if_true] at h
    cases h; exact (mem_ins _ _ _).2 (Or.inr hy)
  | declass x cfg inp => intro Γ Γ' h; simp [flow] at h
  | probe x args => intro Γ Γ' h; simp [flow] at h
  | branch id c t e iht ihe =>
    intro Γ Γ' h y hy
    simp only [flow, Bool.true_or] at h
    split at h
    · rename_i a b ha hb; cases h; exact (mem_union _ _ _).2 (Or.inl (iht _ _ ha y hy))
    · cases h
  | loop k id c b _ =>
    intro Γ Γ' h y hy
    simp only [flow] at h
    split at h
    · split at h
      · rename_i hs; cases h
        simp only [Bool.and_eq_true] at hs
        exact subset_spec hs.2 y hy
      · cases h
    · cases h
  | ret vs => intro Γ Γ' h; simp [flow] at h
  | halt hh =>
    intro Γ Γ' h y hy
    cases hh <;> simp [flow] at h
    cases h; exact hy

/-! ### confinement -/

/-- `r` is the result of running, from `st`, code that only writes variables in `Γ'` and touches nothing else -/
def Confined (Γ' : Ctx) (st : St V) : Res V → Prop
  | .run st' => (∀ x, x ∉ Γ' → st'.env x = st.env x) ∧ st'.outs = st.outs ∧ st'.trace = st.trace
  | .ret _ _ => False
  | .halt _ => True

theorem Confined.weaken {Γ₁ Γ₂ : Ctx} {st : St V} {r : Res V} (h : ∀ y, y ∈ Γ₁ → y ∈ Γ₂) (hc : Confined Γ₁ st r) :
    Confined Γ₂ st r := by
  cases r with
  | run st' => exact ⟨fun x hx => hc.1 x (fun hx' => hx (h x hx')), hc.2⟩
  | ret _ _ => exact hc
  | halt _ => trivial

theorem Confined.trans {Γ : Ctx} {st st' : St V} {r : Res V}
    (h : (∀ x, x ∉ Γ → st'.env x = st.env x) ∧ st'.outs = st.outs ∧ st'.trace = st.trace) (hc : Confined Γ st' r) :
    Confined Γ st r := by
  cases r with
  | run st'' =>
    exact ⟨fun x hx => (hc.1 x hx).trans (h.1 x hx), hc.2.1.trans h.2.1, hc.2.2.trans h.2.2⟩
  | ret _ _ => exact hc
  | halt _ => trivial

private def ConfA (I : Interp V) (n : Nat) : Prop :=
  ∀ (s : Stmt) (Γ Γ' : Ctx) (st : St V), flow s Γ true = some Γ' → Confined Γ' st (exec I n s st)
private def ConfB (I : Interp V) (n : Nat) : Prop :=
  ∀ (k id : Nat) (c : List Var) (b : Stmt) (inv Γb : Ctx) (st : St V), flow b inv true = some Γb →
    (∀ y, y ∈ Γb → y ∈ inv) → Confined inv st (exec I n (.loop k id c b) st)

private theorem confB_step (I : Interp V) (n : Nat) (hA : ConfA I n) (hB : ConfB I n) : ConfB I (n + 1) := by
  intro k id c b inv Γb st hb hsub
  simp only [exec]
  split
  · have h1 := hA b inv Γb st hb
    cases hr : exec I n b st with
    | run s' =>
      rw [hr] at h1
      simp only
      refine Confined.trans ⟨fun x hx => h1.1 x (fun hx' => hx (hsub x hx')), h1.2⟩ (hB k id c b inv Γb s' hb hsub)
    | ret _ _ => rw [hr] at h1; exact h1.elim
    | halt _ => trivial
  · exact ⟨fun _ _ => rfl, rfl, rfl⟩

private theorem conf_all (I : Interp V) : ∀ n, ConfA I n ∧ ConfB I n := by
  intro n
  induction n with
  | zero =>
    constructor
    · intro s Γ Γ' st _; simp only [exec]; trivial
    · intro k id c b inv Γb st _ _; simp only [exec]; trivial
  | succ n ih =>
    obtain ⟨hA, hB⟩ := ih
    have hB' := confB_step I n hA hB
    refine ⟨?_, hB'⟩
    intro s Γ Γ' st h
    cases s with
    | skip => simp only [flow] at h; cases h; exact ⟨fun _ _ => rfl, rfl, rfl⟩
    | seq a b =>
      simp only [flow] at h
      split at h
      · rename_i Γa ha
        simp only [exec]
        have h1 := hA a Γ Γa st ha
        cases hr : exec I n a st with
        | run s' =>
          rw [hr] at h1
          simp only
          have hm := flow_mono b Γa Γ' h
          exact Confined.trans ⟨fun x hx => h1.1 x (fun hx' => hx (hm x hx')), h1.2⟩ (hA b Γa Γ' s' h)
        | ret _ _ => rw [hr] at h1; exact h1.elim
        | halt _ => trivial
      · cases h
    | assign x op args =>
      simp only [flow, Bool.true_or, if_true] at h
      cases h
      simp only [exec]
      refine ⟨fun y hy => ?_, rfl, rfl⟩
      have : y ≠ x := fun hyx => hy ((mem_ins _ _ _).2 (Or.inl hyx))
      simp [upd, this]
    | declass x cfg inp => simp [flow] at h
    | probe x args => simp [flow] at h
    | branch id c t e =>
      simp only [flow, Bool.true_or] at h
      split at h
      · rename_i a b ha hb
        cases h
        simp only [exec]
        split
        · exact Confined.weaken (fun y hy => (mem_union _ _ _).2 (Or.inl hy)) (hA t Γ a st ha)
        · exact Confined.weaken (fun y hy => (mem_union _ _ _).2 (Or.inr hy)) (hA e Γ b st hb)
      · cases h
    | loop k id c b =>
      simp only [flow, Bool.true_or] at h
      split at h
      · rename_i Γb hb
        split at h
        · rename_i hs; cases h
          simp only [Bool.and_eq_true] at hs
          exact hB' k id c b _ Γb st hb (fun y hy => subset_spec hs.1 y hy)
        · cases h
      · cases h
    | ret vs => simp [flow] at h
    | halt hh => simp only [exec]; trivial

/-- code that passes the check under data-dependent control is confined -/
theorem confined (I : Interp V) (n : Nat) (s : Stmt) (Γ Γ' : Ctx) (st : St V) (h : flow s Γ true = some Γ') :
    Confined Γ' st (exec I n s st) := (conf_all I n).1 s Γ Γ' st h

theorem confined_loop (I : Interp V) (n k id : Nat) (c : List Var) (b : Stmt) (inv Γb : Ctx) (st : St V)
    (hb : flow b inv true = some Γb) (hsub : ∀ y, y ∈ Γb → y ∈ inv) :
    Confined inv st (exec I n (.loop k id c b) st) := (conf_all I n).2 k id c b inv Γb st hb hsub

/-! ### the relation between two runs -/

/-- same forced outputs left, same trace of configured calls, environments agree outside `Γ` -/
def SEq (Γ : Ctx) (s1 s2 : St V) : Prop := lowEq Γ s1.env s2.env ∧ s1.outs = s2.outs ∧ s1.trace = s2.trace

def Rel (Γ' : Ctx) : Res V → Res V → Prop
  | .run s1, .run s2 => SEq Γ' s1 s2
  | .ret t1 v1, .ret t2 v2 => t1 = t2 ∧ v1 = v2
  | .halt _, _ => True
  | _, .halt _ => True
  | _, _ => False

theorem Rel.halt_right (Γ : Ctx) (r : Res V) (h : Halt) : Rel Γ r (.halt h) := by
  cases r <;> trivial

theorem SEq.weaken {Γ₁ Γ₂ : Ctx} {s1 s2 : St V} (h : ∀ y, y ∈ Γ₁ → y ∈ Γ₂) (hs : SEq Γ₁ s1 s2) : SEq Γ₂ s1 s2 :=
  ⟨fun x hx => hs.1 x (fun hx' => hx (h x hx')), hs.2⟩

theorem Rel.weaken {Γ₁ Γ₂ : Ctx} {r1 r2 : Res V} (h : ∀ y, y ∈ Γ₁ → y ∈ Γ₂) (hr : Rel Γ₁ r1 r2) : Rel Γ₂ r1 r2 := by
  cases r1 <;> cases r2 <;> first | trivial | exact hr | exact SEq.weaken h hr

theorem rel_of_confined {Γ Γ' : Ctx} {s1 s2 : St V} {r1 r2 : Res V} (hs : SEq Γ s1 s2) (hsub : ∀ y, y ∈ Γ → y ∈ Γ')
    (h1 : Confined Γ' s1 r1) (h2 : Confined Γ' s2 r2) : Rel Γ' r1 r2 := by
  cases r1 with
  | halt _ => trivial
  | ret _ _ => exact h1.elim
  | run a =>
    cases r2 with
    | halt _ => trivial
    | ret _ _ => exact h2.elim
    | run b =>
      refine ⟨fun x hx => ?_, ?_, ?_⟩
      · rw [h1.1 x hx, h2.1 x hx]; exact hs.1 x (fun hx' => hx (hsub x hx'))
      · rw [h1.2.1, h2.2.1]; exact hs.2.1
      · rw [h1.2.2, h2.2.2]; exact hs.2.2

private def SndA (I : Interp V) (n : Nat) : Prop :=
  ∀ (s : Stmt) (Γ Γ' : Ctx) (s1 s2 : St V), flow s Γ false = some Γ' → SEq Γ s1 s2 →
    Rel Γ' (exec I n s s1) (exec I n s s2)
private def SndB (I : Interp V) (n : Nat) : Prop :=
  ∀ (k id : Nat) (c : List Var) (b : Stmt) (inv Γb : Ctx) (s1 s2 : St V), tainted inv c = false →
    flow b inv false = some Γb → (∀ y, y ∈ Γb → y ∈ inv) → SEq inv s1 s2 →
    Rel inv (exec I n (.loop k id c b) s1) (exec I n (.loop k id c b) s2)

private theorem sndB_step (I : Interp V) (n : Nat) (hA : SndA I n) (hB : SndB I n) : SndB I (n + 1) := by
  intro k id c b inv Γb s1 s2 hc hb hsub hs
  simp only [exec]
  rw [map_eq hc hs.1]
  split
  · have h1 := hA b inv Γb s1 s2 hb hs
    cases hr1 : exec I n b s1 with
    | halt _ => trivial
    | ret t1 v1 =>
      cases hr2 : exec I n b s2 with
      | halt _ => trivial
      | ret t2 v2 => rw [hr1, hr2] at h1; exact h1
      | run b2 => rw [hr1, hr2] at h1; exact h1.elim
    | run a1 =>
      cases hr2 : exec I n b s2 with
      | halt _ => exact Rel.halt_right _ _ _
      | ret t2 v2 => rw [hr1, hr2] at h1; exact h1.elim
      | run a2 =>
        rw [hr1, hr2] at h1
        exact hB k id c b inv Γb a1 a2 hc hb hsub (SEq.weaken hsub h1)
  · exact hs

private theorem snd_all (I : Interp V) : ∀ n, SndA I n ∧ SndB I n := by
  intro n
  induction n with
  | zero =>
    constructor
    · intro s Γ Γ' s1 s2 _ _; simp only [exec]; trivial
    · intro k id c b inv Γb s1 s2 _ _ _ _; simp only [exec]; trivial
  | succ n ih =>
    obtain ⟨hA, hB⟩ := ih
    have hB' := sndB_step I n hA hB
    refine ⟨?_, hB'⟩
    intro s Γ Γ' s1 s2 h hs
    cases s with
    | skip => simp only [flow] at h; cases h; exact hs
    | seq a b =>
      simp only [flow] at h
      split at h
      · rename_i Γa ha
        simp only [exec]
        have h1 := hA a Γ Γa s1 s2 ha hs
        cases hr1 : exec I n a s1 with
        | halt _ => trivial
        | ret t1 v1 =>
          cases hr2 : exec I n a s2 with
          | halt _ => trivial
          | ret t2 v2 => rw [hr1, hr2] at h1; exact h1
          | run b2 => rw [hr1, hr2] at h1; exact h1.elim
        | run a1 =>
          cases hr2 : exec I n a s2 with
          | halt _ => exact Rel.halt_right _ _ _
          | ret t2 v2 => rw [hr1, hr2] at h1; exact h1.elim
          | run a2 => rw [hr1, hr2] at h1; exact hA b Γa Γ' a1 a2 h h1
      · cases h
    | assign x op args =>
      simp only [flow, Bool.false_or] at h
      cases h
      simp only [exec]
      refine ⟨fun y hy => ?_, hs.2.1, hs.2.2⟩
      split at hy
      · have hyx : y ≠ x := fun e => hy ((mem_ins _ _ _).2 (Or.inl e))
        have : y ∉ Γ := fun e => hy ((mem_ins _ _ _).2 (Or.inr e))
        simp [upd, hyx, hs.1 y this]
      · rename_i hc
        have hc' : tainted Γ args = false := by simpa using hc
        by_cases hyx : y = x
        · simp [upd, hyx, map_eq hc' hs.1]
        · have : y ∉ Γ := fun e => hy ((mem_del _ _ _).2 ⟨hyx, e⟩)
          simp [upd, hyx, hs.1 y this]
    | declass x cfg inp =>
      simp only [flow, Bool.false_or] at h
      split at h
      · cases h
      · rename_i hc
        have hc' : tainted Γ cfg = false := by simpa using hc
        cases h
        simp only [exec]
        rw [← hs.2.1]
        cases s1.outs with
        | nil => trivial
        | cons o os =>
          refine ⟨fun y hy => ?_, rfl, ?_⟩
          · by_cases hyx : y = x
            · simp [upd, hyx]
            · have : y ∉ Γ := fun e => hy ((mem_del _ _ _).2 ⟨hyx, e⟩)
              simp [upd, hyx, hs.1 y this]
          · simp only; rw [hs.2.2, map_eq hc' hs.1]
    | probe x args =>
      simp only [flow] at h
      cases h
      simp only [exec]
      rw [← hs.2.1]
      cases s1.outs with
      | nil => trivial
      | cons o os =>
        refine ⟨fun y hy => ?_, rfl, hs.2.2⟩
        by_cases hyx : y = x
        · simp [upd, hyx]
        · have : y ∉ Γ := fun e => hy ((mem_del _ _ _).2 ⟨hyx, e⟩)
          simp [upd, hyx, hs.1 y this]
    | branch id c t e =>
      simp only [flow, Bool.false_or] at h
      split at h
      · rename_i a b ha hb
        cases h
        cases hc : tainted Γ c with
        | false =>
          rw [hc] at ha hb
          simp only [exec]
          rw [map_eq hc hs.1]
          split
          · exact Rel.weaken (fun y hy => (mem_union _ _ _).2 (Or.inl hy)) (hA t Γ a s1 s2 ha hs)
          · exact Rel.weaken (fun y hy => (mem_union _ _ _).2 (Or.inr hy)) (hA e Γ b s1 s2 hb hs)
        | true =>
          rw [hc] at ha hb
          have hsub : ∀ y, y ∈ Γ → y ∈ union a b := fun y hy => (mem_union _ _ _).2 (Or.inl (flow_mono t Γ a ha y hy))
          have hl : ∀ y, y ∈ a → y ∈ union a b := fun y hy => (mem_union _ _ _).2 (Or.inl hy)
          have hr : ∀ y, y ∈ b → y ∈ union a b := fun y hy => (mem_union _ _ _).2 (Or.inr hy)
          have c1 : Confined (union a b) s1 (exec I (n + 1) (.branch id c t e) s1) := by
            simp only [exec]; split
            · exact Confined.weaken hl (confined I n t Γ a s1 ha)
            · exact Confined.weaken hr (confined I n e Γ b s1 hb)
          have c2 : Confined (union a b) s2 (exec I (n + 1) (.branch id c t e) s2) := by
            simp only [exec]; split
            · exact Confined.weaken hl (confined I n t Γ a s2 ha)
            · exact Confined.weaken hr (confined I n e Γ b s2 hb)
          exact rel_of_confined hs hsub c1 c2
      · cases h
    | loop k id c b =>
      simp only [flow, Bool.false_or] at h
      split at h
      · rename_i Γb hb
        split at h
        · rename_i hss; cases h
          simp only [Bool.and_eq_true] at hss
          have hsub : ∀ y, y ∈ Γb → y ∈ _ := fun y hy => subset_spec hss.1 y hy
          have hΓ : ∀ y, y ∈ Γ → y ∈ _ := fun y hy => subset_spec hss.2 y hy
          revert hb hsub hΓ
          generalize grow _ k Γ = inv
          intro hb hsub hΓ
          cases hc : tainted inv c with
          | false =>
            rw [hc] at hb
            exact hB' k id c b inv Γb s1 s2 hc hb hsub (SEq.weaken hΓ hs)
          | true =>
            rw [hc] at hb
            exact rel_of_confined hs hΓ (confined_loop I (n + 1) k id c b inv Γb s1 hb hsub)
              (confined_loop I (n + 1) k id c b inv Γb s2 hb hsub)
        · cases h
      · cases h
    | ret vs =>
      simp only [flow, Bool.false_or] at h
      split at h
      · cases h
      · rename_i hc
        have hc' : tainted Γ vs = false := by simpa using hc
        simp only [exec]
        exact ⟨hs.2.2, map_eq hc' hs.1⟩
    | halt hh => simp only [exec]; trivial

/-- a statement that passes the check under clean control maps low-equivalent states to related results -/
theorem flow_sound (I : Interp V) (n : Nat) (s : Stmt) (Γ Γ' : Ctx) (s1 s2 : St V) (h : flow s Γ false = some Γ')
    (hs : SEq Γ s1 s2) : Rel Γ' (exec I n s s1) (exec I n s s2) := (snd_all I n).1 s Γ Γ' s1 s2 h hs

/-- NONINTERFERENCE.  If the checker accepts `f`, then for every meaning of the pure operations and decisions, every
two environments that agree on all variables other than the declared data sources, every list of forced mechanism
outputs and every fuel: if both runs return, they configured the same mechanism calls and return the same values. -/
theorem noninterference (f : Fn) (hf : flowsOk f = true) (I : Interp V) (e1 e2 : Var → V)
    (hag : ∀ x, x ∉ f.sources → e1 x = e2 x) (outs : List V) (fuel : Nat) (t1 t2 : List (List V)) (v1 v2 : List V)
    (h1 : f.run I fuel e1 outs = .ret t1 v1) (h2 : f.run I fuel e2 outs = .ret t2 v2) : t1 = t2 ∧ v1 = v2 := by
  unfold flowsOk at hf
  cases hfl : flow f.body f.sources false with
  | none => rw [hfl] at hf; cases hf
  | some Γ' =>
    have := flow_sound I fuel f.body f.sources Γ' ⟨e1, outs, []⟩ ⟨e2, outs, []⟩ hfl ⟨hag, rfl, rfl⟩
    unfold Fn.run at h1 h2
    rw [h1, h2] at this
    exact this

end TaintIR
end DPL
