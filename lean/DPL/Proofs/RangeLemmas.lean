/-
Helper lemmas for C12 about the range model (`DPL/Model/Range.lean`).
-/
import DPL.Model.Range
import DPL.Proofs.RangeReal
import DPL.Proofs.ClipLemmas
import Mathlib.Tactic.Linarith
import Mathlib.Tactic.Push
import Mathlib.Tactic.NormNum

namespace DPL.RangeL
open DPL

/-! ### truncate: any linear order -/
section order
variable {α : Type} [LinearOrder α]

theorem truncate_in (lo hi v : α) (h : lo ≤ hi) : lo ≤ truncate lo hi v ∧ truncate lo hi v ≤ hi := by
  unfold truncate
  by_cases h1 : hi < v
  · simp [h1, h]
  · by_cases h2 : v < lo
    · simp [h1, h2, h]
    · simp [h1, h2, not_lt.mp h1, not_lt.mp h2]

theorem truncate_id (lo hi v : α) (h1 : lo ≤ v) (h2 : v ≤ hi) : truncate lo hi v = v := by
  unfold truncate
  simp [not_lt.mpr h1, not_lt.mpr h2]

/-- the rejection test is literally `lower <= x <= upper`: whatever is returned passed it -/
theorem firstAccepted_spec (lo hi : α) : ∀ (xs : List α) (r : α), firstAccepted lo hi xs = some r →
    ∃ pre post, xs = pre ++ r :: post ∧ (∀ x ∈ pre, ¬ (lo ≤ x ∧ x ≤ hi)) ∧ lo ≤ r ∧ r ≤ hi
  | [], r, h => by simp [firstAccepted] at h
  | x :: xs, r, h => by
    unfold firstAccepted at h
    by_cases hx : lo ≤ x ∧ x ≤ hi
    · simp only [hx.1, hx.2, decide_true, Bool.and_self, if_true, Option.some.injEq] at h
      subst h
      exact ⟨[], xs, rfl, by simp, hx.1, hx.2⟩
    · have : (decide (lo ≤ x) && decide (x ≤ hi)) = false := by
        rw [Bool.and_eq_false_iff]
        rcases not_and_or.mp hx with h | h
        · left; simpa using h
        · right; simpa using h
      rw [this] at h
      simp only [Bool.false_eq_true, if_false] at h
      obtain ⟨pre, post, e, hp, hr⟩ := firstAccepted_spec lo hi xs r h
      refine ⟨x :: pre, post, by rw [e]; rfl, ?_, hr⟩
      intro y hy
      rcases List.mem_cons.mp hy with rfl | hy'
      · exact hx
      · exact hp y hy'

theorem firstAccepted_some (lo hi : α) : ∀ (xs : List α), (∃ x ∈ xs, lo ≤ x ∧ x ≤ hi) →
    ∃ r, firstAccepted lo hi xs = some r
  | [], h => by obtain ⟨x, hx, _⟩ := h; cases hx
  | x :: xs, h => by
    unfold firstAccepted
    by_cases hx : lo ≤ x ∧ x ≤ hi
    · exact ⟨x, by simp [hx.1, hx.2]⟩
    · have : (decide (lo ≤ x) && decide (x ≤ hi)) = false := by
        rw [Bool.and_eq_false_iff]
        rcases not_and_or.mp hx with h | h
        · left; simpa using h
        · right; simpa using h
      rw [this]
      simp only [Bool.false_eq_true, if_false]
      apply firstAccepted_some lo hi xs
      obtain ⟨y, hy, hin⟩ := h
      rcases List.mem_cons.mp hy with rfl | hy'
      · exact absurd hin hx
      · exact ⟨y, hy', hin⟩

/-- selection: the first index whose cumulative probability is at least `u` is a valid index -/
theorem firstLe_lt (u : α) : ∀ (ps : List α) (i j : Nat), firstLe u ps i = some j → i ≤ j ∧ j < i + ps.length
  | [], _, _, h => by simp [firstLe] at h
  | p :: ps, i, j, h => by
    unfold firstLe at h
    by_cases hp : u < p
    · simp only [hp, if_true, Option.some.injEq] at h
      subst h
      simp
    · simp only [hp, if_false] at h
      have := firstLe_lt u ps (i + 1) j h
      simp only [List.length_cons]
      omega

end order

/-! ### fold over ℝ -/

/-- the reflection loop needs at most `n` reflections when the value is within `n` widths of the domain -/
theorem foldLoop_terminates (lo hi : ℝ) (hw : lo < hi) :
    ∀ (n : ℕ) (v : ℝ), max (lo - v) (v - hi) ≤ n * (hi - lo) → ∀ fuel, n + 1 ≤ fuel →
      ∃ r k, foldLoop lo hi fuel v = some (r, k) ∧ k ≤ n ∧ lo ≤ r ∧ r ≤ hi := by
  intro n
  induction n with
  | zero =>
    intro v h fuel hf
    simp only [Nat.cast_zero, zero_mul] at h
    have h1 : lo - v ≤ 0 := le_trans (le_max_left _ _) h
    have h2 : v - hi ≤ 0 := le_trans (le_max_right _ _) h
    obtain ⟨f, rfl⟩ : ∃ f, fuel = f + 1 := ⟨fuel - 1, by omega⟩
    refine ⟨v, 0, ?_, le_refl _, by linarith, by linarith⟩
    unfold foldLoop
    have a1 : ¬ v < lo := by linarith
    have a2 : ¬ hi < v := by linarith
    simp [a1, a2]
  | succ n ih =>
    intro v h fuel hf
    push_cast at h
    have h1 : lo - v ≤ (n + 1) * (hi - lo) := le_trans (le_max_left _ _) h
    have h2 : v - hi ≤ (n + 1) * (hi - lo) := le_trans (le_max_right _ _) h
    have hn : (0 : ℝ) ≤ n * (hi - lo) := mul_nonneg (Nat.cast_nonneg n) (by linarith)
    obtain ⟨f, rfl⟩ : ∃ f, fuel = f + 1 := ⟨fuel - 1, by omega⟩
    by_cases hl : v < lo
    · obtain ⟨r, k, hr, hk, hb⟩ := ih (2 * lo - v) (max_le (by nlinarith) (by nlinarith)) f (by omega)
      refine ⟨r, k + 1, ?_, by omega, hb⟩
      unfold foldLoop
      simp only [hl, decide_true, Bool.true_or, if_true]
      rw [hr]
    · by_cases hu : hi < v
      · obtain ⟨r, k, hr, hk, hb⟩ := ih (2 * hi - v) (max_le (by nlinarith) (by nlinarith)) f (by omega)
        refine ⟨r, k + 1, ?_, by omega, hb⟩
        unfold foldLoop
        simp only [hl, hu, decide_true, decide_false, Bool.or_true, if_true, if_false]
        rw [hr]
      · refine ⟨v, 0, ?_, by omega, not_lt.mp hl, not_lt.mp hu⟩
        unfold foldLoop
        simp [hl, hu]

/-- after the modulo step the value is within two widths of the domain -/
theorem foldPre_dist (lo hi v : ℝ) (hw : lo < hi) :
    max (lo - foldPre lo hi v) (foldPre lo hi v - hi) ≤ (2 : ℕ) * (hi - lo) := by
  unfold foldPre
  simp only
  have hpos : 0 < 2 * (hi - lo) := by linarith
  push_cast
  split
  · have h0 := fmod_nonneg (v - lo) (2 * (hi - lo)) hpos
    have h1 := fmod_lt (v - lo) (2 * (hi - lo)) hpos
    apply max_le <;> linarith
  · rename_i h
    simp only [Bool.or_eq_true, decide_eq_true_eq, not_or, not_lt] at h
    apply max_le <;> linarith [h.1, h.2]

/-- reflections and the modulo step keep integers integral when the bounds are integers or half-integers -/
def IsInt (x : ℝ) : Prop := ∃ z : ℤ, x = z

theorem foldLoop_int (lo hi : ℝ) (hl : IsInt (2 * lo)) (hh : IsInt (2 * hi)) :
    ∀ (fuel : ℕ) (v r : ℝ) (k : ℕ), IsInt v → foldLoop lo hi fuel v = some (r, k) → IsInt r
  | 0, _, _, _, _, h => by simp [foldLoop] at h
  | fuel + 1, v, r, k, hv, h => by
    unfold foldLoop at h
    split at h
    · simp only at h
      split at h
      · rename_i r' n' hrec
        simp only [Option.some.injEq, Prod.mk.injEq] at h
        obtain ⟨rfl, _⟩ := h
        refine foldLoop_int lo hi hl hh fuel _ _ _ ?_ hrec
        obtain ⟨a, ha⟩ := hl
        obtain ⟨b, hb⟩ := hh
        obtain ⟨z, hz⟩ := hv
        split
        · exact ⟨a - z, by rw [ha, hz]; push_cast; ring⟩
        · exact ⟨b - z, by rw [hb, hz]; push_cast; ring⟩
      · cases h
    · simp only [Option.some.injEq, Prod.mk.injEq] at h
      obtain ⟨rfl, _⟩ := h
      exact hv

theorem foldPre_int (lo hi v : ℝ) (hl : IsInt (2 * lo)) (hh : IsInt (2 * hi)) (hv : IsInt v) :
    IsInt (foldPre lo hi v) := by
  unfold foldPre
  simp only
  split
  · obtain ⟨k, hk⟩ := fmod_eq_sub (v - lo) (2 * (hi - lo))
    rw [hk]
    obtain ⟨a, ha⟩ := hl
    obtain ⟨b, hb⟩ := hh
    obtain ⟨z, hz⟩ := hv
    refine ⟨z - (b - a) * k, ?_⟩
    have : 2 * (hi - lo) = (b : ℝ) - a := by linarith
    rw [this, hz]
    push_cast
    ring
  · exact hv

/-! ### rounding an integer-valued real -/

theorem roundHalfEven_int (z : ℤ) : roundHalfEven ((z : ℝ)) = z := by
  unfold roundHalfEven
  simp only [transc_floor, Int.floor_intCast, sub_self]
  norm_num

theorem intRound_int (z : ℤ) : intRound ((z : ℝ)) = .ok z := by
  unfold intRound
  simp [roundHalfEven_int]

/-! ### small facts used by the property file -/

theorem firstEq_lt {α : Type} [LinearOrder α] (x : α) : ∀ (ps : List α) (i j : Nat), firstEq x ps i = some j →
    i ≤ j ∧ j < i + ps.length
  | [], _, _, h => by simp [firstEq] at h
  | p :: ps, i, j, h => by
    unfold firstEq at h
    split at h
    · simp only [Option.some.injEq] at h
      subst h
      simp
    · have := firstEq_lt x ps (i + 1) j h
      simp only [List.length_cons]
      omega


theorem catLoop_lt {β : Type} [OfNat β 0] [Add β] [LT β] [DecidableLT β] (t : β) :
    ∀ (ps : List β) (cum : β) (i last : Nat), last < i → catLoop t ps cum i last < i + ps.length
  | [], _, i, last, h => by unfold catLoop; simpa using h
  | p :: ps, cum, i, last, h => by
    unfold catLoop
    simp only
    split
    · simp
    · have := catLoop_lt t ps (cum + p) (i + 1) i (by omega)
      simp only [List.length_cons]
      omega


theorem feq_false_of_lt {lo hi : ℝ} (h : lo < hi) : feq lo hi = false := by
  unfold feq
  simp [not_le.mpr h]


theorem bdClamp_in (lo hi v : ℝ) (h : lo ≤ hi) : lo ≤ bdClamp lo hi v ∧ bdClamp lo hi v ≤ hi := by
  unfold bdClamp pyMax pyMin
  by_cases h1 : hi < v
  · simp only [h1, if_true]
    by_cases h2 : hi < lo
    · exact absurd h (not_le.mpr h2)
    · simp [h2, h]
  · simp only [h1, if_false]
    by_cases h2 : v < lo
    · simp [h2, h]
    · simp [h2, not_lt.mp h1, not_lt.mp h2]


theorem truncate_intCast (lo hi n : ℤ) : truncate (lo : ℝ) (hi : ℝ) (n : ℝ) = ((truncate lo hi n : ℤ) : ℝ) := by
  unfold truncate
  simp only [Int.cast_lt]
  split
  · rfl
  · split <;> rfl


theorem feq_iff (a b : ℝ) : feq a b = true ↔ a = b := by
  unfold feq
  simp only [Bool.and_eq_true, decide_eq_true_eq]
  exact ⟨fun h => le_antisymm h.1 h.2, fun h => ⟨h.le, h.ge⟩⟩


theorem firstLe_strict {α : Type} [LinearOrder α] (u : α) : ∀ (ps : List α) (i j : Nat), firstLe u ps i = some j →
    ∃ p, ps[j - i]? = some p ∧ u < p
  | [], _, _, h => by simp [firstLe] at h
  | p :: ps, i, j, h => by
    unfold firstLe at h
    by_cases hp : u < p
    · simp only [hp, if_true, Option.some.injEq] at h
      subst h
      exact ⟨p, by simp, hp⟩
    · simp only [hp, if_false] at h
      obtain ⟨q, hq, hlt⟩ := firstLe_strict u ps (i + 1) j h
      have hij := (firstLe_lt u ps (i + 1) j h).1
      refine ⟨q, ?_, hlt⟩
      have : j - i = (j - (i + 1)) + 1 := by omega
      rw [this, List.getElem?_cons_succ]
      exact hq


theorem bern_le_one (gamma : ℝ) (us : List ℝ) (h : ¬ 1 < gamma) : bernoulliNegExp gamma us = coinLoop gamma us 1 := by
  show coinOuter (99999 + 1) gamma us = _
  rw [coinOuter]
  simp [h]

end DPL.RangeL
