/-
C03: the Canonne–Kamath–Steinke loop of `GaussianDiscrete.randomise` with UNBOUNDED inner loops, as stream samplers
built from C01's `Discrete.bernLoop` (no fuel: it recurses on the stream itself), and the exact law of one pass.

* `geomI τ F`     — `geom_x = 0; while bernoulli_neg_exp(τ): geom_x += 1`, at most `F` calls (returns `k < F`)
* `passI τ σ² F`  — one pass of the outer `while True:` — geometric proposal, sign draw, `bernoulli_neg_exp(γ)`
                    acceptance; returns `some y` (accepted) or `none` (rejected / the `-0` branch)
* `loopI τ σ² F n`— at most `n` passes.

Proved, under `streamμ` (the i.i.d. uniform stream): `P[geomI returns k] = e^{-τk}(1-e^{-τ})` for `k < F`
(`geomI_hasLaw`), `P[pass returns some y] = cksPassProb` for `|y| < F` (`passI_some`), the pass returns with probability
`Σ_{k<F} e^{-τk}(1-e^{-τ})` (`passI_mass`), and the renewal step: `P[loop (n+1) returns y] = P[pass returns y] +
P[pass rejects]·P[loop n returns y]` (`loopI_succ_law`) — what follows a pass sees a fresh independent stream although
a pass consumes a random, unbounded number of uniforms.
-/
import DPL.Proofs.SamplersStreamLaw
import DPL.Proofs.SamplersLaws

namespace DPL.SmpS
open MeasureTheory Set DPL.Discrete
open scoped ENNReal

theorem tsum_option {α : Type} (f : Option α → ℝ≥0∞) : ∑' o, f o = f none + ∑' a, f (some a) := by
  classical
  rw [ENNReal.tsum_eq_add_tsum_ite none]
  congr 1
  rw [← (Option.some_injective α).tsum_eq]
  · apply tsum_congr; intro a; simp
  · intro o ho
    cases o with
    | none => simp at ho
    | some a => exact ⟨a, rfl⟩

/-! ### the geometric loop -/

/-- `geom_x = 0; while bernoulli_neg_exp(τ): geom_x += 1`, at most `F` calls -/
noncomputable def geomI (τ : ℝ) : ℕ → Sampler ℕ
  | 0 => fun _ => .error .exhausted
  | F + 1 => bindS (bernI τ) (fun b => if b then bindS (geomI τ F) (fun m => retS (m + 1)) else retS 0)

/-- `P[geom_x = m] = e^{-τm}(1 − e^{-τ})`, `m < F` -/
noncomputable def gw (τ : ℝ) (F m : ℕ) : ℝ≥0∞ :=
  if m < F then ENNReal.ofReal (Real.exp (-τ)) ^ m * ENNReal.ofReal (1 - Real.exp (-τ)) else 0

theorem geomI_hasLaw (τ : ℝ) (h0 : 0 ≤ τ) (F : ℕ) : HasLaw (geomI τ F) (gw τ F) := by
  induction F with
  | zero => exact (HasLaw.error .exhausted).congr (fun m => by simp [gw])
  | succ F ih =>
    have hg : ∀ b : Bool, HasLaw (if b then bindS (geomI τ F) (fun m => retS (m + 1)) else retS 0)
        (if b then (fun m => ∑' m', gw τ F m' * (if m = m' + 1 then 1 else 0)) else (fun m => if m = 0 then 1 else 0)) := by
      intro b
      cases b
      · simp only [Bool.false_eq_true, if_false]; exact HasLaw.retS 0
      · simp only [if_true]; exact ih.bind (fun m' => HasLaw.retS (m' + 1))
    refine ((bernI_hasLaw τ h0).bind hg).congr (fun m => ?_)
    rw [tsum_bool]
    simp only [bw, Bool.false_eq_true, if_false, if_true]
    cases m with
    | zero =>
      have : ∀ m' : ℕ, gw τ F m' * (if 0 = m' + 1 then 1 else 0) = 0 := by
        intro m'; rw [if_neg (by omega)]; simp
      simp only [this, tsum_zero, mul_zero, add_zero, if_true, mul_one, gw]
      rw [if_pos (by omega)]; simp
    | succ k =>
      rw [if_neg (by omega), mul_zero, zero_add, tsum_eq_single k]
      · rw [if_pos rfl, mul_one]
        unfold gw
        by_cases hk : k < F
        · rw [if_pos hk, if_pos (by omega), pow_succ]; ring
        · rw [if_neg hk, if_neg (by omega), mul_zero]
      · intro m' hm'
        rw [if_neg (by omega), mul_zero]

theorem geomI_isLaw (τ : ℝ) (h0 : 0 ≤ τ) (F : ℕ) : IsLaw (geomI τ F) := ⟨_, geomI_hasLaw τ h0 F⟩

/-! ### one pass -/

/-- `lap_y = int((1 - 2 * bernoulli) * geom_x)` -/
def sgn (b : Bool) (gx : ℕ) : ℤ := if b then -(gx : ℤ) else (gx : ℤ)

/-- after the sign draw: the `-0` branch rejects, otherwise `bernoulli_neg_exp(γ)` decides -/
noncomputable def passK2 (τ σ2 : ℝ) (gx : ℕ) (b : Bool) : Sampler (Option ℤ) :=
  if (b && gx == 0) = true then retS none
  else bindS (bernI (Smp.cksGamma τ σ2 gx)) (fun a => retS (if a then some (sgn b gx) else none))

noncomputable def passK1 (τ σ2 : ℝ) (gx : ℕ) : Sampler (Option ℤ) := bindS readBit (passK2 τ σ2 gx)

/-- one pass of the outer loop: `some y` = accepted with `lap_y = y`, `none` = rejected -/
noncomputable def passI (τ σ2 : ℝ) (F : ℕ) : Sampler (Option ℤ) := bindS (geomI τ F) (passK1 τ σ2)

/-- at most `n` passes -/
noncomputable def loopI (τ σ2 : ℝ) (F : ℕ) : ℕ → Sampler ℤ
  | 0 => fun _ => .error .exhausted
  | n + 1 => bindS (passI τ σ2 F) (fun o => match o with | some y => retS y | none => loopI τ σ2 F n)

theorem cksGamma_nonneg (τ σ2 : ℝ) (hσ : 0 < σ2) (k : ℕ) : 0 ≤ Smp.cksGamma τ σ2 k := by
  rw [Smp.cksGamma_real]; positivity

theorem passK2_isLaw (τ σ2 : ℝ) (hσ : 0 < σ2) (gx : ℕ) (b : Bool) : IsLaw (passK2 τ σ2 gx b) := by
  unfold passK2
  split_ifs
  · exact IsLaw.retS _
  · exact (bernI_isLaw _ (cksGamma_nonneg τ σ2 hσ gx)).bind (fun a => IsLaw.retS _)

theorem passK1_isLaw (τ σ2 : ℝ) (hσ : 0 < σ2) (gx : ℕ) : IsLaw (passK1 τ σ2 gx) :=
  readBit_isLaw.bind (passK2_isLaw τ σ2 hσ gx)

theorem passI_isLaw (τ σ2 : ℝ) (h0 : 0 ≤ τ) (hσ : 0 < σ2) (F : ℕ) : IsLaw (passI τ σ2 F) :=
  (geomI_isLaw τ h0 F).bind (passK1_isLaw τ σ2 hσ)

theorem loopI_isLaw (τ σ2 : ℝ) (h0 : 0 ≤ τ) (hσ : 0 < σ2) (F n : ℕ) : IsLaw (loopI τ σ2 F n) := by
  induction n with
  | zero => exact IsLaw.error _
  | succ n ih =>
    refine (passI_isLaw τ σ2 h0 hσ F).bind (fun o => ?_)
    cases o with
    | none => exact ih
    | some y => exact IsLaw.retS y

theorem streamμ_Ret_retS {β : Type} [DecidableEq β] (b c : β) :
    streamμ (Ret (retS b) c) = if b = c then 1 else 0 := by
  rw [Ret_retS]; split_ifs <;> simp

/-- accepted with output `y` after the sign draw `b` -/
theorem passK2_some (τ σ2 : ℝ) (hσ : 0 < σ2) (gx : ℕ) (b : Bool) (y : ℤ) :
    streamμ (Ret (passK2 τ σ2 gx b) (some y))
      = if (b && gx == 0) = true then 0
        else if sgn b gx = y then ENNReal.ofReal (Real.exp (-Smp.cksGamma τ σ2 gx)) else 0 := by
  unfold passK2
  by_cases hb : (b && gx == 0) = true
  · rw [if_pos hb, if_pos hb, streamμ_Ret_retS, if_neg (by simp)]
  · rw [if_neg hb, if_neg hb,
      ((bernI_hasLaw _ (cksGamma_nonneg τ σ2 hσ gx)) _ (some y) (fun a => Ret_retS_measurable _ _)).2, tsum_bool]
    simp only [bw, Bool.false_eq_true, if_false, if_true, streamμ_Ret_retS, reduceCtorEq, mul_zero, zero_add,
      Option.some.injEq]
    split_ifs <;> simp

/-- the total return probability of a sampler -/
noncomputable def massOf {β : Type} (f : Sampler β) : ℝ≥0∞ := streamμ (Ret (bindS f (fun _ => retS ())) ())

theorem massOf_eq {β : Type} {f : Sampler β} (h : IsLaw f) : massOf f = ∑' b, streamμ (Ret f b) := by
  unfold massOf
  rw [h.bind_apply _ (fun _ => IsLaw.retS ())]
  apply tsum_congr; intro b
  rw [streamμ_Ret_retS, if_pos rfl, mul_one]

theorem massOf_bind {β γ : Type} {f : Sampler β} (hf : IsLaw f) (g : β → Sampler γ) (hg : ∀ b, IsLaw (g b)) :
    massOf (bindS f g) = ∑' b, streamμ (Ret f b) * massOf (g b) := by
  unfold massOf
  rw [bindS_assoc, hf.bind_apply _ (fun b => (hg b).bind (fun _ => IsLaw.retS ()))]

theorem massOf_retS {β : Type} (b : β) : massOf (retS b) = 1 := by
  unfold massOf
  rw [bindS_retS_left, streamμ_Ret_retS, if_pos rfl]

theorem passK2_mass (τ σ2 : ℝ) (hσ : 0 < σ2) (gx : ℕ) (b : Bool) : massOf (passK2 τ σ2 gx b) = 1 := by
  unfold passK2
  split_ifs
  · exact massOf_retS _
  · have hγ := cksGamma_nonneg τ σ2 hσ gx
    rw [massOf_bind (bernI_isLaw _ hγ) _ (fun a => IsLaw.retS _), tsum_bool]
    simp only [massOf_retS, mul_one, ((bernI_hasLaw _ hγ).ret _).2]
    rw [add_comm]; exact bw_total _ hγ

theorem half_add_half : ENNReal.ofReal (1 / 2) + ENNReal.ofReal (1 / 2) = 1 := by
  rw [← ENNReal.ofReal_add (by norm_num) (by norm_num)]; norm_num

theorem passK1_mass (τ σ2 : ℝ) (hσ : 0 < σ2) (gx : ℕ) : massOf (passK1 τ σ2 gx) = 1 := by
  unfold passK1
  rw [massOf_bind readBit_isLaw _ (passK2_isLaw τ σ2 hσ gx), tsum_bool]
  simp only [passK2_mass τ σ2 hσ, mul_one, (readBit_hasLaw.ret _).2]
  exact half_add_half

/-- **the pass returns (accepts or rejects) with the probability that the geometric loop returns** -/
theorem passI_mass (τ σ2 : ℝ) (h0 : 0 ≤ τ) (hσ : 0 < σ2) (F : ℕ) : massOf (passI τ σ2 F) = ∑' k, gw τ F k := by
  unfold passI
  rw [massOf_bind (geomI_isLaw τ h0 F) _ (passK1_isLaw τ σ2 hσ)]
  simp only [passK1_mass τ σ2 hσ, mul_one, ((geomI_hasLaw τ h0 F).ret _).2]

theorem passK1_some (τ σ2 : ℝ) (hσ : 0 < σ2) (gx : ℕ) (y : ℤ) :
    streamμ (Ret (passK1 τ σ2 gx) (some y))
      = if gx = y.natAbs then ENNReal.ofReal (1 / 2) * ENNReal.ofReal (Real.exp (-Smp.cksGamma τ σ2 gx)) else 0 := by
  unfold passK1
  rw [(readBit_hasLaw _ (some y) (fun b => (passK2_isLaw τ σ2 hσ gx b).measurable _)).2, tsum_bool,
    passK2_some τ σ2 hσ, passK2_some τ σ2 hσ]
  simp only [sgn, Bool.false_and, Bool.false_eq_true, if_false, Bool.true_and, if_true, beq_iff_eq]
  by_cases hg : gx = y.natAbs
  · rw [if_pos hg]
    rcases Int.natAbs_eq y with hy | hy
    · -- y = |y| ≥ 0
      have h1 : ((gx : ℤ) = y) := by rw [hg]; exact hy.symm
      rw [if_pos h1]
      by_cases hz : gx = 0
      · rw [if_pos hz]; simp
      · rw [if_neg hz, if_neg (by omega)]; simp
    · have h1 : (-(gx : ℤ) = y) := by rw [hg]; exact hy.symm
      by_cases hz : gx = 0
      · rw [if_pos hz, if_pos (by omega)]; simp
      · rw [if_neg hz, if_pos h1, if_neg (by omega)]; simp
  · rw [if_neg hg, if_neg (by omega)]
    by_cases hz : gx = 0
    · rw [if_pos hz]; simp
    · rw [if_neg hz, if_neg (by omega)]; simp

/-- **one pass accepts with output `y` with probability `cksPassProb`** (geometric proposal `e^{-τ|y|}(1-e^{-τ})`, fair
sign, acceptance `e^{-γ(|y|)}`), for `|y|` below the cap `F` on the geometric loop -/
theorem passI_some (τ σ2 : ℝ) (h0 : 0 ≤ τ) (hσ : 0 < σ2) (F : ℕ) (y : ℤ) :
    streamμ (Ret (passI τ σ2 F) (some y))
      = gw τ F y.natAbs * (ENNReal.ofReal (1 / 2) * ENNReal.ofReal (Real.exp (-Smp.cksGamma τ σ2 y.natAbs))) := by
  unfold passI
  rw [((geomI_hasLaw τ h0 F) _ (some y) (fun k => (passK1_isLaw τ σ2 hσ k).measurable _)).2,
    tsum_eq_single y.natAbs]
  · rw [passK1_some τ σ2 hσ, if_pos rfl]
  · intro k hk
    rw [passK1_some τ σ2 hσ, if_neg hk, mul_zero]

/-- **renewal step of the outer loop** -/
theorem loopI_succ_law (τ σ2 : ℝ) (h0 : 0 ≤ τ) (hσ : 0 < σ2) (F n : ℕ) (y : ℤ) :
    streamμ (Ret (loopI τ σ2 F (n + 1)) y)
      = streamμ (Ret (passI τ σ2 F) (some y))
        + streamμ (Ret (passI τ σ2 F) none) * streamμ (Ret (loopI τ σ2 F n) y) := by
  have hK : ∀ o : Option ℤ, IsLaw (match o with | some y => retS y | none => loopI τ σ2 F n) := by
    intro o
    cases o with
    | none => exact loopI_isLaw τ σ2 h0 hσ F n
    | some y => exact IsLaw.retS y
  show streamμ (Ret (bindS (passI τ σ2 F) _) y) = _
  rw [(passI_isLaw τ σ2 h0 hσ F).bind_apply _ hK, tsum_option, add_comm]
  congr 1
  rw [tsum_eq_single y]
  · simp only [streamμ_Ret_retS, if_true, mul_one]
  · intro z hz
    simp only [streamμ_Ret_retS, if_neg hz, mul_zero]

theorem loopI_zero_law (τ σ2 : ℝ) (F : ℕ) (y : ℤ) : streamμ (Ret (loopI τ σ2 F 0) y) = 0 := by
  show streamμ (Ret (fun _ => .error .exhausted) y) = 0
  rw [Ret_error]; simp

/-- accepted + rejected = returned -/
theorem passI_mass_split (τ σ2 : ℝ) (h0 : 0 ≤ τ) (hσ : 0 < σ2) (F : ℕ) :
    streamμ (Ret (passI τ σ2 F) none) + ∑' z : ℤ, streamμ (Ret (passI τ σ2 F) (some z)) = ∑' k, gw τ F k := by
  rw [← passI_mass τ σ2 h0 hσ F, massOf_eq (passI_isLaw τ σ2 h0 hσ F), tsum_option]

end DPL.SmpS
