/-
Differential privacy of the geometric family (C01), from the law of the noise (`DiscreteGeom.lean`):
the atom inequality of the closed-form law, the generic lift from atoms to arbitrary output sets and to
post-processed outputs, and the end-to-end statements for `geomRandomise`, `geomTruncRandomise`, `geomFoldRandomise`.
-/
import DPL.Proofs.DiscreteGeom
import Mathlib.MeasureTheory.Measure.Lebesgue.Basic
import Mathlib.MeasureTheory.Measure.NullMeasurable
import Mathlib.Topology.Algebra.InfiniteSum.ENNReal
import Mathlib.Algebra.Order.Ring.Int
import Mathlib.Tactic.Linarith
import Mathlib.Tactic.Ring
import Mathlib.Tactic.NormNum

namespace DPL.Discrete
open MeasureTheory Set
open scoped ENNReal

/-! ### B: the atom inequality of the closed-form law -/

theorem geom_atom_dp (eps : ℝ) (heps : 0 < eps) (sens : ℕ) (hsens : 0 < sens) (x x' o : ℤ)
    (hnb : |x - x'| ≤ (sens : ℤ)) :
    geomPmf (-eps / (sens : ℝ)) (o - x) ≤ Real.exp eps * geomPmf (-eps / (sens : ℝ)) (o - x') := by
  have hS : (0 : ℝ) < (sens : ℝ) := by exact_mod_cast hsens
  have hs : -eps / (sens : ℝ) < 0 := div_neg_of_neg_of_pos (by linarith) hS
  have hr : Real.exp (-eps / (sens : ℝ)) < 1 := by
    rw [← Real.exp_zero]; exact Real.exp_lt_exp.mpr hs
  have hc : 0 ≤ (1 - Real.exp (-eps / (sens : ℝ))) / (1 + Real.exp (-eps / (sens : ℝ))) :=
    div_nonneg (by linarith) (by have := Real.exp_pos (-eps / (sens : ℝ)); linarith)
  obtain ⟨h1, h2⟩ := abs_le.mp hnb
  have hnat : (o - x').natAbs ≤ (o - x).natAbs + sens := by omega
  have hreal : ((o - x').natAbs : ℝ) ≤ ((o - x).natAbs : ℝ) + (sens : ℝ) := by exact_mod_cast hnat
  simp only [geomPmf, transc_exp]
  rw [mul_left_comm, ← Real.exp_add]
  apply mul_le_mul_of_nonneg_left _ hc
  apply Real.exp_le_exp.mpr
  have hkey : -eps / (sens : ℝ) * ((o - x).natAbs : ℝ) - -eps / (sens : ℝ) * ((o - x').natAbs : ℝ)
      = eps / (sens : ℝ) * (((o - x').natAbs : ℝ) - ((o - x).natAbs : ℝ)) := by ring
  have hle : eps / (sens : ℝ) * (((o - x').natAbs : ℝ) - ((o - x).natAbs : ℝ))
      ≤ eps / (sens : ℝ) * (sens : ℝ) :=
    mul_le_mul_of_nonneg_left (by linarith) (div_nonneg heps.le hS.le)
  have hcancel : eps / (sens : ℝ) * (sens : ℝ) = eps := div_mul_cancel₀ eps hS.ne'
  linarith

/-! ### C: from atoms to sets and to post-processed outputs -/

theorem dp_sets_of_atoms {Ω ι : Type*} [MeasurableSpace Ω] [Countable ι] (μ : Measure Ω) (A : Set Ω)
    (f f' : Ω → ι) (hm' : ∀ o, NullMeasurableSet (A ∩ f' ⁻¹' {o}) μ) (K : ℝ≥0∞)
    (hat : ∀ o, μ (A ∩ f ⁻¹' {o}) ≤ K * μ (A ∩ f' ⁻¹' {o})) (S : Set ι) :
    μ (A ∩ f ⁻¹' S) ≤ K * μ (A ∩ f' ⁻¹' S) := by
  have hS : S.Countable := S.to_countable
  have hdecomp : ∀ h : Ω → ι, A ∩ h ⁻¹' S = ⋃ o ∈ S, A ∩ h ⁻¹' {o} := by
    intro h
    ext w
    simp only [mem_inter_iff, mem_preimage, mem_iUnion, mem_singleton_iff, exists_prop]
    constructor
    · rintro ⟨hA, hw⟩; exact ⟨h w, hw, hA, rfl⟩
    · rintro ⟨o, ho, hA, rfl⟩; exact ⟨hA, ho⟩
  have hdisj : S.PairwiseDisjoint (fun o => A ∩ f' ⁻¹' {o}) := by
    intro a _ b _ hab
    rw [Function.onFun, Set.disjoint_left]
    rintro w ⟨_, hwa⟩ ⟨_, hwb⟩
    exact hab (hwa.symm.trans hwb)
  calc μ (A ∩ f ⁻¹' S) = μ (⋃ o ∈ S, A ∩ f ⁻¹' {o}) := by rw [hdecomp f]
    _ ≤ ∑' o : S, μ (A ∩ f ⁻¹' {(o : ι)}) := measure_biUnion_le μ hS _
    _ ≤ ∑' o : S, K * μ (A ∩ f' ⁻¹' {(o : ι)}) := ENNReal.tsum_le_tsum fun o => hat o
    _ = K * ∑' o : S, μ (A ∩ f' ⁻¹' {(o : ι)}) := ENNReal.tsum_mul_left
    _ = K * μ (⋃ o ∈ S, A ∩ f' ⁻¹' {o}) := by
        rw [measure_biUnion₀ hS hdisj.aedisjoint fun o _ => hm' o]
    _ = K * μ (A ∩ f' ⁻¹' S) := by rw [hdecomp f']

theorem dp_postprocess {Ω ι : Type*} [MeasurableSpace Ω] [Countable ι] (μ : Measure Ω) (A : Set Ω)
    (f f' : Ω → ι) (hm' : ∀ o, NullMeasurableSet (A ∩ f' ⁻¹' {o}) μ) (K : ℝ≥0∞)
    (hat : ∀ o, μ (A ∩ f ⁻¹' {o}) ≤ K * μ (A ∩ f' ⁻¹' {o})) {β : Type*} (g : ι → β) (T : Set β) :
    μ (A ∩ (g ∘ f) ⁻¹' T) ≤ K * μ (A ∩ (g ∘ f') ⁻¹' T) := by
  have := dp_sets_of_atoms μ A f f' hm' K hat (g ⁻¹' T)
  simpa only [preimage_comp] using this

/-! ### D: the model samplers end to end -/

/-- `Geometric.randomise` is `value + noise` in exact integer arithmetic (c709270) -/
theorem geomRandomise_real (eps : ℝ) (sens : ℕ) (x : ℤ) (u : ℝ) :
    geomRandomise eps sens x u = if 0 < sens then x + geomNoise (-eps / (sens : ℝ)) u else x := rfl

theorem geomRandomise_cell (eps : ℝ) (sens : ℕ) (hsens : 0 < sens) (x o : ℤ) :
    {u : ℝ | u ∈ Ico (0 : ℝ) 1 ∧ geomRandomise eps sens x u = o} =
      {u : ℝ | u ∈ Ico (0 : ℝ) 1 ∧ geomNoise (-eps / (sens : ℝ)) u = o - x} := by
  ext u
  simp only [mem_ofPred_eq, geomRandomise_real, if_pos hsens]
  constructor <;> rintro ⟨h, h'⟩ <;> exact ⟨h, by omega⟩

theorem geomRandomise_cell_zero (eps : ℝ) (x o : ℤ) :
    {u : ℝ | u ∈ Ico (0 : ℝ) 1 ∧ geomRandomise eps 0 x u = o} = if x = o then Ico (0 : ℝ) 1 else ∅ := by
  ext u
  by_cases h : x = o <;> simp [geomRandomise_real, h]

private theorem scale_neg (eps : ℝ) (heps : 0 < eps) (sens : ℕ) (hsens : 0 < sens) : -eps / (sens : ℝ) < 0 :=
  div_neg_of_neg_of_pos (by linarith) (by exact_mod_cast hsens)

/-- the law of `Geometric.randomise(value)`: the value plus two-sided geometric noise of ratio `exp(-eps/sens)` -/
theorem geomRandomise_law (eps : ℝ) (heps : 0 < eps) (sens : ℕ) (hsens : 0 < sens) (x o : ℤ) :
    volume {u : ℝ | u ∈ Ico (0 : ℝ) 1 ∧ geomRandomise eps sens x u = o} =
      ENNReal.ofReal (geomPmf (-eps / (sens : ℝ)) (o - x)) := by
  rw [geomRandomise_cell eps sens hsens, geom_law _ (scale_neg eps heps sens hsens)]

theorem geomRandomise_measurable (eps : ℝ) (heps : 0 < eps) (sens : ℕ) (x o : ℤ) :
    MeasurableSet {u : ℝ | u ∈ Ico (0 : ℝ) 1 ∧ geomRandomise eps sens x u = o} := by
  rcases Nat.eq_zero_or_pos sens with h0 | hpos
  · subst h0
    rw [geomRandomise_cell_zero]
    split
    · exact measurableSet_Ico
    · exact MeasurableSet.empty
  · rw [geomRandomise_cell eps sens hpos]
    exact geomNoise_measurable _ (scale_neg eps heps sens hpos) _

/-- `Geometric` is `eps`-DP on every single output, for neighbouring values at distance at most the sensitivity -/
theorem geom_dp (eps : ℝ) (heps : 0 < eps) (sens : ℕ) (x x' : ℤ) (hnb : |x - x'| ≤ (sens : ℤ)) (o : ℤ) :
    volume {u : ℝ | u ∈ Ico (0 : ℝ) 1 ∧ geomRandomise eps sens x u = o}
      ≤ ENNReal.ofReal (Real.exp eps) *
        volume {u : ℝ | u ∈ Ico (0 : ℝ) 1 ∧ geomRandomise eps sens x' u = o} := by
  rcases Nat.eq_zero_or_pos sens with h0 | hpos
  · subst h0
    have hxx : x = x' := by
      have := abs_nonneg (x - x')
      have h0 : |x - x'| = 0 := le_antisymm (by simpa using hnb) this
      have := abs_eq_zero.mp h0
      omega
    subst hxx
    have h1 : (1 : ℝ≥0∞) ≤ ENNReal.ofReal (Real.exp eps) := by
      rw [← ENNReal.ofReal_one]
      exact ENNReal.ofReal_le_ofReal (Real.one_le_exp heps.le)
    exact le_mul_of_one_le_left zero_le h1
  · rw [geomRandomise_law eps heps sens hpos, geomRandomise_law eps heps sens hpos,
      ← ENNReal.ofReal_mul (Real.exp_pos eps).le]
    exact ENNReal.ofReal_le_ofReal (geom_atom_dp eps heps sens hpos x x' o hnb)

/-- `eps`-DP of every post-processing of `Geometric.randomise`, on every set of post-processed outputs (taking
`g = id` gives every set of integer outputs) -/
theorem geom_post_dp (eps : ℝ) (heps : 0 < eps) (sens : ℕ) (x x' : ℤ) (hnb : |x - x'| ≤ (sens : ℤ))
    {β : Type*} (g : ℤ → β) (T : Set β) :
    volume {u : ℝ | u ∈ Ico (0 : ℝ) 1 ∧ g (geomRandomise eps sens x u) ∈ T}
      ≤ ENNReal.ofReal (Real.exp eps) *
        volume {u : ℝ | u ∈ Ico (0 : ℝ) 1 ∧ g (geomRandomise eps sens x' u) ∈ T} :=
  dp_postprocess volume (Ico (0 : ℝ) 1) (geomRandomise eps sens x) (geomRandomise eps sens x')
    (fun o => (geomRandomise_measurable eps heps sens x' o).nullMeasurableSet)
    (ENNReal.ofReal (Real.exp eps)) (fun o => geom_dp eps heps sens x x' hnb o) g T

/-- `eps`-DP of `Geometric.randomise` on every set of integer outputs -/
theorem geom_set_dp (eps : ℝ) (heps : 0 < eps) (sens : ℕ) (x x' : ℤ) (hnb : |x - x'| ≤ (sens : ℤ)) (S : Set ℤ) :
    volume {u : ℝ | u ∈ Ico (0 : ℝ) 1 ∧ geomRandomise eps sens x u ∈ S}
      ≤ ENNReal.ofReal (Real.exp eps) *
        volume {u : ℝ | u ∈ Ico (0 : ℝ) 1 ∧ geomRandomise eps sens x' u ∈ S} :=
  geom_post_dp eps heps sens x x' hnb id S

/-- `GeometricTruncated` is `eps`-DP for all bounds (integer, half-integer, infinite) -/
theorem geom_trunc_dp (eps : ℝ) (heps : 0 < eps) (sens : ℕ) (x x' : ℤ) (hnb : |x - x'| ≤ (sens : ℤ))
    (lo hi : Bnd) (T : Set (Option ℤ)) :
    volume {u : ℝ | u ∈ Ico (0 : ℝ) 1 ∧ geomTruncRandomise eps sens lo hi x u ∈ T}
      ≤ ENNReal.ofReal (Real.exp eps) *
        volume {u : ℝ | u ∈ Ico (0 : ℝ) 1 ∧ geomTruncRandomise eps sens lo hi x' u ∈ T} :=
  geom_post_dp eps heps sens x x' hnb (truncInt lo hi) T

/-- `GeometricFolded` is `eps`-DP for all bounds (integer, half-integer, infinite) and every loop fuel -/
theorem geom_fold_dp (eps : ℝ) (heps : 0 < eps) (sens : ℕ) (x x' : ℤ) (hnb : |x - x'| ≤ (sens : ℤ))
    (lo hi : Bnd) (fuel : ℕ) (T : Set (Option ℤ)) :
    volume {u : ℝ | u ∈ Ico (0 : ℝ) 1 ∧ geomFoldRandomise eps sens lo hi fuel x u ∈ T}
      ≤ ENNReal.ofReal (Real.exp eps) *
        volume {u : ℝ | u ∈ Ico (0 : ℝ) 1 ∧ geomFoldRandomise eps sens lo hi fuel x' u ∈ T} :=
  geom_post_dp eps heps sens x x' hnb (foldInt lo hi fuel) T

end DPL.Discrete
