/-
C07, the semantic step for the statistics tools: the OUTPUT LAW of a tool's release plan is ε-DP.

The plans of `PlanTools.lean` are one-call plans (`oneCall`) or sequences of one-call plans (`Plan.seq`, `_wrap_axis`,
histograms).  Here: their privacy-loss calculus (`PM.lossLe`), the measurability side condition (`Plan.Meas`), and a
variant of `PM.lawOn_dp_of_lossLe` whose side condition on the calls is `P c ∨ the input does not move` (`callsOk`) —
so that degenerate configurations (sensitivity 0: `lower = upper`, `n = 1` for the variance) need no extra hypothesis.
-/
import DPL.Proofs.ToolsPlan
import DPL.Proofs.ToolsSens
import DPL.Proofs.ToolsHist
import DPL.Proofs.ModelsCompose3
import Mathlib.Analysis.Real.Sqrt

namespace DPL
namespace Tools
open MeasureTheory ENNReal DPL.Compose
open scoped DPL.PM

variable {δ ρ σ ι : Type}

/-! ### the semantic step with the weaker side condition -/

/-- every invocation satisfies `P`, or its input is the same on `D` and `D'` -/
def callsOk (P : MechCall ℝ → Prop) (D D' : δ) : Plan δ ℝ ρ → Prop
  | .release _ => True
  | .call c inp k => (P c ∨ inp D = inp D') ∧ ∀ o, callsOk P D D' (k o)
  | .probe _ k => ∀ b, callsOk P D D' (k b)

theorem callsOk_bind (P : MechCall ℝ → Prop) (D D' : δ) (p : Plan δ ℝ ρ) (q : ρ → Plan δ ℝ σ)
    (hp : callsOk P D D' p) (hq : ∀ r, callsOk P D D' (q r)) : callsOk P D D' (p.bind q) := by
  induction p with
  | release r => exact hq r
  | call c inp k ih => exact ⟨hp.1, fun o => ih o (hp.2 o)⟩
  | probe occ k ih => exact fun b => ih b (hp b)

theorem callsOk_forList (P : MechCall ℝ → Prop) (D D' : δ) (l : List ι) (f : ι → Plan δ ℝ σ)
    (h : ∀ i ∈ l, callsOk P D D' (f i)) : callsOk P D D' (PM.forList l f) := by
  induction l with
  | nil => trivial
  | cons i is ih =>
    exact callsOk_bind P D D' _ _ (h i (by simp)) fun r =>
      callsOk_bind P D D' _ _ (ih fun j hj => h j (by simp [hj])) fun _ => trivial

/-- bounded loss ⇒ `B`-DP, set-function form, side condition `callsOk` -/
theorem lawOn_dp_of_lossLe' (P : MechCall ℝ → Prop) (M : MechCall ℝ → ℝ → Measure ℝ) (hM : PM.MetricDP P M)
    (D D' : δ) (p : Plan δ ℝ ρ) (B : ℝ) (hp : PM.lossLe D D' p B) (hpr : p.probesAgree D D')
    (hc : callsOk P D D' p) (S : Set ρ) :
    p.lawOn M D S ≤ ENNReal.ofReal (Real.exp B) * p.lawOn M D' S := by
  induction p generalizing B with
  | release r =>
    simp only [Plan.lawOn]
    have h0 : (0 : ℝ) ≤ B := hp
    have : (1 : ℝ≥0∞) ≤ ENNReal.ofReal (Real.exp B) := by
      rw [← ENNReal.ofReal_one]; exact ENNReal.ofReal_le_ofReal (Real.one_le_exp h0)
    exact le_mul_of_one_le_left' this
  | call c inp k ih =>
    simp only [Plan.lawOn]
    have hcall : SetBound (ENNReal.ofReal (Real.exp (c.eps * relDisp c (inp D) (inp D'))))
        (M c (inp D)) (M c (inp D')) := by
      rcases hc.1 with h | h
      · exact hM c h _ _ hp.1
      · intro T _
        rw [← h, PM.relDisp_eq_zero c _ _ rfl]
        simp
    have hB : B = c.eps * relDisp c (inp D) (inp D') + (B - c.eps * relDisp c (inp D) (inp D')) := by ring
    rw [hB, ofReal_exp_add]
    exact lintegral_le_of_bounds ofReal_ne_top hcall _ _ (fun o => ih o _ (hp.2 o) (hpr o) (hc.2 o))
  | probe occ k ih =>
    simp only [Plan.lawOn]
    rw [← hpr.1]
    exact ih _ B (hp hpr.1) hpr.2 (hc _)

/-- … for the law as a measure (measurable continuations) -/
theorem plan_dp_of_lossLe' [MeasurableSpace ρ] (P : MechCall ℝ → Prop) (M : MechCall ℝ → ℝ → Measure ℝ)
    (hM : PM.MetricDP P M) (D D' : δ) (p : Plan δ ℝ ρ) (B : ℝ) (hp : PM.lossLe D D' p B)
    (hpr : p.probesAgree D D') (hc : callsOk P D D' p) (hm : p.Meas M) (S : Set ρ) (hS : MeasurableSet S) :
    p.law M D S ≤ ENNReal.ofReal (Real.exp B) * p.law M D' S := by
  rw [PM.law_eq_lawOn M p hm D S hS, PM.law_eq_lawOn M p hm D' S hS]
  exact lawOn_dp_of_lossLe' P M hM D D' p B hp hpr hc S

/-- an input that moves by at most a non-positive sensitivity does not move -/
theorem ok_of_sens (c : MechCall ℝ) (a b : ℝ) (he : 0 < c.eps) (hs : |a - b| ≤ c.sens) :
    (0 < c.eps ∧ 0 < c.sens) ∨ a = b := by
  by_cases h : 0 < c.sens
  · exact Or.inl ⟨he, h⟩
  · right
    have h1 : |a - b| ≤ 0 := le_trans hs (not_lt.mp h)
    have h2 := abs_nonpos_iff.mp h1
    linarith

/-! ### one-call plans -/

theorem lossLe_oneCall (c : MechCall ℝ) (inp : δ → ℝ) (g : ℝ → ρ) (D D' : δ) (hs : |inp D - inp D'| ≤ c.sens)
    (he : 0 ≤ c.eps) : PM.lossLe D D' (oneCall c inp g) c.eps := by
  have hr := relDisp_le_one c (inp D) (inp D') hs
  refine ⟨hr.2, fun o => ?_⟩
  show 0 ≤ c.eps - c.eps * relDisp c (inp D) (inp D')
  nlinarith [mul_le_mul_of_nonneg_left hr.2 he]

theorem meas_oneCall [MeasurableSpace ρ] (M : MechCall ℝ → ℝ → Measure ℝ) (c : MechCall ℝ) (inp : δ → ℝ)
    (g : ℝ → ρ) (hg : Measurable g) : (oneCall c inp g).Meas M :=
  ⟨fun _ => Measure.measurable_dirac.comp hg, fun _ => trivial⟩

theorem probeFree_oneCall (c : MechCall ℝ) (inp : δ → ℝ) (g : ℝ → ρ) : (oneCall c inp g).probeFree :=
  fun _ => trivial

/-- **a one-invocation tool is ε-DP**: input within the configured sensitivity, positive ε, metric-DP family,
measurable post-processing `g` -/
theorem oneCall_dp [MeasurableSpace ρ] (M : MechCall ℝ → ℝ → Measure ℝ)
    (hM : PM.MetricDP (fun c => 0 < c.eps ∧ 0 < c.sens) M) (c : MechCall ℝ) (inp : δ → ℝ) (g : ℝ → ρ)
    (hg : Measurable g) (D D' : δ) (he : 0 < c.eps) (hs : |inp D - inp D'| ≤ c.sens) (S : Set ρ)
    (hS : MeasurableSet S) :
    (oneCall c inp g).law M D S ≤ ENNReal.ofReal (Real.exp c.eps) * (oneCall c inp g).law M D' S :=
  plan_dp_of_lossLe' _ M hM D D' _ _ (lossLe_oneCall c inp g D D' hs he.le)
    (PM.probesAgree_of_probeFree _ _ _ (probeFree_oneCall c inp g)) ⟨ok_of_sens c _ _ he hs, fun _ => trivial⟩
    (meas_oneCall M c inp g hg) S hS

theorem measurable_sqrt : Measurable (fun o : ℝ => (Transc.sqrt o : ℝ)) := Real.continuous_sqrt.measurable

/-! ### sequences of one-call plans (`_wrap_axis`, histograms) -/

theorem seq_eq_forList (l : List ι) (f : ι → Plan δ ℝ σ) : Plan.seq (l.map f) = PM.forList l f := by
  induction l with
  | nil => rfl
  | cons i is ih => simp only [List.map_cons, Plan.seq, PM.forList, ih, Plan.map]

/-- from the trace form (`dispOk`, `privLoss` of the configured calls and the two input lists) to the calculus -/
theorem lossLe_seq_cells_of_trace (cs : List (Cell δ ℝ ρ)) (D D' : δ) (B : ℝ)
    (hd : dispOk (cs.map (fun x => x.c)) (cs.map (fun x => x.inp D)) (cs.map (fun x => x.inp D')) = true)
    (hl : privLoss (cs.map (fun x => x.c)) (cs.map (fun x => x.inp D)) (cs.map (fun x => x.inp D')) ≤ B) :
    PM.lossLe D D' (Plan.seq (cs.map Cell.plan)) B := by
  induction cs generalizing B with
  | nil => simpa [Plan.seq, PM.lossLe, privLoss] using hl
  | cons x xs ih =>
    simp only [List.map_cons, dispOk, Bool.and_eq_true, decide_eq_true_eq, privLoss] at hd hl
    refine ⟨hd.1, fun o => ?_⟩
    exact PM.lossLe_map D D' _ _ (ih _ hd.2 (by linarith))

/-- every cell's input moves by at most its sensitivity ⇒ the loss is at most the sum of the epsilons -/
theorem lossLe_seq_cells (cs : List (Cell δ ℝ ρ)) (D D' : δ)
    (h : ∀ x ∈ cs, |x.inp D - x.inp D'| ≤ x.c.sens ∧ 0 ≤ x.c.eps) :
    PM.lossLe D D' (Plan.seq (cs.map Cell.plan)) (cs.map (fun x => x.c.eps)).sum := by
  rw [seq_eq_forList]
  exact PM.lossLe_forList D D' cs Cell.plan (fun x => x.c.eps)
    (fun x hx => lossLe_oneCall x.c x.inp x.g D D' (h x hx).1 (h x hx).2)

theorem meas_seq_cells (M : MechCall ℝ → ℝ → Measure ℝ) (hprob : ∀ c a, IsProbabilityMeasure (M c a))
    (cs : List (Cell δ ℝ ℝ)) (hg : ∀ x ∈ cs, Measurable x.g) : (Plan.seq (cs.map Cell.plan)).Meas M := by
  rw [seq_eq_forList]
  exact PM.meas_forList M hprob cs Cell.plan (fun x hx => meas_oneCall M x.c x.inp x.g (hg x hx))

theorem probeFree_seq_cells (cs : List (Cell δ ℝ ρ)) : (Plan.seq (cs.map Cell.plan)).probeFree := by
  apply Plan.probeFree_seq
  intro p hp
  obtain ⟨x, _, rfl⟩ := List.mem_map.mp hp
  exact probeFree_oneCall x.c x.inp x.g

theorem callsOk_seq_cells (P : MechCall ℝ → Prop) (D D' : δ) (cs : List (Cell δ ℝ ρ))
    (h : ∀ x ∈ cs, P x.c ∨ x.inp D = x.inp D') : callsOk P D D' (Plan.seq (cs.map Cell.plan)) := by
  rw [seq_eq_forList]
  exact callsOk_forList P D D' cs Cell.plan (fun x hx => ⟨h x hx, fun _ => trivial⟩)

/-- **a sequence of one-invocation sub-queries with loss `≤ B` is `B`-DP as a whole** (release: the list of the
post-processed outputs, σ-algebra `PM.listMS`) -/
theorem seq_cells_dp (M : MechCall ℝ → ℝ → Measure ℝ) (hprob : ∀ c a, IsProbabilityMeasure (M c a))
    (hM : PM.MetricDP (fun c => 0 < c.eps ∧ 0 < c.sens) M) (cs : List (Cell δ ℝ ℝ))
    (hg : ∀ x ∈ cs, Measurable x.g) (D D' : δ) (B : ℝ)
    (hloss : PM.lossLe D D' (Plan.seq (cs.map Cell.plan)) B)
    (hok : ∀ x ∈ cs, (0 < x.c.eps ∧ 0 < x.c.sens) ∨ x.inp D = x.inp D') (S : Set (List ℝ))
    (hS : MeasurableSet S) :
    (Plan.seq (cs.map Cell.plan)).law M D S ≤
      ENNReal.ofReal (Real.exp B) * (Plan.seq (cs.map Cell.plan)).law M D' S :=
  plan_dp_of_lossLe' _ M hM D D' _ B hloss
    (PM.probesAgree_of_probeFree _ _ _ (probeFree_seq_cells cs)) (callsOk_seq_cells _ D D' cs hok)
    (meas_seq_cells M hprob cs hg) S hS

/-- **`_wrap_axis` is ε-DP as a whole**: `size` one-invocation cells configured with `ε/size` each, every cell's
input moving by at most its configured sensitivity between `D` and `D'` -/
theorem wrapAxis_dp {β : Type} (dflt : β) (size : Nat) (hsize : 0 < size) (ε : ℝ) (hε : 0 < ε)
    (bounds : Nat → ℝ × ℝ) (cell : (ε l u : ℝ) → Plan (List β) ℝ ℝ) (mk : (l u : ℝ) → Cell (List β) ℝ ℝ)
    (hcell : ∀ l u, cell (ε / (size : ℝ)) l u = (mk l u).plan)
    (heps : ∀ l u, (mk l u).c.eps = ε / (size : ℝ)) (hg : ∀ l u, Measurable (mk l u).g)
    (D D' : List (List β))
    (hsens : ∀ c, c < size →
      |(mk (bounds c).1 (bounds c).2).inp (column dflt c D) - (mk (bounds c).1 (bounds c).2).inp (column dflt c D')| ≤
        (mk (bounds c).1 (bounds c).2).c.sens)
    (M : MechCall ℝ → ℝ → Measure ℝ) (hprob : ∀ c a, IsProbabilityMeasure (M c a))
    (hM : PM.MetricDP (fun c => 0 < c.eps ∧ 0 < c.sens) M) (S : Set (List ℝ)) (hS : MeasurableSet S) :
    (wrapAxis dflt size ε bounds cell).law M D S ≤
      ENNReal.ofReal (Real.exp ε) * (wrapAxis dflt size ε bounds cell).law M D' S := by
  have hpos : 0 < ε / (size : ℝ) := by positivity
  rw [wrapAxis_eq_cells dflt size ε bounds cell mk hcell]
  have hmem : ∀ x ∈ axisCells dflt size bounds mk, 0 < x.c.eps ∧ |x.inp D - x.inp D'| ≤ x.c.sens ∧ Measurable x.g := by
    intro x hx
    obtain ⟨c, hc, rfl⟩ := List.mem_map.mp hx
    exact ⟨by simp only [heps]; exact hpos, hsens c (List.mem_range.mp hc), hg _ _⟩
  refine seq_cells_dp M hprob hM _ (fun x hx => (hmem x hx).2.2) D D' ε ?_
    (fun x hx => ok_of_sens x.c _ _ (hmem x hx).1 (hmem x hx).2.1) S hS
  refine PM.lossLe_mono D D' _ (le_of_eq ?_)
    (lossLe_seq_cells _ D D' (fun x hx => ⟨(hmem x hx).2.1, (hmem x hx).1.le⟩))
  simp only [axisCells, List.map_map, Function.comp_def, heps]
  exact split_sum ε size hsize

/-! ### histograms -/

/-- the calculus form of `hist_privloss` (`weights=None`): `2ε` in general, `ε` when the record enters or leaves the
range, `0` when it stays in its bin -/
theorem histCalls_lossLe (edges : List (List ℝ)) (ε maxsize : ℝ) (hε : 0 ≤ ε) (pre post : List (WRow ℝ))
    (r r' : WRow ℝ) :
    PM.lossLe (pre ++ r :: post) (pre ++ r' :: post) (histCalls edges false ε maxsize) (ε * 2) ∧
    ((binOf edges r.x = none ∨ binOf edges r'.x = none) →
      PM.lossLe (pre ++ r :: post) (pre ++ r' :: post) (histCalls edges false ε maxsize) ε) ∧
    (binOf edges r.x = binOf edges r'.x →
      PM.lossLe (pre ++ r :: post) (pre ++ r' :: post) (histCalls edges false ε maxsize) 0) := by
  have hl : (List.replicate (cellsOf (edges.map (fun e => e.length - 1))).length (0 : ℝ)).length =
      (cellsOf (edges.map (fun e => e.length - 1))).length := List.length_replicate
  have hl' : (List.replicate (cellsOf (edges.map (fun e => e.length - 1))).length (0 : ℝ)).length =
      (histCells edges false ε maxsize).length := by simp [histCells]
  have h := hist_privloss edges ε maxsize hε pre post r r' _ hl
  dsimp only at h
  rw [histCalls_eq, run_seq_cells _ _ _ hl', run_seq_cells _ _ _ hl'] at h
  dsimp only at h
  obtain ⟨_, hd, h2, h1, h0⟩ := h
  rw [histCalls_eq]
  exact ⟨lossLe_seq_cells_of_trace _ _ _ _ hd h2, fun hn => lossLe_seq_cells_of_trace _ _ _ _ hd (h1 hn),
    fun hs => lossLe_seq_cells_of_trace _ _ _ _ hd (h0 hs).le⟩

theorem histCells_pos (edges : List (List ℝ)) (weighted : Bool) (ε maxsize : ℝ) (hε : 0 < ε) :
    ∀ x ∈ histCells edges weighted ε maxsize, (0 < x.c.eps ∧ 0 < x.c.sens) ∧ Measurable x.g := by
  intro x hx
  obtain ⟨cell, _, rfl⟩ := List.mem_map.mp hx
  exact ⟨⟨hε, by simp [histCall]⟩, measurable_id⟩

/-- **the noisy counts of `histogram*` are DP** — `B` any bound on the privacy-loss sum (`2ε`, `ε`, `0`) -/
theorem histCalls_dp (edges : List (List ℝ)) (ε maxsize : ℝ) (hε : 0 < ε) (D D' : List (WRow ℝ)) (B : ℝ)
    (hloss : PM.lossLe D D' (histCalls edges false ε maxsize) B)
    (M : MechCall ℝ → ℝ → Measure ℝ) (hprob : ∀ c a, IsProbabilityMeasure (M c a))
    (hM : PM.MetricDP (fun c => 0 < c.eps ∧ 0 < c.sens) M) (S : Set (List ℝ)) (hS : MeasurableSet S) :
    (histCalls edges false ε maxsize).law M D S ≤
      ENNReal.ofReal (Real.exp B) * (histCalls edges false ε maxsize).law M D' S := by
  rw [histCalls_eq] at hloss ⊢
  exact seq_cells_dp M hprob hM _ (fun x hx => (histCells_pos edges false ε maxsize hε x hx).2) D D' B hloss
    (fun x hx => Or.inl (histCells_pos edges false ε maxsize hε x hx).1) S hS

/-- post-processing (density normalisation), set-function semantics: every set of releases -/
theorem histCalls_map_lawOn_dp {τ : Type} (f : List ℝ → τ) (edges : List (List ℝ)) (ε maxsize : ℝ) (hε : 0 < ε)
    (D D' : List (WRow ℝ)) (B : ℝ) (hloss : PM.lossLe D D' (histCalls edges false ε maxsize) B)
    (M : MechCall ℝ → ℝ → Measure ℝ) (hM : PM.MetricDP (fun c => 0 < c.eps ∧ 0 < c.sens) M) (S : Set τ) :
    ((histCalls edges false ε maxsize).map f).lawOn M D S ≤
      ENNReal.ofReal (Real.exp B) * ((histCalls edges false ε maxsize).map f).lawOn M D' S := by
  rw [histCalls_eq] at hloss ⊢
  refine lawOn_dp_of_lossLe' _ M hM D D' _ B (PM.lossLe_map D D' _ f hloss)
    (PM.probesAgree_of_probeFree _ _ _ (Plan.probeFree_map f _ (probeFree_seq_cells _))) ?_ S
  exact callsOk_bind _ D D' _ _
    (callsOk_seq_cells _ D D' _ (fun x hx => Or.inl (histCells_pos edges false ε maxsize hε x hx).1))
    (fun _ => trivial)

end Tools
end DPL
