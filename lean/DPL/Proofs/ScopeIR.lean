/-
C16 — the scoping-method contracts of `DPL/Model/ScopeIR.lean` hold for the hand copies of the five bodies, and the
proof scripts used for them are exported as macros so that `DPL/Generated/C16Scope.lean` can run THE SAME scripts on the
bodies re-read from the source.  Core Lean only.
-/
import DPL.Model.ScopeIR
namespace DPL
namespace ScopeIR

/-- unfold the interpreter completely on a concrete body -/
macro "scope_ir_unfold" : tactic =>
  `(tactic| simp only [run, exec, evalE, enterI, exitI, stepI, resolveTop])

/-- script for the contracts without a case distinction on the state (pop, set, enter) -/
macro "scope_ir_simple" : tactic =>
  `(tactic| (intros; scope_ir_unfold; try rfl))

theorem handPop_ok : PopOk handPop := by
  intro σ; unfold handPop; scope_ir_simple

theorem handSet_ok : SetOk handSet := by
  intro σ a; unfold handSet; scope_ir_simple

theorem handEnter_ok : EnterOk handEnter := by
  intro σ a; unfold handEnter; scope_ir_simple

/-- script for `__exit__`: cases on the saved default of the instance (absent / `None` / an accountant) -/
macro "scope_ir_exit" : tactic =>
  `(tactic| (
    intro σ a
    rcases h : σ.old a with _ | (_ | od) <;> simp [run, exec, evalE, exitI, h]))

theorem handExit_ok : ExitOk handExit := by
  unfold handExit; scope_ir_exit

/-- script for `load_default`: cases on the argument and on the class attribute -/
macro "scope_ir_load" : tactic =>
  `(tactic| (
    intro σ x
    rcases σ with ⟨d, o, f⟩
    rcases x with _ | x
    · rcases d with _ | d <;> simp [run, exec, evalE, stepI, resolveTop]
    · simp [run, exec, evalE, stepI]))

theorem handLoad_ok : LoadOk handLoad := by
  unfold handLoad; scope_ir_load

end ScopeIR
end DPL
