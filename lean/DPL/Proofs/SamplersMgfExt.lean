/-
Uniqueness of a finite measure on ℝ from its moment generating function on a half-line `(-∞, ρ)`, `ρ > 0`:
the complex mgf is analytic on the strip `Re z < ρ` (Mathlib: `analyticOnNhd_complexMGF`), two analytic functions that
agree on the real points of a connected open set agree on it (identity theorem), the imaginary axis lies in the strip,
there the complex mgf is the characteristic function, and characteristic functions separate finite measures.
-/
import Mathlib.Probability.Moments.ComplexMGF
import Mathlib.Analysis.Analytic.IsolatedZeros

namespace DPL.Smp
open MeasureTheory ProbabilityTheory Set Filter Topology Complex

theorem ext_of_mgf_eq_on_Iio {μ₁ μ₂ : Measure ℝ} [IsFiniteMeasure μ₁] [IsFiniteMeasure μ₂] (ρ : ℝ) (hρ : 0 < ρ)
    (h1 : ∀ t < ρ, Integrable (fun x : ℝ => Real.exp (t * x)) μ₁)
    (h2 : ∀ t < ρ, Integrable (fun x : ℝ => Real.exp (t * x)) μ₂)
    (heq : ∀ t < ρ, mgf id μ₁ t = mgf id μ₂ t) : μ₁ = μ₂ := by
  set U : Set ℂ := {z | z.re < ρ} with hU
  have hsub : ∀ (μ : Measure ℝ), (∀ t < ρ, Integrable (fun x : ℝ => Real.exp (t * x)) μ) →
      U ⊆ {z | z.re ∈ interior (integrableExpSet id μ)} := by
    intro μ h z hz
    have : Iio ρ ⊆ interior (integrableExpSet id μ) :=
      interior_maximal (fun t ht => by simpa [integrableExpSet] using h t ht) isOpen_Iio
    exact this hz
  have hf : AnalyticOnNhd ℂ (complexMGF id μ₁) U := analyticOnNhd_complexMGF.mono (hsub μ₁ h1)
  have hg : AnalyticOnNhd ℂ (complexMGF id μ₂) U := analyticOnNhd_complexMGF.mono (hsub μ₂ h2)
  have hUpre : IsPreconnected U := by
    have : Convex ℝ U := (convex_Iio ρ).linear_preimage Complex.reLm
    exact this.isPreconnected
  have h0 : (0 : ℂ) ∈ U := by simp [hU, hρ]
  have hfreq : ∃ᶠ z in 𝓝[≠] (0 : ℂ), complexMGF id μ₁ z = complexMGF id μ₂ z := by
    -- the real points `-1/(n+1)` tend to 0, are ≠ 0 and lie in the strip
    rw [frequently_iff_seq_forall]
    refine ⟨fun n : ℕ => ((-(1 / ((n : ℝ) + 1)) : ℝ) : ℂ), ?_, fun n => ?_⟩
    · rw [tendsto_nhdsWithin_iff]
      constructor
      · have : Tendsto (fun n : ℕ => -(1 / ((n : ℝ) + 1))) atTop (𝓝 (-0)) :=
          (tendsto_one_div_add_atTop_nhds_zero_nat).neg
        rw [neg_zero] at this
        have h := (Complex.continuous_ofReal.tendsto 0).comp this
        simpa [Function.comp_def] using h
      · refine Eventually.of_forall fun n => ?_
        have : (0 : ℝ) < 1 / ((n : ℝ) + 1) := by positivity
        simp only [mem_compl_iff, mem_singleton_iff, Complex.ofReal_eq_zero]
        linarith
    · rw [complexMGF_ofReal, complexMGF_ofReal, heq]
      have : (0 : ℝ) < 1 / ((n : ℝ) + 1) := by positivity
      linarith
  have hEq := hf.eqOn_of_preconnected_of_frequently_eq hg hUpre h0 hfreq
  refine Measure.ext_of_charFun ?_
  funext t
  rw [← complexMGF_id_mul_I, ← complexMGF_id_mul_I]
  apply hEq
  simp [hU, hρ]

end DPL.Smp
