/-
C19, folded Laplace: the integral of `foldMap l u y * lapDensity b v y` over one period `[l + n·2w, l + (n+1)·2w]`
(`w = u - l`, `l ≤ v ≤ u`), in closed form:
  * to the right of the centre (`n ≥ 1`):  `e^{-n·2w/b} · foldRc`,
  * to the left of the centre (`n ≤ -1`): `e^{ n·2w/b} · foldLc`,
  * the central period `[l, u] ∪ [u, u + w]`: `foldCentre + foldHalf`.
On each half period the folding map is affine and the density is a single exponential, so everything reduces to the
elementary integrals of `ContinuousTruncIntegrals`.
-/
import DPL.Proofs.ContinuousFold
import DPL.Proofs.ContinuousIntegrals
import DPL.Proofs.ContinuousTruncIntegrals
import Mathlib.MeasureTheory.Integral.IntervalIntegral.Basic
import Mathlib.Tactic.Linarith

namespace DPL.Cont
open MeasureTheory Real Set

/-! ### the folding map on the two halves of period `n` -/

theorem foldMap_up_half (l u y : ℝ) (hlu : l < u) (n : ℤ)
    (h1 : l + n * (2 * (u - l)) ≤ y) (h2 : y ≤ u + n * (2 * (u - l))) :
    foldMap l u y = -(n * (2 * (u - l))) + 1 * y := by
  have e : y = (y - n * (2 * (u - l))) + n * (2 * (u - l)) := by ring
  rw [e, foldMap_add_period l u _ hlu n, foldMap_id l u _ hlu (by linarith) (by linarith)]
  ring

theorem foldMap_down_half (l u y : ℝ) (hlu : l < u) (n : ℤ)
    (h1 : u + n * (2 * (u - l)) ≤ y) (h2 : y ≤ u + (u - l) + n * (2 * (u - l))) :
    foldMap l u y = (2 * u + n * (2 * (u - l))) + (-1) * y := by
  have e : y = (y - n * (2 * (u - l))) + n * (2 * (u - l)) := by ring
  rw [e, foldMap_add_period l u _ hlu n, foldMap_refl_piece l u _ hlu (by linarith) (by linarith)]
  ring

/-! ### the density on the two sides of the centre -/

theorem lapDensity_right (b v y : ℝ) (h : v ≤ y) : lapDensity b v y = Real.exp ((v - y) / b) / (2 * b) := by
  unfold lapDensity
  rw [abs_of_nonneg (by linarith)]
  congr 2
  ring

theorem lapDensity_left (b v y : ℝ) (h : y ≤ v) : lapDensity b v y = Real.exp ((y - v) / b) / (2 * b) := by
  unfold lapDensity
  rw [abs_of_nonpos (by linarith)]
  congr 2
  ring

/-! ### affine function times one exponential branch -/

theorem integral_aff_down (b v a c s t : ℝ) (hb : b ≠ 0) :
    (∫ y in a..c, (s + t * y) * (Real.exp ((v - y) / b) / (2 * b))) =
      (s + t * (a + b)) * Real.exp ((v - a) / b) / 2 - (s + t * (c + b)) * Real.exp ((v - c) / b) / 2 := by
  have e : (fun y : ℝ => (s + t * y) * (Real.exp ((v - y) / b) / (2 * b))) =
      fun y => s * (Real.exp ((v - y) / b) / (2 * b)) + t * (y * (Real.exp ((v - y) / b) / (2 * b))) := by
    funext y; ring
  rw [e, intervalIntegral.integral_add, intervalIntegral.integral_const_mul, intervalIntegral.integral_const_mul,
    integral_down0 b v a c hb, integral_down1 b v a c hb]
  · ring
  · exact Continuous.intervalIntegrable (by fun_prop) _ _
  · exact Continuous.intervalIntegrable (by fun_prop) _ _

theorem integral_aff_up (b v a c s t : ℝ) (hb : b ≠ 0) :
    (∫ y in a..c, (s + t * y) * (Real.exp ((y - v) / b) / (2 * b))) =
      (s + t * (c - b)) * Real.exp ((c - v) / b) / 2 - (s + t * (a - b)) * Real.exp ((a - v) / b) / 2 := by
  have e : (fun y : ℝ => (s + t * y) * (Real.exp ((y - v) / b) / (2 * b))) =
      fun y => s * (Real.exp ((y - v) / b) / (2 * b)) + t * (y * (Real.exp ((y - v) / b) / (2 * b))) := by
    funext y; ring
  rw [e, intervalIntegral.integral_add, intervalIntegral.integral_const_mul, intervalIntegral.integral_const_mul,
    integral_up0 b v a c hb, integral_up1 b v a c hb]
  · ring
  · exact Continuous.intervalIntegrable (by fun_prop) _ _
  · exact Continuous.intervalIntegrable (by fun_prop) _ _

/-! ### integrability -/

theorem integrable_foldMap_mul_lapDensity (b l u v : ℝ) (hb : 0 < b) (hlu : l < u) :
    Integrable (fun y => foldMap l u y * lapDensity b v y) :=
  (integrable_lapDensity b v hb).bdd_mul (c := max |l| |u|) (measurable_foldMap l u).aestronglyMeasurable
    (Filter.Eventually.of_forall fun y => by rw [Real.norm_eq_abs]; exact abs_foldMap_le l u y hlu)

/-! ### half periods -/

/-- rising half of period `n`, to the right of the centre -/
theorem half_up_right (b l u v : ℝ) (hb : 0 < b) (hlu : l < u) (n : ℤ) (hv : v ≤ l + n * (2 * (u - l))) :
    (∫ y in (l + n * (2 * (u - l)))..(u + n * (2 * (u - l))), foldMap l u y * lapDensity b v y) =
      (l + b) * Real.exp ((v - l - n * (2 * (u - l))) / b) / 2 -
        (u + b) * Real.exp ((v - u - n * (2 * (u - l))) / b) / 2 := by
  have hle : l + n * (2 * (u - l)) ≤ u + n * (2 * (u - l)) := by linarith
  rw [intervalIntegral.integral_congr (g := fun y => (-(n * (2 * (u - l))) + 1 * y) *
    (Real.exp ((v - y) / b) / (2 * b)))]
  · rw [integral_aff_down b v _ _ _ _ hb.ne']
    have a1 : v - (l + n * (2 * (u - l))) = v - l - n * (2 * (u - l)) := by ring
    have a2 : v - (u + n * (2 * (u - l))) = v - u - n * (2 * (u - l)) := by ring
    rw [a1, a2]
    ring
  · intro y hy
    rw [uIcc_of_le hle] at hy
    simp only
    rw [foldMap_up_half l u y hlu n hy.1 hy.2, lapDensity_right b v y (by linarith [hy.1])]

/-- falling half of period `n`, to the right of the centre -/
theorem half_down_right (b l u v : ℝ) (hb : 0 < b) (hlu : l < u) (n : ℤ) (hv : v ≤ u + n * (2 * (u - l))) :
    (∫ y in (u + n * (2 * (u - l)))..(u + (u - l) + n * (2 * (u - l))), foldMap l u y * lapDensity b v y) =
      (u - b) * Real.exp ((v - u - n * (2 * (u - l))) / b) / 2 -
        (l - b) * Real.exp ((v - 2 * u + l - n * (2 * (u - l))) / b) / 2 := by
  have hle : u + n * (2 * (u - l)) ≤ u + (u - l) + n * (2 * (u - l)) := by linarith
  rw [intervalIntegral.integral_congr (g := fun y => ((2 * u + n * (2 * (u - l))) + (-1) * y) *
    (Real.exp ((v - y) / b) / (2 * b)))]
  · rw [integral_aff_down b v _ _ _ _ hb.ne']
    have a1 : v - (u + (u - l) + n * (2 * (u - l))) = v - 2 * u + l - n * (2 * (u - l)) := by ring
    have a2 : v - (u + n * (2 * (u - l))) = v - u - n * (2 * (u - l)) := by ring
    rw [a1, a2]
    ring
  · intro y hy
    rw [uIcc_of_le hle] at hy
    simp only
    rw [foldMap_down_half l u y hlu n hy.1 hy.2, lapDensity_right b v y (by linarith [hy.1])]

/-- rising half of period `n`, to the left of the centre -/
theorem half_up_left (b l u v : ℝ) (hb : 0 < b) (hlu : l < u) (n : ℤ) (hv : u + n * (2 * (u - l)) ≤ v) :
    (∫ y in (l + n * (2 * (u - l)))..(u + n * (2 * (u - l))), foldMap l u y * lapDensity b v y) =
      (u - b) * Real.exp ((u - v + n * (2 * (u - l))) / b) / 2 -
        (l - b) * Real.exp ((l - v + n * (2 * (u - l))) / b) / 2 := by
  have hle : l + n * (2 * (u - l)) ≤ u + n * (2 * (u - l)) := by linarith
  rw [intervalIntegral.integral_congr (g := fun y => (-(n * (2 * (u - l))) + 1 * y) *
    (Real.exp ((y - v) / b) / (2 * b)))]
  · rw [integral_aff_up b v _ _ _ _ hb.ne']
    have a1 : l + n * (2 * (u - l)) - v = l - v + n * (2 * (u - l)) := by ring
    have a2 : u + n * (2 * (u - l)) - v = u - v + n * (2 * (u - l)) := by ring
    rw [a1, a2]
    ring
  · intro y hy
    rw [uIcc_of_le hle] at hy
    simp only
    rw [foldMap_up_half l u y hlu n hy.1 hy.2, lapDensity_left b v y (by linarith [hy.2])]

/-- falling half of period `n`, to the left of the centre -/
theorem half_down_left (b l u v : ℝ) (hb : 0 < b) (hlu : l < u) (n : ℤ)
    (hv : u + (u - l) + n * (2 * (u - l)) ≤ v) :
    (∫ y in (u + n * (2 * (u - l)))..(u + (u - l) + n * (2 * (u - l))), foldMap l u y * lapDensity b v y) =
      (l + b) * Real.exp ((2 * u - l - v + n * (2 * (u - l))) / b) / 2 -
        (u + b) * Real.exp ((u - v + n * (2 * (u - l))) / b) / 2 := by
  have hle : u + n * (2 * (u - l)) ≤ u + (u - l) + n * (2 * (u - l)) := by linarith
  rw [intervalIntegral.integral_congr (g := fun y => ((2 * u + n * (2 * (u - l))) + (-1) * y) *
    (Real.exp ((y - v) / b) / (2 * b)))]
  · rw [integral_aff_up b v _ _ _ _ hb.ne']
    have a1 : u + (u - l) + n * (2 * (u - l)) - v = 2 * u - l - v + n * (2 * (u - l)) := by ring
    have a2 : u + n * (2 * (u - l)) - v = u - v + n * (2 * (u - l)) := by ring
    rw [a1, a2]
    ring
  · intro y hy
    rw [uIcc_of_le hle] at hy
    simp only
    rw [foldMap_down_half l u y hlu n hy.1 hy.2, lapDensity_left b v y (by linarith [hy.2])]

/-! ### whole periods -/

/-- the constants: contribution of period `n ≥ 1` is `e^{-n·2w/b} · foldRc`, of period `n ≤ -1` is
`e^{n·2w/b} · foldLc` -/
noncomputable def foldRc (b l u v : ℝ) : ℝ :=
  (l + b) * Real.exp ((v - l) / b) / 2 - b * Real.exp ((v - u) / b) - (l - b) * Real.exp ((v - 2 * u + l) / b) / 2

noncomputable def foldLc (b l u v : ℝ) : ℝ :=
  (l + b) * Real.exp ((2 * u - l - v) / b) / 2 - b * Real.exp ((u - v) / b) - (l - b) * Real.exp ((l - v) / b) / 2

/-- `∫_l^u y f(y) dy` -/
noncomputable def foldCentre (b l u v : ℝ) : ℝ :=
  v - (l - b) * Real.exp ((l - v) / b) / 2 - (u + b) * Real.exp ((v - u) / b) / 2

/-- `∫_u^{u+w} (2u - y) f(y) dy` -/
noncomputable def foldHalf (b l u v : ℝ) : ℝ :=
  (u - b) * Real.exp ((v - u) / b) / 2 - (l - b) * Real.exp ((v - 2 * u + l) / b) / 2

theorem exp_sub_div (c T b : ℝ) : Real.exp ((c - T) / b) = Real.exp (-(T / b)) * Real.exp (c / b) := by
  rw [← Real.exp_add]; congr 1; ring

theorem exp_add_div (c T b : ℝ) : Real.exp ((c + T) / b) = Real.exp (T / b) * Real.exp (c / b) := by
  rw [← Real.exp_add]; congr 1; ring

theorem period_right (b l u v : ℝ) (hb : 0 < b) (hlu : l < u) (n : ℤ) (hv : v ≤ l + n * (2 * (u - l))) :
    (∫ y in (l + n * (2 * (u - l)))..(l + (n + 1) * (2 * (u - l))), foldMap l u y * lapDensity b v y) =
      Real.exp (-(n * (2 * (u - l)) / b)) * foldRc b l u v := by
  have hint := integrable_foldMap_mul_lapDensity b l u v hb hlu
  have e : l + (n + 1) * (2 * (u - l)) = u + (u - l) + n * (2 * (u - l)) := by ring
  rw [e, ← intervalIntegral.integral_add_adjacent_intervals (b := u + n * (2 * (u - l)))
    hint.intervalIntegrable hint.intervalIntegrable,
    half_up_right b l u v hb hlu n hv, half_down_right b l u v hb hlu n (by linarith)]
  unfold foldRc
  rw [exp_sub_div (v - l), exp_sub_div (v - u), exp_sub_div (v - 2 * u + l)]
  ring

theorem period_left (b l u v : ℝ) (hb : 0 < b) (hlu : l < u) (n : ℤ) (hv : l + (n + 1) * (2 * (u - l)) ≤ v) :
    (∫ y in (l + n * (2 * (u - l)))..(l + (n + 1) * (2 * (u - l))), foldMap l u y * lapDensity b v y) =
      Real.exp (n * (2 * (u - l)) / b) * foldLc b l u v := by
  have hint := integrable_foldMap_mul_lapDensity b l u v hb hlu
  have e : l + (n + 1) * (2 * (u - l)) = u + (u - l) + n * (2 * (u - l)) := by ring
  rw [e] at hv ⊢
  rw [← intervalIntegral.integral_add_adjacent_intervals (b := u + n * (2 * (u - l)))
    hint.intervalIntegrable hint.intervalIntegrable,
    half_up_left b l u v hb hlu n (by linarith), half_down_left b l u v hb hlu n hv]
  unfold foldLc
  rw [exp_add_div (u - v), exp_add_div (l - v), exp_add_div (2 * u - l - v)]
  ring

/-- the central piece `[l, u]`, which contains the centre `v` -/
theorem centre_piece (b l u v : ℝ) (hb : 0 < b) (hlu : l < u) (hlv : l ≤ v) (hvu : v ≤ u) :
    (∫ y in l..u, foldMap l u y * lapDensity b v y) = foldCentre b l u v := by
  have hint := integrable_foldMap_mul_lapDensity b l u v hb hlu
  rw [← intervalIntegral.integral_add_adjacent_intervals (b := v) hint.intervalIntegrable hint.intervalIntegrable]
  rw [intervalIntegral.integral_congr (a := l) (b := v)
    (g := fun y => y * (Real.exp ((y - v) / b) / (2 * b)))]
  rw [intervalIntegral.integral_congr (a := v) (b := u)
    (g := fun y => y * (Real.exp ((v - y) / b) / (2 * b)))]
  · rw [integral_up1 b v l v hb.ne', integral_down1 b v v u hb.ne']
    unfold foldCentre
    simp only [sub_self, zero_div, Real.exp_zero]
    ring
  · intro y hy
    rw [uIcc_of_le hvu] at hy
    simp only
    rw [foldMap_id l u y hlu (by linarith [hy.1]) hy.2, lapDensity_right b v y hy.1]
  · intro y hy
    rw [uIcc_of_le hlv] at hy
    simp only
    rw [foldMap_id l u y hlu hy.1 (by linarith [hy.2]), lapDensity_left b v y hy.2]

/-- the central period `[l, l + 2w]` -/
theorem period_zero (b l u v : ℝ) (hb : 0 < b) (hlu : l < u) (hlv : l ≤ v) (hvu : v ≤ u) :
    (∫ y in l..(l + 2 * (u - l)), foldMap l u y * lapDensity b v y) = foldCentre b l u v + foldHalf b l u v := by
  have hint := integrable_foldMap_mul_lapDensity b l u v hb hlu
  rw [← intervalIntegral.integral_add_adjacent_intervals (b := u) hint.intervalIntegrable hint.intervalIntegrable,
    centre_piece b l u v hb hlu hlv hvu]
  have h := half_down_right b l u v hb hlu 0 (by simpa using hvu)
  simp only [Int.cast_zero, zero_mul, add_zero, sub_zero] at h
  have e : l + 2 * (u - l) = u + (u - l) := by ring
  rw [e, h]
  rfl

end DPL.Cont
