/-
A kernel for the geometric counts (`GeometricTruncated` / `GeometricFolded` of GaussianNB and KMeans) and a kernel
family dispatching on the mechanism class, with its metric-DP proof:
  geomKernel c a  = law of  clamp_[lower,upper] (Geometric(ε, sensitivity 1).randomise(⌊a⌋))  (C01: `geom_post_dp`)
  codeKernel      = geomKernel on the geometric classes, `lapKernel` on "Laplace", `truncLapKernel` elsewhere
(`LaplaceFolded` and `LaplaceBoundedDomain` are represented by the truncated Laplace law: no dedicated kernel here).
The geometric family is metric-DP on INTEGER inputs with sensitivity 1 — hence the input-aware side predicate `CodeOk`.
-/
import DPL.Proofs.ModelsCompose3
import DPL.Proofs.ModelsCompose4
import DPL.Proofs.ModelsCompose6
import DPL.Proofs.DiscreteGeomDP

namespace DPL
namespace PM
open MeasureTheory ENNReal Set DPL.Discrete

/-! ### the geometric kernel -/

/-- the draw as a total measurable function of the uniform (0 outside `[0,1)`, which has mass 0) -/
noncomputable def geomDrawT (eps : ℝ) (x : ℤ) (u : ℝ) : ℤ :=
  if u ∈ Ico (0 : ℝ) 1 then geomRandomise eps 1 x u else 0

theorem preimage_ite_singleton (A : Set ℝ) [DecidablePred (· ∈ A)] (f : ℝ → ℤ) (o : ℤ) :
    (fun u => if u ∈ A then f u else 0) ⁻¹' {o} = {u : ℝ | u ∈ A ∧ f u = o} ∪ (if o = 0 then Aᶜ else ∅) := by
  ext u
  by_cases hu : u ∈ A
  · by_cases ho : o = 0 <;> simp [hu, ho]
  · by_cases ho : o = 0
    · simp [hu, ho]
    · simp [hu, ho, Ne.symm ho]

theorem measurable_geomDrawT (eps : ℝ) (heps : 0 < eps) (x : ℤ) : Measurable (geomDrawT eps x) := by
  apply measurable_to_countable'
  intro o
  have := preimage_ite_singleton (Ico (0 : ℝ) 1) (geomRandomise eps 1 x) o
  unfold geomDrawT
  rw [this]
  refine (geomRandomise_measurable eps heps 1 x o).union ?_
  split
  · exact measurableSet_Ico.compl
  · exact MeasurableSet.empty

/-- clamp of an integer to the configured real bounds -/
noncomputable def clampZ (c : MechCall ℝ) (z : ℤ) : ℝ := max c.lower (min (z : ℝ) c.upper)

/-- geometric count mechanism (sensitivity 1) on `⌊a⌋`, output clamped to `[lower, upper]`; identity if ε ≤ 0 -/
noncomputable def geomKernel (c : MechCall ℝ) (a : ℝ) : Measure ℝ :=
  if 0 < c.eps then (volume.restrict (Ico (0 : ℝ) 1)).map (fun u => clampZ c (geomDrawT c.eps ⌊a⌋ u))
  else Measure.dirac a

theorem measurable_geomOut (c : MechCall ℝ) (heps : 0 < c.eps) (x : ℤ) :
    Measurable (fun u => clampZ c (geomDrawT c.eps x u)) :=
  (Measurable.of_discrete (f := clampZ c)).comp (measurable_geomDrawT c.eps heps x)

theorem geomKernel_apply (c : MechCall ℝ) (heps : 0 < c.eps) (a : ℝ) (S : Set ℝ) (hS : MeasurableSet S) :
    geomKernel c a S = volume {u : ℝ | u ∈ Ico (0 : ℝ) 1 ∧ clampZ c (geomRandomise c.eps 1 ⌊a⌋ u) ∈ S} := by
  have hm := measurable_geomOut c heps ⌊a⌋
  simp only [geomKernel, if_pos heps]
  rw [Measure.map_apply hm hS, Measure.restrict_apply (hm hS)]
  congr 1
  ext u
  simp only [mem_inter_iff, mem_preimage, mem_ofPred_eq]
  constructor
  · rintro ⟨h1, h2⟩; exact ⟨h2, by simpa [geomDrawT, h2] using h1⟩
  · rintro ⟨h1, h2⟩; exact ⟨by simpa [geomDrawT, h1] using h2, h1⟩

theorem geomKernel_isProb (c : MechCall ℝ) (a : ℝ) : IsProbabilityMeasure (geomKernel c a) := by
  unfold geomKernel
  split
  · rename_i h
    have : IsProbabilityMeasure (volume.restrict (Ico (0 : ℝ) 1)) := ⟨by simp⟩
    exact Measure.isProbabilityMeasure_map (measurable_geomOut c h _).aemeasurable
  · infer_instance

/-- integer inputs, sensitivity 1 -/
def GeomOk (c : MechCall ℝ) (a b : ℝ) : Prop := c.sens = 1 ∧ (∃ n : ℤ, a = n) ∧ ∃ m : ℤ, b = m

/-- the geometric family is metric-DP on integer inputs (C01 `geom_post_dp`, i.e. `geom_dp` + post-processing) -/
theorem geomKernel_metricDPW :
    MetricDPW relDisp relDisp (fun c a b => 0 < c.eps ∧ GeomOk c a b) geomKernel := by
  rintro c a b ⟨heps, hs, ⟨n, rfl⟩, ⟨m, rfl⟩⟩ hab S hS
  rw [relDisp_eq, hs, div_one] at hab ⊢
  rw [geomKernel_apply c heps _ S hS, geomKernel_apply c heps _ S hS, Int.floor_intCast, Int.floor_intCast]
  have hnm : |n - m| ≤ ((1 : ℕ) : ℤ) := by
    have : ((|n - m| : ℤ) : ℝ) ≤ 1 := by push_cast; exact hab
    exact_mod_cast this
  by_cases hEq : n = m
  · subst hEq
    simp
  · have h1 : |(n : ℝ) - (m : ℝ)| = 1 := by
      have hpos : 0 < |n - m| := abs_pos.mpr (sub_ne_zero.mpr hEq)
      have : |n - m| = 1 := by
        have : |n - m| ≤ 1 := by simpa using hnm
        omega
      have h2 : ((|n - m| : ℤ) : ℝ) = 1 := by rw [this]; norm_num
      push_cast at h2; exact h2
    rw [h1, mul_one]
    exact geom_post_dp c.eps heps 1 n m hnm (clampZ c) S

/-! ### dispatch on the mechanism class -/

def isGeom (c : MechCall ℝ) : Prop := c.kind = "GeometricTruncated" ∨ c.kind = "GeometricFolded"

instance (c : MechCall ℝ) : Decidable (isGeom c) := by unfold isGeom; infer_instance

/-- the kernel family used for the hypothesis-free corollaries -/
noncomputable def codeKernel (c : MechCall ℝ) (a : ℝ) : Measure ℝ :=
  if isGeom c then geomKernel c a else if c.kind = "Laplace" then lapKernel c a else truncLapKernel c a

/-- what the plans guarantee about each invocation: positive ε and sensitivity; geometric classes are called with
sensitivity 1 on integer inputs -/
def CodeOk (c : MechCall ℝ) (a b : ℝ) : Prop := (0 < c.eps ∧ 0 < c.sens) ∧ (isGeom c → GeomOk c a b)

theorem codeKernel_isProb (c : MechCall ℝ) (a : ℝ) : IsProbabilityMeasure (codeKernel c a) := by
  unfold codeKernel
  split
  · exact geomKernel_isProb c a
  · split
    · exact lapKernel_isProb c a
    · exact truncLapKernel_isProb c a

theorem codeKernel_metricDPW : MetricDPW relDisp relDisp CodeOk codeKernel := by
  rintro c a b ⟨hpos, hg⟩ hab S hS
  unfold codeKernel
  by_cases h : isGeom c
  · simp only [if_pos h]
    exact geomKernel_metricDPW c a b ⟨hpos.1, hg h⟩ hab S hS
  · simp only [if_neg h]
    split
    · exact lapKernel_metricDP c hpos a b hab S hS
    · exact truncLapKernel_metricDP c hpos a b hab S hS

/-- Laplace-only dispatch (no geometric class in the plan): metric-DP in the input-blind sense -/
noncomputable def lapCodeKernel (c : MechCall ℝ) (a : ℝ) : Measure ℝ :=
  if c.kind = "Laplace" then lapKernel c a else truncLapKernel c a

theorem lapCodeKernel_metricDP : MetricDP PosCall lapCodeKernel := by
  intro c hc a b hab S hS
  unfold lapCodeKernel
  split
  · exact lapKernel_metricDP c hc a b hab S hS
  · exact truncLapKernel_metricDP c hc a b hab S hS

theorem lapCodeKernel_isProb (c : MechCall ℝ) (a : ℝ) : IsProbabilityMeasure (lapCodeKernel c a) := by
  unfold lapCodeKernel
  split
  · exact lapKernel_isProb c a
  · exact truncLapKernel_isProb c a

/-! ### the geometric invocations of GaussianNB and KMeans are counts with sensitivity 1 -/

theorem callsSatAt_and {δ ρ : Type} (P Q : MechCall ℝ → ℝ → ℝ → Prop) (D D' : δ) (p : Plan δ ℝ ρ)
    (hP : p.callsSatAt P D D') (hQ : p.callsSatAt Q D D') : p.callsSatAt (fun c a b => P c a b ∧ Q c a b) D D' := by
  induction p with
  | release r => trivial
  | call c inp k ih => exact ⟨⟨hP.1, hQ.1⟩, fun o => ih o (hP.2 o) (hQ.2 o)⟩
  | probe occ k ih => exact fun b => ih b (hP b) (hQ b)

/-- shorthand: the geometric part of `CodeOk` -/
def GeomPart (c : MechCall ℝ) (a b : ℝ) : Prop := isGeom c → GeomOk c a b

theorem geomPart_of_not {c : MechCall ℝ} (a b : ℝ) (h : ¬ isGeom c) : GeomPart c a b := fun hg => absurd hg h

theorem callsSatAt_gnbPlan_geom (p : GnbParams ℝ) (D D' : DS ℝ) : (gnbPlan p).callsSatAt GeomPart D D' := by
  intro occ
  refine callsSatAt_bind _ _ _ _ _ (callsSatAt_forList _ _ _ _ _ fun c _ => callsSatAt_one _ _ _ _ _ ?_) fun raw => ?_
  · exact fun _ => ⟨rfl, ⟨_, (Int.cast_natCast _).symm⟩, ⟨_, (Int.cast_natCast _).symm⟩⟩
  refine callsSatAt_bind _ _ _ _ _ (callsSatAt_forList _ _ _ _ _ fun ci _ => ?_) fun _ => trivial
  unfold gnbClass
  split
  · trivial
  · refine callsSatAt_forList _ _ _ _ _ fun j _ => ?_
    exact ⟨geomPart_of_not _ _ (by simp [isGeom]), fun o => ⟨geomPart_of_not _ _ (by simp [isGeom]), fun _ => trivial⟩⟩

theorem callsSatAt_kmLoop_geom (p : KmParams ℝ) (e0 ei : ℝ) (D D' : DS ℝ) (t : ℕ) (cs : List (List ℝ)) :
    (kmLoop p e0 ei t cs).callsSatAt GeomPart D D' := by
  induction t generalizing cs with
  | zero => trivial
  | succ t ih =>
    simp only [kmLoop]
    refine callsSatAt_bind _ _ _ _ _ ?_ fun cs' => ih cs'
    intro occ
    refine callsSatAt_forList _ _ _ _ _ fun c _ => ?_
    split
    · refine ⟨fun _ => ⟨rfl, ⟨_, (Int.cast_natCast _).symm⟩, ⟨_, (Int.cast_natCast _).symm⟩⟩, fun nc => ?_⟩
      refine callsSatAt_bind _ _ _ _ _ (callsSatAt_forList _ _ _ _ _ fun j _ => callsSatAt_one _ _ _ _ _ ?_)
        fun _ => trivial
      exact geomPart_of_not _ _ (by simp [isGeom])
    · trivial

theorem callsSatAt_gnbPlan_code (p : GnbParams ℝ) (hε : 0 < p.eps) (hd : 0 < p.d)
    (hb : ∀ j, j < p.d → nth p.lo j < nth p.hi j) (D D' : DS ℝ) : (gnbPlan p).callsSatAt CodeOk D D' :=
  callsSatAt_and _ _ D D' _ (callsSatAt_of_callsSat _ D D' _ (callsSat_gnbPlan p hε hd hb))
    (callsSatAt_gnbPlan_geom p D D')

theorem callsSatAt_kmPlan_code (p : KmParams ℝ) (hε : 0 < p.eps) (hd : 0 < p.d)
    (hb : ∀ j, j < p.d → nth p.lo j < nth p.hi j) (D D' : DS ℝ) : (kmPlan p).callsSatAt CodeOk D D' := by
  refine callsSatAt_and _ _ D D' _ (callsSatAt_of_callsSat _ D D' _ (callsSat_kmPlan p hε hd hb)) ?_
  unfold kmPlan kmPlanWith
  exact callsSatAt_kmLoop_geom p _ _ D D' _ _

end PM
end DPL
