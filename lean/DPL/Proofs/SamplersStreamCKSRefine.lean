/-
C03: the executable model `Smp.cksLoop` (DPL/Model/Samplers.lean, fuel on every loop) is a RESTRICTION of the unbounded
loop `loopI` of `SamplersStreamCKS.lean`: whenever the model returns `(y, rest)` on a list of uniforms, so does
`loopI … 4096 fuel`.  (The converse fails only where one of the model's inner loops runs out of fuel.)
-/
import DPL.Proofs.SamplersStreamCKS

namespace DPL.SmpS
open DPL.Discrete

/-- the model's `Option` results as stream-sampler results -/
def ofOpt {β : Type} : Option β → Except DErr β
  | none => .error .exhausted
  | some b => .ok b

@[simp] theorem ofOpt_eq_ok {β : Type} (o : Option β) (b : β) : ofOpt o = .ok b ↔ o = some b := by
  cases o <;> simp [ofOpt]

/-- the fuelled inner loop of the model agrees with C01's fuel-free `bernLoop` wherever it returns -/
theorem bernCount_sub (g : ℝ) : ∀ (F k : ℕ) (l : List ℝ) (k' : ℕ) (rest : List ℝ),
    Smp.bernCount g F k l = some (k', rest) → Discrete.bernLoop g l k = .ok (k' % 2 == 1, rest) := by
  intro F
  induction F with
  | zero => intro k l k' rest h; simp [Smp.bernCount] at h
  | succ F ih =>
    intro k l k' rest h
    cases l with
    | nil => simp [Smp.bernCount] at h
    | cons u us =>
      simp only [Smp.bernCount] at h
      rw [Discrete.bernLoop_cons]
      by_cases hu : u ≤ g / (k : ℝ)
      · rw [if_pos hu] at h ⊢
        exact ih _ _ _ _ h
      · rw [if_neg hu] at h ⊢
        simp only [Option.some.injEq, Prod.mk.injEq] at h
        rw [h.1, h.2]

theorem bernNegExp_sub_outer : ∀ (F : ℕ) (γ : ℝ) (l : List ℝ) (b : Bool) (rest : List ℝ), 0 ≤ γ →
    Smp.bernNegExp F γ l = some (b, rest) → ∀ F' : ℕ, γ < F' → Discrete.bernOuter F' γ l = .ok (b, rest) := by
  intro F
  induction F with
  | zero => intro γ l b rest _ h; simp [Smp.bernNegExp] at h
  | succ F ih =>
    intro γ l b rest h0 h F' hF'
    cases F' with
    | zero => exfalso; simp only [Nat.cast_zero] at hF'; linarith
    | succ F'' =>
      simp only [Smp.bernNegExp] at h
      simp only [Discrete.bernOuter]
      by_cases hg : 1 < γ
      · rw [if_pos hg] at h ⊢
        cases hc : Smp.bernCount (1:ℝ) (F + 1) 1 l with
        | none => rw [hc] at h; simp at h
        | some p =>
          obtain ⟨k, us'⟩ := p
          rw [hc] at h
          have hl := bernCount_sub 1 _ _ _ _ _ hc
          rw [hl]
          by_cases hk : (k % 2 == 1) = true
          · simp only [hk, if_true] at h ⊢
            exact ih (γ - 1) us' b rest (by linarith) h F'' (by push_cast at hF'; linarith)
          · simp only [hk, Bool.false_eq_true, if_false, Option.some.injEq, Prod.mk.injEq] at h
            have hk' : (k % 2 == 1) = false := by simpa using hk
            rw [hk', ← h.1, ← h.2]
      · rw [if_neg hg] at h ⊢
        cases hc : Smp.bernCount γ (F + 1) 1 l with
        | none => rw [hc] at h; simp at h
        | some p =>
          obtain ⟨k, us'⟩ := p
          rw [hc] at h
          simp only [Option.some.injEq, Prod.mk.injEq] at h
          rw [bernCount_sub γ _ _ _ _ _ hc, h.1, h.2]

/-- the model's `bernNegExp` (any fuel) is a restriction of `bernI` -/
theorem bernNegExp_sub (F : ℕ) (γ : ℝ) (h0 : 0 ≤ γ) (l : List ℝ) (b : Bool) (rest : List ℝ)
    (h : Smp.bernNegExp F γ l = some (b, rest)) : bernI γ l = .ok (b, rest) := by
  unfold bernI
  rw [Discrete.bernNegExp_eq _ γ h0]
  exact bernNegExp_sub_outer F γ l b rest h0 h _ (by push_cast; exact Nat.lt_floor_add_one γ)

/-- the model's geometric loop (inner coin fuel 64, `F` rounds, counter started at `n`) is a restriction of `geomI` -/
theorem geomCount_sub (τ : ℝ) (h0 : 0 ≤ τ) : ∀ (F n : ℕ) (l : List ℝ) (m : ℕ) (rest : List ℝ),
    Smp.geomCount τ F n l = some (m, rest) → ∃ j, m = n + j ∧ geomI τ F l = .ok (j, rest) := by
  intro F
  induction F with
  | zero => intro n l m rest h; simp [Smp.geomCount] at h
  | succ F ih =>
    intro n l m rest h
    simp only [Smp.geomCount] at h
    cases hb : Smp.bernNegExp 64 τ l with
    | none => rw [hb] at h; simp at h
    | some p =>
      obtain ⟨b, us'⟩ := p
      rw [hb] at h
      have hI := bernNegExp_sub 64 τ h0 l b us' hb
      cases b with
      | true =>
        simp only at h
        obtain ⟨j, hj, hg⟩ := ih (n + 1) us' m rest h
        refine ⟨j + 1, by omega, ?_⟩
        simp only [geomI, bindS, hI, if_true, hg, retS]
      | false =>
        simp only [Option.some.injEq, Prod.mk.injEq] at h
        refine ⟨0, by omega, ?_⟩
        simp only [geomI, bindS, hI, Bool.false_eq_true, if_false, retS, h.2]

/-- **the model's outer loop is a restriction of `loopI`** (geometric cap 4096 as in the model) -/
theorem cksLoop_sub (τ σ2 : ℝ) (h0 : 0 ≤ τ) (hσ : 0 < σ2) : ∀ (n : ℕ) (l : List ℝ) (y : ℤ) (rest : List ℝ),
    Smp.cksLoop τ σ2 n l = some (y, rest) → loopI τ σ2 4096 n l = .ok (y, rest) := by
  intro n
  induction n with
  | zero => intro l y rest h; simp [Smp.cksLoop] at h
  | succ n ih =>
    intro l y rest h
    simp only [Smp.cksLoop] at h
    cases hg : Smp.geomCount τ 4096 0 l with
    | none => rw [hg] at h; simp at h
    | some p =>
      obtain ⟨gx, l1⟩ := p
      rw [hg] at h
      obtain ⟨j, hj, hgI⟩ := geomCount_sub τ h0 4096 0 l gx l1 hg
      have hj' : j = gx := by omega
      subst hj'
      cases l1 with
      | nil => simp at h
      | cons u us2 =>
        simp only at h
        by_cases hb : (decide (u < 1 / 2) && j == 0) = true
        · rw [if_pos hb] at h
          have := ih us2 y rest h
          simp only [loopI, passI, passK1, passK2, bindS, hgI, readBit, hb, if_true, retS, this]
        · rw [if_neg hb] at h
          cases ha : Smp.bernNegExp 4096 (Smp.cksGamma τ σ2 j) us2 with
          | none => rw [ha] at h; simp at h
          | some q =>
            obtain ⟨a, us3⟩ := q
            rw [ha] at h
            have hI := bernNegExp_sub 4096 _ (cksGamma_nonneg τ σ2 hσ j) us2 a us3 ha
            cases a with
            | true =>
              simp only [Option.some.injEq, Prod.mk.injEq] at h
              simp only [loopI, passI, passK1, passK2, bindS, hgI, readBit, hb, Bool.false_eq_true, if_false, hI,
                if_true, retS, sgn, h.1, h.2]
            | false =>
              simp only at h
              have := ih us3 y rest h
              simp only [loopI, passI, passK1, passK2, bindS, hgI, readBit, hb, Bool.false_eq_true, if_false, hI,
                retS, this]

end DPL.SmpS
