/-
Side predicates of the semantic step for LinearRegression, KMeans and the forest:
every configured invocation has positive ε and sensitivity (`callsSat`), and the probes agree along all paths as soon as
the occupancy patterns agree for every value of the noisy state (`probesAgree`).
-/
import DPL.Proofs.ModelsCompose5
import DPL.Proofs.ModelsLoss2
import DPL.Proofs.ModelsFree
import DPL.Proofs.ModelsForest

namespace DPL
namespace PM
open MeasureTheory

/-- positive ε and sensitivity -/
def PosCall (c : MechCall ℝ) : Prop := 0 < c.eps ∧ 0 < c.sens

theorem cornerSens_pos (a b c d : ℝ) (hab : a < b) (hcd : c < d) : 0 < cornerSens c d a b := by
  by_cases hc : c = 0
  · have hd : d ≠ 0 := by rw [hc] at hcd; exact hcd.ne'
    have h := corner_product_sens a b c d a d b d ⟨le_refl _, hab.le⟩ ⟨hcd.le, le_refl _⟩ ⟨hab.le, le_refl _⟩
      ⟨hcd.le, le_refl _⟩
    refine lt_of_lt_of_le (abs_pos.mpr ?_) h
    have : a * d - b * d = (a - b) * d := by ring
    rw [this]; exact mul_ne_zero (sub_ne_zero.mpr hab.ne) hd
  · have h := corner_product_sens a b c d a c b c ⟨le_refl _, hab.le⟩ ⟨le_refl _, hcd.le⟩ ⟨hab.le, le_refl _⟩
      ⟨le_refl _, hcd.le⟩
    refine lt_of_lt_of_le (abs_pos.mpr ?_) h
    have : a * c - b * c = (a - b) * c := by ring
    rw [this]; exact mul_ne_zero (sub_ne_zero.mpr hab.ne) hc

theorem sqSens_pos (l u : ℝ) (h : l < u) : 0 < sqSens l u := by
  simp only [sqSens, pmax_eq, pabs_eq]
  have : 0 < max |l| |u| := by
    by_cases hl : l = 0
    · exact lt_max_iff.mpr (Or.inr (abs_pos.mpr (by rw [hl] at h; exact h.ne')))
    · exact lt_max_iff.mpr (Or.inl (abs_pos.mpr hl))
  positivity

theorem sumSens_pos (l u : ℝ) (h : l < u) : 0 < sumSens l u := by
  rw [sumSens_eq]; exact lt_of_lt_of_le (by linarith) (le_max_right _ _)

/-! ### LinearRegression -/

section lin
variable (p : LinParams ℝ)

theorem linCount_pos (ht : 0 < p.t) : 0 < linCount p := by
  unfold linCount nat
  have h1 : (0 : ℝ) < ((p.t + p.t * p.d : ℕ) : ℝ) := by exact_mod_cast (by positivity : 0 < p.t + p.t * p.d)
  have h2 : (0 : ℝ) ≤ ((p.d * (p.d + 1) : ℕ) : ℝ) / ((2 : ℕ) : ℝ) := by positivity
  linarith

theorem callsSat_meanAxis0 (ε : ℝ) (lo hi : List ℝ) (n d : Nat) (hε : 0 < ε) (hd : 0 < d) (hn : 0 < n)
    (hb : ∀ j, j < d → nth lo j < nth hi j) : (meanAxis0 ε lo hi n d).callsSat PosCall := by
  have hd' : (0 : ℝ) < d := by exact_mod_cast hd
  have hn' : (0 : ℝ) < n := by exact_mod_cast hn
  refine callsSat_forList _ _ _ fun j hj => callsSat_one _ _ _ ⟨?_, ?_⟩
  · show 0 < ε / (d : ℝ); positivity
  · show 0 < (nth hi j - nth lo j) / (n : ℝ)
    have := hb j (by simpa using hj)
    apply div_pos <;> linarith

theorem callsSat_linMeanY (ε : ℝ) (hε : 0 < ε) (ht : 0 < p.t) (hn : 0 < p.n)
    (hby : ∀ i, i < p.t → nth p.ylo i < nth p.yhi i) : (linMeanY p ε).callsSat PosCall := by
  have ht' : (0 : ℝ) < p.t := by exact_mod_cast ht
  have hn' : (0 : ℝ) < p.n := by exact_mod_cast hn
  refine callsSat_forList _ _ _ fun i hi => callsSat_one _ _ _ ⟨?_, ?_⟩
  · show 0 < (if p.y1d then ε else ε / (p.t : ℝ))
    split
    · exact hε
    · positivity
  · show 0 < (nth p.yhi i - nth p.ylo i) / (p.n : ℝ)
    have := hby i (by simpa using hi)
    apply div_pos <;> linarith

theorem callsSat_linCoefs (ε : ℝ) (xo yo : List ℝ) (hε : 0 < ε) (ht : 0 < p.t)
    (hb : ∀ j, j < p.d → nth p.lo j < nth p.hi j) (hby : ∀ i, i < p.t → nth p.ylo i < nth p.yhi i) :
    (linCoefs p ε xo yo).callsSat PosCall := by
  have hle : 0 < ε / linCount p := div_pos hε (linCount_pos p ht)
  have hx : ∀ j, j < p.d → nth p.lo j - nth xo j < nth p.hi j - nth xo j := fun j hj => by
    have := hb j hj; linarith
  have hy : ∀ i, i < p.t → nth p.ylo i - nth yo i < nth p.yhi i - nth yo i := fun i hi => by
    have := hby i hi; linarith
  unfold linCoefs
  refine callsSat_bind _ _ _ (callsSat_forList _ _ _ fun i hi => callsSat_one _ _ _ ⟨hle, ?_⟩) fun c0 => ?_
  · exact sqSens_pos _ _ (hy i (by simpa using hi))
  refine callsSat_bind _ _ _ (callsSat_forList _ _ _ fun ij hij => callsSat_one _ _ _ ⟨hle, ?_⟩) fun c1 => ?_
  · obtain ⟨i, hi, hm⟩ := List.mem_flatMap.mp hij
    obtain ⟨j, hj, rfl⟩ := List.mem_map.mp hm
    exact cornerSens_pos _ _ _ _ (hx j (by simpa using hj)) (hy i (by simpa using hi))
  refine callsSat_bind _ _ _ (callsSat_forList _ _ _ fun ij hij => ?_) fun c2 => trivial
  obtain ⟨i, hi, hm⟩ := List.mem_flatMap.mp hij
  obtain ⟨j, hj, rfl⟩ := List.mem_map.mp hm
  have hj' : j < p.d := by simpa using (List.mem_filter.mp hj).1
  have hi' : i < p.d := by simpa using hi
  split
  · exact callsSat_one _ _ _ ⟨hle, sqSens_pos _ _ (hx i hi')⟩
  · exact callsSat_one _ _ _ ⟨hle, cornerSens_pos _ _ _ _ (hx j hj') (hx i hi')⟩

theorem callsSat_linPlan (hε : 0 < p.eps) (hd : 0 < p.d) (ht : 0 < p.t) (hn : 0 < p.n)
    (hb : ∀ j, j < p.d → nth p.lo j < nth p.hi j) (hby : ∀ i, i < p.t → nth p.ylo i < nth p.yhi i) :
    (linPlan p).callsSat PosCall := by
  have hd' : (0 : ℝ) < p.d := by exact_mod_cast hd
  have h2 : (nat 2 : ℝ) = 2 := by simp [nat]
  have hd1 : (nat (p.d + 1) : ℝ) = (p.d : ℝ) + 1 := by simp [nat]
  have hscale : 0 < 1 / (nat (p.d + 1) : ℝ) := by rw [hd1]; positivity
  have hscale1 : 1 / (nat (p.d + 1) : ℝ) < 1 := by
    rw [hd1, div_lt_one (by linarith)]; linarith
  have hεi : 0 < p.eps * (1 / (nat (p.d + 1) : ℝ)) / nat 2 := by rw [h2]; positivity
  have hεc : 0 < p.eps * (1 - 1 / (nat (p.d + 1) : ℝ)) := mul_pos hε (by linarith)
  unfold linPlan
  split
  · refine callsSat_bind _ _ _ (callsSat_meanAxis0 _ _ _ _ _ hεi hd hn hb) fun xo => ?_
    refine callsSat_bind _ _ _ (callsSat_linMeanY p _ hεi ht hn hby) fun yo => ?_
    exact callsSat_bind _ _ _ (callsSat_linCoefs p _ xo yo hεc ht hb hby) fun _ => trivial
  · exact callsSat_bind _ _ _ (callsSat_linCoefs p _ [] [] (by simpa using hε) ht hb hby) fun _ => trivial

end lin

/-! ### KMeans -/

section km
variable (p : KmParams ℝ)

theorem kmC_pos (d : ℕ) (hd : 0 < d) : (0 : ℝ) < kmC d := by
  have hd' : (0 : ℝ) < ((4 * d : ℕ) : ℝ) := by exact_mod_cast (by omega : 0 < 4 * d)
  unfold kmC
  exact Real.rpow_pos_of_pos (by unfold nat rho nat; positivity) _

theorem callsSat_kmLoop (e0 ei : ℝ) (h0 : 0 < e0) (hi : 0 < ei) (hb : ∀ j, j < p.d → nth p.lo j < nth p.hi j)
    (t : ℕ) (cs : List (List ℝ)) : (kmLoop p e0 ei t cs).callsSat PosCall := by
  induction t generalizing cs with
  | zero => trivial
  | succ t ih =>
    simp only [kmLoop]
    refine callsSat_bind _ _ _ ?_ fun cs' => ih cs'
    intro occ
    refine callsSat_forList _ _ _ fun c _ => ?_
    split
    · refine ⟨⟨h0, by show (0 : ℝ) < 1; norm_num⟩, fun nc => ?_⟩
      refine callsSat_bind _ _ _ (callsSat_forList _ _ _ fun j hj => callsSat_one _ _ _ ⟨hi, ?_⟩) fun _ => trivial
      exact sumSens_pos _ _ (hb j (by simpa using hj))
    · trivial

theorem callsSat_kmPlan (hε : 0 < p.eps) (hd : 0 < p.d) (hb : ∀ j, j < p.d → nth p.lo j < nth p.hi j) :
    (kmPlan p).callsSat PosCall := by
  have hit : (0 : ℝ) < (kmIters p : ℝ) := by have := kmIters_pos p; exact_mod_cast (by omega : 0 < kmIters p)
  have hc := kmC_pos p.d hd
  have hd' : (0 : ℝ) < p.d := by exact_mod_cast hd
  have hnorm : 0 < p.eps / (kmIters p : ℝ) / ((p.d : ℝ) + kmC p.d) := by positivity
  unfold kmPlan kmPlanWith
  simp only [kmSplit]
  exact callsSat_kmLoop p _ _ (mul_pos hc hnorm) (by simpa using hnorm) hb _ _

/-- the probes of KMeans (which clusters are non-empty under the current noisy centres) agree along every path as soon
as they agree for every possible value of the centres -/
theorem probesAgree_kmLoop (e0 ei : ℝ) (D D' : DS ℝ)
    (hocc : ∀ cs, ((List.range p.k).map fun c => D.any (fun r => assign p.lo p.hi cs r == c)) =
      ((List.range p.k).map fun c => D'.any (fun r => assign p.lo p.hi cs r == c)))
    (t : ℕ) (cs : List (List ℝ)) : (kmLoop p e0 ei t cs).probesAgree D D' := by
  induction t generalizing cs with
  | zero => trivial
  | succ t ih =>
    simp only [kmLoop]
    refine probesAgree_bind _ _ _ _ ⟨hocc cs, ?_⟩ fun cs' => ih cs'
    refine probesAgree_forList _ _ _ _ fun c _ => ?_
    split
    · intro nc
      exact probesAgree_bind _ _ _ _ (probesAgree_forList _ _ _ _ fun j _ => probesAgree_one _ _ _ _) fun _ => trivial
    · trivial

theorem probesAgree_kmPlan (D D' : DS ℝ)
    (hocc : ∀ cs, ((List.range p.k).map fun c => D.any (fun r => assign p.lo p.hi cs r == c)) =
      ((List.range p.k).map fun c => D'.any (fun r => assign p.lo p.hi cs r == c))) :
    (kmPlan p).probesAgree D D' := by
  unfold kmPlan kmPlanWith
  exact probesAgree_kmLoop p _ _ D D' hocc _ _

end km

/-! ### forest -/

section forest
variable (p : ForestParams ℝ)

/-- every invocation of the forest is the PermuteAndFlip call `pfCall p` -/
theorem callsSatAt_forestPlan (D D' : DS ℝ) : (forestPlan p).callsSatAt (fun c _ _ => c = pfCall p) D D' := by
  refine callsSatAt_forList _ _ _ _ _ fun ti _ => ?_
  intro occ
  refine callsSatAt_bind _ _ _ _ _ (callsSatAt_forList _ _ _ _ _ fun l _ => ?_) fun a => ?_
  · exact callsSatAt_bind _ _ _ _ _ (callsSatAt_one _ _ _ _ _ rfl) fun _ => trivial
  refine callsSatAt_bind _ _ _ _ _ (callsSatAt_forList _ _ _ _ _ fun l _ => ?_) fun b => trivial
  exact callsSatAt_bind _ _ _ _ _ (callsSatAt_one _ _ _ _ _ rfl) fun _ => trivial

/-- the probes of the forest (which leaves of each tree are occupied) -/
theorem probesAgree_forestPlan (D D' : DS ℝ)
    (hocc : ∀ ti ∈ p.trees.zipIdx,
      (ti.1.leaves.map fun l => (rowsOf p ti.2 D).any (fun r => ti.1.leafOf (clipRow p.lo p.hi r) == l)) =
      (ti.1.leaves.map fun l => (rowsOf p ti.2 D').any (fun r => ti.1.leafOf (clipRow p.lo p.hi r) == l))) :
    (forestPlan p).probesAgree D D' := by
  refine probesAgree_forList _ _ _ _ fun ti hti => ?_
  refine ⟨hocc ti hti, ?_⟩
  refine probesAgree_bind _ _ _ _ (probesAgree_forList _ _ _ _ fun l _ => ?_) fun a => ?_
  · exact probesAgree_bind _ _ _ _ (probesAgree_one _ _ _ _) fun _ => trivial
  refine probesAgree_bind _ _ _ _ (probesAgree_forList _ _ _ _ fun l _ => ?_) fun b => trivial
  exact probesAgree_bind _ _ _ _ (probesAgree_one _ _ _ _) fun _ => trivial

end forest

end PM
end DPL
