/-
Vector mechanism's norm: `sum(gammavariate(d/4, scale) for _ in range(4))`, i.e. the model's `vecNorm scale [g₁,g₂,g₃,g₄]`
with four independent unit gammas `gᵢ ~ Gamma(d/4, rate 1)`, has the law `Gamma(d, rate 1/scale)`.

Route: moment generating functions on the half-line `t < 1/scale` (`SamplersGammaMgf`; product of four by Fubini) and
uniqueness from the mgf on a half-line (`SamplersMgfExt`).
-/
import DPL.Proofs.SamplersLaws
import DPL.Proofs.SamplersMgfExt
import DPL.Proofs.SamplersGammaMgf
import Mathlib.MeasureTheory.Integral.Prod

namespace DPL.Smp
open MeasureTheory ProbabilityTheory Set Real

/-- the model's norm over ℝ -/
theorem vecNorm4_real (scale : ℝ) (hs : 0 < scale) (g : ℝ × ℝ × ℝ × ℝ) :
    vecNorm scale [g.1, g.2.1, g.2.2.1, g.2.2.2] = scale * (g.1 + (g.2.1 + (g.2.2.1 + g.2.2.2))) := by
  rw [vecNorm_linear scale hs]; simp

theorem measurable_vecNorm4 (scale : ℝ) (hs : 0 < scale) :
    Measurable (fun g : ℝ × ℝ × ℝ × ℝ => vecNorm scale [g.1, g.2.1, g.2.2.1, g.2.2.2]) := by
  simp only [vecNorm4_real scale hs]
  exact measurable_const.mul
    (measurable_fst.add (measurable_snd.fst.add (measurable_snd.snd.fst.add measurable_snd.snd.snd)))

theorem gamma_sum_map (d scale : ℝ) (hd : 0 < d) (hs : 0 < scale) :
    ((gammaMeasure (d / 4) 1).prod ((gammaMeasure (d / 4) 1).prod ((gammaMeasure (d / 4) 1).prod
        (gammaMeasure (d / 4) 1)))).map
      (fun g : ℝ × ℝ × ℝ × ℝ => vecNorm scale [g.1, g.2.1, g.2.2.1, g.2.2.2])
      = gammaMeasure d (1 / scale) := by
  have hd4 : 0 < d / 4 := by positivity
  have hρ : 0 < 1 / scale := by positivity
  have : IsProbabilityMeasure (gammaMeasure (d / 4) 1) := isProbabilityMeasure_gammaMeasure hd4 one_pos
  have : IsProbabilityMeasure (gammaMeasure d (1 / scale)) := isProbabilityMeasure_gammaMeasure hd hρ
  set γ := gammaMeasure (d / 4) 1 with hγ
  set M := γ.prod (γ.prod (γ.prod γ)) with hM
  set V : ℝ × ℝ × ℝ × ℝ → ℝ := fun g => vecNorm scale [g.1, g.2.1, g.2.2.1, g.2.2.2] with hV
  have hVm : Measurable V := measurable_vecNorm4 scale hs
  have : IsProbabilityMeasure (M.map V) := Measure.isProbabilityMeasure_map hVm.aemeasurable
  -- the integrand factorises
  have hfac : ∀ (t : ℝ) (g : ℝ × ℝ × ℝ × ℝ), Real.exp (t * V g)
      = Real.exp (t * scale * g.1) * (Real.exp (t * scale * g.2.1)
          * (Real.exp (t * scale * g.2.2.1) * Real.exp (t * scale * g.2.2.2))) := by
    intro t g
    simp only [hV, vecNorm4_real scale hs]
    rw [← Real.exp_add, ← Real.exp_add, ← Real.exp_add]
    congr 1; ring
  have hts : ∀ t, t < 1 / scale → t * scale < 1 := by
    intro t ht
    rw [lt_div_iff₀ hs] at ht; exact ht
  refine ext_of_mgf_eq_on_Iio (1 / scale) hρ ?_ ?_ ?_
  · -- integrability under the push-forward
    intro t ht
    have hE := gamma_integrable_exp (d / 4) 1 (t * scale) hd4 one_pos (hts t ht)
    rw [integrable_map_measure (by fun_prop) hVm.aemeasurable]
    have h4 := hE.mul_prod (hE.mul_prod (hE.mul_prod hE))
    refine h4.congr (Filter.Eventually.of_forall fun g => ?_)
    simp only [Function.comp, hfac t g]
  · intro t ht
    exact gamma_integrable_exp d (1 / scale) t hd hρ ht
  · intro t ht
    have hE := gamma_integral_exp (d / 4) 1 (t * scale) hd4 one_pos (hts t ht)
    rw [gamma_mgf d (1 / scale) t hd hρ ht]
    simp only [mgf, id_eq]
    rw [integral_map hVm.aemeasurable (by fun_prop)]
    simp_rw [hfac t]
    rw [hM, integral_prod_mul (μ := γ) (ν := γ.prod (γ.prod γ)) (fun x : ℝ => Real.exp (t * scale * x))
        (fun w : ℝ × ℝ × ℝ => Real.exp (t * scale * w.1) * (Real.exp (t * scale * w.2.1) * Real.exp (t * scale * w.2.2))),
      integral_prod_mul (μ := γ) (ν := γ.prod γ) (fun x : ℝ => Real.exp (t * scale * x))
        (fun w : ℝ × ℝ => Real.exp (t * scale * w.1) * Real.exp (t * scale * w.2)),
      integral_prod_mul (μ := γ) (ν := γ) (fun x : ℝ => Real.exp (t * scale * x))
        (fun x : ℝ => Real.exp (t * scale * x)), hE]
    have h1ts : 0 < 1 - t * scale := by linarith [hts t ht]
    have hbase : (1 / scale) / (1 / scale - t) = 1 / (1 - t * scale) := by
      field_simp
    rw [hbase]
    have hb0 : 0 ≤ 1 / (1 - t * scale) := by positivity
    have : (1 / (1 - t * scale)) ^ d = ((1 / (1 - t * scale)) ^ (d / 4)) ^ (4 : ℕ) := by
      rw [← Real.rpow_mul_natCast hb0]; congr 1; push_cast; ring
    rw [this]
    ring

end DPL.Smp
