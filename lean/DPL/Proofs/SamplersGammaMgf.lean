/-
Moment generating function of Mathlib's `gammaMeasure a r` (shape `a`, RATE `r`) on the half-line `t < r`:

  ∫ e^{tx} dΓ(a, r)(x) = (r / (r − t))^a ,       and `e^{tx}` is integrable there.
-/
import Mathlib.Probability.Distributions.Gamma
import Mathlib.Probability.Moments.Basic
import Mathlib.MeasureTheory.Integral.Bochner.ContinuousLinearMap

namespace DPL.Smp
open MeasureTheory ProbabilityTheory Set Real

theorem gamma_integral_exp (a r t : ℝ) (ha : 0 < a) (hr : 0 < r) (ht : t < r) :
    ∫ x, Real.exp (t * x) ∂(gammaMeasure a r) = (r / (r - t)) ^ a := by
  have hrt : 0 < r - t := by linarith
  unfold gammaMeasure
  have hmeas : Measurable (gammaPDF a r) := (measurable_gammaPDFReal a r).ennreal_ofReal
  rw [integral_withDensity_eq_integral_toReal_smul hmeas
    (Filter.Eventually.of_forall fun _ => ENNReal.ofReal_lt_top)]
  have h0 : ∀ x : ℝ, (gammaPDF a r x).toReal • Real.exp (t * x) = gammaPDFReal a r x * Real.exp (t * x) := by
    intro x
    rw [gammaPDF, ENNReal.toReal_ofReal (gammaPDFReal_nonneg ha hr x), smul_eq_mul]
  simp_rw [h0]
  have hzero : ∀ x : ℝ, x ∉ Ici (0 : ℝ) → gammaPDFReal a r x * Real.exp (t * x) = 0 := by
    intro x hx
    have : ¬ 0 ≤ x := hx
    simp [gammaPDFReal, this]
  rw [← setIntegral_eq_integral_of_forall_compl_eq_zero hzero, integral_Ici_eq_integral_Ioi]
  have hcongr : EqOn (fun x : ℝ => gammaPDFReal a r x * Real.exp (t * x))
      (fun x : ℝ => (r ^ a / Real.Gamma a) * (x ^ (a - 1) * Real.exp (-((r - t) * x)))) (Ioi 0) := by
    intro x hx
    have hx' : (0 : ℝ) ≤ x := le_of_lt hx
    simp only [gammaPDFReal, hx', ↓reduceIte]
    have : Real.exp (-(r * x)) * Real.exp (t * x) = Real.exp (-((r - t) * x)) := by
      rw [← Real.exp_add]; congr 1; ring
    rw [mul_assoc, mul_assoc, this]
  rw [setIntegral_congr_fun measurableSet_Ioi hcongr, integral_const_mul,
    Real.integral_rpow_mul_exp_neg_mul_Ioi ha hrt]
  have hG : Real.Gamma a ≠ 0 := (Real.Gamma_pos_of_pos ha).ne'
  rw [Real.div_rpow hr.le hrt.le, Real.div_rpow zero_le_one hrt.le, Real.one_rpow]
  field_simp

theorem gamma_integrable_exp (a r t : ℝ) (ha : 0 < a) (hr : 0 < r) (ht : t < r) :
    Integrable (fun x : ℝ => Real.exp (t * x)) (gammaMeasure a r) := by
  by_contra h
  have h1 := integral_undef h
  rw [gamma_integral_exp a r t ha hr ht] at h1
  have : 0 < (r / (r - t)) ^ a := Real.rpow_pos_of_pos (div_pos hr (by linarith)) _
  linarith

theorem gamma_mgf (a r t : ℝ) (ha : 0 < a) (hr : 0 < r) (ht : t < r) :
    mgf id (gammaMeasure a r) t = (r / (r - t)) ^ a := by
  simp only [mgf, id_eq]
  exact gamma_integral_exp a r t ha hr ht

end DPL.Smp
