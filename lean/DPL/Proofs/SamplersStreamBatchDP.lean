/-
C03: glue between the law of `LaplaceBoundedNoise` over the uniform stream (`rejLoop_stream_law`) and C02's (ε, δ)-DP
theorem about the renormalised restriction of the Laplace law (`Cont.bounded_noise_dp_measure`).
-/
import DPL.Proofs.SamplersStreamBatchLaw
import DPL.Proofs.ContinuousBoundedNoise

namespace DPL.SmpS
open MeasureTheory Set DPL.Discrete
open scoped ENNReal

/-- the sampler model's `_noise_bound` is the calibration model's -/
theorem noiseBound_eq (eps delta sens : ℝ) : Smp.noiseBound eps delta sens = Cont.boundedNoiseBound eps delta sens := rfl

/-- the Laplace laws are translates of each other -/
theorem lapMeasure_translate (b x : ℝ) (hb : 0 < b) :
    Cont.lapMeasure b x = (Cont.lapMeasure b 0).map (fun w => x + w) := by
  have h1 := Smp.lapMeasure_affine' b 0 hb.ne'
  have h2 := Smp.lapMeasure_affine' b x hb.ne'
  rw [abs_of_pos hb] at h1 h2
  have hm1 : Measurable (fun l : ℝ => 0 + b * l) := measurable_const.add (measurable_const.mul measurable_id)
  have hm2 : Measurable (fun w : ℝ => x + w) := measurable_const.add measurable_id
  rw [← h1, Measure.map_map hm2 hm1, ← h2]
  congr 1
  funext l
  simp

theorem lapMeasure_translate_apply (b x : ℝ) (hb : 0 < b) (T : Set ℝ) (hT : MeasurableSet T) :
    Cont.lapMeasure b x T = Cont.lapMeasure b 0 ((fun w => x + w) ⁻¹' T) := by
  have hm : Measurable (fun w : ℝ => x + w) := measurable_const.add measurable_id
  rw [lapMeasure_translate b x hb, Measure.map_apply hm hT]

/-- C02's law of `LaplaceBoundedNoise` (renormalised restriction) as a quotient of Laplace masses -/
theorem bounded_noise_law_eq (eps delta sens c : ℝ) (he : 0 < eps) (hd : 0 < delta) (hs : 0 < sens) (S : Set ℝ)
    (hS : MeasurableSet S) :
    ((ENNReal.ofReal (1 / (1 - Real.exp (-(Cont.boundedNoiseBound eps delta sens) / (sens / eps))))) •
      ((Cont.lapMeasure (sens / eps) c).restrict
        (Icc (c - Cont.boundedNoiseBound eps delta sens) (c + Cont.boundedNoiseBound eps delta sens)))) S
      = Cont.lapMeasure (sens / eps) c
            (Icc (c - Cont.boundedNoiseBound eps delta sens) (c + Cont.boundedNoiseBound eps delta sens) ∩ S)
          / Cont.lapMeasure (sens / eps) c
            (Icc (c - Cont.boundedNoiseBound eps delta sens) (c + Cont.boundedNoiseBound eps delta sens)) := by
  have huniv := Cont.bounded_noise_law_univ eps delta sens c he hd hs
  simp only [Measure.smul_apply, Measure.restrict_apply MeasurableSet.univ, univ_inter, smul_eq_mul] at huniv
  rw [Measure.smul_apply, Measure.restrict_apply hS, smul_eq_mul, ENNReal.eq_inv_of_mul_eq_one_left huniv,
    ENNReal.div_eq_inv_mul, inter_comm]

end DPL.SmpS
