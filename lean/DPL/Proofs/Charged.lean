/-
Helper lemmas for C09 about the charged-query model (`DPL/Model/Charged.lean`).
Part 1 holds for ANY numeric carrier (hence for the IEEE doubles the code computes with): it is pure control flow
of resolve / check / run / spend.  Part 2 (ℝ) discharges the one arithmetic fact the multi-cell case needs: a
history that fits the ceiling still fits after its last spend is dropped (monotonicity of `total` in its spends).
-/
import DPL.Model.Charged
import DPL.Proofs.AccountantTotal
import DPL.Properties.C05
import Mathlib.Tactic.Linarith
import Mathlib.Tactic.Positivity

namespace DPL
namespace Charged

section generic
variable {α : Type} [OfNat α 0] [OfNat α 1] [OfNat α 2] [Add α] [Sub α] [Mul α] [Div α] [Neg α]
  [LT α] [LE α] [DecidableLT α] [DecidableLE α] [NatCast α] [Transc α] [HasInf α]
variable {ρ : Type}

/-- the accountant after recording `l` more spends -/
def Acc.plus (a : Acc α) (l : List (Spend α)) : Acc α := { a with spent := a.spent ++ l }

theorem plus_nil (a : Acc α) : Acc.plus a [] = a := by simp [Acc.plus]

theorem plus_plus (a : Acc α) (l₁ l₂ : List (Spend α)) : Acc.plus (Acc.plus a l₁) l₂ = Acc.plus a (l₁ ++ l₂) := by
  simp [Acc.plus, List.append_assoc]

/-- a spend whose check passes appends exactly that spend -/
theorem spend_of_check (a : Acc α) (e d : α) (h : a.check e d = .ok ()) :
    a.spend e d = .ok (Acc.plus a [⟨e, d⟩]) := by
  simp [Acc.spend, h, bind, Except.bind, pure, Except.pure, Acc.plus]

theorem spend_of_check_err (a : Acc α) (e d : α) (x : Err) (h : a.check e d = .error x) :
    a.spend e d = .error x := by
  simp [Acc.spend, h, bind, Except.bind]

theorem getAcc_some (w : World α) (i : Nat) (a : Acc α) (h : w.accs[i]? = some a) : getAcc w i = .ok a := by
  simp [getAcc, h]

/-- scalar query, accepted: exactly one spend `(ε, 0)` is appended to the resolved accountant, the release is
produced, the body's mechanisms ran -/
theorem scalarQ_ok (w : World α) (explicit : Option Nat) (ε : α) (b : Body ρ) (a : Acc α)
    (hi : w.accs[resolve w explicit]? = some a) (hc : a.check ε 0 = .ok ()) :
    scalarQ explicit ε b w =
      ⟨.ok b.release, w.accs.set (resolve w explicit) (Acc.plus a [⟨ε, 0⟩]), b.calls⟩ := by
  simp [scalarQ, getAcc_some w _ a hi, hc, spend_of_check a ε 0 hc]

/-- scalar query, refused: the error of `check`, no mechanism ran, no accountant changed -/
theorem scalarQ_err (w : World α) (explicit : Option Nat) (ε : α) (b : Body ρ) (a : Acc α) (x : Err)
    (hi : w.accs[resolve w explicit]? = some a) (hc : a.check ε 0 = .error x) :
    scalarQ explicit ε b w = ⟨.error x, w.accs, 0⟩ := by
  simp [scalarQ, getAcc_some w _ a hi, hc]

/-- the test inside `check` and `_check_cells`: every listed spend is valid and the total fits the ceiling -/
def Fits (a : Acc α) (l : List (Spend α)) : Prop :=
  l.forM (fun sp => checkEpsDelta sp.eps sp.delta) = .ok () ∧
  ∃ b, mkBudget (totalCore l a.slack).eps (totalCore l a.slack).delta = .ok b ∧
    b.eps ≤ a.ceilEps ∧ b.delta ≤ a.ceilDelta

/-- `check` accepts when the parameters are valid, epsilon is not below the accountant's minimum and the history
with the new spend fits -/
theorem check_of_fits (a : Acc α) (e d : α) (h1 : checkEpsDelta e d = .ok ())
    (h2 : ¬ (0 < e ∧ e < a.minEps)) (h3 : Fits a (a.spent ++ [⟨e, d⟩])) : a.check e d = .ok () := by
  obtain ⟨hf, b, hb, hbe, hbd⟩ := h3
  unfold Acc.check
  simp only [bind, Except.bind, pure, Except.pure, h1]
  by_cases hu : a.unlimited = true
  · simp [hu]
  · have h2' : (decide (0 < e) && decide (e < a.minEps)) = false := by
      rw [Bool.eq_false_iff]
      intro hh
      simp only [Bool.and_eq_true, decide_eq_true_eq] at hh
      exact h2 hh
    simp only [hu, Bool.false_eq_true, if_false, h2', hf, hb]
    simp [hbe, hbd]

/-- what an accepted `_check_cells` says -/
theorem checkCells_ok (a : Acc α) (ε c : α) (n : Nat) (h : checkCells a ε c n = .ok ()) :
    checkEpsDelta ε 0 = .ok () ∧ Fits a (a.spent ++ List.replicate n ⟨c, 0⟩) := by
  unfold checkCells at h
  simp only [bind, Except.bind, pure, Except.pure] at h
  split at h
  · cases h
  · rename_i u hu
    split at h
    · cases h
    · rename_i u2 hf
      split at h
      · cases h
      · rename_i b hb
        split at h
        · rename_i hc
          simp only [Bool.and_eq_true, decide_eq_true_eq] at hc
          cases u; cases u2
          exact ⟨hu, hf, b, hb, hc.1, hc.2⟩
        · cases h

theorem forM_ok_of_all (l : List (Spend α)) (h : ∀ sp ∈ l, checkEpsDelta sp.eps sp.delta = .ok ()) :
    l.forM (fun sp => checkEpsDelta sp.eps sp.delta) = .ok () := by
  induction l with
  | nil => rfl
  | cons x xs ih =>
    simp only [List.forM, bind, Except.bind, h x (by simp)]
    exact ih (fun sp hsp => h sp (List.mem_cons_of_mem _ hsp))

/-- if fitting histories are closed under dropping the last spend, they are closed under dropping any suffix of
equal spends -/
theorem fits_drop_replicate (a : Acc α) (hmono : ∀ l sp, Fits a (l ++ [sp]) → Fits a l)
    (l : List (Spend α)) (sp : Spend α) (j k : Nat) (h : Fits a (l ++ List.replicate (j + k) sp)) :
    Fits a (l ++ List.replicate j sp) := by
  induction k with
  | zero => simpa using h
  | succ k ih =>
    apply ih
    apply hmono _ sp
    have : List.replicate (j + (k + 1)) sp = List.replicate (j + k) sp ++ [sp] := by
      rw [← Nat.add_assoc, List.replicate_succ']
    rw [this, ← List.append_assoc] at h
    exact h

/-- the heart of the multi-cell case (any carrier, given the closure property): after an accepted `_check_cells`
every one of the `n` per-cell checks passes, whatever was recorded for the earlier cells -/
theorem cells_checks_pass (a : Acc α) (ε c : α) (n : Nat)
    (hmono : ∀ l sp, Fits a (l ++ [sp]) → Fits a l)
    (hmin : ¬ (0 < c ∧ c < a.minEps))
    (hc : checkCells a ε c n = .ok ()) :
    ∀ j, j < n → (Acc.plus a (List.replicate j ⟨c, 0⟩)).check c 0 = .ok () := by
  intro j hj
  obtain ⟨_, hfit⟩ := checkCells_ok a ε c n hc
  have hmem : (⟨c, 0⟩ : Spend α) ∈ a.spent ++ List.replicate n ⟨c, 0⟩ := by
    apply List.mem_append_right
    exact List.mem_replicate.mpr ⟨by omega, rfl⟩
  have hvalid := forM_checkEpsDelta_ok _ hfit.1 _ hmem
  have hk : n = (j + 1) + (n - (j + 1)) := by omega
  rw [hk] at hfit
  have hf := fits_drop_replicate a hmono a.spent ⟨c, 0⟩ (j + 1) _ hfit
  have hspent : (Acc.plus a (List.replicate j ⟨c, 0⟩)).spent ++ [⟨c, 0⟩] =
      a.spent ++ List.replicate (j + 1) ⟨c, 0⟩ := by
    simp [Acc.plus, List.replicate_succ', List.append_assoc]
  have hf' : Fits (Acc.plus a (List.replicate j ⟨c, 0⟩))
      ((Acc.plus a (List.replicate j ⟨c, 0⟩)).spent ++ [⟨c, 0⟩]) := by
    rw [hspent]; exact hf
  exact check_of_fits (Acc.plus a (List.replicate j ⟨c, 0⟩)) c 0 hvalid hmin hf'

/-- a run of scalar sub-queries of the same epsilon on the same (explicit or default) accountant, all of whose
checks pass: every one records its spend, every body runs -/
theorem runAll_scalar (explicit : Option Nat) (c : α) (bodies : List (Body ρ)) (w : World α) (a : Acc α)
    (hi : w.accs[resolve w explicit]? = some a)
    (hpass : ∀ j, j < bodies.length → (Acc.plus a (List.replicate j ⟨c, 0⟩)).check c 0 = .ok ()) :
    runAll (bodies.map (fun b => scalarQ explicit c b)) w =
      ⟨.ok (bodies.map (·.release)),
        w.accs.set (resolve w explicit) (Acc.plus a (List.replicate bodies.length ⟨c, 0⟩)),
        (bodies.map (·.calls)).sum⟩ := by
  induction bodies generalizing w a with
  | nil =>
    have hlt : resolve w explicit < w.accs.length := by
      rcases Nat.lt_or_ge (resolve w explicit) w.accs.length with h | h
      · exact h
      · rw [List.getElem?_eq_none h] at hi; cases hi
    have : w.accs.set (resolve w explicit) a = w.accs := by
      apply List.ext_getElem?
      intro k
      by_cases hk : k = resolve w explicit
      · subst hk; rw [List.getElem?_set_self hlt, hi]
      · rw [List.getElem?_set_ne (Ne.symm hk)]
    simp [runAll, plus_nil, this]
  | cons b bs ih =>
    have h0 := hpass 0 (by simp)
    simp only [List.replicate_zero, plus_nil] at h0
    have hq := scalarQ_ok w explicit c b a hi h0
    simp only [List.map_cons, runAll, hq]
    have hlt : resolve w explicit < w.accs.length := by
      rcases Nat.lt_or_ge (resolve w explicit) w.accs.length with h | h
      · exact h
      · rw [List.getElem?_eq_none h] at hi; cases hi
    let w' : World α := { w with accs := w.accs.set (resolve w explicit) (Acc.plus a [⟨c, 0⟩]) }
    have hres : resolve w' explicit = resolve w explicit := rfl
    have hi' : w'.accs[resolve w' explicit]? = some (Acc.plus a [⟨c, 0⟩]) := by
      rw [hres]; exact List.getElem?_set_self hlt
    have hpass' : ∀ j, j < bs.length →
        (Acc.plus (Acc.plus a [⟨c, 0⟩]) (List.replicate j ⟨c, 0⟩)).check c 0 = .ok () := by
      intro j hj
      have := hpass (j + 1) (by simpa using hj)
      rw [plus_plus]
      simpa [List.replicate_succ] using this
    have := ih w' (Acc.plus a [⟨c, 0⟩]) hi' hpass'
    rw [this]
    simp only [hres, w', plus_plus, List.set_set, Except.map, List.length_cons, List.sum_cons, List.map_cons]
    simp [List.replicate_succ]

/-- frame: a scalar query with an explicit accountant leaves every other accountant as it was -/
theorem scalarQ_frame (w : World α) (i : Nat) (ε : α) (b : Body ρ) (j : Nat) (hj : j ≠ i) :
    (scalarQ (some i) ε b w).accs[j]? = w.accs[j]? := by
  unfold scalarQ
  simp only [resolve, Option.getD_some]
  split
  · rfl
  · split
    · rfl
    · split
      · rfl
      · simp [List.getElem?_set_ne (Ne.symm hj)]

theorem scalarQ_length (w : World α) (ex : Option Nat) (ε : α) (b : Body ρ) :
    (scalarQ ex ε b w).accs.length = w.accs.length := by
  unfold scalarQ
  dsimp only
  split
  · rfl
  · split
    · rfl
    · split
      · rfl
      · simp

/-! ### nested composition: a list of quantiles over an axis -/

/-- `_check_cells` accepts when epsilon is valid and the whole sequence of cell spends fits -/
theorem checkCells_of_fits (a : Acc α) (ε c : α) (n : Nat) (hv : checkEpsDelta ε 0 = .ok ())
    (h : Fits a (a.spent ++ List.replicate n ⟨c, 0⟩)) : checkCells a ε c n = .ok () := by
  obtain ⟨hf, b, hb, hbe, hbd⟩ := h
  unfold checkCells
  simp only [bind, Except.bind, pure, Except.pure, hv, hf, hb]
  simp [hbe, hbd]

theorem getElem?_lt_of_some {β : Type} (l : List β) (i : Nat) (x : β) (h : l[i]? = some x) : i < l.length := by
  rcases Nat.lt_or_ge i l.length with h' | h'
  · exact h'
  · rw [List.getElem?_eq_none h'] at h; cases h

/-- a run of sub-queries each of which appends a block of `n` equal spends to accountant `i` and succeeds -/
theorem runAll_blocks {σ : Type} (i n : Nat) (sp : Spend α) (qs : List (Query α σ)) (w : World α) (a : Acc α)
    (hi : w.accs[i]? = some a)
    (hstep : ∀ j (hj : j < qs.length) (w' : World α), w'.dflt = w.dflt →
      w'.accs[i]? = some (Acc.plus a (List.replicate (j * n) sp)) →
      ∃ r k, qs[j] w' = ⟨.ok r, w'.accs.set i (Acc.plus a (List.replicate ((j + 1) * n) sp)), k⟩) :
    ∃ rs k, runAll qs w = ⟨.ok rs, w.accs.set i (Acc.plus a (List.replicate (qs.length * n) sp)), k⟩ := by
  induction qs generalizing w a with
  | nil =>
    have hlt := getElem?_lt_of_some _ _ _ hi
    have : w.accs.set i a = w.accs := by
      apply List.ext_getElem?
      intro k
      by_cases hk : k = i
      · subst hk; rw [List.getElem?_set_self hlt, hi]
      · rw [List.getElem?_set_ne (Ne.symm hk)]
    exact ⟨[], 0, by simp [runAll, plus_nil, this]⟩
  | cons q qs ih =>
    have hlt := getElem?_lt_of_some _ _ _ hi
    obtain ⟨r, k, hq⟩ := hstep 0 (by simp) w rfl (by simpa [plus_nil] using hi)
    simp only [List.getElem_cons_zero, Nat.zero_add, Nat.one_mul] at hq
    let w1 : World α := { w with accs := w.accs.set i (Acc.plus a (List.replicate n sp)) }
    have hi1 : w1.accs[i]? = some (Acc.plus a (List.replicate n sp)) := List.getElem?_set_self hlt
    have hstep1 : ∀ j (hj : j < qs.length) (w' : World α), w'.dflt = w1.dflt →
        w'.accs[i]? = some (Acc.plus (Acc.plus a (List.replicate n sp)) (List.replicate (j * n) sp)) →
        ∃ r k, qs[j] w' = ⟨.ok r, w'.accs.set i
          (Acc.plus (Acc.plus a (List.replicate n sp)) (List.replicate ((j + 1) * n) sp)), k⟩ := by
      intro j hj w' hd hacc
      have e1 : n + j * n = (j + 1) * n := by rw [Nat.succ_mul, Nat.add_comm]
      have e2 : n + (j + 1) * n = (j + 1 + 1) * n := by rw [Nat.succ_mul (j + 1), Nat.add_comm]
      rw [plus_plus, List.replicate_append_replicate, e1] at hacc
      obtain ⟨r', k', h'⟩ := hstep (j + 1) (by simpa using hj) w' hd hacc
      refine ⟨r', k', ?_⟩
      rw [plus_plus, List.replicate_append_replicate, e2]
      simpa using h'
    obtain ⟨rs, k1, hrest⟩ := ih w1 (Acc.plus a (List.replicate n sp)) hi1 hstep1
    refine ⟨r :: rs, k + k1, ?_⟩
    simp only [runAll, hq]
    have hw1 : ({ w with accs := w.accs.set i (Acc.plus a (List.replicate n sp)) } : World α) = w1 := rfl
    rw [hw1, hrest]
    have e3 : n + qs.length * n = (qs.length + 1) * n := by rw [Nat.succ_mul, Nat.add_comm]
    simp only [w1, plus_plus, List.replicate_append_replicate, List.set_set, Except.map, List.length_cons, e3]

/-! ### frame: queries with an explicit accountant leave all the others alone -/

/-- `q` changes at most the accountant with index `i` and neither adds nor drops accountants -/
def FrameAt (i : Nat) {σ : Type} (q : Query α σ) : Prop :=
  ∀ w, (q w).accs.length = w.accs.length ∧ ∀ j, j ≠ i → (q w).accs[j]? = w.accs[j]?

theorem scalarQ_frameAt (i : Nat) (ε : α) (b : Body ρ) : FrameAt i (scalarQ (some i) ε b) :=
  fun w => ⟨scalarQ_length w _ ε b, fun j hj => scalarQ_frame w i ε b j hj⟩

theorem runAll_frameAt (i : Nat) (qs : List (Query α ρ)) (h : ∀ q ∈ qs, FrameAt i q) : FrameAt i (runAll qs) := by
  induction qs with
  | nil => intro w; exact ⟨rfl, fun _ _ => rfl⟩
  | cons q qs ih =>
    intro w
    have hq := h q (by simp) w
    have hrest := ih (fun q' hq' => h q' (List.mem_cons_of_mem _ hq')) { w with accs := (q w).accs }
    simp only [runAll]
    split
    · exact hq
    · refine ⟨hrest.1.trans hq.1, fun j hj => ?_⟩
      exact (hrest.2 j hj).trans (hq.2 j hj)

theorem cellsQ_frameAt (i : Nat) (ε c : α) (n : Nat) (subs : List (Query α ρ)) (h : ∀ q ∈ subs, FrameAt i q) :
    FrameAt i (cellsQ (some i) ε c n subs) := by
  intro w
  unfold cellsQ
  split
  · exact ⟨rfl, fun _ _ => rfl⟩
  · split
    · exact ⟨rfl, fun _ _ => rfl⟩
    · exact runAll_frameAt i subs h w

theorem wrapAxisQ_frameAt (i : Nat) (ε : α) (bodies : List (Body ρ)) : FrameAt i (wrapAxisQ (some i) ε bodies) := by
  unfold wrapAxisQ
  apply cellsQ_frameAt
  intro q hq
  obtain ⟨b, _, rfl⟩ := List.mem_map.mp hq
  exact scalarQ_frameAt i _ b

/-- a sub-query that respects the frame of the accountant it is handed, run on a throw-away accountant, changes
none of the caller's accountants -/
theorem withThrowAway_frame {σ : Type} (fresh : Acc α) (sub : Option Nat → Query α σ)
    (h : ∀ k, FrameAt k (sub (some k))) (w : World α) : (withThrowAway fresh sub w).accs = w.accs := by
  unfold withThrowAway
  simp only
  have hf := h w.accs.length { w with accs := w.accs ++ [fresh] }
  apply List.ext_getElem?
  intro j
  by_cases hj : j < w.accs.length
  · rw [List.getElem?_take_of_lt hj, hf.2 j (Nat.ne_of_lt hj)]
    simp [List.getElem?_append_left hj]
  · have hj' : w.accs.length ≤ j := Nat.le_of_not_lt hj
    rw [List.getElem?_eq_none (by simp [hf.1]; omega), List.getElem?_eq_none hj']

end generic

/-! ## Part 2 — ℝ: fitting histories are closed under dropping the last spend -/

theorem totalCore_eps_nonneg (l : List (Spend ℝ)) (slack : ℝ) (hl : ∀ sp ∈ l, 0 ≤ sp.eps) :
    0 ≤ (totalCore l slack).eps := by
  have hsum : 0 ≤ (l.map (·.eps)).sum := by
    apply List.sum_nonneg
    intro x hx
    obtain ⟨sp, hsp, rfl⟩ := List.mem_map.mp hx
    exact hl sp hsp
  by_cases h0 : slack = 0
  · subst h0; rw [totalCore_eps_zero]; exact hsum
  · rw [totalCore_eps_pos _ _ h0]
    have hg : 0 ≤ (l.map (fun sp => gTerm sp.eps)).sum := by
      apply List.sum_nonneg
      intro x hx
      obtain ⟨sp, hsp, rfl⟩ := List.mem_map.mp hx
      exact gTerm_nonneg (hl sp hsp)
    unfold epsOf
    exact le_min hsum (le_min (add_nonneg hg (Real.sqrt_nonneg _)) (add_nonneg hg (Real.sqrt_nonneg _)))

theorem mkBudget_of_range (e d : ℝ) (he : 0 ≤ e) (hd0 : 0 ≤ d) (hd1 : d ≤ 1) : mkBudget e d = .ok ⟨e, d⟩ := by
  simp [mkBudget, he, hd0, hd1]

/-- over ℝ: if a history with one more spend fits, the history without it fits (`total` is monotone, C05) -/
theorem fits_prefix_real (a : Acc ℝ) (hs0 : 0 ≤ a.slack) (hs1 : a.slack ≤ 1) (l : List (Spend ℝ)) (sp : Spend ℝ)
    (h : Fits a (l ++ [sp])) : Fits a l := by
  obtain ⟨hf, b, hb, hbe, hbd⟩ := h
  have hall := forM_checkEpsDelta_ok _ hf
  have hl : ∀ x ∈ l, checkEpsDelta x.eps x.delta = .ok () := fun x hx => hall x (List.mem_append_left _ hx)
  have hsp := checkEpsDelta_ok _ _ (hall sp (by simp))
  have hrange : ∀ x ∈ l, 0 ≤ x.eps ∧ 0 ≤ x.delta ∧ x.delta ≤ 1 := fun x hx =>
    let r := checkEpsDelta_ok _ _ (hl x hx); ⟨r.1, r.2.1, r.2.2.1⟩
  have hmono := C05.total_mono l a.slack sp.eps sp.delta (fun x hx => (hrange x hx).2.2) hs0 hs1 hsp.1 hsp.2.1
  have hdr := C05.total_range l a.slack (fun x hx => ⟨(hrange x hx).2.1, (hrange x hx).2.2⟩) hs0 hs1
  have he0 := totalCore_eps_nonneg l a.slack (fun x hx => (hrange x hx).1)
  have hb' := mkBudget_ok _ _ b hb
  refine ⟨forM_ok_of_all l hl, ⟨_, _⟩, mkBudget_of_range _ _ he0 hdr.1 hdr.2, ?_, ?_⟩
  · have : b.eps = (totalCore (l ++ [sp]) a.slack).eps := by rw [hb'.1]
    show (totalCore l a.slack).eps ≤ a.ceilEps
    have h1 := hmono.1
    have : (totalCore (l ++ [⟨sp.eps, sp.delta⟩]) a.slack).eps = b.eps := by rw [hb'.1]
    linarith
  · show (totalCore l a.slack).delta ≤ a.ceilDelta
    have h1 := hmono.2
    have : (totalCore (l ++ [⟨sp.eps, sp.delta⟩]) a.slack).delta = b.delta := by rw [hb'.1]
    linarith

theorem checkEpsDelta_of_pos (e : ℝ) (h : 0 < e) : checkEpsDelta e 0 = .ok () := by
  have hne : ¬ (e + 0 ≤ 0) := by linarith
  simp [checkEpsDelta, h.le, h, feq, hne]

end Charged
end DPL
