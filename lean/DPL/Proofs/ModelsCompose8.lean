/-
PCA / covariance_eig: every configured invocation has positive ε and sensitivity (side predicate of the semantic step).
-/
import DPL.Proofs.ModelsCompose6

namespace DPL
namespace PM

theorem callsSat_pcaPlan (p : PcaParams ℝ) (eig bing : DS ℝ → List ℝ → Nat → ℝ) (hε : 0 < p.eps) (hd : 0 < p.d)
    (hn : 0 < p.n) (hb : ∀ j, j < p.d → nth p.lo j < nth p.hi j) : (pcaPlan p eig bing).callsSat PosCall := by
  have h2 : (nat 2 : ℝ) = 2 := by simp [nat]
  have hcnt : (0 : ℝ) < nat (p.k + (if p.k == p.d then 0 else 1)) := by
    have : 0 < p.k + (if p.k == p.d then 0 else 1) := by
      split
      · rename_i h; have := beq_iff_eq.mp h; omega
      · omega
    unfold nat
    exact_mod_cast this
  have key : ∀ (share : ℝ) (mean : List ℝ), 0 < share →
      ((forList (List.range p.d) fun i =>
          one ⟨"LaplaceBoundedDomain", share, 0, nat 2, 0, p.inf, .osCsprng⟩ (fun D => eig D mean i)).bind fun ev =>
        (forList (List.range (min p.k (p.d - 1))) fun i =>
          one ⟨"Bingham", share, 0, 1, -p.inf, p.inf, .osCsprng⟩ (fun D => bing D mean i)).bind fun _ =>
        (Plan.release (mean, ev) : Plan (DS ℝ) ℝ (List ℝ × List ℝ))).callsSat PosCall := fun share mean hs =>
    callsSat_bind _ _ _ (callsSat_forList _ _ _ fun _ _ => callsSat_one _ _ _
        ⟨hs, by show (0 : ℝ) < nat 2; rw [h2]; norm_num⟩) fun _ =>
      callsSat_bind _ _ _ (callsSat_forList _ _ _ fun _ _ => callsSat_one _ _ _
        ⟨hs, by show (0 : ℝ) < 1; norm_num⟩) fun _ => trivial
  unfold pcaPlan
  simp only []
  split
  · rename_i hc
    exact key _ _ (div_pos hε hcnt)
  · rename_i hc
    refine callsSat_bind _ _ _ (callsSat_meanAxis0 _ _ _ _ _ (by rw [h2]; positivity) hd hn hb) fun mean => ?_
    exact key _ _ (div_pos (by rw [h2]; positivity) hcnt)

end PM
end DPL
