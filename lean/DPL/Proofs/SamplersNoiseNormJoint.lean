/-
Helper lemmas for C17 §6: the joint law of the noise vector.

* `vecDir_flatMap`, `vecNoise_ofFn` — pointwise bridge: on `4·d` normal draws grouped in fours, the model's noise vector
  `vecNoise scale normals gs` is, coordinate by coordinate, `vecNorm scale gs • unitDir z` with `z i = (sum of group i)/2`;
* `gauss4_half_pi` — `d` groups of four i.i.d. N(0,1) draws give `d` i.i.d. N(0,1) coordinates;
* `noise_joint_map` — (direction, norm) of independent draws has the law `sphereUniform ⊗ Gamma(d, rate 1/scale)`;
* `noise_full_map` — from the raw draws (`4·d` normals, 4 unit gammas, all independent) to the vector `r • u`.
-/
import DPL.Proofs.SamplersNoiseNorm
import DPL.Proofs.SamplersNoiseNormUnique
import Mathlib.MeasureTheory.Constructions.Pi

namespace DPL.Smp
open MeasureTheory ProbabilityTheory Set DPL.LogReg

/-- the four draws of one group, in the order consumed -/
def quad (n : ℝ × ℝ × ℝ × ℝ) : List ℝ := [n.1, n.2.1, n.2.2.1, n.2.2.2]

/-- `(n₁+n₂+n₃+n₄)/2` -/
noncomputable def half4 (n : ℝ × ℝ × ℝ × ℝ) : ℝ := (n.1 + n.2.1 + n.2.2.1 + n.2.2.2) / 2

theorem measurable_half4 : Measurable half4 := by
  unfold half4
  exact (((measurable_fst.add measurable_snd.fst).add measurable_snd.snd.fst).add measurable_snd.snd.snd).div_const _

theorem vecDir_flatMap (l : List (ℝ × ℝ × ℝ × ℝ)) : vecDir (l.flatMap quad) = l.map half4 := by
  induction l with
  | nil => simp [vecDir]
  | cons n ns ih =>
    simp only [List.flatMap_cons, List.map_cons, quad, List.cons_append, List.nil_append]
    rw [vecDir_cons4, ← ih]
    rfl

/-- **pointwise bridge**: the model's noise vector on `4·d` normals (grouped in fours) and the unit gammas `gs` is the
Euclidean vector `vecNorm scale gs • unitDir z`, `z i = half4 (group i)`, read by coordinates -/
theorem vecNoise_ofFn {d : ℕ} (scale : ℝ) (x : Fin d → ℝ × ℝ × ℝ × ℝ) (gs : List ℝ) :
    vecNoise scale ((List.ofFn x).flatMap quad) gs
      = List.ofFn (fun i => (vecNorm scale gs •
          unitDir (WithLp.toLp 2 (fun j => half4 (x j)) : EuclideanSpace ℝ (Fin d))) i) := by
  unfold vecNoise
  simp only [vecDir_flatMap, List.map_ofFn]
  have hn := norm2_ofFn (fun j => half4 (x j))
  simp only [Function.comp_def] at hn ⊢
  rw [hn]
  congr 1
  funext i
  simp only [unitDir, PiLp.smul_apply, smul_eq_mul]
  ring

/-- `d` groups of four independent standard normals give `d` independent standard normal coordinates -/
theorem gauss4_half_pi (d : ℕ) :
    (Measure.pi fun _ : Fin d =>
        (gaussianReal 0 1).prod ((gaussianReal 0 1).prod ((gaussianReal 0 1).prod (gaussianReal 0 1)))).map
      (fun x i => half4 (x i)) = Measure.pi fun _ : Fin d => gaussianReal 0 1 := by
  have hm : ((gaussianReal 0 1).prod ((gaussianReal 0 1).prod ((gaussianReal 0 1).prod (gaussianReal 0 1)))).map half4
      = gaussianReal 0 1 := gauss4_half_map
  rw [Measure.pi_map_pi (hμ := fun _ => by rw [hm]; infer_instance) (fun _ => measurable_half4.aemeasurable)]
  simp_rw [hm]

section
variable {E : Type*} [NormedAddCommGroup E] [InnerProductSpace ℝ E] [FiniteDimensional ℝ E]
  [MeasurableSpace E] [BorelSpace E]

/-- **joint law of direction and norm**: for a standard Gaussian vector and four unit gammas, all independent, the pair
(direction, `vecNorm`) has the law `uniform(sphere) ⊗ Gamma(d, rate 1/scale)` -/
theorem noise_joint_map [Nontrivial E] (d scale : ℝ) (hd : 0 < d) (hs : 0 < scale) :
    ((stdGaussian E).prod ((gammaMeasure (d / 4) 1).prod ((gammaMeasure (d / 4) 1).prod
        ((gammaMeasure (d / 4) 1).prod (gammaMeasure (d / 4) 1))))).map
      (fun p : E × ℝ × ℝ × ℝ × ℝ => (unitDir p.1, vecNorm scale [p.2.1, p.2.2.1, p.2.2.2.1, p.2.2.2.2]))
      = (sphereUniform E).prod (gammaMeasure d (1 / scale)) := by
  have : IsProbabilityMeasure (gammaMeasure (d / 4) 1) := isProbabilityMeasure_gammaMeasure (by positivity) one_pos
  have hfun : (fun p : E × ℝ × ℝ × ℝ × ℝ => (unitDir p.1, vecNorm scale [p.2.1, p.2.2.1, p.2.2.2.1, p.2.2.2.2]))
      = Prod.map unitDir (fun g : ℝ × ℝ × ℝ × ℝ => vecNorm scale [g.1, g.2.1, g.2.2.1, g.2.2.2]) := rfl
  rw [hfun, ← Measure.map_prod_map _ _ measurable_unitDir (measurable_vecNorm4 scale hs), stdGaussian_dir_uniform,
    gamma_sum_map d scale hd hs]

end

/-- **from the raw draws to the noise vector**: `4·d` standard normals (grouped in fours) and four unit gammas
`Gamma(d'/4, 1)`, all independent; the vector `vecNorm scale g • unitDir z` (which by `vecNoise_ofFn` IS the model's
`vecNoise`, read by coordinates) has the law of `r • u` with `u` uniform on the unit sphere of `ℝ^d` and, independently,
`r ~ Gamma(d', rate 1/scale)` -/
theorem noise_full_map (d : ℕ) (hd0 : 0 < d) (d' scale : ℝ) (hd : 0 < d') (hs : 0 < scale) :
    ((Measure.pi fun _ : Fin d =>
        (gaussianReal 0 1).prod ((gaussianReal 0 1).prod ((gaussianReal 0 1).prod (gaussianReal 0 1)))).prod
      ((gammaMeasure (d' / 4) 1).prod ((gammaMeasure (d' / 4) 1).prod
        ((gammaMeasure (d' / 4) 1).prod (gammaMeasure (d' / 4) 1))))).map
      (fun p : (Fin d → ℝ × ℝ × ℝ × ℝ) × ℝ × ℝ × ℝ × ℝ =>
        vecNorm scale [p.2.1, p.2.2.1, p.2.2.2.1, p.2.2.2.2] •
          unitDir (WithLp.toLp 2 (fun j => half4 (p.1 j)) : EuclideanSpace ℝ (Fin d)))
      = ((sphereUniform (EuclideanSpace ℝ (Fin d))).prod (gammaMeasure d' (1 / scale))).map
          (fun q : EuclideanSpace ℝ (Fin d) × ℝ => q.2 • q.1) := by
  have : Nonempty (Fin d) := ⟨⟨0, hd0⟩⟩
  have : Nontrivial (EuclideanSpace ℝ (Fin d)) := inferInstance
  have : IsProbabilityMeasure (gammaMeasure (d' / 4) 1) := isProbabilityMeasure_gammaMeasure (by positivity) one_pos
  set γ := gammaMeasure (d' / 4) 1
  set N4 := (gaussianReal 0 1).prod ((gaussianReal 0 1).prod ((gaussianReal 0 1).prod (gaussianReal 0 1)))
  set H : (Fin d → ℝ × ℝ × ℝ × ℝ) → (Fin d → ℝ) := fun x i => half4 (x i) with hH
  have hHm : Measurable H := measurable_pi_lambda _ fun i => measurable_half4.comp (measurable_pi_apply i)
  have hT : Measurable (fun z : Fin d → ℝ => (WithLp.toLp 2 z : EuclideanSpace ℝ (Fin d))) := by fun_prop
  set A : (Fin d → ℝ × ℝ × ℝ × ℝ) → EuclideanSpace ℝ (Fin d) := fun x => unitDir (WithLp.toLp 2 (H x)) with hA
  have hAm : Measurable A := measurable_unitDir.comp (hT.comp hHm)
  have hAlaw : (Measure.pi fun _ : Fin d => N4).map A = sphereUniform (EuclideanSpace ℝ (Fin d)) := by
    have : A = unitDir ∘ (fun z : Fin d → ℝ => (WithLp.toLp 2 z : EuclideanSpace ℝ (Fin d))) ∘ H := rfl
    rw [this, ← Measure.map_map measurable_unitDir (hT.comp hHm), ← Measure.map_map hT hHm, gauss4_half_pi,
      map_pi_eq_stdGaussian, stdGaussian_dir_uniform]
  set V : ℝ × ℝ × ℝ × ℝ → ℝ := fun g => vecNorm scale [g.1, g.2.1, g.2.2.1, g.2.2.2] with hV
  have hVm : Measurable V := measurable_vecNorm4 scale hs
  have hfun : (fun p : (Fin d → ℝ × ℝ × ℝ × ℝ) × ℝ × ℝ × ℝ × ℝ =>
        vecNorm scale [p.2.1, p.2.2.1, p.2.2.2.1, p.2.2.2.2] •
          unitDir (WithLp.toLp 2 (fun j => half4 (p.1 j)) : EuclideanSpace ℝ (Fin d)))
      = (fun q : EuclideanSpace ℝ (Fin d) × ℝ => q.2 • q.1) ∘ Prod.map A V := rfl
  have hsm : Measurable (fun q : EuclideanSpace ℝ (Fin d) × ℝ => q.2 • q.1) := measurable_snd.smul measurable_fst
  rw [hfun, ← Measure.map_map hsm (hAm.prodMap hVm), ← Measure.map_prod_map _ _ hAm hVm, hAlaw,
    gamma_sum_map d' scale hd hs]

end DPL.Smp
