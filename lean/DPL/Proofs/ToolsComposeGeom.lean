/-
C07: the geometric kernel of `ModelsCompose7.lean` (`PM.geomKernel`: `GeometricTruncated` with sensitivity 1 on the
floor of the input, clamped to the configured bounds; C01's `geom_post_dp`) is a count mechanism in the sense of
`Tools.CountDP` — so the count tools (count_nonzero, histograms) are DP with no hypothesis on the mechanism left.
-/
import DPL.Proofs.ToolsCompose2
import DPL.Proofs.ModelsCompose7

namespace DPL
namespace Tools
open MeasureTheory

theorem geomKernel_countDP : CountDP PM.geomKernel := by
  intro c he hs n m hnm S hS
  have h := PM.geomKernel_metricDPW c n m ⟨he, hs, ⟨n, rfl⟩, ⟨m, rfl⟩⟩
    (by rw [PM.relDisp_eq, hs, div_one]; exact hnm) S hS
  rwa [PM.relDisp_eq, hs, div_one] at h

end Tools
end DPL
