/-
Traces of the tool plans and the generic privacy-loss bound (C07).
Part 1 (any carrier): what `Plan.run` yields for `single`, `.map`, `comap`, sequences of one-call plans, `wrapAxis`.
Part 2 (ℝ): `dispOk`/`privLoss` of a trace pair whose inputs move by at most the configured sensitivities.
-/
import DPL.Model.PlanTools
import DPL.Model.PrivLoss
import DPL.Proofs.Plan
import DPL.Proofs.RealCarrier
import Mathlib.Algebra.BigOperators.Group.List.Basic
import Mathlib.Algebra.Order.BigOperators.Group.List
import Mathlib.Tactic.Linarith
import Mathlib.Tactic.Positivity
import Mathlib.Tactic.FieldSimp
import Mathlib.Tactic.Ring

namespace DPL
namespace Tools

variable {δ δ' α β ρ σ : Type}

/-! ## Part 1 — traces (any carrier) -/

/-- a plan that makes exactly one invocation and post-processes its output -/
def oneCall (c : MechCall α) (inp : δ → α) (g : α → ρ) : Plan δ α ρ := .call c inp (fun o => .release (g o))

theorem single_eq_oneCall (c : MechCall α) (inp : δ → α) : single c inp = oneCall c inp id := rfl

theorem map_oneCall (c : MechCall α) (inp : δ → α) (g : α → ρ) (f : ρ → σ) :
    (oneCall c inp g).map f = oneCall c inp (fun o => f (g o)) := by
  simp [oneCall, Plan.map, Plan.bind]

theorem comap_oneCall (f : δ' → δ) (c : MechCall α) (inp : δ → α) (g : α → ρ) :
    comap f (oneCall c inp g) = oneCall c (fun D => inp (f D)) g := by
  simp [oneCall, comap]

theorem run_oneCall (c : MechCall α) (inp : δ → α) (g : α → ρ) (D : δ) (o : α) (os : List α) :
    (oneCall c inp g).run D (o :: os) = ⟨[c], [inp D], [], some (g o)⟩ := by
  simp [oneCall, Plan.run]

/-- post-processing changes only the release -/
theorem run_map (p : Plan δ α ρ) (f : ρ → σ) (D : δ) (outs : List α) :
    (p.map f).run D outs =
      ⟨(p.run D outs).calls, (p.run D outs).inputs, (p.run D outs).probes, (p.run D outs).release.map f⟩ := by
  induction p generalizing outs with
  | release r => simp [Plan.map, Plan.bind, Plan.run]
  | call c inp k ih =>
    cases outs with
    | nil => simp [Plan.map, Plan.bind, Plan.run]
    | cons o os =>
      have := ih o os
      simp only [Plan.map] at this
      simp [Plan.map, Plan.bind, Plan.run, this]
  | probe occ k ih =>
    have := ih (occ D) outs
    simp only [Plan.map] at this
    simp [Plan.map, Plan.bind, Plan.run, this]

/-- description of a one-call plan -/
structure Cell (δ α ρ : Type) where
  c : MechCall α
  inp : δ → α
  g : α → ρ

def Cell.plan (x : Cell δ α ρ) : Plan δ α ρ := oneCall x.c x.inp x.g

/-- the trace of a sequence of one-call plans when one forced output per plan is supplied -/
theorem run_seq_cells (cs : List (Cell δ α ρ)) (D : δ) (outs : List α) (h : outs.length = cs.length) :
    (Plan.seq (cs.map Cell.plan)).run D outs =
      ⟨cs.map (·.c), cs.map (fun x => x.inp D), [], some (List.zipWith (fun x o => x.g o) cs outs)⟩ := by
  induction cs generalizing outs with
  | nil =>
    cases outs with
    | nil => simp [Plan.seq, Plan.run]
    | cons o os => simp at h
  | cons x xs ih =>
    cases outs with
    | nil => simp at h
    | cons o os =>
      have hl : os.length = xs.length := by simpa using h
      have hm := run_map (Plan.seq (xs.map Cell.plan)) (fun rs => x.g o :: rs) D os
      rw [ih os hl] at hm
      simp only [List.map_cons, Plan.seq, Cell.plan, oneCall, Plan.bind, Plan.run]
      simp only [Cell.plan, oneCall] at hm
      rw [hm]
      simp

/-- every cell of `wrapAxis` over one-call cell plans, as a `Cell` -/
def axisCells (dflt : β) (size : Nat) (bounds : Nat → α × α)
    (mk : (l u : α) → Cell (List β) α ρ) : List (Cell (List (List β)) α ρ) :=
  (List.range size).map (fun c =>
    let x := mk (bounds c).1 (bounds c).2
    ⟨x.c, fun D => x.inp (column dflt c D), x.g⟩)

theorem wrapAxis_eq_cells [Div α] [NatCast α] (dflt : β) (size : Nat) (ε : α) (bounds : Nat → α × α)
    (cell : (ε l u : α) → Plan (List β) α ρ) (mk : (l u : α) → Cell (List β) α ρ)
    (hcell : ∀ l u, cell (ε / (size : α)) l u = (mk l u).plan) :
    wrapAxis dflt size ε bounds cell = Plan.seq ((axisCells dflt size bounds mk).map Cell.plan) := by
  unfold wrapAxis axisCells
  congr 1
  rw [List.map_map]
  apply List.map_congr_left
  intro c _
  simp only [Function.comp, hcell, Cell.plan, comap_oneCall]

/-- one record contributes exactly one entry to every output cell: replacing record `r` by `r'` replaces one entry
of each cell's sub-array -/
theorem column_replace (dflt : β) (c : Nat) (pre post : List (List β)) (r : List β) :
    column dflt c (pre ++ r :: post) = column dflt c pre ++ r.getD c dflt :: column dflt c post := by
  simp [column]

theorem column_length (dflt : β) (c : Nat) (D : List (List β)) : (column dflt c D).length = D.length := by
  simp [column]

/-! ## Part 2 — the privacy-loss bound over ℝ -/

theorem absDiff_real (a b : ℝ) : absDiff a b = |a - b| := by
  unfold absDiff
  split
  · rename_i h; rw [abs_of_neg (by linarith)]; ring
  · rename_i h; rw [abs_of_nonneg (by linarith)]

/-- an invocation whose input moves by at most its configured sensitivity has relative displacement in [0, 1] -/
theorem relDisp_le_one (c : MechCall ℝ) (a b : ℝ) (h : |a - b| ≤ c.sens) : 0 ≤ relDisp c a b ∧ relDisp c a b ≤ 1 := by
  unfold relDisp
  simp only [absDiff_real]
  split
  · exact ⟨le_refl _, zero_le_one⟩
  · rename_i hd
    have hpos : 0 < |a - b| := lt_of_not_ge hd
    have hs : 0 < c.sens := lt_of_lt_of_le hpos h
    exact ⟨div_nonneg hpos.le hs.le, (div_le_one hs).mpr h⟩

theorem relDisp_same (c : MechCall ℝ) (a : ℝ) : relDisp c a a = 0 := by
  unfold relDisp
  simp [absDiff_real]

/-- generic bound: if every invocation's input moves by at most its sensitivity and epsilons are non-negative then
`max_i d_i/sens_i ≤ 1` and `Σ_i ε_i d_i/sens_i ≤ Σ_i ε_i` -/
theorem privLoss_le_sum (cs : List (MechCall ℝ)) (as bs : List ℝ)
    (hlen : as.length = cs.length) (hlen' : bs.length = cs.length)
    (h : ∀ i (hi : i < cs.length), |as[i]'(hlen ▸ hi) - bs[i]'(hlen' ▸ hi)| ≤ (cs[i]).sens)
    (he : ∀ c ∈ cs, 0 ≤ c.eps) :
    dispOk cs as bs = true ∧ privLoss cs as bs ≤ (cs.map (·.eps)).sum := by
  induction cs generalizing as bs with
  | nil => simp [dispOk, privLoss]
  | cons c cs ih =>
    cases as with
    | nil => simp at hlen
    | cons a as =>
      cases bs with
      | nil => simp at hlen'
      | cons b bs =>
        have h0 := h 0 (by simp)
        simp only [List.getElem_cons_zero] at h0
        have hr := relDisp_le_one c a b h0
        have hrest := ih as bs (by simpa using hlen) (by simpa using hlen')
          (fun i hi => by
            have := h (i + 1) (by simpa using hi)
            simpa using this)
          (fun c' hc' => he c' (List.mem_cons_of_mem _ hc'))
        have hec := he c (by simp)
        constructor
        · simp only [dispOk, Bool.and_eq_true, decide_eq_true_eq]
          exact ⟨hr.2, hrest.1⟩
        · simp only [privLoss, List.map_cons, List.sum_cons]
          have : c.eps * relDisp c a b ≤ c.eps := by
            calc c.eps * relDisp c a b ≤ c.eps * 1 := mul_le_mul_of_nonneg_left hr.2 hec
              _ = c.eps := mul_one _
          linarith [hrest.2]

/-- `Σ_cells ε/size = ε` (over ℝ), the identity behind `_wrap_axis` and the multi-quantile split -/
theorem split_sum (ε : ℝ) (size : Nat) (h : 0 < size) :
    ((List.range size).map (fun _ => ε / (size : ℝ))).sum = ε := by
  have hs : (size : ℝ) ≠ 0 := by exact_mod_cast h.ne'
  simp [List.sum_const_nat, hs]
  field_simp

/-- nested split of a quantile list over an axis: `m` quantiles × `n` cells, each `ε / m / n` -/
theorem split_sum_nested (ε : ℝ) (m n : Nat) (hm : 0 < m) (hn : 0 < n) :
    ((List.range (m * n)).map (fun _ => ε / (m : ℝ) / (n : ℝ))).sum = ε := by
  have hm' : (m : ℝ) ≠ 0 := by exact_mod_cast hm.ne'
  have hn' : (n : ℝ) ≠ 0 := by exact_mod_cast hn.ne'
  simp [List.sum_const_nat]
  field_simp

end Tools
end DPL
