/-
The semantic step of C08 for an arbitrary per-invocation convention (`lossLeW rel wt`, `ModelsVecCalc.lean`) and with a
side predicate that may also look at the two INPUTS of an invocation (`Plan.callsSatAt P D D'`): needed for
mechanisms that are metric-DP only on part of the input space (integer-valued counts: the geometric family) and for
vector-valued inputs (PermuteAndFlip in the forest).  `rel = wt = relDisp`, `P` input-blind gives back
`ModelsCompose2.lean`.  Also: `probesAgree` / `callsSatAt` are compositional.
-/
import DPL.Proofs.ModelsCompose2
import DPL.Proofs.ModelsVecCalc

namespace DPL
open MeasureTheory ENNReal

variable {δ ρ σ ι : Type}

/-- every invocation, together with its inputs on `D` and on `D'`, satisfies `P` -/
def Plan.callsSatAt (P : MechCall ℝ → ℝ → ℝ → Prop) (D D' : δ) : Plan δ ℝ ρ → Prop
  | .release _ => True
  | .call c inp k => P c (inp D) (inp D') ∧ ∀ o, Plan.callsSatAt P D D' (k o)
  | .probe _ k => ∀ b, Plan.callsSatAt P D D' (k b)

namespace PM
open DPL.Compose

/-- metric DP in the convention `(rel, wt)`: on invocations/inputs satisfying `P`, inputs with `rel ≤ 1` give output
laws within `exp(ε · wt)` on every measurable set -/
def MetricDPW (rel wt : Conv) (P : MechCall ℝ → ℝ → ℝ → Prop) (M : MechCall ℝ → ℝ → Measure ℝ) : Prop :=
  ∀ c a b, P c a b → rel c a b ≤ 1 → ∀ S, MeasurableSet S →
    M c a S ≤ ENNReal.ofReal (Real.exp (c.eps * wt c a b)) * M c b S

theorem metricDPW_of_metricDP (P : MechCall ℝ → Prop) (M : MechCall ℝ → ℝ → Measure ℝ) (h : MetricDP P M) :
    MetricDPW relDisp relDisp (fun c _ _ => P c) M := fun c a b hc hab S hS => h c hc a b hab S hS

/-- **the semantic step, general convention, set-function form** -/
theorem lawOn_dp_of_lossLeW (rel wt : Conv) (P : MechCall ℝ → ℝ → ℝ → Prop) (M : MechCall ℝ → ℝ → Measure ℝ)
    (hM : MetricDPW rel wt P M) (D D' : δ) (p : Plan δ ℝ ρ) (B : ℝ) (hp : lossLeW rel wt D D' p B)
    (hpr : p.probesAgree D D') (hc : p.callsSatAt P D D') (S : Set ρ) :
    p.lawOn M D S ≤ ENNReal.ofReal (Real.exp B) * p.lawOn M D' S := by
  induction p generalizing B with
  | release r =>
    simp only [Plan.lawOn]
    have h0 : (0 : ℝ) ≤ B := hp
    have : (1 : ℝ≥0∞) ≤ ENNReal.ofReal (Real.exp B) := by
      rw [← ENNReal.ofReal_one]; exact ENNReal.ofReal_le_ofReal (Real.one_le_exp h0)
    exact le_mul_of_one_le_left' this
  | call c inp k ih =>
    simp only [Plan.lawOn]
    have hB : B = c.eps * wt c (inp D) (inp D') + (B - c.eps * wt c (inp D) (inp D')) := by ring
    rw [hB, ofReal_exp_add]
    exact lintegral_le_of_bounds ofReal_ne_top (hM c _ _ hc.1 hp.1) _ _
      (fun o => ih o _ (hp.2 o) (hpr o) (hc.2 o))
  | probe occ k ih =>
    simp only [Plan.lawOn]
    rw [← hpr.1]
    exact ih _ B (hp hpr.1) hpr.2 (hc _)

/-- **the semantic step, general convention, for the output law** -/
theorem plan_dp_of_lossLeW [MeasurableSpace ρ] (rel wt : Conv) (P : MechCall ℝ → ℝ → ℝ → Prop)
    (M : MechCall ℝ → ℝ → Measure ℝ) (hM : MetricDPW rel wt P M) (D D' : δ) (p : Plan δ ℝ ρ) (B : ℝ)
    (hp : lossLeW rel wt D D' p B) (hpr : p.probesAgree D D') (hc : p.callsSatAt P D D') (hm : p.Meas M)
    (S : Set ρ) (hS : MeasurableSet S) :
    p.law M D S ≤ ENNReal.ofReal (Real.exp B) * p.law M D' S := by
  rw [law_eq_lawOn M p hm D S hS, law_eq_lawOn M p hm D' S hS]
  exact lawOn_dp_of_lossLeW rel wt P M hM D D' p B hp hpr hc S

/-! ### side predicates are compositional -/

theorem callsSatAt_of_callsSat (P : MechCall ℝ → Prop) (D D' : δ) (p : Plan δ ℝ ρ) (h : p.callsSat P) :
    p.callsSatAt (fun c _ _ => P c) D D' := by
  induction p with
  | release r => trivial
  | call c inp k ih => exact ⟨h.1, fun o => ih o (h.2 o)⟩
  | probe occ k ih => exact fun b => ih b (h b)

theorem callsSatAt_mono (P Q : MechCall ℝ → ℝ → ℝ → Prop) (hPQ : ∀ c a b, P c a b → Q c a b) (D D' : δ)
    (p : Plan δ ℝ ρ) (h : p.callsSatAt P D D') : p.callsSatAt Q D D' := by
  induction p with
  | release r => trivial
  | call c inp k ih => exact ⟨hPQ _ _ _ h.1, fun o => ih o (h.2 o)⟩
  | probe occ k ih => exact fun b => ih b (h b)

theorem callsSatAt_bind (P : MechCall ℝ → ℝ → ℝ → Prop) (D D' : δ) (p : Plan δ ℝ ρ) (q : ρ → Plan δ ℝ σ)
    (hp : p.callsSatAt P D D') (hq : ∀ r, (q r).callsSatAt P D D') : (p.bind q).callsSatAt P D D' := by
  induction p with
  | release r => exact hq r
  | call c inp k ih => exact ⟨hp.1, fun o => ih o (hp.2 o)⟩
  | probe occ k ih => exact fun b => ih b (hp b)

theorem callsSatAt_one (P : MechCall ℝ → ℝ → ℝ → Prop) (D D' : δ) (c : MechCall ℝ) (inp : δ → ℝ)
    (h : P c (inp D) (inp D')) : (one c inp).callsSatAt P D D' := ⟨h, fun _ => trivial⟩

theorem callsSatAt_forList (P : MechCall ℝ → ℝ → ℝ → Prop) (D D' : δ) (l : List ι) (f : ι → Plan δ ℝ σ)
    (h : ∀ i ∈ l, (f i).callsSatAt P D D') : (forList l f).callsSatAt P D D' := by
  induction l with
  | nil => trivial
  | cons i is ih =>
    exact callsSatAt_bind P D D' _ _ (h i (by simp)) fun r =>
      callsSatAt_bind P D D' _ _ (ih fun j hj => h j (by simp [hj])) fun _ => trivial

theorem probesAgree_bind (D D' : δ) (p : Plan δ ℝ ρ) (q : ρ → Plan δ ℝ σ) (hp : p.probesAgree D D')
    (hq : ∀ r, (q r).probesAgree D D') : (p.bind q).probesAgree D D' := by
  induction p with
  | release r => exact hq r
  | call c inp k ih => exact fun o => ih o (hp o)
  | probe occ k ih => exact ⟨hp.1, ih _ hp.2⟩

theorem probesAgree_forList (D D' : δ) (l : List ι) (f : ι → Plan δ ℝ σ) (h : ∀ i ∈ l, (f i).probesAgree D D') :
    (forList l f).probesAgree D D' := by
  induction l with
  | nil => trivial
  | cons i is ih =>
    exact probesAgree_bind D D' _ _ (h i (by simp)) fun r =>
      probesAgree_bind D D' _ _ (ih fun j hj => h j (by simp [hj])) fun _ => trivial

theorem probesAgree_one (D D' : δ) (c : MechCall ℝ) (inp : δ → ℝ) : (one c inp).probesAgree D D' := fun _ => trivial

end PM
end DPL
