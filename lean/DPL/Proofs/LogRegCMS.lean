/-
Analytic ingredients of Chaudhuri–Monteleoni–Sarwate (JMLR 2011) Theorem 9 for the logistic loss, used by C17 §7:
  * the logistic loss ℓ(z) = log(1 + e^{−z}): derivatives, −1 < ℓ′ < 0, 0 < ℓ″ ≤ ¼, convexity;
  * per-record gradient `ℓ′(y⟪w,x⟫)·y • x` of norm ≤ s for rows ‖x‖ ≤ s, labels ±1; two noise vectors that give the
    same minimiser on neighbouring data sets differ by at most 2s;
  * the noise-density ratio `e^{−β‖b‖} / e^{−β‖b′‖} ≤ e^{β‖b−b′‖}` (≤ e^{ε′} for β = ε′/(2s), ‖b−b′‖ ≤ 2s);
  * rank-one determinants: det(I + u vᵀ) = 1 + v·u, det(I + (a/A)·x xᵀ) = 1 + a‖x‖²/A ≤ 1 + c·s²/A (ATTAINED at ‖x‖ = s,
    a = c: the quantity that must be paid for is c·s², not c·s), and the one-dimensional Jacobian ratio.
No model import: pure mathematics.
-/
import Mathlib.Analysis.SpecialFunctions.Log.Deriv
import Mathlib.Analysis.SpecialFunctions.ExpDeriv
import Mathlib.Analysis.Convex.Deriv
import Mathlib.Analysis.InnerProductSpace.Basic
import Mathlib.LinearAlgebra.Matrix.SchurComplement

namespace DPL
namespace CMS

/-! ### 1. the logistic loss -/

/-- the loss the code optimises (`HalfBinomialLoss` on the margin `z = y·⟪w,x⟫`, `y = ±1`) -/
noncomputable def logistic (z : ℝ) : ℝ := Real.log (1 + Real.exp (-z))
/-- ℓ′ -/
noncomputable def logistic' (z : ℝ) : ℝ := -1 / (1 + Real.exp z)
/-- ℓ″ -/
noncomputable def logistic'' (z : ℝ) : ℝ := Real.exp z / (1 + Real.exp z) ^ 2

theorem hasDerivAt_logistic (z : ℝ) : HasDerivAt logistic (logistic' z) z := by
  have hpos : 0 < 1 + Real.exp (-z) := by positivity
  have h1 : HasDerivAt (fun t : ℝ => 1 + Real.exp (-t)) (Real.exp (-z) * (-1)) z := by
    simpa using ((Real.hasDerivAt_exp (-z)).comp z (hasDerivAt_neg z)).const_add 1
  have h2 := h1.log hpos.ne'
  have heq : Real.exp (-z) * (-1) / (1 + Real.exp (-z)) = logistic' z := by
    unfold logistic'
    rw [Real.exp_neg]
    have hz : 0 < Real.exp z := Real.exp_pos z
    field_simp
    ring
  rw [heq] at h2
  exact h2

theorem hasDerivAt_logistic' (z : ℝ) : HasDerivAt logistic' (logistic'' z) z := by
  have hpos : 0 < 1 + Real.exp z := by positivity
  have h1 : HasDerivAt (fun t : ℝ => 1 + Real.exp t) (Real.exp z) z := by
    simpa using (Real.hasDerivAt_exp z).const_add 1
  have h2 := (hasDerivAt_const z (-1 : ℝ)).div h1 hpos.ne'
  have heq : (0 * (1 + Real.exp z) - -1 * Real.exp z) / (1 + Real.exp z) ^ 2 = logistic'' z := by
    unfold logistic''; ring
  rw [heq] at h2
  exact h2

theorem logistic'_neg (z : ℝ) : logistic' z < 0 := by
  unfold logistic'
  have : 0 < 1 + Real.exp z := by positivity
  exact div_neg_of_neg_of_pos (by norm_num) this

theorem logistic'_gt (z : ℝ) : -1 < logistic' z := by
  unfold logistic'
  have h : 0 < Real.exp z := Real.exp_pos z
  have : 0 < 1 + Real.exp z := by positivity
  rw [lt_div_iff₀ this]; linarith

theorem abs_logistic'_le (z : ℝ) : |logistic' z| ≤ 1 :=
  abs_le.mpr ⟨(logistic'_gt z).le, (logistic'_neg z).le.trans zero_le_one⟩

theorem abs_logistic'_lt (z : ℝ) : |logistic' z| < 1 :=
  abs_lt.mpr ⟨logistic'_gt z, (logistic'_neg z).trans zero_lt_one⟩

theorem logistic''_pos (z : ℝ) : 0 < logistic'' z := by
  unfold logistic''; positivity

/-- AM–GM: `(1+t)² ≥ 4t`, hence `ℓ″ ≤ ¼` — the constant `c` of CMS for the logistic loss -/
theorem logistic''_le (z : ℝ) : logistic'' z ≤ 1 / 4 := by
  unfold logistic''
  have h : 0 < Real.exp z := Real.exp_pos z
  have hp : 0 < (1 + Real.exp z) ^ 2 := by positivity
  rw [div_le_iff₀ hp]
  nlinarith [sq_nonneg (1 - Real.exp z)]

/-- the bound is attained at `z = 0`: `c = ¼` is the best constant -/
theorem logistic''_zero : logistic'' 0 = 1 / 4 := by
  unfold logistic''; rw [Real.exp_zero]; norm_num

theorem deriv_logistic : deriv logistic = logistic' := funext fun z => (hasDerivAt_logistic z).deriv
theorem deriv_logistic' : deriv logistic' = logistic'' := funext fun z => (hasDerivAt_logistic' z).deriv

theorem differentiable_logistic : Differentiable ℝ logistic := fun z => (hasDerivAt_logistic z).differentiableAt

theorem convexOn_logistic : ConvexOn ℝ Set.univ logistic := by
  apply convexOn_univ_of_deriv2_nonneg differentiable_logistic
  · rw [deriv_logistic]; exact fun z => (hasDerivAt_logistic' z).differentiableAt
  · intro z
    simp only [Function.iterate_succ, Function.iterate_zero, Function.comp_apply, id_eq]
    rw [deriv_logistic, deriv_logistic']
    exact (logistic''_pos z).le

theorem strictConvexOn_logistic : StrictConvexOn ℝ Set.univ logistic := by
  apply strictConvexOn_univ_of_deriv2_pos differentiable_logistic.continuous
  intro z
  simp only [Function.iterate_succ, Function.iterate_zero, Function.comp_apply, id_eq]
  rw [deriv_logistic, deriv_logistic']
  exact logistic''_pos z

/-! ### 2. per-record gradients and the noise-density ratio -/

section grad
variable {E : Type*} [NormedAddCommGroup E] [InnerProductSpace ℝ E]

/-- the gradient of the per-record loss `w ↦ ℓ(y·⟪w,x⟫)` -/
noncomputable def recGrad (x : E) (y : ℝ) (w : E) : E := (logistic' (y * inner ℝ w x) * y) • x

/-- the Hessian weight `ℓ″(y⟪w,x⟫)·y²` of the record (`= ℓ″` for labels ±1): Hessian = weight · x xᵀ -/
noncomputable def recCurv (x : E) (y : ℝ) (w : E) : ℝ := logistic'' (y * inner ℝ w x) * y ^ 2

/-- it IS the gradient: directional derivative of `t ↦ ℓ(y⟪w + t h, x⟫)` at 0 is `⟪recGrad, h⟫` -/
theorem recGrad_is_gradient (x : E) (y : ℝ) (w h : E) :
    HasDerivAt (fun t : ℝ => logistic (y * inner ℝ (w + t • h) x)) (inner ℝ (recGrad x y w) h) 0 := by
  have hlin : HasDerivAt (fun t : ℝ => y * inner ℝ (w + t • h) x) (y * inner ℝ h x) 0 := by
    have : (fun t : ℝ => y * inner ℝ (w + t • h) x) = fun t : ℝ => y * inner ℝ w x + t * (y * inner ℝ h x) := by
      funext t; rw [inner_add_left, inner_smul_left]; simp; ring
    rw [this]
    simpa using ((hasDerivAt_id (0 : ℝ)).mul_const (y * inner ℝ h x)).const_add (y * inner ℝ w x)
  have h0 : y * inner ℝ (w + (0 : ℝ) • h) x = y * inner ℝ w x := by simp
  have hl := hasDerivAt_logistic (y * inner ℝ (w + (0 : ℝ) • h) x)
  have := hl.comp (0 : ℝ) hlin
  rw [h0] at this
  have heq : inner ℝ (recGrad x y w) h = logistic' (y * inner ℝ w x) * (y * inner ℝ h x) := by
    unfold recGrad; rw [real_inner_smul_left, real_inner_comm h x]; ring
  rw [heq]
  exact this

/-- rows of norm ≤ s and labels ±1: every per-record gradient has norm ≤ s (from |ℓ′| ≤ 1) -/
theorem norm_recGrad_le (x : E) (y : ℝ) (w : E) (s : ℝ) (hx : ‖x‖ ≤ s) (hy : y = 1 ∨ y = -1) :
    ‖recGrad x y w‖ ≤ s := by
  unfold recGrad
  rw [norm_smul, Real.norm_eq_abs, abs_mul]
  have h1 := abs_logistic'_le (y * inner ℝ w x)
  have h2 : |y| = 1 := by rcases hy with h | h <;> simp [h]
  rw [h2, mul_one]
  calc |logistic' (y * inner ℝ w x)| * ‖x‖ ≤ 1 * ‖x‖ := mul_le_mul_of_nonneg_right h1 (norm_nonneg _)
    _ = ‖x‖ := one_mul _
    _ ≤ s := hx

theorem recCurv_bounds (x : E) (y : ℝ) (w : E) (hy : y = 1 ∨ y = -1) : 0 < recCurv x y w ∧ recCurv x y w ≤ 1 / 4 := by
  unfold recCurv
  have : y ^ 2 = 1 := by rcases hy with h | h <;> simp [h]
  rw [this, mul_one]
  exact ⟨logistic''_pos _, logistic''_le _⟩

/-- the noise vector that makes `w` the minimiser: stationarity `A•w + G + g + b = 0` of the perturbed objective
(times n), `A = n(Λ+Δ)`, `G` the summed gradients of the shared records, `g` the gradient of the differing record -/
def noiseFor (A : ℝ) (w G g : E) : E := -(A • w + G + g)

/-- neighbouring data sets, same minimiser: the two noise vectors differ by the two differing per-record gradients only,
so by at most `2s` -/
theorem noiseFor_diff_le (A s : ℝ) (w G g g' : E) (hg : ‖g‖ ≤ s) (hg' : ‖g'‖ ≤ s) :
    ‖noiseFor A w G g - noiseFor A w G g'‖ ≤ 2 * s := by
  have : noiseFor A w G g - noiseFor A w G g' = g' - g := by unfold noiseFor; abel
  rw [this]
  calc ‖g' - g‖ ≤ ‖g'‖ + ‖g‖ := norm_sub_le _ _
    _ ≤ 2 * s := by linarith

/-- reverse triangle inequality in the exponent: `ν(b)/ν(b′) ≤ e^{β‖b−b′‖}` for `ν ∝ e^{−β‖·‖}` -/
theorem noise_density_ratio (β : ℝ) (hβ : 0 ≤ β) (b b' : E) :
    Real.exp (-β * ‖b‖) / Real.exp (-β * ‖b'‖) ≤ Real.exp (β * ‖b - b'‖) := by
  rw [← Real.exp_sub, Real.exp_le_exp]
  have h : ‖b'‖ - ‖b‖ ≤ ‖b - b'‖ := by
    have := norm_sub_norm_le b' b
    rwa [norm_sub_rev] at this
  nlinarith [mul_le_mul_of_nonneg_left h hβ]

/-- with the rate `β = ε′/(2s)` of the sampler's law and `‖b−b′‖ ≤ 2s` the ratio is at most `e^{ε′}` (multiplicative form,
no division) -/
theorem noise_density_le (epsP s : ℝ) (he : 0 ≤ epsP) (hs : 0 < s) (b b' : E) (hb : ‖b - b'‖ ≤ 2 * s) :
    Real.exp (-(epsP / (2 * s)) * ‖b‖) ≤ Real.exp epsP * Real.exp (-(epsP / (2 * s)) * ‖b'‖) := by
  have hβ : 0 ≤ epsP / (2 * s) := by positivity
  have h1 := noise_density_ratio (epsP / (2 * s)) hβ b b'
  rw [div_le_iff₀ (Real.exp_pos _)] at h1
  refine h1.trans (mul_le_mul_of_nonneg_right ?_ (Real.exp_pos _).le)
  rw [Real.exp_le_exp]
  calc epsP / (2 * s) * ‖b - b'‖ ≤ epsP / (2 * s) * (2 * s) := mul_le_mul_of_nonneg_left hb hβ
    _ = epsP := by field_simp

end grad

/-! ### 3. Jacobian ratio: rank one, and dimension one -/

open Matrix in
/-- matrix determinant lemma, rank one: `det(I + u vᵀ) = 1 + v·u` -/
theorem det_one_add_rank_one {d : ℕ} (u v : Fin d → ℝ) :
    (1 + Matrix.vecMulVec u v).det = 1 + v ⬝ᵥ u := by
  have : Matrix.vecMulVec u v = Matrix.replicateCol Unit u * Matrix.replicateRow Unit v := by
    ext i j; simp [Matrix.vecMulVec_apply, Matrix.mul_apply]
  rw [this, Matrix.det_one_add_replicateCol_mul_replicateRow]

open Matrix in
/-- one record's Hessian `a·x xᵀ` (`0 ≤ a ≤ c`, `x·x ≤ s²`) on top of `A·I`: the Jacobian ratio is
`det(I + (a/A) x xᵀ) = 1 + a(x·x)/A`, in `[1, 1 + c·s²/A]` -/
theorem det_rank_one_update {d : ℕ} (x : Fin d → ℝ) (a A c s : ℝ) (hA : 0 < A) (ha : 0 ≤ a) (hac : a ≤ c)
    (hx : x ⬝ᵥ x ≤ s ^ 2) :
    (1 + Matrix.vecMulVec ((a / A) • x) x).det = 1 + a * (x ⬝ᵥ x) / A ∧
    1 ≤ (1 + Matrix.vecMulVec ((a / A) • x) x).det ∧
    |(1 + Matrix.vecMulVec ((a / A) • x) x).det| ≤ 1 + c * s ^ 2 / A := by
  have hxx : 0 ≤ x ⬝ᵥ x := by
    unfold dotProduct; exact Finset.sum_nonneg fun i _ => mul_self_nonneg _
  have hdet : (1 + Matrix.vecMulVec ((a / A) • x) x).det = 1 + a * (x ⬝ᵥ x) / A := by
    rw [det_one_add_rank_one, dotProduct_smul, smul_eq_mul]; ring
  have h0 : 0 ≤ a * (x ⬝ᵥ x) / A := by positivity
  have h1 : a * (x ⬝ᵥ x) / A ≤ c * s ^ 2 / A := by
    apply div_le_div_of_nonneg_right _ hA.le
    calc a * (x ⬝ᵥ x) ≤ c * (x ⬝ᵥ x) := mul_le_mul_of_nonneg_right hac hxx
      _ ≤ c * s ^ 2 := mul_le_mul_of_nonneg_left hx (ha.trans hac)
  refine ⟨hdet, by rw [hdet]; linarith, ?_⟩
  rw [hdet, abs_of_nonneg (by linarith)]; linarith

/-- the rank-one bound is ATTAINED (`a = c`, `x·x = s²`): what the Jacobian costs is `c·s²/A`, not `c·s/A` -/
theorem det_rank_one_update_attained {d : ℕ} (x : Fin d → ℝ) (A c s : ℝ) (hx : x ⬝ᵥ x = s ^ 2) :
    (1 + Matrix.vecMulVec ((c / A) • x) x).det = 1 + c * s ^ 2 / A := by
  rw [det_one_add_rank_one, dotProduct_smul, smul_eq_mul, hx]; ring

/-- dimension one (any number of shared records, summed curvature `M0 ≥ 0`): Jacobians `A + M0 + a·x²` and
`A + M0 + a′·x′²`; their ratio is at most `1 + c·s²/A` (even without the square) -/
theorem jacobian_ratio_dim_one (A M0 a a' x x' c s : ℝ) (hA : 0 < A) (hM : 0 ≤ M0) (ha : 0 ≤ a) (hac : a ≤ c)
    (ha' : 0 ≤ a') (hx : x ^ 2 ≤ s ^ 2) :
    A + M0 + a * x ^ 2 ≤ (1 + c * s ^ 2 / A) * (A + M0 + a' * x' ^ 2) := by
  have h1 : a * x ^ 2 ≤ c * s ^ 2 :=
    (mul_le_mul_of_nonneg_right hac (sq_nonneg x)).trans (mul_le_mul_of_nonneg_left hx (ha.trans hac))
  have hcs : 0 ≤ c * s ^ 2 / A := div_nonneg (mul_nonneg (ha.trans hac) (sq_nonneg s)) hA.le
  have h2 : 0 ≤ a' * x' ^ 2 := mul_nonneg ha' (sq_nonneg _)
  have h3 : (1 + c * s ^ 2 / A) * A = A + c * s ^ 2 := by field_simp
  nlinarith [mul_nonneg hcs hM, mul_nonneg hcs h2]

end CMS
end DPL
