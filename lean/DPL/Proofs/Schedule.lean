/-
Helper lemmas for C15: a schedule acts on every task-local state independently; the sequential schedule is complete;
the forest's row -> tree arithmetic over ℝ.
-/
import DPL.Model.Schedule
import DPL.Proofs.RealCarrier
import Mathlib.Algebra.Order.Floor.Ring
import Mathlib.Algebra.Order.Archimedean.Real.Basic
import Mathlib.Tactic.FieldSimp
import Mathlib.Tactic.Positivity

namespace DPL

/-- over the reals numpy's `//` is the floor of the exact quotient -/
noncomputable instance : PyFloorDiv ℝ := ⟨fun a b => ((⌊a / b⌋ : ℤ) : ℝ)⟩

@[simp] theorem pyFloorDiv_real (a b : ℝ) : PyFloorDiv.floorDiv a b = ((⌊a / b⌋ : ℤ) : ℝ) := rfl

theorem iter_succ' {T : Type} (f : T → T) (n : Nat) (x : T) : iter f (n + 1) x = iter f n (f x) := rfl

/-- **key lemma**: whatever the schedule, the local state of task `i` is its own step function iterated as many times
as the schedule gave it a turn — no other task's turns matter -/
theorem runOwned_eq {T : Type} (step : T → T) (sch : List Nat) : ∀ (st : Nat → T) (i : Nat),
    runOwned step sch st i = iter step (sch.count i) (st i) := by
  induction sch with
  | nil => intro st i; rfl
  | cons a sch ih =>
    intro st i
    show runOwned step sch (fun j => if j = a then step (st j) else st j) i = _
    rw [ih, List.count_cons]
    by_cases h : i = a
    · subst h; simp [iter]
    · have : (a == i) = false := by simp [Ne.symm h]
      simp [this, h]

theorem mem_seqSchedule {T : Type} (need : T → Nat) (st : Nat → T) : ∀ (k j : Nat), j ∈ seqSchedule need st k → j < k := by
  intro k
  induction k with
  | zero => intro j h; simp [seqSchedule] at h
  | succ k ih =>
    intro j h
    simp only [seqSchedule, List.mem_append, List.mem_replicate] at h
    rcases h with h | ⟨_, h⟩
    · exact Nat.lt_succ_of_lt (ih j h)
    · omega

theorem seqSchedule_complete {T : Type} (need : T → Nat) (st : Nat → T) (k : Nat) :
    Complete need st k (seqSchedule need st k) := by
  induction k with
  | zero => intro i hi; omega
  | succ k ih =>
    intro i hi
    simp only [seqSchedule, List.count_append, List.count_replicate]
    by_cases h : i = k
    · subst h
      have : (seqSchedule need st i).count i = 0 :=
        List.count_eq_zero.mpr (fun hm => Nat.lt_irrefl _ (mem_seqSchedule need st i i hm))
      simp [this]
    · have hlt : i < k := by omega
      have : (k == i) = false := by simp [Ne.symm h]
      simp [this, ih i hlt]

/-! ### the row -> tree arithmetic over ℝ -/

theorem treeOf_real (n k idx : Nat) (hn : 0 < n) (hk : 0 < k) :
    treeOf ℝ n k idx = ((idx * k / n : Nat) : Int) := by
  unfold treeOf
  simp only [pyFloorDiv_real, transc_floor, Int.floor_intCast]
  have hn' : (n : ℝ) ≠ 0 := by positivity
  have hk' : (k : ℝ) ≠ 0 := by positivity
  have : (idx : ℝ) / ((n : ℝ) / (k : ℝ)) = ((idx * k : ℕ) : ℝ) / (n : ℕ) := by
    push_cast
    field_simp
  rw [this, Int.floor_div_natCast, Int.floor_natCast]
  norm_cast

theorem treeOf_real_range (n k idx : Nat) (hn : 0 < n) (hk : 0 < k) (h : idx < n) :
    0 ≤ treeOf ℝ n k idx ∧ treeOf ℝ n k idx < k := by
  rw [treeOf_real n k idx hn hk]
  refine ⟨Int.natCast_nonneg _, ?_⟩
  have : idx * k / n < k := by
    rw [Nat.div_lt_iff_lt_mul hn]
    calc idx * k < n * k := Nat.mul_lt_mul_of_pos_right h hk
      _ = k * n := Nat.mul_comm _ _
  exact_mod_cast this

end DPL
