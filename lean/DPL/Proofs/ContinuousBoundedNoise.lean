/-
Bounded-noise Laplace (Geng et al.; `LaplaceBoundedNoise`), end to end (C02):
the Laplace law with scale `b = Δ/ε` restricted to `[c - A, c + A]` and renormalised, `A` the coded noise bound,
satisfies  `P[M(x) ∈ S] ≤ e^ε P[M(x') ∈ S] + δ`  for `|x - x'| ≤ Δ`, every measurable `S`, `δ ≤ 1/2`.

Pure measure theory from two facts: on the overlap of the two supports the (identically normalised) densities have
ratio `≤ e^ε`; the part of the support of `M(x)` outside the support of `M(x')` lies within `Δ` of one end of the
support, and that end piece has mass exactly `δ` (`bounded_noise_tail_mass`).
-/
import DPL.Proofs.ContinuousTruncLaw

namespace DPL.Cont
open MeasureTheory Real Set ENNReal

/-- assembly: a ratio bound plus a bound on the mass outside the other support gives the `(c, d)` inequality for the
restricted, rescaled measures -/
theorem dp_of_overlap_ratio {μ ν : Measure ℝ} (I I' : Set ℝ) (hI : MeasurableSet I) (hI' : MeasurableSet I')
    (κ c d : ENNReal) (hratio : ∀ T, MeasurableSet T → μ T ≤ c * ν T) (hrest : κ * μ (I \ I') ≤ d)
    (S : Set ℝ) (hS : MeasurableSet S) :
    (κ • μ.restrict I) S ≤ c * (κ • ν.restrict I') S + d := by
  simp only [Measure.smul_apply, smul_eq_mul, Measure.restrict_apply hS]
  have hsub : S ∩ I ⊆ (S ∩ I ∩ I') ∪ (I \ I') := by
    intro y hy
    by_cases h : y ∈ I'
    · exact Or.inl ⟨hy, h⟩
    · exact Or.inr ⟨hy.2, h⟩
  have hsub' : S ∩ I ∩ I' ⊆ S ∩ I' := fun y hy => ⟨hy.1.1, hy.2⟩
  calc κ * μ (S ∩ I) ≤ κ * (μ (S ∩ I ∩ I') + μ (I \ I')) := by
        gcongr
        exact (measure_mono hsub).trans (measure_union_le _ _)
    _ = κ * μ (S ∩ I ∩ I') + κ * μ (I \ I') := mul_add _ _ _
    _ ≤ κ * (c * ν (S ∩ I ∩ I')) + d := by
        gcongr
        exact hratio _ ((hS.inter hI).inter hI')
    _ ≤ κ * (c * ν (S ∩ I')) + d := by
        gcongr
    _ = c * (κ * ν (S ∩ I')) + d := by rw [mul_left_comm]

/-- mass of an interval to the left of the centre -/
theorem lapMeasure_Icc_left (b v a c : ℝ) (hb : 0 < b) (hac : a ≤ c) (hcv : c ≤ v) :
    lapMeasure b v (Icc a c) = ENNReal.ofReal (Real.exp ((c - v) / b) / 2 - Real.exp ((a - v) / b) / 2) := by
  have h := intervalIntegral_lapDensity_left (fun _ => 1) b v a c hac hcv
  simp only [one_mul] at h
  rw [lapMeasure_eq_ofReal b v hb _ measurableSet_Icc, integral_Icc_eq_integral_Ioc,
    ← intervalIntegral.integral_of_le hac, h, integral_up0 b v a c hb.ne']

/-- mass of an interval to the right of the centre -/
theorem lapMeasure_Icc_right (b v a c : ℝ) (hb : 0 < b) (hac : a ≤ c) (hva : v ≤ a) :
    lapMeasure b v (Icc a c) = ENNReal.ofReal (Real.exp ((v - a) / b) / 2 - Real.exp ((v - c) / b) / 2) := by
  have h := intervalIntegral_lapDensity_right (fun _ => 1) b v a c hac hva
  simp only [one_mul] at h
  rw [lapMeasure_eq_ofReal b v hb _ measurableSet_Icc, integral_Icc_eq_integral_Ioc,
    ← intervalIntegral.integral_of_le hac, h, integral_down0 b v a c hb.ne']

/-- for `δ ≤ 1/2` the coded noise bound is at least the sensitivity (so the end piece of width `Δ` does not reach the
centre of the density) -/
theorem sens_le_boundedNoiseBound (eps delta sens : ℝ) (he : 0 < eps) (hd : 0 < delta) (hd2 : delta ≤ 1 / 2)
    (hs : 0 < sens) : sens ≤ boundedNoiseBound eps delta sens := by
  rw [boundedNoiseBound_real _ _ _ (by positivity)]
  have hE : 0 < Real.exp eps - 1 := by
    have := Real.add_one_lt_exp (ne_of_gt he); linarith
  have hlog : eps ≤ Real.log (1 + (Real.exp eps - 1) / 2 / delta) := by
    rw [Real.le_log_iff_exp_le (by positivity)]
    have : Real.exp eps - 1 ≤ (Real.exp eps - 1) / 2 / delta := by
      rw [le_div_iff₀ hd]; nlinarith
    linarith
  calc sens = sens / eps * eps := by field_simp
    _ ≤ sens / eps * Real.log (1 + (Real.exp eps - 1) / 2 / delta) :=
        mul_le_mul_of_nonneg_left hlog (by positivity)

/-- the normalised mass of an end piece of width `Δ` of the support is `δ` -/
theorem bounded_noise_end_piece (eps delta sens b A : ℝ) (he : 0 < eps) (hd : 0 < delta) (hs : 0 < sens)
    (hbdef : b = sens / eps) (hAdef : A = boundedNoiseBound eps delta sens) :
    ENNReal.ofReal (1 / (1 - Real.exp (-A / b))) *
        ENNReal.ofReal (Real.exp ((-A + sens) / b) / 2 - Real.exp (-A / b) / 2) = ENNReal.ofReal delta := by
  have hq : Real.exp (-A / b) = 2 * delta / (2 * delta + Real.exp eps - 1) := by
    rw [hbdef, hAdef]; exact exp_neg_bound_div_scale eps delta sens he hd hs
  have hE : 0 < Real.exp eps - 1 := by
    have := Real.add_one_lt_exp (ne_of_gt he); linarith
  have hq1 : Real.exp (-A / b) < 1 := by
    rw [hq, div_lt_one (by linarith)]; linarith
  have hmass : Real.exp (-A / b) * (Real.exp (sens / b) - 1) / (2 * (1 - Real.exp (-A / b))) = delta := by
    rw [hbdef, hAdef]; exact bounded_noise_tail_mass eps delta sens he hd hs
  have hsplit : Real.exp ((-A + sens) / b) = Real.exp (-A / b) * Real.exp (sens / b) := by
    rw [← Real.exp_add]; congr 1; ring
  rw [← ENNReal.ofReal_mul (by apply div_nonneg zero_le_one; linarith)]
  congr 1
  rw [← hmass, hsplit]
  have : 1 - Real.exp (-A / b) ≠ 0 := by linarith
  field_simp

/-- the statement for explicit `b`, `A` -/
theorem bounded_noise_dp_aux (eps delta sens x x' b A : ℝ) (he : 0 < eps) (hd : 0 < delta) (hd2 : delta ≤ 1 / 2)
    (hs : 0 < sens) (hx : |x - x'| ≤ sens) (hbdef : b = sens / eps) (hAdef : A = boundedNoiseBound eps delta sens)
    (S : Set ℝ) (hS : MeasurableSet S) :
    ((ENNReal.ofReal (1 / (1 - Real.exp (-A / b)))) • ((lapMeasure b x).restrict (Set.Icc (x - A) (x + A)))) S ≤
      ENNReal.ofReal (Real.exp eps) *
        ((ENNReal.ofReal (1 / (1 - Real.exp (-A / b)))) • ((lapMeasure b x').restrict (Set.Icc (x' - A) (x' + A)))) S
      + ENNReal.ofReal delta := by
  have hb : 0 < b := by rw [hbdef]; positivity
  have hA : sens ≤ A := by rw [hAdef]; exact sens_le_boundedNoiseBound eps delta sens he hd hd2 hs
  have hsb : sens / b = eps := by
    rw [hbdef]; field_simp
  obtain ⟨hx1, hx2⟩ := abs_le.mp hx
  refine dp_of_overlap_ratio _ _ measurableSet_Icc measurableSet_Icc _ _ _ ?_ ?_ S hS
  · intro T hT
    have := lapMeasure_ratio b x x' sens hb hx T hT
    rwa [hsb] at this
  · rw [← bounded_noise_end_piece eps delta sens b A he hd hs hbdef hAdef]
    gcongr
    rcases le_total x x' with hxx | hxx
    · -- the part of `[x-A, x+A]` outside `[x'-A, x'+A]` is at the left end
      have hsub : Icc (x - A) (x + A) \ Icc (x' - A) (x' + A) ⊆ Icc (x - A) (x - A + sens) := by
        intro y ⟨⟨h1, h2⟩, h3⟩
        refine ⟨h1, ?_⟩
        by_contra hc
        exact h3 ⟨by linarith [not_le.mp hc], by linarith⟩
      refine (measure_mono hsub).trans (le_of_eq ?_)
      rw [lapMeasure_Icc_left b x (x - A) (x - A + sens) hb (by linarith) (by linarith)]
      congr 4 <;> ring
    · -- … at the right end
      have hsub : Icc (x - A) (x + A) \ Icc (x' - A) (x' + A) ⊆ Icc (x + A - sens) (x + A) := by
        intro y ⟨⟨h1, h2⟩, h3⟩
        refine ⟨?_, h2⟩
        by_contra hc
        exact h3 ⟨by linarith, by linarith [not_le.mp hc]⟩
      refine (measure_mono hsub).trans (le_of_eq ?_)
      rw [lapMeasure_Icc_right b x (x + A - sens) (x + A) hb (by linarith) (by linarith)]
      congr 4 <;> ring

/-- **bounded-noise Laplace, (ε, δ)-DP end to end** -/
theorem bounded_noise_dp_measure (eps delta sens x x' : ℝ) (he : 0 < eps) (hd : 0 < delta) (hd2 : delta ≤ 1 / 2)
    (hs : 0 < sens) (hx : |x - x'| ≤ sens) (S : Set ℝ) (hS : MeasurableSet S) :
    let b := sens / eps
    let A := boundedNoiseBound eps delta sens
    let law := fun c : ℝ => (ENNReal.ofReal (1 / (1 - Real.exp (-A / b)))) •
      ((lapMeasure b c).restrict (Set.Icc (c - A) (c + A)))
    law x S ≤ ENNReal.ofReal (Real.exp eps) * law x' S + ENNReal.ofReal delta :=
  bounded_noise_dp_aux eps delta sens x x' _ _ he hd hd2 hs hx rfl rfl S hS

theorem boundedNoiseBound_pos (eps delta sens : ℝ) (he : 0 < eps) (hd : 0 < delta) (hs : 0 < sens) :
    0 < boundedNoiseBound eps delta sens := by
  rw [boundedNoiseBound_real _ _ _ (by positivity)]
  have hE : 0 < Real.exp eps - 1 := by
    have := Real.add_one_lt_exp (ne_of_gt he); linarith
  have : 0 < Real.log (1 + (Real.exp eps - 1) / 2 / delta) := Real.log_pos (by
    have : 0 < (Real.exp eps - 1) / 2 / delta := by positivity
    linarith)
  positivity

/-- the renormalised restriction is a probability law (the normaliser `1 - e^{-A/b}` is the mass of `[c-A, c+A]`) -/
theorem bounded_noise_law_univ (eps delta sens c : ℝ) (he : 0 < eps) (hd : 0 < delta) (hs : 0 < sens) :
    let b := sens / eps
    let A := boundedNoiseBound eps delta sens
    ((ENNReal.ofReal (1 / (1 - Real.exp (-A / b)))) •
      ((lapMeasure b c).restrict (Set.Icc (c - A) (c + A)))) Set.univ = 1 := by
  intro b A
  have hb : 0 < b := by positivity
  have hA : 0 < A := boundedNoiseBound_pos eps delta sens he hd hs
  have hq1 : Real.exp (-A / b) < 1 := by
    rw [← Real.exp_zero]; apply Real.exp_lt_exp.mpr
    exact div_neg_of_neg_of_pos (by linarith) hb
  rw [Measure.smul_apply, Measure.restrict_apply MeasurableSet.univ, Set.univ_inter, smul_eq_mul,
    lapMeasure_Icc b (c - A) (c + A) c hb (by linarith) (by linarith),
    ← ENNReal.ofReal_mul (by apply div_nonneg zero_le_one; linarith)]
  have e1 : (c - A - c) / b = -A / b := by ring
  have e2 : (c - (c + A)) / b = -A / b := by ring
  rw [e1, e2]
  generalize Real.exp (-A / b) = q at *
  have hq : 1 - q ≠ 0 := by linarith
  have h1 : 1 / (1 - q) * (1 - q / 2 - q / 2) = 1 := by
    field_simp; ring
  rw [h1, ENNReal.ofReal_one]

end DPL.Cont
