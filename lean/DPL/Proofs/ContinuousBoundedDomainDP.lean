/-
Bounded-domain Laplace (C02), from the density ratio to every output set: if the scale `b` satisfies the model's
`_f(b) ≤ b`, the conditioned Laplace laws `bdLaw b lo hi x` (ContinuousTruncLaw) of two inputs of the domain at most
`sens` apart satisfy  `P[M(x) ∈ S] ≤ e^ε P[M(x') ∈ S] + δ`.
-/
import DPL.Proofs.ContinuousBoundedDomain
import DPL.Proofs.ContinuousTruncLaw

namespace DPL.Cont
open MeasureTheory Real Set ENNReal

/-- the mass of the domain under the Laplace law is the normaliser `C(x) = bdNorm b (hi-lo) (x-lo)` -/
theorem lapMeasure_Icc_bdNorm (b lo hi x : ℝ) (hb : 0 < b) (hx1 : lo ≤ x) (hx2 : x ≤ hi) :
    lapMeasure b x (Icc lo hi) = ENNReal.ofReal (bdNorm b (hi - lo) (x - lo)) := by
  rw [lapMeasure_Icc b lo hi x hb hx1 hx2]
  congr 1
  unfold bdNorm
  have e1 : (lo - x) / b = -(x - lo) / b := by ring
  have e2 : (x - hi) / b = -(hi - lo - (x - lo)) / b := by ring
  rw [e1, e2]
  ring

/-- ratio of the conditioned laws on every measurable set -/
theorem bdLaw_ratio (eps delta sens lo hi b x x' : ℝ) (hb : 0 < b) (hd : delta < 1)
    (hs : 0 < sens) (hlohi : lo < hi) (hx1 : lo ≤ x) (hx2 : x ≤ hi) (hx'1 : lo ≤ x') (hx'2 : x' ≤ hi)
    (hxx : |x - x'| ≤ sens)
    (hden : 0 < eps - Real.log (bdDeltaC (pyMin2 sens (hi - lo)) (hi - lo) b) - Real.log (1 - delta))
    (hfix : bdF eps delta (pyMin2 sens (hi - lo)) (hi - lo) b ≤ b) (S : Set ℝ) (hS : MeasurableSet S) :
    bdLaw b lo hi x S ≤ ENNReal.ofReal (Real.exp eps / (1 - delta)) * bdLaw b lo hi x' S := by
  have hD : 0 < hi - lo := by linarith
  have hC : 0 < bdNorm b (hi - lo) (x - lo) := bdNorm_pos b _ _ hb hD (by linarith) (by linarith)
  have hC' : 0 < bdNorm b (hi - lo) (x' - lo) := bdNorm_pos b _ _ hb hD (by linarith) (by linarith)
  have hK : 0 < Real.exp eps / (1 - delta) := by
    have : 0 < 1 - delta := by linarith
    positivity
  -- pointwise
  have hpt : ∀ y, lapDensity b x y ≤
      Real.exp eps / (1 - delta) * bdNorm b (hi - lo) (x - lo) / bdNorm b (hi - lo) (x' - lo) * lapDensity b x' y := by
    intro y
    have h := bounded_domain_density_ratio eps delta sens lo hi b x x' y hb hd hs hlohi hx1 hx2 hx'1 hx'2 hxx hden hfix
    have eC : ∀ c : ℝ, 1 - (Real.exp (-(c - lo) / b) + Real.exp (-(hi - c) / b)) / 2 = bdNorm b (hi - lo) (c - lo) := by
      intro c
      unfold bdNorm
      have : hi - lo - (c - lo) = hi - c := by ring
      rw [this]
    rw [eC x, eC x'] at h
    unfold lapDensity
    rw [div_le_iff₀ (by positivity)] at h
    rw [div_le_iff₀ (by positivity)]
    calc Real.exp (-|y - x| / b)
        ≤ Real.exp eps / (1 - delta) * (Real.exp (-|y - x'| / b) / (2 * b * bdNorm b (hi - lo) (x' - lo))) *
            (2 * b * bdNorm b (hi - lo) (x - lo)) := h
      _ = _ := by field_simp
  -- on sets
  have hset : ∀ T, MeasurableSet T → lapMeasure b x T ≤
      ENNReal.ofReal (Real.exp eps / (1 - delta) * bdNorm b (hi - lo) (x - lo) / bdNorm b (hi - lo) (x' - lo)) *
        lapMeasure b x' T := by
    intro T hT
    rw [lapMeasure_apply _ _ _ hT, lapMeasure_apply _ _ _ hT]
    apply set_bound_of_pointwise _ _ _ ENNReal.ofReal_ne_top
    intro y
    rw [← ENNReal.ofReal_mul (by positivity)]
    exact ENNReal.ofReal_le_ofReal (hpt y)
  unfold bdLaw
  simp only [Measure.smul_apply, smul_eq_mul, Measure.restrict_apply hS]
  rw [lapMeasure_Icc_bdNorm b lo hi x hb hx1 hx2, lapMeasure_Icc_bdNorm b lo hi x' hb hx'1 hx'2]
  have hsplit : ENNReal.ofReal (Real.exp eps / (1 - delta) * bdNorm b (hi - lo) (x - lo) / bdNorm b (hi - lo) (x' - lo))
      = ENNReal.ofReal (Real.exp eps / (1 - delta)) * ENNReal.ofReal (bdNorm b (hi - lo) (x - lo)) *
        (ENNReal.ofReal (bdNorm b (hi - lo) (x' - lo)))⁻¹ := by
    rw [ENNReal.ofReal_div_of_pos hC', ENNReal.ofReal_mul hK.le, div_eq_mul_inv]
  have hne : ENNReal.ofReal (bdNorm b (hi - lo) (x - lo)) ≠ 0 := by
    rw [ne_eq, ENNReal.ofReal_eq_zero, not_le]; exact hC
  calc (ENNReal.ofReal (bdNorm b (hi - lo) (x - lo)))⁻¹ * lapMeasure b x (S ∩ Icc lo hi)
      ≤ (ENNReal.ofReal (bdNorm b (hi - lo) (x - lo)))⁻¹ *
          (ENNReal.ofReal (Real.exp eps / (1 - delta) * bdNorm b (hi - lo) (x - lo) / bdNorm b (hi - lo) (x' - lo)) *
            lapMeasure b x' (S ∩ Icc lo hi)) := by
        gcongr
        exact hset _ (hS.inter measurableSet_Icc)
    _ = ((ENNReal.ofReal (bdNorm b (hi - lo) (x - lo)))⁻¹ * ENNReal.ofReal (bdNorm b (hi - lo) (x - lo))) *
          (ENNReal.ofReal (Real.exp eps / (1 - delta)) *
            ((ENNReal.ofReal (bdNorm b (hi - lo) (x' - lo)))⁻¹ * lapMeasure b x' (S ∩ Icc lo hi))) := by
        rw [hsplit]; ring
    _ = ENNReal.ofReal (Real.exp eps / (1 - delta)) *
          ((ENNReal.ofReal (bdNorm b (hi - lo) (x' - lo)))⁻¹ * lapMeasure b x' (S ∩ Icc lo hi)) := by
        rw [ENNReal.inv_mul_cancel hne ENNReal.ofReal_ne_top, one_mul]

/-- **bounded-domain Laplace, (ε, δ)-DP for every scale on the private side of the fixed point** -/
theorem bdLaw_dp (eps delta sens lo hi b x x' : ℝ) (hb : 0 < b) (hd0 : 0 ≤ delta) (hd : delta < 1)
    (hs : 0 < sens) (hlohi : lo < hi) (hx1 : lo ≤ x) (hx2 : x ≤ hi) (hx'1 : lo ≤ x') (hx'2 : x' ≤ hi)
    (hxx : |x - x'| ≤ sens)
    (hden : 0 < eps - Real.log (bdDeltaC (pyMin2 sens (hi - lo)) (hi - lo) b) - Real.log (1 - delta))
    (hfix : bdF eps delta (pyMin2 sens (hi - lo)) (hi - lo) b ≤ b) (S : Set ℝ) (hS : MeasurableSet S) :
    bdLaw b lo hi x S ≤ ENNReal.ofReal (Real.exp eps) * bdLaw b lo hi x' S + ENNReal.ofReal delta := by
  apply approx_of_scaled_ennreal _ _ _ _ _ hd0 hd
    (bdLaw_ratio eps delta sens lo hi b x x' hb hd hs hlohi hx1 hx2 hx'1 hx'2 hxx hden hfix S hS)
  rw [← bdLaw_univ b lo hi x hb hlohi hx1 hx2]
  exact measure_mono (Set.subset_univ S)

end DPL.Cont
