/-
The statistics tools' plans (`DPL/Model/PlanTools.lean`) contain no probe (C06).
-/
import DPL.Model.PlanTools
import DPL.Proofs.Plan

namespace DPL
namespace Tools
open DPL
variable {δ δ' α β ρ σ : Type}

theorem probeFree_single (c : MechCall α) (inp : δ → α) : (single c inp).probeFree := fun _ => trivial

theorem probeFree_comap (f : δ' → δ) (p : Plan δ α ρ) (h : p.probeFree) : (comap f p).probeFree := by
  induction p with
  | release r => trivial
  | call c inp k ih => exact fun o => ih o (h o)
  | probe occ k ih => exact absurd h (by simp [Plan.probeFree])

theorem probeFree_calls (cs : List (MechCall α × (δ → α))) : (calls cs).probeFree :=
  Plan.probeFree_seq _ (by
    intro p hp
    simp only [List.mem_map] at hp
    obtain ⟨ci, _, rfl⟩ := hp
    exact probeFree_single _ _)

section
variable [OfNat α 0] [OfNat α 1] [OfNat α 2] [OfNat α 4] [Add α] [Sub α] [Mul α] [Div α] [Neg α]
  [LT α] [LE α] [DecidableLT α] [DecidableLE α] [NatCast α] [IntCast α] [Transc α]

theorem meanPlan_probeFree (n : Nat) (ε l u : α) : (meanPlan n ε l u).probeFree := probeFree_single _ _
theorem nanmeanPlan_probeFree (n : Nat) (ε l u : α) : (nanmeanPlan n ε l u).probeFree := probeFree_single _ _
theorem varPlan_probeFree (n : Nat) (ε l u : α) : (varPlan n ε l u).probeFree := probeFree_single _ _
theorem nanvarPlan_probeFree (n : Nat) (ε l u : α) : (nanvarPlan n ε l u).probeFree := probeFree_single _ _
theorem stdPlan_probeFree (n : Nat) (ε l u : α) : (stdPlan n ε l u).probeFree :=
  Plan.probeFree_map _ _ (varPlan_probeFree n ε l u)
theorem nanstdPlan_probeFree (n : Nat) (ε l u : α) : (nanstdPlan n ε l u).probeFree :=
  Plan.probeFree_map _ _ (nanvarPlan_probeFree n ε l u)
theorem sumPlan_probeFree (n : Nat) (ε l u : α) : (sumPlan n ε l u).probeFree := probeFree_single _ _
theorem nansumPlan_probeFree (n : Nat) (ε l u : α) : (nansumPlan n ε l u).probeFree := probeFree_single _ _
theorem intSumPlan_probeFree (n : Nat) (ε l u li ui : α) : (intSumPlan n ε l u li ui).probeFree := probeFree_single _ _
theorem countNonzeroPlan_probeFree (n : Nat) (ε : α) : (countNonzeroPlan n ε).probeFree := probeFree_single _ _

/-- `_wrap_axis`: every cell's sub-plan is probe-free ⇒ the multi-cell query is -/
theorem wrapAxis_probeFree (dflt : β) (size : Nat) (ε : α) (bounds : Nat → α × α)
    (cell : (ε l u : α) → Plan (List β) α ρ) (h : ∀ e l u, (cell e l u).probeFree) :
    (wrapAxis dflt size ε bounds cell).probeFree :=
  Plan.probeFree_seq _ (by
    intro p hp
    simp only [List.mem_map] at hp
    obtain ⟨c, _, rfl⟩ := hp
    exact probeFree_comap _ _ (h _ _ _))

theorem histogramPlan_probeFree (edges : List α) (weighted density : Bool) (ε maxsize : α) :
    (histogramPlan edges weighted density ε maxsize).probeFree :=
  Plan.probeFree_map _ _ (probeFree_calls _)

theorem histogramddPlan_probeFree (edges : List (List α)) (weighted density : Bool) (ε maxsize : α) :
    (histogramddPlan edges weighted density ε maxsize).probeFree :=
  Plan.probeFree_map _ _ (probeFree_calls _)

end
end Tools
end DPL
