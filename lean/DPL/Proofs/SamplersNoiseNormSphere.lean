/-
Helper lemmas for C17 §6: the normalised surface measure of the unit sphere (Mathlib's `Measure.toSphere` of Lebesgue
measure, normalised, pushed to the ambient space) is a probability measure, carried by the sphere, and invariant under
every linear isometry.  With the (unproved, not in Mathlib) uniqueness of such a measure this is the law of the
direction of a standard Gaussian vector.
-/
import DPL.Proofs.SamplersNoiseNormDir
import Mathlib.MeasureTheory.Measure.Haar.InnerProductSpace

namespace DPL.Smp
open MeasureTheory ProbabilityTheory Metric Set
open scoped Pointwise ENNReal

section
variable {E : Type*} [NormedAddCommGroup E] [InnerProductSpace ℝ E] [FiniteDimensional ℝ E]
  [MeasurableSpace E] [BorelSpace E]

variable (E) in
/-- the uniform law on the unit sphere, as a measure on the ambient space -/
noncomputable def sphereUniform : Measure E :=
  (((volume : Measure E).toSphere univ)⁻¹ • (volume : Measure E).toSphere).map Subtype.val

theorem sphereUniform_apply {s : Set E} (hs : MeasurableSet s) :
    sphereUniform E s = ((volume : Measure E).toSphere univ)⁻¹
      * (Module.finrank ℝ E * volume (Ioo (0 : ℝ) 1 • (sphere (0 : E) 1 ∩ s))) := by
  unfold sphereUniform
  rw [Measure.map_apply measurable_subtype_coe hs, Measure.smul_apply, smul_eq_mul,
    Measure.toSphere_apply' _ (measurable_subtype_coe hs), Subtype.image_preimage_coe]

theorem sphereUniform_sphere : sphereUniform E (sphere (0 : E) 1)ᶜ = 0 := by
  unfold sphereUniform
  rw [Measure.map_apply measurable_subtype_coe isClosed_sphere.measurableSet.compl]
  have : (Subtype.val : sphere (0 : E) 1 → E) ⁻¹' (sphere (0 : E) 1)ᶜ = ∅ := by
    ext x; simp
  rw [this, measure_empty]

theorem isProbabilityMeasure_sphereUniform [Nontrivial E] : IsProbabilityMeasure (sphereUniform E) := by
  constructor
  unfold sphereUniform
  rw [Measure.map_apply measurable_subtype_coe MeasurableSet.univ, preimage_univ, Measure.smul_apply, smul_eq_mul]
  apply ENNReal.inv_mul_cancel
  · rw [Ne, Measure.measure_univ_eq_zero]; exact Measure.toSphere_ne_zero _
  · exact measure_ne_top _ _

/-- a linear isometry maps the cone over a subset of the sphere to the cone over its image -/
theorem cone_preimage (f : E ≃ₗᵢ[ℝ] E) (s : Set E) :
    Ioo (0 : ℝ) 1 • (sphere (0 : E) 1 ∩ f ⁻¹' s) = f ⁻¹' (Ioo (0 : ℝ) 1 • (sphere (0 : E) 1 ∩ s)) := by
  ext x
  simp only [mem_smul, mem_preimage, mem_inter_iff, mem_sphere_iff_norm, sub_zero]
  constructor
  · rintro ⟨r, hr, y, ⟨hy1, hy2⟩, rfl⟩
    exact ⟨r, hr, f y, ⟨by rw [f.norm_map]; exact hy1, hy2⟩, by rw [map_smul]⟩
  · rintro ⟨r, hr, z, ⟨hz1, hz2⟩, hz⟩
    refine ⟨r, hr, f.symm z, ⟨by rw [f.symm.norm_map]; exact hz1, by simpa using hz2⟩, ?_⟩
    apply f.injective
    rw [map_smul, f.apply_symm_apply, hz]

/-- **the surface measure is rotation invariant** -/
theorem sphereUniform_map (f : E ≃ₗᵢ[ℝ] E) : (sphereUniform E).map f = sphereUniform E := by
  have hf : Measurable f := f.continuous.measurable
  ext s hs
  rw [Measure.map_apply hf hs, sphereUniform_apply (hf hs), sphereUniform_apply hs, cone_preimage]
  congr 2
  exact f.measurePreserving.measure_preimage_emb f.toHomeomorph.measurableEmbedding _

end
end DPL.Smp
