/-
The law of the 4-uniform Laplace sampler `Laplace._laplace_sampler` (Holohan–Braghin):
for `U₁..U₄` i.i.d. uniform on [0,1), `log(1−U₁)cos(πU₂) + log(1−U₃)cos(πU₄)` is standard Laplace.

Route: the characteristic function of one term `log(1−U)cos(πV)` is `1/√(1+t²)` (Fubini and the two integrals of
`SamplersLap4Integrals`), the two terms are independent, so the sum has characteristic function `1/(1+t²)`, which is
the characteristic function of C02's `lapMeasure 1 0` (`SamplersLaplaceCharFun`); measures on ℝ with equal
characteristic functions are equal (`Measure.ext_of_charFun`).
-/
import DPL.Proofs.SamplersLaws
import DPL.Proofs.SamplersLap4Integrals
import DPL.Proofs.SamplersLaplaceCharFun
import Mathlib.MeasureTheory.Group.Convolution
import Mathlib.MeasureTheory.Integral.Prod
import Mathlib.Probability.Distributions.Exponential
import Mathlib.Probability.CDF

namespace DPL.Smp
open MeasureTheory Set Real DPL.Cont ProbabilityTheory

/-- the law of one `random()` draw: Lebesgue measure on [0,1) -/
noncomputable def unif01 : Measure ℝ := volume.restrict (Ico 0 1)

instance : IsProbabilityMeasure unif01 :=
  ⟨by simp [unif01]⟩

/-! ### (a) `−log(1−U) ~ Exp(1)` as a push-forward -/

theorem measurable_neglog : Measurable (fun u : ℝ => -Real.log (1 - u)) :=
  (Real.measurable_log.comp (measurable_const.sub measurable_id)).neg

theorem neglog_map : unif01.map (fun u : ℝ => -Real.log (1 - u)) = expMeasure 1 := by
  have := isProbabilityMeasure_expMeasure (r := 1) one_pos
  have : IsProbabilityMeasure (unif01.map (fun u : ℝ => -Real.log (1 - u))) :=
    Measure.isProbabilityMeasure_map measurable_neglog.aemeasurable
  refine Measure.ext_of_Iic _ _ (fun t => ?_)
  rw [Measure.map_apply measurable_neglog measurableSet_Iic, unif01,
    Measure.restrict_apply (measurable_neglog measurableSet_Iic), ← ofReal_cdf, cdf_expMeasure_eq one_pos]
  have hset : (fun u : ℝ => -Real.log (1 - u)) ⁻¹' Iic t ∩ Ico 0 1
      = {u : ℝ | u ∈ Ico (0 : ℝ) 1 ∧ -Real.log (1 - u) ≤ t} := by
    ext u; simp only [mem_inter_iff, mem_preimage, mem_Iic, mem_ofPred_eq]; tauto
  rw [hset, neglog_preimage, Real.volume_Icc, sub_zero]
  split_ifs with h
  · simp
  · have : Real.exp (-t) > 1 := by
      rw [gt_iff_lt, Real.one_lt_exp_iff]; linarith
    rw [ENNReal.ofReal_zero, ENNReal.ofReal_eq_zero]; linarith

/-! ### (d) one term -/

/-- one term of the sampler: `log(1−u)·cos(πv)` -/
noncomputable def lapTerm (p : ℝ × ℝ) : ℝ := Real.log (1 - p.1) * Real.cos (π * p.2)

theorem measurable_lapTerm : Measurable lapTerm := by
  unfold lapTerm
  exact (Real.measurable_log.comp (measurable_const.sub measurable_fst)).mul
    (Real.measurable_cos.comp (measurable_const.mul measurable_snd))

theorem integral_unif01 (f : ℝ → ℂ) : ∫ u, f u ∂unif01 = ∫ u in (0:ℝ)..1, f u := by
  rw [unif01, integral_Ico_eq_integral_Ioc, ← intervalIntegral.integral_of_le zero_le_one]

/-- the characteristic function of `log(1−U)cos(πV)` is `1/√(1+t²)` -/
theorem charFun_lapTerm (t : ℝ) :
    charFun ((unif01.prod unif01).map lapTerm) t = ((1 / Real.sqrt (1 + t ^ 2) : ℝ) : ℂ) := by
  rw [charFun_apply_real, integral_map measurable_lapTerm.aemeasurable (by fun_prop)]
  have hmeas : Measurable (fun p : ℝ × ℝ => Complex.exp ((t : ℂ) * (lapTerm p : ℂ) * Complex.I)) := by
    have := measurable_lapTerm
    fun_prop
  have hint : Integrable (fun p : ℝ × ℝ => Complex.exp ((t : ℂ) * (lapTerm p : ℂ) * Complex.I))
      (unif01.prod unif01) := by
    refine (integrable_const (1 : ℝ)).mono' hmeas.aestronglyMeasurable (Filter.Eventually.of_forall fun p => ?_)
    have : (t : ℂ) * (lapTerm p : ℂ) * Complex.I = ((t * lapTerm p : ℝ) : ℂ) * Complex.I := by push_cast; ring
    rw [this, Complex.norm_exp_ofReal_mul_I]
  rw [integral_prod_symm _ hint]
  have hinner : ∀ v : ℝ, ∫ u, Complex.exp ((t : ℂ) * (lapTerm (u, v) : ℂ) * Complex.I) ∂unif01
      = (1 : ℂ) / (1 + ((t * Real.cos (π * v) : ℝ) : ℂ) * Complex.I) := by
    intro v
    rw [integral_unif01, ← integral_exp_I_log (t * Real.cos (π * v))]
    congr 1
    funext u
    simp only [lapTerm]
    congr 1
    push_cast; ring
  simp_rw [hinner]
  rw [integral_unif01, integral_inv_one_add_I_cos]

/-! ### (f) the sum of two independent terms -/

/-- the model's sampler over ℝ -/
theorem lap4_real (u1 u2 u3 u4 : ℝ) : lap4 u1 u2 u3 u4 = lapTerm (u1, u2) + lapTerm (u3, u4) := by
  simp [lap4, lapTerm]

/-- four independent `random()` draws, in the order drawn -/
noncomputable def unif01x4 : Measure (ℝ × ℝ × ℝ × ℝ) := unif01.prod (unif01.prod (unif01.prod unif01))

instance : IsProbabilityMeasure unif01x4 := by unfold unif01x4; infer_instance

theorem measurable_lap4 : Measurable (fun u : ℝ × ℝ × ℝ × ℝ => lap4 u.1 u.2.1 u.2.2.1 u.2.2.2) := by
  simp only [lap4_real]
  exact (measurable_lapTerm.comp (measurable_fst.prodMk measurable_snd.fst)).add
    (measurable_lapTerm.comp (measurable_snd.snd.fst.prodMk measurable_snd.snd.snd))

/-- the law of the sampler is the convolution of the laws of the two terms -/
theorem lap4_map_eq_conv :
    unif01x4.map (fun u : ℝ × ℝ × ℝ × ℝ => lap4 u.1 u.2.1 u.2.2.1 u.2.2.2)
      = ((unif01.prod unif01).map lapTerm) ∗ ((unif01.prod unif01).map lapTerm) := by
  have hassoc : unif01x4 = ((unif01.prod unif01).prod (unif01.prod unif01)).map MeasurableEquiv.prodAssoc := by
    unfold unif01x4; rw [Measure.prodAssoc_prod]
  have hadd : Measurable (fun x : ℝ × ℝ => x.1 + x.2) := measurable_fst.add measurable_snd
  have hpm : Measurable (Prod.map lapTerm lapTerm) := measurable_lapTerm.prodMap measurable_lapTerm
  rw [Measure.conv, Measure.map_prod_map _ _ measurable_lapTerm measurable_lapTerm,
    Measure.map_map hadd hpm, hassoc, Measure.map_map measurable_lap4 MeasurableEquiv.prodAssoc.measurable]
  congr 1

/-- **Holohan–Braghin**: the 4-uniform sampler has the standard Laplace law -/
theorem lap4_map :
    unif01x4.map (fun u : ℝ × ℝ × ℝ × ℝ => lap4 u.1 u.2.1 u.2.2.1 u.2.2.2) = lapMeasure 1 0 := by
  have : Fact ((0:ℝ) < 1) := ⟨one_pos⟩
  have : IsProbabilityMeasure ((unif01.prod unif01).map lapTerm) :=
    Measure.isProbabilityMeasure_map measurable_lapTerm.aemeasurable
  rw [lap4_map_eq_conv]
  refine Measure.ext_of_charFun ?_
  funext t
  rw [charFun_conv, charFun_lapTerm, charFun_lapMeasure 1 0 t one_pos]
  have hs : Real.sqrt (1 + t ^ 2) * Real.sqrt (1 + t ^ 2) = 1 + t ^ 2 := Real.mul_self_sqrt (by positivity)
  have hne : Real.sqrt (1 + t ^ 2) ≠ 0 := (Real.sqrt_pos.mpr (by positivity)).ne'
  rw [← Complex.ofReal_mul, div_mul_div_comm, hs]
  push_cast
  simp

/-! ### the whole mechanism: `value − scale·lap4` has the Laplace law with that scale and centre -/

theorem lapMeasure_affine' (c x : ℝ) (hc : c ≠ 0) :
    (lapMeasure 1 0).map (fun l : ℝ => x + c * l) = lapMeasure |c| x := by
  have hs : 0 < |c| := abs_pos.mpr hc
  have : Fact ((0:ℝ) < 1) := ⟨one_pos⟩
  have : Fact ((0:ℝ) < |c|) := ⟨hs⟩
  have : IsProbabilityMeasure (lapMeasure 1 0) := lapMeasure_prob 1 0 one_pos
  have hm : Measurable (fun l : ℝ => x + c * l) := measurable_const.add (measurable_const.mul measurable_id)
  have : IsProbabilityMeasure ((lapMeasure 1 0).map (fun l : ℝ => x + c * l)) :=
    Measure.isProbabilityMeasure_map hm.aemeasurable
  refine Measure.ext_of_charFun ?_
  funext t
  have hcomp : (fun l : ℝ => x + c * l) = (fun y : ℝ => x + y) ∘ (fun l : ℝ => c * l) := rfl
  have hm1 : Measurable (fun y : ℝ => x + y) := measurable_const.add measurable_id
  have hm2 : Measurable (fun l : ℝ => c * l) := measurable_const.mul measurable_id
  rw [hcomp, ← Measure.map_map hm1 hm2,
    charFun_map_const_add, charFun_map_mul, charFun_lapMeasure 1 0 _ one_pos, charFun_lapMeasure |c| x t hs]
  have hin : inner ℝ x t = t * x := by simp [mul_comm]
  have habs : ((|c| : ℝ) : ℂ) ^ 2 = (c : ℂ) ^ 2 := by
    rw [← Complex.ofReal_pow, sq_abs, Complex.ofReal_pow]
  rw [hin, habs]
  push_cast
  simp only [mul_zero, zero_mul, Complex.exp_zero, one_pow, one_mul]
  rw [div_mul_eq_mul_div, one_mul]
  congr 2
  ring

theorem lapMeasure_affine (s x : ℝ) (hs : 0 < s) :
    (lapMeasure 1 0).map (fun l : ℝ => x - s * l) = lapMeasure s x := by
  have h := lapMeasure_affine' (-s) x (neg_ne_zero.mpr hs.ne')
  rw [abs_neg, abs_of_pos hs] at h
  rw [← h]
  congr 1
  funext l; ring

/-- `Laplace.randomise` over ℝ -/
theorem laplace_real (eps delta sens x u1 u2 u3 u4 : ℝ) :
    laplace eps delta sens x u1 u2 u3 u4 = x - Smp.laplaceScale eps delta sens * lap4 u1 u2 u3 u4 := rfl

theorem measurable_laplace (eps delta sens x : ℝ) :
    Measurable (fun u : ℝ × ℝ × ℝ × ℝ => laplace eps delta sens x u.1 u.2.1 u.2.2.1 u.2.2.2) := by
  simp only [laplace_real]
  exact measurable_const.sub (measurable_const.mul measurable_lap4)

/-- the output of `Laplace.randomise` on four independent uniforms has the Laplace law with the coded scale, centred at
the input -/
theorem laplace_map (eps delta sens x : ℝ) (hb : 0 < Smp.laplaceScale eps delta sens) :
    unif01x4.map (fun u : ℝ × ℝ × ℝ × ℝ => laplace eps delta sens x u.1 u.2.1 u.2.2.1 u.2.2.2)
      = lapMeasure (Smp.laplaceScale eps delta sens) x := by
  have hm : Measurable (fun l : ℝ => x - Smp.laplaceScale eps delta sens * l) :=
    measurable_const.sub (measurable_const.mul measurable_id)
  have hcomp : (fun u : ℝ × ℝ × ℝ × ℝ => laplace eps delta sens x u.1 u.2.1 u.2.2.1 u.2.2.2)
      = (fun l : ℝ => x - Smp.laplaceScale eps delta sens * l)
        ∘ (fun u : ℝ × ℝ × ℝ × ℝ => lap4 u.1 u.2.1 u.2.2.1 u.2.2.2) := rfl
  rw [hcomp, ← Measure.map_map hm measurable_lap4, lap4_map, lapMeasure_affine _ _ hb]

theorem laplaceScale_eq_cont (eps delta sens : ℝ) :
    Smp.laplaceScale eps delta sens = Cont.laplaceScale eps delta sens := rfl

end DPL.Smp
