/-
The `RangeOps` carrier instance for ℝ (noncomputable; used only in proofs): Python's `%` is `x - y⌊x/y⌋`,
and the facts about it that the fold theorems need.
-/
import DPL.Model.Range
import DPL.Proofs.RealCarrier
import Mathlib.Algebra.Order.Floor.Ring
import Mathlib.Analysis.SpecialFunctions.Trigonometric.Basic
import Mathlib.Analysis.SpecialFunctions.Log.Base
import Mathlib.Tactic.Linarith
import Mathlib.Tactic.FieldSimp
import Mathlib.Tactic.Ring

namespace DPL

noncomputable instance : RangeOps ℝ where
  fmod x y := x - y * ⌊x / y⌋
  cos := Real.cos
  pi := Real.pi
  nextPow2 x := (2 : ℝ) ^ ⌈Real.logb 2 x⌉
  ldexp m e := (m : ℝ) * (2 : ℝ) ^ e

theorem fmod_real (x y : ℝ) : RangeOps.fmod x y = x - y * ⌊x / y⌋ := rfl

/-- for a positive divisor the Python remainder lies in `[0, y)` -/
theorem fmod_nonneg (x y : ℝ) (hy : 0 < y) : 0 ≤ RangeOps.fmod x y := by
  rw [fmod_real]
  have h := Int.floor_le (x / y)
  have : y * ⌊x / y⌋ ≤ y * (x / y) := mul_le_mul_of_nonneg_left h hy.le
  rw [mul_div_cancel₀ _ hy.ne'] at this
  linarith

theorem fmod_lt (x y : ℝ) (hy : 0 < y) : RangeOps.fmod x y < y := by
  rw [fmod_real]
  have h := Int.lt_floor_add_one (x / y)
  have : y * (x / y) < y * (⌊x / y⌋ + 1) := mul_lt_mul_of_pos_left h hy
  rw [mul_div_cancel₀ _ hy.ne'] at this
  linarith

/-- the remainder differs from `x` by an integer multiple of the divisor -/
theorem fmod_eq_sub (x y : ℝ) : ∃ k : ℤ, RangeOps.fmod x y = x - y * k := ⟨⌊x / y⌋, rfl⟩

end DPL
