/-
ℝ instances of the sampler model's own carrier classes (`Trig`, `Bits`), the simp lemmas that turn the generic
operations into Mathlib's, and the carrier-independent lemmas about the rejection loop.
-/
import DPL.Model.Samplers
import DPL.Model.LogReg
import DPL.Proofs.RealCarrier
import Mathlib.Analysis.SpecialFunctions.Trigonometric.Basic
import Mathlib.Analysis.SpecialFunctions.Log.Base

namespace DPL.Smp

noncomputable instance : Trig ℝ := ⟨Real.cos, Real.pi⟩
noncomputable instance : Bits ℝ := ⟨fun m e => (m : ℝ) * (2 : ℝ) ^ e, fun x => (2 : ℝ) ^ ⌈Real.logb 2 x⌉⟩

@[simp] theorem trig_cos (x : ℝ) : Trig.cos x = Real.cos x := rfl
@[simp] theorem trig_pi : (Trig.pi : ℝ) = Real.pi := rfl
@[simp] theorem bits_ldexp (m : Nat) (e : Int) : (Bits.ldexp m e : ℝ) = (m : ℝ) * (2 : ℝ) ^ e := rfl

/-! ### the rejection loop, for ANY carrier (in particular for the doubles the code computes with) -/

section generic
variable {α : Type} [OfNat α 0] [OfNat α 1] [OfNat α 2] [OfNat α 4] [OfNat α 5]
  [Add α] [Sub α] [Mul α] [Div α] [Neg α]
  [LT α] [LE α] [DecidableLT α] [DecidableLE α] [NatCast α] [IntCast α] [Transc α] [Trig α] [Bits α]

/-- the loop returns exactly `find?` of the stream of candidates it looks at -/
theorem rejLoop_eq_find (cand : α → α) (acc : α → Bool) :
    ∀ (fuel s : Nat) (us : List α) (used : Nat),
      (rejLoop cand acc fuel s us used).map Prod.fst = (candidates cand fuel s us).find? acc := by
  intro fuel
  induction fuel with
  | zero => intro s us used; simp [rejLoop, candidates]
  | succ fuel ih =>
    intro s us used
    unfold rejLoop candidates
    by_cases h : us.length < 4 * s
    · simp [h]
    · simp only [h, ↓reduceIte, List.find?_append, firstAccepted]
      cases hf : List.find? acc (List.map cand (batchLap us s)) with
      | some v => simp
      | none => simpa using ih _ _ _

theorem rejLoop_accepted (cand : α → α) (acc : α → Bool) (fuel s : Nat) (us : List α) (used : Nat) (v : α) (n : Nat)
    (h : rejLoop cand acc fuel s us used = some (v, n)) : acc v = true := by
  have := rejLoop_eq_find cand acc fuel s us used
  rw [h] at this
  exact List.find?_some this.symm

theorem rejLoop_first (cand : α → α) (acc : α → Bool) (fuel s : Nat) (us : List α) (used : Nat) (v : α) (n : Nat)
    (h : rejLoop cand acc fuel s us used = some (v, n)) :
    ∃ before after, candidates cand fuel s us = before ++ v :: after ∧ ∀ a ∈ before, acc a = false := by
  have := rejLoop_eq_find cand acc fuel s us used
  rw [h] at this
  obtain ⟨_, l1, l2, h1, h2⟩ := List.find?_eq_some_iff_append.mp this.symm
  exact ⟨l1, l2, h1, fun a ha => by simpa using h2 a ha⟩

/-- every candidate is `cand` of a standard-Laplace draw computed from four uniforms of the stream -/
theorem candidates_map (cand : α → α) : ∀ (fuel s : Nat) (us : List α),
    candidates cand fuel s us = (candidates (fun l => l) fuel s us).map cand := by
  intro fuel
  induction fuel with
  | zero => intro s us; simp [candidates]
  | succ fuel ih =>
    intro s us
    unfold candidates
    by_cases h : us.length < 4 * s
    · simp [h]
    · simp only [h, ↓reduceIte, List.map_append, List.map_id']
      rw [ih]

/-- the inner loop of `bernoulli_neg_exp`: after `n` successful comparisons `u ≤ g/k, …, u ≤ g/(k+n-1)` and one failed
one, the loop returns the counter `k + n` and leaves the rest of the stream untouched -/
theorem bernCount_stops (g : α) : ∀ (succ : List α) (k fuel : Nat) (f : α) (rest : List α),
    succ.length < fuel →
    (∀ i (h : i < succ.length), succ[i] ≤ g / ((k + i : Nat) : α)) →
    ¬ f ≤ g / ((k + succ.length : Nat) : α) →
    bernCount g fuel k (succ ++ f :: rest) = some (k + succ.length, rest) := by
  intro succ
  induction succ with
  | nil =>
    intro k fuel f rest hf _ hfail
    cases fuel with
    | zero => simp at hf
    | succ fuel =>
      simp only [List.nil_append, bernCount, List.length_nil, Nat.add_zero] at hfail ⊢
      simp [hfail]
  | cons u us ih =>
    intro k fuel f rest hf hs hfail
    cases fuel with
    | zero => simp at hf
    | succ fuel =>
      have h0 := hs 0 (by simp)
      simp only [List.getElem_cons_zero, Nat.add_zero] at h0
      simp only [List.cons_append, bernCount, h0, ↓reduceIte]
      have := ih (k + 1) fuel f rest (by simpa using hf)
        (fun i h => by
          have := hs (i + 1) (by simpa using h)
          simpa [Nat.add_assoc, Nat.add_comm 1 i] using this)
        (by simpa [Nat.add_assoc, Nat.add_comm 1 us.length] using hfail)
      rw [this]
      simp [Nat.add_assoc, Nat.add_comm 1 us.length]

end generic

end DPL.Smp
