/-
C03 / Snapping: **the law of the model's `snapUniform` over fair bits is the push-forward of the continuous uniform on
[0,1) under round-down to the floating-point grid** (finite cap `W` on the number of 32-bit words, i.e. on the exponent).

Probability space: the uniform (counting) measure on the bit strings `(b, X)`, `b < 2^52` (the mantissa bits),
`X < 2^(32W)` (the `W` words, `wordsOf W X`).  For every real `v`
  `#{(b, X) | snapUniform b (wordsOf W X) returns v} / 2^(52+32W) = unif01 {U | 2^(-32W) ≤ U ∧ flDown U = v}`
(`snapUniform_point_law`), and the model fails (all `32W` bits zero) with probability `2^(-32W) = unif01 {U | U < 2^(-32W)}`
(`snapUniform_none_law`).
-/
import DPL.Proofs.SamplersSnapUniformGrid

namespace DPL.SmpS
open MeasureTheory Set DPL.Smp
open scoped ENNReal

/-- the double the model returns on the bit string `(b, X)` -/
theorem snapUniform_wordsOf (b W X : ℕ) (hX : X < 2 ^ (32 * W)) :
    (snapUniform (α := ℝ) b (wordsOf W X)).map Prod.fst
      = if X = 0 then none else some (fgrid (32 * W - (Nat.log2 X + 1)) (b % 2 ^ 52)) := by
  have key := snapUniformME_wordsOf b W X (-53) 0 hX
  unfold snapUniform
  cases hr : snapUniformME b (wordsOf W X) (-53) 0 with
  | none =>
    rw [hr] at key
    by_cases hX0 : X = 0 <;> simp [hX0] at key ⊢
  | some t =>
    obtain ⟨m, e, n⟩ := t
    rw [hr] at key
    by_cases hX0 : X = 0
    · simp [hX0] at key
    · simp only [hX0, if_false, Option.map_some, Option.some.injEq, Prod.mk.injEq] at key ⊢
      obtain ⟨rfl, rfl⟩ := key
      have hb' : b % 2 ^ 52 < 2 ^ 52 := Nat.mod_lt _ (by positivity)
      have hor : 2 ^ 52 ||| (b % 2 ^ 52) = 2 ^ 52 + b % 2 ^ 52 := by
        have := Nat.two_pow_add_eq_or_of_lt hb' 1
        simpa using this.symm
      have hlog : Nat.log2 X + 1 ≤ 32 * W := (Nat.log2_lt hX0).mpr hX
      have hexp : (-53 : ℤ) + ((Nat.log2 X + 1 : ℕ) : ℤ) - 32 * (W : ℤ)
          = -53 - ((32 * W - (Nat.log2 X + 1) : ℕ) : ℤ) := by omega
      show (Bits.ldexp (2 ^ 52 ||| b % 2 ^ 52) (-53 + ((Nat.log2 X + 1 : ℕ) : ℤ) - 32 * (W : ℤ)) : ℝ) = _
      rw [bits_ldexp, hor, hexp]
      unfold fgrid ulpAt
      simp only [Nat.cast_add, Nat.cast_pow, Nat.cast_ofNat]

/-- the bit strings on which the model returns `v` -/
noncomputable def hitSet (W : ℕ) (v : ℝ) : Finset (ℕ × ℕ) := by
  classical
  exact (Finset.range (2 ^ 52) ×ˢ Finset.range (2 ^ (32 * W))).filter
    (fun p => (snapUniform (α := ℝ) p.1 (wordsOf W p.2)).map Prod.fst = some v)

/-- the bit strings on which the model fails -/
noncomputable def missSet (W : ℕ) : Finset (ℕ × ℕ) := by
  classical
  exact (Finset.range (2 ^ 52) ×ˢ Finset.range (2 ^ (32 * W))).filter
    (fun p => (snapUniform (α := ℝ) p.1 (wordsOf W p.2)).map Prod.fst = none)

theorem mem_hitSet (W : ℕ) (v : ℝ) (b X : ℕ) :
    (b, X) ∈ hitSet W v ↔ b < 2 ^ 52 ∧ X < 2 ^ (32 * W) ∧ X ≠ 0 ∧ v = fgrid (32 * W - (Nat.log2 X + 1)) b := by
  classical
  unfold hitSet
  simp only [Finset.mem_filter, Finset.mem_product, Finset.mem_range]
  constructor
  · rintro ⟨⟨hb, hX⟩, h⟩
    rw [snapUniform_wordsOf b W X hX, Nat.mod_eq_of_lt hb] at h
    by_cases hX0 : X = 0
    · simp [hX0] at h
    · simp only [hX0, if_false, Option.some.injEq] at h
      exact ⟨hb, hX, hX0, h.symm⟩
  · rintro ⟨hb, hX, hX0, h⟩
    refine ⟨⟨hb, hX⟩, ?_⟩
    rw [snapUniform_wordsOf b W X hX, Nat.mod_eq_of_lt hb, if_neg hX0, h]

-- `Finset.range (2 ^ 52)` must never be unfolded by the unifier
attribute [irreducible] hitSet

theorem hitSet_grid (W k b0 : ℕ) (hk : k < 32 * W) (hb0 : b0 < 2 ^ 52) :
    hitSet W (fgrid k b0) = ({b0} : Finset ℕ) ×ˢ Finset.Ico (2 ^ (32 * W - k - 1)) (2 ^ (32 * W - k)) := by
  ext ⟨b, X⟩
  rw [mem_hitSet]
  simp only [Finset.mem_product, Finset.mem_singleton, Finset.mem_Ico]
  constructor
  · rintro ⟨hb, hX, hX0, h⟩
    have hlog : Nat.log2 X + 1 ≤ 32 * W := (Nat.log2_lt hX0).mpr hX
    obtain ⟨h1, h2⟩ := fgrid_inj _ _ _ _ hb0 hb h
    have hl : Nat.log2 X = 32 * W - k - 1 := by omega
    obtain ⟨a, c⟩ := (Nat.log2_eq_iff hX0).mp hl
    refine ⟨h2.symm, a, ?_⟩
    have : 32 * W - k - 1 + 1 = 32 * W - k := by omega
    rwa [this] at c
  · rintro ⟨rfl, a, c⟩
    have hX0 : X ≠ 0 := by
      have : 0 < 2 ^ (32 * W - k - 1) := by positivity
      omega
    have hX : X < 2 ^ (32 * W) := lt_of_lt_of_le c (Nat.pow_le_pow_right (by norm_num) (by omega))
    have hl : Nat.log2 X = 32 * W - k - 1 := by
      rw [Nat.log2_eq_iff hX0]
      have : 32 * W - k - 1 + 1 = 32 * W - k := by omega
      rw [this]; exact ⟨a, c⟩
    refine ⟨hb0, hX, hX0, ?_⟩
    congr 1; omega

theorem hitSet_card (W k b0 : ℕ) (hk : k < 32 * W) (hb0 : b0 < 2 ^ 52) :
    (hitSet W (fgrid k b0)).card = 2 ^ (32 * W - k - 1) := by
  rw [hitSet_grid W k b0 hk hb0, Finset.card_product, Finset.card_singleton, Nat.card_Ico, one_mul]
  have h : 2 ^ (32 * W - k) = 2 * 2 ^ (32 * W - k - 1) := by
    rw [← pow_succ']; congr 1; omega
  rw [h]; omega

theorem unif01_cell (N k b : ℕ) (hk : k < N) (hb : b < 2 ^ 52) :
    unif01 {U : ℝ | (2 : ℝ) ^ (-(N : ℤ)) ≤ U ∧ flDown U = fgrid k b} = ENNReal.ofReal (ulpAt k) := by
  rw [unif01, Measure.restrict_apply' measurableSet_Ico]
  have : {U : ℝ | (2 : ℝ) ^ (-(N : ℤ)) ≤ U ∧ flDown U = fgrid k b} ∩ Ico 0 1
      = {U : ℝ | (2 : ℝ) ^ (-(N : ℤ)) ≤ U ∧ U < 1 ∧ flDown U = fgrid k b} := by
    ext U
    simp only [mem_inter_iff, mem_ofPred_eq, mem_Ico]
    constructor
    · rintro ⟨⟨h1, h2⟩, _, h4⟩; exact ⟨h1, h4, h2⟩
    · rintro ⟨h1, h2, h3⟩
      exact ⟨⟨h1, h3⟩, le_trans (by positivity) h1, h2⟩
  rw [this, flDown_fiber N k b hk hb, Real.volume_Ico]
  congr 1; ring

/-- **point masses**: the model returns `v` with the probability that a continuous uniform rounds down to `v` -/
theorem snapUniform_point_law (W : ℕ) (v : ℝ) :
    ((hitSet W v).card : ℝ≥0∞) / 2 ^ (52 + 32 * W)
      = unif01 {U : ℝ | (2 : ℝ) ^ (-((32 * W : ℕ) : ℤ)) ≤ U ∧ flDown U = v} := by
  by_cases hv : ∃ k b, k < 32 * W ∧ b < 2 ^ 52 ∧ v = fgrid k b
  · obtain ⟨k, b, hk, hb, rfl⟩ := hv
    rw [hitSet_card W k b hk hb, unif01_cell (32 * W) k b hk hb]
    have hreal : ulpAt k = (2 : ℝ) ^ (32 * W - k - 1) / 2 ^ (52 + 32 * W) := by
      unfold ulpAt
      rw [eq_div_iff (by positivity), ← zpow_natCast, ← zpow_natCast, ← zpow_add₀ (two_ne_zero)]
      congr 1
      have : ((32 * W - k - 1 : ℕ) : ℤ) = 32 * (W : ℤ) - k - 1 := by omega
      rw [this]; push_cast; ring
    rw [hreal, ENNReal.ofReal_div_of_pos (by positivity), ENNReal.ofReal_pow (by norm_num),
      ENNReal.ofReal_pow (by norm_num)]
    simp only [Nat.cast_pow, Nat.cast_ofNat, ENNReal.ofReal_ofNat]
  · have h1 : hitSet W v = ∅ := by
      rw [Finset.eq_empty_iff_forall_notMem]
      rintro ⟨b, X⟩ hmem
      have hh := (mem_hitSet W v b X).mp hmem
      have hlog : Nat.log2 X + 1 ≤ 32 * W := (Nat.log2_lt hh.2.2.1).mpr hh.2.1
      exact hv ⟨_, b, by omega, hh.1, hh.2.2.2⟩
    have h2 : {U : ℝ | (2 : ℝ) ^ (-((32 * W : ℕ) : ℤ)) ≤ U ∧ flDown U = v} ∩ Ico 0 1 = ∅ := by
      rw [Set.eq_empty_iff_forall_notMem]
      rintro U ⟨⟨a, c⟩, _, d⟩
      obtain ⟨k, b, hk, hb, c1, c2⟩ := cell_cover (32 * W) U a d
      rw [flDown_cell k b hb U c1 c2] at c
      exact hv ⟨k, b, hk, hb, c.symm⟩
    rw [h1, unif01, Measure.restrict_apply' measurableSet_Ico, h2]
    simp

theorem missSet_eq (W : ℕ) : missSet W = Finset.range (2 ^ 52) ×ˢ ({0} : Finset ℕ) := by
  classical
  ext ⟨b, X⟩
  unfold missSet
  simp only [Finset.mem_filter, Finset.mem_product, Finset.mem_range, Finset.mem_singleton]
  constructor
  · rintro ⟨⟨hb, hX⟩, h⟩
    rw [snapUniform_wordsOf b W X hX] at h
    by_cases hX0 : X = 0
    · exact ⟨hb, hX0⟩
    · simp [hX0] at h
  · rintro ⟨hb, rfl⟩
    have hX : 0 < 2 ^ (32 * W) := by positivity
    exact ⟨⟨hb, hX⟩, by rw [snapUniform_wordsOf b W 0 hX]; simp⟩

/-- **the exponent cap**: the model fails (all `32W` word bits are zero) with probability `2^(-32W)`, the probability that
a continuous uniform is below the smallest binade the cap allows -/
theorem snapUniform_none_law (W : ℕ) :
    ((missSet W).card : ℝ≥0∞) / 2 ^ (52 + 32 * W)
      = unif01 {U : ℝ | U < (2 : ℝ) ^ (-((32 * W : ℕ) : ℤ))} := by
  have hle : (2 : ℝ) ^ (-((32 * W : ℕ) : ℤ)) ≤ 1 := zpow_le_one_of_nonpos₀ (by norm_num) (by omega)
  have hset : {U : ℝ | U < (2 : ℝ) ^ (-((32 * W : ℕ) : ℤ))} ∩ Ico 0 1 = Ico 0 ((2 : ℝ) ^ (-((32 * W : ℕ) : ℤ))) := by
    ext U
    simp only [mem_inter_iff, mem_ofPred_eq, mem_Ico]
    constructor
    · rintro ⟨a, c, _⟩; exact ⟨c, a⟩
    · rintro ⟨a, c⟩; exact ⟨c, a, lt_of_lt_of_le c hle⟩
  rw [missSet_eq, Finset.card_product, Finset.card_range, Finset.card_singleton, mul_one, unif01,
    Measure.restrict_apply' measurableSet_Ico, hset, Real.volume_Ico, sub_zero]
  have hreal : (2 : ℝ) ^ (-((32 * W : ℕ) : ℤ)) = (2 : ℝ) ^ 52 / 2 ^ (52 + 32 * W) := by
    rw [eq_div_iff (by positivity), ← zpow_natCast, ← zpow_add₀ (two_ne_zero), ← zpow_natCast]
    congr 1; push_cast; ring
  rw [hreal, ENNReal.ofReal_div_of_pos (by positivity), ENNReal.ofReal_pow (by norm_num),
    ENNReal.ofReal_pow (by norm_num)]
  simp only [Nat.cast_pow, Nat.cast_ofNat, ENNReal.ofReal_ofNat]

end DPL.SmpS
