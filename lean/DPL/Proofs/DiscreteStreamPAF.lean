/-
C01: `PermuteAndFlip.randomise` under the uniform stream measure.  A round of the model's `pafRun` is the index draw
`ids[int(u·len(ids))]` (one uniform: boxes `{u | ⌊u·n⌋ = j}` of `unif01`-mass `1/n`, `index_law`) followed by the coin
`bernoulli_neg_exp(-logp[idx])` (`bernNegExp_bind_law`) followed by the next round on the unread rest.  By `bind_law`
the probability that the run returns candidate `r` satisfies exactly the recursion that defines the model's `pafLaw`;
with `pafLaw_eq_L` / `paf_dp` the ε-DP inequality becomes a statement about the sampler's output measure.
-/
import DPL.Proofs.DiscreteStreamBern
import DPL.Proofs.DiscretePAF
import DPL.Proofs.DiscreteGeom
import Mathlib.MeasureTheory.Function.Floor
import Mathlib.Algebra.BigOperators.Fin

namespace DPL.Discrete
open MeasureTheory Set
open scoped ENNReal

/-! ### the index draw -/

/-- `idx = ids[int(u * len(ids))]` as a stream sampler -/
noncomputable def idxDraw (ids : List ℕ) : List ℝ → Except DErr (ℕ × List ℝ)
  | [] => .error .exhausted
  | u :: us =>
    match ids[(⌊u * (ids.length : ℝ)⌋).toNat]? with
    | none => .error .runtimeError
    | some idx => .ok (idx, us)

def idxBox (n : ℕ) (j : Fin n) (_ : ℕ) : Set ℝ := {u : ℝ | (⌊u * (n : ℝ)⌋).toNat = (j : ℕ)}

theorem idxBox_measurable (n : ℕ) (j : Fin n) (i : ℕ) : MeasurableSet (idxBox n j i) := by
  have hm : Measurable (fun u : ℝ => (⌊u * (n : ℝ)⌋).toNat) :=
    (measurable_from_top (f := Int.toNat)).comp (Int.measurable_floor.comp (measurable_id.mul_const _))
  exact hm (measurableSet_singleton (j : ℕ))

theorem idxBox_prob (n : ℕ) (j : Fin n) (i : ℕ) : unif01 (idxBox n j i) = ENNReal.ofReal (1 / (n : ℝ)) := by
  rw [unif01_apply]
  exact index_law n (Nat.pos_of_ne_zero (fun h => by subst h; exact j.elim0)) j j.2

theorem idxDraw_spec (ids : List ℕ) :
    BoxSpec (idxDraw ids) (fun _ : Fin ids.length => 1) (fun j => ids[(j : ℕ)]) (idxBox ids.length) := by
  intro l b rest
  constructor
  · intro h
    cases l with
    | nil => simp [idxDraw] at h
    | cons u us =>
      simp only [idxDraw] at h
      cases hj : ids[(⌊u * (ids.length : ℝ)⌋).toNat]? with
      | none => rw [hj] at h; cases h
      | some idx =>
        rw [hj] at h
        injection h with h
        obtain ⟨hb, hr⟩ := Prod.mk.inj h
        obtain ⟨hlt, hget⟩ := List.getElem?_eq_some_iff.mp hj
        refine ⟨⟨_, hlt⟩, by simp, fun i hi hi1 => ?_, by simpa [hb] using hget, by simpa using hr.symm⟩
        have hi1 : i < 1 := hi1
        have : i = 0 := by omega
        subst this
        simp [idxBox]
  · rintro ⟨j, hlen, hbox, hout, hrest⟩
    have hlen : 1 ≤ l.length := hlen
    have hout : ids[(j : ℕ)] = b := hout
    have hrest : rest = l.drop 1 := hrest
    have hbox : ∀ i (h : i < l.length), i < 1 → l[i] ∈ idxBox ids.length j i := hbox
    cases l with
    | nil => simp at hlen
    | cons u us =>
      have h0 := hbox 0 (by simp) (by omega)
      simp only [List.getElem_cons_zero, idxBox, mem_ofPred_eq] at h0
      simp only [idxDraw, h0, List.getElem?_eq_getElem j.2]
      rw [hout, hrest]; simp

theorem idxBox_disjoint (n : ℕ) :
    Pairwise (Function.onFun Disjoint (fun j : Fin n => Set.pi (Finset.range 1 : Set ℕ) (idxBox n j))) := by
  intro j j' hne
  rw [Function.onFun, Set.disjoint_left]
  intro ω h1 h2
  have a := h1 0 (by simp)
  have b := h2 0 (by simp)
  simp only [idxBox, mem_ofPred_eq] at a b
  exact hne (Fin.ext (a.symm.trans b))

/-- **index draw, any continuation**: every remaining candidate is drawn with probability `1/n`, and what follows sees a
fresh stream -/
theorem idxDraw_bind_law (ids : List ℕ) {β : Type} (K : ℕ → List ℝ → Except DErr (β × List ℝ)) (c : β)
    (hK : ∀ j : Fin ids.length, MeasurableSet (Ret (K ids[(j : ℕ)]) c)) :
    MeasurableSet (Ret (bindS (idxDraw ids) K) c) ∧
    streamμ (Ret (bindS (idxDraw ids) K) c)
      = ∑ j : Fin ids.length, ENNReal.ofReal (1 / (ids.length : ℝ)) * streamμ (Ret (K ids[(j : ℕ)]) c) := by
  obtain ⟨hm, hμ⟩ := bind_law (idxDraw ids) K (fun _ : Fin ids.length => 1) (fun j => ids[(j : ℕ)])
    (idxBox ids.length) (idxDraw_spec ids) (idxBox_measurable _) (idxBox_disjoint _) c hK
  refine ⟨hm, ?_⟩
  rw [hμ, tsum_fintype]
  apply Finset.sum_congr rfl
  intro j _
  rw [Finset.prod_range_one, idxBox_prob]

/-! ### one round and the recursion -/

/-- the coin of candidate `idx` -/
noncomputable def pafCoin (logp : List (Option ℝ)) (coinFuel idx : ℕ) : List ℝ → Except DErr (Bool × List ℝ) :=
  match logp[idx]? with
  | some (some lp) => bernNegExp coinFuel (-lp)
  | some none => bernInf coinFuel
  | none => fun _ => .error .runtimeError

/-- `pafRun` is: index draw, then the coin, then return or the next round -/
theorem pafRun_succ (logp : List (Option ℝ)) (coinFuel fuel : ℕ) (ids : List ℕ) (hne : ids ≠ []) :
    pafRun logp coinFuel (fuel + 1) ids
      = bindS (idxDraw ids) (fun idx => bindS (pafCoin logp coinFuel idx)
          (fun b => if b then retS idx else pafRun logp coinFuel fuel (ids.erase idx))) := by
  funext us
  cases ids with
  | nil => exact absurd rfl hne
  | cons a t =>
    cases us with
    | nil => rfl
    | cons u us =>
      simp only [pafRun, bindS, idxDraw, transc_floor]
      cases hj : (a :: t)[(⌊u * ((a :: t).length : ℝ)⌋).toNat]? with
      | none => rfl
      | some idx =>
        simp only [pafCoin]
        cases hl : logp[idx]? with
        | none => rfl
        | some o =>
          cases o with
          | none =>
            simp only
            cases hc : bernInf coinFuel us with
            | error e => rfl
            | ok p => obtain ⟨b, r⟩ := p; cases b <;> rfl
          | some lp =>
            simp only
            cases hc : bernNegExp coinFuel (-lp) us with
            | error e => rfl
            | ok p => obtain ⟨b, r⟩ := p; cases b <;> rfl

theorem pafRun_zero (logp : List (Option ℝ)) (coinFuel : ℕ) (ids : List ℕ) :
    pafRun logp coinFuel 0 ids = fun _ => .error .exhausted := by
  funext us; simp [pafRun]

theorem pafRun_nil (logp : List (Option ℝ)) (coinFuel fuel : ℕ) :
    pafRun logp coinFuel (fuel + 1) [] = fun _ => .error .runtimeError := by
  funext us; simp [pafRun]

theorem pafLaw_zero (p : ℕ → ℝ) (ids : List ℕ) (r : ℕ) : pafLaw p 0 ids r = 0 := by simp [pafLaw]

theorem pafLaw_nil (p : ℕ → ℝ) (fuel r : ℕ) : pafLaw p (fuel + 1) [] r = 0 := by simp [pafLaw]

theorem pafLaw_succ (p : ℕ → ℝ) (fuel : ℕ) (ids : List ℕ) (hne : ids ≠ []) (r : ℕ) :
    pafLaw p (fuel + 1) ids r
      = (ids.map (fun i => (if i = r then p i else 0) + (1 - p i) * pafLaw p fuel (ids.erase i) r)).sum
        / (ids.length : ℝ) := by
  cases ids with
  | nil => exact absurd rfl hne
  | cons a t => rw [← lsum_eq]; rfl

theorem pafLaw_nonneg (p : ℕ → ℝ) (hp : ∀ i, 0 ≤ p i ∧ p i ≤ 1) (fuel : ℕ) (ids : List ℕ) (r : ℕ) :
    0 ≤ pafLaw p fuel ids r := by
  induction fuel generalizing ids with
  | zero => rw [pafLaw_zero]
  | succ n ih =>
    by_cases hne : ids = []
    · subst hne; rw [pafLaw_nil]
    · rw [pafLaw_succ p n ids hne]
      apply div_nonneg _ (Nat.cast_nonneg _)
      apply List.sum_nonneg
      intro x hx
      obtain ⟨i, _, rfl⟩ := List.mem_map.mp hx
      have h1 := ih (ids.erase i)
      have h2 : 0 ≤ (1 - p i) * pafLaw p n (ids.erase i) r := mul_nonneg (by linarith [(hp i).2]) h1
      split_ifs
      · linarith [(hp i).1]
      · linarith

theorem pafHeads_getD_of (logp : List (Option ℝ)) (i : ℕ) (lp : ℝ) (h : logp[i]? = some (some lp)) :
    (pafHeads logp).getD i 0 = Real.exp lp := by
  unfold pafHeads
  rw [List.getD_eq_getElem?_getD, List.getElem?_map, h]
  simp

/-- head probabilities of a list of finite, non-positive log-probabilities are probabilities -/
theorem pafHeads_range_of (logp : List (Option ℝ)) (hlog : ∀ o ∈ logp, ∃ lp : ℝ, o = some lp ∧ lp ≤ 0) (i : ℕ) :
    0 ≤ (pafHeads logp).getD i 0 ∧ (pafHeads logp).getD i 0 ≤ 1 := by
  by_cases hi : i < logp.length
  · obtain ⟨lp, hlp, hle⟩ := hlog logp[i] (List.getElem_mem hi)
    rw [pafHeads_getD_of logp i lp (by rw [List.getElem?_eq_getElem hi, hlp])]
    exact ⟨(Real.exp_pos _).le, Real.exp_le_one_iff.mpr hle⟩
  · rw [List.getD_eq_default _ _ (by simpa [pafHeads] using hi)]
    exact ⟨le_refl _, zero_le_one⟩

/-- **the law of `pafRun` over the uniform stream is the model's `pafLaw`** (finite log-probabilities `≤ 0`, coin fuel
above every `-logp`; any round fuel, any list of remaining candidates) -/
theorem pafRun_stream_law (logp : List (Option ℝ)) (coinFuel : ℕ)
    (hlog : ∀ o ∈ logp, ∃ lp : ℝ, o = some lp ∧ lp ≤ 0 ∧ -lp < coinFuel) (fuel : ℕ) (ids : List ℕ)
    (hids : ∀ i ∈ ids, i < logp.length) (r : ℕ) :
    MeasurableSet (Ret (pafRun logp coinFuel fuel ids) r) ∧
    streamμ (Ret (pafRun logp coinFuel fuel ids) r)
      = ENNReal.ofReal (pafLaw (fun i => (pafHeads logp).getD i 0) fuel ids r) := by
  set p : ℕ → ℝ := fun i => (pafHeads logp).getD i 0 with hp
  have hpr : ∀ i, 0 ≤ p i ∧ p i ≤ 1 := fun i =>
    pafHeads_range_of logp (fun o ho => by obtain ⟨lp, h1, h2, _⟩ := hlog o ho; exact ⟨lp, h1, h2⟩) i
  induction fuel generalizing ids with
  | zero => rw [pafRun_zero, Ret_error, pafLaw_zero]; simp
  | succ n ih =>
    by_cases hne : ids = []
    · subst hne; rw [pafRun_nil, Ret_error, pafLaw_nil]; simp
    rw [pafRun_succ logp coinFuel n ids hne, pafLaw_succ p n ids hne]
    -- one round from candidate `idx`
    have round : ∀ idx ∈ ids,
        MeasurableSet (Ret (bindS (pafCoin logp coinFuel idx)
          (fun b => if b then retS idx else pafRun logp coinFuel n (ids.erase idx))) r) ∧
        streamμ (Ret (bindS (pafCoin logp coinFuel idx)
          (fun b => if b then retS idx else pafRun logp coinFuel n (ids.erase idx))) r)
          = ENNReal.ofReal ((if idx = r then p idx else 0) + (1 - p idx) * pafLaw p n (ids.erase idx) r) := by
      intro idx hidx
      have hlt := hids idx hidx
      obtain ⟨lp, hlp, hle, hcf⟩ := hlog logp[idx] (List.getElem_mem hlt)
      have hget : logp[idx]? = some (some lp) := by rw [List.getElem?_eq_getElem hlt, hlp]
      have hcoin : pafCoin logp coinFuel idx = bernNegExp coinFuel (-lp) := by
        unfold pafCoin; rw [hget]
      have hpidx : p idx = Real.exp lp := pafHeads_getD_of logp idx lp hget
      obtain ⟨ihm, ihμ⟩ := ih (ids.erase idx) (fun i hi => hids i (List.mem_of_mem_erase hi))
      have hKm : ∀ b : Bool, MeasurableSet
          (Ret ((fun b : Bool => if b then retS idx else pafRun logp coinFuel n (ids.erase idx)) b) r) := by
        intro b; cases b
        · exact ihm
        · exact Ret_retS_measurable idx r
      obtain ⟨hm, hμ⟩ := bernNegExp_bind_law coinFuel (-lp) (by linarith) hcf
        (fun b : Bool => if b then retS idx else pafRun logp coinFuel n (ids.erase idx)) r hKm
      rw [hcoin]
      refine ⟨hm, ?_⟩
      rw [hμ]
      simp only [if_true, Bool.false_eq_true, if_false]
      rw [ihμ, Ret_retS, neg_neg, ← hpidx]
      have hL := pafLaw_nonneg p hpr n (ids.erase idx) r
      have h1p : 0 ≤ 1 - p idx := by linarith [(hpr idx).2]
      by_cases hr : idx = r
      · subst hr
        simp only [if_true, measure_univ, mul_one]
        rw [← ENNReal.ofReal_mul h1p, ← ENNReal.ofReal_add (hpr idx).1 (mul_nonneg h1p hL)]
      · simp only [hr, if_false, measure_empty, mul_zero, zero_add]
        rw [← ENNReal.ofReal_mul h1p]
    obtain ⟨hm, hμ⟩ := idxDraw_bind_law ids (fun idx => bindS (pafCoin logp coinFuel idx)
      (fun b => if b then retS idx else pafRun logp coinFuel n (ids.erase idx))) r
      (fun j => (round ids[(j : ℕ)] (List.getElem_mem j.2)).1)
    refine ⟨hm, ?_⟩
    rw [hμ]
    have hterm : ∀ j : Fin ids.length, 0 ≤ (if ids[(j : ℕ)] = r then p ids[(j : ℕ)] else 0)
        + (1 - p ids[(j : ℕ)]) * pafLaw p n (ids.erase ids[(j : ℕ)]) r := by
      intro j
      have h2 : 0 ≤ (1 - p ids[(j : ℕ)]) * pafLaw p n (ids.erase ids[(j : ℕ)]) r :=
        mul_nonneg (by linarith [(hpr ids[(j : ℕ)]).2]) (pafLaw_nonneg p hpr n _ r)
      split_ifs
      · linarith [(hpr ids[(j : ℕ)]).1]
      · linarith
    rw [← Fin.sum_univ_fun_getElem ids
        (fun i => (if i = r then p i else 0) + (1 - p i) * pafLaw p n (ids.erase i) r)]
    have hR : ∀ (g : Fin ids.length → ℝ), (∀ j, 0 ≤ g j) →
        ENNReal.ofReal ((∑ j, g j) / (ids.length : ℝ))
          = ∑ j, ENNReal.ofReal (1 / (ids.length : ℝ)) * ENNReal.ofReal (g j) := by
      intro g hg
      rw [div_eq_inv_mul, ← one_div, ENNReal.ofReal_mul (by positivity),
        ENNReal.ofReal_sum_of_nonneg (fun j _ => hg j), Finset.mul_sum]
    rw [hR _ hterm]
    apply Finset.sum_congr rfl
    intro j _
    rw [(round ids[(j : ℕ)] (List.getElem_mem j.2)).2]

/-! ### `PermuteAndFlip.randomise` end to end -/

/-- the log-probabilities of a finite scale are finite and `≤ 0` -/
theorem pafLogProbs_some (s : ℝ) (hs : 0 ≤ s) (us : List ℝ) (coinFuel : ℕ)
    (hcf : ∀ x ∈ us, s * (pyMax us - x) < coinFuel) :
    ∀ o ∈ pafLogProbs (some s) us, ∃ lp : ℝ, o = some lp ∧ lp ≤ 0 ∧ -lp < coinFuel := by
  intro o ho
  simp only [pafLogProbs, List.mem_map] at ho
  obtain ⟨x, hx, rfl⟩ := ho
  refine ⟨s * (x - pyMax us), rfl, mul_nonpos_of_nonneg_of_nonpos hs (by linarith [pyMax_ge us x hx]), ?_⟩
  have := hcf x hx
  linarith

theorem pafLogProbs_length (scale : Option ℝ) (us : List ℝ) : (pafLogProbs scale us).length = us.length := by
  cases scale <;> simp [pafLogProbs]

/-- **`PermuteAndFlip.randomise` over the uniform stream** (finite scale `s ≥ 0`): run on the i.i.d. uniform stream the
model sampler returns candidate `r` with probability `pafPmf(heads)[r]` — the closed-form law compared with the running
code by the harness and the subject of `paf_dp` -/
theorem paf_stream_law (s : ℝ) (hs : 0 ≤ s) (us : List ℝ) (coinFuel : ℕ)
    (hcf : ∀ x ∈ us, s * (pyMax us - x) < coinFuel) (r : ℕ) :
    MeasurableSet (Ret (pafRun (pafLogProbs (some s) us) coinFuel us.length (List.range us.length)) r) ∧
    streamμ (Ret (pafRun (pafLogProbs (some s) us) coinFuel us.length (List.range us.length)) r)
      = ENNReal.ofReal ((pafPmf (pafHeads (pafLogProbs (some s) us))).getD r 0) := by
  obtain ⟨hm, hμ⟩ := pafRun_stream_law (pafLogProbs (some s) us) coinFuel (pafLogProbs_some s hs us coinFuel hcf)
    us.length (List.range us.length) (fun i hi => by rw [pafLogProbs_length]; exact List.mem_range.mp hi) r
  refine ⟨hm, ?_⟩
  rw [hμ, pafPmf_getD, pafHeads_length, pafLaw_eq_L _ _ List.nodup_range _ (by simp), List.toFinset_range]
  simp only [List.mem_range]

/-! ### determinism and differential privacy of the sampler's output measure -/

theorem pafRun_mono (logp : List (Option ℝ)) (coinFuel fuel : ℕ) (ids : List ℕ) :
    Mono (pafRun logp coinFuel fuel ids) := by
  induction fuel generalizing ids with
  | zero => rw [pafRun_zero]; exact Mono.error _
  | succ n ih =>
    by_cases hne : ids = []
    · subst hne; rw [pafRun_nil]; exact Mono.error _
    rw [pafRun_succ logp coinFuel n ids hne]
    refine Mono.bindS (Mono.of_boxSpec (idxDraw_spec ids)) (fun idx => Mono.bindS ?_ (fun b => ?_))
    · unfold pafCoin
      split
      · exact bernNegExp_mono _ _
      · exact bernInf_mono _
      · exact Mono.error _
    · cases b
      · exact ih _
      · exact Mono.retS idx

/-- **`PermuteAndFlip.randomise` is ε-DP as a sampler** (non-monotonic utility, `|u_i − u'_i| ≤ sensitivity`): for every
set `S` of candidates, the probability over the uniform stream that the model sampler returns a candidate in `S`
satisfies the ε-DP inequality -/
theorem paf_sampler_dp (eps sens : ℝ) (heps : 0 < eps) (hsens : 0 < sens) (us us' : List ℝ)
    (hlen : us.length = us'.length) (hne : us ≠ [])
    (hnb : ∀ i (h1 : i < us.length) (h2 : i < us'.length), |us[i] - us'[i]| ≤ sens) (coinFuel : ℕ)
    (hcf : ∀ x ∈ us, eps / sens / 2 * (pyMax us - x) < coinFuel)
    (hcf' : ∀ x ∈ us', eps / sens / 2 * (pyMax us' - x) < coinFuel) (S : Set ℕ) :
    streamμ (⋃ r ∈ S, Ret (pafRun (pafLogProbs (expScale eps sens false) us) coinFuel us.length
        (List.range us.length)) r)
      ≤ ENNReal.ofReal (Real.exp eps) *
        streamμ (⋃ r ∈ S, Ret (pafRun (pafLogProbs (expScale eps sens false) us') coinFuel us'.length
          (List.range us'.length)) r) := by
  have hsc : expScale eps sens false = some (eps / sens / 2) := by simp [expScale, div_pos hsens heps]
  have hs : 0 ≤ eps / sens / 2 := by positivity
  refine stream_dp_sets _ _ (pafRun_mono _ _ _ _) (fun r => ?_) _ (fun r => ?_) S
  · rw [hsc]; exact (paf_stream_law _ hs us' coinFuel hcf' r).1
  · have h := paf_dp eps sens heps hsens us us' hlen hne hnb r
    rw [hsc] at h ⊢
    rw [(paf_stream_law _ hs us coinFuel hcf r).2, (paf_stream_law _ hs us' coinFuel hcf' r).2,
      ← ENNReal.ofReal_mul (Real.exp_pos _).le]
    exact ENNReal.ofReal_le_ofReal h

/-- monotonic utilities (`u ≤ u' ≤ u + sensitivity` pointwise, scale `ε/sensitivity`), both directions -/
theorem paf_sampler_dp_monotonic (eps sens : ℝ) (heps : 0 < eps) (hsens : 0 < sens) (us us' : List ℝ)
    (hlen : us.length = us'.length) (hne : us ≠ [])
    (hnb : ∀ i (h1 : i < us.length) (h2 : i < us'.length), us[i] ≤ us'[i] ∧ us'[i] ≤ us[i] + sens) (coinFuel : ℕ)
    (hcf : ∀ x ∈ us, eps / sens * (pyMax us - x) < coinFuel)
    (hcf' : ∀ x ∈ us', eps / sens * (pyMax us' - x) < coinFuel) (S : Set ℕ) :
    streamμ (⋃ r ∈ S, Ret (pafRun (pafLogProbs (expScale eps sens true) us) coinFuel us.length
        (List.range us.length)) r)
      ≤ ENNReal.ofReal (Real.exp eps) *
        streamμ (⋃ r ∈ S, Ret (pafRun (pafLogProbs (expScale eps sens true) us') coinFuel us'.length
          (List.range us'.length)) r) ∧
    streamμ (⋃ r ∈ S, Ret (pafRun (pafLogProbs (expScale eps sens true) us') coinFuel us'.length
        (List.range us'.length)) r)
      ≤ ENNReal.ofReal (Real.exp eps) *
        streamμ (⋃ r ∈ S, Ret (pafRun (pafLogProbs (expScale eps sens true) us) coinFuel us.length
          (List.range us.length)) r) := by
  have hsc : expScale eps sens true = some (eps / sens) := by simp [expScale, div_pos hsens heps]
  have hs : 0 ≤ eps / sens := by positivity
  constructor
  · refine stream_dp_sets _ _ (pafRun_mono _ _ _ _) (fun r => ?_) _ (fun r => ?_) S
    · rw [hsc]; exact (paf_stream_law _ hs us' coinFuel hcf' r).1
    · have h := (paf_dp_monotonic eps sens heps hsens us us' hlen hne hnb r).1
      rw [hsc] at h ⊢
      rw [(paf_stream_law _ hs us coinFuel hcf r).2, (paf_stream_law _ hs us' coinFuel hcf' r).2,
        ← ENNReal.ofReal_mul (Real.exp_pos _).le]
      exact ENNReal.ofReal_le_ofReal h
  · refine stream_dp_sets _ _ (pafRun_mono _ _ _ _) (fun r => ?_) _ (fun r => ?_) S
    · rw [hsc]; exact (paf_stream_law _ hs us coinFuel hcf r).1
    · have h := (paf_dp_monotonic eps sens heps hsens us us' hlen hne hnb r).2
      rw [hsc] at h ⊢
      rw [(paf_stream_law _ hs us coinFuel hcf r).2, (paf_stream_law _ hs us' coinFuel hcf' r).2,
        ← ENNReal.ofReal_mul (Real.exp_pos _).le]
      exact ENNReal.ofReal_le_ofReal h

/-! ### the run returns a candidate with probability one -/

theorem pafPmf_length (heads : List ℝ) : (pafPmf heads).length = heads.length := by simp [pafPmf]

/-- shifting by the maximum makes one head probability 1, so the selection probabilities sum to one -/
theorem pafPmf_sum_one (s : ℝ) (us : List ℝ) (hne : us ≠ []) :
    (pafPmf (pafHeads (pafLogProbs (some s) us))).sum = 1 := by
  rw [← lsum_eq, pafPmf_sum, pafHeads_length]
  obtain ⟨i, hi, hmax⟩ := List.getElem_of_mem (pyMax_mem us hne)
  have hz : ∏ j ∈ Finset.range us.length, (1 - (pafHeads (pafLogProbs (some s) us)).getD j 0) = 0 := by
    apply Finset.prod_eq_zero (Finset.mem_range.mpr hi)
    rw [pafHeads_getD, dif_pos hi, hmax, sub_self, mul_zero, Real.exp_zero, sub_self]
  rw [hz, sub_zero]

/-- **permute-and-flip returns a candidate with probability one** (finite scale): neither the round fuel `n` of the
model nor the coin fuel is exhausted, and no run goes on for ever, except on a null set of streams -/
theorem paf_returns_ae (s : ℝ) (hs : 0 ≤ s) (us : List ℝ) (hne : us ≠ []) (coinFuel : ℕ)
    (hcf : ∀ x ∈ us, s * (pyMax us - x) < coinFuel) :
    streamμ (⋃ r, Ret (pafRun (pafLogProbs (some s) us) coinFuel us.length (List.range us.length)) r)ᶜ = 0 := by
  set l := pafPmf (pafHeads (pafLogProbs (some s) us)) with hl
  have hlen : l.length = us.length := by rw [hl, pafPmf_length, pafHeads_length]
  have hm : ∀ r, MeasurableSet (Ret (pafRun (pafLogProbs (some s) us) coinFuel us.length (List.range us.length)) r) :=
    fun r => (paf_stream_law s hs us coinFuel hcf r).1
  rw [prob_compl_eq_zero_iff (MeasurableSet.iUnion hm),
    measure_iUnion (fun a b hab => Ret_disjoint (pafRun_mono _ _ _ _) a b hab) hm]
  simp_rw [(paf_stream_law s hs us coinFuel hcf _).2]
  rw [tsum_eq_sum (s := Finset.range us.length) (fun r hr => by
    rw [List.getD_eq_default _ _ (by rw [← hl, hlen]; simpa using hr), ENNReal.ofReal_zero])]
  have hnn : ∀ r ∈ Finset.range us.length, 0 ≤ l.getD r 0 := by
    intro r _
    rw [hl, pafPmf_getD]
    split_ifs
    · exact PAF.L_nonneg _ (fun i => pafHeads_range s hs us i) _ _
    · exact le_refl _
  rw [← ENNReal.ofReal_sum_of_nonneg hnn, ← hlen, Finset.sum_range]
  have : ∑ i : Fin l.length, l.getD (i : ℕ) 0 = l.sum := by
    rw [← Fin.sum_univ_getElem l]
    apply Finset.sum_congr rfl
    intro i _
    rw [List.getD_eq_getElem _ _ i.2]
  rw [this, hl, pafPmf_sum_one s us hne, ENNReal.ofReal_one]

end DPL.Discrete
