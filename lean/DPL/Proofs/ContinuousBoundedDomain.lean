/-
Bounded-domain Laplace (Holohan et al. 2020; `LaplaceBoundedDomain`), the normaliser part of the guarantee (C02).

The density at input `x ∈ [lo, hi]` is `e^{-|y-x|/b} / (2b·C(x))` on `[lo, hi]` with
`C(x) = 1 - (e^{-(x-lo)/b} + e^{-(hi-x)/b})/2 = c(x - lo)`, `c(a) = 1 - (e^{-a/b} + e^{-(D-a)/b})/2`, `D = hi - lo`.
Proved here (what was a cited hypothesis before — Holohan et al. Lemma 3.4 — in the form the guarantee needs):
for inputs `x, x'` of the domain at distance `t = |x - x'| ≤ Δ ≤ D`
      e^{t/b} · C(x') / C(x)  ≤  e^{Δ/b} · c(Δ) / c(0)  =  e^{Δ/b} · ΔC(b),
`ΔC(b)` the coded `_delta_c`.  Two steps: `c(a+t)·c(0) ≤ c(t)·c(a)` (a polynomial inequality in the three
exponentials) and `t ↦ e^{t/b} c(t)` is monotone on `[0, D]`.
NB: `C(x')/C(x) ≤ ΔC` ALONE is false when `Δ > D/2` (take `x = lo`, `x'` the midpoint); only the product with the
exponential factor is bounded, which is what the density ratio needs.
-/
import DPL.Proofs.ContinuousCalib
import Mathlib.Tactic.NormNum

namespace DPL.Cont
open DPL Real

/-- the normaliser as a function of the offset `a = x - lo` in a domain of width `D` -/
noncomputable def bdNorm (b D a : ℝ) : ℝ := 1 - (Real.exp (-a / b) + Real.exp (-(D - a) / b)) / 2

theorem bdNorm_symm (b D a : ℝ) : bdNorm b D (D - a) = bdNorm b D a := by
  unfold bdNorm
  have : D - (D - a) = a := by ring
  rw [this, add_comm]

/-- positive inside a non-degenerate domain -/
theorem bdNorm_pos (b D a : ℝ) (hb : 0 < b) (hD : 0 < D) (ha : 0 ≤ a) (haD : a ≤ D) : 0 < bdNorm b D a := by
  unfold bdNorm
  have h1 : Real.exp (-a / b) ≤ 1 := by
    rw [← Real.exp_zero]; apply Real.exp_le_exp.mpr
    exact div_nonpos_of_nonpos_of_nonneg (by linarith) hb.le
  have h2 : Real.exp (-(D - a) / b) ≤ 1 := by
    rw [← Real.exp_zero]; apply Real.exp_le_exp.mpr
    exact div_nonpos_of_nonpos_of_nonneg (by linarith) hb.le
  rcases lt_or_ge 0 a with h | h
  · have : Real.exp (-a / b) < 1 := by
      rw [← Real.exp_zero]; apply Real.exp_lt_exp.mpr
      exact div_neg_of_neg_of_pos (by linarith) hb
    linarith
  · have : Real.exp (-(D - a) / b) < 1 := by
      rw [← Real.exp_zero]; apply Real.exp_lt_exp.mpr
      exact div_neg_of_neg_of_pos (by linarith) hb
    linarith

/-- the polynomial inequality behind `c(a+t)·c(0) ≤ c(t)·c(a)`; `u = e^{-a/b}`, `w = e^{-t/b}`, `r = e^{-D/b}` -/
theorem norm_poly (u w r : ℝ) (_hu0 : 0 ≤ u) (hu1 : u ≤ 1) (hw0 : 0 ≤ w) (hw1 : w ≤ 1) (hr0 : 0 ≤ r)
    (hr : r ≤ u * w) :
    (2 * (u * w) - (u * w) ^ 2 - r) * (1 - r) ≤ (2 * w - w ^ 2 - r) * (2 * u - u ^ 2 - r) := by
  have key : (2 * w - w ^ 2 - r) * (2 * u - u ^ 2 - r) - (2 * (u * w) - (u * w) ^ 2 - r) * (1 - r)
      = (1 - u) * (1 - w) * (2 * (u * w - r) + r * (3 - u - w - u * w)) := by ring
  have huw : u * w ≤ 1 := mul_le_one₀ hu1 hw0 hw1
  have h4 : 0 ≤ 3 - u - w - u * w := by linarith
  have h3 : 0 ≤ 2 * (u * w - r) + r * (3 - u - w - u * w) := by
    have := mul_nonneg hr0 h4
    linarith
  have h5 : 0 ≤ (1 - u) * (1 - w) * (2 * (u * w - r) + r * (3 - u - w - u * w)) :=
    mul_nonneg (mul_nonneg (by linarith) (by linarith)) h3
  linarith

/-- `c(a+t)·c(0) ≤ c(t)·c(a)`: moving both points towards the boundary raises the ratio of the normalisers -/
theorem bdNorm_shift (b D a t : ℝ) (hb : 0 < b) (ha : 0 ≤ a) (ht : 0 ≤ t) (hat : a + t ≤ D) :
    bdNorm b D (a + t) * bdNorm b D 0 ≤ bdNorm b D t * bdNorm b D a := by
  unfold bdNorm
  have e1 : Real.exp (-(a + t) / b) = Real.exp (-a / b) * Real.exp (-t / b) := by
    rw [← Real.exp_add]; congr 1; ring
  have e2 : Real.exp (-(D - (a + t)) / b) = Real.exp (-D / b) / (Real.exp (-a / b) * Real.exp (-t / b)) := by
    rw [← Real.exp_add, ← Real.exp_sub]; congr 1; ring
  have e3 : Real.exp (-(D - a) / b) = Real.exp (-D / b) / Real.exp (-a / b) := by
    rw [← Real.exp_sub]; congr 1; ring
  have e4 : Real.exp (-(D - t) / b) = Real.exp (-D / b) / Real.exp (-t / b) := by
    rw [← Real.exp_sub]; congr 1; ring
  have e5 : Real.exp (-(0:ℝ) / b) = 1 := by simp
  have e6 : Real.exp (-(D - 0) / b) = Real.exp (-D / b) := by rw [sub_zero]
  have hu1 : Real.exp (-a / b) ≤ 1 := by
    rw [← Real.exp_zero]; apply Real.exp_le_exp.mpr
    exact div_nonpos_of_nonpos_of_nonneg (by linarith) hb.le
  have hw1 : Real.exp (-t / b) ≤ 1 := by
    rw [← Real.exp_zero]; apply Real.exp_le_exp.mpr
    exact div_nonpos_of_nonpos_of_nonneg (by linarith) hb.le
  have hr : Real.exp (-D / b) ≤ Real.exp (-a / b) * Real.exp (-t / b) := by
    rw [← e1]; apply Real.exp_le_exp.mpr
    exact div_le_div_of_nonneg_right (by linarith) hb.le
  rw [e1, e2, e3, e4, e5, e6]
  have hu0 : 0 < Real.exp (-a / b) := Real.exp_pos _
  have hw0 : 0 < Real.exp (-t / b) := Real.exp_pos _
  have hr0 : 0 < Real.exp (-D / b) := Real.exp_pos _
  generalize Real.exp (-a / b) = u at *
  generalize Real.exp (-t / b) = w at *
  generalize Real.exp (-D / b) = r at *
  have key := norm_poly u w r hu0.le hu1 hw0.le hw1 hr0.le hr
  have l : (1 - (u * w + r / (u * w)) / 2) * (1 - (1 + r) / 2)
      = (2 * (u * w) - (u * w) ^ 2 - r) * (1 - r) / (4 * (u * w)) := by
    field_simp; ring
  have rr : (1 - (w + r / w) / 2) * (1 - (u + r / u) / 2)
      = (2 * w - w ^ 2 - r) * (2 * u - u ^ 2 - r) / (4 * (u * w)) := by
    field_simp; ring
  rw [l, rr]
  exact div_le_div_of_nonneg_right key (by positivity)

/-- `t ↦ e^{t/b}·c(t)` is monotone on `[0, D]` -/
theorem bdNorm_exp_mono (b D t Δ : ℝ) (hb : 0 < b) (_ht : 0 ≤ t) (htΔ : t ≤ Δ) (hΔ : Δ ≤ D) :
    Real.exp (t / b) * bdNorm b D t ≤ Real.exp (Δ / b) * bdNorm b D Δ := by
  unfold bdNorm
  have e1 : Real.exp (-t / b) = 1 / Real.exp (t / b) := by
    rw [one_div, ← Real.exp_neg]; congr 1; ring
  have e2 : Real.exp (-(D - t) / b) = Real.exp (-D / b) * Real.exp (t / b) := by
    rw [← Real.exp_add]; congr 1; ring
  have e3 : Real.exp (-Δ / b) = 1 / Real.exp (Δ / b) := by
    rw [one_div, ← Real.exp_neg]; congr 1; ring
  have e4 : Real.exp (-(D - Δ) / b) = Real.exp (-D / b) * Real.exp (Δ / b) := by
    rw [← Real.exp_add]; congr 1; ring
  have hpP : Real.exp (t / b) ≤ Real.exp (Δ / b) :=
    Real.exp_le_exp.mpr (div_le_div_of_nonneg_right htΔ hb.le)
  have hrP : Real.exp (-D / b) * Real.exp (Δ / b) ≤ 1 := by
    rw [← Real.exp_add, ← Real.exp_zero]; apply Real.exp_le_exp.mpr
    have : -D / b + Δ / b = (Δ - D) / b := by ring
    rw [this]; exact div_nonpos_of_nonpos_of_nonneg (by linarith) hb.le
  have hrp : Real.exp (-D / b) * Real.exp (t / b) ≤ 1 := by
    rw [← Real.exp_add, ← Real.exp_zero]; apply Real.exp_le_exp.mpr
    have : -D / b + t / b = (t - D) / b := by ring
    rw [this]; exact div_nonpos_of_nonpos_of_nonneg (by linarith) hb.le
  rw [e1, e2, e3, e4]
  have hp0 : 0 < Real.exp (t / b) := Real.exp_pos _
  have hP0 : 0 < Real.exp (Δ / b) := Real.exp_pos _
  generalize Real.exp (t / b) = p at *
  generalize Real.exp (Δ / b) = P at *
  generalize Real.exp (-D / b) = r at *
  have l : p * (1 - (1 / p + r * p) / 2) = p - 1 / 2 - r * p ^ 2 / 2 := by field_simp; ring
  have rr : P * (1 - (1 / P + r * P) / 2) = P - 1 / 2 - r * P ^ 2 / 2 := by field_simp; ring
  rw [l, rr]
  have h := mul_nonneg (sub_nonneg.mpr hpP) (by linarith : (0:ℝ) ≤ 2 - r * P - r * p)
  nlinarith

/-- **normaliser bound** (Holohan et al. Lemma 3.4 in the form needed): offsets `a, a' ∈ [0, D]`, `|a - a'| ≤ Δ ≤ D` -/
theorem bdNorm_ratio (b D a a' Δ : ℝ) (hb : 0 < b) (hD : 0 < D) (ha : 0 ≤ a) (haD : a ≤ D) (ha' : 0 ≤ a')
    (ha'D : a' ≤ D) (hd : |a - a'| ≤ Δ) (hΔD : Δ ≤ D) :
    Real.exp (|a - a'| / b) * bdNorm b D a' * bdNorm b D 0 ≤ Real.exp (Δ / b) * bdNorm b D Δ * bdNorm b D a := by
  have hexp : 0 < Real.exp (|a - a'| / b) := Real.exp_pos _
  rcases le_total a a' with h | h
  · -- a' = a + t
    have ht : |a - a'| = a' - a := by rw [abs_sub_comm, abs_of_nonneg (by linarith)]
    have h1 := bdNorm_shift b D a (a' - a) hb ha (by linarith) (by linarith)
    rw [show a + (a' - a) = a' by ring] at h1
    have h2 := bdNorm_exp_mono b D (a' - a) Δ hb (by linarith) (by rw [← ht]; exact hd) hΔD
    rw [ht]
    have hca : 0 < bdNorm b D a := bdNorm_pos b D a hb hD ha haD
    calc Real.exp ((a' - a) / b) * bdNorm b D a' * bdNorm b D 0
        = Real.exp ((a' - a) / b) * (bdNorm b D a' * bdNorm b D 0) := by ring
      _ ≤ Real.exp ((a' - a) / b) * (bdNorm b D (a' - a) * bdNorm b D a) :=
          mul_le_mul_of_nonneg_left h1 (Real.exp_pos _).le
      _ = (Real.exp ((a' - a) / b) * bdNorm b D (a' - a)) * bdNorm b D a := by ring
      _ ≤ (Real.exp (Δ / b) * bdNorm b D Δ) * bdNorm b D a := mul_le_mul_of_nonneg_right h2 hca.le
  · -- a' = a - t: mirror the domain
    have ht : |a - a'| = a - a' := abs_of_nonneg (by linarith)
    have h1 := bdNorm_shift b D (D - a) (a - a') hb (by linarith) (by linarith) (by linarith)
    rw [show D - a + (a - a') = D - a' by ring, bdNorm_symm, bdNorm_symm] at h1
    have h2 := bdNorm_exp_mono b D (a - a') Δ hb (by linarith) (by rw [← ht]; exact hd) hΔD
    rw [ht]
    have hca : 0 < bdNorm b D a := bdNorm_pos b D a hb hD ha haD
    calc Real.exp ((a - a') / b) * bdNorm b D a' * bdNorm b D 0
        = Real.exp ((a - a') / b) * (bdNorm b D a' * bdNorm b D 0) := by ring
      _ ≤ Real.exp ((a - a') / b) * (bdNorm b D (a - a') * bdNorm b D a) :=
          mul_le_mul_of_nonneg_left h1 (Real.exp_pos _).le
      _ = (Real.exp ((a - a') / b) * bdNorm b D (a - a')) * bdNorm b D a := by ring
      _ ≤ (Real.exp (Δ / b) * bdNorm b D Δ) * bdNorm b D a := mul_le_mul_of_nonneg_right h2 hca.le

/-! ### the coded `_delta_c` and `min` over ℝ -/

theorem pyMin2_real (a b : ℝ) : pyMin2 a b = min a b := by
  unfold pyMin2
  split_ifs with h
  · exact (min_eq_right h.le).symm
  · exact (min_eq_left (not_lt.mp h)).symm

/-- the coded `_delta_c(b)` is `c(Δ)/c(0)` -/
theorem bdDeltaC_real (sens D b : ℝ) (hb : 0 < b) (hD : 0 < D) :
    bdDeltaC sens D b = bdNorm b D sens / bdNorm b D 0 := by
  unfold bdDeltaC bdNorm
  simp only [feq_real, hb.ne', decide_false, Bool.false_eq_true, if_false, transc_exp]
  have hr : Real.exp (-D / b) < 1 := by
    rw [← Real.exp_zero]; apply Real.exp_lt_exp.mpr
    exact div_neg_of_neg_of_pos (by linarith) hb
  have e5 : Real.exp (-(0:ℝ) / b) = 1 := by simp
  rw [e5, sub_zero]
  have h1 : 1 - Real.exp (-D / b) ≠ 0 := by linarith
  have h2 : 1 - (1 + Real.exp (-D / b)) / 2 ≠ 0 := by linarith
  field_simp
  ring

/-- **density ratio of the bounded-domain Laplace law**, with the model's own `_delta_c` / `_f`: if the scale `b`
satisfies `_f(b) ≤ b` (it is on the private side of the fixed point), then for inputs of the domain at most `sens`
apart the density ratio is at most `e^ε/(1-δ)` at every output — no hypothesis on the normalisers left -/
theorem bounded_domain_density_ratio (eps delta sens lo hi b x x' y : ℝ) (hb : 0 < b) (hd : delta < 1)
    (hs : 0 < sens) (hlohi : lo < hi) (hx1 : lo ≤ x) (hx2 : x ≤ hi) (hx'1 : lo ≤ x') (hx'2 : x' ≤ hi)
    (hxx : |x - x'| ≤ sens)
    (hden : 0 < eps - Real.log (bdDeltaC (pyMin2 sens (hi - lo)) (hi - lo) b) - Real.log (1 - delta))
    (hfix : bdF eps delta (pyMin2 sens (hi - lo)) (hi - lo) b ≤ b) :
    Real.exp (-|y - x| / b) / (2 * b * (1 - (Real.exp (-(x - lo) / b) + Real.exp (-(hi - x) / b)) / 2)) ≤
      Real.exp eps / (1 - delta) *
        (Real.exp (-|y - x'| / b) / (2 * b * (1 - (Real.exp (-(x' - lo) / b) + Real.exp (-(hi - x') / b)) / 2))) := by
  set D := hi - lo with hDdef
  have hD : 0 < D := by linarith
  set Δ := pyMin2 sens D with hΔdef
  have hΔ : Δ = min sens D := pyMin2_real sens D
  have hΔ0 : 0 < Δ := by rw [hΔ]; exact lt_min hs hD
  have hΔD : Δ ≤ D := by rw [hΔ]; exact min_le_right _ _
  have h1d : 0 < 1 - delta := by linarith
  -- the normalisers are `bdNorm` at the offsets
  have eC : ∀ c : ℝ, 1 - (Real.exp (-(c - lo) / b) + Real.exp (-(hi - c) / b)) / 2 = bdNorm b D (c - lo) := by
    intro c
    unfold bdNorm
    have : D - (c - lo) = hi - c := by rw [hDdef]; ring
    rw [this]
  rw [eC x, eC x']
  have ha : 0 ≤ x - lo := by linarith
  have haD : x - lo ≤ D := by linarith
  have ha' : 0 ≤ x' - lo := by linarith
  have ha'D : x' - lo ≤ D := by linarith
  have hca : 0 < bdNorm b D (x - lo) := bdNorm_pos b D _ hb hD ha haD
  have hca' : 0 < bdNorm b D (x' - lo) := bdNorm_pos b D _ hb hD ha' ha'D
  have hc0 : 0 < bdNorm b D 0 := bdNorm_pos b D 0 hb hD le_rfl hD.le
  have hcΔ : 0 < bdNorm b D Δ := bdNorm_pos b D Δ hb hD hΔ0.le hΔD
  -- distance of the offsets
  have hdist : |(x - lo) - (x' - lo)| = |x - x'| := by congr 1; ring
  have hdΔ : |(x - lo) - (x' - lo)| ≤ Δ := by
    rw [hdist, hΔ]
    refine le_min hxx ?_
    rw [abs_le]; constructor <;> linarith
  have hnorm := bdNorm_ratio b D (x - lo) (x' - lo) Δ hb hD ha haD ha' ha'D hdΔ hΔD
  rw [hdist] at hnorm
  -- the fixed-point inequality: e^{Δ/b} · ΔC ≤ e^ε / (1-δ)
  have hdC : bdDeltaC Δ D b = bdNorm b D Δ / bdNorm b D 0 := bdDeltaC_real Δ D b hb hD
  have hdCpos : 0 < bdDeltaC Δ D b := by rw [hdC]; positivity
  have hsb : Δ / b ≤ eps - Real.log (bdDeltaC Δ D b) - Real.log (1 - delta) := by
    rw [div_le_iff₀ hb]
    have hf : Δ / (eps - Real.log (bdDeltaC Δ D b) - Real.log (1 - delta)) ≤ b := hfix
    have := (div_le_iff₀ hden).mp hf
    linarith [mul_comm b (eps - Real.log (bdDeltaC Δ D b) - Real.log (1 - delta))]
  have hexp : Real.exp (Δ / b) ≤ Real.exp eps / (bdDeltaC Δ D b * (1 - delta)) := by
    calc Real.exp (Δ / b) ≤ Real.exp (eps - Real.log (bdDeltaC Δ D b) - Real.log (1 - delta)) :=
          Real.exp_le_exp.mpr hsb
      _ = Real.exp eps / (bdDeltaC Δ D b * (1 - delta)) := by
        rw [Real.exp_sub, Real.exp_sub, Real.exp_log hdCpos, Real.exp_log h1d]; field_simp
  have hK : Real.exp (Δ / b) * bdNorm b D Δ ≤ Real.exp eps / (1 - delta) * bdNorm b D 0 := by
    have h := mul_le_mul_of_nonneg_right hexp hcΔ.le
    calc Real.exp (Δ / b) * bdNorm b D Δ ≤ Real.exp eps / (bdDeltaC Δ D b * (1 - delta)) * bdNorm b D Δ := h
      _ = Real.exp eps / (1 - delta) * bdNorm b D 0 := by
        rw [hdC]; field_simp
  -- e^{t/b} c(a') ≤ K c(a)
  have hmain : Real.exp (|x - x'| / b) * bdNorm b D (x' - lo) ≤
      Real.exp eps / (1 - delta) * bdNorm b D (x - lo) := by
    have h1 : Real.exp (|x - x'| / b) * bdNorm b D (x' - lo) * bdNorm b D 0 ≤
        Real.exp eps / (1 - delta) * bdNorm b D (x - lo) * bdNorm b D 0 := by
      calc Real.exp (|x - x'| / b) * bdNorm b D (x' - lo) * bdNorm b D 0
          ≤ Real.exp (Δ / b) * bdNorm b D Δ * bdNorm b D (x - lo) := hnorm
        _ ≤ Real.exp eps / (1 - delta) * bdNorm b D 0 * bdNorm b D (x - lo) :=
            mul_le_mul_of_nonneg_right hK hca.le
        _ = Real.exp eps / (1 - delta) * bdNorm b D (x - lo) * bdNorm b D 0 := by ring
    exact le_of_mul_le_mul_right h1 hc0
  -- the Laplace factor
  have hr := laplace_ratio b x x' y |x - x'| hb le_rfl
  have hq : 0 < Real.exp (-|y - x'| / b) := Real.exp_pos _
  rw [div_le_iff₀ (by positivity)]
  have hKpos : 0 < Real.exp eps / (1 - delta) := by positivity
  calc Real.exp (-|y - x| / b)
      ≤ Real.exp (|x - x'| / b) * Real.exp (-|y - x'| / b) := hr
    _ = Real.exp (-|y - x'| / b) * (Real.exp (|x - x'| / b) * bdNorm b D (x' - lo)) / bdNorm b D (x' - lo) := by
        field_simp
    _ ≤ Real.exp (-|y - x'| / b) * (Real.exp eps / (1 - delta) * bdNorm b D (x - lo)) / bdNorm b D (x' - lo) := by
        apply div_le_div_of_nonneg_right _ hca'.le
        exact mul_le_mul_of_nonneg_left hmain hq.le
    _ = Real.exp eps / (1 - delta) * (Real.exp (-|y - x'| / b) / (2 * b * bdNorm b D (x' - lo))) *
          (2 * b * bdNorm b D (x - lo)) := by
        field_simp

end DPL.Cont
