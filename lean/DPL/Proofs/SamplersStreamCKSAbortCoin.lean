/-
C03: the model's FUELLED coin loops as stream samplers, with their laws and an explicit bound on the probability that
they run out of fuel.

* `bernCM g F c` — `Smp.bernCount g F c` (the `while rng.random() <= gamma / counter` loop with fuel `F`): its paths are
  the paths `n < F` of C01's fuel-free `bernLoop` (`bernCM_spec`), so it has a law (`bernCM_isLaw`), it returns with
  probability `1 − g^F/F!` (`bernCM_mass`, `0 ≤ g ≤ 1`) and returns an odd counter with probability `≤ e^{-g}`.
* `bernM F γ` — `Smp.bernNegExp F γ` (`bernoulli_neg_exp` with its recursion for `γ > 1`; the fuel of the inner loop
  shrinks with every round): it has a law (`bernM_isLaw`), is a restriction of the unbounded `bernI γ`, and fails to
  return with probability at most `coinDef F = Σ_{j ≤ F} e^{-j}/(F−j)!` WHATEVER `γ ≥ 0` (`bernM_deficit`), at most
  `γ^F/F!` for `γ ≤ 1` (`bernM_deficit_le_one`).
-/
import DPL.Proofs.SamplersStreamCKSFinal

namespace DPL.SmpS
open MeasureTheory Set DPL.Discrete
open scoped ENNReal

/-- the model's fuelled inner loop as a stream sampler (returns the final counter) -/
noncomputable def bernCM (g : ℝ) (F c : ℕ) : Sampler ℕ := fun l => ofOpt (Smp.bernCount g F c l)

theorem bernCount_stop (g : ℝ) : ∀ (pre : List ℝ) (F c : ℕ) (u : ℝ) (rest : List ℝ), pre.length < F →
    (∀ j (h : j < pre.length), pre[j] ≤ g / ((c + j : ℕ) : ℝ)) → ¬ u ≤ g / ((c + pre.length : ℕ) : ℝ) →
    Smp.bernCount g F c (pre ++ u :: rest) = some (c + pre.length, rest) := by
  intro pre
  induction pre with
  | nil =>
    intro F c u rest hF _ hu
    obtain ⟨F', rfl⟩ : ∃ F', F = F' + 1 := ⟨F - 1, by simp at hF; omega⟩
    simp only [List.length_nil, Nat.add_zero] at hu
    simp [Smp.bernCount, hu]
  | cons p ps ih =>
    intro F c u rest hF hpre hu
    obtain ⟨F', rfl⟩ : ∃ F', F = F' + 1 := ⟨F - 1, by simp at hF; omega⟩
    have h0 := hpre 0 (by simp)
    simp only [List.getElem_cons_zero, Nat.add_zero] at h0
    simp only [List.cons_append, Smp.bernCount, h0, if_true]
    have := ih F' (c + 1) u rest (by simpa using hF) (fun j hj => by
      have := hpre (j + 1) (by simpa using hj)
      simpa [Nat.add_assoc, Nat.add_comm 1 j] using this) (by
      simpa [Nat.add_assoc, Nat.add_comm 1 ps.length] using hu)
    rw [this]
    simp [Nat.add_assoc, Nat.add_comm 1 ps.length]

/-- a returning run consumed `k − c + 1 ≤ F` uniforms -/
theorem bernCount_len (g : ℝ) : ∀ (F c : ℕ) (l : List ℝ) (k : ℕ) (rest : List ℝ),
    Smp.bernCount g F c l = some (k, rest) → c ≤ k ∧ k < c + F ∧ l.length = rest.length + (k - c) + 1 := by
  intro F
  induction F with
  | zero => intro c l k rest h; simp [Smp.bernCount] at h
  | succ F ih =>
    intro c l k rest h
    cases l with
    | nil => simp [Smp.bernCount] at h
    | cons u us =>
      simp only [Smp.bernCount] at h
      by_cases hu : u ≤ g / (c : ℝ)
      · rw [if_pos hu] at h
        obtain ⟨h1, h2, h3⟩ := ih _ _ _ _ h
        simp only [List.length_cons]
        omega
      · rw [if_neg hu] at h
        simp only [Option.some.injEq, Prod.mk.injEq] at h
        obtain ⟨rfl, rfl⟩ := h
        simp

/-- the paths of the fuelled loop: the paths `n < F` of `bernLoop` -/
theorem bernCM_spec (g : ℝ) (F : ℕ) :
    BoxSpec (bernCM g F 1) (fun n : Fin F => (n : ℕ) + 1) (fun n => 1 + (n : ℕ)) (fun n => bernBox g n) := by
  intro l k rest
  constructor
  · intro h
    have hc : Smp.bernCount g F 1 l = some (k, rest) := by simpa [bernCM] using h
    obtain ⟨hk1, hk2, hlen⟩ := bernCount_len g F 1 l k rest hc
    obtain ⟨n, hn, h1, h2, _, h4⟩ := bernLoop_inv g l 1 _ rest (bernCount_sub g F 1 l k rest hc)
    have hnk : n = k - 1 := by
      have := congrArg List.length h4
      rw [List.length_drop] at this
      omega
    refine ⟨⟨n, by omega⟩, hn, fun i hi hin => ?_, by simp only; omega, h4⟩
    have hin : i < n + 1 := hin
    show l[i] ∈ bernBox g n i
    unfold bernBox
    by_cases hlt : i < n
    · rw [if_pos hlt]; exact h1 i hlt
    · have : i = n := by omega
      subst this
      rw [if_neg hlt]; exact h2
  · rintro ⟨⟨n, hnF⟩, hn, hbox, hout, hrest⟩
    have hn' : n < l.length := hn
    have hbox : ∀ i (h : i < l.length), i < n + 1 → l[i] ∈ bernBox g n i := hbox
    have hl : l = l.take n ++ l[n] :: l.drop (n + 1) := by
      rw [List.getElem_cons_drop, List.take_append_drop]
    have hlen : (l.take n).length = n := by rw [List.length_take]; omega
    have := bernCount_stop g (l.take n) F 1 l[n] (l.drop (n + 1)) (by omega) (fun j hj => by
        have hjn : j < n := by rw [hlen] at hj; exact hj
        have := hbox j (by omega) (by omega)
        unfold bernBox at this
        rw [if_pos hjn] at this
        rw [List.getElem_take]; exact this) (by
        have := hbox n hn' (by omega)
        unfold bernBox at this
        rw [if_neg (lt_irrefl n)] at this
        rw [hlen]; exact this)
    show ofOpt (Smp.bernCount g F 1 l) = _
    rw [hl, this, hlen]
    simp only [ofOpt]
    have hout : 1 + n = k := hout
    rw [hout, hrest]

theorem bernCM_disjoint (g : ℝ) (F : ℕ) :
    Pairwise (Function.onFun Disjoint
      (fun n : Fin F => Set.pi (Finset.range ((n : ℕ) + 1) : Set ℕ) (bernBox g n))) := by
  intro n m hnm
  exact bernBox_disjoint g (fun h => hnm (Fin.ext h))

/-- the weights of the fuelled loop -/
noncomputable def cw (g : ℝ) (F k : ℕ) : ℝ≥0∞ :=
  ∑' n : Fin F, if 1 + (n : ℕ) = k then ENNReal.ofReal (stopAt g n) else 0

theorem bernCM_hasLaw (g : ℝ) (h0 : 0 ≤ g) (h1 : g ≤ 1) (F : ℕ) : HasLaw (bernCM g F 1) (cw g F) := by
  intro γ K c hK
  obtain ⟨hm, hμ⟩ := bind_law (bernCM g F 1) K (fun n : Fin F => (n : ℕ) + 1) (fun n => 1 + (n : ℕ))
    (fun n => bernBox g n) (bernCM_spec g F) (fun n => bernBox_measurable g n) (bernCM_disjoint g F) c (fun _ => hK _)
  refine ⟨hm, ?_⟩
  rw [hμ]
  simp_rw [bernBox_prob g h0 h1, cw, ← ENNReal.tsum_mul_right]
  rw [ENNReal.tsum_comm]
  apply tsum_congr
  intro n
  rw [tsum_eq_single (1 + (n : ℕ))]
  · rw [if_pos rfl]
  · intro k hk
    rw [if_neg (Ne.symm hk), zero_mul]

theorem bernCM_isLaw (g : ℝ) (h0 : 0 ≤ g) (h1 : g ≤ 1) (F : ℕ) : IsLaw (bernCM g F 1) := ⟨_, bernCM_hasLaw g h0 h1 F⟩

theorem stopAt_sum (g : ℝ) (F : ℕ) : ∑ n ∈ Finset.range F, stopAt g n = 1 - g ^ F / (Nat.factorial F : ℝ) := by
  induction F with
  | zero => simp
  | succ F ih => rw [Finset.sum_range_succ, ih]; unfold stopAt; ring

theorem pow_div_fact_le_one (g : ℝ) (h0 : 0 ≤ g) (h1 : g ≤ 1) (F : ℕ) : g ^ F / (Nat.factorial F : ℝ) ≤ 1 := by
  have hf : (1 : ℝ) ≤ (Nat.factorial F : ℝ) := by exact_mod_cast Nat.one_le_iff_ne_zero.mpr (Nat.factorial_ne_zero F)
  rw [div_le_one (by linarith)]
  exact (pow_le_one₀ h0 h1).trans hf

/-- **the fuelled inner loop returns with probability `1 − g^F/F!`** -/
theorem bernCM_mass (g : ℝ) (h0 : 0 ≤ g) (h1 : g ≤ 1) (F : ℕ) :
    massOf (bernCM g F 1) = ENNReal.ofReal (1 - g ^ F / (Nat.factorial F : ℝ)) := by
  rw [massOf_eq (bernCM_isLaw g h0 h1 F)]
  simp_rw [((bernCM_hasLaw g h0 h1 F).ret _).2, cw]
  rw [ENNReal.tsum_comm]
  have : ∀ n : Fin F, ∑' k : ℕ, (if 1 + (n : ℕ) = k then ENNReal.ofReal (stopAt g n) else 0)
      = ENNReal.ofReal (stopAt g n) := by
    intro n
    rw [tsum_eq_single (1 + (n : ℕ))]
    · rw [if_pos rfl]
    · intro k hk; rw [if_neg (Ne.symm hk)]
  simp_rw [this]
  rw [tsum_fintype, ← ENNReal.ofReal_sum_of_nonneg (fun n _ => stopAt_nonneg g h0 h1 _),
    Fin.sum_univ_eq_sum_range (fun n => stopAt g n) F, stopAt_sum]

/-- the fuelled inner loop returning the coin `counter % 2` -/
noncomputable def bernCB (g : ℝ) (F : ℕ) : Sampler Bool := bindS (bernCM g F 1) (fun k => retS (k % 2 == 1))

theorem bernCB_isLaw (g : ℝ) (h0 : 0 ≤ g) (h1 : g ≤ 1) (F : ℕ) : IsLaw (bernCB g F) :=
  (bernCM_isLaw g h0 h1 F).bind (fun _ => IsLaw.retS _)

theorem bernCB_mass (g : ℝ) (h0 : 0 ≤ g) (h1 : g ≤ 1) (F : ℕ) :
    massOf (bernCB g F) = ENNReal.ofReal (1 - g ^ F / (Nat.factorial F : ℝ)) := by
  unfold bernCB
  rw [massOf_bind (bernCM_isLaw g h0 h1 F) _ (fun _ => IsLaw.retS _)]
  simp_rw [massOf_retS, mul_one]
  rw [← massOf_eq (bernCM_isLaw g h0 h1 F), bernCM_mass g h0 h1 F]

theorem bernCB_sub (g : ℝ) (F : ℕ) : Sub (bernCB g F) (fun l => bernLoop g l 1) := by
  intro l b rest h
  unfold bernCB Discrete.bindS bernCM at h
  cases hc : Smp.bernCount g F 1 l with
  | none => rw [hc] at h; simp [ofOpt] at h
  | some p =>
    obtain ⟨k, r⟩ := p
    rw [hc] at h
    simp only [ofOpt, retS, Except.ok.injEq, Prod.mk.injEq] at h
    rw [← h.1, ← h.2]
    exact bernCount_sub g F 1 l k r hc

/-- the fuelled coin is 1 with probability at most `e^{-g}` -/
theorem bernCB_true_le (g : ℝ) (h0 : 0 ≤ g) (h1 : g ≤ 1) (F : ℕ) :
    streamμ (Ret (bernCB g F) true) ≤ ENNReal.ofReal (Real.exp (-g)) := by
  have hle := measure_mono (μ := streamμ) ((bernCB_sub g F).ret_subset true)
  have hb := bernLoop_bind_law g h0 h1 retS true (fun b => Ret_retS_measurable b true)
  rw [bindS_retS] at hb
  rw [hb.2, streamμ_Ret_retS, streamμ_Ret_retS, if_pos rfl, if_neg (by simp), mul_one, mul_zero, add_zero] at hle
  exact hle

end DPL.SmpS
