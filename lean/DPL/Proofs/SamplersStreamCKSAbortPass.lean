/-
C03: the model's `bernoulli_neg_exp` (`Smp.bernNegExp F γ`, fuel `F`) and geometric count loop (`Smp.geomCount`, inner coin
fuel `fb`, cap `fg`) as stream samplers with laws, and explicit bounds on the probability that they do not return.

A "deficit" of a sampler `f` is any `d` with `1 ≤ massOf f + d` (`massOf f` = the probability that `f` returns).
* `deficit_bind`      — deficits add along a sequential composition;
* `deficit_bind_bool` — for `if coin then g else h` with `h` total: `δ_coin + P[coin = 1]·d_g` (the renewal estimate);
* `bernM_deficit`     — `bernoulli_neg_exp(γ)` with fuel `F` fails to return with probability ≤ `coinDef F`, where
                        `coinDef 0 = 1`, `coinDef (F+1) = 1/(F+1)! + e^{-1}·coinDef F` (`= Σ_{j≤F} e^{-j}/(F−j)!`), for EVERY γ ≥ 0;
                        for `γ ≤ 1` the deficit is `γ^F/F!` (`bernM_deficit_le_one`);
* `geomM_deficit`     — the geometric count with cap `fg` fails to return with probability ≤ `geomDef δ τ fg`, where
                        `geomDef 0 = 1`, `geomDef (F+1) = δ + e^{-τ}·geomDef F` (so `≤ fg·δ + e^{-τ·fg}`), `δ = τ^fb/fb!`.
-/
import DPL.Proofs.SamplersStreamCKSAbortCoin
import DPL.Proofs.SamplersStreamCKSFuel

namespace DPL.SmpS
open MeasureTheory Set DPL.Discrete
open scoped ENNReal

theorem massOf_le_one {β : Type} (f : Sampler β) : massOf f ≤ 1 := prob_le_one

theorem massOf_bool {f : Sampler Bool} (h : IsLaw f) :
    massOf f = streamμ (Ret f true) + streamμ (Ret f false) := by
  rw [massOf_eq h, tsum_bool, add_comm]

/-- deficits add along a sequential composition -/
theorem deficit_bind {β γ : Type} {f : Sampler β} (hf : IsLaw f) (K : β → Sampler γ) (hK : ∀ b, IsLaw (K b))
    (δ d : ℝ≥0∞) (h1 : 1 ≤ massOf f + δ) (h2 : ∀ b, 1 ≤ massOf (K b) + d) :
    1 ≤ massOf (bindS f K) + (δ + d) := by
  rw [massOf_bind hf K hK]
  have hsum : ∑' b, streamμ (Ret f b) = massOf f := (massOf_eq hf).symm
  have h3 : massOf f ≤ ∑' b, streamμ (Ret f b) * massOf (K b) + d := by
    calc massOf f = ∑' b, streamμ (Ret f b) * 1 := by simp_rw [mul_one]; exact hsum.symm
      _ ≤ ∑' b, streamμ (Ret f b) * (massOf (K b) + d) := ENNReal.tsum_le_tsum fun b => mul_le_mul_right (h2 b) _
      _ = ∑' b, streamμ (Ret f b) * massOf (K b) + (∑' b, streamμ (Ret f b)) * d := by
          simp_rw [mul_add]; rw [ENNReal.tsum_add, ENNReal.tsum_mul_right]
      _ ≤ _ := by
          rw [hsum]
          exact add_le_add le_rfl (mul_le_of_le_one_left zero_le (massOf_le_one f))
  calc (1 : ℝ≥0∞) ≤ massOf f + δ := h1
    _ ≤ (∑' b, streamμ (Ret f b) * massOf (K b) + d) + δ := add_le_add h3 le_rfl
    _ = _ := by ring

/-- the renewal estimate: `if coin then g else h`, `h` total -/
theorem deficit_bind_bool {γ : Type} {f : Sampler Bool} (hf : IsLaw f) (g h : Sampler γ) (hg : IsLaw g) (hh : IsLaw h)
    (δ q d : ℝ≥0∞) (h1 : 1 ≤ massOf f + δ) (hq : streamμ (Ret f true) ≤ q) (h2 : 1 ≤ massOf g + d)
    (h3 : massOf h = 1) :
    1 ≤ massOf (bindS f (fun b => if b then g else h)) + (δ + q * d) := by
  rw [massOf_bind hf _ (fun b => by cases b <;> simpa), tsum_bool]
  simp only [Bool.false_eq_true, if_false, if_true, h3, mul_one]
  rw [massOf_bool hf] at h1
  set p1 := streamμ (Ret f true)
  set p0 := streamμ (Ret f false)
  have : p1 ≤ p1 * massOf g + q * d := by
    calc p1 = p1 * 1 := (mul_one _).symm
      _ ≤ p1 * (massOf g + d) := mul_le_mul_right h2 _
      _ = p1 * massOf g + p1 * d := mul_add _ _ _
      _ ≤ _ := add_le_add le_rfl (mul_le_mul_left hq _)
  calc (1 : ℝ≥0∞) ≤ p1 + p0 + δ := h1
    _ ≤ (p1 * massOf g + q * d) + p0 + δ := by gcongr
    _ = _ := by ring

/-! ### `bernoulli_neg_exp` with fuel -/

/-- the model's `bernoulli_neg_exp` as a stream sampler -/
noncomputable def bernM (F : ℕ) (γ : ℝ) : Sampler Bool := fun l => ofOpt (Smp.bernNegExp F γ l)

theorem bernM_zero (γ : ℝ) : bernM 0 γ = fun _ => .error .exhausted := by
  funext l; simp [bernM, Smp.bernNegExp, ofOpt]

theorem bernM_succ (F : ℕ) (γ : ℝ) :
    bernM (F + 1) γ = if 1 < γ then bindS (bernCB 1 (F + 1)) (fun b => if b then bernM F (γ - 1) else retS false)
      else bernCB γ (F + 1) := by
  funext l
  by_cases h : 1 < γ
  · simp only [bernM, Smp.bernNegExp, h, if_true, bernCB, bindS, bernCM]
    cases hc : Smp.bernCount (1:ℝ) (F + 1) 1 l with
    | none => simp [ofOpt]
    | some p =>
      obtain ⟨k, r⟩ := p
      simp only [ofOpt, retS]
      by_cases hk : (k % 2 == 1) = true
      · simp [hk]; rfl
      · simp [hk]; rfl
  · simp only [bernM, Smp.bernNegExp, h, if_false, bernCB, bindS, bernCM]
    cases hc : Smp.bernCount γ (F + 1) 1 l with
    | none => simp [ofOpt]
    | some p => simp [ofOpt, retS]

theorem bernM_isLaw : ∀ (F : ℕ) (γ : ℝ), 0 ≤ γ → IsLaw (bernM F γ) := by
  intro F
  induction F with
  | zero => intro γ _; rw [bernM_zero]; exact IsLaw.error _
  | succ F ih =>
    intro γ h0
    rw [bernM_succ]
    split_ifs with h
    · refine (bernCB_isLaw 1 zero_le_one le_rfl _).bind (fun b => ?_)
      cases b
      · exact IsLaw.retS _
      · exact ih (γ - 1) (by linarith)
    · exact bernCB_isLaw γ h0 (not_lt.mp h) _

theorem bernM_sub (F : ℕ) (γ : ℝ) (h0 : 0 ≤ γ) : Sub (bernM F γ) (bernI γ) := by
  intro l b rest h
  exact bernNegExp_sub F γ h0 l b rest (by simpa [bernM] using h)

/-- the fuelled coin is 1 with probability at most `e^{-γ}` -/
theorem bernM_true_le (F : ℕ) (γ : ℝ) (h0 : 0 ≤ γ) :
    streamμ (Ret (bernM F γ) true) ≤ ENNReal.ofReal (Real.exp (-γ)) := by
  have := measure_mono (μ := streamμ) ((bernM_sub F γ h0).ret_subset true)
  rwa [((bernI_hasLaw γ h0).ret true).2, bw, if_pos rfl] at this

/-- bound on the probability that `bernoulli_neg_exp` with fuel `F` does not return, uniform in `γ` -/
noncomputable def coinDef : ℕ → ℝ
  | 0 => 1
  | F + 1 => 1 / (Nat.factorial (F + 1) : ℝ) + Real.exp (-1) * coinDef F

theorem coinDef_nonneg : ∀ F, 0 ≤ coinDef F
  | 0 => by simp [coinDef]
  | F + 1 => by
    have := coinDef_nonneg F
    simp only [coinDef]; positivity

theorem inv_fact_le_coinDef : ∀ F, 1 / (Nat.factorial F : ℝ) ≤ coinDef F
  | 0 => by simp [coinDef]
  | F + 1 => by
    have := coinDef_nonneg F
    simp only [coinDef]
    have : 0 ≤ Real.exp (-1) * coinDef F := by positivity
    linarith

theorem bernCB_deficit (g : ℝ) (h0 : 0 ≤ g) (h1 : g ≤ 1) (F : ℕ) :
    1 ≤ massOf (bernCB g F) + ENNReal.ofReal (g ^ F / (Nat.factorial F : ℝ)) := by
  have hx0 : 0 ≤ g ^ F / (Nat.factorial F : ℝ) := by positivity
  rw [bernCB_mass g h0 h1, ← ENNReal.ofReal_add (by linarith [pow_div_fact_le_one g h0 h1 F]) hx0]
  simp

theorem bernM_deficit_le_one (F : ℕ) (γ : ℝ) (h0 : 0 ≤ γ) (h1 : γ ≤ 1) :
    1 ≤ massOf (bernM F γ) + ENNReal.ofReal (γ ^ F / (Nat.factorial F : ℝ)) := by
  cases F with
  | zero => simp
  | succ F =>
    rw [bernM_succ, if_neg (not_lt.mpr h1)]
    exact bernCB_deficit γ h0 h1 _

/-- **`bernoulli_neg_exp(γ)` with fuel `F` fails to return with probability at most `coinDef F`**, whatever `γ ≥ 0` -/
theorem bernM_deficit : ∀ (F : ℕ) (γ : ℝ), 0 ≤ γ → 1 ≤ massOf (bernM F γ) + ENNReal.ofReal (coinDef F) := by
  intro F
  induction F with
  | zero => intro γ _; simp [coinDef]
  | succ F ih =>
    intro γ h0
    by_cases h : 1 < γ
    · rw [bernM_succ, if_pos h]
      have key := deficit_bind_bool (bernCB_isLaw 1 zero_le_one le_rfl (F + 1)) (bernM F (γ - 1)) (retS false)
        (bernM_isLaw F (γ - 1) (by linarith)) (IsLaw.retS _) _ _ _
        (bernCB_deficit 1 zero_le_one le_rfl (F + 1)) (bernCB_true_le 1 zero_le_one le_rfl (F + 1))
        (ih (γ - 1) (by linarith)) (massOf_retS _)
      refine key.trans (add_le_add le_rfl (le_of_eq ?_))
      rw [one_pow, ← ENNReal.ofReal_mul (Real.exp_pos _).le,
        ← ENNReal.ofReal_add (by positivity) (mul_nonneg (Real.exp_pos _).le (coinDef_nonneg F))]
      rfl
    · have h1 : γ ≤ 1 := not_lt.mp h
      refine (bernM_deficit_le_one (F + 1) γ h0 h1).trans (add_le_add le_rfl (ENNReal.ofReal_le_ofReal ?_))
      refine le_trans ?_ (inv_fact_le_coinDef (F + 1))
      exact div_le_div_of_nonneg_right (pow_le_one₀ h0 h1) (by positivity)

/-! ### the geometric count -/

/-- the model's geometric count (inner coin fuel `fb`, at most `F` rounds, counter started at `n`) as a stream sampler -/
noncomputable def geomM (fb : ℕ) (τ : ℝ) (F n : ℕ) : Sampler ℕ := fun l => ofOpt (geomCountG fb τ F n l)

theorem geomM_zero (fb : ℕ) (τ : ℝ) (n : ℕ) : geomM fb τ 0 n = fun _ => .error .exhausted := by
  funext l; simp [geomM, geomCountG, ofOpt]

theorem geomM_succ (fb : ℕ) (τ : ℝ) (F n : ℕ) :
    geomM fb τ (F + 1) n = bindS (bernM fb τ) (fun b => if b then geomM fb τ F (n + 1) else retS n) := by
  funext l
  simp only [geomM, geomCountG, bindS, bernM]
  cases hb : Smp.bernNegExp fb τ l with
  | none => simp [ofOpt]
  | some p =>
    obtain ⟨b, r⟩ := p
    cases b
    · simp [ofOpt, retS]
    · simp; rfl

theorem geomM_isLaw (fb : ℕ) (τ : ℝ) (h0 : 0 ≤ τ) : ∀ F n, IsLaw (geomM fb τ F n) := by
  intro F
  induction F with
  | zero => intro n; rw [geomM_zero]; exact IsLaw.error _
  | succ F ih =>
    intro n
    rw [geomM_succ]
    refine (bernM_isLaw fb τ h0).bind (fun b => ?_)
    cases b
    · exact IsLaw.retS _
    · exact ih (n + 1)

/-- bound on the probability that the geometric count (coin deficit `δ`, cap `F`) does not return -/
noncomputable def geomDef (δ τ : ℝ) : ℕ → ℝ
  | 0 => 1
  | F + 1 => δ + Real.exp (-τ) * geomDef δ τ F

theorem geomDef_nonneg (δ τ : ℝ) (hδ : 0 ≤ δ) : ∀ F, 0 ≤ geomDef δ τ F
  | 0 => by simp [geomDef]
  | F + 1 => by
    have := geomDef_nonneg δ τ hδ F
    simp only [geomDef]; positivity

/-- closed-form bound: `geomDef δ τ F ≤ F·δ + e^{-τF}` -/
theorem geomDef_le (δ τ : ℝ) (hδ : 0 ≤ δ) (h0 : 0 ≤ τ) : ∀ F : ℕ, geomDef δ τ F ≤ F * δ + Real.exp (-(τ * F))
  | 0 => by simp [geomDef]
  | F + 1 => by
    have ih := geomDef_le δ τ hδ h0 F
    have hq : Real.exp (-τ) ≤ 1 := Real.exp_le_one_iff.mpr (by linarith)
    have hq0 : 0 < Real.exp (-τ) := Real.exp_pos _
    have hFδ : 0 ≤ (F : ℝ) * δ := by positivity
    have e : Real.exp (-(τ * ((F + 1 : ℕ) : ℝ))) = Real.exp (-τ) * Real.exp (-(τ * F)) := by
      rw [← Real.exp_add]; congr 1; push_cast; ring
    simp only [geomDef]
    rw [e]; push_cast
    calc δ + Real.exp (-τ) * geomDef δ τ F ≤ δ + Real.exp (-τ) * (F * δ + Real.exp (-(τ * F))) := by gcongr
      _ = δ + Real.exp (-τ) * (F * δ) + Real.exp (-τ) * Real.exp (-(τ * F)) := by ring
      _ ≤ δ + 1 * (F * δ) + Real.exp (-τ) * Real.exp (-(τ * F)) := by gcongr
      _ = _ := by ring

/-- **the geometric count with cap `F` fails to return with probability at most `geomDef δ τ F`** -/
theorem geomM_deficit (fb : ℕ) (τ δ : ℝ) (h0 : 0 ≤ τ) (hδ : 0 ≤ δ)
    (hcoin : 1 ≤ massOf (bernM fb τ) + ENNReal.ofReal δ) :
    ∀ F n, 1 ≤ massOf (geomM fb τ F n) + ENNReal.ofReal (geomDef δ τ F) := by
  intro F
  induction F with
  | zero => intro n; simp [geomDef]
  | succ F ih =>
    intro n
    rw [geomM_succ]
    have key := deficit_bind_bool (bernM_isLaw fb τ h0) (geomM fb τ F (n + 1)) (retS n)
      (geomM_isLaw fb τ h0 F (n + 1)) (IsLaw.retS _) _ _ _ hcoin (bernM_true_le fb τ h0) (ih (n + 1)) (massOf_retS _)
    refine key.trans (add_le_add le_rfl (le_of_eq ?_))
    rw [← ENNReal.ofReal_mul (Real.exp_pos _).le,
      ← ENNReal.ofReal_add hδ (mul_nonneg (Real.exp_pos _).le (geomDef_nonneg δ τ hδ F))]
    rfl

theorem geomM_sub (fb : ℕ) (τ : ℝ) (h0 : 0 ≤ τ) (F : ℕ) : Sub (geomM fb τ F 0) (geomI τ F) := by
  intro l m rest h
  obtain ⟨j, hj, hg⟩ := geomCountG_sub fb τ h0 F 0 l m rest (by simpa [geomM] using h)
  have : j = m := by omega
  subst this; exact hg

end DPL.SmpS
