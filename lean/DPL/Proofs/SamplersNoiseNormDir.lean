/-
Helper lemmas for C17 §6 (the direction of the noise vector):

* `unitDir x = ‖x‖⁻¹ • x` commutes with linear isometries, is measurable, has norm 1 off the origin;
* `stdGaussian_dir_map` — the law of the direction of a standard Gaussian vector is invariant under every linear
  isometry (rotation / reflection) of the space;
* `stdGaussian_singleton_zero`, `stdGaussian_dir_sphere` — a standard Gaussian vector (dimension ≥ 1) is a.s. non-zero,
  so its direction lies a.s. on the unit sphere;
* `norm2_ofFn`, `modelDir_ofFn` — the bridge `List ℝ ↔ EuclideanSpace ℝ (Fin d)`: the model's `norm2` is the Euclidean
  norm, the model's direction `v.map (· / norm2 v)` is, coordinate by coordinate, `unitDir`;
* `vecDir_cons4`, `gauss4_half_map` — one coordinate of `vecDir` is `(n₁+n₂+n₃+n₄)/2` of its own four draws, which is
  standard normal for four independent standard normals.
-/
import DPL.Proofs.SamplersLogReg
import Mathlib.Probability.Distributions.Gaussian.Multivariate
import Mathlib.MeasureTheory.Constructions.HaarToSphere

namespace DPL.Smp
open MeasureTheory ProbabilityTheory DPL.LogReg

section
variable {E : Type*} [NormedAddCommGroup E] [InnerProductSpace ℝ E]

/-- the direction `x / ‖x‖` of a vector -/
noncomputable def unitDir (x : E) : E := (‖x‖⁻¹ : ℝ) • x

theorem unitDir_isometry (f : E ≃ₗᵢ[ℝ] E) (x : E) : unitDir (f x) = f (unitDir x) := by
  unfold unitDir
  rw [f.norm_map, map_smul]

theorem norm_unitDir {x : E} (hx : x ≠ 0) : ‖unitDir x‖ = 1 := by
  unfold unitDir
  rw [norm_smul, norm_inv, norm_norm, inv_mul_cancel₀ (norm_ne_zero_iff.mpr hx)]

variable [FiniteDimensional ℝ E] [MeasurableSpace E] [BorelSpace E]

theorem measurable_unitDir : Measurable (unitDir : E → E) := by
  unfold unitDir
  exact measurable_norm.inv.smul measurable_id

/-- **rotation invariance of the direction law**: for a standard Gaussian vector `x`, `x/‖x‖` and `f (x/‖x‖)` have the
same law for every linear isometry `f` -/
theorem stdGaussian_dir_map (f : E ≃ₗᵢ[ℝ] E) :
    ((stdGaussian E).map unitDir).map f = (stdGaussian E).map unitDir := by
  have hf : Measurable f := f.continuous.measurable
  rw [Measure.map_map hf measurable_unitDir]
  have : (f ∘ unitDir : E → E) = unitDir ∘ f := by
    funext x; simp only [Function.comp, unitDir_isometry]
  rw [this, ← Measure.map_map measurable_unitDir hf, stdGaussian_map f]

/-- a standard Gaussian vector in dimension ≥ 1 is almost surely non-zero -/
theorem stdGaussian_singleton_zero [Nontrivial E] : stdGaussian E {0} = 0 := by
  obtain ⟨x, hx⟩ := exists_ne (0 : E)
  set L : StrongDual ℝ E := innerSL ℝ x with hL
  have hLn : ‖L‖ ≠ 0 := by rw [hL, innerSL_apply_norm]; exact norm_ne_zero_iff.mpr hx
  have hmap : (stdGaussian E).map L = gaussianReal 0 (‖L‖ ^ 2).toNNReal := by
    rw [IsGaussian.map_eq_gaussianReal L, integral_strongDual_stdGaussian, variance_dual_stdGaussian]
  have hv : (‖L‖ ^ 2).toNNReal ≠ 0 := by
    rw [Ne, Real.toNNReal_eq_zero, not_le]; positivity
  have : NullSingletonClass (gaussianReal 0 (‖L‖ ^ 2).toNNReal) := nullSingletonClass_gaussianReal hv
  have hsub : ({0} : Set E) ⊆ L ⁻¹' {0} := by
    intro y hy; rw [Set.mem_singleton_iff] at hy; simp [hy]
  refine measure_mono_null hsub ?_
  rw [← Measure.map_apply L.continuous.measurable (measurableSet_singleton 0), hmap]
  exact measure_singleton 0

/-- the direction of a standard Gaussian vector lies almost surely on the unit sphere -/
theorem stdGaussian_dir_sphere [Nontrivial E] :
    (stdGaussian E).map unitDir (Metric.sphere (0 : E) 1)ᶜ = 0 := by
  rw [Measure.map_apply measurable_unitDir Metric.isClosed_sphere.measurableSet.compl]
  refine measure_mono_null ?_ (stdGaussian_singleton_zero (E := E))
  intro x hx
  by_contra h0
  apply hx
  simp only [Metric.mem_sphere, dist_zero_right]
  exact norm_unitDir h0

end

/-! ### the bridge `List ℝ ↔ EuclideanSpace` -/

theorem sumSq_ofFn {d : ℕ} (x : Fin d → ℝ) : sumSq (List.ofFn x) = ∑ i, x i ^ 2 := by
  unfold sumSq
  rw [sumSq_foldl, zero_add, List.map_ofFn, List.sum_ofFn]
  apply Finset.sum_congr rfl
  intro i _; simp only [Function.comp]; ring

/-- the model's `norm2` (`np.linalg.norm(·, 2)`) is the Euclidean norm -/
theorem norm2_ofFn {d : ℕ} (x : Fin d → ℝ) : norm2 (List.ofFn x) = ‖WithLp.toLp 2 x‖ := by
  unfold norm2
  simp only [transc_sqrt]
  rw [sumSq_ofFn, EuclideanSpace.norm_eq]
  congr 1
  apply Finset.sum_congr rfl
  intro i _; simp

/-- the model's direction `v / ‖v‖` (what `vecNoise` rescales) is `unitDir`, coordinate by coordinate -/
theorem modelDir_ofFn {d : ℕ} (x : Fin d → ℝ) :
    (List.ofFn x).map (fun c => c / norm2 (List.ofFn x))
      = List.ofFn (fun i => (unitDir (WithLp.toLp 2 x : EuclideanSpace ℝ (Fin d))) i) := by
  rw [List.map_ofFn, norm2_ofFn]
  congr 1
  funext i
  simp only [Function.comp, unitDir, PiLp.smul_apply, smul_eq_mul]
  rw [div_eq_inv_mul]

/-! ### one coordinate of the direction: `(n₁+n₂+n₃+n₄)/2` of four standard normals is standard normal -/

/-- `np.reshape(normals, (-1, 4)).sum(axis=1) / 2`: every coordinate consumes its own four draws -/
theorem vecDir_cons4 (a b c d : ℝ) (rest : List ℝ) :
    vecDir (a :: b :: c :: d :: rest) = (a + b + c + d) / 2 :: vecDir rest := rfl

open scoped NNReal in
theorem gauss4_half_map :
    ((gaussianReal 0 1).prod ((gaussianReal 0 1).prod ((gaussianReal 0 1).prod (gaussianReal 0 1)))).map
      (fun n : ℝ × ℝ × ℝ × ℝ => (n.1 + n.2.1 + n.2.2.1 + n.2.2.2) / 2) = gaussianReal 0 1 := by
  set γ := gaussianReal 0 1 with hγ
  set S : ℝ × ℝ → ℝ := fun n => n.1 + n.2 with hSdef
  have hS : Measurable S := measurable_fst.add measurable_snd
  have hadd : ∀ v : ℝ≥0, (γ.prod (gaussianReal 0 v)).map S = gaussianReal 0 (1 + v) := by
    intro v
    have := gaussianReal_conv_gaussianReal (m₁ := 0) (m₂ := 0) (v₁ := 1) (v₂ := v)
    rw [Measure.conv] at this
    rw [hSdef, hγ, this]; simp
  have h2 : (γ.prod γ).map S = gaussianReal 0 2 := by
    rw [hγ, ← hγ, hadd 1]; norm_num
  have h3 : (γ.prod (γ.prod γ)).map (fun n : ℝ × ℝ × ℝ => n.1 + (n.2.1 + n.2.2)) = gaussianReal 0 3 := by
    have : (fun n : ℝ × ℝ × ℝ => n.1 + (n.2.1 + n.2.2)) = S ∘ Prod.map id S := rfl
    rw [this, ← Measure.map_map hS (measurable_id.prodMap hS), ← Measure.map_prod_map _ _ measurable_id hS,
      Measure.map_id, h2, hadd 2]
    norm_num
  have hS3 : Measurable (fun n : ℝ × ℝ × ℝ => n.1 + (n.2.1 + n.2.2)) :=
    measurable_fst.add (measurable_snd.fst.add measurable_snd.snd)
  have h4 : (γ.prod (γ.prod (γ.prod γ))).map (fun n : ℝ × ℝ × ℝ × ℝ => n.1 + (n.2.1 + (n.2.2.1 + n.2.2.2)))
      = gaussianReal 0 4 := by
    have : (fun n : ℝ × ℝ × ℝ × ℝ => n.1 + (n.2.1 + (n.2.2.1 + n.2.2.2)))
        = S ∘ Prod.map id (fun n : ℝ × ℝ × ℝ => n.1 + (n.2.1 + n.2.2)) := rfl
    rw [this, ← Measure.map_map hS (measurable_id.prodMap hS3), ← Measure.map_prod_map _ _ measurable_id hS3,
      Measure.map_id, h3, hadd 3]
    norm_num
  have hS4 : Measurable (fun n : ℝ × ℝ × ℝ × ℝ => n.1 + (n.2.1 + (n.2.2.1 + n.2.2.2))) :=
    measurable_fst.add (measurable_snd.fst.add (measurable_snd.snd.fst.add measurable_snd.snd.snd))
  have hcomp : (fun n : ℝ × ℝ × ℝ × ℝ => (n.1 + n.2.1 + n.2.2.1 + n.2.2.2) / 2)
      = (fun x : ℝ => x / 2) ∘ (fun n : ℝ × ℝ × ℝ × ℝ => n.1 + (n.2.1 + (n.2.2.1 + n.2.2.2))) := by
    funext n; simp only [Function.comp]; ring
  have hdiv : Measurable (fun x : ℝ => x / 2) := measurable_id.div_const _
  rw [hcomp, ← Measure.map_map hdiv hS4, h4, gaussianReal_map_div_const, hγ]
  congr 1
  · simp
  · ext; norm_num

end DPL.Smp
