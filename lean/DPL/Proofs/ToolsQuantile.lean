/-
The exponential mechanism over ranks that `tools.quantile` samples from, as a density on the output domain `[l, u]`,
and its pure ε-DP bound under replacement of one record: for ALL data sets, all replaced records and every output y
the density changes by a factor of at most e^ε.  Self-contained over ℝ.
-/
import Mathlib.MeasureTheory.Integral.IntervalIntegral.Basic
import Mathlib.MeasureTheory.Constructions.BorelSpace.Order
import Mathlib.MeasureTheory.Measure.Lebesgue.Basic
import Mathlib.Analysis.SpecialFunctions.Exp
import Mathlib.Tactic.Linarith
import Mathlib.Tactic.Positivity
import Mathlib.Tactic.Ring

namespace DPL.Tools

open MeasureTheory

/-- number of records ≤ y: the index of the inter-point interval that contains y -/
noncomputable def rank (D : List ℝ) (y : ℝ) : ℕ := D.countP (fun x => decide (x ≤ y))

/-- utility of releasing y for the q-quantile of D: −|rank − q·k| -/
noncomputable def rankUtil (q : ℝ) (D : List ℝ) (y : ℝ) : ℝ := -|(rank D y : ℝ) - q * (D.length : ℝ)|

/-- unnormalised density of the exponential mechanism with sensitivity 1: exp(ε/2 · utility) -/
noncomputable def rankWeight (ε q : ℝ) (D : List ℝ) (y : ℝ) : ℝ := Real.exp (ε / 2 * rankUtil q D y)

/-- normaliser: the integral of the weight over the output domain [l, u] -/
noncomputable def rankZ (ε q l u : ℝ) (D : List ℝ) : ℝ := ∫ y in l..u, rankWeight ε q D y

noncomputable def rankDensity (ε q l u : ℝ) (D : List ℝ) (y : ℝ) : ℝ := rankWeight ε q D y / rankZ ε q l u D

/-! ### the rank under one replacement -/

theorem rank_append_cons (pre post : List ℝ) (a y : ℝ) :
    rank (pre ++ a :: post) y = rank pre y + rank post y + (if a ≤ y then 1 else 0) := by
  unfold rank
  rw [List.countP_append, List.countP_cons]
  simp only [decide_eq_true_eq]
  omega

/-- one replacement moves the rank by at most one at every y -/
theorem rank_replace (pre post : List ℝ) (x x' y : ℝ) :
    |(rank (pre ++ x :: post) y : ℝ) - (rank (pre ++ x' :: post) y : ℝ)| ≤ 1 := by
  rw [rank_append_cons, rank_append_cons]
  split_ifs <;> push_cast <;> simp

theorem length_replace (pre post : List ℝ) (x x' : ℝ) :
    (pre ++ x :: post).length = (pre ++ x' :: post).length := by
  simp

theorem rankUtil_replace (q : ℝ) (pre post : List ℝ) (x x' y : ℝ) :
    rankUtil q (pre ++ x :: post) y ≤ rankUtil q (pre ++ x' :: post) y + 1 := by
  unfold rankUtil
  rw [length_replace pre post x x']
  have h := rank_replace pre post x x' y
  have h2 := abs_abs_sub_abs_le_abs_sub
    ((rank (pre ++ x' :: post) y : ℝ) - q * ((pre ++ x' :: post).length : ℝ))
    ((rank (pre ++ x :: post) y : ℝ) - q * ((pre ++ x' :: post).length : ℝ))
  have h3 := le_abs_self
    (|(rank (pre ++ x' :: post) y : ℝ) - q * ((pre ++ x' :: post).length : ℝ)|
      - |(rank (pre ++ x :: post) y : ℝ) - q * ((pre ++ x' :: post).length : ℝ)|)
  have h4 : (rank (pre ++ x' :: post) y : ℝ) - q * ((pre ++ x' :: post).length : ℝ)
      - ((rank (pre ++ x :: post) y : ℝ) - q * ((pre ++ x' :: post).length : ℝ))
      = -((rank (pre ++ x :: post) y : ℝ) - (rank (pre ++ x' :: post) y : ℝ)) := by ring
  rw [h4, abs_neg] at h2
  linarith

theorem rankWeight_pos (ε q : ℝ) (D : List ℝ) (y : ℝ) : 0 < rankWeight ε q D y := Real.exp_pos _

theorem rankWeight_replace (ε q : ℝ) (hε : 0 ≤ ε) (pre post : List ℝ) (x x' y : ℝ) :
    rankWeight ε q (pre ++ x :: post) y ≤ Real.exp (ε / 2) * rankWeight ε q (pre ++ x' :: post) y := by
  unfold rankWeight
  rw [← Real.exp_add]
  apply Real.exp_le_exp.mpr
  have h := rankUtil_replace q pre post x x' y
  have h2 : ε / 2 * rankUtil q (pre ++ x :: post) y ≤ ε / 2 * (rankUtil q (pre ++ x' :: post) y + 1) :=
    mul_le_mul_of_nonneg_left h (by linarith)
  linarith

/-! ### integrability of the weight (no sign condition on ε) -/

theorem rank_mono (D : List ℝ) : Monotone (fun y => rank D y) := by
  intro a b hab
  unfold rank
  apply List.countP_mono_left
  intro x _ hx
  simp only [decide_eq_true_eq] at hx ⊢
  exact hx.trans hab

theorem rank_le_length (D : List ℝ) (y : ℝ) : rank D y ≤ D.length := List.countP_le_length

theorem measurable_rankWeight (ε q : ℝ) (D : List ℝ) : Measurable (fun y => rankWeight ε q D y) := by
  have hm : Monotone (fun y => (rank D y : ℝ)) := fun a b hab =>
    Nat.cast_le.mpr (rank_mono D hab)
  have hr : Measurable (fun y => (rank D y : ℝ)) := hm.measurable
  have hc : Continuous (fun r : ℝ => Real.exp (ε / 2 * -|r - q * (D.length : ℝ)|)) := by
    fun_prop
  exact hc.measurable.comp hr

theorem rankWeight_le (ε q : ℝ) (D : List ℝ) (y : ℝ) :
    rankWeight ε q D y ≤ Real.exp (|ε / 2| * ((D.length : ℝ) + |q| * (D.length : ℝ))) := by
  unfold rankWeight rankUtil
  apply Real.exp_le_exp.mpr
  have hk : (rank D y : ℝ) ≤ (D.length : ℝ) := by exact_mod_cast rank_le_length D y
  have hk0 : (0 : ℝ) ≤ (rank D y : ℝ) := Nat.cast_nonneg _
  have hl0 : (0 : ℝ) ≤ (D.length : ℝ) := Nat.cast_nonneg _
  have h1 : |(rank D y : ℝ) - q * (D.length : ℝ)| ≤ (D.length : ℝ) + |q| * (D.length : ℝ) := by
    calc |(rank D y : ℝ) - q * (D.length : ℝ)|
        ≤ |(rank D y : ℝ)| + |q * (D.length : ℝ)| := abs_sub _ _
      _ = (rank D y : ℝ) + |q| * (D.length : ℝ) := by
          rw [abs_of_nonneg hk0, abs_mul, abs_of_nonneg hl0]
      _ ≤ _ := by linarith
  have h2 : ε / 2 * -|(rank D y : ℝ) - q * (D.length : ℝ)|
      ≤ abs (ε / 2) * abs ((rank D y : ℝ) - q * (D.length : ℝ)) := by
    have := le_abs_self (ε / 2 * -|(rank D y : ℝ) - q * (D.length : ℝ)|)
    rwa [abs_mul, abs_neg, abs_abs] at this
  exact h2.trans (mul_le_mul_of_nonneg_left h1 (abs_nonneg _))

theorem intervalIntegrable_rankWeight (ε q l u : ℝ) (D : List ℝ) :
    IntervalIntegrable (fun y => rankWeight ε q D y) volume l u := by
  rw [intervalIntegrable_iff]
  refine Measure.integrableOn_of_bounded (M := Real.exp (|ε / 2| * ((D.length : ℝ) + |q| * (D.length : ℝ))))
    ?_ (measurable_rankWeight ε q D).aestronglyMeasurable ?_
  · simp [Set.uIoc]
  · refine Filter.Eventually.of_forall fun y => ?_
    rw [Real.norm_eq_abs, abs_of_pos (rankWeight_pos ε q D y)]
    exact rankWeight_le ε q D y

/-! ### the normaliser -/

theorem rankZ_pos (ε q l u : ℝ) (hlu : l < u) (D : List ℝ) : 0 < rankZ ε q l u D :=
  intervalIntegral.intervalIntegral_pos_of_pos_on (intervalIntegrable_rankWeight ε q l u D)
    (fun y _ => rankWeight_pos ε q D y) hlu

theorem rankZ_replace (ε q l u : ℝ) (hε : 0 ≤ ε) (hlu : l ≤ u) (pre post : List ℝ) (x x' : ℝ) :
    rankZ ε q l u (pre ++ x :: post) ≤ Real.exp (ε / 2) * rankZ ε q l u (pre ++ x' :: post) := by
  unfold rankZ
  rw [← intervalIntegral.integral_const_mul]
  exact intervalIntegral.integral_mono_on hlu (intervalIntegrable_rankWeight ε q l u _)
    ((intervalIntegrable_rankWeight ε q l u _).const_mul _)
    (fun y _ => rankWeight_replace ε q hε pre post x x' y)

/-! ### ε-DP of the density -/

/-- the density of the released value changes by a factor of at most e^ε under one replacement, at every y -/
theorem rank_exp_density_dp (ε q l u : ℝ) (hε : 0 ≤ ε) (hlu : l < u) (pre post : List ℝ) (x x' : ℝ) (y : ℝ) :
    rankDensity ε q l u (pre ++ x :: post) y ≤ Real.exp ε * rankDensity ε q l u (pre ++ x' :: post) y := by
  unfold rankDensity
  have hZ := rankZ_pos ε q l u hlu (pre ++ x :: post)
  have hZ' := rankZ_pos ε q l u hlu (pre ++ x' :: post)
  have hw := rankWeight_replace ε q hε pre post x x' y
  have hz := rankZ_replace ε q l u hε hlu.le pre post x' x
  have hw' := rankWeight_pos ε q (pre ++ x' :: post) y
  have he : Real.exp ε = Real.exp (ε / 2) * Real.exp (ε / 2) := by
    rw [← Real.exp_add]; congr 1; ring
  have hpos : 0 < Real.exp (ε / 2) := Real.exp_pos _
  rw [div_le_iff₀ hZ, he]
  calc rankWeight ε q (pre ++ x :: post) y
      ≤ Real.exp (ε / 2) * rankWeight ε q (pre ++ x' :: post) y := hw
    _ = Real.exp (ε / 2) * (rankWeight ε q (pre ++ x' :: post) y / rankZ ε q l u (pre ++ x' :: post))
          * rankZ ε q l u (pre ++ x' :: post) := by
        field_simp
    _ ≤ Real.exp (ε / 2) * (rankWeight ε q (pre ++ x' :: post) y / rankZ ε q l u (pre ++ x' :: post))
          * (Real.exp (ε / 2) * rankZ ε q l u (pre ++ x :: post)) := by
        apply mul_le_mul_of_nonneg_left hz
        positivity
    _ = _ := by ring

end DPL.Tools
