/-
StandardScaler (C08) without the variance hypothesis: the per-feature variance input of `scalerPlan`
(`varL` of the column of clipped features, `PlanModels.lean`) IS the tools' `var` of the clipped column
(`PlanTools.lean`) — the two transcriptions of `np.var` / `np.clip` coincide definitionally — so the list-level
variance sensitivity `Tools.var_sens` (C07) discharges the hypothesis `hvar` of `scaler_privloss`.
-/
import DPL.Proofs.ModelsLoss2
import DPL.Proofs.ToolsSens

namespace DPL
namespace PM
open DPL

/-- the estimator model's `np.var` is the tools' `np.var` -/
theorem varL_eq_var (xs : List ℝ) : varL xs = Tools.var xs := rfl

/-- the estimator model's `np.clip` is the tools' `np.clip` -/
theorem clip_eq_clip (l u x : ℝ) : clip l u x = Tools.clip l u x := rfl

/-- column `j` of the clipped data = the raw column, clipped with the column's bounds -/
theorem feat_column (lo hi : List ℝ) (j : Nat) (D : DS ℝ) :
    D.map (feat lo hi j) = (D.map fun q => nth q.x j).map (Tools.clip (nth lo j) (nth hi j)) := by
  rw [List.map_map]; rfl

/-- the list-level variance sensitivity for a column of the estimator's dataset: one replaced record (arbitrary
features, clipped first) moves the column variance by at most `((u-l)/n)² (n-1)` — `Tools.var_sens` transported -/
theorem column_var_sens (lo hi : List ℝ) (j n : Nat) (hb : nth lo j ≤ nth hi j) (pre post : DS ℝ) (r r' : Rec ℝ)
    (hn : n = pre.length + 1 + post.length) :
    |varL ((pre ++ r :: post).map (feat lo hi j)) - varL ((pre ++ r' :: post).map (feat lo hi j))|
      ≤ 1 * (((nth hi j - nth lo j) / n) * ((nth hi j - nth lo j) / n) * ((n : ℝ) - 1)) := by
  have hs : ∀ q : Rec ℝ, (pre ++ q :: post).map (fun q => nth q.x j) =
      (pre.map fun q => nth q.x j) ++ nth q.x j :: post.map fun q => nth q.x j := fun q => by simp
  rw [feat_column, feat_column, varL_eq_var, varL_eq_var, hs r, hs r', one_mul]
  have h := Tools.var_sens hb (pre.map fun q => nth q.x j) (post.map fun q => nth q.x j) (nth r.x j) (nth r'.x j)
  have hl : ((pre.map fun q : Rec ℝ => nth q.x j) ++ nth r.x j :: post.map fun q => nth q.x j).length = n := by
    simp [hn]; ring
  rw [hl] at h
  exact h

/-- StandardScaler, hypothesis-free: ε/2 over the `d` column means + ε/2 over the `d` column variances, every input
within its configured sensitivity, Σ εᵢ dᵢ/sensᵢ ≤ ε -/
theorem scaler_privloss_free (p : ScalerParams ℝ) (hε : 0 ≤ p.eps) (hd : 0 < p.d)
    (hb : ∀ j, nth p.lo j ≤ nth p.hi j) (pre post : DS ℝ) (r r' : Rec ℝ) (hn : p.n = pre.length + 1 + post.length) :
    lossLe (pre ++ r :: post) (pre ++ r' :: post) (scalerPlan p) p.eps :=
  scaler_privloss p hε hd hb pre post r r' hn
    (fun j => column_var_sens p.lo p.hi j p.n (hb j) pre post r r' hn)

end PM
end DPL
