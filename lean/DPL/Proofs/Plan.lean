/-
Generic theorems about release plans (core Lean only; no axioms needed).
-/
import DPL.Model.Plan
namespace DPL
variable {δ α ρ : Type}

/-- C06 core: for every plan, every two datasets whose probes agree along the run, and every sequence of forced
mechanism outputs: the configured mechanism calls coincide and the releases are equal. -/
theorem Plan.noninterference (p : Plan δ α ρ) (D₁ D₂ : δ) (outs : List α)
    (hp : (p.run D₁ outs).probes = (p.run D₂ outs).probes) :
    (p.run D₁ outs).calls = (p.run D₂ outs).calls ∧ (p.run D₁ outs).release = (p.run D₂ outs).release := by
  induction p generalizing outs with
  | release r => exact ⟨rfl, rfl⟩
  | call c inp k ih =>
    cases outs with
    | nil => exact ⟨rfl, rfl⟩
    | cons o os =>
      have := ih o os (by simpa [Plan.run] using hp)
      simp only [Plan.run]
      exact ⟨by rw [this.1], this.2⟩
  | probe occ k ih =>
    simp only [Plan.run] at hp ⊢
    have h1 : occ D₁ = occ D₂ := (List.cons.inj hp).1
    have h2 := (List.cons.inj hp).2
    rw [h1] at h2 ⊢
    exact ih (occ D₂) outs h2

/-- a plan without probes: no hypothesis at all -/
def Plan.probeFree : Plan δ α ρ → Prop
  | .release _ => True
  | .call _ _ k => ∀ o, (k o).probeFree
  | .probe _ _ => False

theorem Plan.probeFree_probes (p : Plan δ α ρ) (h : p.probeFree) (D : δ) (outs : List α) :
    (p.run D outs).probes = [] := by
  induction p generalizing outs with
  | release r => rfl
  | call c inp k ih =>
    cases outs with
    | nil => rfl
    | cons o os => simpa [Plan.run] using ih o (h o) os
  | probe occ k ih => exact absurd h (by simp [Plan.probeFree])

theorem Plan.noninterference_probeFree (p : Plan δ α ρ) (h : p.probeFree) (D₁ D₂ : δ) (outs : List α) :
    (p.run D₁ outs).calls = (p.run D₂ outs).calls ∧ (p.run D₁ outs).release = (p.run D₂ outs).release :=
  p.noninterference D₁ D₂ outs (by rw [p.probeFree_probes h, p.probeFree_probes h])

theorem Plan.probeFree_bind {σ : Type} (p : Plan δ α ρ) (q : ρ → Plan δ α σ) (hp : p.probeFree)
    (hq : ∀ r, (q r).probeFree) : (p.bind q).probeFree := by
  induction p with
  | release r => exact hq r
  | call c inp k ih => intro o; exact ih o (hp o)
  | probe occ k ih => exact absurd hp (by simp [Plan.probeFree])

theorem Plan.probeFree_map {σ : Type} (f : ρ → σ) (p : Plan δ α ρ) (hp : p.probeFree) : (p.map f).probeFree :=
  Plan.probeFree_bind p _ hp (fun _ => trivial)

theorem Plan.probeFree_seq (ps : List (Plan δ α ρ)) (h : ∀ p ∈ ps, p.probeFree) : (Plan.seq ps).probeFree := by
  induction ps with
  | nil => trivial
  | cons p ps ih =>
    exact Plan.probeFree_bind p _ (h p (by simp))
      (fun r => Plan.probeFree_map _ _ (ih (fun q hq => h q (by simp [hq]))))

end DPL
