/-
The nan-variants over an axis on NaN-free data (C07): the records × cells matrix of `Option ℝ` entries that comes from
a proper (every row has at least `size` entries) NaN-free real matrix has, in every output cell, the column of the real
matrix as its non-NaN values.
-/
import DPL.Proofs.ToolsSens
import DPL.Proofs.ToolsPlan

namespace DPL
namespace Tools

/-- a NaN-free matrix as the nan-variants see it -/
def someRows (D : List (List ℝ)) : List (List (Option ℝ)) := D.map (·.map some)

theorem someRows_append (D E : List (List ℝ)) : someRows (D ++ E) = someRows D ++ someRows E := by
  simp [someRows]

theorem someRows_cons (r : List ℝ) (D : List (List ℝ)) : someRows (r :: D) = r.map some :: someRows D := rfl

theorem someRows_length (D : List (List ℝ)) : (someRows D).length = D.length := by simp [someRows]

theorem getD_map_some (row : List ℝ) (c : ℕ) (h : c < row.length) :
    (row.map some).getD c none = some (row.getD c 0) := by
  simp [List.getD_eq_getElem?_getD, List.getElem?_map, List.getElem?_eq_getElem h]

theorem column_someRows (c : ℕ) (D : List (List ℝ)) (h : ∀ row ∈ D, c < row.length) :
    column none c (someRows D) = (column 0 c D).map some := by
  unfold column someRows
  rw [List.map_map, List.map_map]
  apply List.map_congr_left
  intro row hrow
  exact getD_map_some row c (h row hrow)

/-- the non-NaN values of cell `c` of a NaN-free matrix are the column of the real matrix -/
theorem vals_column_someRows (c : ℕ) (D : List (List ℝ)) (h : ∀ row ∈ D, c < row.length) :
    vals (column none c (someRows D)) = column 0 c D := by
  rw [column_someRows c D h, vals_map_some]

end Tools
end DPL
