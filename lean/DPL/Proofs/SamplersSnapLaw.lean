/-
C03 / Snapping: `(-1)^bit · log(U)` with a fair bit and `U` uniform on (0,1) is standard Laplace.

Route: both sides are finite measures on ℝ; they agree on every `Iic t` (`Measure.ext_of_Iic`):
`P[log U ≤ t] = min(1, e^t)`, `P[−log U ≤ t] = max(0, 1 − e^{−t})`, Laplace CDF `e^t/2` (`t ≤ 0`), `1 − e^{−t}/2` (`t ≥ 0`).
-/
import DPL.Proofs.SamplersLap4Law
import DPL.Proofs.ContinuousTruncLaw

namespace DPL.SmpS
open MeasureTheory Set DPL.Smp
open scoped ENNReal

theorem unif01_eq_Ioo : unif01 = volume.restrict (Ioo (0:ℝ) 1) :=
  Measure.restrict_congr_set Ioo_ae_eq_Ico.symm

theorem unif01_apply_Ioo (A : Set ℝ) : unif01 A = volume (A ∩ Ioo (0:ℝ) 1) := by
  rw [unif01_eq_Ioo, Measure.restrict_apply' measurableSet_Ioo]

/-- `P[log U ≤ t] = min(1, e^t)` -/
theorem unif01_log_Iic (t : ℝ) : unif01 (Real.log ⁻¹' Iic t) = ENNReal.ofReal (min 1 (Real.exp t)) := by
  rw [unif01_apply_Ioo]
  by_cases ht : 0 ≤ t
  · have : Real.log ⁻¹' Iic t ∩ Ioo (0:ℝ) 1 = Ioo 0 1 := by
      ext u
      simp only [mem_inter_iff, mem_preimage, mem_Iic, mem_Ioo, and_iff_right_iff_imp]
      rintro ⟨h0, h1⟩
      exact (Real.log_neg h0 h1).le.trans ht
    rw [this, Real.volume_Ioo, sub_zero, min_eq_left (Real.one_le_exp ht)]
  · have ht' : t < 0 := not_le.mp ht
    have hlt : Real.exp t < 1 := Real.exp_lt_one_iff.mpr ht'
    have : Real.log ⁻¹' Iic t ∩ Ioo (0:ℝ) 1 = Ioc 0 (Real.exp t) := by
      ext u
      simp only [mem_inter_iff, mem_preimage, mem_Iic, mem_Ioo, mem_Ioc]
      constructor
      · rintro ⟨h, h0, _⟩; exact ⟨h0, (Real.log_le_iff_le_exp h0).mp h⟩
      · rintro ⟨h0, h⟩; exact ⟨(Real.log_le_iff_le_exp h0).mpr h, h0, lt_of_le_of_lt h hlt⟩
    rw [this, Real.volume_Ioc, sub_zero, min_eq_right hlt.le]

/-- `P[−log U ≤ t] = max(0, 1 − e^{−t})` -/
theorem unif01_neglog_Iic (t : ℝ) :
    unif01 ((fun u => -Real.log u) ⁻¹' Iic t) = ENNReal.ofReal (max 0 (1 - Real.exp (-t))) := by
  rw [unif01_apply_Ioo]
  by_cases ht : 0 ≤ t
  · have hle : Real.exp (-t) ≤ 1 := Real.exp_le_one_iff.mpr (by linarith)
    have : (fun u => -Real.log u) ⁻¹' Iic t ∩ Ioo (0:ℝ) 1 = Ico (Real.exp (-t)) 1 := by
      ext u
      simp only [mem_inter_iff, mem_preimage, mem_Iic, mem_Ioo, mem_Ico]
      constructor
      · rintro ⟨h, h0, h1⟩
        exact ⟨(Real.le_log_iff_exp_le h0).mp (by linarith), h1⟩
      · rintro ⟨h, h1⟩
        have h0 : 0 < u := lt_of_lt_of_le (Real.exp_pos _) h
        exact ⟨by have := (Real.le_log_iff_exp_le h0).mpr h; linarith, h0, h1⟩
    rw [this, Real.volume_Ico, max_eq_right (by linarith)]
  · have ht' : t < 0 := not_le.mp ht
    have : (fun u => -Real.log u) ⁻¹' Iic t ∩ Ioo (0:ℝ) 1 = ∅ := by
      ext u
      simp only [mem_inter_iff, mem_preimage, mem_Iic, mem_Ioo, mem_empty_iff_false, iff_false, not_and]
      intro h h0 h1
      have := Real.log_neg h0 h1
      linarith
    have hge : 1 ≤ Real.exp (-t) := Real.one_le_exp (by linarith)
    rw [this, measure_empty, max_eq_left (by linarith), ENNReal.ofReal_zero]

/-- the Laplace CDF -/
theorem lapMeasure_Iic (t : ℝ) :
    Cont.lapMeasure 1 0 (Iic t)
      = ENNReal.ofReal (if t ≤ 0 then Real.exp t / 2 else 1 - Real.exp (-t) / 2) := by
  by_cases ht : t ≤ 0
  · rw [if_pos ht, Cont.lapMeasure_eq_ofReal 1 0 one_pos _ measurableSet_Iic,
      Cont.integral_lapDensity_Iic 1 0 t one_pos ht]
    simp
  · rw [if_neg ht]
    have ht' : 0 ≤ t := (not_le.mp ht).le
    have : IsProbabilityMeasure (Cont.lapMeasure 1 0) := lapMeasure_prob 1 0 one_pos
    have hc : Iic t = (Ioi t)ᶜ := by ext u; simp
    rw [hc, prob_compl_eq_one_sub measurableSet_Ioi, Cont.lapMeasure_eq_ofReal 1 0 one_pos _ measurableSet_Ioi,
      Cont.integral_lapDensity_Ioi 1 0 t one_pos ht', ← ENNReal.ofReal_one,
      ← ENNReal.ofReal_sub _ (by positivity)]
    simp

theorem measurable_neglog' : Measurable (fun u : ℝ => -Real.log u) := Real.measurable_log.neg

/-- **a fair sign times `log U` is standard Laplace** (mixture form) -/
theorem sign_log_mixture :
    (2⁻¹ : ℝ≥0∞) • unif01.map Real.log + (2⁻¹ : ℝ≥0∞) • unif01.map (fun u => -Real.log u) = Cont.lapMeasure 1 0 := by
  have : IsProbabilityMeasure (Cont.lapMeasure 1 0) := lapMeasure_prob 1 0 one_pos
  have h1 : IsProbabilityMeasure (unif01.map Real.log) :=
    Measure.isProbabilityMeasure_map Real.measurable_log.aemeasurable
  have h2 : IsProbabilityMeasure (unif01.map (fun u => -Real.log u)) :=
    Measure.isProbabilityMeasure_map measurable_neglog'.aemeasurable
  have hf1 : IsFiniteMeasure ((2⁻¹ : ℝ≥0∞) • unif01.map Real.log) := Measure.smul_finite _ (by simp)
  have hf2 : IsFiniteMeasure ((2⁻¹ : ℝ≥0∞) • unif01.map (fun u => -Real.log u)) := Measure.smul_finite _ (by simp)
  refine Measure.ext_of_Iic _ _ (fun t => ?_)
  rw [Measure.add_apply, Measure.smul_apply, Measure.smul_apply, Measure.map_apply Real.measurable_log measurableSet_Iic,
    Measure.map_apply measurable_neglog' measurableSet_Iic, unif01_log_Iic, unif01_neglog_Iic, lapMeasure_Iic,
    smul_eq_mul, smul_eq_mul]
  have h2inv : (2⁻¹ : ℝ≥0∞) = ENNReal.ofReal (1 / 2) := by
    rw [one_div, ENNReal.ofReal_inv_of_pos (by norm_num)]; simp
  rw [h2inv, ← ENNReal.ofReal_mul (by norm_num), ← ENNReal.ofReal_mul (by norm_num),
    ← ENNReal.ofReal_add (by positivity) (by positivity)]
  congr 1
  by_cases ht : t ≤ 0
  · have hlt : Real.exp t ≤ 1 := Real.exp_le_one_iff.mpr ht
    have hge : 1 ≤ Real.exp (-t) := Real.one_le_exp (by linarith)
    rw [if_pos ht, min_eq_right hlt, max_eq_left (by linarith)]
    ring
  · have ht' : 0 < t := not_le.mp ht
    have hlt : 1 ≤ Real.exp t := Real.one_le_exp ht'.le
    have hge : Real.exp (-t) ≤ 1 := Real.exp_le_one_iff.mpr (by linarith)
    rw [if_neg ht, min_eq_left hlt, max_eq_right (by linarith)]
    ring

/-- a fair bit (`getrandbits(1)`) -/
noncomputable def bitLaw : Measure ℕ := (2⁻¹ : ℝ≥0∞) • Measure.dirac 0 + (2⁻¹ : ℝ≥0∞) • Measure.dirac 1

instance : IsProbabilityMeasure bitLaw := ⟨by
  simp only [bitLaw, Measure.add_apply, Measure.smul_apply, measure_univ, smul_eq_mul, mul_one]
  exact ENNReal.inv_two_add_inv_two⟩

/-- push-forward of `bit ⊗ U` under any jointly measurable-in-`u` function is the fair mixture of the two branches -/
theorem bitLaw_prod_map {β : Type*} [MeasurableSpace β] (f : ℕ → ℝ → β) (hf : ∀ b, Measurable (f b)) :
    (bitLaw.prod unif01).map (fun p : ℕ × ℝ => f p.1 p.2)
      = (2⁻¹ : ℝ≥0∞) • unif01.map (f 0) + (2⁻¹ : ℝ≥0∞) • unif01.map (f 1) := by
  have hm : Measurable (fun p : ℕ × ℝ => f p.1 p.2) := by
    apply measurable_from_prod_countable_right
    intro b; exact hf b
  unfold bitLaw
  rw [Measure.add_prod, Measure.prod_smul_left, Measure.prod_smul_left, Measure.dirac_prod, Measure.dirac_prod,
    Measure.map_add _ _ hm, Measure.map_smul, Measure.map_smul,
    Measure.map_map hm measurable_prodMk_left, Measure.map_map hm measurable_prodMk_left]
  rfl

theorem snapLaplace_zero : (fun u : ℝ => snapLaplace 0 u) = Real.log := by
  funext u; simp [snapLaplace]

theorem snapLaplace_one : (fun u : ℝ => snapLaplace 1 u) = fun u => -Real.log u := by
  funext u; simp [snapLaplace]

theorem measurable_snapLaplace (b : ℕ) : Measurable (fun u : ℝ => snapLaplace b u) := by
  unfold snapLaplace
  simp only [transc_log]
  exact measurable_const.mul Real.measurable_log

/-- **`Snapping._laplace_sampler(getrandbits(1), U)` is standard Laplace** for a fair bit and `U` uniform on [0,1) -/
theorem snapLaplace_law :
    (bitLaw.prod unif01).map (fun p : ℕ × ℝ => snapLaplace p.1 p.2) = Cont.lapMeasure 1 0 := by
  rw [bitLaw_prod_map (fun b u => snapLaplace b u) measurable_snapLaplace, snapLaplace_zero, snapLaplace_one]
  exact sign_log_mixture

end DPL.SmpS
