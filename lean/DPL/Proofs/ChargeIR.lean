/-
Soundness of the C09 charge-skeleton checker (`DPL/Model/ChargeIR.lean`), core Lean only.

Part A: if `exec sk s = some T` then EVERY path of `sk` (loops unrolled any number of times) is accepted by the charge
automaton from `s` and ends in a state of `T`.
Part B: the language of the automaton: a path accepted from `pre r` up to `fin` has one of five explicit shapes
(charged directly / nothing released / refused / delegated / shared out over cells).
-/
import DPL.Model.ChargeIR
namespace DPL
namespace ChargeIR

/-! ## Part A -/

theorem stepN_ne_fin {s : St} {e : Ev} {t : St} (h : stepN s e = some t) : t ≠ .fin := by
  unfold stepN at h
  split at h <;> (try split at h) <;> simp at h <;> (subst h; simp)

theorem step_fin_iff {s : St} {e : Ev} {t : St} (h : step s e = some t) : (e.isExit = true ↔ t = .fin) := by
  unfold step at h
  by_cases hx : e.isExit = true
  · simp [hx] at h
    simp [hx, h.2]
  · simp [hx] at h
    simp [hx, stepN_ne_fin h]

theorem runSt_append (s : St) (π ρ : List Ev) :
    runSt s (π ++ ρ) = match runSt s π with | some t => runSt t ρ | none => none := by
  induction π generalizing s with
  | nil => simp [runSt]
  | cons e π ih =>
    simp only [List.cons_append, runSt]
    cases step s e with
    | none => simp
    | some t => simpa using ih t

theorem execL_mem {f : St → Option (List St)} {L T : List St} (h : execL f L = some T) {s : St} (hs : s ∈ L) :
    ∃ A, f s = some A ∧ ∀ a ∈ A, a ∈ T := by
  induction L generalizing T with
  | nil => cases hs
  | cons x xs ih =>
    unfold execL at h
    cases hfx : f x with
    | none => simp [hfx] at h
    | some a =>
      cases hxs : execL f xs with
      | none => simp [hfx, hxs] at h
      | some b =>
        simp [hfx, hxs] at h
        subst h
        rcases List.mem_cons.mp hs with rfl | hs'
        · exact ⟨a, hfx, fun y hy => List.mem_append_left _ hy⟩
        · obtain ⟨A, hA, hsub⟩ := ih hxs hs'
          exact ⟨A, hA, fun y hy => List.mem_append_right _ (hsub y hy)⟩

/-- the path `p` is accepted from `s` and ends in a state of `T` that is `fin` exactly when the function was left -/
def Good (s : St) (T : List St) (p : List Ev × Bool) : Prop :=
  ∃ t, t ∈ T ∧ runSt s p.1 = some t ∧ (p.2 = true ↔ t = .fin)

theorem Good.mono {s : St} {T U : List St} {p} (h : Good s T p) (hsub : ∀ t ∈ T, t ∈ U) : Good s U p := by
  obtain ⟨t, ht, h1, h2⟩ := h
  exact ⟨t, hsub t ht, h1, h2⟩

theorem extend_sound {s : St} {T U : List St} {first next : List (List Ev × Bool)}
    (h1 : ∀ p ∈ first, Good s T p) (h2 : St.fin ∈ T → St.fin ∈ U)
    (h3 : ∀ t ∈ T, t ≠ .fin → ∀ q ∈ next, Good t U q) :
    ∀ p ∈ extend first next, Good s U p := by
  intro p hp
  unfold extend at hp
  rw [List.mem_flatMap] at hp
  obtain ⟨p0, hp0, hp⟩ := hp
  obtain ⟨t, ht, hr, hx⟩ := h1 p0 hp0
  by_cases hb : p0.2 = true
  · simp [hb] at hp
    subst hp
    have : t = .fin := hx.mp hb
    subst this
    exact ⟨.fin, h2 ht, hr, hx⟩
  · have hb' : p0.2 = false := by simpa using hb
    simp only [hb', Bool.false_eq_true, if_false] at hp
    rw [List.mem_map] at hp
    obtain ⟨q, hq, rfl⟩ := hp
    have htf : t ≠ .fin := fun h => hb (hx.mpr h)
    obtain ⟨u, hu, hru, hxu⟩ := h3 t ht htf q hq
    refine ⟨u, hu, ?_, hxu⟩
    simp only [runSt_append, hr]
    exact hru

theorem iter_mem {f : St → Option (List St)} {n : Nat} {S S' : List St} (h : iter f n S = some S') {s : St}
    (hs : s ∈ S) : s ∈ S' := by
  induction n generalizing S with
  | zero => simp [iter] at h; subst h; exact hs
  | succ k ih =>
    unfold iter at h
    cases hT : execL (cont f) S with
    | none => simp [hT] at h
    | some T =>
      simp [hT] at h
      exact ih h (List.mem_append_left _ hs)

theorem cont_of_ne {f : St → Option (List St)} {t : St} (h : t ≠ .fin) : cont f t = f t := by simp [cont, h]

theorem exec_sound (k : Nat) : ∀ (sk : Sk) (s : St) (T : List St), s ≠ .fin → exec sk s = some T →
    ∀ p ∈ runs k sk, Good s T p := by
  intro sk
  induction sk with
  | skip =>
    intro s T hs h p hp
    simp [exec] at h; subst h
    simp [runs] at hp; subst hp
    exact ⟨s, by simp, by simp [runSt], by simp [hs]⟩
  | atom e =>
    intro s T _ h p hp
    simp [runs] at hp; subst hp
    unfold exec at h
    cases hst : step s e with
    | none => simp [hst] at h
    | some t =>
      simp [hst] at h; subst h
      exact ⟨t, by simp, by simp [runSt, hst], step_fin_iff hst⟩
  | seq a b iha ihb =>
    intro s U hs h
    unfold exec at h
    cases hA : exec a s with
    | none => simp [hA] at h
    | some T =>
      simp [hA] at h
      simp only [runs]
      apply extend_sound (T := T) (iha s T hs hA)
      · intro hf
        obtain ⟨A, hA', hsub⟩ := execL_mem h hf
        simp [cont] at hA'; subst hA'
        exact hsub _ (by simp)
      · intro t ht htf q hq
        obtain ⟨A, hA', hsub⟩ := execL_mem h ht
        rw [cont_of_ne htf] at hA'
        exact (ihb t A htf hA' q hq).mono hsub
  | branch a b iha ihb =>
    intro s T hs h p hp
    unfold exec at h
    cases hA : exec a s with
    | none => simp [hA] at h
    | some x =>
      cases hB : exec b s with
      | none => simp [hA, hB] at h
      | some y =>
        simp [hA, hB] at h; subst h
        simp only [runs, List.mem_append] at hp
        rcases hp with hp | hp
        · exact (iha s x hs hA p hp).mono (fun t ht => List.mem_append_left _ ht)
        · exact (ihb s y hs hB p hp).mono (fun t ht => List.mem_append_right _ ht)
  | loop b ihb =>
    intro s S hs h
    unfold exec at h
    cases hI : iter (exec b) 3 [s] with
    | none => simp [hI] at h
    | some S' =>
      cases hC : execL (cont (exec b)) S' with
      | none => simp [hI, hC] at h
      | some T =>
        simp [hI, hC] at h
        obtain ⟨hall, rfl⟩ := h
        have hsS : s ∈ S' := iter_mem hI (by simp)
        have key : ∀ n, ∀ s' ∈ S', s' ≠ .fin → ∀ p ∈ loopRuns (runs k b) n, Good s' S' p := by
          intro n
          induction n with
          | zero =>
            intro s' hs' hne p hp
            simp [loopRuns] at hp; subst hp
            exact ⟨s', hs', by simp [runSt], by simp [hne]⟩
          | succ n ihn =>
            intro s' hs' hne p hp
            simp only [loopRuns, List.mem_cons] at hp
            rcases hp with rfl | hp
            · exact ⟨s', hs', by simp [runSt], by simp [hne]⟩
            · obtain ⟨A, hA, hsub⟩ := execL_mem hC hs'
              rw [cont_of_ne hne] at hA
              have hAS : ∀ t ∈ A, t ∈ S' := fun t ht => hall t (hsub t ht)
              exact extend_sound (T := A) (ihb s' A hne hA) (fun hf => hAS _ hf)
                (fun t ht htf q hq => ihn t (hAS t ht) htf q hq) p hp
        simp only [runs]
        exact key k s hsS hs

/-! ## Part B: the language of the automaton -/

theorem runSt_fin {π : List Ev} {t : St} (h : runSt .fin π = some t) : π = [] := by
  cases π with
  | nil => rfl
  | cons e π => cases e <;> simp [runSt, step, Ev.isExit, exitOk, stepN] at h

theorem lang_done {π : List Ev} (h : runSt .done π = some .fin) : ∃ x, π = [x] ∧ x.isExit = true := by
  cases π with
  | nil => simp [runSt] at h
  | cons e π =>
    cases e <;> simp [runSt, step, Ev.isExit, exitOk, stepN] at h
    all_goals exact ⟨_, by rw [runSt_fin h], rfl⟩

theorem lang_deleg {π : List Ev} (h : runSt .deleg π = some .fin) : ∃ x, π = [x] ∧ x.isExit = true := by
  cases π with
  | nil => simp [runSt] at h
  | cons e π =>
    cases e <;> simp [runSt, step, Ev.isExit, exitOk, stepN] at h
    all_goals exact ⟨_, by rw [runSt_fin h], rfl⟩

theorem lang_cells {ce n : E} {π : List Ev} (h : runSt (.cells ce n) π = some .fin) :
    ∃ calls x, π = calls ++ [x] ∧ x.isExit = true ∧
      ∀ v ∈ calls, ∃ e', v = .call true e' ∧ cellCallOk ce n e' = true := by
  induction π with
  | nil => simp [runSt] at h
  | cons v π ih =>
    cases v with
    | call own e' =>
      cases own with
      | false => simp [runSt, step, Ev.isExit, stepN] at h
      | true =>
        by_cases hc : cellCallOk ce n e' = true
        · simp [runSt, step, Ev.isExit, stepN, hc] at h
          obtain ⟨calls, x, rfl, hx, hall⟩ := ih h
          refine ⟨.call true e' :: calls, x, rfl, hx, ?_⟩
          intro v hv
          rcases List.mem_cons.mp hv with rfl | hv
          · exact ⟨e', rfl, hc⟩
          · exact hall v hv
        · simp [runSt, step, Ev.isExit, stepN, hc] at h
    | ret self =>
      simp [runSt, step, Ev.isExit, exitOk] at h
      exact ⟨[], _, by rw [runSt_fin h]; rfl, rfl, by simp⟩
    | raise =>
      simp [runSt, step, Ev.isExit, exitOk] at h
      exact ⟨[], _, by rw [runSt_fin h]; rfl, rfl, by simp⟩
    | resolve => simp [runSt, step, Ev.isExit, stepN] at h
    | check => simp [runSt, step, Ev.isExit, stepN] at h
    | cellCheck => simp [runSt, step, Ev.isExit, stepN] at h
    | mech => simp [runSt, step, Ev.isExit, stepN] at h
    | sub => simp [runSt, step, Ev.isExit, stepN] at h
    | spend => simp [runSt, step, Ev.isExit, stepN] at h

theorem lang_chk {e d : E} {m : Bool} {π : List Ev} (h : runSt (.chk e d m) π = some .fin) :
    (∃ mids x, π = mids ++ [.spend true e d, x] ∧ (∀ v ∈ mids, v.mechlike = true) ∧ x.isExit = true) ∨
    (m = false ∧ (π = [.ret true] ∨ π = [.raise])) := by
  induction π generalizing m with
  | nil => simp [runSt] at h
  | cons v π ih =>
    cases v with
    | mech c =>
      simp [runSt, step, Ev.isExit, stepN] at h
      rcases ih h with ⟨mids, x, rfl, hm, hx⟩ | ⟨hf, _⟩
      · refine Or.inl ⟨.mech c :: mids, x, rfl, ?_, hx⟩
        intro v hv
        rcases List.mem_cons.mp hv with rfl | hv
        · rfl
        · exact hm v hv
      · cases hf
    | sub c =>
      simp [runSt, step, Ev.isExit, stepN] at h
      rcases ih h with ⟨mids, x, rfl, hm, hx⟩ | ⟨hf, _⟩
      · refine Or.inl ⟨.sub c :: mids, x, rfl, ?_, hx⟩
        intro v hv
        rcases List.mem_cons.mp hv with rfl | hv
        · rfl
        · exact hm v hv
      · cases hf
    | spend own e' d' =>
      cases own with
      | false => simp [runSt, step, Ev.isExit, stepN] at h
      | true =>
        by_cases hc : e' = e ∧ d' = d
        · obtain ⟨rfl, rfl⟩ := hc
          simp [runSt, step, Ev.isExit, stepN] at h
          obtain ⟨x, rfl, hx⟩ := lang_done h
          exact Or.inl ⟨[], x, rfl, by simp, hx⟩
        · simp [runSt, step, Ev.isExit, stepN, hc] at h
    | ret self =>
      cases m <;> cases self <;> simp [runSt, step, Ev.isExit, exitOk] at h
      exact Or.inr ⟨rfl, Or.inl (by rw [runSt_fin h])⟩
    | raise =>
      cases m <;> simp [runSt, step, Ev.isExit, exitOk] at h
      exact Or.inr ⟨rfl, Or.inr (by rw [runSt_fin h])⟩
    | resolve => simp [runSt, step, Ev.isExit, stepN] at h
    | check => simp [runSt, step, Ev.isExit, stepN] at h
    | cellCheck => simp [runSt, step, Ev.isExit, stepN] at h
    | call => simp [runSt, step, Ev.isExit, stepN] at h

/-- what a properly charged path looks like after the leading `resolve`s; `res` = the accountant variable is resolved -/
inductive Tail (res : Bool) : List Ev → Prop
  /-- charged directly: `check(ε, d)` on the own accountant, only noise in between, `spend(ε, d)` with the SAME
  expressions on the same accountant, exit -/
  | direct (d : E) (mids : List Ev) (x : Ev) : res = true → (∀ v ∈ mids, v.mechlike = true) → x.isExit = true →
      Tail res ([.check true epsP d] ++ mids ++ [.spend true epsP d, x])
  /-- nothing drawn after the check: `return self` or an exception, nothing charged -/
  | unreleased (d : E) (x : Ev) : res = true → (x = .ret true ∨ x = .raise) → Tail res [.check true epsP d, x]
  /-- an exception before anything was checked or drawn -/
  | refused : Tail res [.raise]
  /-- the whole query handed to ONE helper together with the own accountant and the own epsilon -/
  | delegated (x : Ev) : x.isExit = true → Tail res [.call true epsP, x]
  /-- `_check_cells` for `n` spends of `ce` making up ε, then only cell queries on the own accountant -/
  | cells (ce n : E) (calls : List Ev) (x : Ev) : shareOk epsP ce n = true →
      (∀ v ∈ calls, ∃ e', v = .call true e' ∧ cellCallOk ce n e' = true) → x.isExit = true →
      Tail res ([.cellCheck true epsP ce n] ++ calls ++ [x])

theorem lang_pre {r : Bool} {π : List Ev} (h : runSt (.pre r) π = some .fin) :
    ∃ rs tail res, π = rs ++ tail ∧ (∀ v ∈ rs, v = .resolve) ∧ (res = true → r = true ∨ rs ≠ []) ∧ Tail res tail := by
  induction π generalizing r with
  | nil => simp [runSt] at h
  | cons v π ih =>
    cases v with
    | resolve =>
      simp [runSt, step, Ev.isExit, stepN] at h
      obtain ⟨rs, tail, res, rfl, hrs, _, ht⟩ := ih h
      refine ⟨.resolve :: rs, tail, res, rfl, ?_, fun _ => Or.inr (by simp), ht⟩
      intro v hv
      rcases List.mem_cons.mp hv with rfl | hv
      · rfl
      · exact hrs v hv
    | check own e d =>
      cases r <;> cases own <;> try (simp [runSt, step, Ev.isExit, stepN] at h; done)
      by_cases hc : e = epsP
      · subst hc
        simp [runSt, step, Ev.isExit, stepN] at h
        rcases lang_chk h with ⟨mids, x, rfl, hm, hx⟩ | ⟨_, rfl | rfl⟩
        · exact ⟨[], _, true, rfl, by simp, fun _ => Or.inl rfl, by
            simpa using Tail.direct (res := true) d mids x rfl hm hx⟩
        · exact ⟨[], _, true, rfl, by simp, fun _ => Or.inl rfl, Tail.unreleased d _ rfl (Or.inl rfl)⟩
        · exact ⟨[], _, true, rfl, by simp, fun _ => Or.inl rfl, Tail.unreleased d _ rfl (Or.inr rfl)⟩
      · simp [runSt, step, Ev.isExit, stepN, hc] at h
    | cellCheck own e ce n =>
      cases own with
      | false => cases r <;> simp [runSt, step, Ev.isExit, stepN] at h
      | true =>
        by_cases hc : e = epsP ∧ shareOk e ce n = true
        · obtain ⟨rfl, hs⟩ := hc
          have h' : runSt (.cells ce n) π = some .fin := by
            cases r <;> simpa [runSt, step, Ev.isExit, stepN, hs] using h
          obtain ⟨calls, x, rfl, hx, hall⟩ := lang_cells h'
          exact ⟨[], _, false, rfl, by simp, by simp, by
            simpa using Tail.cells (res := false) ce n calls x hs hall hx⟩
        · cases r <;> simp [runSt, step, Ev.isExit, stepN, hc] at h
    | call own e =>
      cases own with
      | false => cases r <;> simp [runSt, step, Ev.isExit, stepN] at h
      | true =>
        by_cases hc : e = epsP
        · subst hc
          have h' : runSt .deleg π = some .fin := by
            cases r <;> simpa [runSt, step, Ev.isExit, stepN] using h
          obtain ⟨x, rfl, hx⟩ := lang_deleg h'
          exact ⟨[], _, false, rfl, by simp, by simp, Tail.delegated x hx⟩
        · cases r <;> simp [runSt, step, Ev.isExit, stepN, hc] at h
    | raise =>
      have h' : runSt .fin π = some .fin := by
        cases r <;> simpa [runSt, step, Ev.isExit, exitOk] using h
      rw [runSt_fin h']
      exact ⟨[], _, false, rfl, by simp, by simp, Tail.refused⟩
    | ret self => cases r <;> simp [runSt, step, Ev.isExit, exitOk] at h
    | mech => cases r <;> simp [runSt, step, Ev.isExit, stepN] at h
    | sub => cases r <;> simp [runSt, step, Ev.isExit, stepN] at h
    | spend => cases r <;> simp [runSt, step, Ev.isExit, stepN] at h

/-- the checker is sound: every path of a skeleton accepted from `pre r` leaves the function explicitly and has one of
the five shapes of `Tail` after its leading `resolve`s -/
theorem wellChargedFrom_sound {r : Bool} {sk : Sk} (h : wellChargedFrom (.pre r) sk = true) (k : Nat) :
    ∀ p ∈ runs k sk, p.2 = true ∧ ∃ rs tail res, p.1 = rs ++ tail ∧ (∀ v ∈ rs, v = .resolve) ∧
      (res = true → r = true ∨ rs ≠ []) ∧ Tail res tail := by
  intro p hp
  unfold wellChargedFrom at h
  cases hT : exec sk (.pre r) with
  | none => simp [hT] at h
  | some T =>
    simp [hT] at h
    obtain ⟨t, ht, hr, hx⟩ := exec_sound k sk (.pre r) T (by simp) hT p hp
    have : t = .fin := h t ht
    subst this
    exact ⟨hx.mpr rfl, lang_pre hr⟩

end ChargeIR
end DPL
