/-
Laws of the single-uniform building blocks as Lebesgue measure of preimages in [0,1), measurability of the
post-processing maps, and the algebra behind the discrete-Gaussian and staircase samplers.
-/
import DPL.Proofs.SamplersReal
import Mathlib.MeasureTheory.Measure.Lebesgue.Basic
import Mathlib.MeasureTheory.Constructions.BorelSpace.Order
import Mathlib.MeasureTheory.Function.Floor
import Mathlib.Tactic

namespace DPL.Smp
open MeasureTheory Set

/-! ### preimages under the uniform draw -/

theorem lt_threshold_preimage (p : ℝ) (hp1 : p ≤ 1) :
    {u : ℝ | u ∈ Ico (0 : ℝ) 1 ∧ u < p} = Ico 0 p := by
  ext u
  simp only [mem_ofPred_eq, mem_Ico]
  constructor
  · rintro ⟨⟨h0, _⟩, h⟩; exact ⟨h0, h⟩
  · rintro ⟨h0, h⟩; exact ⟨⟨h0, lt_of_lt_of_le h hp1⟩, h⟩

theorem le_threshold_preimage (p : ℝ) (hp1 : p < 1) :
    {u : ℝ | u ∈ Ico (0 : ℝ) 1 ∧ u ≤ p} = Icc 0 p := by
  ext u
  simp only [mem_ofPred_eq, mem_Ico, mem_Icc]
  constructor
  · rintro ⟨⟨h0, _⟩, h⟩; exact ⟨h0, h⟩
  · rintro ⟨h0, h⟩; exact ⟨⟨h0, lt_of_le_of_lt h hp1⟩, h⟩

/-- `-log(1-u) ≤ t` iff `u ≤ 1 - e^{-t}` on [0,1) -/
theorem neglog_le_iff (u t : ℝ) (hu : u < 1) : -Real.log (1 - u) ≤ t ↔ u ≤ 1 - Real.exp (-t) := by
  have h1 : 0 < 1 - u := by linarith
  constructor
  · intro h
    have : Real.exp (-t) ≤ 1 - u := by
      rw [← Real.le_log_iff_exp_le h1]; linarith
    linarith
  · intro h
    have : Real.exp (-t) ≤ 1 - u := by linarith
    have := (Real.le_log_iff_exp_le h1).mpr this
    linarith

theorem neglog_preimage (t : ℝ) :
    {u : ℝ | u ∈ Ico (0 : ℝ) 1 ∧ -Real.log (1 - u) ≤ t} = Icc 0 (1 - Real.exp (-t)) := by
  ext u
  simp only [mem_ofPred_eq, mem_Ico, mem_Icc]
  have he : 0 < Real.exp (-t) := Real.exp_pos _
  constructor
  · rintro ⟨⟨h0, h1⟩, h⟩; exact ⟨h0, (neglog_le_iff u t h1).mp h⟩
  · rintro ⟨h0, h⟩
    have h1 : u < 1 := by linarith
    exact ⟨⟨h0, h1⟩, (neglog_le_iff u t h1).mpr h⟩

/-! ### measurability of truncation and folding -/

theorem measurable_truncate (lo hi : ℝ) : Measurable (truncate lo hi) := by
  unfold truncate
  refine Measurable.ite (measurableSet_lt measurable_const measurable_id) measurable_const ?_
  exact Measurable.ite (measurableSet_lt measurable_id measurable_const) measurable_const measurable_id

theorem measurable_foldLoop (lo hi : ℝ) : ∀ fuel : Nat, Measurable (foldLoop lo hi fuel) := by
  intro fuel
  induction fuel with
  | zero => exact measurable_id
  | succ fuel ih =>
    have : foldLoop lo hi (fuel + 1) = fun v =>
        if v < lo then foldLoop lo hi fuel (2 * lo - v)
        else if hi < v then foldLoop lo hi fuel (2 * hi - v) else v := by
      funext v; rfl
    rw [this]
    refine Measurable.ite (measurableSet_lt measurable_id measurable_const) ?_ ?_
    · exact ih.comp (measurable_const.sub measurable_id)
    · refine Measurable.ite (measurableSet_lt measurable_const measurable_id) ?_ measurable_id
      exact ih.comp (measurable_const.sub measurable_id)

theorem measurable_pyMod (b : ℝ) : Measurable (fun a : ℝ => pyMod a b) := by
  unfold pyMod
  simp only [transc_floor]
  refine measurable_id.sub (measurable_const.mul ?_)
  have h1 : Measurable (fun a : ℝ => ⌊a / b⌋) := (measurable_id.div_const b).floor
  exact (measurable_from_top (f := fun z : ℤ => (z : ℝ))).comp h1

theorem measurable_fold (lo hi : ℝ) (fuel : Nat) : Measurable (fun v => fold lo hi v fuel) := by
  unfold fold
  by_cases h : feq lo hi = true
  · simp only [h, ↓reduceIte]; exact measurable_const
  · simp only [h, Bool.false_eq_true, ↓reduceIte]
    refine (measurable_foldLoop lo hi fuel).comp ?_
    refine Measurable.ite ?_ ?_ measurable_id
    · have : {a : ℝ | (decide (a < lo - 2 * (hi - lo)) || decide (hi + 2 * (hi - lo) < a)) = true}
          = {a | a < lo - 2 * (hi - lo)} ∪ {a | hi + 2 * (hi - lo) < a} := by
        ext a; simp
      rw [this]
      exact (measurableSet_lt measurable_id measurable_const).union (measurableSet_lt measurable_const measurable_id)
    · exact measurable_const.add ((measurable_pyMod _).comp (measurable_id.sub_const lo))

/-! ### discrete Gaussian: proposal × acceptance -/

/-- the code's acceptance exponent over ℝ -/
theorem cksGamma_real (tau sigma2 : ℝ) (k : Nat) :
    cksGamma tau sigma2 k = ((k : ℝ) - tau * sigma2) ^ 2 / 2 / sigma2 := by
  unfold cksGamma
  simp only [transc_pow]
  norm_num

theorem cks_exponent (tau sigma2 : ℝ) (hs : sigma2 ≠ 0) (k : Nat) :
    -(tau * (k : ℝ)) - cksGamma tau sigma2 k = -((k : ℝ) ^ 2 / (2 * sigma2)) - tau ^ 2 * sigma2 / 2 := by
  rw [cksGamma_real]
  field_simp
  ring

/-! ### staircase -/

theorem stairBinP_real (eps gamma : ℝ) :
    stairBinP eps gamma = gamma / (gamma + (1 - gamma) * Real.exp (-eps)) := by
  unfold stairBinP; simp

/-! ### sums of squares, norms -/

theorem sumSq_foldl (l : List ℝ) (a : ℝ) :
    l.foldl (fun s x => s + x * x) a = a + (l.map (fun x => x * x)).sum := by
  induction l generalizing a with
  | nil => simp
  | cons x xs ih => simp only [List.foldl_cons, List.map_cons, List.sum_cons]; rw [ih]; ring

theorem sumSq_scale (l : List ℝ) (k : ℝ) : sumSq (l.map (fun x => x * k)) = sumSq l * k ^ 2 := by
  unfold sumSq
  rw [sumSq_foldl, sumSq_foldl]
  induction l with
  | nil => simp
  | cons x xs ih =>
    simp only [List.map_cons, List.sum_cons, zero_add] at ih ⊢
    rw [ih]; ring

theorem vecNorm_linear (scale : ℝ) (hs : 0 < scale) (gs : List ℝ) : vecNorm scale gs = scale * gs.sum := by
  unfold vecNorm
  simp only [hs, ↓reduceIte]
  have : ∀ a : ℝ, gs.foldl (fun s g => s + g * scale) a = a + scale * gs.sum := by
    induction gs with
    | nil => intro a; simp
    | cons g gs ih => intro a; simp only [List.foldl_cons, List.sum_cons]; rw [ih]; ring
  rw [this]; ring

end DPL.Smp
