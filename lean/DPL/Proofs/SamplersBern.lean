/-
`bernoulli_neg_exp(γ)` for 0 ≤ γ ≤ 1: the loop `counter = 1; while rng.random() <= γ/counter: counter += 1`
stops with `counter = n+1` after `n` successes (probabilities γ/1, …, γ/n — each comparison is a Bernoulli branch,
`C03.threshold_le_law`) and one failure (1 − γ/(n+1)); it returns `counter % 2`, i.e. 1 iff `n` is even.
The probabilities of the even stops sum to e^{−γ}.
-/
import Mathlib.Analysis.SpecialFunctions.Exponential
import Mathlib.Tactic

namespace DPL.Smp

/-- probability that the loop stops with `counter = n + 1` -/
noncomputable def stopAt (γ : ℝ) (n : ℕ) : ℝ :=
  γ ^ n / (Nat.factorial n : ℝ) - γ ^ (n + 1) / (Nat.factorial (n + 1) : ℝ)

theorem prod_eq (γ : ℝ) (n : ℕ) :
    ∏ j ∈ Finset.range n, γ / ((j : ℝ) + 1) = γ ^ n / (Nat.factorial n : ℝ) := by
  induction n with
  | zero => simp
  | succ k ih =>
    rw [Finset.prod_range_succ, ih, Nat.factorial_succ]
    have h1 : (Nat.factorial k : ℝ) ≠ 0 := by positivity
    have h2 : ((k : ℝ) + 1) ≠ 0 := by positivity
    push_cast; field_simp; ring

theorem stopAt_eq_prod (γ : ℝ) (n : ℕ) :
    stopAt γ n = (∏ j ∈ Finset.range n, γ / ((j : ℝ) + 1)) * (1 - γ / ((n : ℝ) + 1)) := by
  rw [prod_eq]; unfold stopAt
  rw [Nat.factorial_succ]
  have h1 : (Nat.factorial n : ℝ) ≠ 0 := by positivity
  have h2 : ((n : ℝ) + 1) ≠ 0 := by positivity
  push_cast; field_simp; ring

theorem stopAt_even_hasSum (γ : ℝ) : HasSum (fun m : ℕ => stopAt γ (2 * m)) (Real.exp (-γ)) := by
  obtain ⟨f, hf⟩ : ∃ f : ℕ → ℝ, f = fun n => (-γ) ^ n / (Nat.factorial n : ℝ) := ⟨_, rfl⟩
  have h : HasSum f (Real.exp (-γ)) := by
    rw [hf, Real.exp_eq_exp_ℝ]; exact NormedSpace.expSeries_div_hasSum_exp (-γ)
  have hs := h.summable
  have he : Summable (fun m : ℕ => f (2 * m)) :=
    hs.comp_injective (i := fun m : ℕ => 2 * m) (fun a b hab => by simpa using hab)
  have ho : Summable (fun m : ℕ => f (2 * m + 1)) :=
    hs.comp_injective (i := fun m : ℕ => 2 * m + 1) (fun a b hab => by simpa using hab)
  have key : ∑' m : ℕ, (f (2 * m) + f (2 * m + 1)) = Real.exp (-γ) := by
    rw [he.tsum_add ho, tsum_even_add_odd he ho, h.tsum_eq]
  have hfin : HasSum (fun m : ℕ => f (2 * m) + f (2 * m + 1)) (Real.exp (-γ)) := by
    rw [← key]; exact (he.add ho).hasSum
  have hterm : ∀ m : ℕ, stopAt γ (2 * m) = f (2 * m) + f (2 * m + 1) := by
    intro m
    have h1 : (-γ) ^ (2 * m) = γ ^ (2 * m) := by rw [pow_mul, neg_sq, ← pow_mul]
    have h2 : (-γ) ^ (2 * m + 1) = - γ ^ (2 * m + 1) := by rw [pow_succ, h1, pow_succ]; ring
    simp only [hf, stopAt, h1, h2]; ring
  simpa only [hterm] using hfin

end DPL.Smp
