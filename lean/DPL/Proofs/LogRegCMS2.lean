/-
The measure-level skeleton of the proof of CMS Theorem 9 (objective perturbation), used by C17 §7.

`ChangeOfVariables` is the ONE analytic step that is assumed: the law of the minimiser of the perturbed objective has
density `ν(b(w)) · J(w)` with respect to the reference measure, where `b(w)` is the noise vector that makes `w` the
minimiser (stationarity), `ν = Z·e^{−β‖·‖}` the noise density and `J(w) = |det ∂b/∂w|`.  Given that, ε-DP follows from
  * the noise-density ratio (`LogRegCMS.noise_density_le`, from `‖b(w) − b′(w)‖ ≤ 2s`),
  * the Jacobian ratio `J ≤ K·J′`, and
  * the budget split `e^{ε′}·K ≤ e^{ε}`.
-/
import DPL.Proofs.LogRegCMS
import Mathlib.MeasureTheory.Measure.WithDensity

namespace DPL
namespace CMS
open MeasureTheory

section
variable {E : Type*} [NormedAddCommGroup E] [InnerProductSpace ℝ E] [MeasurableSpace E]

/-- **Change of variables for the minimiser map** (CMS 2011, Section 3.3, proof of Theorem 9, eq. (13)–(14); needs the
perturbed objective to be strictly convex and differentiable so that noise ↦ minimiser is a bijection with
differentiable inverse `bOf`).  `μ` = law of the released minimiser, `vol` = Lebesgue measure, `Z·e^{−β‖b‖}` = density of
the noise vector (the law `C17.noise_vector_law`), `bOf w` = the noise that makes `w` the minimiser, `jac w = |det ∂bOf/∂w|`. -/
def ChangeOfVariables (vol μ : Measure E) (β Z : ℝ) (bOf : E → E) (jac : E → ℝ) : Prop :=
  μ = vol.withDensity (fun w => ENNReal.ofReal (Z * Real.exp (-β * ‖bOf w‖) * jac w))

/-- ε-DP of the released minimiser from: change of variables (both data sets), noise vectors within `2s` of each other,
Jacobian ratio ≤ K, and the budget split `e^{ε′}·K ≤ e^{ε}` -/
theorem dp_of_change_of_variables (vol μ μ' : Measure E) (eps epsP s Z K : ℝ) (bOf bOf' : E → E) (jac jac' : E → ℝ)
    (he : 0 ≤ epsP) (hs : 0 < s) (hZ : 0 ≤ Z) (hK : 0 ≤ K)
    (hcov : ChangeOfVariables vol μ (epsP / (2 * s)) Z bOf jac)
    (hcov' : ChangeOfVariables vol μ' (epsP / (2 * s)) Z bOf' jac')
    (hnoise : ∀ w, ‖bOf w - bOf' w‖ ≤ 2 * s)
    (hjac : ∀ w, 0 ≤ jac' w ∧ jac w ≤ K * jac' w)
    (hsplit : Real.exp epsP * K ≤ Real.exp eps)
    (S : Set E) (hS : MeasurableSet S) :
    μ S ≤ ENNReal.ofReal (Real.exp eps) * μ' S := by
  rw [hcov, hcov', withDensity_apply _ hS, withDensity_apply _ hS,
    ← lintegral_const_mul' _ _ ENNReal.ofReal_ne_top]
  apply lintegral_mono
  intro w
  simp only
  rw [← ENNReal.ofReal_mul (Real.exp_pos eps).le]
  apply ENNReal.ofReal_le_ofReal
  obtain ⟨hj0, hj⟩ := hjac w
  have hn := noise_density_le epsP s he hs (bOf w) (bOf' w) (hnoise w)
  set e1 := Real.exp (-(epsP / (2 * s)) * ‖bOf w‖) with he1
  set e2 := Real.exp (-(epsP / (2 * s)) * ‖bOf' w‖) with he2
  have e1pos : 0 ≤ e1 := (Real.exp_pos _).le
  have e2pos : 0 ≤ e2 := (Real.exp_pos _).le
  calc Z * e1 * jac w ≤ Z * e1 * (K * jac' w) := mul_le_mul_of_nonneg_left hj (mul_nonneg hZ e1pos)
    _ ≤ Z * (Real.exp epsP * e2) * (K * jac' w) :=
        mul_le_mul_of_nonneg_right (mul_le_mul_of_nonneg_left hn hZ) (mul_nonneg hK hj0)
    _ = (Real.exp epsP * K) * (Z * e2 * jac' w) := by ring
    _ ≤ Real.exp eps * (Z * e2 * jac' w) :=
        mul_le_mul_of_nonneg_right hsplit (mul_nonneg (mul_nonneg hZ e2pos) hj0)

/-- the same with the noise step DISCHARGED for the logistic loss: the two data sets share the records whose summed
gradient is `G w` and differ in one record, `(x, y)` versus `(x', y')`, rows of norm ≤ s, labels ±1;
`A = n(Λ+Δ)` is the total quadratic coefficient (times n) -/
theorem dp_logistic_of_change_of_variables (vol μ μ' : Measure E) (eps epsP s Z K A : ℝ) (G : E → E)
    (x x' : E) (y y' : ℝ) (jac jac' : E → ℝ)
    (he : 0 ≤ epsP) (hs : 0 < s) (hZ : 0 ≤ Z) (hK : 0 ≤ K)
    (hx : ‖x‖ ≤ s) (hx' : ‖x'‖ ≤ s) (hy : y = 1 ∨ y = -1) (hy' : y' = 1 ∨ y' = -1)
    (hcov : ChangeOfVariables vol μ (epsP / (2 * s)) Z (fun w => noiseFor A w (G w) (recGrad x y w)) jac)
    (hcov' : ChangeOfVariables vol μ' (epsP / (2 * s)) Z (fun w => noiseFor A w (G w) (recGrad x' y' w)) jac')
    (hjac : ∀ w, 0 ≤ jac' w ∧ jac w ≤ K * jac' w)
    (hsplit : Real.exp epsP * K ≤ Real.exp eps)
    (S : Set E) (hS : MeasurableSet S) :
    μ S ≤ ENNReal.ofReal (Real.exp eps) * μ' S :=
  dp_of_change_of_variables vol μ μ' eps epsP s Z K _ _ jac jac' he hs hZ hK hcov hcov'
    (fun w => noiseFor_diff_le A s w (G w) _ _ (norm_recGrad_le x y w s hx hy) (norm_recGrad_le x' y' w s hx' hy'))
    hjac hsplit S hS

end

/-- dimension one, everything but the change of variables discharged: shared records contribute curvature `M0 w ≥ 0`,
the Jacobians are `A + M0 w + ℓ″(y w x)·x²` resp. with `(x', y')`; the Jacobian ratio is then ≤ `1 + ¼s²/A` by
`jacobian_ratio_dim_one` and `0 < ℓ″ ≤ ¼` -/
theorem dp_logistic_dim_one (vol μ μ' : Measure ℝ) (eps epsP s Z A : ℝ) (G M0 : ℝ → ℝ)
    (x x' y y' : ℝ)
    (he : 0 ≤ epsP) (hs : 0 < s) (hZ : 0 ≤ Z) (hA : 0 < A) (hM : ∀ w, 0 ≤ M0 w)
    (hx : |x| ≤ s) (hx' : |x'| ≤ s) (hy : y = 1 ∨ y = -1) (hy' : y' = 1 ∨ y' = -1)
    (hcov : ChangeOfVariables vol μ (epsP / (2 * s)) Z (fun w => noiseFor A w (G w) (recGrad x y w))
      (fun w => A + M0 w + recCurv x y w * x ^ 2))
    (hcov' : ChangeOfVariables vol μ' (epsP / (2 * s)) Z (fun w => noiseFor A w (G w) (recGrad x' y' w))
      (fun w => A + M0 w + recCurv x' y' w * x' ^ 2))
    (hsplit : Real.exp epsP * (1 + 1 / 4 * s ^ 2 / A) ≤ Real.exp eps)
    (S : Set ℝ) (hS : MeasurableSet S) :
    μ S ≤ ENNReal.ofReal (Real.exp eps) * μ' S := by
  refine dp_logistic_of_change_of_variables vol μ μ' eps epsP s Z (1 + 1 / 4 * s ^ 2 / A) A G x x' y y' _ _
    he hs hZ (by positivity) (by simpa using hx) (by simpa using hx') hy hy' hcov hcov' ?_ hsplit S hS
  intro w
  obtain ⟨hc0, hc1⟩ := recCurv_bounds x y w hy
  obtain ⟨hc0', -⟩ := recCurv_bounds x' y' w hy'
  refine ⟨?_, ?_⟩
  · have := mul_nonneg hc0'.le (sq_nonneg x')
    linarith [hM w]
  · exact jacobian_ratio_dim_one A (M0 w) _ _ x x' (1 / 4) s hA (hM w) hc0.le hc1 hc0'.le
      (by rw [← sq_abs x]; exact pow_le_pow_left₀ (abs_nonneg x) hx 2)

end CMS
end DPL
