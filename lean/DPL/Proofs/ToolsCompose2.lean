/-
C07, the semantic step for the COUNT tools (`GeometricTruncated`: count_nonzero, histograms).

A lattice mechanism (the geometric one) is metric-DP only between INTEGER inputs — between two real inputs whose
difference is not an integer the supports differ.  `CountDP M` is that property (sensitivity-1 invocations, integer
inputs); it is implied by the input-blind `PM.MetricDP`, and it is what a genuine geometric kernel satisfies.  The
semantic step is re-proved with the per-invocation bound itself as side condition (`callsBound`), which both
hypotheses discharge.
-/
import DPL.Proofs.ToolsCompose

namespace DPL
namespace Tools
open MeasureTheory ENNReal DPL.Compose
open scoped DPL.PM

variable {δ ρ σ ι : Type}

/-- every invocation's two laws (input on `D`, input on `D'`) are within `exp(ε · relDisp)` on measurable sets -/
def callsBound (M : MechCall ℝ → ℝ → Measure ℝ) (D D' : δ) : Plan δ ℝ ρ → Prop
  | .release _ => True
  | .call c inp k =>
      SetBound (ENNReal.ofReal (Real.exp (c.eps * relDisp c (inp D) (inp D')))) (M c (inp D)) (M c (inp D')) ∧
        ∀ o, callsBound M D D' (k o)
  | .probe _ k => ∀ b, callsBound M D D' (k b)

theorem callsBound_bind (M : MechCall ℝ → ℝ → Measure ℝ) (D D' : δ) (p : Plan δ ℝ ρ) (q : ρ → Plan δ ℝ σ)
    (hp : callsBound M D D' p) (hq : ∀ r, callsBound M D D' (q r)) : callsBound M D D' (p.bind q) := by
  induction p with
  | release r => exact hq r
  | call c inp k ih => exact ⟨hp.1, fun o => ih o (hp.2 o)⟩
  | probe occ k ih => exact fun b => ih b (hp b)

theorem callsBound_forList (M : MechCall ℝ → ℝ → Measure ℝ) (D D' : δ) (l : List ι) (f : ι → Plan δ ℝ σ)
    (h : ∀ i ∈ l, callsBound M D D' (f i)) : callsBound M D D' (PM.forList l f) := by
  induction l with
  | nil => trivial
  | cons i is ih =>
    exact callsBound_bind M D D' _ _ (h i (by simp)) fun r =>
      callsBound_bind M D D' _ _ (ih fun j hj => h j (by simp [hj])) fun _ => trivial

theorem callsBound_seq_cells (M : MechCall ℝ → ℝ → Measure ℝ) (D D' : δ) (cs : List (Cell δ ℝ ρ))
    (h : ∀ x ∈ cs, SetBound (ENNReal.ofReal (Real.exp (x.c.eps * relDisp x.c (x.inp D) (x.inp D'))))
      (M x.c (x.inp D)) (M x.c (x.inp D'))) : callsBound M D D' (Plan.seq (cs.map Cell.plan)) := by
  rw [seq_eq_forList]
  exact callsBound_forList M D D' cs Cell.plan (fun x hx => ⟨h x hx, fun _ => trivial⟩)

/-- bounded loss + per-invocation bounds ⇒ `B`-DP, set-function form -/
theorem lawOn_dp_of_callsBound (M : MechCall ℝ → ℝ → Measure ℝ) (D D' : δ) (p : Plan δ ℝ ρ) (B : ℝ)
    (hp : PM.lossLe D D' p B) (hpr : p.probesAgree D D') (hc : callsBound M D D' p) (S : Set ρ) :
    p.lawOn M D S ≤ ENNReal.ofReal (Real.exp B) * p.lawOn M D' S := by
  induction p generalizing B with
  | release r =>
    simp only [Plan.lawOn]
    have h0 : (0 : ℝ) ≤ B := hp
    have : (1 : ℝ≥0∞) ≤ ENNReal.ofReal (Real.exp B) := by
      rw [← ENNReal.ofReal_one]; exact ENNReal.ofReal_le_ofReal (Real.one_le_exp h0)
    exact le_mul_of_one_le_left' this
  | call c inp k ih =>
    simp only [Plan.lawOn]
    have hcall := hc.1
    have hB : B = c.eps * relDisp c (inp D) (inp D') + (B - c.eps * relDisp c (inp D) (inp D')) := by ring
    rw [hB, ofReal_exp_add]
    exact lintegral_le_of_bounds ofReal_ne_top hcall _ _ (fun o => ih o _ (hp.2 o) (hpr o) (hc.2 o))
  | probe occ k ih =>
    simp only [Plan.lawOn]
    rw [← hpr.1]
    exact ih _ B (hp hpr.1) hpr.2 (hc _)

theorem plan_dp_of_callsBound [MeasurableSpace ρ] (M : MechCall ℝ → ℝ → Measure ℝ) (D D' : δ) (p : Plan δ ℝ ρ)
    (B : ℝ) (hp : PM.lossLe D D' p B) (hpr : p.probesAgree D D') (hc : callsBound M D D' p) (hm : p.Meas M)
    (S : Set ρ) (hS : MeasurableSet S) :
    p.law M D S ≤ ENNReal.ofReal (Real.exp B) * p.law M D' S := by
  rw [PM.law_eq_lawOn M p hm D S hS, PM.law_eq_lawOn M p hm D' S hS]
  exact lawOn_dp_of_callsBound M D D' p B hp hpr hc S

/-! ### metric DP on integer inputs -/

/-- **metric DP of a count mechanism**: on invocations with positive ε and sensitivity 1, INTEGER inputs at distance
`≤ 1` give output laws within `exp(ε·|n − m|)` on every measurable set -/
def CountDP (M : MechCall ℝ → ℝ → Measure ℝ) : Prop :=
  ∀ c : MechCall ℝ, 0 < c.eps → c.sens = 1 → ∀ n m : ℤ, |(n : ℝ) - (m : ℝ)| ≤ 1 → ∀ S, MeasurableSet S →
    M c n S ≤ ENNReal.ofReal (Real.exp (c.eps * |(n : ℝ) - (m : ℝ)|)) * M c m S

/-- the input-blind hypothesis is stronger -/
theorem countDP_of_metricDP (M : MechCall ℝ → ℝ → Measure ℝ)
    (hM : PM.MetricDP (fun c => 0 < c.eps ∧ 0 < c.sens) M) : CountDP M := by
  intro c he hs n m hnm S hS
  have h := hM c ⟨he, by rw [hs]; norm_num⟩ n m (by rw [PM.relDisp_eq, hs, div_one]; exact hnm) S hS
  rwa [PM.relDisp_eq, hs, div_one] at h

theorem countDP_bound (M : MechCall ℝ → ℝ → Measure ℝ) (hM : CountDP M) (c : MechCall ℝ) (he : 0 < c.eps)
    (hs : c.sens = 1) (a b : ℝ) (ha : ∃ n : ℤ, a = n) (hb : ∃ m : ℤ, b = m) (hab : |a - b| ≤ 1) :
    SetBound (ENNReal.ofReal (Real.exp (c.eps * relDisp c a b))) (M c a) (M c b) := by
  obtain ⟨n, rfl⟩ := ha
  obtain ⟨m, rfl⟩ := hb
  intro S hS
  rw [PM.relDisp_eq, hs, div_one]
  exact hM c he hs n m hab S hS

/-- a one-invocation count tool is ε-DP -/
theorem oneCall_dp_count [MeasurableSpace ρ] (M : MechCall ℝ → ℝ → Measure ℝ) (hM : CountDP M) (c : MechCall ℝ)
    (inp : δ → ℝ) (g : ℝ → ρ) (hg : Measurable g) (D D' : δ) (he : 0 < c.eps) (hs : c.sens = 1)
    (ha : ∃ n : ℤ, inp D = n) (hb : ∃ m : ℤ, inp D' = m) (hab : |inp D - inp D'| ≤ 1) (S : Set ρ)
    (hS : MeasurableSet S) :
    (oneCall c inp g).law M D S ≤ ENNReal.ofReal (Real.exp c.eps) * (oneCall c inp g).law M D' S :=
  plan_dp_of_callsBound M D D' _ _ (lossLe_oneCall c inp g D D' (by rw [hs]; exact hab) he.le)
    (PM.probesAgree_of_probeFree _ _ _ (probeFree_oneCall c inp g))
    ⟨countDP_bound M hM c he hs _ _ ha hb hab, fun _ => trivial⟩ (meas_oneCall M c inp g hg) S hS

/-- a sequence of one-invocation count sub-queries with loss `≤ B` is `B`-DP as a whole -/
theorem seq_cells_dp_count (M : MechCall ℝ → ℝ → Measure ℝ) (hprob : ∀ c a, IsProbabilityMeasure (M c a))
    (hM : CountDP M) (cs : List (Cell δ ℝ ℝ)) (hg : ∀ x ∈ cs, Measurable x.g) (D D' : δ) (B : ℝ)
    (hloss : PM.lossLe D D' (Plan.seq (cs.map Cell.plan)) B)
    (hok : ∀ x ∈ cs, 0 < x.c.eps ∧ x.c.sens = 1 ∧ (∃ n : ℤ, x.inp D = n) ∧ (∃ m : ℤ, x.inp D' = m) ∧
      |x.inp D - x.inp D'| ≤ 1) (S : Set (List ℝ)) (hS : MeasurableSet S) :
    (Plan.seq (cs.map Cell.plan)).law M D S ≤
      ENNReal.ofReal (Real.exp B) * (Plan.seq (cs.map Cell.plan)).law M D' S :=
  plan_dp_of_callsBound M D D' _ B hloss (PM.probesAgree_of_probeFree _ _ _ (probeFree_seq_cells cs))
    (callsBound_seq_cells M D D' cs fun x hx =>
      countDP_bound M hM x.c (hok x hx).1 (hok x hx).2.1 _ _ (hok x hx).2.2.1 (hok x hx).2.2.2.1 (hok x hx).2.2.2.2)
    (meas_seq_cells M hprob cs hg) S hS

/-! ### count_nonzero -/

theorem count_int (D : List ℝ) : ∃ n : ℤ, Tools.sum (D.map (fun x => if eqv x 0 then (0 : ℝ) else 1)) = n := by
  rw [sum_eq_list_sum]
  induction D with
  | nil => exact ⟨0, by simp⟩
  | cons x xs ih =>
    obtain ⟨n, hn⟩ := ih
    simp only [List.map_cons, List.sum_cons, hn]
    split
    · exact ⟨n, by simp⟩
    · exact ⟨n + 1, by push_cast; ring⟩

/-- `count_nonzero(…, axis=…)` is ε-DP as a whole, for a count mechanism -/
theorem countAxis_dp (size : Nat) (hsize : 0 < size) (ε : ℝ) (hε : 0 < ε) (bounds : Nat → ℝ × ℝ) (n : Nat)
    (pre post : List (List ℝ)) (r r' : List ℝ)
    (M : MechCall ℝ → ℝ → Measure ℝ) (hprob : ∀ c a, IsProbabilityMeasure (M c a)) (hM : CountDP M)
    (S : Set (List ℝ)) (hS : MeasurableSet S) :
    (wrapAxis 0 size ε bounds (fun e _ _ => countNonzeroPlan n e)).law M (pre ++ r :: post) S ≤
      ENNReal.ofReal (Real.exp ε) *
        (wrapAxis 0 size ε bounds (fun e _ _ => countNonzeroPlan n e)).law M (pre ++ r' :: post) S := by
  have hpos : 0 < ε / (size : ℝ) := by positivity
  let mk : (l u : ℝ) → Cell (List ℝ) ℝ ℝ := fun _ _ =>
    ⟨⟨"GeometricTruncated", ε / (size : ℝ), 0, 1 - 0, 0 * (n : ℝ), 1 * (n : ℝ), .osCsprng⟩,
      fun D => Tools.sum (D.map (fun x => if eqv x 0 then (0 : ℝ) else 1)), id⟩
  rw [wrapAxis_eq_cells 0 size ε bounds _ mk (fun l u => rfl)]
  have hmem : ∀ x ∈ axisCells 0 size bounds mk, 0 < x.c.eps ∧ x.c.sens = 1 ∧
      (∃ a : ℤ, x.inp (pre ++ r :: post) = a) ∧ (∃ b : ℤ, x.inp (pre ++ r' :: post) = b) ∧
      |x.inp (pre ++ r :: post) - x.inp (pre ++ r' :: post)| ≤ 1 ∧ Measurable x.g ∧ x.c.eps = ε / (size : ℝ) := by
    intro x hx
    obtain ⟨c, _, rfl⟩ := List.mem_map.mp hx
    refine ⟨hpos, by simp [mk], count_int _, count_int _, ?_, measurable_id, rfl⟩
    simp only [mk, column_replace]
    exact count_sens _ _ _ _
  refine seq_cells_dp_count M hprob hM _ (fun x hx => (hmem x hx).2.2.2.2.2.1) _ _ ε ?_
    (fun x hx => ⟨(hmem x hx).1, (hmem x hx).2.1, (hmem x hx).2.2.1, (hmem x hx).2.2.2.1, (hmem x hx).2.2.2.2.1⟩) S hS
  refine PM.lossLe_mono _ _ _ (le_of_eq ?_) (lossLe_seq_cells _ _ _ (fun x hx =>
    ⟨by rw [(hmem x hx).2.1]; exact (hmem x hx).2.2.2.2.1, (hmem x hx).1.le⟩))
  simp only [axisCells, List.map_map, Function.comp_def, mk]
  exact split_sum ε size hsize

/-! ### histograms -/

theorem histCells_count (edges : List (List ℝ)) (ε maxsize : ℝ) (hε : 0 < ε) (pre post : List (WRow ℝ))
    (r r' : WRow ℝ) : ∀ x ∈ histCells edges false ε maxsize, 0 < x.c.eps ∧ x.c.sens = 1 ∧
      (∃ n : ℤ, x.inp (pre ++ r :: post) = n) ∧ (∃ m : ℤ, x.inp (pre ++ r' :: post) = m) ∧
      |x.inp (pre ++ r :: post) - x.inp (pre ++ r' :: post)| ≤ 1 := by
  intro x hx
  obtain ⟨cell, _, rfl⟩ := List.mem_map.mp hx
  refine ⟨hε, rfl, ⟨(cellCountN edges cell (pre ++ r :: post) : ℤ), ?_⟩,
    ⟨(cellCountN edges cell (pre ++ r' :: post) : ℤ), ?_⟩, cellCount_sens edges cell pre post r r'⟩
  · simp only [cellCount_unweighted]; norm_cast
  · simp only [cellCount_unweighted]; norm_cast

/-- **the noisy counts of `histogram*` are DP for a count mechanism** — `B` any bound on the privacy-loss sum -/
theorem histCalls_dp_count (edges : List (List ℝ)) (ε maxsize : ℝ) (hε : 0 < ε) (pre post : List (WRow ℝ))
    (r r' : WRow ℝ) (B : ℝ)
    (hloss : PM.lossLe (pre ++ r :: post) (pre ++ r' :: post) (histCalls edges false ε maxsize) B)
    (M : MechCall ℝ → ℝ → Measure ℝ) (hprob : ∀ c a, IsProbabilityMeasure (M c a)) (hM : CountDP M)
    (S : Set (List ℝ)) (hS : MeasurableSet S) :
    (histCalls edges false ε maxsize).law M (pre ++ r :: post) S ≤
      ENNReal.ofReal (Real.exp B) * (histCalls edges false ε maxsize).law M (pre ++ r' :: post) S := by
  rw [histCalls_eq] at hloss ⊢
  exact seq_cells_dp_count M hprob hM _ (fun x hx => (histCells_pos edges false ε maxsize hε x hx).2) _ _ B hloss
    (histCells_count edges ε maxsize hε pre post r r') S hS

/-- post-processing (density normalisation), set-function semantics: every set of releases -/
theorem histCalls_map_lawOn_dp_count {τ : Type} (f : List ℝ → τ) (edges : List (List ℝ)) (ε maxsize : ℝ)
    (hε : 0 < ε) (pre post : List (WRow ℝ)) (r r' : WRow ℝ) (B : ℝ)
    (hloss : PM.lossLe (pre ++ r :: post) (pre ++ r' :: post) (histCalls edges false ε maxsize) B)
    (M : MechCall ℝ → ℝ → Measure ℝ) (hM : CountDP M) (S : Set τ) :
    ((histCalls edges false ε maxsize).map f).lawOn M (pre ++ r :: post) S ≤
      ENNReal.ofReal (Real.exp B) * ((histCalls edges false ε maxsize).map f).lawOn M (pre ++ r' :: post) S := by
  rw [histCalls_eq] at hloss ⊢
  refine lawOn_dp_of_callsBound M _ _ _ B (PM.lossLe_map _ _ _ f hloss)
    (PM.probesAgree_of_probeFree _ _ _ (Plan.probeFree_map f _ (probeFree_seq_cells _))) ?_ S
  refine callsBound_bind M _ _ _ _ (callsBound_seq_cells M _ _ _ fun x hx => ?_) (fun _ => trivial)
  have h := histCells_count edges ε maxsize hε pre post r r' x hx
  exact countDP_bound M hM x.c h.1 h.2.1 _ _ h.2.2.1 h.2.2.2.1 h.2.2.2.2

end Tools
end DPL
