/-
Histogram plans (C07): one replacement changes the count of at most two bins, each by at most one, and of no bin
when the record stays in its bin; hence `privLoss ≤ 2 ε` (`≤ ε` when the record enters or leaves the range, `0` when
it stays in its bin).  Counter-example for weighted histograms.
-/
import DPL.Proofs.ToolsPlan
import Mathlib.Data.List.Nodup
import Mathlib.Data.List.Range
import Mathlib.Tactic.NormNum

namespace DPL
namespace Tools

/-! ### the grid of cells has no duplicates -/

theorem cellsOf_nodup (dims : List Nat) : (cellsOf dims).Nodup := by
  induction dims with
  | nil => simp [cellsOf]
  | cons d ds ih =>
    simp only [cellsOf]
    rw [List.nodup_flatMap]
    constructor
    · intro i _
      exact ih.map (fun a b h => by simpa using h)
    · have hr : (List.range d).Nodup := List.nodup_range
      refine List.Pairwise.imp_of_mem ?_ hr
      intro i j _ _ hij
      simp only [Function.onFun, List.disjoint_left, List.mem_map, not_exists, not_and]
      rintro _ ⟨t, _, rfl⟩ t' _ h
      exact hij (by simpa using (List.cons.inj h).1.symm)

/-! ### counts under one replacement -/

section counts
variable (edges : List (List ℝ))

/-- the unweighted count of a cell, as a natural number -/
noncomputable def cellCountN (cell : List Nat) (D : List (WRow ℝ)) : Nat :=
  (D.filter (fun r => binOf edges r.x == some cell)).length

theorem cellCount_unweighted (cell : List Nat) (D : List (WRow ℝ)) :
    cellCount edges false cell D = (cellCountN edges cell D : ℝ) := by
  simp [cellCount, cellCountN]

/-- indicator "record `r` falls in `cell`" -/
noncomputable def inCell (cell : List Nat) (r : WRow ℝ) : ℝ := if binOf edges r.x == some cell then 1 else 0

theorem cellCountN_split (cell : List Nat) (pre post : List (WRow ℝ)) (r : WRow ℝ) :
    (cellCountN edges cell (pre ++ r :: post) : ℝ) =
      (cellCountN edges cell pre : ℝ) + inCell edges cell r + (cellCountN edges cell post : ℝ) := by
  unfold cellCountN inCell
  rw [List.filter_append, List.length_append, List.filter_cons]
  split <;> simp <;> ring

/-- hist_sens (1): the count of a cell moves by the difference of the two indicators — by at most 1 -/
theorem cellCount_replace (cell : List Nat) (pre post : List (WRow ℝ)) (r r' : WRow ℝ) :
    cellCount edges false cell (pre ++ r :: post) - cellCount edges false cell (pre ++ r' :: post) =
      inCell edges cell r - inCell edges cell r' := by
  rw [cellCount_unweighted, cellCount_unweighted, cellCountN_split, cellCountN_split]; ring

theorem inCell_range (cell : List Nat) (r : WRow ℝ) : 0 ≤ inCell edges cell r ∧ inCell edges cell r ≤ 1 := by
  unfold inCell; split <;> norm_num

theorem cellCount_sens (cell : List Nat) (pre post : List (WRow ℝ)) (r r' : WRow ℝ) :
    |cellCount edges false cell (pre ++ r :: post) - cellCount edges false cell (pre ++ r' :: post)| ≤ 1 := by
  rw [cellCount_replace, abs_le]
  have h1 := inCell_range edges cell r
  have h2 := inCell_range edges cell r'
  constructor <;> linarith [h1.1, h1.2, h2.1, h2.2]

/-- hist_sens (2): a record that stays in its bin (or stays outside the range) changes no count -/
theorem cellCount_same_bin (cell : List Nat) (pre post : List (WRow ℝ)) (r r' : WRow ℝ)
    (h : binOf edges r.x = binOf edges r'.x) :
    cellCount edges false cell (pre ++ r :: post) = cellCount edges false cell (pre ++ r' :: post) := by
  have := cellCount_replace edges cell pre post r r'
  unfold inCell at this
  rw [h] at this
  linarith

/-- over a duplicate-free list of cells a record is counted at most once -/
theorem sum_inCell_le_one (cells : List (List Nat)) (hn : cells.Nodup) (r : WRow ℝ) :
    (cells.map (fun cell => inCell edges cell r)).sum ≤ 1 := by
  induction cells with
  | nil => simp
  | cons c cs ih =>
    have hc : c ∉ cs := (List.nodup_cons.mp hn).1
    have hcs := (List.nodup_cons.mp hn).2
    simp only [List.map_cons, List.sum_cons]
    by_cases hb : binOf edges r.x = some c
    · have hz : (cs.map (fun cell => inCell edges cell r)).sum = 0 := by
        apply List.sum_eq_zero
        intro v hv
        obtain ⟨cell, hcell, rfl⟩ := List.mem_map.mp hv
        unfold inCell
        have : cell ≠ c := fun h => hc (h ▸ hcell)
        simp [hb, this.symm]
      have h1 := (inCell_range edges c r).2
      linarith
    · have : inCell edges c r = 0 := by unfold inCell; simp [hb]
      linarith [ih hcs]

theorem sum_inCell_none (cells : List (List Nat)) (r : WRow ℝ) (h : binOf edges r.x = none) :
    (cells.map (fun cell => inCell edges cell r)).sum = 0 := by
  apply List.sum_eq_zero
  intro v hv
  obtain ⟨cell, _, rfl⟩ := List.mem_map.mp hv
  unfold inCell; simp [h]

end counts

/-! ### the trace of `histCalls` and its privacy loss -/

def histCall (ε maxsize : ℝ) : MechCall ℝ := ⟨"GeometricTruncated", ε, 0, 1, 0, maxsize, .osCsprng⟩

/-- the cells of a histogram as one-call plans -/
noncomputable def histCells (edges : List (List ℝ)) (weighted : Bool) (ε maxsize : ℝ) :
    List (Cell (List (WRow ℝ)) ℝ ℝ) :=
  (cellsOf (edges.map (fun e => e.length - 1))).map (fun cell =>
    ⟨histCall ε maxsize, cellCount edges weighted cell, id⟩)

theorem histCalls_eq (edges : List (List ℝ)) (weighted : Bool) (ε maxsize : ℝ) :
    histCalls edges weighted ε maxsize = Plan.seq ((histCells edges weighted ε maxsize).map Cell.plan) := by
  unfold histCalls calls histCells
  simp only [List.map_map]
  rfl

/-- trace of a histogram query: one `GeometricTruncated(ε, sensitivity 1)` per cell, the cell counts as inputs -/
theorem histCalls_trace (edges : List (List ℝ)) (weighted : Bool) (ε maxsize : ℝ) (D : List (WRow ℝ))
    (outs : List ℝ) (h : outs.length = (cellsOf (edges.map (fun e => e.length - 1))).length) :
    ((histCalls edges weighted ε maxsize).run D outs).calls =
        (cellsOf (edges.map (fun e => e.length - 1))).map (fun _ => histCall ε maxsize) ∧
    ((histCalls edges weighted ε maxsize).run D outs).inputs =
        (cellsOf (edges.map (fun e => e.length - 1))).map (fun cell => cellCount edges weighted cell D) := by
  rw [histCalls_eq, run_seq_cells _ _ _ (by simpa [histCells] using h)]
  constructor <;> simp only [histCells, List.map_map, Function.comp_def]

theorem privLoss_map_const (mc : MechCall ℝ) (cells : List (List Nat)) (f f' : List Nat → ℝ) :
    privLoss (cells.map (fun _ => mc)) (cells.map f) (cells.map f') =
      (cells.map (fun cell => mc.eps * relDisp mc (f cell) (f' cell))).sum := by
  induction cells with
  | nil => simp [privLoss]
  | cons c cs ih => simp only [List.map_cons, privLoss, List.sum_cons, ih]

theorem dispOk_map_const (mc : MechCall ℝ) (cells : List (List Nat)) (f f' : List Nat → ℝ)
    (h : ∀ cell ∈ cells, relDisp mc (f cell) (f' cell) ≤ 1) :
    dispOk (cells.map (fun _ => mc)) (cells.map f) (cells.map f') = true := by
  induction cells with
  | nil => simp [dispOk]
  | cons c cs ih =>
    simp only [List.map_cons, dispOk, Bool.and_eq_true, decide_eq_true_eq]
    exact ⟨h c (by simp), ih (fun cell hc => h cell (List.mem_cons_of_mem _ hc))⟩

theorem relDisp_hist (ε maxsize a b : ℝ) : relDisp (histCall ε maxsize) a b = |a - b| := by
  unfold relDisp
  simp only [absDiff_real, histCall, div_one]
  split
  · rename_i h; exact (le_antisymm h (abs_nonneg _)).symm
  · rfl

/-- hist_sens, accounting form: for every histogram (any number of dimensions, any edges), every dataset and every
single-record replacement the displacement of every bin count is at most its sensitivity 1, and the
displacement-weighted sum of the epsilons is at most `ε` times the number of bins among {old bin, new bin} that
exist — at most `2 ε`, at most `ε` when the record enters or leaves the range, `0` when it stays in its bin. -/
theorem hist_privloss (edges : List (List ℝ)) (ε maxsize : ℝ) (hε : 0 ≤ ε) (pre post : List (WRow ℝ))
    (r r' : WRow ℝ) (outs : List ℝ)
    (h : outs.length = (cellsOf (edges.map (fun e => e.length - 1))).length) :
    let p := histCalls edges false ε maxsize
    let t := p.run (pre ++ r :: post) outs
    let t' := p.run (pre ++ r' :: post) outs
    t.calls = t'.calls ∧ dispOk t.calls t.inputs t'.inputs = true ∧
      privLoss t.calls t.inputs t'.inputs ≤ ε * 2 ∧
      ((binOf edges r.x = none ∨ binOf edges r'.x = none) → privLoss t.calls t.inputs t'.inputs ≤ ε) ∧
      (binOf edges r.x = binOf edges r'.x → privLoss t.calls t.inputs t'.inputs = 0) := by
  intro p t t'
  obtain ⟨hc, hi⟩ := histCalls_trace edges false ε maxsize (pre ++ r :: post) outs h
  obtain ⟨hc', hi'⟩ := histCalls_trace edges false ε maxsize (pre ++ r' :: post) outs h
  have hcells := cellsOf_nodup (edges.map (fun e => e.length - 1))
  set cells := cellsOf (edges.map (fun e => e.length - 1)) with hcellsdef
  show t.calls = t'.calls ∧ _
  simp only [t, t', p] at *
  rw [hc, hc', hi, hi']
  refine ⟨rfl, ?_, ?_, ?_, ?_⟩
  · apply dispOk_map_const
    intro cell _
    rw [relDisp_hist]
    exact cellCount_sens edges cell pre post r r'
  all_goals rw [privLoss_map_const]
  all_goals simp only [relDisp_hist, cellCount_replace]
  · -- ≤ 2 ε
    have hb : ∀ cell, (histCall ε maxsize).eps * |inCell edges cell r - inCell edges cell r'| ≤
        ε * inCell edges cell r + ε * inCell edges cell r' := by
      intro cell
      have h1 := inCell_range edges cell r
      have h2 := inCell_range edges cell r'
      have : |inCell edges cell r - inCell edges cell r'| ≤ inCell edges cell r + inCell edges cell r' := by
        rw [abs_le]; constructor <;> linarith [h1.1, h2.1]
      calc (histCall ε maxsize).eps * |inCell edges cell r - inCell edges cell r'|
          ≤ ε * (inCell edges cell r + inCell edges cell r') := mul_le_mul_of_nonneg_left this hε
        _ = _ := by ring
    calc (cells.map (fun cell => (histCall ε maxsize).eps * |inCell edges cell r - inCell edges cell r'|)).sum
        ≤ (cells.map (fun cell => ε * inCell edges cell r + ε * inCell edges cell r')).sum :=
          List.sum_le_sum (fun cell _ => hb cell)
      _ = ε * (cells.map (fun cell => inCell edges cell r)).sum +
            ε * (cells.map (fun cell => inCell edges cell r')).sum := by
          rw [List.sum_map_add, List.sum_map_mul_left, List.sum_map_mul_left]
      _ ≤ ε * 1 + ε * 1 := by
          have h1 := sum_inCell_le_one edges cells hcells r
          have h2 := sum_inCell_le_one edges cells hcells r'
          exact add_le_add (mul_le_mul_of_nonneg_left h1 hε) (mul_le_mul_of_nonneg_left h2 hε)
      _ = ε * 2 := by ring
  · -- one of the two is outside the range: ≤ ε
    intro hnone
    have hb : ∀ cell, (histCall ε maxsize).eps * |inCell edges cell r - inCell edges cell r'| ≤
        ε * inCell edges cell r + ε * inCell edges cell r' := by
      intro cell
      have h1 := inCell_range edges cell r
      have h2 := inCell_range edges cell r'
      have : |inCell edges cell r - inCell edges cell r'| ≤ inCell edges cell r + inCell edges cell r' := by
        rw [abs_le]; constructor <;> linarith [h1.1, h2.1]
      calc (histCall ε maxsize).eps * |inCell edges cell r - inCell edges cell r'|
          ≤ ε * (inCell edges cell r + inCell edges cell r') := mul_le_mul_of_nonneg_left this hε
        _ = _ := by ring
    have hsum : (cells.map (fun cell => (histCall ε maxsize).eps * |inCell edges cell r - inCell edges cell r'|)).sum
        ≤ ε * (cells.map (fun cell => inCell edges cell r)).sum +
            ε * (cells.map (fun cell => inCell edges cell r')).sum := by
      calc _ ≤ (cells.map (fun cell => ε * inCell edges cell r + ε * inCell edges cell r')).sum :=
            List.sum_le_sum (fun cell _ => hb cell)
        _ = _ := by rw [List.sum_map_add, List.sum_map_mul_left, List.sum_map_mul_left]
    have h1 := sum_inCell_le_one edges cells hcells r
    have h2 := sum_inCell_le_one edges cells hcells r'
    rcases hnone with hn | hn
    · rw [sum_inCell_none edges cells r hn] at hsum
      nlinarith
    · rw [sum_inCell_none edges cells r' hn] at hsum
      nlinarith
  · -- same bin: nothing moves
    intro hsame
    apply List.sum_eq_zero
    intro v hv
    obtain ⟨cell, _, rfl⟩ := List.mem_map.mp hv
    have : inCell edges cell r = inCell edges cell r' := by unfold inCell; rw [hsame]
    simp [this]

/-! ### weighted histograms: the faithful model moves by the weight, the sensitivity stays 1 -/

/-- `histogram([0.5], bins=1, range=(0,1), weights=[3])` against the same record moved out of the range: the count
handed to the mechanism moves by 3 > sensitivity 1 -/
theorem hist_weights_cex :
    ¬ (∀ (edges : List (List ℝ)) (cell : List Nat) (pre post : List (WRow ℝ)) (r r' : WRow ℝ),
        |cellCount edges true cell (pre ++ r :: post) - cellCount edges true cell (pre ++ r' :: post)| ≤ 1) := by
  intro h
  have := h [[0, 1]] [0] [] [] ⟨[1 / 2], 3⟩ ⟨[2], 3⟩
  norm_num [cellCount, binOf, binIdx, eqv, List.zipWith, List.mapM_cons, List.filter, Tools.sum, truncv,
    List.getLastD] at this

end Tools
end DPL
