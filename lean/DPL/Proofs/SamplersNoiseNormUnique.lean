/-
Helper lemmas for C17 §6: UNIQUENESS of the rotation-invariant probability measure on the unit sphere of a
finite-dimensional real inner product space.

Proof (characteristic functions, no Haar measure on the orthogonal group):  let `μ, ν` be probability measures carried by
the unit sphere and invariant under all linear isometries.
 (a) two vectors of the same norm are exchanged by a reflection, so `charFun μ t` depends on `‖t‖` only;
 (b) hence, averaging over `u ~ ν` (a.s. a unit vector),  `charFun μ t = ∫ charFun μ (‖t‖ • u) dν(u)
       = ∫∫ exp(i ‖t‖ ⟪x, u⟫) dμ(x) dν(u)`,  which is symmetric in `(μ, ν)` by Fubini;
 (c) so `charFun μ = charFun ν` and `μ = ν` (`Measure.ext_of_charFun`).
-/
import DPL.Proofs.SamplersNoiseNormSphere
import Mathlib.Analysis.InnerProductSpace.Projection.Reflection
import Mathlib.MeasureTheory.Measure.CharacteristicFunction.Basic
import Mathlib.MeasureTheory.Integral.Prod

namespace DPL.Smp
open MeasureTheory ProbabilityTheory Metric Set Complex Function
open scoped RealInnerProductSpace

section
variable {E : Type*} [NormedAddCommGroup E] [InnerProductSpace ℝ E] [FiniteDimensional ℝ E]
  [MeasurableSpace E] [BorelSpace E]

/-- two vectors of the same norm are exchanged by a linear isometry (a reflection) -/
theorem exists_isometry_of_norm_eq (v w : E) (h : ‖v‖ = ‖w‖) : ∃ f : E ≃ₗᵢ[ℝ] E, f v = w :=
  ⟨(ℝ ∙ (v - w))ᗮ.reflection, Submodule.reflection_sub h⟩

theorem charFun_isometry {μ : Measure E} (hμ : ∀ f : E ≃ₗᵢ[ℝ] E, μ.map f = μ) (f : E ≃ₗᵢ[ℝ] E) (t : E) :
    charFun μ (f t) = charFun μ t := by
  conv_lhs => rw [← hμ f]
  rw [charFun_apply, charFun_apply,
    integral_map f.continuous.measurable.aemeasurable (Measurable.aestronglyMeasurable (by fun_prop))]
  simp_rw [f.inner_map_map]

theorem charFun_eq_of_norm_eq {μ : Measure E} (hμ : ∀ f : E ≃ₗᵢ[ℝ] E, μ.map f = μ) (t t' : E) (h : ‖t‖ = ‖t'‖) :
    charFun μ t' = charFun μ t := by
  obtain ⟨f, hf⟩ := exists_isometry_of_norm_eq t t' h
  rw [← hf, charFun_isometry hμ]

/-- averaging the characteristic function of an invariant measure over a law carried by the unit sphere -/
theorem charFun_eq_average {μ ν : Measure E} [IsProbabilityMeasure ν]
    (hνs : ν (sphere (0 : E) 1)ᶜ = 0) (hμ : ∀ f : E ≃ₗᵢ[ℝ] E, μ.map f = μ) (t : E) :
    charFun μ t = ∫ u, charFun μ (‖t‖ • u) ∂ν := by
  have hmem : ∀ᵐ u ∂ν, u ∈ sphere (0 : E) 1 := by rw [ae_iff]; exact hνs
  have hae : ∀ᵐ u ∂ν, charFun μ (‖t‖ • u) = charFun μ t := by
    filter_upwards [hmem] with u hu
    apply charFun_eq_of_norm_eq hμ
    rw [norm_smul, norm_norm, mem_sphere_zero_iff_norm.mp hu, mul_one]
  rw [integral_congr_ae hae, integral_const]
  simp

theorem charFun_eq_of_invariant {μ ν : Measure E} [IsProbabilityMeasure μ] [IsProbabilityMeasure ν]
    (hμs : μ (sphere (0 : E) 1)ᶜ = 0) (hνs : ν (sphere (0 : E) 1)ᶜ = 0)
    (hμ : ∀ f : E ≃ₗᵢ[ℝ] E, μ.map f = μ) (hν : ∀ f : E ≃ₗᵢ[ℝ] E, ν.map f = ν) (t : E) :
    charFun μ t = charFun ν t := by
  rw [charFun_eq_average hνs hμ t, charFun_eq_average hμs hν t]
  simp_rw [charFun_apply]
  have hint : Integrable (uncurry fun (u x : E) => cexp ((⟪x, ‖t‖ • u⟫ : ℝ) * I)) (ν.prod μ) := by
    refine Integrable.of_bound (C := 1) ?_ (Filter.Eventually.of_forall fun p => ?_)
    · exact Continuous.aestronglyMeasurable (by unfold uncurry; fun_prop)
    · simp only [uncurry]; rw [norm_exp_ofReal_mul_I]
  rw [integral_integral_swap hint]
  refine integral_congr_ae (Filter.Eventually.of_forall fun x => ?_)
  refine integral_congr_ae (Filter.Eventually.of_forall fun u => ?_)
  simp only [real_inner_smul_right, real_inner_comm]

/-- **uniqueness**: a probability measure carried by the unit sphere and invariant under every linear isometry is
unique -/
theorem sphere_invariant_unique {μ ν : Measure E} [IsProbabilityMeasure μ] [IsProbabilityMeasure ν]
    (hμs : μ (sphere (0 : E) 1)ᶜ = 0) (hνs : ν (sphere (0 : E) 1)ᶜ = 0)
    (hμ : ∀ f : E ≃ₗᵢ[ℝ] E, μ.map f = μ) (hν : ∀ f : E ≃ₗᵢ[ℝ] E, ν.map f = ν) : μ = ν :=
  Measure.ext_of_charFun (funext (charFun_eq_of_invariant hμs hνs hμ hν))

/-- **the direction of a standard Gaussian vector is uniform on the sphere** -/
theorem stdGaussian_dir_uniform [Nontrivial E] : (stdGaussian E).map unitDir = sphereUniform E := by
  have : IsProbabilityMeasure ((stdGaussian E).map unitDir) :=
    Measure.isProbabilityMeasure_map measurable_unitDir.aemeasurable
  have : IsProbabilityMeasure (sphereUniform E) := isProbabilityMeasure_sphereUniform
  exact sphere_invariant_unique stdGaussian_dir_sphere sphereUniform_sphere stdGaussian_dir_map sphereUniform_map

end
end DPL.Smp
