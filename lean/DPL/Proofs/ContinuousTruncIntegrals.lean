/-
Elementary integrals behind the truncated / bounded-domain / bounded-noise / folded Laplace laws (C19, C02):
for `b ≠ 0` and arbitrary end points `a c`, by the fundamental theorem of calculus with explicit antiderivatives,
  ∫_a^c y^j e^{(y-v)/b}/(2b) dy   and   ∫_a^c y^j e^{(v-y)/b}/(2b) dy      (j = 0, 1, 2).
The antiderivatives are `e/2`, `(y ∓ b) e/2`, `(y² ∓ 2by + 2b²) e/2` with `e = e^{±(y-v)/b}`.
-/
import Mathlib.MeasureTheory.Integral.IntervalIntegral.FundThmCalculus
import Mathlib.Analysis.SpecialFunctions.ExpDeriv
import Mathlib.Analysis.Calculus.Deriv.Pow
import Mathlib.Tactic.FieldSimp
import Mathlib.Tactic.Ring

namespace DPL.Cont
open MeasureTheory Real Set

/-- FTC-2 for a globally differentiable antiderivative of a continuous integrand -/
theorem integral_of_antideriv (F f : ℝ → ℝ) (a c : ℝ) (hF : ∀ y, HasDerivAt F (f y) y) (hf : Continuous f) :
    ∫ y in a..c, f y = F c - F a :=
  intervalIntegral.integral_eq_sub_of_hasDerivAt (fun y _ => hF y) (hf.intervalIntegrable _ _)

theorem hasDerivAt_exp_up (b v y : ℝ) :
    HasDerivAt (fun y : ℝ => Real.exp ((y - v) / b)) (Real.exp ((y - v) / b) * (1 / b)) y := by
  have h1 : HasDerivAt (fun y : ℝ => (y - v) / b) (1 / b) y := by
    simpa using ((hasDerivAt_id y).sub_const v).div_const b
  exact h1.exp

theorem hasDerivAt_exp_down (b v y : ℝ) :
    HasDerivAt (fun y : ℝ => Real.exp ((v - y) / b)) (Real.exp ((v - y) / b) * (-1 / b)) y := by
  have h1 : HasDerivAt (fun y : ℝ => (v - y) / b) (-1 / b) y := by
    simpa using ((hasDerivAt_id y).const_sub v).div_const b
  exact h1.exp

/-! ### the rising branch `e^{(y-v)/b}` (left of the centre) -/

theorem integral_up0 (b v a c : ℝ) (hb : b ≠ 0) :
    (∫ y in a..c, Real.exp ((y - v) / b) / (2 * b)) =
      Real.exp ((c - v) / b) / 2 - Real.exp ((a - v) / b) / 2 := by
  refine integral_of_antideriv (fun y => Real.exp ((y - v) / b) / 2) _ a c (fun y => ?_) (by fun_prop)
  refine ((hasDerivAt_exp_up b v y).div_const 2).congr_deriv ?_
  field_simp

theorem integral_up1 (b v a c : ℝ) (hb : b ≠ 0) :
    (∫ y in a..c, y * (Real.exp ((y - v) / b) / (2 * b))) =
      (c - b) * Real.exp ((c - v) / b) / 2 - (a - b) * Real.exp ((a - v) / b) / 2 := by
  refine integral_of_antideriv (fun y => (y - b) * Real.exp ((y - v) / b) / 2) _ a c (fun y => ?_) (by fun_prop)
  have h3 : HasDerivAt (fun y : ℝ => y - b) 1 y := (hasDerivAt_id y).sub_const b
  refine ((h3.mul (hasDerivAt_exp_up b v y)).div_const 2).congr_deriv ?_
  field_simp
  ring

theorem integral_up2 (b v a c : ℝ) (hb : b ≠ 0) :
    (∫ y in a..c, y ^ 2 * (Real.exp ((y - v) / b) / (2 * b))) =
      (c ^ 2 - 2 * b * c + 2 * b ^ 2) * Real.exp ((c - v) / b) / 2 -
        (a ^ 2 - 2 * b * a + 2 * b ^ 2) * Real.exp ((a - v) / b) / 2 := by
  refine integral_of_antideriv (fun y => (y ^ 2 - 2 * b * y + 2 * b ^ 2) * Real.exp ((y - v) / b) / 2) _ a c
    (fun y => ?_) (by fun_prop)
  have h3 : HasDerivAt (fun y : ℝ => y ^ 2 - 2 * b * y + 2 * b ^ 2) (2 * y - 2 * b) y := by
    have := (((hasDerivAt_pow 2 y)).sub ((hasDerivAt_id y).const_mul (2 * b))).add_const (2 * b ^ 2)
    refine this.congr_deriv ?_
    simp
  refine ((h3.mul (hasDerivAt_exp_up b v y)).div_const 2).congr_deriv ?_
  field_simp
  ring

/-! ### the falling branch `e^{(v-y)/b}` (right of the centre) -/

theorem integral_down0 (b v a c : ℝ) (hb : b ≠ 0) :
    (∫ y in a..c, Real.exp ((v - y) / b) / (2 * b)) =
      Real.exp ((v - a) / b) / 2 - Real.exp ((v - c) / b) / 2 := by
  have := integral_of_antideriv (fun y => -(Real.exp ((v - y) / b) / 2)) (fun y => Real.exp ((v - y) / b) / (2 * b))
    a c (fun y => ?_) (by fun_prop)
  · rw [this]; ring
  refine (((hasDerivAt_exp_down b v y).div_const 2).neg).congr_deriv ?_
  field_simp

theorem integral_down1 (b v a c : ℝ) (hb : b ≠ 0) :
    (∫ y in a..c, y * (Real.exp ((v - y) / b) / (2 * b))) =
      (a + b) * Real.exp ((v - a) / b) / 2 - (c + b) * Real.exp ((v - c) / b) / 2 := by
  have := integral_of_antideriv (fun y => -((y + b) * Real.exp ((v - y) / b) / 2))
    (fun y => y * (Real.exp ((v - y) / b) / (2 * b))) a c (fun y => ?_) (by fun_prop)
  · rw [this]; ring
  have h3 : HasDerivAt (fun y : ℝ => y + b) 1 y := (hasDerivAt_id y).add_const b
  refine (((h3.mul (hasDerivAt_exp_down b v y)).div_const 2).neg).congr_deriv ?_
  field_simp
  ring

theorem integral_down2 (b v a c : ℝ) (hb : b ≠ 0) :
    (∫ y in a..c, y ^ 2 * (Real.exp ((v - y) / b) / (2 * b))) =
      (a ^ 2 + 2 * b * a + 2 * b ^ 2) * Real.exp ((v - a) / b) / 2 -
        (c ^ 2 + 2 * b * c + 2 * b ^ 2) * Real.exp ((v - c) / b) / 2 := by
  have := integral_of_antideriv (fun y => -((y ^ 2 + 2 * b * y + 2 * b ^ 2) * Real.exp ((v - y) / b) / 2))
    (fun y => y ^ 2 * (Real.exp ((v - y) / b) / (2 * b))) a c (fun y => ?_) (by fun_prop)
  · rw [this]; ring
  have h3 : HasDerivAt (fun y : ℝ => y ^ 2 + 2 * b * y + 2 * b ^ 2) (2 * y + 2 * b) y := by
    have := (((hasDerivAt_pow 2 y)).add ((hasDerivAt_id y).const_mul (2 * b))).add_const (2 * b ^ 2)
    refine this.congr_deriv ?_
    simp
  refine (((h3.mul (hasDerivAt_exp_down b v y)).div_const 2).neg).congr_deriv ?_
  field_simp
  ring

end DPL.Cont
