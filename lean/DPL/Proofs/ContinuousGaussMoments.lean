/-
The first two moments of the Gaussian law (C19): for the standard normal `Z ~ N(0,1)`, `E[Z] = 0` and `E[Z²] = 1` —
the two hypotheses `h1`, `h2` of `gaussian_variance` in `DPL/Properties/C19.lean` — and for the noise `σZ ~ N(0, σ²)`
of the Gaussian mechanism directly: mean 0, second moment `σ²`.
-/
import Mathlib.Probability.Distributions.Gaussian.Real

namespace DPL.Cont
open MeasureTheory ProbabilityTheory

/-- `E[Y²] = v + m²` for `Y ~ N(m, v)` -/
theorem integral_sq_gaussianReal (m : ℝ) (v : NNReal) : ∫ z, z ^ 2 ∂(gaussianReal m v) = v + m ^ 2 := by
  have hv : Var[fun x : ℝ => x; gaussianReal m v] = v := variance_fun_id_gaussianReal
  have hL : MemLp (fun x : ℝ => x) 2 (gaussianReal m v) := memLp_id_gaussianReal 2
  rw [variance_eq_sub hL] at hv
  simp only [Pi.pow_apply, integral_id_gaussianReal] at hv
  linarith

/-- `E[Z] = 0` for the standard normal -/
theorem integral_id_stdGaussian : ∫ z, z ∂(gaussianReal 0 1) = 0 := integral_id_gaussianReal

/-- `E[Z²] = 1` for the standard normal -/
theorem integral_sq_stdGaussian : ∫ z, z ^ 2 ∂(gaussianReal 0 1) = 1 := by
  rw [integral_sq_gaussianReal]; simp

/-- the noise of the Gaussian mechanism, `N(0, σ²)`: mean 0 and second moment (= variance) `σ²` -/
theorem gaussian_noise_moments (σ : ℝ) :
    ∫ y, y ∂(gaussianReal 0 (NNReal.mk (σ ^ 2) (sq_nonneg σ))) = 0 ∧
    ∫ y, y ^ 2 ∂(gaussianReal 0 (NNReal.mk (σ ^ 2) (sq_nonneg σ))) = σ ^ 2 := by
  refine ⟨integral_id_gaussianReal, ?_⟩
  rw [integral_sq_gaussianReal]; simp

/-- `N(0, σ²)` is the law of `σ Z`, `Z ~ N(0,1)` -/
theorem gaussianReal_map_sigma_mul (σ : ℝ) :
    (gaussianReal 0 1).map (fun z => σ * z) = gaussianReal 0 (NNReal.mk (σ ^ 2) (sq_nonneg σ)) := by
  rw [gaussianReal_map_const_mul]; simp

end DPL.Cont
