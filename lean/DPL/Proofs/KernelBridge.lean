/-
The bridge between the KERNELS of the composition layer and the SAMPLERS of the model (C03 / C01 → C07 / C08).

`PM.lapKernel`, `PM.truncLapKernel` (`ModelsCompose3.lean`) are defined as measures (C02's Laplace law and its clamp);
C03 proves that the model's `Laplace.randomise`, as a function of the four uniforms it draws, has the Laplace law under
the uniform measure on `[0,1)⁴` (`Smp.laplace_map`).  Here the two are identified:

  lapKernel c a       = unif01x4.map (lapSampler c a)          `Laplace.randomise` on (u₁,u₂,u₃,u₄)
  truncLapKernel c a  = unif01x4.map (truncLapSampler c a)     `LaplaceTruncated.randomise` (sampler, then `_truncate`)
  geomKernel c a      = unif01.map   (geomSampler c a)         `Geometric.randomise` on one uniform, then the clamp

for `δ = 0` (the kernels use the scale `sens/ε`; the coded scale is `sens/(ε − log(1−δ))`), `ε > 0`, `sens ≥ 0`
(`sens = 0` included: scale 0, the sampler returns the value, the kernel is the Dirac mass) and `lower ≤ upper` for the
truncation (`_truncate` is `if v > upper: upper elif v < lower: lower`, the kernel clamps with `max lower (min · upper)`;
they differ when `upper < lower`).  Then the law of a one-invocation plan (`Tools.single`) under these kernels is the
push-forward of the uniform measure under "input function, then sampler": `meanRun`, `sumRun`, `countRun`.
-/
import DPL.Proofs.ModelsCompose7
import DPL.Proofs.SamplersLap4Law
import DPL.Proofs.DiscreteUnif
import DPL.Model.PlanTools

namespace DPL
namespace PM
open MeasureTheory Set

variable {δ : Type}

/-! ### the samplers as functions of the uniform draws -/

/-- `Laplace(epsilon, delta, sensitivity).randomise(a)` on the four uniforms `w`, parameters read off the call -/
noncomputable def lapSampler (c : MechCall ℝ) (a : ℝ) (w : ℝ × ℝ × ℝ × ℝ) : ℝ :=
  Smp.laplace c.eps c.delta c.sens a w.1 w.2.1 w.2.2.1 w.2.2.2

/-- `LaplaceTruncated(epsilon, delta, sensitivity, lower, upper).randomise(a)` on the four uniforms `w` -/
noncomputable def truncLapSampler (c : MechCall ℝ) (a : ℝ) (w : ℝ × ℝ × ℝ × ℝ) : ℝ :=
  Smp.laplaceTruncated c.eps c.delta c.sens c.lower c.upper a w.1 w.2.1 w.2.2.1 w.2.2.2

/-- `Geometric(epsilon, sensitivity = 1).randomise(⌊a⌋)` on the uniform `u`, then the clamp to the call's bounds -/
noncomputable def geomSampler (c : MechCall ℝ) (a : ℝ) (u : ℝ) : ℝ :=
  clampZ c (Discrete.geomRandomise c.eps 1 ⌊a⌋ u)

theorem measurable_lapSampler (c : MechCall ℝ) (a : ℝ) : Measurable (lapSampler c a) :=
  Smp.measurable_laplace c.eps c.delta c.sens a

/-- the truncated sampler is the sampler followed by the model's `_truncate` -/
theorem truncLapSampler_eq (c : MechCall ℝ) (a : ℝ) :
    truncLapSampler c a = Smp.truncate c.lower c.upper ∘ lapSampler c a := rfl

theorem measurable_truncLapSampler (c : MechCall ℝ) (a : ℝ) : Measurable (truncLapSampler c a) := by
  rw [truncLapSampler_eq]
  exact (Smp.measurable_truncate _ _).comp (measurable_lapSampler c a)

/-! ### reconciling the parametrisations -/

/-- the coded scale `sens/(ε − log(1−δ))` at `δ = 0` is the kernel's `sens/ε` -/
theorem laplaceScale_delta0 (eps sens : ℝ) : Smp.laplaceScale eps 0 sens = sens / eps := by
  simp [Smp.laplaceScale]

/-- the model's `_truncate` is the clamp `max lo (min · hi)` as soon as `lo ≤ hi` -/
theorem truncate_eq_clamp (lo hi v : ℝ) (h : lo ≤ hi) : Smp.truncate lo hi v = max lo (min v hi) := by
  unfold Smp.truncate
  split_ifs with h1 h2
  · rw [min_eq_right h1.le, max_eq_right h]
  · rw [min_eq_left (not_lt.1 h1), max_eq_left h2.le]
  · rw [min_eq_left (not_lt.1 h1), max_eq_right (not_lt.1 h2)]

/-- … and they do differ when `hi < lo` (why `lower ≤ upper` is a hypothesis of the truncated bridge) -/
theorem truncate_ne_clamp_cex : Smp.truncate (1 : ℝ) 0 2 ≠ max 1 (min 2 0) := by
  norm_num [Smp.truncate]

/-! ### the kernels are the push-forwards of the uniform measure under the samplers -/

/-- **`lapKernel` is the law of the model's `Laplace.randomise`** under four independent uniform draws (C03
`laplace_mech_law`), for every call with `δ = 0`, `ε > 0`, `sens ≥ 0` and every input -/
theorem lapKernel_eq_sampler_law (c : MechCall ℝ) (hε : 0 < c.eps) (hs : 0 ≤ c.sens) (hδ : c.delta = 0) (a : ℝ) :
    lapKernel c a = Smp.unif01x4.map (lapSampler c a) := by
  unfold lapSampler
  rw [hδ]
  rcases hs.eq_or_lt with h0 | hpos
  · have hsc : Smp.laplaceScale c.eps 0 c.sens = 0 := by rw [laplaceScale_delta0, ← h0, zero_div]
    have hconst : (fun w : ℝ × ℝ × ℝ × ℝ => Smp.laplace c.eps 0 c.sens a w.1 w.2.1 w.2.2.1 w.2.2.2)
        = fun _ => a := by
      funext w; rw [Smp.laplace_real, hsc]; ring
    rw [hconst, Measure.map_const, measure_univ, one_smul]
    simp [lapKernel, ← h0]
  · have hpos' : 0 < c.sens / c.eps := div_pos hpos hε
    have hb : 0 < Smp.laplaceScale c.eps 0 c.sens := by rw [laplaceScale_delta0]; exact hpos'
    rw [Smp.laplace_map _ _ _ _ hb, laplaceScale_delta0]
    simp [lapKernel, hpos']

/-- **`truncLapKernel` is the law of the model's `LaplaceTruncated.randomise`** (sampler, then `_truncate`) -/
theorem truncLapKernel_eq_sampler_law (c : MechCall ℝ) (hε : 0 < c.eps) (hs : 0 ≤ c.sens) (hδ : c.delta = 0)
    (hb : c.lower ≤ c.upper) (a : ℝ) :
    truncLapKernel c a = Smp.unif01x4.map (truncLapSampler c a) := by
  unfold truncLapKernel
  rw [lapKernel_eq_sampler_law c hε hs hδ a,
    Measure.map_map (Cont.measurable_truncate _ _) (measurable_lapSampler c a), truncLapSampler_eq]
  congr 1
  funext w
  simp only [Function.comp_apply, truncate_eq_clamp _ _ _ hb]

/-- the geometric sampler agrees almost surely with its measurable totalisation -/
theorem geomSampler_ae (c : MechCall ℝ) (a : ℝ) :
    (fun u => clampZ c (geomDrawT c.eps ⌊a⌋ u)) =ᵐ[Discrete.unif01] geomSampler c a := by
  unfold Discrete.unif01
  filter_upwards [ae_restrict_mem measurableSet_Ico] with u hu
  simp [geomSampler, geomDrawT, hu]

theorem aemeasurable_geomSampler (c : MechCall ℝ) (hε : 0 < c.eps) (a : ℝ) :
    AEMeasurable (geomSampler c a) Discrete.unif01 :=
  ⟨_, measurable_geomOut c hε ⌊a⌋, (geomSampler_ae c a).symm⟩

/-- **`geomKernel` is the law of the model's `Geometric.randomise`** (sensitivity 1, on `⌊a⌋`) under one uniform draw,
followed by the clamp to the call's bounds — the kernel is *defined* as this push-forward up to the value of the
sampler off `[0,1)` (a null set) -/
theorem geomKernel_eq_sampler_law (c : MechCall ℝ) (hε : 0 < c.eps) (a : ℝ) :
    geomKernel c a = Discrete.unif01.map (geomSampler c a) := by
  simp only [geomKernel, if_pos hε]
  exact Measure.map_congr (geomSampler_ae c a)

/-- the unclamped part: the atoms of `Geometric.randomise(x)` under `unif01` are the two-sided geometric pmf of C01
(`Discrete.geom_law`), shifted to `x` -/
theorem geomRandomise_atom (eps : ℝ) (heps : 0 < eps) (x k : ℤ) :
    Discrete.unif01 ((Discrete.geomRandomise eps 1 x) ⁻¹' {x + k})
      = ENNReal.ofReal ((1 - Real.exp (-eps)) / (1 + Real.exp (-eps)) * Real.exp (-eps) ^ k.natAbs) := by
  rw [Discrete.unif01_preimage]
  have hs : -eps / ((1 : ℕ) : ℝ) = -eps := by simp
  have hset : {u : ℝ | u ∈ Ico (0:ℝ) 1 ∧ Discrete.geomRandomise eps 1 x u ∈ ({x + k} : Set ℤ)}
      = {u : ℝ | u ∈ Ico (0:ℝ) 1 ∧ Discrete.geomNoise (-eps) u = k} := by
    ext u
    simp only [Discrete.geomRandomise, Nat.lt_one_iff, mem_singleton_iff, mem_ofPred_eq, hs]
    simp
  rw [hset, Discrete.geom_law (-eps) (by linarith) k, Discrete.geomPmf_eq_pow]

/-! ### one-invocation plans: the output law is the push-forward under "input, then sampler" -/

/-- the law of a one-invocation plan is the kernel at the plan's input -/
theorem law_single (M : MechCall ℝ → ℝ → Measure ℝ) (c : MechCall ℝ) (inp : δ → ℝ) (D : δ) :
    (Tools.single c inp).law M D = M c (inp D) := by
  simp only [Tools.single, Plan.law]
  exact Measure.bind_dirac

theorem law_single_truncLap (c : MechCall ℝ) (hε : 0 < c.eps) (hs : 0 ≤ c.sens) (hδ : c.delta = 0)
    (hb : c.lower ≤ c.upper) (inp : δ → ℝ) (D : δ) :
    (Tools.single c inp).law truncLapKernel D = Smp.unif01x4.map (truncLapSampler c (inp D)) := by
  rw [law_single, truncLapKernel_eq_sampler_law c hε hs hδ hb]

theorem law_single_geom (c : MechCall ℝ) (hε : 0 < c.eps) (inp : δ → ℝ) (D : δ) :
    (Tools.single c inp).law geomKernel D = Discrete.unif01.map (geomSampler c (inp D)) := by
  rw [law_single, geomKernel_eq_sampler_law c hε]

end PM

namespace Tools
open MeasureTheory Set

/-- **the mean tool, sampler included**: `LaplaceTruncated(ε, δ=0, sensitivity=(u−l)/n, lower=l, upper=u)
.randomise(np.mean(clip(D, l, u)))` as a function of the data and of the four uniforms the sampler draws -/
noncomputable def meanRun (n : ℕ) (ε l u : ℝ) (D : List ℝ) (w : ℝ × ℝ × ℝ × ℝ) : ℝ :=
  Smp.laplaceTruncated ε 0 ((u - l) / (n : ℝ)) l u (mean (D.map (clip l u))) w.1 w.2.1 w.2.2.1 w.2.2.2

/-- **the sum tool, sampler included**: `LaplaceTruncated(ε, 0, u−l, l·n, u·n).randomise(np.sum(clip(D, l, u)))` -/
noncomputable def sumRun (n : ℕ) (ε l u : ℝ) (D : List ℝ) (w : ℝ × ℝ × ℝ × ℝ) : ℝ :=
  Smp.laplaceTruncated ε 0 (u - l) (l * (n : ℝ)) (u * (n : ℝ)) (sum (D.map (clip l u))) w.1 w.2.1 w.2.2.1 w.2.2.2

/-- **count_nonzero, sampler included**: `GeometricTruncated(ε, sensitivity=1, lower=0, upper=n).randomise(count)` as
a function of the data and of the uniform the sampler draws (the integer clamp written over the reals) -/
noncomputable def countRun (n : ℕ) (ε : ℝ) (D : List ℝ) (v : ℝ) : ℝ :=
  max (0 * (n : ℝ)) (min ((Discrete.geomRandomise ε 1
    ⌊sum (D.map (fun x => if eqv x 0 then (0 : ℝ) else 1))⌋ v : ℤ) : ℝ) (1 * (n : ℝ)))

theorem meanRun_eq (n : ℕ) (ε l u : ℝ) (D : List ℝ) :
    meanRun n ε l u D = PM.truncLapSampler ⟨"LaplaceTruncated", ε, 0, (u - l) / (n : ℝ), l, u, .osCsprng⟩
      (mean (D.map (clip l u))) := rfl

theorem sumRun_eq (n : ℕ) (ε l u : ℝ) (D : List ℝ) :
    sumRun n ε l u D = PM.truncLapSampler ⟨"LaplaceTruncated", ε, 0, u - l, l * (n : ℝ), u * (n : ℝ), .osCsprng⟩
      (sum (D.map (clip l u))) := rfl

theorem countRun_eq (n : ℕ) (ε : ℝ) (D : List ℝ) :
    countRun n ε D = PM.geomSampler ⟨"GeometricTruncated", ε, 0, 1 - 0, 0 * (n : ℝ), 1 * (n : ℝ), .osCsprng⟩
      (sum (D.map (fun x => if eqv x 0 then (0 : ℝ) else 1))) := rfl

/-- the model's integer `_truncate` (`Discrete.truncInt`) at finite integer bounds `lo ≤ hi` is the clamp -/
theorem truncInt_half (lo hi z : ℤ) (h : lo ≤ hi) :
    Discrete.truncInt (.half (2 * lo)) (.half (2 * hi)) z = some (max lo (min z hi)) := by
  simp only [Discrete.truncInt, Discrete.Bnd.ltInt, Discrete.Bnd.gtInt, decide_eq_true_eq]
  split_ifs with h1 h2
  · rw [min_eq_right (by omega), max_eq_right h]; congr 1; omega
  · rw [min_eq_left (by omega), max_eq_left (by omega)]; congr 1; omega
  · rw [min_eq_left (by omega), max_eq_right (by omega)]

/-- `countRun` is the model's `GeometricTruncated.randomise` (`Discrete.geomTruncRandomise`, bounds `0` and `n`) on the
count, embedded in the reals -/
theorem countRun_eq_model (n : ℕ) (ε : ℝ) (D : List ℝ) (v : ℝ) :
    countRun n ε D v = (((Discrete.geomTruncRandomise ε 1 (.half (2 * 0)) (.half (2 * (n : ℤ)))
      ⌊sum (D.map (fun x => if eqv x 0 then (0 : ℝ) else 1))⌋ v).getD 0 : ℤ) : ℝ) := by
  unfold Discrete.geomTruncRandomise
  rw [truncInt_half 0 n _ (by positivity), Option.getD_some]
  simp [countRun]

theorem measurable_meanRun (n : ℕ) (ε l u : ℝ) (D : List ℝ) : Measurable (meanRun n ε l u D) := by
  rw [meanRun_eq]; exact PM.measurable_truncLapSampler _ _

theorem measurable_sumRun (n : ℕ) (ε l u : ℝ) (D : List ℝ) : Measurable (sumRun n ε l u D) := by
  rw [sumRun_eq]; exact PM.measurable_truncLapSampler _ _

theorem aemeasurable_countRun (n : ℕ) (ε : ℝ) (hε : 0 < ε) (D : List ℝ) :
    AEMeasurable (countRun n ε D) Discrete.unif01 := by
  rw [countRun_eq]; exact PM.aemeasurable_geomSampler _ hε _

/-- the output law of `meanPlan` under the clamped-Laplace kernel IS the law of `meanRun` under four uniforms -/
theorem meanPlan_law_eq_run (n : ℕ) (ε l u : ℝ) (hε : 0 < ε) (h : l ≤ u) (D : List ℝ) :
    (meanPlan n ε l u).law PM.truncLapKernel D = Smp.unif01x4.map (meanRun n ε l u D) := by
  rw [meanRun_eq]
  exact PM.law_single_truncLap _ hε (div_nonneg (sub_nonneg.2 h) (Nat.cast_nonneg n)) rfl h _ D

theorem sumPlan_law_eq_run (n : ℕ) (ε l u : ℝ) (hε : 0 < ε) (h : l ≤ u) (D : List ℝ) :
    (sumPlan n ε l u).law PM.truncLapKernel D = Smp.unif01x4.map (sumRun n ε l u D) := by
  rw [sumRun_eq]
  exact PM.law_single_truncLap _ hε (sub_nonneg.2 h) rfl
    (mul_le_mul_of_nonneg_right h (Nat.cast_nonneg n)) _ D

theorem countNonzeroPlan_law_eq_run (n : ℕ) (ε : ℝ) (hε : 0 < ε) (D : List ℝ) :
    (countNonzeroPlan n ε).law PM.geomKernel D = Discrete.unif01.map (countRun n ε D) := by
  rw [countRun_eq]
  exact PM.law_single_geom _ hε _ D

end Tools
end DPL
