/-
Acceptance–rejection over an i.i.d. stream, as a statement about the product measure on `ℕ → Ω`:

  P^{⊗ℕ}( the first draw that lies in `A` also lies in `B` ) = P(A ∩ B) / P(A)

(the geometric series `Σ_n P(Aᶜ)^n · P(A ∩ B)`).  Corollary: if the one-pass law `P(A ∩ {out = y})` is proportional to
a weight `w y`, the first accepted output has the law `w y / Σ_z w z`.
-/
import Mathlib.Probability.ProductMeasure
import Mathlib.Analysis.SpecificLimits.Basic
import Mathlib.Topology.Algebra.InfiniteSum.ENNReal

namespace DPL.Smp
open MeasureTheory Set

variable {Ω : Type*} [MeasurableSpace Ω]

/-- "the first `n` draws are rejected, draw `n` is accepted and lies in `B`" -/
def acceptAt (A B : Set Ω) (n : ℕ) : Set (ℕ → Ω) := {ω | (∀ m < n, ω m ∉ A) ∧ ω n ∈ A ∧ ω n ∈ B}

/-- "the first accepted draw of the stream lies in `B`" -/
def firstAcceptedIn (A B : Set Ω) : Set (ℕ → Ω) := {ω | ∃ n, (∀ m < n, ω m ∉ A) ∧ ω n ∈ A ∧ ω n ∈ B}

theorem firstAcceptedIn_eq_iUnion (A B : Set Ω) : firstAcceptedIn A B = ⋃ n, acceptAt A B n := by
  ext ω; simp [firstAcceptedIn, acceptAt]

theorem acceptAt_eq_pi (A B : Set Ω) (n : ℕ) :
    acceptAt A B n = Set.pi (Finset.range (n + 1) : Set ℕ) (fun i => if i < n then Aᶜ else A ∩ B) := by
  ext ω
  simp only [acceptAt, mem_ofPred_eq, Set.mem_pi, Finset.coe_range, mem_Iio]
  constructor
  · rintro ⟨h1, h2, h3⟩ i hi
    split_ifs with h
    · exact h1 i h
    · have : i = n := by omega
      subst this; exact ⟨h2, h3⟩
  · intro h
    refine ⟨fun m hm => ?_, ?_⟩
    · have := h m (by omega)
      simpa [hm] using this
    · have := h n (by omega)
      simpa using this

theorem acceptAt_measurable {A B : Set Ω} (hA : MeasurableSet A) (hB : MeasurableSet B) (n : ℕ) :
    MeasurableSet (acceptAt A B n) := by
  rw [acceptAt_eq_pi]
  refine MeasurableSet.pi (Finset.countable_toSet _) (fun i _ => ?_)
  split_ifs
  · exact hA.compl
  · exact hA.inter hB

theorem acceptAt_disjoint (A B : Set Ω) : Pairwise (Function.onFun Disjoint (acceptAt A B)) := by
  intro n m hnm
  rw [Function.onFun, Set.disjoint_left]
  rintro ω ⟨h1, h2, _⟩ ⟨h1', h2', _⟩
  rcases lt_or_gt_of_ne hnm with h | h
  · exact h1' n h h2
  · exact h1 m h h2'

theorem acceptAt_measure (P : Measure Ω) [IsProbabilityMeasure P] {A B : Set Ω} (hA : MeasurableSet A)
    (hB : MeasurableSet B) (n : ℕ) :
    Measure.infinitePi (fun _ : ℕ => P) (acceptAt A B n) = P Aᶜ ^ n * P (A ∩ B) := by
  rw [acceptAt_eq_pi, Measure.infinitePi_pi]
  · rw [Finset.prod_range_succ]
    simp only [lt_self_iff_false, ↓reduceIte]
    congr 1
    rw [Finset.prod_congr rfl (g := fun _ => P Aᶜ)]
    · simp
    · intro i hi
      simp [Finset.mem_range.mp hi]
  · intro i _
    split_ifs
    · exact hA.compl
    · exact hA.inter hB

/-- **acceptance–rejection**: over an i.i.d. stream with one-draw law `P`, the first accepted draw lies in `B` with
probability `P(A ∩ B)/P(A)` — the law of one draw conditioned on acceptance (no hypothesis on `P A`: both sides are 0
when nothing is ever accepted) -/
theorem firstAcceptedIn_measure (P : Measure Ω) [IsProbabilityMeasure P] {A B : Set Ω} (hA : MeasurableSet A)
    (hB : MeasurableSet B) :
    Measure.infinitePi (fun _ : ℕ => P) (firstAcceptedIn A B) = P (A ∩ B) / P A := by
  rw [firstAcceptedIn_eq_iUnion, measure_iUnion (acceptAt_disjoint A B) (acceptAt_measurable hA hB)]
  simp_rw [acceptAt_measure P hA hB]
  rw [ENNReal.tsum_mul_right, ENNReal.tsum_geometric, prob_compl_eq_one_sub hA,
    ENNReal.sub_sub_cancel ENNReal.one_ne_top prob_le_one, div_eq_mul_inv, mul_comm]

/-- the acceptance probability is the sum over the outputs -/
theorem accept_measure_eq_tsum (P : Measure Ω) {A : Set Ω} (hA : MeasurableSet A)
    (out : Ω → ℤ) (hout : ∀ y, MeasurableSet (out ⁻¹' {y})) : P A = ∑' z, P (A ∩ out ⁻¹' {z}) := by
  have hAu : A = ⋃ z, A ∩ out ⁻¹' {z} := by
    ext ω; simp
  conv_lhs => rw [hAu]
  rw [measure_iUnion ?_ (fun z => hA.inter (hout z))]
  intro a b hab
  rw [Function.onFun, Set.disjoint_left]
  rintro ω ⟨_, h1⟩ ⟨_, h2⟩
  simp only [mem_preimage, mem_singleton_iff] at h1 h2
  exact hab (h1.symm.trans h2)

/-- if the one-pass probability of "accepted with output `y`" is `c · w y`, the first accepted output is `y` with
probability `w y / Σ_z w z` -/
theorem firstAccepted_proportional (P : Measure Ω) [IsProbabilityMeasure P] {A : Set Ω} (hA : MeasurableSet A)
    (out : Ω → ℤ) (hout : ∀ y, MeasurableSet (out ⁻¹' {y})) (c : ENNReal) (hc0 : c ≠ 0) (hct : c ≠ ⊤)
    (w : ℤ → ENNReal) (h : ∀ y, P (A ∩ out ⁻¹' {y}) = c * w y) (y : ℤ) :
    Measure.infinitePi (fun _ : ℕ => P) (firstAcceptedIn A (out ⁻¹' {y})) = w y / ∑' z, w z := by
  rw [firstAcceptedIn_measure P hA (hout y), h y]
  have hPA : P A = c * ∑' z, w z := by
    rw [accept_measure_eq_tsum P hA out hout]
    simp_rw [h]; rw [ENNReal.tsum_mul_left]
  rw [hPA, ENNReal.mul_div_mul_left _ _ hc0 hct]

/-- … and the normaliser `Σ_z w z` is finite (so `w y / Σ_z w z` is a genuine probability, summing to 1 when some
`w z ≠ 0`) -/
theorem proportional_normaliser_finite (P : Measure Ω) [IsProbabilityMeasure P] {A : Set Ω} (hA : MeasurableSet A)
    (out : Ω → ℤ) (hout : ∀ y, MeasurableSet (out ⁻¹' {y})) (c : ENNReal) (hc0 : c ≠ 0)
    (w : ℤ → ENNReal) (h : ∀ y, P (A ∩ out ⁻¹' {y}) = c * w y) : ∑' z, w z ≠ ⊤ := by
  intro htop
  have hPA : P A = c * ∑' z, w z := by
    rw [accept_measure_eq_tsum P hA out hout]
    simp_rw [h]; rw [ENNReal.tsum_mul_left]
  rw [htop, ENNReal.mul_top hc0] at hPA
  exact (measure_ne_top P A) hPA

end DPL.Smp
