/- GENERATED on every run from /repo's current diffprivlib/accountant.py by harness/translate/scopeir.py — do not edit. -/
import DPL.Proofs.ScopeIR
namespace DPL.Gen.C16
open DPL DPL.ScopeIR


def genPop : Stmt := (.seq (.setLoc .clsDefault) (.seq (.setCls .none) (.ret .loc)))

def genSet : Stmt := (.seq (.setCls .self) (.ret .self))

def genEnter : Stmt := (.seq (.setOld .callPop) (.seq (.eval (.callSet .self)) (.ret .self)))

def genExit : Stmt := (.seq (.eval .callPop) (.seq (.ifNotNone .selfOld (.eval (.callSet .selfOld))) .delOld))

def genLoad : Stmt := (.seq (.ifIsNone .arg (.seq (.ifIsNone .clsDefault (.setCls .newAcc)) (.ret .clsDefault))) (.ret .arg))

/-- `pop_default` meets the contract the interpreter assumes for calls of it -/
theorem genPop_ok : PopOk genPop := by
  intro σ; unfold genPop; scope_ir_simple

/-- `set_default` meets the contract the interpreter assumes for calls of it -/
theorem genSet_ok : SetOk genSet := by
  intro σ a; unfold genSet; scope_ir_simple

/-- `__enter__` as coded is the machine's `enterI` -/
theorem genEnter_ok : EnterOk genEnter := by
  intro σ a; unfold genEnter; scope_ir_simple

/-- `__exit__` as coded is the machine's `exitI` (and returns a falsy value) -/
theorem genExit_ok : ExitOk genExit := by
  unfold genExit; scope_ir_exit

/-- `load_default` as coded is the machine's `load` step -/
theorem genLoad_ok : LoadOk genLoad := by
  unfold genLoad; scope_ir_load

def otherWriters : List String := ["diffprivlib/models/forest.py: BudgetAccountant._default = default"]
/-- nothing else in the library assigns `_default` / `old_default`, except the writers the hand model lists
(`ScopeIR.knownOtherWriters`: the save/restore around sklearn's throw-away estimator in forest.py) -/
theorem no_other_writers : otherWriters = knownOtherWriters := by decide

def classDefaultStartsNone : Bool := true
/-- the class attribute is initialised to `None` (`St.init`) -/
theorem class_default_starts_none : classDefaultStartsNone = true := by decide

end DPL.Gen.C16
