/- GENERATED on every run from /repo's current sources by harness/anchors.py — do not edit. -/
import DPL.Proofs.RealCarrier
import DPL.Model.Moments
import DPL.Model.Calibration
import Mathlib.Tactic.Ring
import Mathlib.Tactic.FieldSimp
import Mathlib.Tactic.NormNum
import Mathlib.Analysis.SpecialFunctions.Pow.Real
namespace DPL.Gen.C19
open DPL DPL.Cont

theorem feq_ne {a b : ℝ} (h : a ≠ b) : feq a b = false := by
  unfold feq
  rcases lt_or_gt_of_ne h with h' | h'
  · simp [not_le.mpr h']
  · simp [not_le.mpr h']


/-- `laplace.py:Laplace.randomise` -/
noncomputable def gen_laplaceSamplerScale (e d s : ℝ) : ℝ := (s / (e - (Real.log ((1 : ℝ) - d))))
theorem gen_laplaceSamplerScale_eq (e d s : ℝ)  : gen_laplaceSamplerScale e d s = laplaceScale e d s := by
  unfold gen_laplaceSamplerScale
  simp only [laplaceScale, transc_log]

/-- `laplace.py:Laplace.variance` -/
noncomputable def gen_laplaceVariance (e d s : ℝ) : ℝ := ((2 : ℝ) * ((s / (e - (Real.log ((1 : ℝ) - d)))) ^ 2))
theorem gen_laplaceVariance_eq (e d s : ℝ)  : gen_laplaceVariance e d s = laplaceVariance e d s := by
  unfold gen_laplaceVariance
  simp only [laplaceVariance, Cont.sq, transc_log, transc_pow, Real.rpow_two]
  all_goals first | rfl | ring | (norm_num; done) | (norm_num; ring)

/-- `laplace.py:LaplaceTruncated.bias` -/
noncomputable def gen_truncBias (e d s l u v : ℝ) : ℝ := (((s / (e - (Real.log ((1 : ℝ) - d)))) / (2 : ℝ)) * ((Real.exp ((l - v) / (s / (e - (Real.log ((1 : ℝ) - d)))))) - (Real.exp ((v - u) / (s / (e - (Real.log ((1 : ℝ) - d))))))))
theorem gen_truncBias_eq (e d s l u v : ℝ) (h0 : laplaceScale e d s ≠ 0) : gen_truncBias e d s l u v = truncBias e d s l u v := by
  unfold gen_truncBias
  have h0' : feq (laplaceScale e d s) 0 = false := feq_ne h0
  simp only [truncBias, truncBiasOf, h0', Bool.false_eq_true, if_false]
  simp only [laplaceScale, transc_exp, transc_log]
  all_goals first | rfl | ring | (norm_num; done) | (norm_num; ring)

/-- `laplace.py:LaplaceTruncated.variance` -/
noncomputable def gen_truncVariance (e d s l u v : ℝ) : ℝ := ((((v ^ 2) + ((s / (e - (Real.log ((1 : ℝ) - d)))) * ((l * (Real.exp ((l - v) / (s / (e - (Real.log ((1 : ℝ) - d))))))) - (u * (Real.exp ((v - u) / (s / (e - (Real.log ((1 : ℝ) - d)))))))))) + (((s / (e - (Real.log ((1 : ℝ) - d)))) ^ 2) * (((2 : ℝ) - (Real.exp ((l - v) / (s / (e - (Real.log ((1 : ℝ) - d))))))) - (Real.exp ((v - u) / (s / (e - (Real.log ((1 : ℝ) - d))))))))) - (((truncBias e d s l u v) + v) ^ 2))
theorem gen_truncVariance_eq (e d s l u v : ℝ) (h0 : laplaceScale e d s ≠ 0) : gen_truncVariance e d s l u v = truncVariance e d s l u v := by
  unfold gen_truncVariance
  have h0' : feq (laplaceScale e d s) 0 = false := feq_ne h0
  simp only [truncVariance, truncVarianceOf, truncBias, h0', Bool.false_eq_true, if_false]
  simp only [Cont.sq, laplaceScale, transc_exp, transc_log, transc_pow, Real.rpow_two]
  all_goals first | rfl | ring | (norm_num; done) | (norm_num; ring)

/-- `laplace.py:LaplaceFolded.bias` -/
noncomputable def gen_foldBias (e d s l u v : ℝ) : ℝ := (((s / (e - (Real.log ((1 : ℝ) - d)))) * ((Real.exp ((l - v) / (s / (e - (Real.log ((1 : ℝ) - d)))))) - (Real.exp ((v - u) / (s / (e - (Real.log ((1 : ℝ) - d)))))))) / ((Real.exp ((l - u) / (s / (e - (Real.log ((1 : ℝ) - d)))))) + (1 : ℝ)))
theorem gen_foldBias_eq (e d s l u v : ℝ)  : gen_foldBias e d s l u v = foldBiasOf (laplaceScale e d s) l u v := by
  unfold gen_foldBias
  simp only [foldBiasOf, laplaceScale, transc_exp, transc_log]
  all_goals first | rfl | ring | (norm_num; done) | (norm_num; ring)

/-- `laplace.py:LaplaceBoundedDomain.bias` -/
noncomputable def gen_bdBias (b l u v : ℝ) : ℝ := ((((((b - l) + v) / (2 : ℝ)) * (Real.exp ((l - v) / b))) - ((((b + u) - v) / (2 : ℝ)) * (Real.exp ((v - u) / b)))) / (((1 : ℝ) - ((Real.exp ((l - v) / b)) / (2 : ℝ))) - ((Real.exp ((v - u) / b)) / (2 : ℝ))))
theorem gen_bdBias_eq (b l u v : ℝ) (h0 : b ≠ 0) : gen_bdBias b l u v = bdBiasOf b l u v := by
  unfold gen_bdBias
  simp only [bdBiasOf, feq_ne h0, Bool.false_eq_true, if_false, transc_exp]
  all_goals first | rfl | ring | (norm_num; done) | (norm_num; ring)

/-- `laplace.py:LaplaceBoundedDomain.variance` -/
noncomputable def gen_bdVariance (b l u v : ℝ) : ℝ := ((((((v ^ 2) - ((((Real.exp ((l - v) / b)) * (l ^ 2)) + ((Real.exp ((v - u) / b)) * (u ^ 2))) / (2 : ℝ))) + (b * ((l * (Real.exp ((l - v) / b))) - (u * (Real.exp ((v - u) / b)))))) + ((b ^ 2) * (((2 : ℝ) - (Real.exp ((l - v) / b))) - (Real.exp ((v - u) / b))))) / ((1 : ℝ) - (((Real.exp ((-(v - l)) / b)) + (Real.exp ((-(u - v)) / b))) / (2 : ℝ)))) - (((bdBiasOf b l u v) + v) ^ 2))
theorem gen_bdVariance_eq (b l u v : ℝ) (h0 : b ≠ 0) : gen_bdVariance b l u v = bdVarianceOf b l u v := by
  unfold gen_bdVariance
  simp only [bdVarianceOf, Cont.sq, feq_ne h0, Bool.false_eq_true, if_false, transc_exp, transc_pow, Real.rpow_two]
  all_goals first | rfl | ring | (norm_num; done) | (norm_num; ring)

/-- `geometric.py:Geometric.variance` -/
noncomputable def gen_geomVariance (sc : ℝ) : ℝ := (((2 : ℝ) * (((1 : ℝ) - (Real.exp sc)) / ((1 : ℝ) + (Real.exp sc)))) * ((((Real.exp sc) / ((1 : ℝ) - (Real.exp sc))) + ((3 : ℝ) * (((Real.exp sc) / ((1 : ℝ) - (Real.exp sc))) ^ 2))) + ((2 : ℝ) * (((Real.exp sc) / ((1 : ℝ) - (Real.exp sc))) ^ 3))))
theorem gen_geomVariance_eq (sc : ℝ)  : gen_geomVariance sc = geomVarianceOf sc := by
  unfold gen_geomVariance
  simp only [geomVarianceOf, transc_exp, transc_pow, Real.rpow_two, Nat.cast_ofNat]
  rw [show ((3 : ℝ)) = ((3 : ℕ) : ℝ) by norm_num, Real.rpow_natCast]
  all_goals first | rfl | ring | (norm_num; done) | (norm_num; ring)

/-- `uniform.py:Uniform.variance` -/
noncomputable def gen_uniformVariance (d s : ℝ) : ℝ := (((s / d) ^ 2) / (12 : ℝ))
theorem gen_uniformVariance_eq (d s : ℝ)  : gen_uniformVariance d s = uniformVariance d s := by
  unfold gen_uniformVariance
  simp only [uniformVariance, Cont.sq, transc_pow, Real.rpow_two]
  all_goals first | rfl | ring | (norm_num; done) | (norm_num; ring)

/-- `gaussian.py:Gaussian.variance` -/
noncomputable def gen_gaussVariance (sg : ℝ) : ℝ := (sg ^ 2)
theorem gen_gaussVariance_eq (sg : ℝ)  : gen_gaussVariance sg = gaussVarianceOf sg := by
  unfold gen_gaussVariance
  simp only [gaussVarianceOf, Cont.sq, transc_pow, Real.rpow_two]
  all_goals first | rfl | ring | (norm_num; done) | (norm_num; ring)

end DPL.Gen.C19
