/- GENERATED on every run from /repo's current sources by harness/anchors.py — do not edit. -/
import DPL.Proofs.RealCarrier
import DPL.Proofs.RangeReal
import Mathlib.Tactic.Ring
import Mathlib.Tactic.FieldSimp
import Mathlib.Tactic.NormNum
import Mathlib.Analysis.SpecialFunctions.Pow.Real
namespace DPL.Gen.C12
open DPL 

theorem feq_ne {a b : ℝ} (h : a ≠ b) : feq a b = false := by
  unfold feq
  rcases lt_or_gt_of_ne h with h' | h'
  · simp [not_le.mpr h']
  · simp [not_le.mpr h']


/-- `base.py:TruncationAndFoldingMixin._truncate` -/
noncomputable def gen_truncHiLo (hi : ℝ) : ℝ := hi
theorem gen_truncHiLo_eq (hi : ℝ)  : gen_truncHiLo hi = hi := by
  unfold gen_truncHiLo
  rfl

/-- `base.py:TruncationAndFoldingMixin._truncate` -/
noncomputable def gen_truncHiHi (v : ℝ) : ℝ := v
theorem gen_truncHiHi_eq (v : ℝ)  : gen_truncHiHi v = v := by
  unfold gen_truncHiHi
  rfl

/-- `base.py:TruncationAndFoldingMixin._truncate` -/
noncomputable def gen_truncLoLo (v : ℝ) : ℝ := v
theorem gen_truncLoLo_eq (v : ℝ)  : gen_truncLoLo v = v := by
  unfold gen_truncLoLo
  rfl

/-- `base.py:TruncationAndFoldingMixin._truncate` -/
noncomputable def gen_truncLoHi (lo : ℝ) : ℝ := lo
theorem gen_truncLoHi_eq (lo : ℝ)  : gen_truncLoHi lo = lo := by
  unfold gen_truncLoHi
  rfl

/-- `base.py:TruncationAndFoldingMixin._truncate` -/
noncomputable def gen_truncRetHi (hi : ℝ) : ℝ := hi
theorem gen_truncRetHi_eq (hi : ℝ)  : gen_truncRetHi hi = hi := by
  unfold gen_truncRetHi
  rfl

/-- `base.py:TruncationAndFoldingMixin._truncate` -/
noncomputable def gen_truncRetLo (lo : ℝ) : ℝ := lo
theorem gen_truncRetLo_eq (lo : ℝ)  : gen_truncRetLo lo = lo := by
  unfold gen_truncRetLo
  rfl

/-- `base.py:TruncationAndFoldingMixin._truncate` -/
noncomputable def gen_truncRetId (v : ℝ) : ℝ := v
theorem gen_truncRetId_eq (v : ℝ)  : gen_truncRetId v = v := by
  unfold gen_truncRetId
  rfl

/-- `base.py:TruncationAndFoldingMixin._fold` -/
noncomputable def gen_foldSingle (lo : ℝ) : ℝ := lo
theorem gen_foldSingle_eq (lo : ℝ)  : gen_foldSingle lo = lo := by
  unfold gen_foldSingle
  rfl

/-- `base.py:TruncationAndFoldingMixin._fold` -/
noncomputable def gen_foldWidth (lo hi : ℝ) : ℝ := (hi - lo)
theorem gen_foldWidth_eq (lo hi : ℝ)  : gen_foldWidth lo hi = hi - lo := by
  unfold gen_foldWidth
  rfl

/-- `base.py:TruncationAndFoldingMixin._fold` -/
noncomputable def gen_foldPreLoV (v : ℝ) : ℝ := v
theorem gen_foldPreLoV_eq (v : ℝ)  : gen_foldPreLoV v = v := by
  unfold gen_foldPreLoV
  rfl

/-- `base.py:TruncationAndFoldingMixin._fold` -/
noncomputable def gen_foldPreLo (lo w : ℝ) : ℝ := (lo - ((2 : ℝ) * w))
theorem gen_foldPreLo_eq (lo w : ℝ)  : gen_foldPreLo lo w = lo - 2 * w := by
  unfold gen_foldPreLo
  rfl

/-- `base.py:TruncationAndFoldingMixin._fold` -/
noncomputable def gen_foldPreHi (hi w : ℝ) : ℝ := (hi + ((2 : ℝ) * w))
theorem gen_foldPreHi_eq (hi w : ℝ)  : gen_foldPreHi hi w = hi + 2 * w := by
  unfold gen_foldPreHi
  rfl

/-- `base.py:TruncationAndFoldingMixin._fold` -/
noncomputable def gen_foldPreHiV (v : ℝ) : ℝ := v
theorem gen_foldPreHiV_eq (v : ℝ)  : gen_foldPreHiV v = v := by
  unfold gen_foldPreHiV
  rfl

/-- `base.py:TruncationAndFoldingMixin._fold` -/
noncomputable def gen_foldMod (lo v w : ℝ) : ℝ := (lo + ((v - lo) - ((2 : ℝ) * w) * ((⌊(v - lo) / ((2 : ℝ) * w)⌋ : ℤ) : ℝ)))
theorem gen_foldMod_eq (lo v w : ℝ)  : gen_foldMod lo v w = lo + RangeOps.fmod (v - lo) (2 * w) := by
  unfold gen_foldMod
  simp only [fmod_real]

/-- `base.py:TruncationAndFoldingMixin._fold` -/
noncomputable def gen_foldLoopLoV (v : ℝ) : ℝ := v
theorem gen_foldLoopLoV_eq (v : ℝ)  : gen_foldLoopLoV v = v := by
  unfold gen_foldLoopLoV
  rfl

/-- `base.py:TruncationAndFoldingMixin._fold` -/
noncomputable def gen_foldLoopLo (lo : ℝ) : ℝ := lo
theorem gen_foldLoopLo_eq (lo : ℝ)  : gen_foldLoopLo lo = lo := by
  unfold gen_foldLoopLo
  rfl

/-- `base.py:TruncationAndFoldingMixin._fold` -/
noncomputable def gen_foldLoopHi (hi : ℝ) : ℝ := hi
theorem gen_foldLoopHi_eq (hi : ℝ)  : gen_foldLoopHi hi = hi := by
  unfold gen_foldLoopHi
  rfl

/-- `base.py:TruncationAndFoldingMixin._fold` -/
noncomputable def gen_foldLoopHiV (v : ℝ) : ℝ := v
theorem gen_foldLoopHiV_eq (v : ℝ)  : gen_foldLoopHiV v = v := by
  unfold gen_foldLoopHiV
  rfl

/-- `base.py:TruncationAndFoldingMixin._fold` -/
noncomputable def gen_foldStepV (v : ℝ) : ℝ := v
theorem gen_foldStepV_eq (v : ℝ)  : gen_foldStepV v = v := by
  unfold gen_foldStepV
  rfl

/-- `base.py:TruncationAndFoldingMixin._fold` -/
noncomputable def gen_foldStepLo (lo : ℝ) : ℝ := lo
theorem gen_foldStepLo_eq (lo : ℝ)  : gen_foldStepLo lo = lo := by
  unfold gen_foldStepLo
  rfl

/-- `base.py:TruncationAndFoldingMixin._fold` -/
noncomputable def gen_foldReflLo (lo v : ℝ) : ℝ := (((2 : ℝ) * lo) - v)
theorem gen_foldReflLo_eq (lo v : ℝ)  : gen_foldReflLo lo v = 2 * lo - v := by
  unfold gen_foldReflLo
  rfl

/-- `base.py:TruncationAndFoldingMixin._fold` -/
noncomputable def gen_foldReflHi (hi v : ℝ) : ℝ := (((2 : ℝ) * hi) - v)
theorem gen_foldReflHi_eq (hi v : ℝ)  : gen_foldReflHi hi v = 2 * hi - v := by
  unfold gen_foldReflHi
  rfl

/-- `geometric.py:Geometric.__init__` -/
noncomputable def gen_geomScale (e s : ℝ) : ℝ := ((-e) / s)
theorem gen_geomScale_eq (e s : ℝ)  : gen_geomScale e s = -e / s := by
  unfold gen_geomScale
  rfl

/-- `geometric.py:Geometric.randomise` -/
noncomputable def gen_geomCentre (u : ℝ) : ℝ := (u - ((1 : ℝ) / 2))
theorem gen_geomCentre_eq (u : ℝ)  : gen_geomCentre u = u - 1 / 2 := by
  unfold gen_geomCentre
  rfl

/-- `geometric.py:Geometric.randomise` -/
noncomputable def gen_geomSpread (c sc : ℝ) : ℝ := (c * ((1 : ℝ) + (Real.exp sc)))
theorem gen_geomSpread_eq (c sc : ℝ)  : gen_geomSpread c sc = c * (1 + Real.exp sc) := by
  unfold gen_geomSpread
  rfl

/-- `geometric.py:Geometric.randomise` -/
noncomputable def gen_geomTestLo (c : ℝ) : ℝ := c
theorem gen_geomTestLo_eq (c : ℝ)  : gen_geomTestLo c = c := by
  unfold gen_geomTestLo
  rfl

/-- `geometric.py:Geometric.randomise` -/
noncomputable def gen_geomTestHi  : ℝ := (0 : ℝ)
theorem gen_geomTestHi_eq   : gen_geomTestHi  = 0 := by
  unfold gen_geomTestHi
  rfl

/-- `geometric.py:Geometric.randomise` -/
noncomputable def gen_geomSgnNeg  : ℝ := (-(1 : ℝ))
theorem gen_geomSgnNeg_eq   : gen_geomSgnNeg  = -1 := by
  unfold gen_geomSgnNeg
  rfl

/-- `geometric.py:Geometric.randomise` -/
noncomputable def gen_geomSgnPos  : ℝ := (1 : ℝ)
theorem gen_geomSgnPos_eq   : gen_geomSgnPos  = 1 := by
  unfold gen_geomSgnPos
  rfl

/-- `geometric.py:Geometric.randomise` -/
noncomputable def gen_geomReturn (val : ℤ) (sg c sc : ℝ) : ℝ := ((val : ℝ) + (sg * ((⌊((Real.log (sg * c)) / sc)⌋ : ℤ) : ℝ)))
theorem gen_geomReturn_eq (val : ℤ) (sg c sc : ℝ)  : gen_geomReturn val sg c sc = (val : ℝ) + sg * ((⌊Real.log (sg * c) / sc⌋ : ℤ) : ℝ) := by
  unfold gen_geomReturn
  rfl

/-- `laplace.py:Laplace._laplace_sampler` -/
noncomputable def gen_laplace4 (u1 u2 u3 u4 : ℝ) : ℝ := (((Real.log ((1 : ℝ) - u1)) * (Real.cos (Real.pi * u2))) + ((Real.log ((1 : ℝ) - u3)) * (Real.cos (Real.pi * u4))))
theorem gen_laplace4_eq (u1 u2 u3 u4 : ℝ)  : gen_laplace4 u1 u2 u3 u4 = laplace4 u1 u2 u3 u4 := by
  unfold gen_laplace4
  simp only [laplace4, transc_log]
  rfl

/-- `laplace.py:Laplace.randomise` -/
noncomputable def gen_laplaceScale (e d s : ℝ) : ℝ := (s / (e - (Real.log ((1 : ℝ) - d))))
theorem gen_laplaceScale_eq (e d s : ℝ)  : gen_laplaceScale e d s = laplaceScale e d s := by
  unfold gen_laplaceScale
  simp only [laplaceScale, transc_log]

/-- `laplace.py:Laplace.randomise` -/
noncomputable def gen_laplaceNoisy (x b u1 u2 u3 u4 : ℝ) : ℝ := (x - (b * (laplace4 u1 u2 u3 u4)))
theorem gen_laplaceNoisy_eq (x b u1 u2 u3 u4 : ℝ)  : gen_laplaceNoisy x b u1 u2 u3 u4 = laplaceNoisy x b u1 u2 u3 u4 := by
  unfold gen_laplaceNoisy
  simp only [laplaceNoisy]

/-- `snapping.py:Snapping._scale_bound` -/
noncomputable def gen_snapBound0 (lo hi : ℝ) : ℝ := ((hi - lo) / (2 : ℝ))
theorem gen_snapBound0_eq (lo hi : ℝ)  : gen_snapBound0 lo hi = (hi - lo) / 2 := by
  unfold gen_snapBound0
  rfl

/-- `snapping.py:Snapping._scale_bound` -/
noncomputable def gen_snapBound1 (s lo hi : ℝ) : ℝ := (((hi - lo) / (2 : ℝ)) / s)
theorem gen_snapBound1_eq (s lo hi : ℝ)  : gen_snapBound1 s lo hi = (hi - lo) / 2 / s := by
  unfold gen_snapBound1
  rfl

/-- `snapping.py:Snapping._scale_and_offset_value` -/
noncomputable def gen_snapScaleOffset (v s B lo : ℝ) : ℝ := (((v / s) - B) - (lo / s))
theorem gen_snapScaleOffset_eq (v s B lo : ℝ)  : gen_snapScaleOffset v s B lo = snapScaleOffset v s B lo := by
  unfold gen_snapScaleOffset
  simp only [snapScaleOffset]

/-- `snapping.py:Snapping._reverse_scale_and_offset_value` -/
noncomputable def gen_snapReverse (v B s lo : ℝ) : ℝ := (((v + B) * s) + lo)
theorem gen_snapReverse_eq (v B s lo : ℝ)  : gen_snapReverse v B s lo = snapReverse v B s lo := by
  unfold gen_snapReverse
  simp only [snapReverse]

/-- `snapping.py:Snapping._truncate` -/
noncomputable def gen_snapTruncHiLo (B : ℝ) : ℝ := B
theorem gen_snapTruncHiLo_eq (B : ℝ)  : gen_snapTruncHiLo B = B := by
  unfold gen_snapTruncHiLo
  rfl

/-- `snapping.py:Snapping._truncate` -/
noncomputable def gen_snapTruncHiHi (v : ℝ) : ℝ := v
theorem gen_snapTruncHiHi_eq (v : ℝ)  : gen_snapTruncHiHi v = v := by
  unfold gen_snapTruncHiHi
  rfl

/-- `snapping.py:Snapping._truncate` -/
noncomputable def gen_snapTruncLoLo (v : ℝ) : ℝ := v
theorem gen_snapTruncLoLo_eq (v : ℝ)  : gen_snapTruncLoLo v = v := by
  unfold gen_snapTruncLoLo
  rfl

/-- `snapping.py:Snapping._truncate` -/
noncomputable def gen_snapTruncLoHi (B : ℝ) : ℝ := (-B)
theorem gen_snapTruncLoHi_eq (B : ℝ)  : gen_snapTruncLoHi B = -B := by
  unfold gen_snapTruncLoHi
  rfl

/-- `snapping.py:Snapping._truncate` -/
noncomputable def gen_snapTruncRetHi (B : ℝ) : ℝ := B
theorem gen_snapTruncRetHi_eq (B : ℝ)  : gen_snapTruncRetHi B = B := by
  unfold gen_snapTruncRetHi
  rfl

/-- `snapping.py:Snapping._truncate` -/
noncomputable def gen_snapTruncRetLo (B : ℝ) : ℝ := (-B)
theorem gen_snapTruncRetLo_eq (B : ℝ)  : gen_snapTruncRetLo B = -B := by
  unfold gen_snapTruncRetLo
  rfl

/-- `snapping.py:Snapping._truncate` -/
noncomputable def gen_snapTruncRetId (v : ℝ) : ℝ := v
theorem gen_snapTruncRetId_eq (v : ℝ)  : gen_snapTruncRetId v = v := by
  unfold gen_snapTruncRetId
  rfl

/-- `snapping.py:Snapping._round_to_nearest_power_of_2` -/
noncomputable def gen_snapRem (v lam : ℝ) : ℝ := (v - lam * ((⌊v / lam⌋ : ℤ) : ℝ))
theorem gen_snapRem_eq (v lam : ℝ)  : gen_snapRem v lam = RangeOps.fmod v lam := by
  unfold gen_snapRem
  simp only [fmod_real]

/-- `snapping.py:Snapping._round_to_nearest_power_of_2` -/
noncomputable def gen_snapRndThrLo (lam : ℝ) : ℝ := (lam / (2 : ℝ))
theorem gen_snapRndThrLo_eq (lam : ℝ)  : gen_snapRndThrLo lam = lam / 2 := by
  unfold gen_snapRndThrLo
  rfl

/-- `snapping.py:Snapping._round_to_nearest_power_of_2` -/
noncomputable def gen_snapRndThrHi (r : ℝ) : ℝ := r
theorem gen_snapRndThrHi_eq (r : ℝ)  : gen_snapRndThrHi r = r := by
  unfold gen_snapRndThrHi
  rfl

/-- `snapping.py:Snapping._round_to_nearest_power_of_2` -/
noncomputable def gen_snapRndUp (v r lam : ℝ) : ℝ := ((v - r) + lam)
theorem gen_snapRndUp_eq (v r lam : ℝ)  : gen_snapRndUp v r lam = v - r + lam := by
  unfold gen_snapRndUp
  rfl

/-- `snapping.py:Snapping._round_to_nearest_power_of_2` -/
noncomputable def gen_snapRndTie (v r : ℝ) : ℝ := (v + r)
theorem gen_snapRndTie_eq (v r : ℝ)  : gen_snapRndTie v r = v + r := by
  unfold gen_snapRndTie
  rfl

/-- `snapping.py:Snapping._round_to_nearest_power_of_2` -/
noncomputable def gen_snapRndDown (v r : ℝ) : ℝ := (v - r)
theorem gen_snapRndDown_eq (v r : ℝ)  : gen_snapRndDown v r = v - r := by
  unfold gen_snapRndDown
  rfl

/-- `binary.py:Binary.randomise` -/
noncomputable def gen_binaryUnif (e u : ℝ) : ℝ := (u * ((Real.exp e) + (1 : ℝ)))
theorem gen_binaryUnif_eq (e u : ℝ)  : gen_binaryUnif e u = u * (Real.exp e + 1) := by
  unfold gen_binaryUnif
  rfl

/-- `binary.py:Binary.randomise` -/
noncomputable def gen_binaryFlipLo (e d : ℝ) : ℝ := ((Real.exp e) + d)
theorem gen_binaryFlipLo_eq (e d : ℝ)  : gen_binaryFlipLo e d = Real.exp e + d := by
  unfold gen_binaryFlipLo
  rfl

/-- `binary.py:Binary.randomise` -/
noncomputable def gen_binaryFlipHi (x : ℝ) : ℝ := x
theorem gen_binaryFlipHi_eq (x : ℝ)  : gen_binaryFlipHi x = x := by
  unfold gen_binaryFlipHi
  rfl


/-- `_truncate` as coded (comparisons and returns read from the AST) IS the model's `truncate` -/
theorem truncate_eq (lo hi v : ℝ) :
    truncate lo hi v =
      if gen_truncHiLo hi < gen_truncHiHi v then gen_truncRetHi hi
      else if gen_truncLoLo v < gen_truncLoHi lo then gen_truncRetLo lo else gen_truncRetId v := by
  simp only [truncate, gen_truncHiLo, gen_truncHiHi, gen_truncRetHi, gen_truncLoLo, gen_truncLoHi, gen_truncRetLo,
    gen_truncRetId]
  all_goals rfl

/-- the modulo step of `_fold` as coded (thresholds, width, formula) IS the model's `foldPre` -/
theorem foldPre_eq (lo hi v : ℝ) :
    foldPre lo hi v =
      if decide (gen_foldPreLoV v < gen_foldPreLo lo (gen_foldWidth lo hi)) ||
          decide (gen_foldPreHi hi (gen_foldWidth lo hi) < gen_foldPreHiV v) then
        gen_foldMod lo v (gen_foldWidth lo hi)
      else v := by
  simp only [foldPre, gen_foldPreLoV, gen_foldPreLo, gen_foldPreHi, gen_foldPreHiV, gen_foldWidth, gen_foldMod_eq]
  all_goals rfl

/-- one iteration of the reflection loop of `_fold` as coded IS one step of the model's `foldLoop` -/
theorem foldLoop_step (lo hi v : ℝ) (fuel : ℕ) :
    foldLoop lo hi (fuel + 1) v =
      if decide (gen_foldLoopLoV v < gen_foldLoopLo lo) || decide (gen_foldLoopHi hi < gen_foldLoopHiV v) then
        (foldLoop lo hi fuel
            (if gen_foldStepV v < gen_foldStepLo lo then gen_foldReflLo lo v else gen_foldReflHi hi v)).map
          (fun p => (p.1, p.2 + 1))
      else some (v, 0) := by
  have hv : (if gen_foldStepV v < gen_foldStepLo lo then gen_foldReflLo lo v else gen_foldReflHi hi v)
      = (if v < lo then 2 * lo - v else 2 * hi - v) := rfl
  rw [hv]
  simp only [foldLoop, gen_foldLoopLoV, gen_foldLoopLo, gen_foldLoopHi, gen_foldLoopHiV]
  cases foldLoop lo hi fuel (if v < lo then 2 * lo - v else 2 * hi - v) <;> rfl

/-- `_fold` as coded: the single-point shortcut returns the coded value -/
theorem fold_eq (lo hi v : ℝ) (fuel : ℕ) :
    fold lo hi v fuel = if feq lo hi then some (gen_foldSingle lo, 0) else foldLoop lo hi fuel (foldPre lo hi v) := by
  simp only [fold, gen_foldSingle]

/-- the geometric noise as coded IS the model's `geomNoise` (finite scale), `c` = the centred uniform -/
theorem geomNoise_eq (sc c : ℝ) (val : ℤ) :
    ((val + geomNoise (some sc) c : ℤ) : ℝ) =
      if gen_geomTestLo (gen_geomSpread c sc) < gen_geomTestHi then
        gen_geomReturn val gen_geomSgnNeg (gen_geomSpread c sc) sc
      else gen_geomReturn val gen_geomSgnPos (gen_geomSpread c sc) sc := by
  simp only [geomNoise, gen_geomSpread, gen_geomTestLo, gen_geomTestHi, gen_geomReturn, gen_geomSgnNeg, gen_geomSgnPos,
    transc_exp, transc_log, transc_floor]
  by_cases h : c * (1 + Real.exp sc) < 0
  · simp only [h, ↓reduceIte, neg_one_mul]
    push_cast
    ring
  · simp only [h, ↓reduceIte, one_mul]
    push_cast
    ring

theorem geomScale_eq (e s : ℝ) :
    geomScale e s = if decide (0 < s) && !HasInf.isPosInf e then some (gen_geomScale e s) else none := by
  simp only [geomScale, gen_geomScale]

/-- the centred uniform of `geomDraw` is the coded `rng.random() - 0.5` -/
theorem geomDraw_cons (u : ℝ) (us : List ℝ) :
    geomDraw (u :: us) = if feq (gen_geomCentre u) 0 then geomDraw us else some (gen_geomCentre u, us) := by
  simp only [geomDraw, gen_geomCentre]
  all_goals first | rfl | norm_num

theorem snapBound_eq (s lo hi : ℝ) :
    snapBound lo hi s = if feq s 0 then gen_snapBound0 lo hi else gen_snapBound1 s lo hi := by
  simp only [snapBound, gen_snapBound0, gen_snapBound1]
  all_goals rfl

theorem snapTrunc_eq (B v : ℝ) :
    snapTrunc B v =
      if gen_snapTruncHiLo B < gen_snapTruncHiHi v then gen_snapTruncRetHi B
      else if gen_snapTruncLoLo v < gen_snapTruncLoHi B then gen_snapTruncRetLo B else gen_snapTruncRetId v := by
  simp only [snapTrunc, gen_snapTruncHiLo, gen_snapTruncHiHi, gen_snapTruncRetHi, gen_snapTruncLoLo, gen_snapTruncLoHi,
    gen_snapTruncRetLo, gen_snapTruncRetId]
  all_goals rfl

theorem snapRound_eq (v lam : ℝ) :
    snapRound false v lam =
      if gen_snapRndThrLo lam < gen_snapRndThrHi (gen_snapRem v lam) then gen_snapRndUp v (gen_snapRem v lam) lam
      else if feq (gen_snapRem v lam) (lam / 2) then gen_snapRndTie v (gen_snapRem v lam)
      else gen_snapRndDown v (gen_snapRem v lam) := by
  simp only [snapRound, gen_snapRndThrLo, gen_snapRndThrHi, gen_snapRndUp, gen_snapRndTie, gen_snapRndDown,
    gen_snapRem_eq, Bool.false_eq_true, ↓reduceIte]
  all_goals rfl

theorem binaryFlip_eq (e d u : ℝ) (ind : Bool) :
    binaryFlip e d u ind = if gen_binaryFlipLo e d < gen_binaryFlipHi (gen_binaryUnif e u) then !ind else ind := by
  simp only [binaryFlip, gen_binaryFlipLo, gen_binaryFlipHi, gen_binaryUnif, transc_exp]
  all_goals rfl

end DPL.Gen.C12
