/- GENERATED on every run from /repo/diffprivlib/accountant.py by harness/props/c04.py — do not edit. -/
import DPL.Model.Accountant
import DPL.Proofs.RealCarrier
import Mathlib.Tactic.Ring
import Mathlib.Tactic.FieldSimp
namespace DPL.Gen.Accountant
open DPL

/-- `epsilon_sum += …` -/
noncomputable def sumTerm (e : ℝ) : ℝ := e
/-- `epsilon_exp_sum += …` -/
noncomputable def expTerm (e : ℝ) : ℝ := ((((1 : ℝ) - (Real.exp (-e))) * e) / ((1 : ℝ) + (Real.exp (-e))))
/-- `epsilon_sq_sum += …` -/
noncomputable def sqTerm (e : ℝ) : ℝ := (e * e)
/-- `total_epsilon_drv = …` -/
noncomputable def drv (n x q s : ℝ) : ℝ := (x + (Real.sqrt (((2 : ℝ) * q) * (Real.log ((1 : ℝ) / s)))))
/-- `total_epsilon_kov = …` -/
noncomputable def kov (n x q s : ℝ) : ℝ := (x + (Real.sqrt (((2 : ℝ) * q) * (Real.log ((Real.exp (1 : ℝ)) + ((Real.sqrt q) / s))))))
/-- `prod += …` in `__total_delta_safe` -/
noncomputable def deltaStep (p d : ℝ) : ℝ := p + ((d - (p * d)))
/-- `delta = 1 - (…) ** (1 / k)` in `remaining` -/
noncomputable def remDelta (cd sd : ℝ) (k : ℕ) : ℝ := ((1 : ℝ) - (Real.rpow (((1 : ℝ) - cd) / ((1 : ℝ) - sd)) ((1 : ℝ) / (k : ℝ))))

/-- the loop body of `total()` as coded is the step of the model's `epsSums` -/
theorem epsSums_step (spent : List (Spend ℝ)) (e d : ℝ) :
    (epsSums (spent ++ [⟨e, d⟩])).sum = (epsSums spent).sum + sumTerm e ∧
    (epsSums (spent ++ [⟨e, d⟩])).expSum = (epsSums spent).expSum + expTerm e ∧
    (epsSums (spent ++ [⟨e, d⟩])).sqSum = (epsSums spent).sqSum + sqTerm e := by
  refine ⟨?_, ?_, ?_⟩ <;>
    simp only [epsSums, List.foldl_append, List.foldl_cons, List.foldl_nil, sumTerm, expTerm, sqTerm, transc_exp] <;>
    ring

theorem drv_eq (sm : Sums ℝ) (s : ℝ) : drvEps sm s = drv sm.sum sm.expSum sm.sqSum s := by
  simp only [drvEps, drv, transc_sqrt, transc_log]

theorem kov_eq (sm : Sums ℝ) (s : ℝ) : kovEps sm s = kov sm.sum sm.expSum sm.sqSum s := by
  simp only [kovEps, kov, transc_sqrt, transc_log, transc_exp]

theorem deltaStep_eq (deltas : List ℝ) (slack : ℝ) :
    totalDeltaSafe deltas slack = (sortAsc (slack :: deltas)).foldl deltaStep 0 := by
  have h : (fun p d : ℝ => p + (d - p * d)) = deltaStep := by
    funext p d; unfold deltaStep; ring
  simp only [totalDeltaSafe, h]

/-- the closed form of `remaining`'s delta as coded is the model's -/
theorem remDelta_eq (cd sd : ℝ) (k : ℕ) :
    1 - Transc.pow ((1 - cd) / (1 - sd)) (1 / (k : ℝ)) = remDelta cd sd k := by
  simp only [remDelta, transc_pow]; rfl

end DPL.Gen.Accountant
