/- GENERATED on every run by harness/translate/rngsites.py from /repo's current sources — do not edit. -/
import DPL.Model.RngSites
namespace DPL.Generated.C14Sites
open DPL DPL.Rng DPL.RngSites

def crsCalls : List CrsCall := [
  ⟨.mechanisms, "mechanisms/base.py", "DPMechanism.__init__", (.param "random_state"), true⟩,
  ⟨.mechanisms, "mechanisms/base.py", "bernoulli_neg_exp", (.param "random_state"), true⟩,
  ⟨.models, "models/forest.py", "RandomForestClassifier.fit", (.selfAttr "random_state"), false⟩,
  ⟨.models, "models/forest.py", "DecisionTreeClassifier.fit", (.selfAttr "random_state"), false⟩,
  ⟨.models, "models/k_means.py", "KMeans.fit", (.selfAttr "random_state"), false⟩,
  ⟨.models, "models/linear_regression.py", "_preprocess_data", (.param "random_state"), false⟩,
  ⟨.models, "models/linear_regression.py", "LinearRegression.fit", (.selfAttr "random_state"), false⟩,
  ⟨.models, "models/logistic_regression.py", "LogisticRegression.fit", (.selfAttr "random_state"), false⟩,
  ⟨.models, "models/logistic_regression.py", "_logistic_regression_path", (.param "random_state"), false⟩,
  ⟨.models, "models/naive_bayes.py", "GaussianNB._partial_fit", (.selfAttr "random_state"), false⟩,
  ⟨.models, "models/pca.py", "PCA._fit_full", (.selfAttr "random_state"), false⟩,
  ⟨.models, "models/standard_scaler.py", "StandardScaler.partial_fit", (.selfAttr "random_state"), false⟩,
  ⟨.models, "models/utils.py", "covariance_eig", (.param "random_state"), false⟩,
  ⟨.tools, "tools/histograms.py", "histogram", (.param "random_state"), false⟩,
  ⟨.tools, "tools/histograms.py", "histogramdd", (.param "random_state"), false⟩,
  ⟨.tools, "tools/quantiles.py", "quantile", (.param "random_state"), false⟩,
  ⟨.tools, "tools/utils.py", "_mean", (.param "random_state"), false⟩,
  ⟨.tools, "tools/utils.py", "_var", (.param "random_state"), false⟩,
  ⟨.tools, "tools/utils.py", "_sum", (.param "random_state"), false⟩
]

def globalUses : List GlobalUse := [
  ⟨"mechanisms/bingham.py", "Bingham.__init__", "numpy.random.default_rng", true⟩,
  ⟨"mechanisms/bingham.py", "Bingham.__init__", "secrets.SystemRandom", false⟩,
  ⟨"mechanisms/staircase.py", "Staircase.__init__", "numpy.random.default_rng", true⟩,
  ⟨"mechanisms/staircase.py", "Staircase.__init__", "secrets.SystemRandom", false⟩,
  ⟨"utils.py", "check_random_state", "numpy.random.mtrand._rand", false⟩,
  ⟨"utils.py", "check_random_state", "secrets.SystemRandom", false⟩,
  ⟨"utils.py", "check_random_state", "secrets.SystemRandom", false⟩,
  ⟨"utils.py", "check_random_state", "secrets.SystemRandom", true⟩,
  ⟨"utils.py", "check_random_state", "sklearn.utils.check_random_state", true⟩
]

def draws : List DrawSite := [
  ⟨.mechanisms, "mechanisms/base.py", "bernoulli_neg_exp", (.crs (.param "random_state") true), "random"⟩,
  ⟨.mechanisms, "mechanisms/binary.py", "Binary.randomise", (.selfAttr "_rng"), "random"⟩,
  ⟨.mechanisms, "mechanisms/bingham.py", "Bingham.randomise", (.selfAttr "_rng"), "multivariate_normal"⟩,
  ⟨.mechanisms, "mechanisms/bingham.py", "Bingham.randomise", (.selfAttr "_rng"), "random"⟩,
  ⟨.mechanisms, "mechanisms/exponential.py", "Exponential.randomise", (.selfAttr "_rng"), "random"⟩,
  ⟨.mechanisms, "mechanisms/exponential.py", "PermuteAndFlip.randomise", (.selfAttr "_rng"), "random"⟩,
  ⟨.mechanisms, "mechanisms/exponential.py", "ExponentialCategorical.randomise", (.selfAttr "_rng"), "random"⟩,
  ⟨.mechanisms, "mechanisms/gaussian.py", "Gaussian.randomise", (.selfAttr "_rng"), "normalvariate"⟩,
  ⟨.mechanisms, "mechanisms/gaussian.py", "Gaussian.randomise", (.selfAttr "_rng"), "normalvariate"⟩,
  ⟨.mechanisms, "mechanisms/gaussian.py", "Gaussian.randomise", (.selfAttr "_rng"), "standard_normal"⟩,
  ⟨.mechanisms, "mechanisms/gaussian.py", "Gaussian.randomise", (.selfAttr "_rng"), "standard_normal"⟩,
  ⟨.mechanisms, "mechanisms/gaussian.py", "GaussianDiscrete.randomise", (.selfAttr "_rng"), "random"⟩,
  ⟨.mechanisms, "mechanisms/geometric.py", "Geometric.randomise", (.selfAttr "_rng"), "random"⟩,
  ⟨.mechanisms, "mechanisms/geometric.py", "Geometric.randomise", (.selfAttr "_rng"), "random"⟩,
  ⟨.mechanisms, "mechanisms/laplace.py", "Laplace.randomise", (.selfAttr "_rng"), "random"⟩,
  ⟨.mechanisms, "mechanisms/laplace.py", "Laplace.randomise", (.selfAttr "_rng"), "random"⟩,
  ⟨.mechanisms, "mechanisms/laplace.py", "Laplace.randomise", (.selfAttr "_rng"), "random"⟩,
  ⟨.mechanisms, "mechanisms/laplace.py", "Laplace.randomise", (.selfAttr "_rng"), "random"⟩,
  ⟨.mechanisms, "mechanisms/laplace.py", "LaplaceBoundedDomain.randomise", (.selfAttr "_rng"), "random"⟩,
  ⟨.mechanisms, "mechanisms/laplace.py", "LaplaceBoundedDomain.randomise", (.selfAttr "_rng"), "random"⟩,
  ⟨.mechanisms, "mechanisms/laplace.py", "LaplaceBoundedNoise.randomise", (.selfAttr "_rng"), "random"⟩,
  ⟨.mechanisms, "mechanisms/laplace.py", "LaplaceBoundedNoise.randomise", (.selfAttr "_rng"), "random"⟩,
  ⟨.mechanisms, "mechanisms/snapping.py", "Snapping._getrandbits", (.selfAttr "_rng"), "getrandbits"⟩,
  ⟨.mechanisms, "mechanisms/snapping.py", "Snapping._getrandbits", (.selfAttr "_rng"), "randint"⟩,
  ⟨.mechanisms, "mechanisms/staircase.py", "Staircase.randomise", (.selfAttr "_rng"), "random"⟩,
  ⟨.mechanisms, "mechanisms/staircase.py", "Staircase.randomise", (.selfAttr "_rng"), "geometric"⟩,
  ⟨.mechanisms, "mechanisms/staircase.py", "Staircase.randomise", (.selfAttr "_rng"), "random"⟩,
  ⟨.mechanisms, "mechanisms/staircase.py", "Staircase.randomise", (.selfAttr "_rng"), "random"⟩,
  ⟨.mechanisms, "mechanisms/uniform.py", "Uniform.randomise", (.selfAttr "_rng"), "random"⟩,
  ⟨.mechanisms, "mechanisms/vector.py", "Vector.randomise", (.selfAttr "_rng"), "standard_normal"⟩,
  ⟨.mechanisms, "mechanisms/vector.py", "Vector.randomise", (.selfAttr "_rng"), "gamma"⟩,
  ⟨.mechanisms, "mechanisms/vector.py", "Vector.randomise", (.selfAttr "_rng"), "normalvariate"⟩,
  ⟨.mechanisms, "mechanisms/vector.py", "Vector.randomise", (.selfAttr "_rng"), "gammavariate"⟩,
  ⟨.models, "models/forest.py", "RandomForestClassifier.fit", (.crs (.selfAttr "random_state") false), "randint"⟩,
  ⟨.models, "models/forest.py", "RandomForestClassifier.fit", (.crs (.selfAttr "random_state") false), "permutation"⟩,
  ⟨.models, "models/forest.py", "_FittingTree.build", (.selfAttr "random_state"), "randint"⟩,
  ⟨.models, "models/forest.py", "_FittingTree.build", (.selfAttr "random_state"), "uniform"⟩,
  ⟨.models, "models/k_means.py", "KMeans._init_centers", (.param "random_state"), "random"⟩,
  ⟨.models, "models/logistic_regression.py", "LogisticRegression.fit", (.ifSeeded (.selfAttr "random_state") (.crs (.selfAttr "random_state") false)), "randint"⟩,
  ⟨.tools, "tools/quantiles.py", "quantile", (.mechRng (.crs (.param "random_state") false)), "random"⟩
]

def passes : List PassSite := [
  ⟨.mechanisms, "mechanisms/base.py", "bernoulli_neg_exp", "bernoulli_neg_exp", .lib, (.crs (.param "random_state") true)⟩,
  ⟨.mechanisms, "mechanisms/binary.py", "Binary.__init__", "super().__init__", .superInit, (.param "random_state")⟩,
  ⟨.mechanisms, "mechanisms/bingham.py", "Bingham.__init__", "super().__init__", .superInit, (.param "random_state")⟩,
  ⟨.mechanisms, "mechanisms/exponential.py", "Exponential.__init__", "super().__init__", .superInit, (.param "random_state")⟩,
  ⟨.mechanisms, "mechanisms/exponential.py", "PermuteAndFlip.__init__", "super().__init__", .superInit, (.param "random_state")⟩,
  ⟨.mechanisms, "mechanisms/exponential.py", "PermuteAndFlip.randomise", "bernoulli_neg_exp", .lib, (.selfAttr "_rng")⟩,
  ⟨.mechanisms, "mechanisms/exponential.py", "ExponentialCategorical.__init__", "super().__init__", .superInit, (.param "random_state")⟩,
  ⟨.mechanisms, "mechanisms/exponential.py", "ExponentialHierarchical.__init__", "super().__init__", .superInit, (.param "random_state")⟩,
  ⟨.mechanisms, "mechanisms/gaussian.py", "Gaussian.__init__", "super().__init__", .superInit, (.param "random_state")⟩,
  ⟨.mechanisms, "mechanisms/gaussian.py", "GaussianAnalytic.__init__", "super().__init__", .superInit, (.param "random_state")⟩,
  ⟨.mechanisms, "mechanisms/gaussian.py", "GaussianDiscrete.__init__", "super().__init__", .superInit, (.param "random_state")⟩,
  ⟨.mechanisms, "mechanisms/gaussian.py", "GaussianDiscrete.randomise", "bernoulli_neg_exp", .lib, (.selfAttr "_rng")⟩,
  ⟨.mechanisms, "mechanisms/gaussian.py", "GaussianDiscrete.randomise", "bernoulli_neg_exp", .lib, (.selfAttr "_rng")⟩,
  ⟨.mechanisms, "mechanisms/geometric.py", "Geometric.__init__", "super().__init__", .superInit, (.param "random_state")⟩,
  ⟨.mechanisms, "mechanisms/geometric.py", "GeometricTruncated.__init__", "super().__init__", .superInit, (.param "random_state")⟩,
  ⟨.mechanisms, "mechanisms/geometric.py", "GeometricFolded.__init__", "super().__init__", .superInit, (.param "random_state")⟩,
  ⟨.mechanisms, "mechanisms/laplace.py", "Laplace.__init__", "super().__init__", .superInit, (.param "random_state")⟩,
  ⟨.mechanisms, "mechanisms/laplace.py", "LaplaceTruncated.__init__", "super().__init__", .superInit, (.param "random_state")⟩,
  ⟨.mechanisms, "mechanisms/laplace.py", "LaplaceFolded.__init__", "super().__init__", .superInit, (.param "random_state")⟩,
  ⟨.mechanisms, "mechanisms/laplace.py", "LaplaceBoundedNoise.__init__", "super().__init__", .superInit, (.param "random_state")⟩,
  ⟨.mechanisms, "mechanisms/snapping.py", "Snapping.__init__", "super().__init__", .superInit, (.param "random_state")⟩,
  ⟨.mechanisms, "mechanisms/staircase.py", "Staircase.__init__", "super().__init__", .superInit, (.param "random_state")⟩,
  ⟨.mechanisms, "mechanisms/uniform.py", "Uniform.__init__", "super().__init__", .superInit, (.param "random_state")⟩,
  ⟨.mechanisms, "mechanisms/vector.py", "Vector.__init__", "super().__init__", .superInit, (.param "random_state")⟩,
  ⟨.models, "models/forest.py", "RandomForestClassifier.__init__", "super().__init__", .superInit, (.param "random_state")⟩,
  ⟨.models, "models/forest.py", "RandomForestClassifier.fit", "self._make_estimator", .external, (.ifSeeded (.selfAttr "random_state") (.crs (.selfAttr "random_state") false))⟩,
  ⟨.models, "models/forest.py", "DecisionTreeClassifier.__init__", "super().__init__", .superInit, (.param "random_state")⟩,
  ⟨.models, "models/forest.py", "DecisionTreeClassifier.fit", "_FittingTree", .lib, (.crs (.selfAttr "random_state") false)⟩,
  ⟨.models, "models/forest.py", "_FittingTree.fit", "PermuteAndFlip", .lib, (.selfAttr "random_state")⟩,
  ⟨.models, "models/forest.py", "_FittingTree.fit", "PermuteAndFlip", .lib, (.selfAttr "random_state")⟩,
  ⟨.models, "models/k_means.py", "KMeans.__init__", "super().__init__", .superInit, (.param "random_state")⟩,
  ⟨.models, "models/k_means.py", "KMeans.fit", "self._init_centers", .lib, (.crs (.selfAttr "random_state") false)⟩,
  ⟨.models, "models/k_means.py", "KMeans.fit", "self._update_centers", .lib, (.crs (.selfAttr "random_state") false)⟩,
  ⟨.models, "models/k_means.py", "KMeans._update_centers", "GeometricFolded", .lib, (.param "random_state")⟩,
  ⟨.models, "models/k_means.py", "KMeans._update_centers", "LaplaceBoundedDomain", .lib, (.param "random_state")⟩,
  ⟨.models, "models/linear_regression.py", "_preprocess_data", "mean", .lib, (.crs (.param "random_state") false)⟩,
  ⟨.models, "models/linear_regression.py", "_preprocess_data", "mean", .lib, (.crs (.param "random_state") false)⟩,
  ⟨.models, "models/linear_regression.py", "_construct_regression_obj", "LaplaceFolded", .lib, (.param "random_state")⟩,
  ⟨.models, "models/linear_regression.py", "_construct_regression_obj", "Laplace", .lib, (.param "random_state")⟩,
  ⟨.models, "models/linear_regression.py", "_construct_regression_obj", "LaplaceFolded", .lib, (.param "random_state")⟩,
  ⟨.models, "models/linear_regression.py", "_construct_regression_obj", "Laplace", .lib, (.param "random_state")⟩,
  ⟨.models, "models/linear_regression.py", "LinearRegression.fit", "self._preprocess_data", .lib, (.crs (.selfAttr "random_state") false)⟩,
  ⟨.models, "models/linear_regression.py", "LinearRegression.fit", "_construct_regression_obj", .lib, (.crs (.selfAttr "random_state") false)⟩,
  ⟨.models, "models/logistic_regression.py", "LogisticRegression.__init__", "super().__init__", .superInit, (.param "random_state")⟩,
  ⟨.models, "models/logistic_regression.py", "LogisticRegression.fit", "path_func", .external, (.ifSeeded (.selfAttr "random_state") (.drawn (.crs (.selfAttr "random_state") false) "randint"))⟩,
  ⟨.models, "models/logistic_regression.py", "_logistic_regression_path", "Vector", .lib, (.crs (.param "random_state") false)⟩,
  ⟨.models, "models/naive_bayes.py", "GaussianNB._partial_fit", "self._noisy_class_counts", .lib, (.crs (.selfAttr "random_state") false)⟩,
  ⟨.models, "models/naive_bayes.py", "GaussianNB._partial_fit", "self._update_mean_variance", .lib, (.crs (.selfAttr "random_state") false)⟩,
  ⟨.models, "models/naive_bayes.py", "GaussianNB._update_mean_variance", "LaplaceTruncated", .lib, (.param "random_state")⟩,
  ⟨.models, "models/naive_bayes.py", "GaussianNB._update_mean_variance", "LaplaceBoundedDomain", .lib, (.param "random_state")⟩,
  ⟨.models, "models/naive_bayes.py", "GaussianNB._noisy_class_counts", "GeometricTruncated", .lib, (.param "random_state")⟩,
  ⟨.models, "models/pca.py", "PCA.__init__", "super().__init__", .superInit, (.param "random_state")⟩,
  ⟨.models, "models/pca.py", "PCA._fit_full", "mean", .lib, (.crs (.selfAttr "random_state") false)⟩,
  ⟨.models, "models/pca.py", "PCA._fit_full", "covariance_eig", .lib, (.crs (.selfAttr "random_state") false)⟩,
  ⟨.models, "models/standard_scaler.py", "_incremental_mean_and_var", "nanmean", .lib, (.param "random_state")⟩,
  ⟨.models, "models/standard_scaler.py", "_incremental_mean_and_var", "nanvar", .lib, (.param "random_state")⟩,
  ⟨.models, "models/standard_scaler.py", "StandardScaler.partial_fit", "_incremental_mean_and_var", .lib, (.crs (.selfAttr "random_state") false)⟩,
  ⟨.models, "models/utils.py", "covariance_eig", "LaplaceBoundedDomain", .lib, (.crs (.param "random_state") false)⟩,
  ⟨.models, "models/utils.py", "covariance_eig", "Bingham", .lib, (.crs (.param "random_state") false)⟩,
  ⟨.tools, "tools/histograms.py", "histogram", "GeometricTruncated", .lib, (.crs (.param "random_state") false)⟩,
  ⟨.tools, "tools/histograms.py", "histogramdd", "GeometricTruncated", .lib, (.crs (.param "random_state") false)⟩,
  ⟨.tools, "tools/histograms.py", "histogram2d", "histogramdd", .lib, (.param "random_state")⟩,
  ⟨.tools, "tools/quantiles.py", "quantile", "quantile", .lib, (.crs (.param "random_state") false)⟩,
  ⟨.tools, "tools/quantiles.py", "quantile", "_wrap_axis", .lib, (.crs (.param "random_state") false)⟩,
  ⟨.tools, "tools/quantiles.py", "quantile", "Exponential", .lib, (.crs (.param "random_state") false)⟩,
  ⟨.tools, "tools/quantiles.py", "percentile", "quantile", .lib, (.param "random_state")⟩,
  ⟨.tools, "tools/quantiles.py", "median", "quantile", .lib, (.param "random_state")⟩,
  ⟨.tools, "tools/utils.py", "count_nonzero", "sum", .lib, (.param "random_state")⟩,
  ⟨.tools, "tools/utils.py", "mean", "_mean", .lib, (.param "random_state")⟩,
  ⟨.tools, "tools/utils.py", "nanmean", "_mean", .lib, (.param "random_state")⟩,
  ⟨.tools, "tools/utils.py", "_mean", "_wrap_axis", .lib, (.crs (.param "random_state") false)⟩,
  ⟨.tools, "tools/utils.py", "_mean", "LaplaceTruncated", .lib, (.crs (.param "random_state") false)⟩,
  ⟨.tools, "tools/utils.py", "var", "_var", .lib, (.param "random_state")⟩,
  ⟨.tools, "tools/utils.py", "nanvar", "_var", .lib, (.param "random_state")⟩,
  ⟨.tools, "tools/utils.py", "_var", "_wrap_axis", .lib, (.crs (.param "random_state") false)⟩,
  ⟨.tools, "tools/utils.py", "_var", "LaplaceBoundedDomain", .lib, (.crs (.param "random_state") false)⟩,
  ⟨.tools, "tools/utils.py", "std", "_std", .lib, (.param "random_state")⟩,
  ⟨.tools, "tools/utils.py", "nanstd", "_std", .lib, (.param "random_state")⟩,
  ⟨.tools, "tools/utils.py", "_std", "_var", .lib, (.param "random_state")⟩,
  ⟨.tools, "tools/utils.py", "sum", "_sum", .lib, (.param "random_state")⟩,
  ⟨.tools, "tools/utils.py", "nansum", "_sum", .lib, (.param "random_state")⟩,
  ⟨.tools, "tools/utils.py", "_sum", "_wrap_axis", .lib, (.crs (.param "random_state") false)⟩,
  ⟨.tools, "tools/utils.py", "_sum", "mech", .lib, (.crs (.param "random_state") false)⟩
]

def attrAssigns : List AttrAssign := [
  ⟨"mechanisms/base.py", "DPMechanism.__init__", "random_state", (.param "random_state")⟩,
  ⟨"mechanisms/base.py", "DPMechanism.__init__", "_rng", (.crs (.param "random_state") true)⟩,
  ⟨"mechanisms/bingham.py", "Bingham.__init__", "_rng", .defaultRng⟩,
  ⟨"mechanisms/staircase.py", "Staircase.__init__", "_rng", .defaultRng⟩,
  ⟨"models/forest.py", "_FittingTree.__init__", "random_state", (.param "random_state")⟩,
  ⟨"models/linear_regression.py", "LinearRegression.__init__", "random_state", (.param "random_state")⟩,
  ⟨"models/naive_bayes.py", "GaussianNB.__init__", "random_state", (.param "random_state")⟩,
  ⟨"models/standard_scaler.py", "StandardScaler.__init__", "random_state", (.param "random_state")⟩
]

/-- the only uses of numpy's / the standard library's generator APIs anywhere in the library are the named exceptions the hand model accounts for (`crs`, `Mech.swaps`): nothing draws from a global generator -/
theorem no_global_draw : globalUses = allowedGlobalUses := by decide +kernel

/-- `_rng` is obtained by check_random_state(random_state, True) in DPMechanism.__init__ and is re-assigned only by the Staircase / Bingham swap; no other attribute holds a generator (plain `self.random_state = random_state` storage aside) -/
theorem mech_ctor_secure : attrAssigns.filter (!·.plainStorage) = expectedAttrAssigns := by decide +kernel

/-- every draw inside diffprivlib/mechanisms is made on `self._rng` (or on the secure generator of `bernoulli_neg_exp`) -/
theorem mech_draws_via_rng : mechDrawsViaRng draws = true := by decide +kernel

/-- the secure check_random_state calls are exactly the two in mechanisms/base.py -/
theorem secure_crs_calls : crsCalls.filter (·.secure) = secureCrsCalls := by decide +kernel

/-- no non-secure check_random_state call inside diffprivlib/mechanisms -/
theorem nonsecure_crs_outside_mechanisms : nonSecureCrsOutsideMechanisms crsCalls = true := by decide +kernel

/-- the draws that do not come from the OS CSPRNG for an unseeded caller are exactly the hand-classified structural ones -/
theorem noise_sites_match_plan : nonSecureDraws draws = structuralDraws.map (·.site) := by decide +kernel

/-- whatever is handed on inside the library is, for an unseeded caller, None / the global singleton / a SystemRandom — each of which a mechanism turns into the OS CSPRNG -/
theorem passes_closed : passesClosed passes = true := by decide +kernel

/-- generators / seeds leave the library only at the two hand-listed places -/
theorem external_passes : passes.filter (·.kind == .external) = externalPasses := by decide +kernel

end DPL.Generated.C14Sites
