/- GENERATED on every run from /repo's current sources by harness/anchors.py — do not edit. -/
import DPL.Proofs.RealCarrier
import DPL.Model.PlanModels
import Mathlib.Tactic.Ring
import Mathlib.Tactic.FieldSimp
import Mathlib.Tactic.NormNum
import Mathlib.Analysis.SpecialFunctions.Pow.Real
namespace DPL.Gen.C08
open DPL 

theorem feq_ne {a b : ℝ} (h : a ≠ b) : feq a b = false := by
  unfold feq
  rcases lt_or_gt_of_ne h with h' | h'
  · simp [not_le.mpr h']
  · simp [not_le.mpr h']


/-- `naive_bayes.py:GaussianNB._update_mean_variance` -/
noncomputable def gen_gnbLocalEps (ε : ℝ) (d : ℕ) : ℝ := ((ε / (3 : ℝ)) / (d : ℝ))
theorem gen_gnbLocalEps_eq (ε : ℝ) (d : ℕ)  : gen_gnbLocalEps ε d = ε / PM.nat 3 / (d : ℝ) := by
  unfold gen_gnbLocalEps
  simp only [PM.nat]
  all_goals first | rfl | ring | (norm_num; ring) | (push_cast; ring)

/-- `naive_bayes.py:GaussianNB._noisy_class_counts` -/
noncomputable def gen_gnbCountEps (ε : ℝ) : ℝ := (ε / (3 : ℝ))
theorem gen_gnbCountEps_eq (ε : ℝ)  : gen_gnbCountEps ε = ε / 3 := by
  unfold gen_gnbCountEps
  all_goals first | rfl | ring | (norm_num; ring) | (push_cast; ring)

/-- `naive_bayes.py:GaussianNB._update_mean_variance` -/
noncomputable def gen_gnbSumSens (lo hi : ℝ) : ℝ := (max (max |lo| |hi|) (hi - lo))
theorem gen_gnbSumSens_eq (lo hi : ℝ)  : gen_gnbSumSens lo hi = PM.sumSens lo hi := by
  unfold gen_gnbSumSens
  simp only [PM.sumSens, PM.pmax, PM.pabs]
  split_ifs <;> simp_all only [max_def, abs_of_neg, abs_of_nonneg, not_lt, not_le] <;> first | rfl | (split_ifs <;> first | rfl | linarith) | linarith

/-- `k_means.py:KMeans._update_centers` -/
noncomputable def gen_kmSumSens (lo hi : ℝ) : ℝ := (max (max |lo| |hi|) (hi - lo))
theorem gen_kmSumSens_eq (lo hi : ℝ)  : gen_kmSumSens lo hi = PM.sumSens lo hi := by
  unfold gen_kmSumSens
  simp only [PM.sumSens, PM.pmax, PM.pabs]
  split_ifs <;> simp_all only [max_def, abs_of_neg, abs_of_nonneg, not_lt, not_le] <;> first | rfl | (split_ifs <;> first | rfl | linarith) | linarith

/-- `linear_regression.py:_construct_regression_obj` -/
noncomputable def gen_linLocalEps (ε : ℝ) (t d : ℕ) : ℝ := (ε / (((t : ℝ) + ((t : ℝ) * (d : ℝ))) + (((d : ℝ) * ((d : ℝ) + (1 : ℝ))) / (2 : ℝ))))
theorem gen_linLocalEps_eq (ε : ℝ) (t d : ℕ)  : gen_linLocalEps ε t d = ε / ((t : ℝ) + (t : ℝ) * (d : ℝ) + (d : ℝ) * ((d : ℝ) + 1) / 2) := by
  unfold gen_linLocalEps
  all_goals first | rfl | ring | (norm_num; ring) | (push_cast; ring)

end DPL.Gen.C08
