/- GENERATED on every run from /repo's current sources by harness/anchors.py — do not edit. -/
import DPL.Proofs.RealCarrier
import DPL.Model.LogReg
import Mathlib.Tactic.Ring
import Mathlib.Tactic.FieldSimp
import Mathlib.Tactic.NormNum
import Mathlib.Analysis.SpecialFunctions.Pow.Real
namespace DPL.Gen.C17
open DPL DPL.LogReg

theorem feq_ne {a b : ℝ} (h : a ≠ b) : feq a b = false := by
  unfold feq
  rcases lt_or_gt_of_ne h with h' | h'
  · simp [not_le.mpr h']
  · simp [not_le.mpr h']


/-- `vector.py:Vector.randomise` -/
noncomputable def gen_epsilonP (e c s a : ℝ) : ℝ := (e - ((2 : ℝ) * (Real.log ((1 : ℝ) + ((c * s) / a)))))
theorem gen_epsilonP_eq (e c s a : ℝ)  : gen_epsilonP e c s a = e - 2 * Real.log (1 + c * s / a) := by
  unfold gen_epsilonP
  rfl

/-- `vector.py:Vector.randomise` -/
noncomputable def gen_deltaFallback (e c s a : ℝ) (n : ℕ) : ℝ := ((((c * s) / (Real.exp (e / (4 : ℝ)) - 1)) - a) / (n : ℝ))
theorem gen_deltaFallback_eq (e c s a : ℝ) (n : ℕ)  : gen_deltaFallback e c s a n = (c * s / expm1 (e / 4) - a) / (n : ℝ) := by
  unfold gen_deltaFallback
  simp only [expm1, transc_exp]

/-- `vector.py:Vector.randomise` -/
noncomputable def gen_epsilonPFallback (e : ℝ) : ℝ := (e / (2 : ℝ))
theorem gen_epsilonPFallback_eq (e : ℝ)  : gen_epsilonPFallback e = e / 2 := by
  unfold gen_epsilonPFallback
  rfl

/-- `vector.py:Vector.randomise` -/
noncomputable def gen_scale (s ep : ℝ) : ℝ := ((s * (2 : ℝ)) / ep)
theorem gen_scale_eq (s ep : ℝ)  : gen_scale s ep = s * 2 / ep := by
  unfold gen_scale
  rfl


/-- the first part of `Vector.randomise` as coded (read from the AST) IS the model's `vectorCalib` -/
theorem vectorCalib_eq (e c s a : ℝ) (n : ℕ) :
    vectorCalib e c s a n =
      if gen_epsilonP e c s a ≤ 0 then
        ⟨gen_epsilonPFallback e, gen_deltaFallback e c s a n, gen_scale s (gen_epsilonPFallback e)⟩
      else ⟨gen_epsilonP e c s a, 0, gen_scale s (gen_epsilonP e c s a)⟩ := by
  simp only [vectorCalib, gen_epsilonP, gen_epsilonPFallback, gen_deltaFallback, gen_scale, transc_log, transc_exp, expm1]
  all_goals first | rfl | (split_ifs <;> rfl) | (split_ifs <;> simp)

end DPL.Gen.C17
