/- GENERATED on every run from /repo's current sources by harness/anchors.py — do not edit. -/
import DPL.Proofs.RealCarrier
import DPL.Model.LogReg
import Mathlib.Tactic.Ring
import Mathlib.Tactic.FieldSimp
import Mathlib.Tactic.NormNum
import Mathlib.Analysis.SpecialFunctions.Pow.Real
namespace DPL.Gen.C17
open DPL DPL.LogReg

theorem feq_ne {a b : ℝ} (h : a ≠ b) : feq a b = false := by
  unfold feq
  rcases lt_or_gt_of_ne h with h' | h'
  · simp [not_le.mpr h']
  · simp [not_le.mpr h']


end DPL.Gen.C17
