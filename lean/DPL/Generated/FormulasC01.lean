/- GENERATED on every run from /repo's current sources by harness/anchors.py — do not edit. -/
import DPL.Proofs.RealCarrier
import DPL.Model.Discrete
import Mathlib.Tactic.Ring
import Mathlib.Tactic.FieldSimp
import Mathlib.Tactic.NormNum
import Mathlib.Analysis.SpecialFunctions.Pow.Real
namespace DPL.Gen.C01
open DPL DPL.Discrete

theorem feq_ne {a b : ℝ} (h : a ≠ b) : feq a b = false := by
  unfold feq
  rcases lt_or_gt_of_ne h with h' | h'
  · simp [not_le.mpr h']
  · simp [not_le.mpr h']


/-- `binary.py:Binary.randomise` -/
noncomputable def gen_binaryFlipHi (x : ℝ) : ℝ := x
theorem gen_binaryFlipHi_eq (x : ℝ)  : gen_binaryFlipHi x = x := by
  unfold gen_binaryFlipHi
  rfl

/-- `geometric.py:Geometric.__init__` -/
noncomputable def gen_geomScale (e s : ℝ) : ℝ := ((-e) / s)
theorem gen_geomScale_eq (e s : ℝ)  : gen_geomScale e s = -e / s := by
  unfold gen_geomScale
  rfl

/-- `geometric.py:Geometric.randomise` -/
noncomputable def gen_geomUnif (u sc : ℝ) : ℝ := ((u - ((1 : ℝ) / 2)) * ((1 : ℝ) + (Real.exp sc)))
theorem gen_geomUnif_eq (u sc : ℝ)  : gen_geomUnif u sc = (u - 1 / 2) * (1 + Real.exp sc) := by
  unfold gen_geomUnif
  rfl

/-- `geometric.py:Geometric.randomise` -/
noncomputable def gen_geomTestLo (v : ℝ) : ℝ := v
theorem gen_geomTestLo_eq (v : ℝ)  : gen_geomTestLo v = v := by
  unfold gen_geomTestLo
  rfl

/-- `geometric.py:Geometric.randomise` -/
noncomputable def gen_geomTestHi  : ℝ := (0 : ℝ)
theorem gen_geomTestHi_eq   : gen_geomTestHi  = 0 := by
  unfold gen_geomTestHi
  rfl

/-- `geometric.py:Geometric.randomise` -/
noncomputable def gen_geomSgnNeg  : ℝ := (-(1 : ℝ))
theorem gen_geomSgnNeg_eq   : gen_geomSgnNeg  = -1 := by
  unfold gen_geomSgnNeg
  rfl

/-- `geometric.py:Geometric.randomise` -/
noncomputable def gen_geomSgnPos  : ℝ := (1 : ℝ)
theorem gen_geomSgnPos_eq   : gen_geomSgnPos  = 1 := by
  unfold gen_geomSgnPos
  rfl

/-- `geometric.py:Geometric.randomise` -/
noncomputable def gen_geomFloorArg (sg v sc : ℝ) : ℝ := ((Real.log (sg * v)) / sc)
theorem gen_geomFloorArg_eq (sg v sc : ℝ)  : gen_geomFloorArg sg v sc = Real.log (sg * v) / sc := by
  unfold gen_geomFloorArg
  rfl

/-- `geometric.py:Geometric.randomise` -/
noncomputable def gen_geomReturn (val : ℤ) (sg v sc : ℝ) : ℝ := ((val : ℝ) + (sg * ((⌊((Real.log (sg * v)) / sc)⌋ : ℤ) : ℝ)))
theorem gen_geomReturn_eq (val : ℤ) (sg v sc : ℝ)  : gen_geomReturn val sg v sc = (val : ℝ) + sg * ((⌊Real.log (sg * v) / sc⌋ : ℤ) : ℝ) := by
  unfold gen_geomReturn
  rfl

/-- `exponential.py:Exponential._find_probabilities` -/
noncomputable def gen_expScale (e s m : ℝ) : ℝ := ((e / s) / ((2 : ℝ) - m))
theorem gen_expScale_eq (e s m : ℝ)  : gen_expScale e s m = e / s / (2 - m) := by
  unfold gen_expScale
  rfl

/-- `exponential.py:Exponential._find_probabilities` -/
noncomputable def gen_expScaleTestLo  : ℝ := (0 : ℝ)
theorem gen_expScaleTestLo_eq   : gen_expScaleTestLo  = 0 := by
  unfold gen_expScaleTestLo
  rfl

/-- `exponential.py:Exponential._find_probabilities` -/
noncomputable def gen_expScaleTestHi (e s : ℝ) : ℝ := (s / e)
theorem gen_expScaleTestHi_eq (e s : ℝ)  : gen_expScaleTestHi e s = s / e := by
  unfold gen_expScaleTestHi
  rfl

/-- `exponential.py:Exponential._find_probabilities` -/
noncomputable def gen_expWeight (sc x : ℝ) : ℝ := (Real.exp (sc * x))
theorem gen_expWeight_eq (sc x : ℝ)  : gen_expWeight sc x = Real.exp (sc * x) := by
  unfold gen_expWeight
  rfl

/-- `exponential.py:PermuteAndFlip._find_probabilities` -/
noncomputable def gen_pafScale (e s m : ℝ) : ℝ := ((e / s) / ((2 : ℝ) - m))
theorem gen_pafScale_eq (e s m : ℝ)  : gen_pafScale e s m = e / s / (2 - m) := by
  unfold gen_pafScale
  rfl

/-- `exponential.py:PermuteAndFlip._find_probabilities` -/
noncomputable def gen_pafScaleTestLo  : ℝ := (0 : ℝ)
theorem gen_pafScaleTestLo_eq   : gen_pafScaleTestLo  = 0 := by
  unfold gen_pafScaleTestLo
  rfl

/-- `exponential.py:PermuteAndFlip._find_probabilities` -/
noncomputable def gen_pafScaleTestHi (e s : ℝ) : ℝ := (s / e)
theorem gen_pafScaleTestHi_eq (e s : ℝ)  : gen_pafScaleTestHi e s = s / e := by
  unfold gen_pafScaleTestHi
  rfl

/-- `exponential.py:PermuteAndFlip._find_probabilities` -/
noncomputable def gen_pafLogProb (sc x : ℝ) : ℝ := (sc * x)
theorem gen_pafLogProb_eq (sc x : ℝ)  : gen_pafLogProb sc x = sc * x := by
  unfold gen_pafLogProb
  rfl

/-- `exponential.py:PermuteAndFlip.randomise` -/
noncomputable def gen_pafCoinGamma (lp : ℝ) : ℝ := (-lp)
theorem gen_pafCoinGamma_eq (lp : ℝ)  : gen_pafCoinGamma lp = -lp := by
  unfold gen_pafCoinGamma
  rfl

/-- `exponential.py:ExponentialCategorical._get_prob` -/
noncomputable def gen_catDiag  : ℝ := (1 : ℝ)
theorem gen_catDiag_eq   : gen_catDiag  = 1 := by
  unfold gen_catDiag
  rfl

/-- `exponential.py:ExponentialCategorical._get_prob` -/
noncomputable def gen_catBalTrue  : ℝ := (1 : ℝ)
theorem gen_catBalTrue_eq   : gen_catBalTrue  = 1 := by
  unfold gen_catBalTrue
  rfl

/-- `exponential.py:ExponentialCategorical._get_prob` -/
noncomputable def gen_catBalFalse  : ℝ := (2 : ℝ)
theorem gen_catBalFalse_eq   : gen_catBalFalse  = 2 := by
  unfold gen_catBalFalse
  rfl

/-- `exponential.py:ExponentialCategorical._get_prob` -/
noncomputable def gen_catProb (e ut bf s : ℝ) : ℝ := (Real.exp ((((-e) * ut) / bf) / s))
theorem gen_catProb_eq (e ut bf s : ℝ)  : gen_catProb e ut bf s = Real.exp (-e * ut / bf / s) := by
  unfold gen_catProb
  rfl

end DPL.Gen.C01
