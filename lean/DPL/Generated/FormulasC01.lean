/- GENERATED on every run from /repo's current sources by harness/anchors.py — do not edit. -/
import DPL.Proofs.RealCarrier
import DPL.Model.Discrete
import Mathlib.Tactic.Ring
import Mathlib.Tactic.FieldSimp
import Mathlib.Tactic.NormNum
import Mathlib.Analysis.SpecialFunctions.Pow.Real
namespace DPL.Gen.C01
open DPL DPL.Discrete

theorem feq_ne {a b : ℝ} (h : a ≠ b) : feq a b = false := by
  unfold feq
  rcases lt_or_gt_of_ne h with h' | h'
  · simp [not_le.mpr h']
  · simp [not_le.mpr h']


/-- `binary.py:Binary.randomise` -/
noncomputable def gen_binaryUnif (e u : ℝ) : ℝ := (u * ((Real.exp e) + (1 : ℝ)))
theorem gen_binaryUnif_eq (e u : ℝ)  : gen_binaryUnif e u = u * (Real.exp e + 1) := by
  unfold gen_binaryUnif
  rfl

/-- `binary.py:Binary.randomise` -/
noncomputable def gen_binaryFlipLo (e d : ℝ) : ℝ := ((Real.exp e) + d)
theorem gen_binaryFlipLo_eq (e d : ℝ)  : gen_binaryFlipLo e d = Real.exp e + d := by
  unfold gen_binaryFlipLo
  rfl

/-- `binary.py:Binary.randomise` -/
noncomputable def gen_binaryFlipHi (x : ℝ) : ℝ := x
theorem gen_binaryFlipHi_eq (x : ℝ)  : gen_binaryFlipHi x = x := by
  unfold gen_binaryFlipHi
  rfl

/-- `geometric.py:Geometric.__init__` -/
noncomputable def gen_geomScale (e s : ℝ) : ℝ := ((-e) / s)
theorem gen_geomScale_eq (e s : ℝ)  : gen_geomScale e s = -e / s := by
  unfold gen_geomScale
  rfl

/-- `geometric.py:Geometric.randomise` -/
noncomputable def gen_geomUnif (u sc : ℝ) : ℝ := ((u - ((1 : ℝ) / 2)) * ((1 : ℝ) + (Real.exp sc)))
theorem gen_geomUnif_eq (u sc : ℝ)  : gen_geomUnif u sc = (u - 1 / 2) * (1 + Real.exp sc) := by
  unfold gen_geomUnif
  rfl

/-- `geometric.py:Geometric.randomise` -/
noncomputable def gen_geomTestLo (v : ℝ) : ℝ := v
theorem gen_geomTestLo_eq (v : ℝ)  : gen_geomTestLo v = v := by
  unfold gen_geomTestLo
  rfl

/-- `geometric.py:Geometric.randomise` -/
noncomputable def gen_geomTestHi  : ℝ := (0 : ℝ)
theorem gen_geomTestHi_eq   : gen_geomTestHi  = 0 := by
  unfold gen_geomTestHi
  rfl

/-- `geometric.py:Geometric.randomise` -/
noncomputable def gen_geomSgnNeg  : ℝ := (-(1 : ℝ))
theorem gen_geomSgnNeg_eq   : gen_geomSgnNeg  = -1 := by
  unfold gen_geomSgnNeg
  rfl

/-- `geometric.py:Geometric.randomise` -/
noncomputable def gen_geomSgnPos  : ℝ := (1 : ℝ)
theorem gen_geomSgnPos_eq   : gen_geomSgnPos  = 1 := by
  unfold gen_geomSgnPos
  rfl

/-- `geometric.py:Geometric.randomise` -/
noncomputable def gen_geomFloorArg (sg v sc : ℝ) : ℝ := ((Real.log (sg * v)) / sc)
theorem gen_geomFloorArg_eq (sg v sc : ℝ)  : gen_geomFloorArg sg v sc = Real.log (sg * v) / sc := by
  unfold gen_geomFloorArg
  rfl

/-- `geometric.py:Geometric.randomise` -/
noncomputable def gen_geomReturn (val : ℤ) (sg v sc : ℝ) : ℝ := ((val : ℝ) + (sg * ((⌊((Real.log (sg * v)) / sc)⌋ : ℤ) : ℝ)))
theorem gen_geomReturn_eq (val : ℤ) (sg v sc : ℝ)  : gen_geomReturn val sg v sc = (val : ℝ) + sg * ((⌊Real.log (sg * v) / sc⌋ : ℤ) : ℝ) := by
  unfold gen_geomReturn
  rfl

/-- `exponential.py:Exponential._find_probabilities` -/
noncomputable def gen_expScale (e s m : ℝ) : ℝ := ((e / s) / ((2 : ℝ) - m))
theorem gen_expScale_eq (e s m : ℝ)  : gen_expScale e s m = e / s / (2 - m) := by
  unfold gen_expScale
  rfl

/-- `exponential.py:Exponential._find_probabilities` -/
noncomputable def gen_expScaleTestLo  : ℝ := (0 : ℝ)
theorem gen_expScaleTestLo_eq   : gen_expScaleTestLo  = 0 := by
  unfold gen_expScaleTestLo
  rfl

/-- `exponential.py:Exponential._find_probabilities` -/
noncomputable def gen_expScaleTestHi (e s : ℝ) : ℝ := (s / e)
theorem gen_expScaleTestHi_eq (e s : ℝ)  : gen_expScaleTestHi e s = s / e := by
  unfold gen_expScaleTestHi
  rfl

/-- `exponential.py:Exponential._find_probabilities` -/
noncomputable def gen_expWeight (sc x : ℝ) : ℝ := (Real.exp (sc * x))
theorem gen_expWeight_eq (sc x : ℝ)  : gen_expWeight sc x = Real.exp (sc * x) := by
  unfold gen_expWeight
  rfl

/-- `exponential.py:PermuteAndFlip._find_probabilities` -/
noncomputable def gen_pafScale (e s m : ℝ) : ℝ := ((e / s) / ((2 : ℝ) - m))
theorem gen_pafScale_eq (e s m : ℝ)  : gen_pafScale e s m = e / s / (2 - m) := by
  unfold gen_pafScale
  rfl

/-- `exponential.py:PermuteAndFlip._find_probabilities` -/
noncomputable def gen_pafScaleTestLo  : ℝ := (0 : ℝ)
theorem gen_pafScaleTestLo_eq   : gen_pafScaleTestLo  = 0 := by
  unfold gen_pafScaleTestLo
  rfl

/-- `exponential.py:PermuteAndFlip._find_probabilities` -/
noncomputable def gen_pafScaleTestHi (e s : ℝ) : ℝ := (s / e)
theorem gen_pafScaleTestHi_eq (e s : ℝ)  : gen_pafScaleTestHi e s = s / e := by
  unfold gen_pafScaleTestHi
  rfl

/-- `exponential.py:PermuteAndFlip._find_probabilities` -/
noncomputable def gen_pafLogProb (sc x : ℝ) : ℝ := (sc * x)
theorem gen_pafLogProb_eq (sc x : ℝ)  : gen_pafLogProb sc x = sc * x := by
  unfold gen_pafLogProb
  rfl

/-- `exponential.py:PermuteAndFlip.randomise` -/
noncomputable def gen_pafCoinGamma (lp : ℝ) : ℝ := (-lp)
theorem gen_pafCoinGamma_eq (lp : ℝ)  : gen_pafCoinGamma lp = -lp := by
  unfold gen_pafCoinGamma
  rfl

/-- `exponential.py:ExponentialCategorical._get_prob` -/
noncomputable def gen_catDiag  : ℝ := (1 : ℝ)
theorem gen_catDiag_eq   : gen_catDiag  = 1 := by
  unfold gen_catDiag
  rfl

/-- `exponential.py:ExponentialCategorical._get_prob` -/
noncomputable def gen_catBalTrue  : ℝ := (1 : ℝ)
theorem gen_catBalTrue_eq   : gen_catBalTrue  = 1 := by
  unfold gen_catBalTrue
  rfl

/-- `exponential.py:ExponentialCategorical._get_prob` -/
noncomputable def gen_catBalFalse  : ℝ := (2 : ℝ)
theorem gen_catBalFalse_eq   : gen_catBalFalse  = 2 := by
  unfold gen_catBalFalse
  rfl

/-- `exponential.py:ExponentialCategorical._get_prob` -/
noncomputable def gen_catProb (e ut bf s : ℝ) : ℝ := (Real.exp ((((-e) * ut) / bf) / s))
theorem gen_catProb_eq (e ut bf s : ℝ)  : gen_catProb e ut bf s = Real.exp (-e * ut / bf / s) := by
  unfold gen_catProb
  rfl


/-- `Binary.randomise` as coded (pieces read from the AST) IS the model's `binaryRandomise` -/
theorem binaryRandomise_eq (e d u : ℝ) (ind : Bool) :
    binaryRandomise e d ind u =
      if gen_binaryFlipLo e d < gen_binaryFlipHi (gen_binaryUnif e u) then !ind else ind := by
  simp only [binaryRandomise, gen_binaryFlipLo, gen_binaryFlipHi, gen_binaryUnif, transc_exp]
  rfl

/-- `Geometric.randomise` as coded IS the model's `geomRandomise` (sensitivity > 0) -/
theorem geomRandomise_eq (e : ℝ) (s : ℕ) (hs : 0 < s) (val : ℤ) (u : ℝ) :
    ((geomRandomise e s val u : ℤ) : ℝ) =
      if gen_geomTestLo (gen_geomUnif u (gen_geomScale e s)) < gen_geomTestHi then
        gen_geomReturn val gen_geomSgnNeg (gen_geomUnif u (gen_geomScale e s)) (gen_geomScale e s)
      else gen_geomReturn val gen_geomSgnPos (gen_geomUnif u (gen_geomScale e s)) (gen_geomScale e s) := by
  simp only [geomRandomise, hs, ↓reduceIte, geomNoise, gen_geomScale, gen_geomUnif, gen_geomTestLo, gen_geomTestHi,
    gen_geomReturn, gen_geomSgnNeg, gen_geomSgnPos, transc_exp, transc_log, transc_floor]
  by_cases h : (u - 1 / 2) * (1 + Real.exp (-e / (s : ℝ))) < 0
  · simp only [h, ↓reduceIte, neg_one_mul]
    push_cast
    ring
  · simp only [h, ↓reduceIte, one_mul]
    push_cast
    ring

/-- the floor argument inside the returned expression is the anchored one -/
theorem geomReturn_floorArg (val : ℤ) (sg v sc : ℝ) :
    gen_geomReturn val sg v sc = (val : ℝ) + sg * ((⌊gen_geomFloorArg sg v sc⌋ : ℤ) : ℝ) := by
  simp only [gen_geomReturn, gen_geomFloorArg]

/-- the scale of `Exponential._find_probabilities` as coded IS the model's `expScale` -/
theorem expScale_eq (e s : ℝ) (mono : Bool) :
    expScale e s mono =
      if gen_expScaleTestLo < gen_expScaleTestHi e s then some (gen_expScale e s (if mono then 1 else 0)) else none := by
  cases mono <;> simp [expScale, gen_expScale, gen_expScaleTestLo, gen_expScaleTestHi] <;> norm_num

theorem pafScale_eq (e s : ℝ) (mono : Bool) :
    expScale e s mono =
      if gen_pafScaleTestLo < gen_pafScaleTestHi e s then some (gen_pafScale e s (if mono then 1 else 0)) else none := by
  cases mono <;> simp [expScale, gen_pafScale, gen_pafScaleTestLo, gen_pafScaleTestHi] <;> norm_num

/-- finite scale, no measure: the un-normalised weights as coded -/
theorem expWeights_eq (sc tol : ℝ) (utils : List ℝ) :
    expWeights (some sc) tol utils [] = utils.map (fun x => gen_expWeight sc (x - pyMax utils)) := by
  simp only [expWeights, gen_expWeight, transc_exp, List.isEmpty_nil, ↓reduceIte]

theorem pafLogProbs_eq (sc : ℝ) (utils : List ℝ) :
    pafLogProbs (some sc) utils = utils.map (fun x => some (gen_pafLogProb sc (x - pyMax utils))) := by
  simp only [pafLogProbs, gen_pafLogProb]

/-- `_get_prob` as coded IS the model's `catProb` -/
theorem catProb_eq (e s : ℝ) (utl : List ((Nat × Nat) × ℝ)) (bal : Bool) (a b : Nat) :
    catProb e utl s bal a b =
      if a = b then gen_catDiag
      else gen_catProb e (catUtility utl a b) (if bal then gen_catBalTrue else gen_catBalFalse) s := by
  simp only [catProb, gen_catDiag, gen_catProb, gen_catBalTrue, gen_catBalFalse, transc_exp]

end DPL.Gen.C01
