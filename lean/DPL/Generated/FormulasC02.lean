/- GENERATED on every run from /repo's current sources by harness/anchors.py — do not edit. -/
import DPL.Proofs.RealCarrier
import DPL.Model.Calibration
import Mathlib.Tactic.Ring
import Mathlib.Tactic.FieldSimp
import Mathlib.Tactic.NormNum
import Mathlib.Analysis.SpecialFunctions.Pow.Real
namespace DPL.Gen.C02
open DPL DPL.Cont

theorem feq_ne {a b : ℝ} (h : a ≠ b) : feq a b = false := by
  unfold feq
  rcases lt_or_gt_of_ne h with h' | h'
  · simp [not_le.mpr h']
  · simp [not_le.mpr h']


/-- `laplace.py:Laplace.randomise` -/
noncomputable def gen_laplaceScale (e d s : ℝ) : ℝ := (s / (e - (Real.log ((1 : ℝ) - d))))
theorem gen_laplaceScale_eq (e d s : ℝ)  : gen_laplaceScale e d s = laplaceScale e d s := by
  unfold gen_laplaceScale
  simp only [laplaceScale, transc_log]

/-- `laplace.py:LaplaceBoundedNoise.randomise` -/
noncomputable def gen_boundedNoiseScale (e s : ℝ) : ℝ := (s / e)
theorem gen_boundedNoiseScale_eq (e s : ℝ)  : gen_boundedNoiseScale e s = boundedNoiseScale e s := by
  unfold gen_boundedNoiseScale
  simp only [boundedNoiseScale]

/-- `laplace.py:LaplaceBoundedNoise.randomise` -/
noncomputable def gen_boundedNoiseBound (e d s : ℝ) : ℝ := ((s / e) * (Real.log ((1 : ℝ) + ((((Real.exp e) - (1 : ℝ)) / (2 : ℝ)) / d))))
theorem gen_boundedNoiseBound_eq (e d s : ℝ) (h0 : s / e ≠ 0) : gen_boundedNoiseBound e d s = boundedNoiseBound e d s := by
  unfold gen_boundedNoiseBound
  simp only [boundedNoiseBound, boundedNoiseScale, transc_exp, transc_log, feq_ne h0, Bool.false_eq_true, if_false]

/-- `uniform.py:Uniform.randomise` -/
noncomputable def gen_uniformHalfWidth (d s : ℝ) : ℝ := ((s / d) / (2 : ℝ))
theorem gen_uniformHalfWidth_eq (d s : ℝ)  : gen_uniformHalfWidth d s = uniformHalfWidth d s := by
  unfold gen_uniformHalfWidth
  simp only [uniformHalfWidth]

/-- `gaussian.py:Gaussian.__init__` -/
noncomputable def gen_gaussSigma (e d s : ℝ) : ℝ := (((Real.sqrt ((2 : ℝ) * (Real.log (((5 : ℝ) / 4) / d)))) * s) / e)
theorem gen_gaussSigma_eq (e d s : ℝ)  : gen_gaussSigma e d s = gaussSigma e d s := by
  unfold gen_gaussSigma
  simp only [gaussSigma, c125, transc_sqrt, transc_log]
  norm_num

/-- `snapping.py:Snapping.effective_epsilon` -/
noncomputable def gen_snapEffEps (eta e B : ℝ) : ℝ := ((e - ((2 : ℝ) * eta)) / ((1 : ℝ) + (((12 : ℝ) * B) * eta)))
theorem gen_snapEffEps_eq (eta e B : ℝ)  : gen_snapEffEps eta e B = snapEffEps eta e B := by
  unfold gen_snapEffEps
  simp only [snapEffEps]
  norm_num

/-- `laplace.py:LaplaceBoundedDomain._find_scale` -/
noncomputable def gen_bdDeltaC (q D b : ℝ) : ℝ := ((((2 : ℝ) - (Real.exp ((-q) / b))) - (Real.exp ((-(D - q)) / b))) / ((1 : ℝ) - (Real.exp ((-D) / b))))
theorem gen_bdDeltaC_eq (q D b : ℝ) (h0 : b ≠ 0) : gen_bdDeltaC q D b = bdDeltaC q D b := by
  unfold gen_bdDeltaC
  simp only [bdDeltaC, transc_exp, feq_ne h0, Bool.false_eq_true, if_false]

/-- `laplace.py:LaplaceBoundedDomain._find_scale` -/
noncomputable def gen_bdF (e d q D b : ℝ) : ℝ := (q / ((e - (Real.log (bdDeltaC q D b))) - (Real.log ((1 : ℝ) - d))))
theorem gen_bdF_eq (e d q D b : ℝ)  : gen_bdF e d q D b = bdF e d q D b := by
  unfold gen_bdF
  simp only [bdF, transc_log]

end DPL.Gen.C02
