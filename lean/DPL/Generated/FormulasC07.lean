/- GENERATED on every run from /repo's current sources by harness/anchors.py — do not edit. -/
import DPL.Proofs.RealCarrier
import DPL.Model.PlanTools
import Mathlib.Tactic.Ring
import Mathlib.Tactic.FieldSimp
import Mathlib.Tactic.NormNum
import Mathlib.Analysis.SpecialFunctions.Pow.Real
namespace DPL.Gen.C07
open DPL 

theorem feq_ne {a b : ℝ} (h : a ≠ b) : feq a b = false := by
  unfold feq
  rcases lt_or_gt_of_ne h with h' | h'
  · simp [not_le.mpr h']
  · simp [not_le.mpr h']


/-- `utils.py:_mean` -/
noncomputable def gen_meanSens (l u : ℝ) (n : ℕ) : ℝ := ((u - l) / (n : ℝ))
theorem gen_meanSens_eq (l u : ℝ) (n : ℕ)  : gen_meanSens l u n = (u - l) / (n : ℝ) := by
  unfold gen_meanSens
  all_goals first | rfl | ring | (norm_num; ring)

/-- `utils.py:_mean` -/
noncomputable def gen_meanLower (l : ℝ) : ℝ := l
theorem gen_meanLower_eq (l : ℝ)  : gen_meanLower l = l := by
  unfold gen_meanLower
  all_goals first | rfl | ring | (norm_num; ring)

/-- `utils.py:_mean` -/
noncomputable def gen_meanUpper (u : ℝ) : ℝ := u
theorem gen_meanUpper_eq (u : ℝ)  : gen_meanUpper u = u := by
  unfold gen_meanUpper
  all_goals first | rfl | ring | (norm_num; ring)

/-- `utils.py:_var` -/
noncomputable def gen_varSens (l u : ℝ) (n : ℕ) : ℝ := ((((u - l) / (n : ℝ)) ^ 2) * ((n : ℝ) - (1 : ℝ)))
theorem gen_varSens_eq (l u : ℝ) (n : ℕ)  : gen_varSens l u n = Tools.varSens n l u := by
  unfold gen_varSens
  simp only [Tools.varSens]
  all_goals first | rfl | ring | (norm_num; ring)

/-- `utils.py:_var` -/
noncomputable def gen_varLower  : ℝ := (0 : ℝ)
theorem gen_varLower_eq   : gen_varLower  = 0 := by
  unfold gen_varLower
  all_goals first | rfl | ring | (norm_num; ring)

/-- `utils.py:_var` -/
noncomputable def gen_varUpper (l u : ℝ) : ℝ := (((u - l) ^ 2) / (4 : ℝ))
theorem gen_varUpper_eq (l u : ℝ)  : gen_varUpper l u = ((u - l) * (u - l)) / 4 := by
  unfold gen_varUpper
  all_goals first | rfl | ring | (norm_num; ring)

/-- `utils.py:_sum` -/
noncomputable def gen_sumSens (l u : ℝ) : ℝ := (u - l)
theorem gen_sumSens_eq (l u : ℝ)  : gen_sumSens l u = u - l := by
  unfold gen_sumSens
  all_goals first | rfl | ring | (norm_num; ring)

/-- `utils.py:_sum` -/
noncomputable def gen_sumLower (l : ℝ) (n : ℕ) : ℝ := (l * (n : ℝ))
theorem gen_sumLower_eq (l : ℝ) (n : ℕ)  : gen_sumLower l n = l * (n : ℝ) := by
  unfold gen_sumLower
  all_goals first | rfl | ring | (norm_num; ring)

/-- `utils.py:_sum` -/
noncomputable def gen_sumUpper (u : ℝ) (n : ℕ) : ℝ := (u * (n : ℝ))
theorem gen_sumUpper_eq (u : ℝ) (n : ℕ)  : gen_sumUpper u n = u * (n : ℝ) := by
  unfold gen_sumUpper
  all_goals first | rfl | ring | (norm_num; ring)

/-- `utils.py:_wrap_axis` -/
noncomputable def gen_cellEps (ε : ℝ) (m : ℕ) : ℝ := (ε / (m : ℝ))
theorem gen_cellEps_eq (ε : ℝ) (m : ℕ)  : gen_cellEps ε m = ε / (m : ℝ) := by
  unfold gen_cellEps
  all_goals first | rfl | ring | (norm_num; ring)


/-- the mechanism configured by `_mean` / `_var` / `_sum` as coded (read from the AST) IS the call of the model's plan -/
theorem meanPlan_call (n : ℕ) (ε l u : ℝ) :
    Tools.meanPlan n ε l u = Tools.single ⟨"LaplaceTruncated", ε, 0, gen_meanSens l u n, gen_meanLower l, gen_meanUpper u, .osCsprng⟩
      (fun D => Tools.mean (D.map (Tools.clip l u))) := by
  simp only [Tools.meanPlan, gen_meanSens, gen_meanLower, gen_meanUpper]

theorem varPlan_call (n : ℕ) (ε l u : ℝ) :
    Tools.varPlan n ε l u = Tools.single ⟨"LaplaceBoundedDomain", ε, 0, gen_varSens l u n, gen_varLower, gen_varUpper l u, .osCsprng⟩
      (fun D => Tools.var (D.map (Tools.clip l u))) := by
  rw [gen_varSens_eq, gen_varUpper_eq, gen_varLower_eq]
  rfl

theorem sumPlan_call (n : ℕ) (ε l u : ℝ) :
    Tools.sumPlan n ε l u = Tools.single ⟨"LaplaceTruncated", ε, 0, gen_sumSens l u, gen_sumLower l n, gen_sumUpper u n, .osCsprng⟩
      (fun D => Tools.sum (D.map (Tools.clip l u))) := by
  simp only [Tools.sumPlan, gen_sumSens, gen_sumLower, gen_sumUpper]

end DPL.Gen.C07
