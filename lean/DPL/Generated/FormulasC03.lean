/- GENERATED on every run from /repo's current sources by harness/anchors.py — do not edit. -/
import DPL.Proofs.RealCarrier
import DPL.Proofs.SamplersReal
import Mathlib.Tactic.Ring
import Mathlib.Tactic.FieldSimp
import Mathlib.Tactic.NormNum
import Mathlib.Analysis.SpecialFunctions.Pow.Real
namespace DPL.Gen.C03
open DPL 

theorem feq_ne {a b : ℝ} (h : a ≠ b) : feq a b = false := by
  unfold feq
  rcases lt_or_gt_of_ne h with h' | h'
  · simp [not_le.mpr h']
  · simp [not_le.mpr h']


/-- `laplace.py:Laplace._laplace_sampler` -/
noncomputable def gen_lap4 (u1 u2 u3 u4 : ℝ) : ℝ := (((Real.log ((1 : ℝ) - u1)) * (Real.cos (Real.pi * u2))) + ((Real.log ((1 : ℝ) - u3)) * (Real.cos (Real.pi * u4))))
theorem gen_lap4_eq (u1 u2 u3 u4 : ℝ)  : gen_lap4 u1 u2 u3 u4 = Smp.lap4 u1 u2 u3 u4 := by
  unfold gen_lap4
  simp only [Smp.lap4, transc_log, Smp.trig_cos, Smp.trig_pi]

/-- `laplace.py:Laplace.randomise` -/
noncomputable def gen_laplaceScale (e d s : ℝ) : ℝ := (s / (e - (Real.log ((1 : ℝ) - d))))
theorem gen_laplaceScale_eq (e d s : ℝ)  : gen_laplaceScale e d s = Smp.laplaceScale e d s := by
  unfold gen_laplaceScale
  simp only [Smp.laplaceScale, transc_log]

/-- `laplace.py:Laplace.randomise` -/
noncomputable def gen_laplaceReturn (x b lp : ℝ) : ℝ := (x - (b * lp))
theorem gen_laplaceReturn_eq (x b lp : ℝ)  : gen_laplaceReturn x b lp = x - b * lp := by
  unfold gen_laplaceReturn
  rfl

/-- `gaussian.py:Gaussian.randomise` -/
noncomputable def gen_gaussUnit0 (n1 n2 : ℝ) : ℝ := ((n1 + n2) / (Real.sqrt (2 : ℝ)))
theorem gen_gaussUnit0_eq (n1 n2 : ℝ)  : gen_gaussUnit0 n1 n2 = Smp.gaussUnit n1 n2 := by
  unfold gen_gaussUnit0
  simp only [Smp.gaussUnit, transc_sqrt]

/-- `gaussian.py:Gaussian.randomise` -/
noncomputable def gen_gaussUnit1 (n1 n2 : ℝ) : ℝ := ((n1 + n2) / (Real.sqrt (2 : ℝ)))
theorem gen_gaussUnit1_eq (n1 n2 : ℝ)  : gen_gaussUnit1 n1 n2 = Smp.gaussUnit n1 n2 := by
  unfold gen_gaussUnit1
  simp only [Smp.gaussUnit, transc_sqrt]

/-- `gaussian.py:Gaussian.randomise` -/
noncomputable def gen_gaussReturn (x g sc : ℝ) : ℝ := (x + (g * sc))
theorem gen_gaussReturn_eq (x g sc : ℝ)  : gen_gaussReturn x g sc = x + g * sc := by
  unfold gen_gaussReturn
  rfl

/-- `uniform.py:Uniform.randomise` -/
noncomputable def gen_uniformNoise (d s u : ℝ) : ℝ := ((((2 : ℝ) * u) - (1 : ℝ)) * ((s / d) / (2 : ℝ)))
theorem gen_uniformNoise_eq (d s u : ℝ)  : gen_uniformNoise d s u = Smp.uniformNoise d s u := by
  unfold gen_uniformNoise
  simp only [Smp.uniformNoise]

/-- `uniform.py:Uniform.randomise` -/
noncomputable def gen_uniformReturn (x r : ℝ) : ℝ := (x + r)
theorem gen_uniformReturn_eq (x r : ℝ)  : gen_uniformReturn x r = x + r := by
  unfold gen_uniformReturn
  rfl

/-- `staircase.py:Staircase._check_gamma` -/
noncomputable def gen_stairDefaultGamma (e : ℝ) : ℝ := ((1 : ℝ) / ((1 : ℝ) + (Real.exp (e / (2 : ℝ)))))
theorem gen_stairDefaultGamma_eq (e : ℝ)  : gen_stairDefaultGamma e = Smp.stairDefaultGamma e := by
  unfold gen_stairDefaultGamma
  simp only [Smp.stairDefaultGamma, transc_exp]

/-- `staircase.py:Staircase.randomise` -/
noncomputable def gen_stairGeomP (e : ℝ) : ℝ := ((1 : ℝ) - (Real.exp (-e)))
theorem gen_stairGeomP_eq (e : ℝ)  : gen_stairGeomP e = Smp.stairGeomP e := by
  unfold gen_stairGeomP
  simp only [Smp.stairGeomP, transc_exp]

/-- `staircase.py:Staircase.randomise` -/
noncomputable def gen_stairGeomRv (k : ℝ) : ℝ := (k - (1 : ℝ))
theorem gen_stairGeomRv_eq (k : ℝ)  : gen_stairGeomRv k = k - 1 := by
  unfold gen_stairGeomRv
  rfl

/-- `staircase.py:Staircase.randomise` -/
noncomputable def gen_stairSignThr  : ℝ := ((1 : ℝ) / 2)
theorem gen_stairSignThr_eq   : gen_stairSignThr  = 1 / 2 := by
  unfold gen_stairSignThr
  rfl

/-- `staircase.py:Staircase.randomise` -/
noncomputable def gen_stairSignDraw (u : ℝ) : ℝ := u
theorem gen_stairSignDraw_eq (u : ℝ)  : gen_stairSignDraw u = u := by
  unfold gen_stairSignDraw
  rfl

/-- `staircase.py:Staircase.randomise` -/
noncomputable def gen_stairSignNeg  : ℝ := (-(1 : ℝ))
theorem gen_stairSignNeg_eq   : gen_stairSignNeg  = -1 := by
  unfold gen_stairSignNeg
  rfl

/-- `staircase.py:Staircase.randomise` -/
noncomputable def gen_stairSignPos  : ℝ := (1 : ℝ)
theorem gen_stairSignPos_eq   : gen_stairSignPos  = 1 := by
  unfold gen_stairSignPos
  rfl

/-- `staircase.py:Staircase.randomise` -/
noncomputable def gen_stairBinP (e gm : ℝ) : ℝ := (gm / (gm + (((1 : ℝ) - gm) * (Real.exp (-e)))))
theorem gen_stairBinP_eq (e gm : ℝ)  : gen_stairBinP e gm = Smp.stairBinP e gm := by
  unfold gen_stairBinP
  simp only [Smp.stairBinP, transc_exp]

/-- `staircase.py:Staircase.randomise` -/
noncomputable def gen_stairBinDraw (u : ℝ) : ℝ := u
theorem gen_stairBinDraw_eq (u : ℝ)  : gen_stairBinDraw u = u := by
  unfold gen_stairBinDraw
  rfl

/-- `staircase.py:Staircase.randomise` -/
noncomputable def gen_stairBin0  : ℝ := (0 : ℝ)
theorem gen_stairBin0_eq   : gen_stairBin0  = 0 := by
  unfold gen_stairBin0
  rfl

/-- `staircase.py:Staircase.randomise` -/
noncomputable def gen_stairBin1  : ℝ := (1 : ℝ)
theorem gen_stairBin1_eq   : gen_stairBin1  = 1 := by
  unfold gen_stairBin1
  rfl

/-- `staircase.py:Staircase.randomise` -/
noncomputable def gen_stairReturn (x sg b g u2 gm s : ℝ) : ℝ := (x + (sg * ((((1 : ℝ) - b) * ((g + (gm * u2)) * s)) + (b * (((g + gm) + (((1 : ℝ) - gm) * u2)) * s)))))
theorem gen_stairReturn_eq (x sg b g u2 gm s : ℝ)  : gen_stairReturn x sg b g u2 gm s = x + sg * ((1 - b) * ((g + gm * u2) * s) + b * ((g + gm + (1 - gm) * u2) * s)) := by
  unfold gen_stairReturn
  rfl

/-- `snapping.py:Snapping._scale_bound` -/
noncomputable def gen_snapBound0 (lo hi : ℝ) : ℝ := ((hi - lo) / (2 : ℝ))
theorem gen_snapBound0_eq (lo hi : ℝ)  : gen_snapBound0 lo hi = (hi - lo) / 2 := by
  unfold gen_snapBound0
  rfl

/-- `snapping.py:Snapping._scale_bound` -/
noncomputable def gen_snapBound1 (s lo hi : ℝ) : ℝ := (((hi - lo) / (2 : ℝ)) / s)
theorem gen_snapBound1_eq (s lo hi : ℝ)  : gen_snapBound1 s lo hi = (hi - lo) / 2 / s := by
  unfold gen_snapBound1
  rfl

/-- `snapping.py:Snapping._scale_and_offset_value` -/
noncomputable def gen_snapScaleOffset (v s B lo : ℝ) : ℝ := (((v / s) - B) - (lo / s))
theorem gen_snapScaleOffset_eq (v s B lo : ℝ)  : gen_snapScaleOffset v s B lo = v / s - B - lo / s := by
  unfold gen_snapScaleOffset
  rfl

/-- `snapping.py:Snapping._reverse_scale_and_offset_value` -/
noncomputable def gen_snapReverse (v B s lo : ℝ) : ℝ := (((v + B) * s) + lo)
theorem gen_snapReverse_eq (v B s lo : ℝ)  : gen_snapReverse v B s lo = (v + B) * s + lo := by
  unfold gen_snapReverse
  rfl

/-- `snapping.py:Snapping._round_to_nearest_power_of_2` -/
noncomputable def gen_snapRem (v lam : ℝ) : ℝ := (v - lam * ((⌊v / lam⌋ : ℤ) : ℝ))
theorem gen_snapRem_eq (v lam : ℝ)  : gen_snapRem v lam = Smp.pyMod v lam := by
  unfold gen_snapRem
  simp only [Smp.pyMod, transc_floor]

/-- `snapping.py:Snapping._round_to_nearest_power_of_2` -/
noncomputable def gen_snapRndThrLo (lam : ℝ) : ℝ := (lam / (2 : ℝ))
theorem gen_snapRndThrLo_eq (lam : ℝ)  : gen_snapRndThrLo lam = lam / 2 := by
  unfold gen_snapRndThrLo
  rfl

/-- `snapping.py:Snapping._round_to_nearest_power_of_2` -/
noncomputable def gen_snapRndThrHi (r : ℝ) : ℝ := r
theorem gen_snapRndThrHi_eq (r : ℝ)  : gen_snapRndThrHi r = r := by
  unfold gen_snapRndThrHi
  rfl

/-- `snapping.py:Snapping._round_to_nearest_power_of_2` -/
noncomputable def gen_snapRndUp (v r lam : ℝ) : ℝ := ((v - r) + lam)
theorem gen_snapRndUp_eq (v r lam : ℝ)  : gen_snapRndUp v r lam = v - r + lam := by
  unfold gen_snapRndUp
  rfl

/-- `snapping.py:Snapping._round_to_nearest_power_of_2` -/
noncomputable def gen_snapRndTie (v r : ℝ) : ℝ := (v + r)
theorem gen_snapRndTie_eq (v r : ℝ)  : gen_snapRndTie v r = v + r := by
  unfold gen_snapRndTie
  rfl

/-- `snapping.py:Snapping._round_to_nearest_power_of_2` -/
noncomputable def gen_snapRndDown (v r : ℝ) : ℝ := (v - r)
theorem gen_snapRndDown_eq (v r : ℝ)  : gen_snapRndDown v r = v - r := by
  unfold gen_snapRndDown
  rfl

/-- `base.py:TruncationAndFoldingMixin._fold` -/
noncomputable def gen_foldWidth (lo hi : ℝ) : ℝ := (hi - lo)
theorem gen_foldWidth_eq (lo hi : ℝ)  : gen_foldWidth lo hi = hi - lo := by
  unfold gen_foldWidth
  rfl

/-- `base.py:TruncationAndFoldingMixin._fold` -/
noncomputable def gen_foldMod (lo v w : ℝ) : ℝ := (lo + ((v - lo) - ((2 : ℝ) * w) * ((⌊(v - lo) / ((2 : ℝ) * w)⌋ : ℤ) : ℝ)))
theorem gen_foldMod_eq (lo v w : ℝ)  : gen_foldMod lo v w = lo + Smp.pyMod (v - lo) (2 * w) := by
  unfold gen_foldMod
  simp only [Smp.pyMod, transc_floor]

/-- `base.py:TruncationAndFoldingMixin._fold` -/
noncomputable def gen_foldReflLo (lo v : ℝ) : ℝ := (((2 : ℝ) * lo) - v)
theorem gen_foldReflLo_eq (lo v : ℝ)  : gen_foldReflLo lo v = 2 * lo - v := by
  unfold gen_foldReflLo
  rfl

/-- `base.py:TruncationAndFoldingMixin._fold` -/
noncomputable def gen_foldReflHi (hi v : ℝ) : ℝ := (((2 : ℝ) * hi) - v)
theorem gen_foldReflHi_eq (hi v : ℝ)  : gen_foldReflHi hi v = 2 * hi - v := by
  unfold gen_foldReflHi
  rfl


/-- `Laplace.randomise` as coded (pieces read from the AST) IS the model's `Smp.laplace` -/
theorem laplace_eq (e d s x u1 u2 u3 u4 : ℝ) :
    Smp.laplace e d s x u1 u2 u3 u4 = gen_laplaceReturn x (gen_laplaceScale e d s) (gen_lap4 u1 u2 u3 u4) := by
  simp only [Smp.laplace, gen_laplaceReturn, gen_laplaceScale_eq, gen_lap4_eq]

theorem gauss_eq (sc x n1 n2 : ℝ) : Smp.gauss sc x n1 n2 = gen_gaussReturn x (gen_gaussUnit0 n1 n2) sc := by
  simp only [Smp.gauss, gen_gaussReturn, gen_gaussUnit0_eq]

theorem uniform_eq (d s x u : ℝ) : Smp.uniform d s x u = gen_uniformReturn x (gen_uniformNoise d s u) := by
  simp only [Smp.uniform, gen_uniformReturn, gen_uniformNoise_eq]

/-- `Staircase.randomise` as coded IS the model's `Smp.staircase` (`g` = the geometric draw minus one) -/
theorem staircase_eq (e gm s x u1 : ℝ) (g : ℕ) (u2 u3 : ℝ) :
    Smp.staircase e gm s x u1 g u2 u3 =
      gen_stairReturn x (if gen_stairSignDraw u1 < gen_stairSignThr then gen_stairSignNeg else gen_stairSignPos)
        (if gen_stairBinDraw u3 < gen_stairBinP e gm then gen_stairBin0 else gen_stairBin1) (g : ℝ) u2 gm s := by
  simp only [Smp.staircase, Smp.stairNoise, gen_stairReturn, gen_stairSignDraw, gen_stairSignThr, gen_stairSignNeg,
    gen_stairSignPos, gen_stairBinDraw, gen_stairBinP_eq, gen_stairBin0, gen_stairBin1]
  all_goals rfl

theorem snapBound_eq (s lo hi : ℝ) :
    Smp.snapBound s lo hi = if Smp.feq s 0 then gen_snapBound0 lo hi else gen_snapBound1 s lo hi := by
  simp only [Smp.snapBound, gen_snapBound0, gen_snapBound1]
  all_goals rfl

/-- `_round_to_nearest_power_of_2` as coded (finite epsilon) IS the model's `Smp.snapRound` -/
theorem snapRound_eq (v lam : ℝ) :
    Smp.snapRound v lam =
      if gen_snapRndThrLo lam < gen_snapRndThrHi (gen_snapRem v lam) then gen_snapRndUp v (gen_snapRem v lam) lam
      else if Smp.feq (gen_snapRem v lam) (lam / 2) then gen_snapRndTie v (gen_snapRem v lam)
      else gen_snapRndDown v (gen_snapRem v lam) := by
  simp only [Smp.snapRound, gen_snapRndThrLo, gen_snapRndThrHi, gen_snapRndUp, gen_snapRndTie, gen_snapRndDown,
    gen_snapRem_eq]
  all_goals rfl

/-- the last step of `Snapping.randomise`: un-scaling as coded, between the two truncations -/
theorem snapPost_eq (e s lo hi noisy : ℝ) :
    Smp.snapPost e s lo hi noisy =
      Smp.truncate lo hi (gen_snapReverse
        (Smp.truncate (-(Smp.snapBound s lo hi)) (Smp.snapBound s lo hi)
          (Smp.snapRound noisy (Smp.Bits.nextPow2 (1 / Smp.snapEffEps e (Smp.snapBound s lo hi)))))
        (Smp.snapBound s lo hi) s lo) := by
  simp only [Smp.snapPost, gen_snapReverse]

/-- the first step of `Snapping.randomise` (sensitivity ≠ 0): scaling as coded, then the centred truncation -/
theorem snapping_clamped (e s lo hi x : ℝ) (bit bits52 : ℕ) (words : List ℕ) (hs : Smp.feq s 0 = false) :
    Smp.snapping e s lo hi x bit bits52 words =
      (Smp.snapUniform bits52 words).map (fun p : ℝ × ℕ => (Smp.snapPost e s lo hi
          (Smp.truncate (-(Smp.snapBound s lo hi)) (Smp.snapBound s lo hi)
              (gen_snapScaleOffset x s (Smp.snapBound s lo hi) lo)
            + 1 / Smp.snapEffEps e (Smp.snapBound s lo hi) * Smp.snapLaplace bit p.1), p.2)) := by
  simp only [Smp.snapping, hs, Bool.false_eq_true, ↓reduceIte, gen_snapScaleOffset]
  cases (Smp.snapUniform bits52 words : Option (ℝ × ℕ)) <;> rfl

/-- one iteration of the reflection loop of `_fold` as coded -/
theorem foldLoop_step (lo hi v : ℝ) (fuel : ℕ) :
    Smp.foldLoop lo hi (fuel + 1) v =
      if v < lo then Smp.foldLoop lo hi fuel (gen_foldReflLo lo v)
      else if hi < v then Smp.foldLoop lo hi fuel (gen_foldReflHi hi v) else v := by
  simp only [Smp.foldLoop, gen_foldReflLo, gen_foldReflHi]

/-- `_fold` as coded: single-point shortcut, the modulo step with the coded width, then the reflections -/
theorem fold_eq (lo hi v : ℝ) (fuel : ℕ) :
    Smp.fold lo hi v fuel =
      if Smp.feq lo hi then lo
      else Smp.foldLoop lo hi fuel
        (if v < lo - 2 * gen_foldWidth lo hi || hi + 2 * gen_foldWidth lo hi < v then gen_foldMod lo v (gen_foldWidth lo hi)
         else v) := by
  simp only [Smp.fold, gen_foldWidth, gen_foldMod_eq]
  all_goals rfl

end DPL.Gen.C03
