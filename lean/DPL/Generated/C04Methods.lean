/- GENERATED on every run from /repo's current diffprivlib/accountant.py (and Budget.__ge__/__le__ of utils.py) by
harness/translate/accountantir.py — do not edit. -/
import DPL.Proofs.AccountantIR
namespace DPL.Gen.C04
open DPL DPL.AccIR


def genCheck : Prog :=
  [.validate .eps .delta false, .retIf (.and (.isInf .ceilEps) (.eq .ceilDelta .one)), .raiseIf .valueError (.and (.lt .zero .eps) (.lt .eps .minEps)), .letTotal (.ownPlus .eps .delta) .own, .retIf (.and (.le .totEps .ceilEps) (.le .totDelta .ceilDelta)), .raise .budgetError]

/-- `check` as coded is the model's `check` (state untouched, same outcome), any carrier -/
theorem genCheck_ok : CheckOk genCheck := by
  unfold genCheck; acc_ir_check

def genSpend : Prog :=
  [.callCheck .eps .delta, .append .eps .delta, .ret]

/-- `spend` as coded (calling `check` as coded) is the model's `spend` step, any carrier -/
theorem genSpend_ok : SpendOk genCheck genSpend := by
  unfold genSpend; acc_ir_spend genCheck_ok

def genSetSlack : Prog :=
  [.raiseIf .valueError (.not (.and (.le .zero .argSlack) (.le .argSlack .ceilDelta))), .letTotal .own (.given .argSlack), .raiseIf .budgetError (.or (.lt .ceilEps .totEps) (.lt .ceilDelta .totDelta)), .setSlack .argSlack]

/-- the `slack` setter as coded is the model's `setSlack` step, any carrier -/
theorem genSetSlack_ok : SetSlackOk genSetSlack := by
  unfold genSetSlack; acc_ir_setslack

def getters : List (String × String) :=
  [("epsilon", "self.__epsilon"), ("delta", "self.__delta"), ("slack", "self.__slack"), ("spent_budget", "self.__spent_budget.copy()")]
/-- `self.epsilon`, `self.delta`, `self.slack` read the private attributes; `self.spent_budget` is a copy -/
theorem getters_ok : getters = handGetters := by decide

def totalReturnsBudget : Bool := true
/-- every `return` of `total()` is a `Budget(…)` (so that `>=` against it is `Budget.__ge__`) -/
theorem total_returns_budget : totalReturnsBudget = true := by decide

end DPL.Gen.C04
