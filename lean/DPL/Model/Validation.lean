/-
C13 — model of the parameter validation of diffprivlib: what Python's checks can see of a value (`PyVal`), the tests
that appear in the `if <test>: raise <Exc>` statements (`Pred`), and every validation CHAIN of the library as a list of
(test, exception) steps in evaluation order, interpreted by `runChain`.

`chainOf` / `checkAllBlocks` / `ctorBlocks` are the hand-written tables; `DPL/Generated/C13Chains.lean` is re-extracted
from /repo's sources on every run and must be equal to them.

Core Lean only (core `Rat`).
-/
namespace DPL
namespace Val

/-! ### values -/

/-- an IEEE double / Python int seen as an extended rational -/
inductive Ext where
  | nan | negInf | fin (q : Rat) | posInf
  deriving DecidableEq, Repr

namespace Ext
def zero : Ext := .fin 0
def one : Ext := .fin 1
def half : Ext := .fin (1 / 2)
/-- `2 * np.finfo(float).epsneg` = 2⁻⁵² -/
def twoEpsneg : Ext := .fin (1 / 4503599627370496)

/-- `a <= b` (False as soon as a NaN is involved) -/
def le : Ext → Ext → Bool
  | .nan, _ => false
  | _, .nan => false
  | .negInf, _ => true
  | _, .posInf => true
  | .fin a, .fin b => decide (a ≤ b)
  | .posInf, _ => false
  | .fin _, .negInf => false

/-- `a < b` -/
def lt : Ext → Ext → Bool
  | .nan, _ => false
  | _, .nan => false
  | .negInf, .negInf => false
  | .negInf, _ => true
  | .posInf, _ => false
  | .fin a, .fin b => decide (a < b)
  | .fin _, .posInf => true
  | .fin _, .negInf => false

/-- `a == b` -/
def beq : Ext → Ext → Bool
  | .fin a, .fin b => decide (a = b)
  | .posInf, .posInf => true
  | .negInf, .negInf => true
  | _, _ => false

def add : Ext → Ext → Ext
  | .nan, _ => .nan
  | _, .nan => .nan
  | .posInf, .negInf => .nan
  | .negInf, .posInf => .nan
  | .posInf, _ => .posInf
  | _, .posInf => .posInf
  | .negInf, _ => .negInf
  | _, .negInf => .negInf
  | .fin a, .fin b => .fin (a + b)

def isInf : Ext → Bool
  | .posInf => true | .negInf => true | _ => false

def isFin : Ext → Bool
  | .fin _ => true | _ => false
end Ext

/-- what the checks can see of an argument -/
inductive PyVal where
  | none                      -- None
  | str (parsed : Option Ext) -- a string; `parsed` = what `float(s)` gives (numpy's astype(float) in check_bounds)
  | complex (re : Ext)        -- a complex number `re + 1j` (non-zero, integer imaginary part)
  | bool (b : Bool)           -- Python treats it as the integer it is
  | int (n : Int)
  | flt (x : Ext)
  deriving DecidableEq, Repr

namespace PyVal
/-- `isinstance(v, numbers.Real)` and the value -/
def real? : PyVal → Option Ext
  | .bool b => some (.fin (if b then 1 else 0))
  | .int n => some (.fin n)
  | .flt x => some x
  | _ => Option.none

def isReal (v : PyVal) : Bool := v.real?.isSome

/-- `isinstance(v, numbers.Integral)` -/
def isIntegral : PyVal → Bool
  | .bool _ => true | .int _ => true | _ => false

def isStr : PyVal → Bool
  | .str _ => true | _ => false

/-- `v == c` for a numeric constant: never raises, False for non-numbers -/
def eqc (v : PyVal) (c : Ext) : Bool :=
  match v.real? with
  | some x => Ext.beq x c
  | Option.none => false
end PyVal

inductive VErr where
  | typeError | valueError | budgetError | overflowError
  deriving DecidableEq, Repr

def VErr.toString : VErr → String
  | .typeError => "typeError" | .valueError => "valueError" | .budgetError => "budgetError"
  | .overflowError => "overflowError"

/-- named arguments / attributes -/
inductive Var where
  | epsilon | delta | sensitivity | dataSensitivity | lower | upper | gamma | alpha | dimension | value
  | clip | slack | k
  deriving DecidableEq, Repr

/-- tests on structured arguments (labels, utility lists, the value to randomise, …) that the model keeps abstract:
the flag says "this test evaluates to True" -/
inductive Flag where
  | labelsNotStr | labelsEmpty | labelsEqual
  | utilNotList | utilNonReal | utilEmpty | utilInf
  | candNotList | candLen | measNotList | measNonReal | measInf | measNegative | measLen
  | valueNotNone | valueNotStr | valueNotInDomain | valueNotCallable | valueNotArray | valueBadShape
  | nLt1
  deriving DecidableEq, Repr

structure Env where
  v : Var → PyVal
  f : Flag → Bool

/-- an environment from a list of assignments (unassigned variables: the integer 1; all flags False) -/
def Env.ofList (l : List (Var × PyVal)) : Env := ⟨fun x => (l.lookup x).getD (.int 1), fun _ => false⟩

/-! ### rational helpers -/

def rabs (q : Rat) : Rat := if q < 0 then -q else q

/-- `np.round` (half to even) -/
def roundHalfEven (q : Rat) : Int :=
  let fl := q.floor
  let d := q - fl
  if d < 1 / 2 then fl else if 1 / 2 < d then fl + 1 else if fl % 2 = 0 then fl else fl + 1

/-- `int(q)` (truncation toward zero) -/
def truncInt (q : Rat) : Int := if 0 ≤ q then q.floor else -((-q).floor)

/-- `np.isclose(a, b)` with the default tolerances -/
def isclose (a b : Rat) : Bool := decide (rabs (a - b) ≤ 1 / 100000000 + 1 / 100000 * rabs b)

/-- `np.isclose(2 * x, np.round(2 * x))` -/
def halfIntClose : Ext → Bool
  | .nan => false
  | .posInf => true
  | .negInf => true
  | .fin q => isclose (2 * q) (roundHalfEven (2 * q))

/-! ### tests -/

inductive Pred where
  | notRealEither (a b : Var)        -- not isinstance(a, Real) or not isinstance(b, Real)
  | notReal (a : Var)                -- not isinstance(a, Real)
  | notIntegral (a : Var)            -- not isinstance(a, Integral)
  | notGe0 (a : Var)                 -- not a >= 0
  | notIn01 (a : Var)                -- not 0 <= a <= 1
  | sumEq0 (a b : Var)               -- a + b == 0
  | notEq0 (a : Var)                 -- not a == 0
  | eq0Either (a b : Var)            -- a == 0 or b == 0
  | eq0 (a : Var)                    -- a == 0
  | realAndGt1 (a : Var)             -- isinstance(a, Real) and a > 1.0
  | realAndNotIn0Half (a : Var)      -- isinstance(a, Real) and not 0 < a < 0.5
  | notIn0HalfClosed (a : Var)       -- not 0 < a <= 0.5
  | leTwoEpsneg (a : Var)            -- a <= 2 * np.finfo(float).epsneg
  | gt (a b : Var)                   -- a > b
  | le0 (a : Var)                    -- a <= 0
  | notIn0Bound (a b : Var)          -- not 0 <= a <= b        (slack against the accountant's delta)
  | lt1 (a : Var)                    -- a < 1                  (remaining(k))
  | notFiniteDiff (a b : Var)        -- not np.isfinite(a - b)  (Snapping: upper - lower)
  | notIntegralNotInf (a : Var)      -- not isinstance(a, Integral) and abs(a) != float("inf")
  | notHalfIntEither (a b : Var)     -- not isclose(2a, round(2a)) or not isclose(2b, round(2b))
  | dimNotInt (a : Var)              -- not isinstance(a, Real) or not np.isclose(a, int(a))
  | dimLt1 (a : Var)                 -- int(a) < 1
  | flag (f : Flag)
  deriving DecidableEq, Repr

/-- an ordering comparison needs a number: anything else raises TypeError -/
def needReal (v : PyVal) : Except VErr Ext :=
  match v.real? with
  | some x => .ok x
  | Option.none => .error .typeError

/-- `np.isclose(2 * v, np.round(2 * v))` on an arbitrary argument: `2 * None` and `np.round('11')` raise TypeError; a
complex number (the catalogue's `1j`: integer imaginary part) is rounded componentwise, so only its real part matters
and nothing is raised here (the `isinstance(…, Real)` test that follows refuses it) -/
def halfIntView : PyVal → Except VErr Bool
  | .complex re => .ok (halfIntClose re)
  | v => (needReal v).map halfIntClose

def Pred.eval (env : Env) : Pred → Except VErr Bool
  | .notRealEither a b => .ok (!(env.v a).isReal || !(env.v b).isReal)
  | .notReal a => .ok (!(env.v a).isReal)
  | .notIntegral a => .ok (!(env.v a).isIntegral)
  | .notGe0 a => (needReal (env.v a)).map fun x => !(Ext.le .zero x)
  | .notIn01 a => (needReal (env.v a)).map fun x => !(Ext.le .zero x && Ext.le x .one)
  | .sumEq0 a b => do
      let x ← needReal (env.v a)
      let y ← needReal (env.v b)
      return Ext.beq (Ext.add x y) .zero
  | .notEq0 a => .ok (!((env.v a).eqc .zero))
  | .eq0Either a b => .ok ((env.v a).eqc .zero || (env.v b).eqc .zero)
  | .eq0 a => .ok ((env.v a).eqc .zero)
  | .realAndGt1 a => .ok (match (env.v a).real? with | some x => Ext.lt .one x | Option.none => false)
  | .realAndNotIn0Half a =>
      .ok (match (env.v a).real? with | some x => !(Ext.lt .zero x && Ext.lt x .half) | Option.none => false)
  | .notIn0HalfClosed a => (needReal (env.v a)).map fun x => !(Ext.lt .zero x && Ext.le x .half)
  | .leTwoEpsneg a => (needReal (env.v a)).map fun x => Ext.le x .twoEpsneg
  | .gt a b => do
      let x ← needReal (env.v a)
      let y ← needReal (env.v b)
      return Ext.lt y x
  | .le0 a => (needReal (env.v a)).map fun x => Ext.le x .zero
  | .notIn0Bound a b => do
      let x ← needReal (env.v a)
      if !(Ext.le .zero x) then return true      -- `0 <= a` False: the chained comparison stops here
      let y ← needReal (env.v b)
      return !(Ext.le x y)
  | .lt1 a => (needReal (env.v a)).map fun x => Ext.lt x .one
  | .notFiniteDiff a b => do
      let x ← needReal (env.v a)
      let y ← needReal (env.v b)
      return !(x.isFin && y.isFin)                              -- inf - inf = nan, nan - x = nan: not finite
  | .notIntegralNotInf a =>
      if (env.v a).isIntegral then .ok false
      else (needReal (env.v a)).map fun x => !x.isInf          -- abs(None) / abs('1'): TypeError
  | .notHalfIntEither a b => do
      let x ← halfIntView (env.v a)
      if !x then return true
      let y ← halfIntView (env.v b)
      return !y
  | .dimNotInt a =>
      match (env.v a).real? with
      | Option.none => .ok true
      | some .nan => .error .valueError                          -- int(nan)
      | some .posInf => .error .overflowError                    -- int(inf)
      | some .negInf => .error .overflowError
      | some (.fin q) => .ok (!(isclose q (truncInt q)))
  | .dimLt1 a =>
      match (env.v a).real? with
      | some (.fin q) => .ok (decide (truncInt q < 1))
      | some .nan => .error .valueError
      | some _ => .error .overflowError
      | Option.none => .error .typeError
  | .flag f => .ok (env.f f)

structure Step where
  pred : Pred
  err : VErr
  deriving DecidableEq, Repr

abbrev Chain := List Step

/-- `if <test>: raise <Exc>` for every step in order; a test that raises by itself propagates its own exception -/
def runChain (env : Env) : Chain → Except VErr Unit
  | [] => .ok ()
  | s :: rest =>
    match s.pred.eval env with
    | .error e => .error e
    | .ok true => .error s.err
    | .ok false => runChain env rest

/-! ### the chains of the library -/

inductive Mech where
  | Binary | Bingham | Exponential | PermuteAndFlip | ExponentialCategorical | ExponentialHierarchical
  | Gaussian | GaussianAnalytic | GaussianDiscrete | Geometric | GeometricTruncated | GeometricFolded
  | Laplace | LaplaceTruncated | LaplaceFolded | LaplaceBoundedDomain | LaplaceBoundedNoise
  | Snapping | Staircase | Uniform | Vector
  deriving DecidableEq, Repr

def allMechs : List Mech :=
  [.Binary, .Bingham, .Exponential, .PermuteAndFlip, .ExponentialCategorical, .ExponentialHierarchical,
   .Gaussian, .GaussianAnalytic, .GaussianDiscrete, .Geometric, .GeometricTruncated, .GeometricFolded,
   .Laplace, .LaplaceTruncated, .LaplaceFolded, .LaplaceBoundedDomain, .LaplaceBoundedNoise,
   .Snapping, .Staircase, .Uniform, .Vector]

/-- the `_check_*` methods (after resolving `super()` along the MRO) and the inline tests of `_check_all` -/
inductive Block where
  | epsDelta      -- _check_epsilon_delta
  | sensitivity   -- _check_sensitivity
  | bounds        -- _check_bounds
  | labels        -- Binary._check_labels
  | utility       -- Exponential._check_utility_candidates_measure
  | gamma         -- Staircase._check_gamma
  | alpha         -- Vector._check_alpha
  | dimension     -- Vector._check_dimension
  | nLt1          -- Vector: `if self.n < 1`
  | value         -- the tests on the value to be randomised
  deriving DecidableEq, Repr

open Pred Var VErr in
/-- `DPMechanism._check_epsilon_delta` -/
def baseEpsDelta : Chain :=
  [⟨notRealEither epsilon delta, typeError⟩, ⟨notGe0 epsilon, valueError⟩, ⟨notIn01 delta, valueError⟩,
   ⟨sumEq0 epsilon delta, valueError⟩]

open Pred Var VErr in
/-- `if not delta == 0: raise ValueError("Delta must be zero")` followed by the base chain -/
def pureEpsDelta : Chain := ⟨notEq0 delta, valueError⟩ :: baseEpsDelta

open Pred Var VErr in
def realSens : Chain := [⟨notReal sensitivity, typeError⟩, ⟨notGe0 sensitivity, valueError⟩]

open Pred Var VErr in
def intSens : Chain := [⟨notIntegral sensitivity, typeError⟩, ⟨notGe0 sensitivity, valueError⟩]

open Pred Var VErr in
/-- `TruncationAndFoldingMixin._check_bounds` -/
def baseBounds : Chain := [⟨notRealEither lower upper, typeError⟩, ⟨gt lower upper, valueError⟩]

open Pred Var VErr Flag in
def chainOf : Mech → Block → Chain
  -- _check_epsilon_delta
  | .Gaussian, .epsDelta =>
    ⟨eq0Either epsilon delta, valueError⟩ :: ⟨realAndGt1 epsilon, valueError⟩ :: baseEpsDelta
  | .GaussianAnalytic, .epsDelta => ⟨eq0Either epsilon delta, valueError⟩ :: baseEpsDelta
  | .GaussianDiscrete, .epsDelta => ⟨eq0Either epsilon delta, valueError⟩ :: baseEpsDelta
  | .Laplace, .epsDelta => baseEpsDelta
  | .LaplaceTruncated, .epsDelta => baseEpsDelta
  | .LaplaceFolded, .epsDelta => baseEpsDelta
  | .LaplaceBoundedDomain, .epsDelta => baseEpsDelta
  | .LaplaceBoundedNoise, .epsDelta =>
    ⟨eq0 epsilon, valueError⟩ :: ⟨realAndNotIn0Half delta, valueError⟩ :: baseEpsDelta
  | .Uniform, .epsDelta => ⟨notEq0 epsilon, valueError⟩ :: ⟨notIn0HalfClosed delta, valueError⟩ :: baseEpsDelta
  | .Snapping, .epsDelta => pureEpsDelta ++ [⟨leTwoEpsneg epsilon, valueError⟩]
  | _, .epsDelta => pureEpsDelta      -- Binary, Bingham, Exponential*, PermuteAndFlip, Geometric*, Staircase, Vector
  -- _check_sensitivity
  | .Binary, .sensitivity => []
  | .ExponentialCategorical, .sensitivity => []
  | .ExponentialHierarchical, .sensitivity => []
  | .GaussianDiscrete, .sensitivity => intSens
  | .Geometric, .sensitivity => intSens
  | .GeometricTruncated, .sensitivity => intSens
  | .GeometricFolded, .sensitivity => intSens
  | .Vector, .sensitivity =>
    [⟨notRealEither sensitivity dataSensitivity, typeError⟩, ⟨notGe0 sensitivity, valueError⟩,
     ⟨notGe0 dataSensitivity, valueError⟩]
  | _, .sensitivity => realSens
  -- _check_bounds
  | .GeometricTruncated, .bounds =>
    ⟨notIntegralNotInf lower, typeError⟩ :: ⟨notIntegralNotInf upper, typeError⟩ :: baseBounds
  | .GeometricFolded, .bounds => ⟨notHalfIntEither lower upper, valueError⟩ :: baseBounds
  | .LaplaceTruncated, .bounds => baseBounds
  | .LaplaceFolded, .bounds => baseBounds
  | .LaplaceBoundedDomain, .bounds => baseBounds
  | .Snapping, .bounds => baseBounds ++ [⟨notFiniteDiff upper lower, valueError⟩]
  | _, .bounds => []
  | .Binary, .labels => [⟨flag labelsNotStr, typeError⟩, ⟨flag labelsEmpty, valueError⟩, ⟨flag labelsEqual, valueError⟩]
  | _, .labels => []
  | .Exponential, .utility =>
    [⟨flag utilNotList, typeError⟩, ⟨flag utilNonReal, typeError⟩, ⟨flag utilEmpty, valueError⟩,
     ⟨flag utilInf, valueError⟩, ⟨flag candNotList, typeError⟩, ⟨flag candLen, valueError⟩,
     ⟨flag measNotList, typeError⟩, ⟨flag measNonReal, typeError⟩, ⟨flag measInf, valueError⟩,
     ⟨flag measNegative, valueError⟩, ⟨flag measLen, valueError⟩]
  | .PermuteAndFlip, .utility =>
    [⟨flag utilNotList, typeError⟩, ⟨flag utilNonReal, typeError⟩, ⟨flag utilEmpty, valueError⟩,
     ⟨flag utilInf, valueError⟩, ⟨flag candNotList, typeError⟩, ⟨flag candLen, valueError⟩,
     ⟨flag measNotList, typeError⟩, ⟨flag measNonReal, typeError⟩, ⟨flag measInf, valueError⟩,
     ⟨flag measNegative, valueError⟩, ⟨flag measLen, valueError⟩]
  | _, .utility => []
  | .Staircase, .gamma => [⟨notReal gamma, typeError⟩, ⟨notIn01 gamma, valueError⟩]
  | _, .gamma => []
  | .Vector, .alpha => [⟨notReal alpha, typeError⟩, ⟨le0 alpha, valueError⟩]
  | _, .alpha => []
  | .Vector, .dimension => [⟨dimNotInt dimension, typeError⟩, ⟨dimLt1 dimension, valueError⟩]
  | _, .dimension => []
  | .Vector, .nLt1 => [⟨flag Flag.nLt1, valueError⟩]
  | _, .nLt1 => []
  -- tests on the value inside `_check_all`
  | .Binary, .value => [⟨flag valueNotStr, typeError⟩, ⟨flag valueNotInDomain, valueError⟩]
  | .ExponentialCategorical, .value => [⟨flag valueNotStr, typeError⟩, ⟨flag valueNotInDomain, valueError⟩]
  | .ExponentialHierarchical, .value => [⟨flag valueNotStr, typeError⟩, ⟨flag valueNotInDomain, valueError⟩]
  | .Bingham, .value => [⟨flag valueNotArray, typeError⟩, ⟨flag valueBadShape, valueError⟩]
  | .Exponential, .value => [⟨flag valueNotNone, valueError⟩]
  | .PermuteAndFlip, .value => [⟨flag valueNotNone, valueError⟩]
  | .GaussianDiscrete, .value => [⟨notIntegral value, typeError⟩]
  | .Geometric, .value => [⟨notIntegral value, typeError⟩]
  | .GeometricTruncated, .value => [⟨notIntegral value, typeError⟩]
  | .GeometricFolded, .value => [⟨notIntegral value, typeError⟩]
  | .Vector, .value => [⟨flag valueNotCallable, typeError⟩]
  | _, .value => [⟨notReal value, typeError⟩]

/-- order in which `_check_all` (the first statement of every `randomise`) runs the blocks -/
def checkAllBlocks : Mech → List Block
  | .Binary => [.epsDelta, .labels, .value]
  | .Bingham => [.epsDelta, .sensitivity, .value]
  | .Exponential => [.epsDelta, .sensitivity, .utility, .value]
  | .PermuteAndFlip => [.epsDelta, .sensitivity, .utility, .value]
  | .ExponentialCategorical => [.epsDelta, .value]
  | .ExponentialHierarchical => [.epsDelta, .value]
  | .Gaussian => [.epsDelta, .sensitivity, .value]
  | .GaussianAnalytic => [.epsDelta, .sensitivity, .value]
  | .GaussianDiscrete => [.epsDelta, .sensitivity, .value]
  | .Geometric => [.epsDelta, .sensitivity, .value]
  | .GeometricTruncated => [.epsDelta, .sensitivity, .value, .bounds]
  | .GeometricFolded => [.epsDelta, .sensitivity, .value, .bounds]
  | .Laplace => [.epsDelta, .sensitivity, .value]
  | .LaplaceTruncated => [.epsDelta, .sensitivity, .value, .bounds]
  | .LaplaceFolded => [.epsDelta, .sensitivity, .value, .bounds]
  | .LaplaceBoundedDomain => [.epsDelta, .sensitivity, .value, .bounds]
  | .LaplaceBoundedNoise => [.epsDelta, .sensitivity, .value]
  | .Snapping => [.epsDelta, .sensitivity, .value, .bounds]
  | .Staircase => [.epsDelta, .sensitivity, .value, .gamma]
  | .Uniform => [.epsDelta, .sensitivity, .value]
  | .Vector => [.epsDelta, .alpha, .sensitivity, .dimension, .nLt1, .value]

/-- order in which the constructor runs the blocks -/
def ctorBlocks : Mech → List Block
  | .Binary => [.epsDelta, .labels]
  | .Bingham => [.epsDelta, .sensitivity]
  | .Exponential => [.epsDelta, .sensitivity, .utility]
  | .PermuteAndFlip => [.epsDelta, .sensitivity, .utility]
  | .ExponentialCategorical => [.epsDelta]
  | .ExponentialHierarchical => [.epsDelta]
  | .Gaussian => [.epsDelta, .sensitivity]
  | .GaussianAnalytic => [.epsDelta, .sensitivity]
  | .GaussianDiscrete => [.epsDelta, .sensitivity]
  | .Geometric => [.epsDelta, .sensitivity]
  | .GeometricTruncated => [.epsDelta, .sensitivity, .bounds]
  | .GeometricFolded => [.epsDelta, .sensitivity, .bounds]
  | .Laplace => [.epsDelta, .sensitivity]
  | .LaplaceTruncated => [.epsDelta, .sensitivity, .bounds]
  | .LaplaceFolded => [.epsDelta, .sensitivity, .bounds]
  | .LaplaceBoundedDomain => [.epsDelta, .sensitivity, .bounds]
  | .LaplaceBoundedNoise => [.epsDelta, .sensitivity]
  | .Snapping => [.epsDelta, .sensitivity, .bounds]
  | .Staircase => [.epsDelta, .sensitivity, .gamma]
  | .Uniform => [.epsDelta, .sensitivity]
  | .Vector => [.epsDelta, .sensitivity, .dimension, .alpha]

def blocksChain (m : Mech) (bs : List Block) : Chain := bs.flatMap (chainOf m)

/-- the constant a constructor passes up to `DPMechanism.__init__` for the parameter the class does not expose -/
def ctorFix : Mech → Option (Var × PyVal)
  | .Binary => some (.delta, .flt .zero)
  | .Bingham => some (.delta, .int 0)
  | .Exponential => some (.delta, .flt .zero)
  | .PermuteAndFlip => some (.delta, .flt .zero)
  | .ExponentialCategorical => some (.delta, .flt .zero)
  | .ExponentialHierarchical => some (.delta, .flt .zero)
  | .Geometric => some (.delta, .flt .zero)
  | .GeometricTruncated => some (.delta, .flt .zero)
  | .GeometricFolded => some (.delta, .flt .zero)
  | .Snapping => some (.delta, .flt .zero)
  | .Staircase => some (.delta, .int 0)
  | .Vector => some (.delta, .flt .zero)
  | .Uniform => some (.epsilon, .flt .zero)
  | _ => Option.none

/-- what the constructor's checks see: the fixed constant of `ctorFix`; for Staircase `gamma=None` is replaced by
1 / (1 + exp(epsilon / 2)) ∈ [0, 1/2] before it is checked -/
def ctorEnv (m : Mech) (env : Env) : Env :=
  let env1 : Env := match ctorFix m with
    | some (x, v) => { env with v := fun y => if y = x then v else env.v y }
    | Option.none => env
  if m = .Staircase ∧ env.v .gamma = .none then
    { env1 with v := fun y => if y = .gamma then .flt .half else env1.v y }
  else env1

/-- `Mech(**params)`: result kind of the validation performed by the constructor -/
def construct (m : Mech) (env : Env) : Except VErr Unit := runChain (ctorEnv m env) (blocksChain m (ctorBlocks m))

/-- `mech.randomise(value)` after arbitrary attribute assignment: `_check_all` is its first statement -/
def randomiseCheck (m : Mech) (env : Env) : Except VErr Unit := runChain env (blocksChain m (checkAllBlocks m))

/-! ### validation.py, utils.Budget, the accountant -/

open Pred Var VErr in
/-- `validation.check_epsilon_delta(epsilon, delta, allow_zero)` -/
def checkEpsilonDelta (allowZero : Bool) : Chain :=
  [⟨notRealEither epsilon delta, typeError⟩, ⟨notGe0 epsilon, valueError⟩, ⟨notIn01 delta, valueError⟩] ++
    (if allowZero then [] else [⟨sumEq0 epsilon delta, valueError⟩])

open Pred Var VErr in
/-- `Budget.__new__` -/
def budgetNew : Chain := [⟨notGe0 epsilon, valueError⟩, ⟨notIn01 delta, valueError⟩]

open Pred Var VErr in
/-- the `clip` tests of `validation.clip_to_norm` -/
def clipChain : Chain := [⟨notReal clip, typeError⟩, ⟨le0 clip, valueError⟩]

open Pred Var VErr in
/-- the `slack` setter: `if not 0 <= slack <= self.delta` -/
def slackChain : Chain := [⟨notIn0Bound slack delta, valueError⟩]

open Pred Var VErr in
/-- `remaining(k)` -/
def remainingChain : Chain := [⟨notIntegral k, typeError⟩, ⟨lt1 k, valueError⟩]

/-- numpy's `np.ravel(x).astype(float)` on one bound of `validation.check_bounds` -/
def asFloat : PyVal → Except VErr Ext
  | .none => .ok .nan                       -- np.ravel(None).astype(float) = [nan]
  | .str Option.none => .error .valueError  -- could not convert string to float
  | .str (some x) => .ok x                  -- a numeric string IS converted
  | .complex re => .ok re                   -- ComplexWarning, imaginary part discarded
  | .bool b => .ok (.fin (if b then 1 else 0))
  | .int n => .ok (.fin n)
  | .flt x => .ok x

/-- `validation.check_bounds((lower, upper))` for scalar bounds (min_separation = 0) -/
def checkBounds (lower upper : PyVal) : Except VErr (Ext × Ext) := do
  let l ← asFloat lower
  let u ← asFloat upper
  if Ext.lt u l then throw .valueError      -- `_lower > _upper`
  return (l, u)

/-- the slack-free fragment of the accountant, over exact extended rationals -/
structure AccV where
  ceilEps : Ext
  ceilDelta : Ext
  spent : List (Ext × Ext)

def Ext.mulSub (p d : Ext) : Ext :=
  -- prod + (d - prod * d) for finite operands in [0, 1]
  match p, d with
  | .fin a, .fin b => .fin (a + (b - a * b))
  | _, _ => .nan

def AccV.total (spent : List (Ext × Ext)) : Ext × Ext :=
  (spent.foldl (fun s x => Ext.add s x.1) .zero, spent.foldl (fun p x => Ext.mulSub p x.2) .zero)

/-- `check(epsilon, delta)` -/
def AccV.check (a : AccV) (env : Env) : Except VErr Unit := do
  runChain env (checkEpsilonDelta false)
  let e ← needReal (env.v .epsilon)
  let d ← needReal (env.v .delta)
  if a.ceilEps == .posInf && Ext.beq a.ceilDelta .one then return ()
  -- `if 0 < epsilon < self.__min_epsilon` with min_epsilon = ceiling * 1e-14 (0 for an infinite ceiling)
  match a.ceilEps with
  | .fin c => if Ext.lt .zero e && Ext.lt e (.fin (c / 100000000000000)) then throw .valueError
  | _ => pure ()
  let t := AccV.total (a.spent ++ [(e, d)])
  if Ext.le t.1 a.ceilEps && Ext.le t.2 a.ceilDelta then return () else throw .budgetError

/-- `spend(epsilon, delta)` -/
def AccV.spend (a : AccV) (env : Env) : Except VErr AccV := do
  a.check env
  let e ← needReal (env.v .epsilon)
  let d ← needReal (env.v .delta)
  return { a with spent := a.spent ++ [(e, d)] }

/-- an environment that binds only epsilon and delta -/
def pairEnv (e d : PyVal) : Env := ⟨fun x => if x = .epsilon then e else if x = .delta then d else .int 1, fun _ => false⟩

/-- `BudgetAccountant(epsilon, delta, spent_budget=prior)` with slack 0: the ceiling is validated, then EVERY prior
entry goes through `spend` (hence through `check`), in order -/
def AccV.new (ceilEps ceilDelta : PyVal) (prior : List (PyVal × PyVal)) : Except VErr AccV := do
  runChain (pairEnv ceilEps ceilDelta) (checkEpsilonDelta false)
  let ce ← needReal ceilEps
  let cd ← needReal ceilDelta
  prior.foldlM (fun a p => a.spend (pairEnv p.1 p.2)) ⟨ce, cd, []⟩

/-- `for epsilon, delta in spent_budget: check_epsilon_delta(epsilon, delta)` -/
def validateItems : List (PyVal × PyVal) → Except VErr Unit
  | [] => .ok ()
  | p :: rest =>
    match runChain (pairEnv p.1 p.2) (checkEpsilonDelta false) with
    | .error e => .error e
    | .ok _ => validateItems rest

/-- the validation performed by `total(spent_budget=items, slack=slack)` on an accountant in ANY state: every item of
the caller-supplied list goes through `check_epsilon_delta`, in order, then the slack (when given) is range-checked
against the accountant's delta -/
def AccV.totalGiven (a : AccV) (items : List (PyVal × PyVal)) (slack : Option PyVal) : Except VErr Unit := do
  validateItems items
  match slack with
  | Option.none => pure ()
  | some sl =>
    runChain ⟨fun x => if x = .slack then sl else if x = .delta then .flt a.ceilDelta else .int 1, fun _ => false⟩
      slackChain

/-- a tool / estimator entry: `check_bounds(bounds)` (when it has bounds) and `accountant.check(epsilon, 0)` precede
every mechanism call -/
def toolEntry (a : AccV) (bounds : Option (PyVal × PyVal)) (env : Env) : Except VErr Unit := do
  match bounds with
  | some (l, u) => let _ ← checkBounds l u
  | Option.none => pure ()
  a.check { env with v := fun x => if x = .delta then .int 0 else env.v x }

/-! ### the chain as it was before the repair 5b4c2f9 (regression witness) -/

open Pred Var VErr in
/-- `if epsilon < 0` instead of `if not epsilon >= 0` -/
inductive OldPred where
  | lt0 (a : Var)

def OldPred.eval (env : Env) : OldPred → Except VErr Bool
  | .lt0 a => (needReal (env.v a)).map fun x => Ext.lt x .zero

/-- old base chain on numeric arguments: epsilon < 0, not 0 <= delta <= 1, epsilon + delta == 0 -/
def oldBaseAccepts (e d : Ext) : Bool :=
  !(Ext.lt e .zero) && (Ext.le .zero d && Ext.le d .one) && !(Ext.beq (Ext.add e d) .zero)

end Val
end DPL

/-! ### the DOCUMENTED ranges, stated independently of the chains -/
namespace DPL
namespace Val

namespace Ext
/-- `x ≥ 0` and not NaN -/
def Nonneg : Ext → Prop
  | .fin q => 0 ≤ q | .posInf => True | _ => False
/-- `0 ≤ x ≤ 1` -/
def In01 : Ext → Prop
  | .fin q => 0 ≤ q ∧ q ≤ 1 | _ => False
def IsZero : Ext → Prop
  | .fin q => q = 0 | _ => False
/-- `x > 0` -/
def Pos : Ext → Prop
  | .fin q => 0 < q | .posInf => True | _ => False
/-- `x ≤ 0` (False for NaN) -/
def Nonpos : Ext → Prop
  | .fin q => q ≤ 0 | .negInf => True | _ => False
def LeOne : Ext → Prop
  | .fin q => q ≤ 1 | .negInf => True | _ => False
def LtHalf : Ext → Prop
  | .fin q => q < 1 / 2 | .negInf => True | _ => False
def LeHalf : Ext → Prop
  | .fin q => q ≤ 1 / 2 | .negInf => True | _ => False
/-- `x > 2⁻⁵²` -/
def GtTwoEpsneg : Ext → Prop
  | .fin q => 1 / 4503599627370496 < q | .posInf => True | _ => False
/-- `a > b` (False as soon as a NaN is involved) -/
def Gt : Ext → Ext → Prop
  | .fin a, .fin b => b < a
  | .posInf, .fin _ => True
  | .posInf, .negInf => True
  | .fin _, .negInf => True
  | _, _ => False
end Ext

/-- the range of (epsilon, delta) each class documents on top of the general one -/
def classRange : Mech → Ext → Ext → Prop
  | .Gaussian, x, y => ¬ x.IsZero ∧ ¬ y.IsZero ∧ x.LeOne          -- classical Gaussian: 0 < epsilon ≤ 1, delta > 0
  | .GaussianAnalytic, x, y => ¬ x.IsZero ∧ ¬ y.IsZero
  | .GaussianDiscrete, x, y => ¬ x.IsZero ∧ ¬ y.IsZero
  | .Laplace, _, _ => True
  | .LaplaceTruncated, _, _ => True
  | .LaplaceFolded, _, _ => True
  | .LaplaceBoundedDomain, _, _ => True
  | .LaplaceBoundedNoise, x, y => ¬ x.IsZero ∧ y.Pos ∧ y.LtHalf  -- epsilon > 0, 0 < delta < 1/2
  | .Uniform, x, y => x.IsZero ∧ y.Pos ∧ y.LeHalf                -- epsilon = 0, 0 < delta ≤ 1/2
  | .Snapping, x, y => y.IsZero ∧ x.GtTwoEpsneg                  -- pure, epsilon above twice the machine epsilon
  | _, _, y => y.IsZero                                          -- pure mechanisms: delta = 0

/-- epsilon ≥ 0 and not NaN, delta ∈ [0, 1], not both zero, both numbers, and the class's own range -/
def ValidEpsDelta (m : Mech) (env : Env) : Prop :=
  ∃ x y, (env.v .epsilon).real? = some x ∧ (env.v .delta).real? = some y ∧
    x.Nonneg ∧ y.In01 ∧ ¬ (x.IsZero ∧ y.IsZero) ∧ classRange m x y

def realNonneg (v : PyVal) : Prop := ∃ x, v.real? = some x ∧ x.Nonneg

/-- sensitivity: a non-negative number (an integer for the integer-valued mechanisms), not NaN -/
def ValidSens : Mech → Env → Prop
  | .Binary, _ => True
  | .ExponentialCategorical, _ => True
  | .ExponentialHierarchical, _ => True
  | .GaussianDiscrete, env => (env.v .sensitivity).isIntegral = true ∧ realNonneg (env.v .sensitivity)
  | .Geometric, env => (env.v .sensitivity).isIntegral = true ∧ realNonneg (env.v .sensitivity)
  | .GeometricTruncated, env => (env.v .sensitivity).isIntegral = true ∧ realNonneg (env.v .sensitivity)
  | .GeometricFolded, env => (env.v .sensitivity).isIntegral = true ∧ realNonneg (env.v .sensitivity)
  | .Vector, env => realNonneg (env.v .sensitivity) ∧ realNonneg (env.v .dataSensitivity)
  | _, env => realNonneg (env.v .sensitivity)

/-- both bounds are numbers and the lower one is not above the upper one (silent about NaN, see the header of
`harness/props/c13.py`: the property lists "lower bound above upper bound") -/
def baseBoundsOk (env : Env) : Prop :=
  ∃ l u, (env.v .lower).real? = some l ∧ (env.v .upper).real? = some u ∧ ¬ l.Gt u

def integralOrInf (v : PyVal) : Prop := v.isIntegral = true ∨ ∃ x, v.real? = some x ∧ x.isInf = true

def ValidBounds : Mech → Env → Prop
  | .GeometricTruncated, env => integralOrInf (env.v .lower) ∧ integralOrInf (env.v .upper) ∧ baseBoundsOk env
  | .GeometricFolded, env =>
    -- "integer or half-integer" with numpy's `isclose` tolerance, exactly as documented by the error message
    (∃ l u, (env.v .lower).real? = some l ∧ (env.v .upper).real? = some u ∧
      halfIntClose l = true ∧ halfIntClose u = true) ∧ baseBoundsOk env
  | .LaplaceTruncated, env => baseBoundsOk env
  | .LaplaceFolded, env => baseBoundsOk env
  | .LaplaceBoundedDomain, env => baseBoundsOk env
  | .Snapping, env =>
    baseBoundsOk env ∧ ∃ l u, (env.v .lower).real? = some l ∧ (env.v .upper).real? = some u ∧
      l.isFin = true ∧ u.isFin = true
  | _, _ => True

/-- the remaining numeric parameters: Staircase gamma ∈ [0, 1]; Vector alpha a number that is not `≤ 0` (silent about
NaN: not in the property's list), Vector dimension an integer-valued number ≥ 1 -/
def ValidOther : Mech → Env → Prop
  | .Staircase, env => ∃ g, (env.v .gamma).real? = some g ∧ g.In01
  | .Vector, env =>
    (∃ a, (env.v .alpha).real? = some a ∧ ¬ a.Nonpos) ∧
    (∃ q, (env.v .dimension).real? = some (.fin q) ∧ isclose q (truncInt q) = true ∧ 1 ≤ truncInt q)
  | _, _ => True

/-- structured parameters: every test on them is False -/
def ValidStructured : Mech → Env → Prop
  | .Binary, env => env.f .labelsNotStr = false ∧ env.f .labelsEmpty = false ∧ env.f .labelsEqual = false
  | .Exponential, env =>
    env.f .utilNotList = false ∧ env.f .utilNonReal = false ∧ env.f .utilEmpty = false ∧ env.f .utilInf = false ∧
    env.f .candNotList = false ∧ env.f .candLen = false ∧ env.f .measNotList = false ∧ env.f .measNonReal = false ∧
    env.f .measInf = false ∧ env.f .measNegative = false ∧ env.f .measLen = false
  | .PermuteAndFlip, env =>
    env.f .utilNotList = false ∧ env.f .utilNonReal = false ∧ env.f .utilEmpty = false ∧ env.f .utilInf = false ∧
    env.f .candNotList = false ∧ env.f .candLen = false ∧ env.f .measNotList = false ∧ env.f .measNonReal = false ∧
    env.f .measInf = false ∧ env.f .measNegative = false ∧ env.f .measLen = false
  | _, _ => True

/-- the parameters of mechanism class `m` are within their documented ranges -/
def Valid (m : Mech) (env : Env) : Prop :=
  ValidEpsDelta m env ∧ ValidSens m env ∧ ValidBounds m env ∧ ValidOther m env ∧ ValidStructured m env

/-- (epsilon, delta) acceptable to `validation.check_epsilon_delta` / the accountant -/
def ValidBudget (allowZero : Bool) (env : Env) : Prop :=
  ∃ x y, (env.v .epsilon).real? = some x ∧ (env.v .delta).real? = some y ∧
    x.Nonneg ∧ y.In01 ∧ (allowZero = false → ¬ (x.IsZero ∧ y.IsZero))

end Val
end DPL
