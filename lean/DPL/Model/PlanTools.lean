/-
Release plans of the statistics tools (C07, C09; the tool half of C06), transcribed from
  diffprivlib/tools/utils.py       _mean / _var / _std / _sum (nan = False / True), count_nonzero, _wrap_axis
  diffprivlib/tools/histograms.py  histogram, histogramdd (histogram2d = histogramdd on two columns)
  diffprivlib/tools/quantiles.py   quantile (percentile, median are thin wrappers)
  diffprivlib/validation.py        clip_to_bounds (the scalar-bounds path the tools use), check_bounds(min_separation)
AS THE CODE IS AT HEAD (after the `fix:` commits).  Generic numeric carrier, core Lean only.

Conventions
* a scalar tool sees the ravelled array: `δ = List α`; the nan-variants see `List (Option α)` (`none` = NaN), so that
  the same definitions make sense over ℝ, which has no NaN;
* `n` (= `array.size`) is shape information and is passed to the plan separately from the data: the plan's call
  parameters are functions of caller parameters and shape only (this is what the `Plan` type enforces);
* a multi-cell query (`axis=` / `keepdims=`) sees the array as a matrix `records × cells`: one row per record
  (= one index along the reduced axes), one column per output cell in `np.nditer` order.  The reshaping of the
  n-dimensional array into this matrix is done by the harness (numpy `moveaxis`/`reshape`) and tied to the
  implementation's slicing by the per-cell mechanism inputs; it is not modelled here.
-/
import DPL.Model.Plan
namespace DPL
namespace Tools

variable {δ δ' α β ρ : Type}

/-! ### additions to the plan DSL (kept here: `Plan.lean` is shared) -/

/-- view a plan on `δ` as a plan on `δ'` through `f` (a cell's plan sees its column of the matrix) -/
def comap (f : δ' → δ) : Plan δ α ρ → Plan δ' α ρ
  | .release r => .release r
  | .call c inp k => .call c (fun D => inp (f D)) (fun o => comap f (k o))
  | .probe occ k => .probe (fun D => occ (f D)) (fun b => comap f (k b))

/-- one mechanism invocation whose output is the release -/
def single (c : MechCall α) (inp : δ → α) : Plan δ α α := .call c inp (fun o => .release o)

/-- a fixed list of invocations, run in order; the release is the list of their outputs -/
def calls (cs : List (MechCall α × (δ → α))) : Plan δ α (List α) :=
  Plan.seq (cs.map (fun ci => single ci.1 ci.2))

section
variable [OfNat α 0] [OfNat α 1] [OfNat α 2] [OfNat α 4] [Add α] [Sub α] [Mul α] [Div α] [Neg α]
  [LT α] [LE α] [DecidableLT α] [DecidableLE α] [NatCast α] [IntCast α] [Transc α]

/-! ### numpy pieces -/

/-- `np.clip(x, l, u)` for `l ≤ u` (NaN stays NaN: both comparisons are false) -/
def clip (l u x : α) : α := if x < l then l else if u < x then u else x

/-- `arr.sum()` (sequential; numpy's pairwise order differs in rounding only) -/
def sum (xs : List α) : α := xs.foldl (· + ·) 0

/-- `np.mean`: `add.reduce(arr) / n` -/
def mean (xs : List α) : α := sum xs / (xs.length : α)

/-- `np.var` (ddof = 0): `x = arr - mean; sum(x * x) / n` -/
def var (xs : List α) : α :=
  let m := mean xs
  sum (xs.map (fun x => (x - m) * (x - m))) / (xs.length : α)

/-- the non-NaN entries (the nan-functions of numpy ignore the others) -/
def vals (xs : List (Option α)) : List α := xs.filterMap id

def absv (x : α) : α := if x < 0 then -x else x

/-- Python `==` on numbers -/
def eqv (a b : α) : Bool := decide (a ≤ b) && decide (b ≤ a)

/-- `int(x)` on a float: truncation towards zero, returned in the carrier -/
def truncv (x : α) : α := if x < 0 then -((Transc.floor (-x) : Int) : α) else ((Transc.floor x : Int) : α)

/-! ### scalar tools (`axis=None, keepdims=False`) -/

def noDelta : α := 0

/-- `_mean(nan=False)`: `LaplaceTruncated(epsilon, delta=0, sensitivity=(upper-lower)/array.size, lower, upper)` on
`np.mean(clip_to_bounds(ravel(array), bounds))` -/
def meanPlan (n : Nat) (ε l u : α) : Plan (List α) α α :=
  single ⟨"LaplaceTruncated", ε, 0, (u - l) / (n : α), l, u, .osCsprng⟩ (fun D => mean (D.map (clip l u)))

/-- `_mean(nan=True)`: same mechanism — the sensitivity still divides by `array.size`, NaNs included — on `np.nanmean` -/
def nanmeanPlan (n : Nat) (ε l u : α) : Plan (List (Option α)) α α :=
  single ⟨"LaplaceTruncated", ε, 0, (u - l) / (n : α), l, u, .osCsprng⟩
    (fun D => mean ((vals D).map (clip l u)))

/-- sensitivity expression of `_var`: `((upper - lower) / array.size) ** 2 * (array.size - 1)` -/
def varSens (n : Nat) (l u : α) : α := ((u - l) / (n : α)) * ((u - l) / (n : α)) * ((n : α) - 1)

/-- `_var(nan=False)`: `LaplaceBoundedDomain(…, lower=0, upper=(upper-lower)**2/4)` on `np.var(clip(…))` -/
def varPlan (n : Nat) (ε l u : α) : Plan (List α) α α :=
  single ⟨"LaplaceBoundedDomain", ε, 0, varSens n l u, 0, ((u - l) * (u - l)) / 4, .osCsprng⟩
    (fun D => var (D.map (clip l u)))

def nanvarPlan (n : Nat) (ε l u : α) : Plan (List (Option α)) α α :=
  single ⟨"LaplaceBoundedDomain", ε, 0, varSens n l u, 0, ((u - l) * (u - l)) / 4, .osCsprng⟩
    (fun D => var ((vals D).map (clip l u)))

/-- `_std` = `np.sqrt` of `_var`'s release -/
def stdPlan (n : Nat) (ε l u : α) : Plan (List α) α α := (varPlan n ε l u).map Transc.sqrt
def nanstdPlan (n : Nat) (ε l u : α) : Plan (List (Option α)) α α := (nanvarPlan n ε l u).map Transc.sqrt

/-- `_sum(nan=False)`, float dtype: `LaplaceTruncated(sensitivity=upper-lower, lower=lower*size, upper=upper*size)` -/
def sumPlan (n : Nat) (ε l u : α) : Plan (List α) α α :=
  single ⟨"LaplaceTruncated", ε, 0, u - l, l * (n : α), u * (n : α), .osCsprng⟩ (fun D => sum (D.map (clip l u)))

def nansumPlan (n : Nat) (ε l u : α) : Plan (List (Option α)) α α :=
  single ⟨"LaplaceTruncated", ε, 0, u - l, l * (n : α), u * (n : α), .osCsprng⟩
    (fun D => sum ((vals D).map (clip l u)))

/-- `_sum` with an integral `dtype`: the bounds were cast to the integer type by `check_bounds(dtype=…)` (`li`, `ui`),
the data are clipped to the ORIGINAL float bounds, cast element-wise (truncation) and summed; `GeometricTruncated` -/
def intSumPlan (n : Nat) (ε l u li ui : α) : Plan (List α) α α :=
  single ⟨"GeometricTruncated", ε, 0, ui - li, li * (n : α), ui * (n : α), .osCsprng⟩
    (fun D => sum (D.map (fun x => truncv (clip l u x))))

/-- `count_nonzero` = `sum(array.astype(bool), dtype=np.intp, bounds=(0, 1))` (NaN is truthy) -/
def countNonzeroPlan (n : Nat) (ε : α) : Plan (List α) α α :=
  single ⟨"GeometricTruncated", ε, 0, 1 - 0, 0 * (n : α), 1 * (n : α), .osCsprng⟩
    (fun D => sum (D.map (fun x => if eqv x 0 then (0 : α) else 1)))

/-! ### `_wrap_axis`: one sub-query per output cell, `epsilon / dummy.size` each, the cell's own bounds -/

/-- the sub-array of output cell `c`: entry `c` of every record -/
def column (dflt : β) (c : Nat) (D : List (List β)) : List β := D.map (fun r => r.getD c dflt)

/-- `_wrap_axis(func, …)` for `size` output cells over `n` records; `bounds c` = the bounds handed to cell `c`
(`(bounds[0][idx], bounds[1][idx])` when the output is one-dimensional, the scalar bounds otherwise) -/
def wrapAxis (dflt : β) (size : Nat) (ε : α) (bounds : Nat → α × α)
    (cell : (ε l u : α) → Plan (List β) α ρ) : Plan (List (List β)) α (List ρ) :=
  Plan.seq ((List.range size).map (fun c =>
    comap (column dflt c) (cell (ε / (size : α)) (bounds c).1 (bounds c).2)))

/-! ### histograms -/

/-- position of `x` among the edges `e₀ < … < e_m` as numpy computes it: bin `i` is `[eᵢ, eᵢ₊₁)`, the last bin is
closed on the right, values outside `[e₀, e_m]` (and NaN) fall in no bin -/
def binIdx (edges : List α) (x : α) : Option Nat :=
  match edges with
  | [] => none
  | e0 :: rest =>
    let em := rest.getLastD e0
    if decide (e0 ≤ x) && decide (x ≤ em) then
      if eqv x em then some (rest.length - 1) else some ((edges.filter (fun e => decide (e ≤ x))).length - 1)
    else none

/-- multi-index of a row (one coordinate per dimension) -/
def binOf (edges : List (List α)) (row : List α) : Option (List Nat) :=
  (List.zipWith binIdx edges row).mapM id

/-- all multi-indices of a grid in C order (`np.nditer`) -/
def cellsOf : List Nat → List (List Nat)
  | [] => [[]]
  | d :: ds => (List.range d).flatMap (fun i => (cellsOf ds).map (fun t => i :: t))

/-- a histogram record: coordinates and weight (weight 1 when `weights=None`) -/
structure WRow (α : Type) where
  x : List α
  w : α

/-- the value handed to the mechanism for one cell: `int(hist[cell])` -/
def cellCount (edges : List (List α)) (weighted : Bool) (cell : List Nat) (D : List (WRow α)) : α :=
  let rows := D.filter (fun r => binOf edges r.x == some cell)
  if weighted then truncv (sum (rows.map (·.w))) else (rows.length : α)

def diffs : List α → List α
  | a :: b :: t => (b - a) :: diffs (b :: t)
  | _ => []

/-- `histogram` / `histogramdd`: one `GeometricTruncated(epsilon, sensitivity=1, lower=0, upper=maxsize)` invocation
per bin in `nditer` order, every one with the whole epsilon (the bins partition the records) -/
def histCalls (edges : List (List α)) (weighted : Bool) (ε maxsize : α) : Plan (List (WRow α)) α (List α) :=
  calls ((cellsOf (edges.map (fun e => e.length - 1))).map (fun cell =>
    (⟨"GeometricTruncated", ε, 0, 1, 0, maxsize, .osCsprng⟩, cellCount edges weighted cell)))

/-- density post-processing of `histogram` (1-d): `dp_hist / bin_sizes / (dp_hist.sum() if dp_hist.sum() else 1)` -/
def density1 (edges : List α) (h : List α) : List α :=
  let s := sum h
  let s := if eqv s 0 then 1 else s
  List.zipWith (fun c w => c / w / s) h (diffs edges)

/-- density post-processing of `histogramdd`: divide by the bin widths dimension by dimension, then by the total
count if that is positive -/
def densityDD (edges : List (List α)) (h : List α) : List α :=
  let s := sum h
  let cells := cellsOf (edges.map (fun e => e.length - 1))
  let widths := edges.map diffs
  let h1 := List.zipWith (fun c cell =>
      (List.zipWith (fun (ws : List α) (i : Nat) => ws.getD i 1) widths cell).foldl (fun acc w => acc / w) c) h cells
  if 0 < s then h1.map (· / s) else h1

def histogramPlan (edges : List α) (weighted density : Bool) (ε maxsize : α) : Plan (List (WRow α)) α (List α) :=
  (histCalls [edges] weighted ε maxsize).map (fun h => if density then density1 edges h else h)

def histogramddPlan (edges : List (List α)) (weighted density : Bool) (ε maxsize : α) :
    Plan (List (WRow α)) α (List α) :=
  (histCalls edges weighted ε maxsize).map (fun h => if density then densityDD edges h else h)

/-! ### quantile (not a `Plan`: the data enter through the measure of the exponential mechanism and the release
reads the sorted data; C07 treats it through the density of the released value) -/

def insertSorted (x : α) : List α → List α
  | [] => [x]
  | y :: ys => if y < x then y :: insertSorted x ys else x :: y :: ys

/-- `array.sort()` -/
def sortAsc : List α → List α
  | [] => []
  | x :: xs => insertSorted x (sortAsc xs)

/-- `check_bounds(bounds, shape=0, min_separation=ms)` on valid scalar bounds -/
def sepBounds (ms l u : α) : α × α :=
  if u - l < ms then
    let mid := (u + l) / 2
    (mid - ms / 2, mid + ms / 2)
  else (l, u)

/-- what `quantile` hands to `Exponential(epsilon, sensitivity=1, utility=…, measure=…)` -/
structure QSetup (α : Type) where
  sorted : List α          -- clipped data with both bounds appended, ascending (k + 2 entries)
  utility : List α         -- `-|i - quant * k|`, i = 0..k
  measure : List α         -- interval sizes `np.diff(sorted)` (k + 1 entries)

def quantileSetup (D : List α) (l u q : α) : QSetup α :=
  let k := D.length
  let arr := sortAsc (D.map (clip l u) ++ [l, u])
  { sorted := arr
    utility := (List.range (k + 1)).map (fun (i : Nat) => -(absv ((i : α) - q * (k : α))))
    measure := diffs arr }

/-- NaN among the interval sizes: the code charges and returns NaN without building a mechanism -/
def QSetup.hasNaN (s : QSetup α) : Bool := s.measure.any (fun m => !(eqv m m))

/-- `mech._rng.random() * (array[idx+1] - array[idx]) + array[idx]` -/
def quantileRelease (s : QSetup α) (idx : Nat) (uni : α) : α :=
  uni * (s.sorted.getD (idx + 1) 0 - s.sorted.getD idx 0) + s.sorted.getD idx 0

/-- unnormalised selection weights of the exponential mechanism as coded (`_find_probabilities`, sensitivity 1,
not monotonic): `measure_i * exp(epsilon / 2 * (utility_i - max utility))` -/
def quantileWeights (s : QSetup α) (ε : α) : List α :=
  let mx := s.utility.foldl (fun m x => if m < x then x else m) (s.utility.headD 0)
  List.zipWith (fun ut m => Transc.exp (ε / 1 / 2 * (ut - mx)) * m) s.utility s.measure

end
end Tools
end DPL
