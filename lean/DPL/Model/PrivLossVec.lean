/-
Privacy-loss accounting when a mechanism's input is a VECTOR (C08: the forest hands `PermuteAndFlip` the utility
vector "class counts of a leaf").  Extension of `PrivLoss.lean`; core Lean only, generic carrier.

A `Plan` carries one number per invocation.  The forest plan (`PM.treePlan`) therefore hands PermuteAndFlip the counts
packed into one number, base `n + 1` (`PM.packCounts`; every count is ≤ n, so the packing is injective).  Here the
number is decoded again (`unpackCounts`) and the displacement of an invocation is measured on the decoded vectors with
the mechanism's own sensitivity convention — the one the direct accounting of `harness/props/c08.py` uses:

  PermuteAndFlip(monotonic=True), utility vectors u → u′:
      up = max_j (u′_j − u_j)⁺      dn = max_j (u_j − u′_j)⁺
      d / sens  = max(up, dn) / sensitivity                (must be ≤ 1)
      weight    = (up + dn) / sensitivity                  (what the invocation's ε is multiplied with)

so a pure addition or a pure removal of a record costs ε, and a simultaneous decrease and increase (a label swap inside
one leaf), which `monotonic=True` does not cover, costs 2ε.  Every other mechanism keeps the scalar convention of
`PrivLoss.lean` (`relDisp`) for both.
-/
import DPL.Model.PrivLoss
namespace DPL

/-- decode a utility vector of `K` counts packed base `n + 1` (inverse of `PM.packCounts`) -/
def unpackCounts (n K N : Nat) : List Nat := (List.range K).map fun c => N / (n + 1) ^ c % (n + 1)

/-- `max_j (v_j − u_j)⁺` (0 for empty vectors) -/
def maxIncr (u v : List Nat) : Nat := (List.zipWith (fun a b => b - a) u v).foldr max 0

section
variable {α : Type} [OfNat α 0] [Add α] [Sub α] [Mul α] [Div α] [LT α] [LE α] [DecidableLT α] [DecidableLE α]
  [NatCast α] [Transc α]

/-- the utility vector a mechanism input stands for -/
def decodeVec (n K : Nat) (a : α) : List Nat := unpackCounts n K (Transc.floor a).toNat

/-- `max(up, dn) / sensitivity` (0 when the vector did not move) -/
def vecRel (c : MechCall α) (u v : List Nat) : α :=
  let d := max (maxIncr u v) (maxIncr v u)
  if d = 0 then 0 else ((d : Nat) : α) / c.sens

/-- `(up + dn) / sensitivity` (0 when the vector did not move) -/
def vecWt (c : MechCall α) (u v : List Nat) : α :=
  let w := maxIncr u v + maxIncr v u
  if w = 0 then 0 else ((w : Nat) : α) / c.sens

/-- which invocations have a vector input -/
def isVec (c : MechCall α) : Bool := c.kind == "PermuteAndFlip"

/-- displacement / sensitivity of one invocation, vector inputs decoded (`n`, `K`: the packing parameters) -/
def relDispV (n K : Nat) (c : MechCall α) (a b : α) : α :=
  if isVec c then vecRel c (decodeVec n K a) (decodeVec n K b) else relDisp c a b

/-- the weight of one invocation's ε in the privacy-loss sum -/
def wtDispV (n K : Nat) (c : MechCall α) (a b : α) : α :=
  if isVec c then vecWt c (decodeVec n K a) (decodeVec n K b) else relDisp c a b

/-- `dispOk` for an arbitrary per-invocation convention -/
def dispOkW [OfNat α 1] (rel : MechCall α → α → α → α) : List (MechCall α) → List α → List α → Bool
  | c :: cs, a :: as, b :: bs => decide (rel c a b ≤ 1) && dispOkW rel cs as bs
  | _, _, _ => true

/-- `privLoss` for an arbitrary per-invocation convention -/
def privLossW (wt : MechCall α → α → α → α) : List (MechCall α) → List α → List α → α
  | c :: cs, a :: as, b :: bs => c.eps * wt c a b + privLossW wt cs as bs
  | _, _, _ => 0

/-- max_i d_i / sens_i ≤ 1 with vector inputs decoded -/
def dispOkV [OfNat α 1] (n K : Nat) : List (MechCall α) → List α → List α → Bool := dispOkW (relDispV n K)

/-- Σ_i ε_i · w_i with vector inputs decoded -/
def privLossV (n K : Nat) : List (MechCall α) → List α → List α → α := privLossW (wtDispV n K)

end
end DPL
