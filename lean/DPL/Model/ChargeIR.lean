/-
C09 — static charge skeletons.

The translator (harness/translate/charges.py) turns the body of every public tool and every estimator `fit` of /repo
into its *charge skeleton*: the control-flow tree (seq / branch / loop) of the statements that matter for "charges
exactly its epsilon, once, to the right accountant":
  resolve                    `accountant = BudgetAccountant.load_default(accountant)`
  check own e d              `<acc>.check(e, d)`;  own = <acc> is the entry point's accountant variable
                             (`accountant` in tools, `self.accountant` in estimators)
  cellCheck own e ce n       `_check_cells(<acc>, e, ce, n)`  (whole-sequence test of `n` spends of `ce`)
  mech c                     construction of a diffprivlib mechanism / `.randomise(` / call of a library helper that draws noise
  sub f                      call of an accountant-taking helper with a THROW-AWAY `BudgetAccountant()`: noise, no charge
  call own e                 call of an accountant-taking helper that is handed the caller's accountant (own) and epsilon `e`
  spend own e d              `<acc>.spend(e, d)`
  ret self / raise           `return` (self = the value is `self`) / `raise`
Expressions are interned by their source text (`atom id`; id 0 is ALWAYS the entry point's own `epsilon` /
`self.epsilon`); quotients and products are kept structural so that a per-cell share can be recognised.

`wellCharged` runs the skeleton on a small automaton over sets of states (loops: closure under the body is CHECKED, so
zero or more iterations are covered).  `DPL/Proofs/ChargeIR.lean` proves that it is sound for every path.
Core Lean only.
-/
namespace DPL
namespace ChargeIR

inductive E where
  | atom (id : Nat)
  | div (a b : E)
  | mul (a b : E)
  deriving DecidableEq, Repr

/-- the entry point's own epsilon (`epsilon` in a tool, `self.epsilon` in an estimator): always interned as 0 -/
def epsP : E := .atom 0

inductive Ev where
  | resolve
  | check (own : Bool) (e d : E)
  | cellCheck (own : Bool) (e ce n : E)
  | mech (cls : Nat)
  | sub (fn : Nat)
  | call (own : Bool) (e : E)
  | spend (own : Bool) (e d : E)
  | ret (self : Bool)
  | raise
  deriving DecidableEq, Repr

inductive Sk where
  | skip
  | atom (e : Ev)
  | seq (a b : Sk)
  | branch (a b : Sk)
  | loop (b : Sk)
  deriving Repr

/-- a block of statements -/
def Sk.block : List Sk → Sk
  | [] => .skip
  | [a] => a
  | a :: rest => .seq a (Sk.block rest)

def Ev.isExit : Ev → Bool
  | .ret _ => true
  | .raise => true
  | _ => false

/-- draws noise without charging anybody by itself -/
def Ev.mechlike : Ev → Bool
  | .mech _ => true
  | .sub _ => true
  | _ => false

/-- states of the charge automaton -/
inductive St where
  | pre (resolved : Bool)          -- nothing charged or drawn yet; is the accountant variable resolved?
  | chk (e d : E) (m : Bool)       -- `check(e, d)` passed on the own accountant; m = noise has been drawn since
  | cells (ce n : E)               -- `_check_cells` passed for `n` cells of `ce`; the cells are being delegated
  | deleg                          -- the whole query was delegated (own accountant and own epsilon handed on)
  | done                           -- spent
  | fin                            -- the function has returned / raised
  deriving DecidableEq, Repr

/-- `n` spends of `ce` are a share-out of `e`: `ce = e / n`, or `ce = e / m / c` with `n = m * c` -/
def shareOk (e ce n : E) : Bool :=
  match ce with
  | .div a c =>
      (a == e && c == n) ||
      (match a, n with
       | .div a' m, .mul m' c' => a' == e && m == m' && c == c'
       | _, _ => false)
  | _ => false

/-- a delegated cell query of epsilon `e'` under a `_check_cells` for `n` cells of `ce`: one cell (`e' = ce`), or a block
of `c` cells (`ce = e' / c`, `n = _ * c`) that the callee shares out itself -/
def cellCallOk (ce n e' : E) : Bool :=
  e' == ce ||
  (match ce, n with
   | .div a c, .mul _ c' => a == e' && c == c'
   | _, _ => false)

/-- may the function be left here? `return` needs the charge to be complete (spent / delegated / all cells delegated), or
— `return self` only — nothing drawn since the check (nothing released: the forest's warm start without new trees);
`raise` is allowed wherever no uncharged noise has been drawn -/
def exitOk : St → Ev → Bool
  | .done, _ => true
  | .deleg, _ => true
  | .cells _ _, _ => true
  | .chk _ _ false, .ret true => true
  | .chk _ _ false, .raise => true
  | .pre _, .raise => true
  | _, _ => false

/-- non-exit events -/
def stepN : St → Ev → Option St
  | .pre _, .resolve => some (.pre true)
  | .pre true, .check true e d => if e = epsP then some (.chk e d false) else none
  | .pre _, .cellCheck true e ce n => if e = epsP ∧ shareOk e ce n = true then some (.cells ce n) else none
  | .pre _, .call true e => if e = epsP then some .deleg else none
  | .chk e d _, .mech _ => some (.chk e d true)
  | .chk e d _, .sub _ => some (.chk e d true)
  | .chk e d _, .spend true e' d' => if e' = e ∧ d' = d then some .done else none
  | .cells ce n, .call true e' => if cellCallOk ce n e' = true then some (.cells ce n) else none
  | _, _ => none

def step (s : St) (e : Ev) : Option St :=
  if e.isExit then (if exitOk s e then some .fin else none) else stepN s e

/-- the automaton on a path -/
def runSt : St → List Ev → Option St
  | s, [] => some s
  | s, e :: π => match step s e with
    | some t => runSt t π
    | none => none

/-! ### paths of a skeleton (loops unrolled at most `k` times, for every `k`) -/

/-- continue the unfinished runs of a list with the runs `next` -/
def extend (first next : List (List Ev × Bool)) : List (List Ev × Bool) :=
  first.flatMap fun p => if p.2 then [p] else next.map fun q => (p.1 ++ q.1, q.2)

def loopRuns (body : List (List Ev × Bool)) : Nat → List (List Ev × Bool)
  | 0 => [([], false)]
  | n + 1 => ([], false) :: extend body (loopRuns body n)

/-- every path through the skeleton with at most `k` iterations of each loop: (events, has the function been left?) -/
def runs (k : Nat) : Sk → List (List Ev × Bool)
  | .skip => [([], false)]
  | .atom e => [([e], e.isExit)]
  | .seq a b => extend (runs k a) (runs k b)
  | .branch a b => runs k a ++ runs k b
  | .loop b => loopRuns (runs k b) k

/-! ### the checker -/

def execL (f : St → Option (List St)) : List St → Option (List St)
  | [] => some []
  | s :: ss =>
    match f s, execL f ss with
    | some a, some b => some (a ++ b)
    | _, _ => none

/-- continue from a state unless the function has been left -/
def cont (f : St → Option (List St)) (t : St) : Option (List St) :=
  if t = .fin then some [.fin] else f t

def iter (f : St → Option (List St)) : Nat → List St → Option (List St)
  | 0, S => some S
  | k + 1, S =>
    match execL (cont f) S with
    | some T => iter f k (S ++ T.filter (fun t => !S.contains t))
    | none => none

/-- the set of states after the skeleton, started in `s`; `none` = some path is not charged properly -/
def exec : Sk → St → Option (List St)
  | .skip, s => some [s]
  | .atom e, s => match step s e with
    | some t => some [t]
    | none => none
  | .seq a b, s => match exec a s with
    | some T => execL (cont (exec b)) T
    | none => none
  | .branch a b, s => match exec a s, exec b s with
    | some x, some y => some (x ++ y)
    | _, _ => none
  | .loop b, s => match iter (exec b) 3 [s] with
    | some S => match execL (cont (exec b)) S with
      | some T => if T.all (fun t => S.contains t) then some S else none
      | none => none
    | none => none

/-- every path is charged properly AND leaves the function by an explicit `return` / `raise` (the translator appends
the implicit `return None`) -/
def wellChargedFrom (s : St) (sk : Sk) : Bool :=
  match exec sk s with
  | some T => T.all (fun t => t == .fin)
  | none => false

/-- tools: the `accountant` argument has to be resolved first -/
def wellCharged (sk : Sk) : Bool := wellChargedFrom (.pre false) sk

/-- estimator methods: `self.accountant` was resolved by `__init__` (obligation `ctorResolves`) -/
def wellChargedM (sk : Sk) : Bool := wellChargedFrom (.pre true) sk

/-- `__init__` (skeleton WITHOUT the implicit final return): every path that does not raise has executed
`self.accountant = BudgetAccountant.load_default(accountant)` and nothing else that matters -/
def ctorResolves (sk : Sk) : Bool :=
  match exec sk (.pre false) with
  | some T => T.all (fun t => t == .pre true || t == .fin)
  | none => false

end ChargeIR
end DPL
