/-
Model of the calibration of objective perturbation in diffprivlib's logistic regression, as coded at /repo HEAD:
  models/logistic_regression.py  (`fit`: epsilon / n_classes per one-vs-rest problem, `_clip_to_norm`;
                                  `_logistic_regression_path`: data_norm -> sqrt(data_norm**2 + 1) with intercept,
                                  `l2_reg_strength = 1/(C·n)`, `Vector(epsilon, dimension, alpha=1/C,
                                  function_sensitivity=0.25, data_sensitivity=data_norm, n=n_samples)`)
  mechanisms/vector.py           (`Vector.randomise`: epsilon_p, delta, scale, the noisy objective and gradient)
  validation.py                  (`clip_to_norm`)
Generic in the numeric carrier; no Mathlib import.  The noise vector itself is `Smp.vecNoise` (Samplers.lean).
-/
import DPL.Model.Samplers
namespace DPL
namespace LogReg
open Smp

section
variable {α : Type} [OfNat α 0] [OfNat α 1] [OfNat α 2] [OfNat α 4] [OfNat α 5]
  [Add α] [Sub α] [Mul α] [Div α] [Neg α]
  [LT α] [LE α] [DecidableLT α] [DecidableLE α] [NatCast α] [IntCast α] [Transc α] [Trig α] [Bits α]

/-- `if len(self.classes_) == 2: n_classes = 1` — the number of one-vs-rest problems -/
def numProblems (nClasses : Nat) : Nat := if nClasses = 2 then 1 else nClasses

/-- `epsilon=self.epsilon / n_classes` handed to every `_logistic_regression_path` -/
def perProblemEps (eps : α) (nClasses : Nat) : α := eps / ((numProblems nClasses : Nat) : α)

/-- `if fit_intercept: data_norm = np.sqrt(data_norm ** 2 + 1)` -/
def dataNorm' (norm : α) (intercept : Bool) : α :=
  if intercept then Transc.sqrt (Transc.pow norm 2 + 1) else norm

/-- `np.expm1` (Lean core has no `expm1`; over ℝ this is the definition) -/
def expm1 (x : α) : α := Transc.exp x - 1

structure Calib (α : Type) where
  /-- `epsilon_p` after the branch -/
  epsP : α
  /-- the quadratic coefficient `delta` -/
  delta : α
  /-- `scale = data_sensitivity * 2 / epsilon_p` -/
  scale : α

/-- the first part of `Vector.randomise` with `c = function_sensitivity`, `s = data_sensitivity` -/
def vectorCalib (eps c s alpha : α) (n : Nat) : Calib α :=
  let epsP := eps - 2 * Transc.log (1 + c * s / alpha)
  if epsP ≤ 0 then
    let delta := (c * s / expm1 (eps / 4) - alpha) / (n : α)
    let epsP := eps / 2
    ⟨epsP, delta, s * 2 / epsP⟩
  else ⟨epsP, 0, s * 2 / epsP⟩

/-- what `_logistic_regression_path` hands to `Vector(...)` and to the optimiser -/
structure CallSite (α : Type) where
  eps : α
  dim : Nat
  alpha : α
  c : α
  s : α
  n : Nat
  l2 : α

def callSite (eps C norm : α) (nClasses nFeatures nSamples : Nat) (intercept : Bool) : CallSite α :=
  { eps := perProblemEps eps nClasses
    dim := nFeatures + (if intercept then 1 else 0)
    alpha := 1 / C
    c := 1 / 4
    s := dataNorm' norm intercept
    n := nSamples
    l2 := 1 / (C * (nSamples : α)) }

/-- the calibration that a fit uses for each of its one-vs-rest problems -/
def fitCalib (eps C norm : α) (nClasses nFeatures nSamples : Nat) (intercept : Bool) : Calib α :=
  let cs : CallSite α := callSite eps C norm nClasses nFeatures nSamples intercept
  vectorCalib cs.eps cs.c cs.s cs.alpha cs.n

/-- `np.dot` -/
def dot : List α → List α → α
  | a :: as, b :: bs => a * b + dot as bs
  | _, _ => 0

/-- `output_func`: `func += np.dot(b, w) / n;  func += 0.5 * delta * np.dot(w, w)` -/
def noisyObjective (f : List α → α) (b : List α) (delta : α) (n : Nat) (w : List α) : α :=
  f w + dot b w / (n : α) + 1 / 2 * delta * dot w w

/-- the perturbation alone -/
def perturbation (b : List α) (delta : α) (n : Nat) (w : List α) : α :=
  dot b w / (n : α) + 1 / 2 * delta * dot w w

def zipWith3 {β : Type} (f : α → α → α → β) : List α → List α → List α → List β
  | a :: as, b :: bs, c :: cs => f a b c :: zipWith3 f as bs cs
  | _, _, _ => []

/-- `grad += normed_noisy_vector / n + delta * input_vec` -/
def noisyGradient (g : List α → List α) (b : List α) (delta : α) (n : Nat) (w : List α) : List α :=
  zipWith3 (fun gi bi wi => gi + (bi / (n : α) + delta * wi)) (g w) b w

def perturbationGrad (b : List α) (delta : α) (n : Nat) (w : List α) : List α :=
  List.zipWith (fun bi wi => bi / (n : α) + delta * wi) b w

/-- `clip_to_norm` on one row: `norms = ‖row‖ / clip; norms[norms < 1] = 1; row / norms` -/
def clipRow (row : List α) (clip : α) : List α :=
  let m := norm2 row / clip
  let m := if m < 1 then 1 else m
  row.map (· / m)

/-- the row the loss sees when `fit_intercept`: a constant 1 is appended -/
def augment (row : List α) : List α := row ++ [1]

end
end LogReg
end DPL
