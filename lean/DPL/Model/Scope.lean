/-
Model of the default-accountant scope of `diffprivlib/accountant.py` (C16), core Lean only.

Faithful machine (`St`, `stepI`, `enterI`, `exitI`, `runI`) — statement by statement:

  _default = None                                   class attribute            St.default
  __enter__:  self.old_default = self.pop_default() per-INSTANCE attribute      St.old a := some default
              self.set_default()                                               St.default := some a
  __exit__:   self.pop_default()                                               St.default := none
              if self.old_default is not None:      AttributeError when the attribute is absent (after the pop!)
                  self.old_default.set_default()                               St.default := the saved one
              del self.old_default                                             St.old a := none
              (returns None: an exception raised by the body keeps propagating)
  load_default(acc): acc if given, else `_default`, created lazily (a NEW object) when it is None
  set_default / pop_default: overwrite / clear-and-return the class attribute

Specification (`Sp`, `stepS`, `runS`): a stack of defaults.  `enter` pushes, `exit` pops, everything else rewrites or
reads the top.  Both machines emit the same kind of event trace (`Ev`): which accountant every call charged, what
`load_default` returned, what `pop_default` returned, and the default in force right after every `__enter__`,
`__exit__` and wherever the program says `peek`.
-/
namespace DPL

/-- accountant identities: the ones the program names, and the ones `load_default(None)` creates lazily
(`fresh k` = the k-th such object, in creation order) -/
inductive AccId where
  | named (n : Nat)
  | fresh (k : Nat)
  deriving DecidableEq, Repr

/-- exceptions that can propagate: the body's own (`boom`) and the `AttributeError` of an unmatched `__exit__` -/
inductive Exc where
  | boom
  | attributeError
  deriving DecidableEq, Repr

inductive Ev where
  | charge (a : AccId)            -- a library call spent on `a`
  | loaded (a : AccId)            -- `load_default(x)` returned `a`
  | popped (d : Option AccId)     -- `pop_default()` returned `d`
  | peek (d : Option AccId)       -- `BudgetAccountant._default` read without side effect
  | entered (d : Option AccId)    -- the default right after `__enter__`
  | exited (d : Option AccId)     -- the default right after `__exit__` (normal or exceptional)
  | caught (e : Option Exc)       -- end of a `try:` body: what (if anything) was caught
  deriving DecidableEq, Repr

inductive SOp where
  | setDefault (a : AccId)
  | popDefault
  | call (explicit : Option AccId)   -- a tool / model call with `accountant=explicit`
  | load (explicit : Option AccId)   -- `BudgetAccountant.load_default(explicit)`
  | peek

inductive Prog where
  | nil
  | raise                                     -- an exception propagates to the nearest enclosing `catch`
  | op (o : SOp) (rest : Prog)
  | block (a : AccId) (body rest : Prog)      -- `with a: body` then rest
  | catch (body rest : Prog)                  -- `try: body  except Exception: pass` then rest

/-- faithful state: class attribute `_default`, per-instance `old_default` (absent = `none`), number of lazily
created defaults so far -/
structure St where
  default : Option AccId
  old : AccId → Option (Option AccId)
  fresh : Nat

def upd (f : AccId → Option (Option AccId)) (a : AccId) (v : Option (Option AccId)) : AccId → Option (Option AccId) :=
  fun b => if b = a then v else f b

/-- `load_default(None)`: (returned accountant, new `_default`, new fresh counter) -/
def resolveTop (d : Option AccId) (fresh : Nat) : AccId × Option AccId × Nat :=
  match d with
  | some x => (x, some x, fresh)
  | none => (.fresh fresh, some (.fresh fresh), fresh + 1)

def stepI (σ : St) : SOp → St × List Ev
  | .setDefault a => ({ σ with default := some a }, [])
  | .popDefault => ({ σ with default := none }, [.popped σ.default])
  | .call (some e) => (σ, [.charge e])
  | .call none =>
      ({ σ with default := (resolveTop σ.default σ.fresh).2.1, fresh := (resolveTop σ.default σ.fresh).2.2 },
       [.charge (resolveTop σ.default σ.fresh).1])
  | .load (some e) => (σ, [.loaded e])
  | .load none =>
      ({ σ with default := (resolveTop σ.default σ.fresh).2.1, fresh := (resolveTop σ.default σ.fresh).2.2 },
       [.loaded (resolveTop σ.default σ.fresh).1])
  | .peek => (σ, [.peek σ.default])

def enterI (σ : St) (a : AccId) : St := { σ with old := upd σ.old a (some σ.default), default := some a }

/-- `__exit__`; the flag says that it raised `AttributeError` (no `old_default` on the instance) -/
def exitI (σ : St) (a : AccId) : St × Bool :=
  match σ.old a with
  | none => ({ σ with default := none }, true)
  | some od => ({ σ with default := od, old := upd σ.old a none }, false)

/-- run a program on the faithful machine: final state, event trace, exception still propagating at the end -/
def runI : Prog → St → St × List Ev × Option Exc
  | .nil, σ => (σ, [], none)
  | .raise, σ => (σ, [], some .boom)
  | .op o rest, σ =>
      let r := runI rest (stepI σ o).1
      (r.1, (stepI σ o).2 ++ r.2.1, r.2.2)
  | .block a body rest, σ =>
      let b := runI body (enterI σ a)
      let x := exitI b.1 a
      let evs := Ev.entered (enterI σ a).default :: (b.2.1 ++ [Ev.exited x.1.default])
      if x.2 then (x.1, evs, some .attributeError)
      else match b.2.2 with
        | some e => (x.1, evs, some e)
        | none =>
          let r := runI rest x.1
          (r.1, evs ++ r.2.1, r.2.2)
  | .catch body rest, σ =>
      let b := runI body σ
      let r := runI rest b.1
      (r.1, b.2.1 ++ Ev.caught b.2.2 :: r.2.1, r.2.2)

/-- specification state: the default in force (top) and the defaults of the enclosing blocks (innermost first) -/
structure Sp where
  top : Option AccId
  below : List (Option AccId)
  fresh : Nat

def stepS (s : Sp) : SOp → Sp × List Ev
  | .setDefault a => ({ s with top := some a }, [])
  | .popDefault => ({ s with top := none }, [.popped s.top])
  | .call (some e) => (s, [.charge e])
  | .call none =>
      ({ s with top := (resolveTop s.top s.fresh).2.1, fresh := (resolveTop s.top s.fresh).2.2 },
       [.charge (resolveTop s.top s.fresh).1])
  | .load (some e) => (s, [.loaded e])
  | .load none =>
      ({ s with top := (resolveTop s.top s.fresh).2.1, fresh := (resolveTop s.top s.fresh).2.2 },
       [.loaded (resolveTop s.top s.fresh).1])
  | .peek => (s, [.peek s.top])

def pushS (s : Sp) (a : AccId) : Sp := ⟨some a, s.top :: s.below, s.fresh⟩

def popS (s : Sp) : Sp :=
  match s.below with
  | t :: b => ⟨t, b, s.fresh⟩
  | [] => ⟨none, [], s.fresh⟩           -- unreachable from `pushS` (see `runS_below`)

def runS : Prog → Sp → Sp × List Ev × Option Exc
  | .nil, s => (s, [], none)
  | .raise, s => (s, [], some .boom)
  | .op o rest, s =>
      let r := runS rest (stepS s o).1
      (r.1, (stepS s o).2 ++ r.2.1, r.2.2)
  | .block a body rest, s =>
      let b := runS body (pushS s a)
      let x := popS b.1
      let evs := Ev.entered (some a) :: (b.2.1 ++ [Ev.exited x.top])
      match b.2.2 with
      | some e => (x, evs, some e)
      | none =>
        let r := runS rest x
        (r.1, evs ++ r.2.1, r.2.2)
  | .catch body rest, s =>
      let b := runS body s
      let r := runS rest b.1
      (r.1, b.2.1 ++ Ev.caught b.2.2 :: r.2.1, r.2.2)

/-- the property's hypothesis: blocks never re-enter an accountant that is already open -/
def WF : Prog → List AccId → Prop
  | .nil, _ => True
  | .raise, _ => True
  | .op _ rest, opened => WF rest opened
  | .block a body rest, opened => a ∉ opened ∧ WF body (a :: opened) ∧ WF rest opened
  | .catch body rest, opened => WF body opened ∧ WF rest opened

/-- executable version of `WF` (used by the driver to echo whether a program satisfies the hypothesis) -/
def wfb : Prog → List AccId → Bool
  | .nil, _ => true
  | .raise, _ => true
  | .op _ rest, opened => wfb rest opened
  | .block a body rest, opened => !(opened.contains a) && wfb body (a :: opened) && wfb rest opened
  | .catch body rest, opened => wfb body opened && wfb rest opened

/-- accountants entered anywhere in a program -/
def enteredIn : Prog → List AccId
  | .nil => []
  | .raise => []
  | .op _ rest => enteredIn rest
  | .block a body rest => a :: (enteredIn body ++ enteredIn rest)
  | .catch body rest => enteredIn body ++ enteredIn rest

/-- abstraction relation: the top of the stack is `_default`, and the stack below it is the saved `old_default` of
the open blocks, innermost first (`abs σ = default :: old[a_n] :: … :: old[a_1]`) -/
def Rel (σ : St) (s : Sp) (opened : List AccId) : Prop :=
  s.top = σ.default ∧ s.fresh = σ.fresh ∧ s.below.map some = opened.map σ.old

def St.init : St := ⟨none, fun _ => none, 0⟩
def Sp.init : Sp := ⟨none, [], 0⟩

end DPL
