/-
C11 — model of "which call shapes make an entry point fall back to the data for a domain parameter, and is that
fallback guarded by a `warnings.warn(…, PrivacyLeakWarning)`".

* `Cond`       the guard language of the Python `if` tests around the fallbacks / warnings (positional atoms: the i-th
               domain parameter of the entry point, the j-th configuration flag).
* `EntryPoint` one row per public entry point: its domain parameters, its flags and, per fallback site, the path
               condition of the fallback (`derive`) and the disjunction of the path conditions of the
               `PrivacyLeakWarning` statements that dominate it (`warn`).
* `table`      the hand-written copy of the table.  `DPL/Generated/C11Table.lean` is regenerated from the sources of
               /repo on every run (harness/translate/guards.py) and must be equal to it (`decide`), so that neither a
               parse failure nor a code change can go unnoticed.
* `Filter`     three-state model of the actions `once` / `default` / `always` of Python's warning filter.

Core Lean only (no Mathlib).
-/
namespace DPL
namespace Warn

/-- domain parameters of the public API -/
inductive Param where
  | bounds | range | dataNorm | norm | classes | boundsX | boundsY
  deriving DecidableEq, Repr

def Param.toString : Param → String
  | .bounds => "bounds" | .range => "range" | .dataNorm => "data_norm" | .norm => "norm"
  | .classes => "classes" | .boundsX => "bounds_X" | .boundsY => "bounds_y"

/-- configuration flags the guards look at -/
inductive Flag where
  | centered        -- PCA(centered=True): the mean is not computed, `bounds` is not needed
  | someBinIsCount  -- histogramdd: `bins` is a scalar or some per-dimension entry is a count (not explicit edges)
  deriving DecidableEq, Repr

def Flag.toString : Flag → String
  | .centered => "centered" | .someBinIsCount => "someBinIsCount"

inductive Entry where
  | count_nonzero | mean | nanmean | var | nanvar | std | nanstd | sum | nansum
  | histogram | histogramdd | histogram2d | quantile | percentile | median
  | GaussianNB | KMeans | StandardScaler | LinearRegression | LogisticRegression | PCA
  | RandomForestClassifier | DecisionTreeClassifier | covariance_eig
  deriving DecidableEq, Repr

/-- what a guard can see of the value passed for a domain parameter -/
inductive AShape where
  | given                                   -- a complete value
  | none                                    -- `None` / omitted
  | seq (isList : Bool) (hasNone : Bool)    -- a per-dimension sequence (list, or tuple/array) with or without `None` entries
  deriving DecidableEq, Repr

def allShapes : List AShape :=
  [.given, .none, .seq true true, .seq true false, .seq false true, .seq false false]

theorem mem_allShapes (s : AShape) : s ∈ allShapes := by
  cases s with
  | given => simp [allShapes]
  | none => simp [allShapes]
  | seq a b => cases a <;> cases b <;> simp [allShapes]

/-- guards, with positional atoms -/
inductive Cond where
  | tt | ff
  | isNone (i : Nat)        -- `<p> is None`
  | hasNone (i : Nat)       -- `None in <p>`  (only meaningful for sequences)
  | isList (i : Nat)        -- `isinstance(<p>, list)`
  | isSeq (i : Nat)         -- `isinstance(<p>, (list, tuple))` or any test that accepts every sequence form
  | flag (j : Nat)
  | not (c : Cond) | and (a b : Cond) | or (a b : Cond)
  deriving DecidableEq, Repr

def Cond.eval (shapes : List AShape) (flags : List Bool) : Cond → Bool
  | .tt => true
  | .ff => false
  | .isNone i => shapes.getD i .given == .none
  | .hasNone i => match shapes.getD i .given with | .seq _ h => h | _ => false
  | .isList i => match shapes.getD i .given with | .seq l _ => l | _ => false
  | .isSeq i => match shapes.getD i .given with | .seq _ _ => true | _ => false
  | .flag j => flags.getD j false
  | .not c => !(c.eval shapes flags)
  | .and a b => a.eval shapes flags && b.eval shapes flags
  | .or a b => a.eval shapes flags || b.eval shapes flags

/-- one fallback site -/
structure Row where
  param : Param
  /-- path condition under which the parameter is taken from the data -/
  derive : Cond
  /-- disjunction of the path conditions of the dominating `warnings.warn(…, PrivacyLeakWarning)` statements -/
  warn : Cond
  deriving DecidableEq, Repr

structure EntryPoint where
  entry : Entry
  params : List Param
  flags : List Flag
  rows : List Row
  deriving DecidableEq, Repr

/-- some domain parameter is derived from the data on this call -/
def EntryPoint.derives (ep : EntryPoint) (shapes : List AShape) (flags : List Bool) : Bool :=
  ep.rows.any (fun r => r.derive.eval shapes flags)

/-- some fallback runs without a dominating warning -/
def EntryPoint.silent (ep : EntryPoint) (shapes : List AShape) (flags : List Bool) : Bool :=
  ep.rows.any (fun r => r.derive.eval shapes flags && !(r.warn.eval shapes flags))

/-- at least one `PrivacyLeakWarning` statement that guards a fallback is executed on this call -/
def EntryPoint.warns (ep : EntryPoint) (shapes : List AShape) (flags : List Bool) : Bool :=
  ep.rows.any (fun r => r.warn.eval shapes flags)

/-- all lists of length `n` over `xs` -/
def allLists {α : Type} (xs : List α) : Nat → List (List α)
  | 0 => [[]]
  | n + 1 => (allLists xs n).flatMap (fun l => xs.map (fun x => x :: l))

theorem mem_allLists {α : Type} (xs : List α) (h : ∀ x, x ∈ xs) :
    ∀ (l : List α), l ∈ allLists xs l.length
  | [] => by simp [allLists]
  | x :: l => by
    simp only [allLists, List.length_cons, List.mem_flatMap, List.mem_map]
    exact ⟨l, mem_allLists xs h l, x, h x, rfl⟩

/-- finite check: no call shape of this entry point has a silent fallback -/
def EntryPoint.completeOn (ep : EntryPoint) : Bool :=
  (allLists allShapes ep.params.length).all fun shapes =>
    (allLists [true, false] ep.flags.length).all fun flags => !(ep.silent shapes flags)

/-- the shapes on which an entry point is silent (used by the driver / the counter-example) -/
def EntryPoint.silentShapes (ep : EntryPoint) : List (List AShape × List Bool) :=
  (allLists allShapes ep.params.length).flatMap fun shapes =>
    ((allLists [true, false] ep.flags.length).filter fun flags => ep.silent shapes flags).map fun f => (shapes, f)

/-! ### the hand-written table (the code as it is at HEAD) -/

open Cond in
/-- `if <p> is None: warn(...); <p> = f(data)` -/
def simpleRow (p : Param) (i : Nat) : Row := ⟨p, isNone i, isNone i⟩

def boundsTool (e : Entry) : EntryPoint := ⟨e, [.bounds], [], [simpleRow .bounds 0]⟩

open Cond in
/-- numpy's fallback for histogramdd (`derive`) and the library's guard (`warn`) -/
def histRow : Row :=
  ⟨.range, and (flag 0) (or (isNone 0) (hasNone 0)), and (flag 0) (or (isNone 0) (hasNone 0))⟩

open Cond in
/-- the guard as it was before the repair `0de6bf3` (`isinstance(range, list) and None in range`): kept as the
regression witness -/
def histRowOld : Row :=
  ⟨.range, and (flag 0) (or (isNone 0) (hasNone 0)), and (flag 0) (or (isNone 0) (and (isList 0) (hasNone 0)))⟩

open Cond in
def table : List EntryPoint := [
  ⟨.count_nonzero, [], [], []⟩,                     -- passes the constant bounds (0, 1) to `sum`
  boundsTool .mean, boundsTool .nanmean, boundsTool .var, boundsTool .nanvar, boundsTool .std, boundsTool .nanstd,
  boundsTool .sum, boundsTool .nansum,
  -- np.histogram(range=None) takes (min, max) of the sample
  ⟨.histogram, [.range], [], [⟨.range, isNone 0, isNone 0⟩]⟩,
  -- np.histogramdd: a dimension whose bins are a count and whose range is missing takes (min, max) of that column;
  -- the library warns `if range is None or any(_range is None for _range in range)` under the bins test
  ⟨.histogramdd, [.range], [.someBinIsCount], [histRow]⟩,
  ⟨.histogram2d, [.range], [.someBinIsCount], [histRow]⟩,
  boundsTool .quantile, boundsTool .percentile, boundsTool .median,
  boundsTool .GaussianNB, boundsTool .KMeans, boundsTool .StandardScaler,
  -- one warning for `bounds_X is None or bounds_y is None`, then the two fallbacks
  ⟨.LinearRegression, [.boundsX, .boundsY], [],
    [⟨.boundsX, and (or (isNone 0) (isNone 1)) (isNone 0), or (isNone 0) (isNone 1)⟩,
     ⟨.boundsY, and (or (isNone 0) (isNone 1)) (isNone 1), or (isNone 0) (isNone 1)⟩]⟩,
  ⟨.LogisticRegression, [.dataNorm], [], [simpleRow .dataNorm 0]⟩,
  ⟨.PCA, [.bounds, .dataNorm], [.centered],
    [⟨.bounds, and (not (flag 0)) (isNone 0), and (not (flag 0)) (isNone 0)⟩, simpleRow .dataNorm 1]⟩,
  ⟨.RandomForestClassifier, [.bounds, .classes], [], [simpleRow .bounds 0, simpleRow .classes 1]⟩,
  ⟨.DecisionTreeClassifier, [.bounds, .classes], [], [simpleRow .bounds 0, simpleRow .classes 1]⟩,
  ⟨.covariance_eig, [.norm], [], [simpleRow .norm 0]⟩
]

def lookup (t : List EntryPoint) (e : Entry) : Option EntryPoint := t.find? (fun ep => ep.entry == e)

/-! ### concrete histogramdd / histogram2d calls (any number of dimensions) and their abstraction -/

/-- one dimension of a histogramdd / histogram2d call -/
structure Dim where
  edgesGiven : Bool      -- `bins[i]` is an explicit array of edges (numpy then ignores `range[i]`)
  rangeMissing : Bool    -- `range[i] is None` (ignored when `range` itself is None)
  deriving DecidableEq, Repr

/-- a call of histogramdd: `range=None`, or a list / tuple (array) with one entry per dimension -/
structure HistCall where
  rangeNone : Bool
  isList : Bool
  dims : List Dim
  deriving Repr

/-- numpy's behaviour (trusted; validated at run time through the returned bin edges): dimension `i` takes its range
from the data iff its bins are a count and its range is missing -/
def HistCall.derives (c : HistCall) : Bool :=
  c.dims.any (fun d => !d.edgesGiven && (c.rangeNone || d.rangeMissing))

def HistCall.shape (c : HistCall) : AShape :=
  if c.rangeNone then .none else .seq c.isList (c.dims.any (·.rangeMissing))

def HistCall.flag (c : HistCall) : Bool := c.dims.any (fun d => !d.edgesGiven)

/-! ### the warning filter -/

/-- the three actions a warning category can be filtered with that deliver at all -/
inductive Action where
  | once      -- first occurrence per text/category in the process
  | default   -- first occurrence per location (module, line) and text
  | always
  deriving DecidableEq, Repr

/-- an occurrence of a warning: where it was raised and with which text -/
structure Occ where
  loc : Nat
  text : Nat
  deriving DecidableEq, Repr

/-- the registries Python keeps: `onceregistry` keyed by text, `__warningregistry__` keyed by (text, location) -/
structure Registry where
  once : List Nat
  perLoc : List Occ
  deriving Repr

def Registry.empty : Registry := ⟨[], []⟩

/-- `warnings.warn_explicit` under a given action: is the occurrence delivered, and the updated registries -/
def deliver (a : Action) (r : Registry) (o : Occ) : Bool × Registry :=
  match a with
  | .always => (true, r)
  | .once => if r.once.contains o.text then (false, r) else (true, { r with once := o.text :: r.once })
  | .default => if r.perLoc.contains o then (false, r) else (true, { r with perLoc := o :: r.perLoc })

/-- deliver a sequence of occurrences; the list of delivered flags -/
def deliverAll (a : Action) : Registry → List Occ → List Bool
  | _, [] => []
  | r, o :: os => let (d, r') := deliver a r o; d :: deliverAll a r' os

end Warn
end DPL
