/-
Model of the CALIBRATIONS of the additive-noise mechanisms of diffprivlib (C02), transcribed expression by expression:
  mechanisms/laplace.py    Laplace.randomise (scale), LaplaceBoundedDomain._find_scale, LaplaceBoundedNoise.randomise
  mechanisms/uniform.py    Uniform.randomise (half width)
  mechanisms/gaussian.py   Gaussian.__init__ (sigma), GaussianAnalytic._find_scale, GaussianDiscrete._find_scale
  mechanisms/staircase.py  Staircase._check_gamma (default gamma), Staircase.randomise (geometric parameter, binary
                           threshold, noise expression)
  mechanisms/snapping.py   Snapping._scale_bound, Snapping.effective_epsilon
Generic in the numeric carrier (see `DPL/Model/Num.lean`): the driver `Drivers/Continuous.lean` runs these definitions on
`Float` against the Python code; `DPL/Proofs/Continuous*` and `DPL/Properties/C02` instantiate them at `ℝ`.
Loops are fuel-bounded recursions with the code's own termination tests; they also report the iteration count.
Core Lean only.
-/
import DPL.Model.Num
import DPL.Model.Accountant
namespace DPL
namespace Cont

/-- `math.erf` / `math.erfc` — not in Lean core.  Extra operations of the carrier: numerical implementations for
`Float` (below; `erf` within 1 ulp of glibc's in absolute terms, `erfc` to a few ulp relative), ARBITRARY functions in
the theorems (they hold for every `erf`/`erfc`, hence for the true ones). -/
class HasErf (α : Type) where
  erf : α → α
  erfc : α → α

/-! ### `erf` on doubles -/

/-- error-free `a + b = s + e` (Knuth) -/
def twoSum (a b : Float) : Float × Float :=
  let s := a + b
  let bb := s - a
  (s, (a - (s - bb)) + (b - bb))

/-- Taylor series `Σ (-1)^n a^(2n+1) / (n! (2n+1))` with compensated summation; `term` = `(-1)^n a^(2n+1)/n!` -/
def erfSeriesLoop (a2 : Float) : Nat → Nat → Float → Float → Float → Float
  | 0, _, _, s, c => s + c
  | fuel + 1, n, term, s, c =>
    let n1 := n + 1
    let term' := -term * a2 / n1.toFloat
    let t := term' / (2 * n1 + 1).toFloat
    let (s2, e) := twoSum s t
    if t.abs < 1e-19 * s2.abs then s2 + (c + e) else erfSeriesLoop a2 fuel n1 term' s2 (c + e)

def twoOverSqrtPi : Float := 2 / Float.sqrt 3.141592653589793
def invSqrtPi : Float := 1 / Float.sqrt 3.141592653589793

/-- Veltkamp split -/
def splitF (a : Float) : Float × Float :=
  let c := 134217729.0 * a
  let hi := c - (c - a)
  (hi, a - hi)

/-- `exp(-a²)` with `a²` taken exactly as `p + e` -/
def expNegSq (a : Float) : Float :=
  let p := a * a
  let (ah, al) := splitF a
  let e := ((ah * ah - p) + 2 * ah * al) + al * al
  Float.exp (-p) * (1 - e)

/-- continued fraction `a + (1/2)/(a + 1/(a + (3/2)/(a + …)))` evaluated bottom-up from depth `k` -/
def erfcCfLoop (a : Float) : Nat → Float → Float
  | 0, f => f
  | k + 1, f => erfcCfLoop a k (a + ((k + 1).toFloat / 2) / f)

def erfcCf (a : Float) : Float :=
  let depth := (400 / (a * a)).floor.toUInt64.toNat + 12
  expNegSq a * invSqrtPi / erfcCfLoop a depth a

def erfFloat (x : Float) : Float :=
  if x.isNaN then x else
  let a := x.abs
  let r := if a < 1.0 then twoOverSqrtPi * erfSeriesLoop (a * a) 200 0 a a 0
           else if a > 6.5 then 1.0
           else 1 - erfcCf a
  if x < 0 then -r else r

/-- `erfc`: continued fraction for `|x| ≥ 1` (no cancellation for large positive `x`), `1 - erf` near 0 -/
def erfcFloat (x : Float) : Float :=
  if x.isNaN then x else
  if x ≥ 1.0 then (if x > 27.5 then 0.0 else erfcCf x)
  else if x ≤ -1.0 then (if x < -6.5 then 2.0 else 2 - erfcCf (-x))
  else 1 - erfFloat x

instance : HasErf Float := ⟨erfFloat, erfcFloat⟩

section
variable {α : Type} [OfNat α 0] [OfNat α 1] [OfNat α 2] [Add α] [Sub α] [Mul α] [Div α] [Neg α]
  [LT α] [LE α] [DecidableLT α] [DecidableLE α] [NatCast α] [Transc α]

/-- `abs` -/
def absv (x : α) : α := if x < 0 then -x else x

/-! ### closed-form calibrations -/

/-- `Laplace.randomise`: `scale = self.sensitivity / (self.epsilon - np.log(1 - self.delta))`
(also the scale of `LaplaceTruncated` and `LaplaceFolded`, which call `super().randomise`) -/
def laplaceScale (eps delta sens : α) : α := sens / (eps - Transc.log (1 - delta))

/-- `LaplaceBoundedNoise.randomise`: `self._scale = self.sensitivity / self.epsilon` -/
def boundedNoiseScale (eps sens : α) : α := sens / eps

/-- `LaplaceBoundedNoise.randomise`:
`self._noise_bound = 0 if self._scale == 0 else self._scale * np.log(1 + (np.exp(self.epsilon) - 1) / 2 / self.delta)` -/
def boundedNoiseBound (eps delta sens : α) : α :=
  let b := boundedNoiseScale eps sens
  if feq b 0 then 0 else b * Transc.log (1 + (Transc.exp eps - 1) / 2 / delta)

/-- `Uniform.randomise`: `unif_rv *= self.sensitivity / self.delta / 2` — the half width of the noise interval -/
def uniformHalfWidth (delta sens : α) : α := sens / delta / 2

/-- `1.25` -/
def c125 : α := ((5 : Nat) : α) / ((4 : Nat) : α)

/-- `Gaussian.__init__`: `np.sqrt(2 * np.log(1.25 / self.delta)) * self.sensitivity / self.epsilon` -/
def gaussSigma (eps delta sens : α) : α := Transc.sqrt (2 * Transc.log (c125 / delta)) * sens / eps

/-! ### staircase -/

/-- `Staircase._check_gamma`: default `gamma = 1 / (1 + np.exp(epsilon / 2))` -/
def staircaseGammaDefault (eps : α) : α := 1 / (1 + Transc.exp (eps / 2))

/-- parameter of the geometric draw: `1 - np.exp(- self.epsilon)` -/
def staircaseGeomP (eps : α) : α := 1 - Transc.exp (-eps)

/-- threshold of the binary draw: `self.gamma / (self.gamma + (1 - self.gamma) * np.exp(- self.epsilon))` -/
def staircaseBinThresh (eps gamma : α) : α := gamma / (gamma + (1 - gamma) * Transc.exp (-eps))

/-- the noise term of `Staircase.randomise` as a function of its four draws:
`sign * ((1 - binary_rv) * ((geometric_rv + gamma * unif_rv) * sens)
         + binary_rv * ((geometric_rv + gamma + (1 - gamma) * unif_rv) * sens))`
with `sign = -1 if u₁ < 0.5 else 1`, `geometric_rv = G - 1`, `binary_rv = 0 if u₄ < threshold else 1` -/
def staircaseNoise (eps gamma sens : α) (u1 : α) (g : Nat) (u3 u4 : α) (half : α) : α :=
  let sign : α := if u1 < half then -1 else 1
  let grv : α := ((g - 1 : Nat) : α)
  let brv : α := if u4 < staircaseBinThresh eps gamma then 0 else 1
  sign * ((1 - brv) * ((grv + gamma * u3) * sens) + brv * ((grv + gamma + (1 - gamma) * u3) * sens))

/-! ### snapping -/

/-- `Snapping._scale_bound` -/
def snapBound (sens lower upper : α) : α :=
  if feq sens 0 then (upper - lower) / 2 else (upper - lower) / 2 / sens

/-- `Snapping.effective_epsilon`: `(self.epsilon - 2 * machine_epsilon) / (1 + 12 * self._bound * machine_epsilon)`;
`eta` = `np.finfo(float).epsneg` = 2⁻⁵³ is a parameter -/
def snapEffEps (eta eps bound : α) : α := (eps - 2 * eta) / (1 + ((12 : Nat) : α) * bound * eta)

/-! ### bounded-domain Laplace: `LaplaceBoundedDomain._find_scale` -/

/-- `_delta_c(shape)` -/
def bdDeltaC (sens diam shape : α) : α :=
  if feq shape 0 then 2 else
  (2 - Transc.exp ((-sens) / shape) - Transc.exp ((-(diam - sens)) / shape)) / (1 - Transc.exp ((-diam) / shape))

/-- `_f(shape)` -/
def bdF (eps delta sens diam shape : α) : α :=
  sens / (eps - Transc.log (bdDeltaC sens diam shape) - Transc.log (1 - delta))

/-- the three loop variables of the bisections -/
structure Bracket (α : Type) where
  left : α
  right : α
  old : α

/-- body of `while old_interval_size > right - left:` -/
def bisectStep (f : α → α) (b : Bracket α) : Bracket α :=
  let mid := (b.right + b.left) / 2
  let fm := f mid
  let left := if mid ≤ fm then mid else b.left          -- `if _f(middle) >= middle: left = middle`
  let right := if fm ≤ mid then mid else b.right        -- `if _f(middle) <= middle: right = middle`
  ⟨left, right, b.right - b.left⟩

/-- the `while` loop; returns the final variables and the number of iterations -/
def bisectLoop (f : α → α) : Nat → Bracket α → Bracket α × Nat
  | 0, b => (b, 0)
  | fuel + 1, b =>
    if b.right - b.left < b.old then
      let r := bisectLoop f fuel (bisectStep f b)
      (r.1, r.2 + 1)
    else (b, 0)

/-- Python `min(a, b)`: keeps the first argument unless the second is strictly smaller -/
def pyMin2 (a b : α) : α := if b < a then b else a

/-- `_find_scale()`: `diam = upper - lower`, `delta_q = min(self.sensitivity, diam)`; returns the scale and the
iteration count -/
def bdScale (eps delta sens diam : α) (fuel : Nat := 4000) : α × Nat :=
  let dq := pyMin2 sens diam
  if feq dq 0 then (0, 0) else          -- `if delta_q == 0: return 0.0`
  let f := bdF eps delta dq diam
  let left := dq / (eps - Transc.log (1 - delta))
  let right := f left
  let r := bisectLoop f fuel ⟨left, right, (right - left) * 2⟩
  ((r.1.right + r.1.left) / 2, r.2)

/-! ### analytic Gaussian: `GaussianAnalytic._find_scale` -/

variable [HasErf α]

/-- `phi(val) = erfc(-val / np.sqrt(2)) / 2` (the normal cdf; since commit ae54110 without `1 + erf`) -/
def phi (x : α) : α := HasErf.erfc ((-x) / Transc.sqrt 2) / 2

/-- `b_plus(val)` -/
def bPlus (eps delta v : α) : α :=
  phi (Transc.sqrt (eps * v)) - Transc.exp eps * phi (-(Transc.sqrt (eps * (v + 2)))) - delta

/-- `b_minus(val)` -/
def bMinus (eps delta v : α) : α :=
  phi (-(Transc.sqrt (eps * v))) - Transc.exp eps * phi (-(Transc.sqrt (eps * (v + 2)))) - delta

/-- the doubling loop `while target_func(left) * target_func(right) > 0: left = right; right *= 2` -/
def agDouble (f : α → α) : Nat → α → α → α × α × Nat
  | 0, l, r => (l, r, 0)
  | fuel + 1, l, r =>
    if 0 < f l * f r then
      let x := agDouble f fuel r (r * 2)
      (x.1, x.2.1, x.2.2 + 1)
    else (l, r, 0)

/-- body of the binary search (note: the second test sees the `right` the first test may just have changed) -/
def agStep (f : α → α) (b : Bracket α) : Bracket α :=
  let mid := (b.right + b.left) / 2
  let fm := f mid
  let right := if fm * f b.left ≤ 0 then mid else b.right
  let left := if fm * f right ≤ 0 then mid else b.left
  ⟨left, right, b.right - b.left⟩

def agLoop (f : α → α) : Nat → Bracket α → Bracket α × Nat
  | 0, b => (b, 0)
  | fuel + 1, b =>
    if b.right - b.left < b.old then
      let r := agLoop f fuel (agStep f b)
      (r.1, r.2 + 1)
    else (b, 0)

/-- the final `alpha` and scale from the bracket -/
def agAlpha (neg : Bool) (left right : α) : α :=
  Transc.sqrt (1 + (left + right) / ((4 : Nat) : α)) +
    (if neg then (-1 : α) else 1) * Transc.sqrt ((left + right) / ((4 : Nat) : α))

structure AgResult (α : Type) where
  scale : α
  left : α
  right : α
  usedPlus : Bool
  doublings : Nat
  iterations : Nat

/-- `GaussianAnalytic._find_scale()` -/
def analyticGaussScale (eps delta sens : α) (fuelD : Nat := 1200) (fuelB : Nat := 4000) : AgResult α :=
  if feq (sens / eps) 0 then ⟨0, 0, 0, false, 0, 0⟩ else
  let delta0 := bPlus eps delta 0
  let neg : Bool := decide (delta0 < 0)
  let f : α → α := if neg then bPlus eps delta else bMinus eps delta
  let d := agDouble f fuelD 0 1
  let r := agLoop f fuelB ⟨d.1, d.2.1, (d.2.1 - d.1) * 2⟩
  let alpha := agAlpha neg r.1.left r.1.right
  ⟨alpha * sens / Transc.sqrt (2 * eps), r.1.left, r.1.right, neg, d.2.2, r.2⟩

end

/-! ### discrete Gaussian: `GaussianDiscrete._find_scale` -/

section
variable {α : Type} [OfNat α 0] [OfNat α 1] [OfNat α 2] [Add α] [Sub α] [Mul α] [Div α] [Neg α]
  [LT α] [LE α] [DecidableLT α] [DecidableLE α] [NatCast α] [Transc α]

/-- variables of the summation loop inside `objective` -/
structure DgState (α : Type) where
  idx : Nat
  lhs : α
  rhs : α
  denom : α
  term : α
  diff : α

/-- `_term = np.exp(-idx ** 2 / 2 / sigma ** 2)` -/
def dgTerm (sigma : α) (idx : Nat) : α :=
  Transc.exp ((-(((idx * idx : Nat)) : α)) / 2 / Transc.pow sigma 2)

/-- one pass through the body of `while _term > 0 and diff > 0:` (without the `idx > 1e6` abort) -/
def dgStep (sigma : α) (idx0 idx1 : Int) (s : DgState α) : DgState α :=
  let t := dgTerm sigma s.idx
  let i : Int := s.idx
  let lhs1 := if idx0 < i then s.lhs + t else s.lhs
  let lhs2 := if idx0 < i ∧ idx0 < -i then lhs1 + t else lhs1
  let upd : Bool := decide (idx0 < i ∧ idx1 < i)
  let rhs' := if upd then s.rhs + t else s.rhs
  let diff' := if upd then (-s.rhs) + rhs' else s.diff
  ⟨s.idx + 1, lhs2, rhs', s.denom + 2 * t, t, diff'⟩

/-- the loop; `none` = the `ValueError("Infinite sum not converging …")` (or the fuel of the model ran out) -/
def dgLoop (sigma : α) (idx0 idx1 : Int) (cap : Nat) : Nat → DgState α → Option (DgState α)
  | 0, _ => none
  | fuel + 1, s =>
    if 0 < s.term ∧ 0 < s.diff then
      let s' := dgStep sigma idx0 idx1 s
      if cap < s'.idx then none else dgLoop sigma idx0 idx1 cap fuel s'
    else some s

def dgIdx0 (sigma eps : α) (sens : Nat) : Int :=
  Transc.floor (eps * Transc.pow sigma 2 / (sens : α) - (sens : α) / 2)

def dgIdx1 (sigma eps : α) (sens : Nat) : Int :=
  Transc.floor (eps * Transc.pow sigma 2 / (sens : α) + (sens : α) / 2)

/-- `objective(sigma, epsilon_, delta_, sensitivity_)`; also returns the final loop state -/
def dgObjective (eps delta : α) (sens : Nat) (sigma : α) (cap : Nat := 1000000) : Option (α × DgState α) :=
  let idx0 := dgIdx0 sigma eps sens
  let idx1 := dgIdx1 sigma eps sens
  let init : DgState α := ⟨1, if idx0 < 0 then 1 else 0, 0, 1, 1, 1⟩
  match dgLoop sigma idx0 idx1 cap (cap + 1) init with
  | none => none
  | some s => some ((s.lhs - Transc.exp eps * s.rhs) / s.denom - delta, s)

/-- the variables of the two root-finding loops -/
structure DgBracket (α : Type) where
  g0 : α
  g1 : α
  f0 : α
  f1 : α

/-- `while f_0 * f_1 > 0:` — locate the root within `[2^i, 2^(i+1)]`; `step` = `2 ** pwr` -/
def dgExpand (obj : α → Option α) (step : α) : Nat → DgBracket α → Option (DgBracket α × Nat)
  | 0, _ => none
  | fuel + 1, b =>
    if 0 < b.f0 * b.f1 then
      let g0 := b.g0 * step
      let g1 := b.g1 * step
      match obj g1 with
      | none => none
      | some f1 =>
        match dgExpand obj step fuel ⟨g0, g1, b.f1, f1⟩ with
        | none => none
        | some (r, n) => some (r, n + 1)
    else some (b, 0)

/-- `np.isclose(a, b, atol=atol, rtol=rtol)` on finite numbers -/
def isclose (rtol atol a b : α) : Bool := decide (absv (a - b) ≤ atol + rtol * absv b)

/-- `while not np.isclose(guess_0, guess_1, atol=1e-12, rtol=1e-6):` -/
def dgBisect (obj : α → Option α) (rtol atol : α) : Nat → DgBracket α → Option (DgBracket α × Nat)
  | 0, _ => none
  | fuel + 1, b =>
    if isclose rtol atol b.g0 b.g1 then some (b, 0) else
    let mid := (b.g0 + b.g1) / 2
    match obj mid with
    | none => none
    | some fm =>
      let b1 : DgBracket α := if fm * b.f0 ≤ 0 then ⟨b.g0, mid, b.f0, fm⟩ else b
      let b2 : DgBracket α := if fm * b1.f1 ≤ 0 then ⟨mid, b1.g1, fm, b1.f1⟩ else b1
      match dgBisect obj rtol atol fuel b2 with
      | none => none
      | some (r, n) => some (r, n + 1)

/-- `return guess_0 if f_0 <= 0 else guess_1` — the end of the bracket whose objective is `<= 0` -/
def dgPick (b : DgBracket α) : α := if b.f0 ≤ 0 then b.g0 else b.g1

structure DgResult (α : Type) where
  scale : α
  g0 : α
  g1 : α
  expansions : Nat
  iterations : Nat

/-- `GaussianDiscrete._find_scale()`; `half` = `2 ** -1`, `rtol`/`atol` = the literals `1e-6`/`1e-12` -/
def discreteGaussScale (eps delta : α) (sens : Nat) (half rtol atol : α) (cap : Nat := 1000000)
    (fuel : Nat := 3000) : Option (DgResult α) :=
  if feq ((sens : α) / eps) 0 then some ⟨0, 0, 0, 0, 0⟩ else
  let obj : α → Option α := fun s => (dgObjective eps delta sens s cap).map (·.1)
  match obj 1 with
  | none => none
  | some f0 =>
    let step : α := if 0 < f0 then 2 else half
    match obj step with
    | none => none
    | some f1 =>
      match dgExpand obj step fuel ⟨1, step, f0, f1⟩ with
      | none => none
      | some (b, ne) =>
        match dgBisect obj rtol atol fuel b with
        | none => none
        | some (r, nb) => some ⟨dgPick r, r.g0, r.g1, ne, nb⟩

end
end Cont
end DPL
