/-
C14 — the *randomness sites* of the library, as a static table.

`harness/translate/rngsites.py` walks the AST of every module under `diffprivlib/` on every run and writes
`DPL/Generated/C14Sites.lean`: every `check_random_state` call, every use of a global / seedable generator API, every
draw made on a generator object (with the intra-procedural ORIGIN of that object), every place a generator or seed is
handed on, and every attribute a generator is stored in.  This file holds what the generated table is compared with:

  * the language of origins `Org` and its meaning `Org.val` in terms of `Rng.crs` (the hand model of
    `check_random_state`), for the three things an UNSEEDED caller can hold: `None`, numpy's global singleton (what a
    tool's preamble turns `None` into), a `SystemRandom` (what a mechanism's preamble turns either into);
  * the hand-written expected tables: the legitimate uses of global APIs (`allowedGlobalUses`), the attributes that
    hold generators (`expectedAttrAssigns`), the secure `check_random_state` calls (`secureCrsCalls`), the draws that
    do NOT come from the OS when unseeded (`structuralDraws`, each classified and justified), and the hand-overs to
    code outside the library (`externalPasses`).

Core Lean only.
-/
import DPL.Model.Rng

namespace DPL
namespace RngSites
open Rng

/-- where an expression that denotes a generator / a seed came from, inside ONE function body -/
inductive Org where
  | none                                -- the literal `None` (also an element of `[None] * n`)
  | intConst                            -- an integer literal
  | param (n : String)                  -- a parameter of the enclosing function
  | selfAttr (n : String)               -- `self.<n>`
  | crs (o : Org) (secure : Bool)       -- `check_random_state(o)` / `check_random_state(o, True)`
  | defaultRng                          -- `np.random.default_rng()`
  | systemRandom                        -- `secrets.SystemRandom()`
  | genFrom (api : String) (o : Org)    -- `np.random.default_rng(o)`, `np.random.RandomState(o)`, …
  | mechRng (o : Org)                   -- `m._rng` of a local `m = <Mechanism>(…, random_state=o)`
  | drawn (o : Org) (meth : String)     -- a value (seed) drawn from generator `o` with method `meth`
  | ifSeeded (c : Org) (t : Org)        -- `t if c is not None else None` (expression or `if`/`else` statement)
  | join (a b : Org)                    -- assigned on two paths the translator cannot tell apart
  deriving DecidableEq, Repr

/-- what an origin evaluates to -/
inductive Val where
  | obj (s : Seed)       -- an object of that kind
  | fresh                -- a Generator seeded from OS entropy (`np.random.default_rng()`)
  | globalDerived        -- an int (or a generator seeded by one) that was drawn from numpy's GLOBAL generator
  | raises               -- evaluating it raised: nothing is released on that path
  deriving DecidableEq, Repr

/-- the bits a draw made directly on the object comes from -/
def Val.src : Val → RngSrc
  | .obj .systemRandom => .osCsprng
  | .obj .globalSingleton => .globalNumpy
  | .obj .randomState => .seeded
  | .fresh => .freshGenerator
  | _ => .error                                -- None / ints / strings have no draw methods; a raised path draws nothing

def Val.ofSrc : RngSrc → Val
  | .osCsprng => .obj .systemRandom
  | .globalNumpy => .obj .globalSingleton
  | .seeded => .obj .randomState
  | .freshGenerator => .fresh
  | .error => .raises

/-- `check_random_state(v, secure)` on a value -/
def crsVal (v : Val) (secure : Bool) : Val :=
  match v with
  | .obj s => .ofSrc (crs s secure)
  | .fresh => .raises                          -- sklearn's check_random_state rejects a Generator
  | .globalDerived => .globalDerived           -- RandomState(int drawn from the global generator): reproducible
  | .raises => .raises

/-- value of an origin in a function whose `random_state` parameter / attribute is `s`.  `self._rng` is what
`DPMechanism.__init__` stored (obligation `mech_ctor_secure` pins that assignment); every other tracked attribute and
every parameter is the caller's object itself. -/
def Org.val (s : Seed) : Org → Val
  | .none => .obj .none
  | .intConst => .obj .int
  | .param _ => .obj s
  | .selfAttr n => if n = "_rng" then .ofSrc (Rng.crs s true) else .obj s
  | .crs o b => crsVal (o.val s) b
  | .defaultRng => .fresh
  | .systemRandom => .obj .systemRandom
  | .genFrom _ o =>
    match o.val s with
    | .obj .none => .fresh
    | .obj .int => .obj .randomState
    | .obj .randomState => .obj .randomState
    | .raises => .raises
    | _ => .globalDerived                      -- seeded from something an unseeded caller does not control: flagged
  | .mechRng o => crsVal (o.val s) true
  | .drawn o _ =>
    match (o.val s).src with
    | .globalNumpy => .globalDerived
    | .error => .raises
    | _ => .obj .int
  | .ifSeeded c t => if c.val s = .obj .none then .obj .none else t.val s
  | .join a b => if a.val s = b.val s then a.val s else .globalDerived   -- conservative

/-- what the `random_state` of a function can be when the USER did not seed: `None`, the global singleton a tool
preamble made of it, the SystemRandom a mechanism preamble made of either -/
def unseeded : List Seed := [.none, .globalSingleton, .systemRandom]

/-- a value that may be handed on: again one of the three (or nothing is handed on) -/
def Val.handOnOk : Val → Bool
  | .obj .none => true
  | .obj .globalSingleton => true
  | .obj .systemRandom => true
  | .raises => true
  | _ => false

/-- a draw that is fine whatever it is used for -/
def Val.drawOk (v : Val) : Bool := v.src == .osCsprng || v.src == .error

inductive Pkg where
  | top | mechanisms | models | tools | other
  deriving DecidableEq, Repr

inductive CalleeKind where
  | lib        -- a function / class / method defined in the library (its own sites are in the table)
  | superInit  -- `super().__init__(…)`
  | external   -- anything else (sklearn, joblib-delayed callables, …)
  deriving DecidableEq, Repr

structure CrsCall where
  pkg : Pkg
  file : String
  fn : String
  arg : Org
  secure : Bool
  deriving DecidableEq, Repr

structure GlobalUse where
  file : String
  fn : String
  api : String
  called : Bool
  deriving DecidableEq, Repr

structure DrawSite where
  pkg : Pkg
  file : String
  fn : String
  recv : Org
  meth : String
  deriving DecidableEq, Repr

structure PassSite where
  pkg : Pkg
  file : String
  fn : String
  callee : String
  kind : CalleeKind
  arg : Org
  deriving DecidableEq, Repr

structure AttrAssign where
  file : String
  fn : String
  attr : String
  val : Org
  deriving DecidableEq, Repr

/-! ### checks run on the generated table (`decide`d in `DPL/Generated/C14Sites.lean`) -/

/-- every draw inside `diffprivlib/mechanisms` is made on `self._rng` or, in the module-level helper
`bernoulli_neg_exp`, on `check_random_state(random_state, True)` -/
def mechDrawsViaRng (ds : List DrawSite) : Bool :=
  ds.all fun d => d.pkg != .mechanisms ||
    (d.recv == .selfAttr "_rng" || d.recv == .crs (.param "random_state") true)

/-- the draws that, for some unseeded caller, do not come from the OS CSPRNG -/
def nonSecureDraws (ds : List DrawSite) : List DrawSite :=
  ds.filter fun d => !(unseeded.all fun s => (d.recv.val s).drawOk)

/-- no non-secure `check_random_state` call inside `diffprivlib/mechanisms`.  (Elsewhere its RESULT is what matters: a
draw on it is in `nonSecureDraws`, storing it is in `attrAssigns`, seeds derived from it fail `passesClosed`.) -/
def nonSecureCrsOutsideMechanisms (cs : List CrsCall) : Bool :=
  cs.all fun c => c.secure || c.pkg != .mechanisms

/-- what is handed on inside the library is, for an unseeded caller, again None / the global singleton / a SystemRandom:
all three end in the OS CSPRNG at the mechanism (`unseeded_ends_secure`) -/
def passesClosed (ps : List PassSite) : Bool :=
  ps.all fun p => p.kind == .external || (unseeded.all fun s => (p.arg.val s).handOnOk)

/-! ### the hand-written expected tables -/

/-- every use of numpy's / the standard library's generator APIs in the library.  None of them DRAWS from a global
generator:
  * `utils.check_random_state` — modelled by `Rng.crs`: the `secrets.SystemRandom` type tests, the identity test against
    the global singleton `np.random.mtrand._rand`, the `SystemRandom()` construction, sklearn's helper for the rest;
  * `Staircase.__init__`, `Bingham.__init__` — modelled by `Mech.swaps`: a SystemRandom is replaced by
    `np.random.default_rng()` (OS-entropy-seeded PCG64, no state shared with the global generators). -/
def allowedGlobalUses : List GlobalUse := [
  ⟨"mechanisms/bingham.py", "Bingham.__init__", "numpy.random.default_rng", true⟩,
  ⟨"mechanisms/bingham.py", "Bingham.__init__", "secrets.SystemRandom", false⟩,
  ⟨"mechanisms/staircase.py", "Staircase.__init__", "numpy.random.default_rng", true⟩,
  ⟨"mechanisms/staircase.py", "Staircase.__init__", "secrets.SystemRandom", false⟩,
  ⟨"utils.py", "check_random_state", "numpy.random.mtrand._rand", false⟩,
  ⟨"utils.py", "check_random_state", "secrets.SystemRandom", false⟩,
  ⟨"utils.py", "check_random_state", "secrets.SystemRandom", false⟩,
  ⟨"utils.py", "check_random_state", "secrets.SystemRandom", true⟩,
  ⟨"utils.py", "check_random_state", "sklearn.utils.check_random_state", true⟩]

/-- `self.random_state = random_state` in a constructor: the caller's object stored as it is (what `Org.val` assumes
of every tracked attribute other than `_rng`) -/
def AttrAssign.plainStorage (a : AttrAssign) : Bool :=
  a.attr == "random_state" && a.val == .param "random_state"

/-- every OTHER attribute assignment that stores a generator / seed -/
def expectedAttrAssigns : List AttrAssign := [
  ⟨"mechanisms/base.py", "DPMechanism.__init__", "_rng", .crs (.param "random_state") true⟩,   -- `mechRng`: secure
  ⟨"mechanisms/bingham.py", "Bingham.__init__", "_rng", .defaultRng⟩,                          -- `Mech.swaps`
  ⟨"mechanisms/staircase.py", "Staircase.__init__", "_rng", .defaultRng⟩]                      -- `Mech.swaps`

/-- the mechanisms whose constructor re-assigns `_rng` (read off `expectedAttrAssigns`) -/
def swapAssignMechs : List Mech := [.Bingham, .Staircase]

/-- the secure `check_random_state` calls -/
def secureCrsCalls : List CrsCall := [
  ⟨.mechanisms, "mechanisms/base.py", "DPMechanism.__init__", .param "random_state", true⟩,
  ⟨.mechanisms, "mechanisms/base.py", "bernoulli_neg_exp", .param "random_state", true⟩]

/-- a draw that does not come from the OS when the caller is unseeded, with its classification -/
structure Classified where
  site : DrawSite
  kind : Kind
  msite : Rng.Site
  entry : Entry
  inUnseededPlan : Bool      -- the model's `plan entry none` contains it (false: executed on a path with no release)
  deriving DecidableEq, Repr

private def pre : Org := .crs (.selfAttr "random_state") false

def structuralDraws : List Classified := [
  -- forest, warm start: ints drawn and DISCARDED to advance the generator to where a cold fit would be; nothing that is
  -- released depends on them (the trees get `None` when unseeded, see `externalPasses`)
  ⟨⟨.models, "models/forest.py", "RandomForestClassifier.fit", pre, "randint"⟩, .structural, .derivedSeeds,
    .RandomForestClassifier, false⟩,
  -- forest, shuffle=True: which rows go to which tree — a data-independent permutation of row indices
  ⟨⟨.models, "models/forest.py", "RandomForestClassifier.fit", pre, "permutation"⟩, .structural, .forestShuffle,
    .RandomForestClassifier, true⟩,
  -- random tree structure: split feature and threshold of every inner node, drawn before the data are looked at
  ⟨⟨.models, "models/forest.py", "_FittingTree.build", .selfAttr "random_state", "randint"⟩, .structural, .treeStructure,
    .DecisionTreeClassifier, true⟩,
  ⟨⟨.models, "models/forest.py", "_FittingTree.build", .selfAttr "random_state", "uniform"⟩, .structural, .treeStructure,
    .DecisionTreeClassifier, true⟩,
  -- KMeans initial centres: uniform in the (public) domain, data-independent
  ⟨⟨.models, "models/k_means.py", "KMeans._init_centers", .param "random_state", "random"⟩, .structural, .kmeansInit,
    .KMeans, true⟩,
  -- LogisticRegression: one int seed per one-vs-rest problem, drawn ONLY on the `self.random_state is not None` branch
  -- (flagged for the explicit global singleton; for `None` the draw is not executed: `Org.ifSeeded`)
  ⟨⟨.models, "models/logistic_regression.py", "LogisticRegression.fit", .ifSeeded (.selfAttr "random_state") pre,
    "randint"⟩, .structural, .derivedSeeds, .LogisticRegression, false⟩]

/-- generators / seeds handed to code outside the library.  sklearn's `_make_estimator(random_state=r)` seeds the new
tree with `r.randint(MAX_INT)`; the joblib-delayed `_logistic_regression_path` receives one seed per class.  Both are
given `None` when the estimator is unseeded (`external_passes_unseeded_none`). -/
def externalPasses : List PassSite := [
  ⟨.models, "models/forest.py", "RandomForestClassifier.fit", "self._make_estimator", .external,
    .ifSeeded (.selfAttr "random_state") pre⟩,
  ⟨.models, "models/logistic_regression.py", "LogisticRegression.fit", "path_func", .external,
    .ifSeeded (.selfAttr "random_state") (.drawn pre "randint")⟩]

end RngSites
end DPL
