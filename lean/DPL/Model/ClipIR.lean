/-
C10 — static "clipped before use" skeletons.

The translator (harness/translate/clips.py) turns the body of every tool / estimator method of /repo that receives data
together with declared bounds (`bounds`, `self.bounds`, `self.data_norm`, `range`) into its *clip skeleton*: the control
flow tree (seq / branch / loop, WITH the data dependencies of every condition) of the data-flow events

  clip dst src b         `dst = clip_to_bounds(src, <bounds>)` / `clip_to_norm(src, <norm>)` / the range filter of the
                         histograms; `b` = interned bounds expression, 0 is ALWAYS "the entry point's declared bounds"
                         (the parameter, or `check_bounds(<parameter>, shape…)` of it)
  reshape dst src k args `dst = np.ravel(src)`, `np.asarray`, `check_array`, `.copy()`, `src[args]` …: a re-arrangement /
                         selection of entries (rows), which commutes with the entrywise (row-wise) clip; `args` = what the
                         selection is computed from (must be clean, else `dst` is tainted)
  assign dst op args     `dst = <any other expression of args>`
  use sink id args       a value computed from `args` reaches a mechanism (`mech`), is stored in the released object
                         (`release`: `self.x_ = …`) or leaves through an un-modelled side effect
  ret args / raise       `return <expression of args>` / `raise`
An argument is a variable together with HOW the expression depends on it:
  val                    on its value
  inv k                  only through a clip-invariant view (`.shape`, `.ndim`, `.dtype`, `len`, `np.isnan`: a NaN stays a NaN)
  deleg c                it is handed, as the data argument, to callee `c` that has its own obligation in the same file

`clippedBeforeUse` runs an abstract interpretation (per variable: clean = a function of clip(D) only; raw = an entrywise
re-arrangement of the caller's array, nothing computed from it yet; tainted = computed from unclipped data) and accepts
iff every value that reaches a sink, a `return`, or a branch / loop condition is clean — delegations may hand on raw data.
`DPL/Proofs/ClipIR.lean` proves it sound against the concrete semantics `run` below.  Core Lean only.
-/
namespace DPL
namespace ClipIR

inductive St where
  | clean | raw | tainted
  deriving DecidableEq, Repr

inductive Mode where
  | val
  | inv (k : Nat)
  | deleg (callee : Nat)
  deriving DecidableEq, Repr

abbrev Arg := Nat × Mode

inductive Sink where
  | mech | release | effect
  deriving DecidableEq, Repr

def Sink.code : Sink → Nat
  | .mech => 0 | .release => 1 | .effect => 2

inductive Ev where
  | clip (dst src b : Nat)
  | reshape (dst src k : Nat) (args : List Arg)
  | assign (dst op : Nat) (args : List Arg)
  | use (sink : Sink) (id : Nat) (args : List Arg)
  | ret (args : List Arg)
  | raise
  deriving Repr

inductive Sk where
  | skip
  | atom (e : Ev)
  | seq (a b : Sk)
  | branch (c : Nat) (args : List Arg) (a b : Sk)
  | loop (c : Nat) (args : List Arg) (body : Sk)
  deriving Repr

def Sk.block : List Sk → Sk
  | [] => .skip
  | [a] => a
  | a :: rest => .seq a (Sk.block rest)

/-! ### the checker (abstract interpretation) -/

/-- abstract state: one `St` per variable `0 … n-1`; anything else is tainted -/
abbrev AS := List St

def get (σ : AS) (v : Nat) : St := (σ[v]?).getD .tainted
def put (σ : AS) (v : Nat) (s : St) : AS := σ.set v s

def argOk (σ : AS) : Arg → Bool
  | (v, .val) => get σ v == .clean
  | (v, .inv _) => get σ v != .tainted
  | (v, .deleg _) => get σ v != .tainted

def argsOk (σ : AS) (args : List Arg) : Bool := args.all (argOk σ)

def joinSt (a b : St) : St := if a = b then a else .tainted
def join (a b : AS) : AS := List.zipWith joinSt a b

/-- `none` = unreachable (the function has been left) -/
def joinO : Option AS → Option AS → Option AS
  | none, y => y
  | x, none => x
  | some a, some b => some (join a b)

/-- outer `none` = the check fails -/
def stepEv (σ : AS) : Ev → Option (Option AS)
  | .clip d s b => some (some (put σ d (if b = 0 ∧ get σ s ≠ .tainted then .clean
                                         else if get σ s = .clean then .clean else .tainted)))
  | .reshape d s _ args => some (some (put σ d (if argsOk σ args then get σ s else .tainted)))
  | .assign d _ args => some (some (put σ d (if argsOk σ args then .clean else .tainted)))
  | .use _ _ args => if argsOk σ args then some (some σ) else none
  | .ret args => if argsOk σ args then some none else none
  | .raise => some none

def iterInv (f : AS → Option (Option AS)) : Nat → AS → Option AS
  | 0, I => some I
  | k + 1, I =>
    match f I with
    | none => none
    | some none => some I
    | some (some r) => iterInv f k (join I r)

def exec : Sk → AS → Option (Option AS)
  | .skip, σ => some (some σ)
  | .atom e, σ => stepEv σ e
  | .seq a b, σ =>
    match exec a σ with
    | none => none
    | some none => some none
    | some (some τ) => exec b τ
  | .branch _ args a b, σ =>
    if argsOk σ args then
      match exec a σ, exec b σ with
      | some x, some y => some (joinO x y)
      | _, _ => none
    else none
  | .loop _ args body, σ =>
    match iterInv (exec body) 4 σ with
    | none => none
    | some I =>
      if argsOk I args then
        match exec body I with
        | none => none
        | some none => some (some I)
        | some (some r) => if join I r = I then some (some I) else none
      else none

/-- initial state of an entry point with `n` variables of which `data` are the caller's arrays -/
def initAS (n : Nat) (data : List Nat) : AS :=
  (List.range n).map fun v => if data.contains v then .raw else .clean

/-- every value that reaches a mechanism, the released object, the return value or a condition is a function of the
CLIPPED data only -/
def clippedBeforeUse (n : Nat) (data : List Nat) (sk : Sk) : Bool :=
  (exec sk (initAS n data)).isSome

/-! ### concrete semantics (abstract in the value type and in every operation) -/

structure Sem (V : Type) where
  clipB : Nat → V → V            -- clip with bounds expression `b`
  sh : Nat → List V → V → V      -- re-arrangements (with their index arguments)
  view : Mode → V → V            -- `val`: identity (see `argVal`); `inv k` / `deleg c`: the view / the callee
  op : Nat → List V → V
  cond : Nat → List V → Bool

structure Cfg (V : Type) where
  env : Nat → V
  obs : List (Nat × Nat × List V)     -- (sink code, id, values); the returned value is sink 3
  done : Bool

variable {V : Type}

def argVal (S : Sem V) (env : Nat → V) : Arg → V
  | (v, .val) => env v
  | (v, m) => S.view m (env v)

def upd (env : Nat → V) (d : Nat) (x : V) : Nat → V := fun v => if v = d then x else env v

def stepRun (S : Sem V) (c : Cfg V) : Ev → Cfg V
  | .clip d s b => { c with env := upd c.env d (S.clipB b (c.env s)) }
  | .reshape d s k args => { c with env := upd c.env d (S.sh k (args.map (argVal S c.env)) (c.env s)) }
  | .assign d o args => { c with env := upd c.env d (S.op o (args.map (argVal S c.env))) }
  | .use k i args => { c with obs := c.obs ++ [(k.code, i, args.map (argVal S c.env))] }
  | .ret args => { c with obs := c.obs ++ [(3, 0, args.map (argVal S c.env))], done := true }
  | .raise => { c with obs := c.obs ++ [(4, 0, [])], done := true }

def runLoop (body : Cfg V → Cfg V) (test : Cfg V → Bool) : Nat → Cfg V → Cfg V
  | 0, c => c
  | k + 1, c => if c.done then c else if test c then runLoop body test k (body c) else c

/-- run the skeleton (every loop at most `fuel` times) -/
def run (S : Sem V) (fuel : Nat) : Sk → Cfg V → Cfg V
  | .skip, c => c
  | .atom e, c => if c.done then c else stepRun S c e
  | .seq a b, c => run S fuel b (run S fuel a c)
  | .branch k args a b, c =>
    if c.done then c
    else if S.cond k (args.map (argVal S c.env)) then run S fuel a c else run S fuel b c
  | .loop k args body, c =>
    runLoop (run S fuel body) (fun c => S.cond k (args.map (argVal S c.env))) fuel c

end ClipIR
end DPL
