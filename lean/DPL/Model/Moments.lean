/-
Model of the closed-form moments reported by the mechanisms of diffprivlib (C19), transcribed expression by expression:
  mechanisms/laplace.py    Laplace.bias/variance, LaplaceTruncated.bias/variance, LaplaceFolded.bias,
                           LaplaceBoundedDomain.bias/variance (with the calibrated `_scale`)
  mechanisms/geometric.py  Geometric.bias/variance
  mechanisms/gaussian.py   Gaussian.bias/variance (also GaussianAnalytic, which inherits them)
  mechanisms/uniform.py    Uniform.bias/variance
  mechanisms/base.py       DPMechanism.mse
`x ** 2` is modelled by `Transc.pow x 2` (libm `pow`, as numpy / CPython compute it).  Core Lean only.
-/
import DPL.Model.Num
import DPL.Model.Calibration
namespace DPL
namespace Cont

section
variable {α : Type} [OfNat α 0] [OfNat α 1] [OfNat α 2] [Add α] [Sub α] [Mul α] [Div α] [Neg α]
  [LT α] [LE α] [DecidableLT α] [DecidableLE α] [NatCast α] [Transc α]

/-- `x ** 2` -/
def sq (x : α) : α := Transc.pow x 2

/-- `DPMechanism.mse`: `self.variance(value) + (self.bias(value)) ** 2` -/
def mse (variance bias : α) : α := variance + sq bias

/-! ### Laplace -/

/-- `Laplace.bias` -/
def laplaceBias : α := 0

/-- `Laplace.variance`: `2 * (self.sensitivity / (self.epsilon - np.log(1 - self.delta))) ** 2` -/
def laplaceVariance (eps delta sens : α) : α := 2 * sq (sens / (eps - Transc.log (1 - delta)))

/-! ### truncated Laplace (`shape` = `self.sensitivity / (self.epsilon - np.log(1 - self.delta))`) -/

/-- `TruncationAndFoldingMixin._truncate` -/
def truncateV (lower upper v : α) : α := if upper < v then upper else if v < lower then lower else v

/-- `LaplaceTruncated.bias` for a given `shape` (`if shape == 0: return self._truncate(value) - value`) -/
def truncBiasOf (shape lower upper v : α) : α :=
  if feq shape 0 then truncateV lower upper v - v else
  shape / 2 * (Transc.exp ((lower - v) / shape) - Transc.exp ((v - upper) / shape))

/-- `LaplaceTruncated.variance` for a given `shape` (`if shape == 0: return 0.0`) -/
def truncVarianceOf (shape lower upper v : α) : α :=
  if feq shape 0 then 0 else
  let v0 := sq v + shape * (lower * Transc.exp ((lower - v) / shape) - upper * Transc.exp ((v - upper) / shape))
  let v1 := v0 + sq shape * (2 - Transc.exp ((lower - v) / shape) - Transc.exp ((v - upper) / shape))
  v1 - sq (truncBiasOf shape lower upper v + v)

def truncBias (eps delta sens lower upper v : α) : α := truncBiasOf (laplaceScale eps delta sens) lower upper v
def truncVariance (eps delta sens lower upper v : α) : α := truncVarianceOf (laplaceScale eps delta sens) lower upper v

/-! ### folded Laplace -/

/-- `LaplaceFolded.bias` for a given `shape`:
`shape * (exp((lower - value)/shape) - exp((value - upper)/shape)) / (exp((lower - upper)/shape) + 1)` -/
def foldBiasOf (shape lower upper v : α) : α :=
  shape * (Transc.exp ((lower - v) / shape) - Transc.exp ((v - upper) / shape)) /
    (Transc.exp ((lower - upper) / shape) + 1)

/-- the whole method: `if shape == 0: return self._fold(value) - value`; `folded` = `self._fold(value)` is supplied by
the caller (the folding map itself is C12's model) -/
def foldBiasAt (shape lower upper v folded : α) : α :=
  if feq shape 0 then folded - v else foldBiasOf shape lower upper v

/-- the expression `LaplaceFolded.bias` used before commit 21336e0 (it overflowed to `inf/inf` for wide domains);
kept to state that the two are the same function over ℝ -/
def foldBiasOld (shape lower upper v : α) : α :=
  shape * (Transc.exp ((lower + upper - 2 * v) / shape) - 1) /
    (Transc.exp ((lower - v) / shape) + Transc.exp ((upper - v) / shape))

def foldBias (eps delta sens lower upper v folded : α) : α :=
  foldBiasAt (laplaceScale eps delta sens) lower upper v folded

/-! ### bounded-domain Laplace (`s` = the calibrated `self._scale`) -/

/-- Python `max(a, b)`: keeps the first argument unless the second is strictly larger -/
def pyMax2 (a b : α) : α := if a < b then b else a

/-- `LaplaceBoundedDomain.bias` (`if self._scale == 0: return max(min(value, self.upper), self.lower) - value`) -/
def bdBiasOf (s lower upper v : α) : α :=
  if feq s 0 then pyMax2 (pyMin2 v upper) lower - v else
  ((s - lower + v) / 2 * Transc.exp ((lower - v) / s) - (s + upper - v) / 2 * Transc.exp ((v - upper) / s)) /
    (1 - Transc.exp ((lower - v) / s) / 2 - Transc.exp ((v - upper) / s) / 2)

/-- `LaplaceBoundedDomain.variance` (`if self._scale == 0: return 0.0`) -/
def bdVarianceOf (s lower upper v : α) : α :=
  if feq s 0 then 0 else
  let v0 := sq v
  let v1 := v0 - (Transc.exp ((lower - v) / s) * sq lower + Transc.exp ((v - upper) / s) * sq upper) / 2
  let v2 := v1 + s * (lower * Transc.exp ((lower - v) / s) - upper * Transc.exp ((v - upper) / s))
  let v3 := v2 + sq s * (2 - Transc.exp ((lower - v) / s) - Transc.exp ((v - upper) / s))
  let v4 := v3 / (1 - (Transc.exp ((-(v - lower)) / s) + Transc.exp ((-(upper - v)) / s)) / 2)
  v4 - sq (bdBiasOf s lower upper v + v)

/-! ### geometric (`scale` = `- epsilon / sensitivity`, `-inf` for sensitivity 0) -/

/-- `Geometric.variance` for the stored `_scale` -/
def geomVarianceOf (scale : α) : α :=
  let lf := (1 - Transc.exp scale) / (1 + Transc.exp scale)
  let g := Transc.exp scale / (1 - Transc.exp scale)
  2 * lf * (g + ((3 : Nat) : α) * Transc.pow g 2 + 2 * Transc.pow g ((3 : Nat) : α))

/-- `Geometric.__init__`: `- self.epsilon / self.sensitivity` (the `sensitivity > 0` branch) -/
def geomScale (eps : α) (sens : Nat) : α := (-eps) / (sens : α)

/-! ### Gaussian, uniform -/

/-- `Gaussian.variance`: `self._scale ** 2` -/
def gaussVarianceOf (sigma : α) : α := sq sigma

/-- `Uniform.variance`: `(self.sensitivity / self.delta) ** 2 / 12` -/
def uniformVariance (delta sens : α) : α := sq (sens / delta) / ((12 : Nat) : α)

end
end Cont
end DPL
