/-
Privacy-loss accounting over a pair of traces of the same plan on two neighbouring datasets (C07, C08):
for every mechanism invocation the displacement of its input divided by its configured sensitivity must be ≤ 1,
and the displacement-weighted sum of the epsilons must be ≤ the declared epsilon (× 2 when a record changes group).
Core Lean only, generic carrier.
-/
import DPL.Model.Plan
namespace DPL

section
variable {α : Type} [OfNat α 0] [Add α] [Sub α] [Mul α] [Div α] [LT α] [LE α] [DecidableLT α] [DecidableLE α]

/-- |a − b| with the comparison of the carrier -/
def absDiff (a b : α) : α := if a < b then b - a else a - b

/-- displacement of one invocation's input relative to its configured sensitivity (0 when the input did not move) -/
def relDisp (c : MechCall α) (a b : α) : α :=
  let d := absDiff a b
  if d ≤ 0 then 0 else d / c.sens

/-- max_i d_i / sens_i ≤ 1, checked invocation by invocation -/
def dispOk [OfNat α 1] : List (MechCall α) → List α → List α → Bool
  | c :: cs, a :: as, b :: bs => decide (relDisp c a b ≤ 1) && dispOk cs as bs
  | _, _, _ => true

/-- Σ_i ε_i · d_i / sens_i -/
def privLoss : List (MechCall α) → List α → List α → α
  | c :: cs, a :: as, b :: bs => c.eps * relDisp c a b + privLoss cs as bs
  | _, _, _ => 0

end
end DPL
