/-
Model of the discrete mechanisms of diffprivlib (C01), transcribed from each `randomise`:
  mechanisms/binary.py       Binary
  mechanisms/geometric.py    Geometric, GeometricTruncated, GeometricFolded
  mechanisms/base.py         TruncationAndFoldingMixin._truncate/_fold, bernoulli_neg_exp
  mechanisms/exponential.py  Exponential, PermuteAndFlip, ExponentialCategorical, ExponentialHierarchical
Samplers are functions of the uniforms they draw (`rng.random()`), generic in the numeric carrier: the driver runs
them on `Float` against the Python code, `DPL/Proofs/Discrete*` and `DPL/Properties/C01` instantiate them at `ℝ`.
Next to each sampler stands its closed-form law as an executable function (printed by the driver and compared with
the law extracted from the running implementation).  Core Lean only.
-/
import DPL.Model.Num
namespace DPL
namespace Discrete

/-- Python exceptions of these code paths; `exhausted` = the uniform script / fuel ran out (not a Python exception) -/
inductive DErr where
  | typeError | valueError | runtimeError | exhausted
  deriving DecidableEq, Repr

def DErr.toString : DErr → String
  | .typeError => "typeError" | .valueError => "valueError" | .runtimeError => "runtimeError"
  | .exhausted => "exhausted"

section
variable {α : Type} [OfNat α 0] [OfNat α 1] [OfNat α 2] [Add α] [Sub α] [Mul α] [Div α] [Neg α]
  [LT α] [LE α] [DecidableLT α] [DecidableLE α] [NatCast α] [IntCast α] [Transc α]

/-- `abs` as numpy computes it on finite numbers -/
def absv (x : α) : α := if x < 0 then -x else x

/-- `np.isclose(a, b)` on finite numbers: `|a - b| <= atol + rtol * |b|` (numpy defaults rtol = 1e-5, atol = 1e-8 are
supplied by the caller, so that the model needs no decimal literal) -/
def isclose (rtol atol a b : α) : Bool := decide (absv (a - b) ≤ atol + rtol * absv b)

/-- sequential float sum starting from `acc` -/
def sumFrom (acc : α) : List α → α
  | [] => acc
  | x :: xs => sumFrom (acc + x) xs

/-- `arr.sum()` (sequential order; numpy's pairwise order differs only in rounding, for 8 or more entries) -/
def lsum (l : List α) : α := sumFrom 0 l

/-- `np.cumsum` -/
def cumFrom (acc : α) : List α → List α
  | [] => []
  | x :: xs => (acc + x) :: cumFrom (acc + x) xs

def pyMaxFrom (m : α) : List α → α
  | [] => m
  | x :: xs => pyMaxFrom (if m < x then x else m) xs

/-- Python `max(list)`: keeps the first element, replaces on strict `>`; `0` for the empty list (the code refuses it) -/
def pyMax : List α → α
  | [] => 0
  | x :: xs => pyMaxFrom x xs

/-! ### Binary -/

/-- `Binary.randomise`: `indicator` is `false` for `value0`, `true` for `value1`; the result in the same coding.
`unif_rv = u * (exp(eps) + 1)`; flip iff `unif_rv > exp(eps) + delta` (the constructor fixes `delta = 0.0`). -/
def binaryRandomise (eps delta : α) (indicator : Bool) (u : α) : Bool :=
  let unif := u * (Transc.exp eps + 1)
  if Transc.exp eps + delta < unif then !indicator else indicator

/-- closed form: probability that the value is flipped -/
def binaryFlipProb (eps : α) : α := 1 / (Transc.exp eps + 1)

/-! ### Geometric family -/

/-- the noise of `Geometric.randomise` for `scale = -eps/sens`:
`unif_rv = (u - 0.5) * (1 + exp(scale)); sgn = -1 if unif_rv < 0 else 1; sgn * floor(log(sgn * unif_rv) / scale)` -/
def geomNoise (scale u : α) : Int :=
  let v := (u - 1 / 2) * (1 + Transc.exp scale)
  if v < 0 then -(Transc.floor (Transc.log (-v) / scale)) else Transc.floor (Transc.log v / scale)

/-- `Geometric.randomise(value)` = `int(value) + sgn * int(np.floor(np.log(sgn * unif_rv) / scale))` (since c709270 the
sum is taken in Python integers, i.e. exactly, whatever the magnitude of the input; before, `value + noise` was a float
addition that rounded inputs above 2^53 before the noise was added).
For `sensitivity = 0` the code sets `_scale = -inf`, for which every uniform other than exactly ½ gives `exp(scale) = 0`,
`log|v| / -inf = +0.0`, noise 0 (u = ½ is redrawn, see `geomDraw`); the model returns the value unchanged in that branch. -/
def geomRandomise (eps : α) (sens : Nat) (value : Int) (u : α) : Int :=
  if 0 < sens then value + geomNoise (-eps / (sens : α)) u else value

/-- `unif_rv = rng.random() - 0.5; while unif_rv == 0: unif_rv = rng.random() - 0.5`: the uniform actually used is the
first one of the stream that is not exactly ½ (a measure-zero redraw; `none` = stream exhausted) -/
def geomDraw : List α → Option α
  | [] => none
  | u :: us => if decide (u - 1 / 2 ≤ 0) && decide (0 ≤ u - 1 / 2) then geomDraw us else some u

/-- closed-form law of the noise: `(1-r)/(1+r) * r^|k|`, `r = exp(scale)` -/
def geomPmf (scale : α) (k : Int) : α :=
  (1 - Transc.exp scale) / (1 + Transc.exp scale) * Transc.exp (scale * (k.natAbs : α))

/-- closed-form upper tail `P[noise ≥ j] = r^j/(1+r)` for `j ≥ 1` -/
def geomTail (scale : α) (j : Nat) : α := Transc.exp (scale * (j : α)) / (1 + Transc.exp scale)

/-- a bound of the truncation/folding domain: `-inf`, `+inf` or the finite bound `twice/2` (integer or half-integer) -/
inductive Bnd where
  | negInf | posInf | half (twice : Int)
  deriving DecidableEq, Repr

/-- `v < b` -/
def Bnd.gtInt (b : Bnd) (v : Int) : Bool :=
  match b with | .negInf => false | .posInf => true | .half t => decide (2 * v < t)
/-- `v > b` -/
def Bnd.ltInt (b : Bnd) (v : Int) : Bool :=
  match b with | .negInf => true | .posInf => false | .half t => decide (t < 2 * v)

/-- `_truncate` followed by `int(np.round(.))` (GeometricTruncated only admits integer or infinite bounds);
`none` when the result is an infinite bound (Python raises OverflowError: C12's business) -/
def truncInt (lo hi : Bnd) (v : Int) : Option Int :=
  if hi.ltInt v then (match hi with | .half t => some (t / 2) | _ => none)
  else if lo.gtInt v then (match lo with | .half t => some (t / 2) | _ => none)
  else some v

/-- the `while value < lower or value > upper` loop of `_fold`, on doubled values (`v2 = 2·value`, so that
half-integer bounds stay integral): `value = 2*lower - value if value < lower else 2*upper - value` -/
def foldLoop (lo hi : Bnd) : Nat → Int → Option Int
  | 0, _ => none
  | fuel + 1, v2 =>
    let below := match lo with | .negInf => false | .posInf => true | .half t => decide (v2 < t)
    let above := match hi with | .negInf => true | .posInf => false | .half t => decide (t < v2)
    if below then (match lo with | .half t => foldLoop lo hi fuel (2 * t - v2) | _ => none)
    else if above then (match hi with | .half t => foldLoop lo hi fuel (2 * t - v2) | _ => none)
    else some (v2 / 2)

/-- `GeometricFolded._fold` = the mixin's `_fold` on `int(round(value))`, followed by `int(np.round(.))`:
a single-point domain returns its point; values more than two widths outside are first reduced modulo the period
`2*width` (`value = lower + (value - lower) % (2*width)`); then the reflection loop.  With an infinite bound the width is
infinite, the reduction never applies and the loop reflects at most once.  `fuel` bounds the loop (it runs at most
three times); `none` = an infinite result (OverflowError in Python: C12's business). -/
def foldInt (lo hi : Bnd) (fuel : Nat) (v : Int) : Option Int :=
  match lo, hi with
  | .half l2, .half h2 =>
    if l2 = h2 then some (l2 / 2)
    else
      let w2 := h2 - l2
      let v2 := 2 * v
      let v2 := if decide (v2 < l2 - 2 * w2) || decide (h2 + 2 * w2 < v2) then l2 + (v2 - l2) % (2 * w2) else v2
      foldLoop lo hi fuel v2
  | _, _ => if lo = hi then none else foldLoop lo hi fuel (2 * v)

def geomTruncRandomise (eps : α) (sens : Nat) (lo hi : Bnd) (value : Int) (u : α) : Option Int :=
  truncInt lo hi (geomRandomise eps sens value u)

def geomFoldRandomise (eps : α) (sens : Nat) (lo hi : Bnd) (fuel : Nat) (value : Int) (u : α) : Option Int :=
  foldInt lo hi fuel (geomRandomise eps sens value u)

/-! ### Exponential -/

/-- `scale = epsilon / sensitivity / (2 - monotonic) if sensitivity / epsilon > 0 else float("inf")`; `none` = inf -/
def expScale (eps sens : α) (mono : Bool) : Option α :=
  if 0 < sens / eps then some (eps / sens / (if mono then 1 else 2)) else none

def zipMul : List α → List α → List α
  | x :: xs, y :: ys => (x * y) :: zipMul xs ys
  | _, _ => []

/-- un-normalised probabilities of `Exponential._find_probabilities`: shift by `max(utility)`, `exp(scale * .)` (or
the `isclose(., 0)` indicator when the scale is infinite; `tol` = numpy's atol), times the measure if one is given -/
def expWeights (scale : Option α) (tol : α) (utils measure : List α) : List α :=
  let m := pyMax utils
  let w := match scale with
    | some s => utils.map (fun x => Transc.exp (s * (x - m)))
    | none => utils.map (fun x => if absv (x - m) ≤ tol then 1 else 0)
  if measure.isEmpty then w else zipMul w measure

/-- `probabilities /= probabilities.sum()` — also the closed-form selection law -/
def normalise (w : List α) : List α := let z := lsum w; w.map (· / z)

def expPmf (eps sens : α) (mono : Bool) (tol : α) (utils measure : List α) : List α :=
  normalise (expWeights (expScale eps sens mono) tol utils measure)

/-- `np.cumsum(probabilities)` -/
def expCum (eps sens : α) (mono : Bool) (tol : α) (utils measure : List α) : List α :=
  cumFrom 0 (expPmf eps sens mono tol utils measure)

/-- `np.argmax(rand < cum)` when some entry satisfies it: the first such index (strict since 252d7c4: a uniform of
exactly 0 never selects a candidate of probability zero) -/
def firstLt (u : α) : List α → Option Nat
  | [] => none
  | c :: cs => if u < c then some 0 else (firstLt u cs).map (· + 1)

/-- `np.argmax(cum == c)`: the first index whose entry equals `c` (0 if none, as `argmax` of an all-False array) -/
def firstEq (c : α) : List α → Nat
  | [] => 0
  | x :: xs => if decide (x ≤ c) && decide (c ≤ x) then 0
               else if xs.any (fun y => decide (y ≤ c) && decide (c ≤ y)) then firstEq c xs + 1 else 0

/-- `Exponential.randomise`: first index with `u < cum_i`; else, if `isclose(u, cum_last)`, the first index whose
cumulative probability equals the final one (the last candidate of non-zero probability; de1aa46); else RuntimeError -/
def expSelect (rtol atol : α) (cum : List α) (u : α) : Except DErr Nat :=
  match firstLt u cum with
  | some i => .ok i
  | none =>
    match cum.getLast? with
    | some c => if isclose rtol atol u c then .ok (firstEq c cum) else .error .runtimeError
    | none => .error .runtimeError

/-! ### bernoulli_neg_exp and PermuteAndFlip (multi-uniform samplers: functions of a uniform stream) -/

/-- `counter = 1; while rng.random() <= gamma / counter: counter += 1; return counter % 2` — returns the coin and
the unread rest of the stream -/
def bernLoop (gamma : α) : List α → Nat → Except DErr (Bool × List α)
  | [], _ => .error .exhausted
  | u :: us, counter =>
    if u ≤ gamma / (counter : α) then bernLoop gamma us (counter + 1) else .ok (counter % 2 == 1, us)

/-- `while gamma > 1: gamma -= 1; if not bernoulli_neg_exp(1, rng): return 0` then the inner loop -/
def bernOuter : Nat → α → List α → Except DErr (Bool × List α)
  | 0, _, _ => .error .exhausted
  | fuel + 1, gamma, us =>
    if 1 < gamma then
      match bernLoop 1 us 1 with
      | .error e => .error e
      | .ok (false, us') => .ok (false, us')
      | .ok (true, us') => bernOuter fuel (gamma - 1) us'
    else bernLoop gamma us 1

/-- `bernoulli_neg_exp(gamma, rng)` -/
def bernNegExp (fuel : Nat) (gamma : α) (us : List α) : Except DErr (Bool × List α) :=
  if gamma < 0 then .error .valueError else bernOuter fuel gamma us

/-- `gamma = +inf` (the degenerate branch of PermuteAndFlip): `gamma > 1` stays true, so the call returns 0 at the
first failing unit coin -/
def bernInf : Nat → List α → Except DErr (Bool × List α)
  | 0, _ => .error .exhausted
  | fuel + 1, us =>
    match bernLoop 1 us 1 with
    | .error e => .error e
    | .ok (false, us') => .ok (false, us')
    | .ok (true, us') => bernInf fuel us'

/-- closed form `P[bernoulli_neg_exp(gamma) = 1] = exp(-gamma)` -/
def bernLaw (gamma : α) : α := Transc.exp (-gamma)

/-- `PermuteAndFlip._find_probabilities`: `scale * (utility - max(utility))`, or for an infinite scale `0` where the
shifted utility is exactly 0 and `-inf` (`none`) elsewhere -/
def pafLogProbs (scale : Option α) (utils : List α) : List (Option α) :=
  let m := pyMax utils
  match scale with
  | some s => utils.map (fun x => some (s * (x - m)))
  | none => utils.map (fun x => if decide (x - m ≤ 0) && decide (0 ≤ x - m) then some 0 else none)

/-- `PermuteAndFlip.randomise`: `idx = ids[int(u * len(ids))]; ids.remove(idx); if bernoulli_neg_exp(-logp[idx])` -/
def pafRun (logp : List (Option α)) (coinFuel : Nat) : Nat → List Nat → List α → Except DErr (Nat × List α)
  | 0, _, _ => .error .exhausted
  | _, [], _ => .error .runtimeError
  | _, _ :: _, [] => .error .exhausted
  | fuel + 1, ids@(_ :: _), u :: us =>
    let j := (Transc.floor (u * (ids.length : α))).toNat
    match ids[j]? with
    | none => .error .runtimeError
    | some idx =>
      let ids' := ids.erase idx
      let coin := match logp[idx]? with
        | some (some lp) => bernNegExp coinFuel (-lp) us
        | some none => bernInf coinFuel us
        | none => .error .runtimeError
      match coin with
      | .error e => .error e
      | .ok (true, us') => .ok (idx, us')
      | .ok (false, us') => pafRun logp coinFuel fuel ids' us'

/-- head probabilities of the coins: `exp(logp)`, `0` for `-inf` -/
def pafHeads (logp : List (Option α)) : List α :=
  logp.map (fun o => match o with | some lp => Transc.exp lp | none => 0)

/-- the law of `pafRun` written as the recursion that mirrors its branching: a uniformly chosen remaining candidate
`i` is returned with probability `p i`, otherwise removed -/
def pafLaw (p : Nat → α) : Nat → List Nat → Nat → α
  | 0, _, _ => 0
  | _, [], _ => 0
  | fuel + 1, ids@(_ :: _), r =>
    lsum (ids.map (fun i => (if i = r then p i else 0) + (1 - p i) * pafLaw p fuel (ids.erase i) r))
      / (ids.length : α)

def pafPmf (heads : List α) : List α :=
  let n := heads.length
  let p := fun i => heads.getD i 0
  (List.range n).map (fun r => pafLaw p n (List.range n) r)

/-! ### ExponentialCategorical / ExponentialHierarchical -/

/-- state built by the constructor: domain in first-appearance order, the utility dictionary (keys `(min,max)`),
the sensitivity (max of ALL listed utility values), the balanced flag, the normalising constants in domain order -/
structure Cat (α : Type) where
  domain : List Nat
  util : List ((Nat × Nat) × α)
  sens : α
  balanced : Bool
  norm : List α

def dictSet (k : Nat × Nat) (v : α) : List ((Nat × Nat) × α) → List ((Nat × Nat) × α)
  | [] => [(k, v)]
  | (k', v') :: rest => if k' = k then (k, v) :: rest else (k', v') :: dictSet k v rest

def dictGet (k : Nat × Nat) : List ((Nat × Nat) × α) → Option α
  | [] => none
  | (k', v') :: rest => if k' = k then some v' else dictGet k rest

def addDomain (d : List Nat) (v : Nat) : List Nat := if d.contains v then d else d ++ [v]

/-- `_build_utility`: returns `(utility_values, sensitivity, domain_values)`; negative utility → ValueError -/
def catBuildUtility : List (Nat × Nat × α) → List ((Nat × Nat) × α) → α → List Nat →
    Except DErr (List ((Nat × Nat) × α) × α × List Nat)
  | [], ut, s, d => .ok (ut, s, d)
  | (a, b, x) :: rest, ut, s, d =>
    if x < 0 then .error .valueError else
    let s' := if s < x then x else s            -- max(sensitivity, utility_value)
    let d' := addDomain (addDomain d a) b
    if a = b then catBuildUtility rest ut s' d'
    else catBuildUtility rest (dictSet (if a < b then (a, b) else (b, a)) x ut) s' d'

/-- `_get_utility` (the dictionary lookup cannot fail after `_check_utility_full`; `0` stands for the KeyError) -/
def catUtility (ut : List ((Nat × Nat) × α)) (a b : Nat) : α :=
  if a = b then 0 else (dictGet (if a < b then (a, b) else (b, a)) ut).getD 0

/-- `_get_prob`: `1.0` on the diagonal, else `exp(-eps * u / balancing_factor / sensitivity)` -/
def catProb (eps : α) (ut : List ((Nat × Nat) × α)) (sens : α) (balanced : Bool) (a b : Nat) : α :=
  if a = b then 1 else Transc.exp (-eps * catUtility ut a b / (if balanced then 1 else 2) / sens)

def catNorms (eps : α) (ut : List ((Nat × Nat) × α)) (sens : α) (balanced : Bool) (domain : List Nat) : List α :=
  domain.map (fun base => sumFrom 0 (domain.map (fun t => catProb eps ut sens balanced base t)))

/-- `_check_utility_full` -/
def catComplete (ut : List ((Nat × Nat) × α)) (domain : List Nat) : Bool :=
  domain.all (fun a => domain.all (fun b => if a < b then (dictGet (a, b) ut).isSome else true))

/-- the constructor: build, check completeness, first pass of `_build_normalising_constant` with factor 2, the
balanced flag (`np.isclose(z, z_first, rtol=1e-12, atol=0)` for every constant — equality up to summation order; the
tolerances are supplied by the caller), second pass with factor 1 if balanced -/
def catBuild (rtol atol eps : α) (ul : List (Nat × Nat × α)) : Except DErr (Cat α) :=
  match catBuildUtility ul [] 0 [] with
  | .error e => .error e
  | .ok (ut, sens, domain) =>
    if !catComplete ut domain then .error .valueError else
    let n1 := catNorms eps ut sens false domain
    let balanced := match n1 with
      | [] => true
      | z0 :: rest => rest.all (fun z => isclose rtol atol z z0)
    .ok { domain := domain, util := ut, sens := sens, balanced := balanced,
          norm := if balanced then catNorms eps ut sens true domain else n1 }

def catSelectFrom (unif : α) : α → List (Nat × α) → Option Nat → Option Nat
  | _, [], last => last
  | cum, (t, p) :: rest, _ => if unif < cum + p then some t else catSelectFrom unif (cum + p) rest (some t)

/-- `ExponentialCategorical.randomise(value)`: `unif = u * Z[value]`, walk the domain accumulating `_get_prob`,
return the first target with `unif < cum` (strict since 252d7c4), else the last target -/
def catRandomise (eps : α) (c : Cat α) (value : Nat) (u : α) : Except DErr Nat :=
  match c.domain.idxOf? value with
  | none => .error .valueError
  | some i =>
    let unif := u * c.norm.getD i 0
    match catSelectFrom unif 0 (c.domain.map (fun t => (t, catProb eps c.util c.sens c.balanced value t))) none with
    | some t => .ok t
    | none => .error .runtimeError

/-- closed-form law: `P[o | value] = prob(value, o) / Z[value]`, in domain order -/
def catPmf (eps : α) (c : Cat α) (value : Nat) : List α :=
  let z := c.norm.getD ((c.domain.idxOf? value).getD 0) 0
  c.domain.map (fun t => catProb eps c.util c.sens c.balanced value t / z)

end

/-! ### hierarchy → utility list (no numeric carrier: utilities are small integers) -/

/-- a nested list of labels -/
inductive HTree where
  | leaf (label : Nat)
  | node (children : List HTree)

mutual
/-- `_build_hierarchy`: every leaf with its locator path (child indices from the root) -/
def hierLeaves : HTree → List Nat → List (Nat × List Nat)
  | .leaf l, path => [(l, path)]
  | .node cs, path => hierLeavesList cs 0 path
def hierLeavesList : List HTree → Nat → List Nat → List (Nat × List Nat)
  | [], _, _ => []
  | c :: cs, i, path => hierLeaves c (path ++ [i]) ++ hierLeavesList cs (i + 1) path
end

/-- Python dict semantics of `hierarchy[_value] = path` / `update`: a repeated label keeps its first position and
takes the new path -/
def hierDict : List (Nat × List Nat) → List (Nat × List Nat) → List (Nat × List Nat)
  | [], acc => acc
  | (l, p) :: rest, acc =>
    hierDict rest (if acc.any (·.1 == l) then acc.map (fun e => if e.1 == l then (l, p) else e) else acc ++ [(l, p)])

/-- length of the common prefix of two locators -/
def commonPrefix : List Nat → List Nat → Nat
  | a :: as, b :: bs => if a = b then commonPrefix as bs + 1 else 0
  | _, _ => 0

/-- the utility the hierarchy assigns to two leaves: `height - (length of the common prefix)` -/
def hierUtility (height : Nat) (p q : List Nat) : Nat := height - commonPrefix p q

/-- `_build_hierarchy` (top level is a list) + `_check_hierarchy_height` + `_build_utility_list` -/
def hierUtilityList (top : List HTree) : Except DErr (List (Nat × Nat × Nat)) :=
  let h := hierDict (hierLeavesList top 0 []) []
  match h with
  | [] => .ok []
  | (_, p0) :: _ =>
    let height := p0.length
    if !h.all (fun e => e.2.length == height) then .error .valueError else
    .ok (h.flatMap (fun r => (h.filter (fun t => r.1 < t.1)).map (fun t => (r.1, t.1, hierUtility height r.2 t.2))))

end Discrete
end DPL
