/-
Numeric carrier for the executable model.

Model definitions are written once, generically over the standard core classes
(`Add`, `Sub`, `Mul`, `Div`, `Neg`, `LT`, `LE`, `NatCast`, …) plus the small class `Transc` below for
the transcendental operations.  The very same definition is then
  * run on IEEE doubles (`Float`) by the drivers, and compared with the Python implementation, and
  * instantiated at `ℝ` (or an arbitrary ordered field) in `DPL/Proofs`, where the theorems live.
No Mathlib import here.
-/
namespace DPL

/-- transcendental / rounding operations the library uses (numpy / math on the Python side) -/
class Transc (α : Type) where
  exp : α → α
  log : α → α
  sqrt : α → α
  /-- `x ** y` -/
  pow : α → α → α
  /-- `floor` to an integer (Python `np.floor` followed by `int(...)` where the code does so) -/
  floor : α → Int

instance : NatCast Float := ⟨Float.ofNat⟩
instance : IntCast Float := ⟨Float.ofInt⟩

def floatFloorInt (x : Float) : Int :=
  let f := x.floor
  if f ≥ 0 then Int.ofNat f.toUInt64.toNat   -- callers keep |x| < 2^63; larger values are reported by the driver
  else -(Int.ofNat (-f).toUInt64.toNat)

instance : Transc Float := ⟨Float.exp, Float.log, Float.sqrt, Float.pow, floatFloorInt⟩

/-! ### line-protocol helpers: doubles cross the process boundary as their 64-bit patterns -/

def fOfBits (n : Nat) : Float := Float.ofBits (UInt64.ofNat n)
def fBits (x : Float) : Nat := x.toBits.toNat

/-- canonical NaN so that NaN = NaN on the wire -/
def fBitsCanon (x : Float) : Nat := if x.isNaN then 0x7ff8000000000000 else x.toBits.toNat

def parseF (s : String) : Option Float := (s.toNat?).map fOfBits
def parseFs (ss : List String) : Option (List Float) := ss.mapM parseF

def showF (x : Float) : String := toString (fBitsCanon x)
def showFs (xs : List Float) : String := " ".intercalate (xs.map showF)

def words (line : String) : List String :=
  (line.splitOn " ").filter (fun w => w ≠ "") |>.map (fun w => w.trimAscii.toString) |>.filter (· ≠ "")

/-- generic stdin→stdout loop used by every driver: one canonical output line per input line -/
partial def driverLoop {σ : Type} (step : σ → List String → σ × String) (init : σ) : IO Unit := do
  let stdin ← IO.getStdin
  let stdout ← IO.getStdout
  let rec loop (s : σ) : IO Unit := do
    let line ← stdin.getLine
    if line.isEmpty then return ()
    let (s', out) := step s (words line)
    stdout.putStrLn out
    loop s'
  loop init
  stdout.flush

end DPL
