/-
Model of the range-restricting parts of `diffprivlib/mechanisms` (C12), transcribed statement by statement and
generic in the numeric carrier:

* `TruncationAndFoldingMixin._truncate` / `._fold` (base.py) — the fold AS CODED: single-point shortcut, the
  modulo step `lower + (value - lower) % (2*width)` for values more than two widths outside, then the iterative
  reflection loop (fuel-bounded here; `none` = the loop did not stop within the fuel = a hang);
* `Laplace.randomise`, `LaplaceTruncated`, `LaplaceFolded`, `LaplaceBoundedDomain` (clamp, single-point shortcut,
  rejection loop over batches of 1, 2, 4, … samples drawn from one uniform stream);
* `Geometric.randomise` (redraw while the centred uniform is exactly 0), `GeometricTruncated`, `GeometricFolded`
  with the `int(np.round(·))` conversions;
* `Snapping.randomise` end to end in the scaled frame;
* the selection mechanisms as functions returning an index into the candidate list, and `Binary`.

Python's float `%` (result has the sign of the divisor), `cos`, `π`, the power-of-two rounding of Snapping and
`np.ldexp` are carrier operations (`RangeOps`): exact bit-level implementations for `Float` below, the mathematical
definitions for ℝ in `DPL/Proofs/RangeReal.lean`.
-/
import DPL.Model.Num
import DPL.Model.Accountant
namespace DPL

class RangeOps (α : Type) where
  /-- Python `x % y` on floats: `fmod` adjusted to the sign of the divisor -/
  fmod : α → α → α
  cos : α → α
  pi : α
  /-- `Snapping._get_nearest_power_of_2` -/
  nextPow2 : α → α
  /-- `np.ldexp(m, e)` = m · 2^e -/
  ldexp : Nat → Int → α

/-! ### `Float` instance: exact IEEE implementations -/

/-- |x| = m · 2^e for a finite double -/
def floatDecomp (x : Float) : Nat × Int :=
  let bits := x.toBits.toNat % (2 ^ 63)
  let ef : Nat := bits / (2 ^ 52)
  let frac : Nat := bits % (2 ^ 52)
  if ef = 0 then (frac, -1074) else (frac + 2 ^ 52, (ef : Int) - 1075)

/-- C `fmod(|x|, |y|)` for finite x, finite non-zero y: exact, as (mantissa, exponent) -/
def absFmod (x y : Float) : Float :=
  let (mx, ex) := floatDecomp x
  let (my, ey) := floatDecomp y
  if ex ≥ ey then
    let r := (mx * 2 ^ (ex - ey).toNat) % my
    (Float.ofNat r).scaleB ey
  else
    let r := mx % (my * 2 ^ (ey - ex).toNat)
    (Float.ofNat r).scaleB ex

/-- CPython `float_rem` / numpy `npy_divmod` remainder -/
def pyModFloat (x y : Float) : Float :=
  if x.isNaN || y.isNaN || x.isInf || y == 0 then (0.0 / 0.0)
  else
    let m0 : Float := if y.isInf then x.abs else absFmod x y
    let m : Float := if x < 0 then -m0 else m0
    if m != 0 then (if (y < 0) != (m < 0) then m + y else m)
    else (if y < 0 then -0.0 else 0.0)

def nextPow2Float (x : Float) : Float :=
  let bits := x.toBits.toNat
  if bits % (2 ^ 52) = 0 then x else Float.ofBits (UInt64.ofNat (((bits / 2 ^ 52) + 1) * 2 ^ 52))

instance : RangeOps Float where
  fmod := pyModFloat
  cos := Float.cos
  pi := 3.141592653589793
  nextPow2 := nextPow2Float
  ldexp := fun m e => (Float.ofNat m).scaleB e

inductive RErr where
  | overflow      -- `int(inf)`
  | valueError    -- `int(nan)` and refused parameters
  | hang          -- a loop did not stop within the fuel / the scripted stream
  | runtime       -- `RuntimeError` of the selection mechanisms
  deriving DecidableEq, Repr

def RErr.toString : RErr → String
  | .overflow => "overflow" | .valueError => "valueError" | .hang => "hang" | .runtime => "runtime"

section
variable {α : Type} [OfNat α 0] [OfNat α 1] [OfNat α 2] [Add α] [Sub α] [Mul α] [Div α] [Neg α]
  [LT α] [LE α] [DecidableLT α] [DecidableLE α] [NatCast α] [IntCast α] [Transc α] [HasInf α] [RangeOps α]

/-! ### truncate and fold (base.py) -/

/-- `_truncate` -/
def truncate (lo hi v : α) : α :=
  if hi < v then hi else if v < lo then lo else v

/-- the `while value < lower or value > upper:` loop; also counts the reflections -/
def foldLoop (lo hi : α) : Nat → α → Option (α × Nat)
  | 0, _ => none
  | fuel + 1, v =>
    if decide (v < lo) || decide (hi < v) then
      let v' := if v < lo then 2 * lo - v else 2 * hi - v
      match foldLoop lo hi fuel v' with
      | some (r, n) => some (r, n + 1)
      | none => none
    else some (v, 0)

/-- the modulo step: whole periods of `2 * width` are skipped for values more than two widths outside -/
def foldPre (lo hi v : α) : α :=
  let width := hi - lo
  if decide (v < lo - 2 * width) || decide (hi + 2 * width < v) then
    lo + RangeOps.fmod (v - lo) (2 * width)
  else v

/-- `_fold`; `none` = the loop is still running when the fuel is exhausted -/
def fold (lo hi v : α) (fuel : Nat := 64) : Option (α × Nat) :=
  if feq lo hi then some (lo, 0) else foldLoop lo hi fuel (foldPre lo hi v)

/-! ### rounding to Python ints -/

/-- `np.round` (half to even) of a finite number, as an integer -/
def roundHalfEven (x : α) : Int :=
  let f := Transc.floor x
  let d := x - (f : α)
  let half : α := 1 / 2
  if d < half then f else if half < d then f + 1 else if f % 2 = 0 then f else f + 1

/-- `int(np.round(x))`: `OverflowError` for ±inf, `ValueError` for NaN -/
def intRound (x : α) : Except RErr Int :=
  if HasInf.isPosInf x || HasInf.isPosInf (-x) then .error .overflow
  else if !decide (x ≤ x) then .error .valueError
  else .ok (roundHalfEven x)

/-! ### Laplace family (laplace.py) -/

/-- `_laplace_sampler` -/
def laplace4 (u1 u2 u3 u4 : α) : α :=
  Transc.log (1 - u1) * RangeOps.cos (RangeOps.pi * u2) + Transc.log (1 - u3) * RangeOps.cos (RangeOps.pi * u4)

/-- `sensitivity / (epsilon - log(1 - delta))` -/
def laplaceScale (eps delta sens : α) : α := sens / (eps - Transc.log (1 - delta))

/-- `Laplace.randomise`: `value - scale * standard_laplace` -/
def laplaceNoisy (value scale u1 u2 u3 u4 : α) : α := value - scale * laplace4 u1 u2 u3 u4

def laplaceTruncated (lo hi value scale u1 u2 u3 u4 : α) : α :=
  truncate lo hi (laplaceNoisy value scale u1 u2 u3 u4)

def laplaceFolded (lo hi value scale u1 u2 u3 u4 : α) (fuel : Nat := 64) : Option (α × Nat) :=
  fold lo hi (laplaceNoisy value scale u1 u2 u3 u4) fuel

/-- Python `min(a, b)` / `max(a, b)` (keep the first unless the second is strictly better) -/
def pyMin (a b : α) : α := if b < a then b else a
def pyMax (a b : α) : α := if a < b then b else a

/-- `max(min(value, upper), lower)` -/
def bdClamp (lo hi v : α) : α := pyMax (pyMin v hi) lo

/-- the noisy values of one batch of `s` samples: `np.array(unif).reshape(4, -1)` puts sample `k` in column `k` -/
def batchNoisy (value scale : α) (batch : List α) (s : Nat) : List α :=
  (List.range s).map (fun k => value + scale *
    laplace4 (batch.getD k 0) (batch.getD (s + k) 0) (batch.getD (2 * s + k) 0) (batch.getD (3 * s + k) 0))

/-- `noisy[np.argmax((noisy >= lower) & (noisy <= upper))]` when `.any()` -/
def firstAccepted (lo hi : α) : List α → Option α
  | [] => none
  | x :: xs => if decide (lo ≤ x) && decide (x ≤ hi) then some x else firstAccepted lo hi xs

/-- the rejection loop over a uniform stream: batches of `s`, then `min(100000, 2 s)`, …;
`none` = the stream (or the fuel) ran out before a draw was accepted; also returns the uniforms consumed -/
def rejectLoop (lo hi value scale : α) : Nat → Nat → List α → Nat → Option (α × Nat)
  | 0, _, _, _ => none
  | fuel + 1, s, us, used =>
    if us.length < 4 * s then none
    else
      match firstAccepted lo hi (batchNoisy value scale (us.take (4 * s)) s) with
      | some r => some (r, used + 4 * s)
      | none => rejectLoop lo hi value scale fuel (min 100000 (s * 2)) (us.drop (4 * s)) (used + 4 * s)

/-- `LaplaceBoundedDomain.randomise` given the calibrated scale (`_find_scale` is C02's business) -/
def laplaceBoundedDomain (lo hi value scale : α) (us : List α) (fuel : Nat := 40) : Option (α × Nat) :=
  let v := bdClamp lo hi value
  if !decide (v ≤ v) then some (v, 0)             -- `if np.isnan(value): return nan`
  else if feq lo hi then some (v, 0)              -- single-point domain
  else rejectLoop lo hi v scale fuel 1 us 0

/-! ### geometric family (geometric.py) -/

/-- `unif_rv = rng.random() - 0.5`, redrawn while it is exactly 0; returns the centred uniform and the rest -/
def geomDraw : List α → Option (α × List α)
  | [] => none
  | u :: us =>
    let c := u - 1 / 2
    if feq c 0 then geomDraw us else some (c, us)

/-- `self._scale`: `-epsilon / sensitivity`, or `-inf` (here `none`) when sensitivity is 0 or epsilon infinite -/
def geomScale (eps sens : α) : Option α :=
  if decide (0 < sens) && !HasInf.isPosInf eps then some (-eps / sens) else none

/-- `sgn * floor(log(sgn * unif_rv) / scale)` with `unif_rv *= 1 + exp(scale)`.
For the scale `-inf`: `exp(-inf) = 0`, `log|unif_rv| / -inf = ±0`, floor 0 — the noise is 0. -/
def geomNoise (scale : Option α) (c : α) : Int :=
  match scale with
  | none => 0
  | some s =>
    let x := c * (1 + Transc.exp s)
    if x < 0 then -(Transc.floor (Transc.log (-x) / s)) else Transc.floor (Transc.log x / s)

/-- `Geometric.randomise` (values and outputs are Python ints) -/
def geometric (scale : Option α) (value : Int) (us : List α) : Option Int :=
  match geomDraw us with
  | none => none
  | some (c, _) => some (value + geomNoise scale c)

/-- `GeometricTruncated.randomise`: `int(np.round(self._truncate(noisy_value)))` -/
def geometricTruncated (lo hi : α) (scale : Option α) (value : Int) (us : List α) : Option (Except RErr Int) :=
  match geometric scale value us with
  | none => none
  | some n => some (intRound (truncate lo hi (n : α)))

/-- `GeometricFolded.randomise`: `int(np.round(self._fold(int(np.round(noisy_value)))))` -/
def geometricFolded (lo hi : α) (scale : Option α) (value : Int) (us : List α) (fuel : Nat := 64) :
    Option (Except RErr Int) :=
  match geometric scale value us with
  | none => none
  | some n =>
    match fold lo hi (n : α) fuel with
    | none => some (.error .hang)
    | some (r, _) => some (intRound r)

/-! ### Snapping (snapping.py), in the scaled frame -/

/-- `np.finfo(float).epsneg` = 2⁻⁵³ -/
def machEps : α := RangeOps.ldexp 1 (-53)

/-- `_scale_bound` -/
def snapBound (lo hi sens : α) : α :=
  if feq sens 0 then (hi - lo) / 2 else (hi - lo) / 2 / sens

/-- `Snapping._truncate` (to ±bound) -/
def snapTrunc (b v : α) : α := if b < v then b else if v < -b then -b else v

def snapEffEps (eps b : α) : α := (eps - 2 * machEps) / (1 + ((12 : Nat) : α) * b * machEps)

/-- `_scale_and_offset_value` -/
def snapScaleOffset (v sens b lo : α) : α := v / sens - b - lo / sens

/-- `_reverse_scale_and_offset_value` -/
def snapReverse (v b sens lo : α) : α := (v + b) * sens + lo

/-- `_round_to_nearest_power_of_2` (ties towards +∞) -/
def snapRound (epsInf : Bool) (v lam : α) : α :=
  if epsInf then v
  else
    let r := RangeOps.fmod v lam
    if lam / 2 < r then v - r + lam
    else if feq r (lam / 2) then v + r
    else v - r

/-- `_uniform_sampler`: 52 mantissa bits, then 32-bit words until one is non-zero -/
def snapUniformExp : List Nat → Int → Option Int
  | [], _ => none
  | x :: xs, e => if x = 0 then snapUniformExp xs (e - 32) else some (e + (Nat.log2 x + 1 : Nat) - 32)

def snapUniform (mant : Nat) (words : List Nat) : Option α :=
  match snapUniformExp words (-53) with
  | none => none
  | some e => some (RangeOps.ldexp (2 ^ 52 + mant % 2 ^ 52) e)

/-- the value just before the rounding step, and the rounding grid `Λ`:
`(value_clamped + laplace, lambda_)` of `Snapping.randomise` (sensitivity > 0) -/
def snapPre (eps sens lo hi v : α) (signBit : Bool) (u : α) : α × α :=
  let b := snapBound lo hi sens
  let vc := snapTrunc b (snapScaleOffset v sens b lo)
  let scale := 1 / snapEffEps eps b
  let lam := RangeOps.nextPow2 scale
  let lap := scale * (if signBit then -(Transc.log u) else Transc.log u)
  (vc + lap, lam)

/-- `Snapping.randomise` given the sign bit and the uniform -/
def snapping (eps sens lo hi v : α) (signBit : Bool) (u : α) : α :=
  if feq sens 0 then truncate lo hi v
  else
    let b := snapBound lo hi sens
    let p := snapPre eps sens lo hi v signBit u
    let vr := snapRound (HasInf.isPosInf eps) p.1 p.2
    -- scaling back can round just past the bounds: truncated to [lower, upper] once more
    truncate lo hi (snapReverse (snapTrunc b vr) b sens lo)

/-! ### selection mechanisms: the returned INDEX into the candidate list -/

/-- first index `i` with `u < cum[i]` (`np.argmax(rand < probabilities)` when `.any()`; strict, so that a candidate of
probability 0 is never selected, not even by the uniform 0.0) -/
def firstLe (u : α) : List α → Nat → Option Nat
  | [], _ => none
  | p :: ps, i => if u < p then some i else firstLe u ps (i + 1)

/-- first index whose entry equals `x` (`np.argmax(probabilities == x)`) -/
def firstEq (x : α) : List α → Nat → Option Nat
  | [], _ => none
  | p :: ps, i => if feq p x then some i else firstEq x ps (i + 1)

/-- `Exponential.randomise`: index into `candidates`; `close` = `np.isclose(rand, probabilities[-1])`.
The fallback for a uniform above the (rounded) final cumulative probability is the FIRST index at which the cumulative
sum reaches its final value — the last candidate of non-zero probability
(`int(np.argmax(probabilities == probabilities[-1]))`; `argmax` of an all-false array is 0). -/
def expSelect (cum : List α) (u : α) (close : Bool) : Except RErr Nat :=
  match firstLe u cum 0 with
  | some i => .ok i
  | none =>
    if close then
      match cum.getLast? with
      | some l =>
        match firstEq l cum 0 with
        | some i => .ok i
        | none => .ok 0
      | none => .error .runtime
    else .error .runtime

/-- `ExponentialCategorical.randomise`: running sum of the target probabilities, first target with
`unif_rv < cum_prob`, otherwise the last target -/
def catLoop (t : α) : List α → α → Nat → Nat → Nat
  | [], _, _, last => last
  | p :: ps, cum, i, _ =>
    let cum' := cum + p
    if t < cum' then i else catLoop t ps cum' (i + 1) i

def catSelect (probs : List α) (t : α) : Nat := catLoop t probs 0 0 0

/-- `bernoulli_neg_exp` (base.py), inner loop: `counter = 1; while rng.random() <= gamma / counter: counter += 1;
return counter % 2` — the coin and the unread rest of the stream (`none`: stream exhausted) -/
def coinLoop (gamma : α) : List α → Nat → Option (Bool × List α)
  | [], _ => none
  | u :: us, counter =>
    if u ≤ gamma / (counter : α) then coinLoop gamma us (counter + 1) else some (counter % 2 == 1, us)

/-- outer loop: `while gamma > 1: gamma -= 1; if not bernoulli_neg_exp(1, rng): return 0` -/
def coinOuter : Nat → α → List α → Option (Bool × List α)
  | 0, _, _ => none
  | fuel + 1, gamma, us =>
    if 1 < gamma then
      match coinLoop 1 us 1 with
      | none => none
      | some (false, us') => some (false, us')
      | some (true, us') => coinOuter fuel (gamma - 1) us'
    else coinLoop gamma us 1

/-- `bernoulli_neg_exp(gamma, rng)` for `gamma >= 0` as a function of the uniform stream -/
def bernoulliNegExp (gamma : α) (us : List α) (fuel : Nat := 100000) : Option (Bool × List α) :=
  coinOuter fuel gamma us

/-- `Binary.randomise`: the returned indicator (false = value0, true = value1) -/
def binaryFlip (eps delta u : α) (ind : Bool) : Bool :=
  let x := u * (Transc.exp eps + 1)
  if Transc.exp eps + delta < x then !ind else ind

end

/-- `PermuteAndFlip.randomise` as a function of the decisions it takes: at each round a position in the list of
remaining candidates (`int(rng.random() * len(candidate_ids))`) and the outcome of the Bernoulli flip. -/
def pfLoop : List Nat → List (Nat × Bool) → Option Nat
  | _, [] => none                       -- script exhausted
  | ids, (pos, flip) :: rest =>
    match ids with
    | [] => none                        -- RuntimeError("No value to return")
    | id :: tl =>
      let idx := (id :: tl).getD pos id
      if flip then some idx else pfLoop ((id :: tl).erase idx) rest

end DPL
