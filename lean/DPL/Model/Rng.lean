/-
C14 — where the randomness of every entry point comes from.

`crs` is the decision logic of `diffprivlib.utils.check_random_state(seed, secure)`; the plans below compute, with the
same plumbing the code uses (tool / estimator: `check_random_state(random_state)`, then every mechanism:
`check_random_state(random_state, True)` in `DPMechanism.__init__`; Staircase and Bingham replace a SystemRandom by
`np.random.default_rng()`), the provenance of every privacy-relevant draw of every public entry point.

Core Lean only.
-/
namespace DPL
namespace Rng

/-- what can be passed as `random_state=` -/
inductive Seed where
  | none              -- None
  | globalSingleton   -- np.random.mtrand._rand (what sklearn's check_random_state returns for None)
  | int               -- an integer seed
  | randomState       -- a np.random.RandomState instance owned by the caller
  | systemRandom      -- a secrets.SystemRandom instance
  | other             -- anything else (a Generator, a string, …)
  deriving DecidableEq, Repr

/-- where the generator an entry point ends up holding gets its bits from -/
inductive RngSrc where
  | osCsprng        -- secrets.SystemRandom: os.urandom
  | globalNumpy     -- numpy's global RandomState (np.random.seed reproduces it)
  | seeded          -- a RandomState seeded by / owned by the caller
  | freshGenerator  -- np.random.default_rng(): PCG64 seeded from OS entropy, independent of the global generators
  | error           -- the call raises
  deriving DecidableEq, Repr

/-- `check_random_state(seed, secure)` -/
def crs (s : Seed) (secure : Bool) : RngSrc :=
  if secure then
    match s with
    | .systemRandom => .osCsprng              -- `isinstance(seed, SystemRandom)`: returned as is
    | .none => .osCsprng                      -- `seed is None or seed is np.random.mtrand._rand`: SystemRandom()
    | .globalSingleton => .osCsprng
    | .int => .seeded                         -- falls through to sklearn's check_random_state
    | .randomState => .seeded
    | .other => .error
  else
    match s with
    | .systemRandom => .error                 -- ValueError
    | .none => .globalNumpy                   -- sklearn: None ↦ np.random.mtrand._rand
    | .globalSingleton => .globalNumpy
    | .int => .seeded
    | .randomState => .seeded
    | .other => .error

/-- the object a `check_random_state` call returned, seen as the `random_state=` argument of the next callee -/
def RngSrc.asSeed : RngSrc → Seed
  | .osCsprng => .systemRandom
  | .globalNumpy => .globalSingleton
  | .seeded => .randomState
  | .freshGenerator => .other
  | .error => .other

inductive Mech where
  | Binary | Bingham | Exponential | PermuteAndFlip | ExponentialCategorical | ExponentialHierarchical
  | Gaussian | GaussianAnalytic | GaussianDiscrete | Geometric | GeometricTruncated | GeometricFolded
  | Laplace | LaplaceTruncated | LaplaceFolded | LaplaceBoundedDomain | LaplaceBoundedNoise
  | Snapping | Staircase | Uniform | Vector
  deriving DecidableEq, Repr

/-- `if isinstance(self._rng, secrets.SystemRandom): self._rng = np.random.default_rng()` in the constructor -/
def Mech.swaps : Mech → Bool
  | .Staircase => true
  | .Bingham => true
  | _ => false

/-- the `_rng` a mechanism constructed with `random_state=s` holds -/
def mechRng (m : Mech) (s : Seed) : RngSrc :=
  let r := crs s true
  if m.swaps && r == .osCsprng then .freshGenerator else r

/-- the public ways of obtaining a mechanism instance other than the constructor -/
inductive CopyWay where
  | shallow   -- `mech.copy()`, `copy.copy(mech)`: the copy SHARES the generator object
  | deep      -- `copy.deepcopy(mech)`, pickle round-trip: the generator is duplicated
  deriving DecidableEq, Repr

/-- source of the `_rng` of an instance obtained by copying a mechanism constructed with `random_state=s`.  A
SystemRandom has no state (`getstate` raises NotImplementedError), so a deep copy of a mechanism that holds one — as
its `_rng` or as its stored `random_state` attribute — yields no instance at all; RandomState / Generator objects are
duplicated with their class; a shallow copy shares the generator object. -/
def copySrc (w : CopyWay) (m : Mech) (s : Seed) : RngSrc :=
  match w with
  | .shallow => mechRng m s
  | .deep =>
    if s = .systemRandom then .error
    else match mechRng m s with
      | .osCsprng => .error
      | r => r

/-- tool / estimator preamble: `random_state = check_random_state(random_state)` -/
def hop (s : Seed) : Seed := (crs s false).asSeed

/-- `n` nested preambles (tool inside estimator inside estimator …) -/
def hops : Nat → Seed → Seed
  | 0, s => s
  | n + 1, s => hop (hops n s)

inductive Kind where
  | noise        -- a draw the privacy guarantee relies on (additive noise, randomised selection)
  | structural   -- data-independent choice (initial centres, tree structure, row shuffling, derived seeds)
  deriving DecidableEq, Repr

inductive Site where
  | mech (m : Mech)           -- a mechanism's `randomise`
  | quantileUniform           -- quantile: position inside the selected interval (`mech._rng.random()`)
  | emptyLeaf                 -- tree: label of a leaf that received no sample (PermuteAndFlip on all-zero counts)
  | kmeansInit                -- KMeans: initial centres
  | treeStructure             -- tree: split features / thresholds
  | forestShuffle             -- forest: row permutation (shuffle=True)
  | derivedSeeds              -- ints drawn from the estimator's generator to seed sub-problems (seeded runs only)
  deriving DecidableEq, Repr

structure Draw where
  site : Site
  kind : Kind
  src : RngSrc
  deriving DecidableEq, Repr

/-- a mechanism constructed with `random_state=s` and randomised -/
def viaMech (m : Mech) (s : Seed) : Draw := ⟨.mech m, .noise, mechRng m s⟩

/-- a draw taken directly from the (non-secure) generator object `s` -/
def direct (site : Site) (k : Kind) (s : Seed) : Draw := ⟨site, k, crs s false⟩

inductive Entry where
  | mech (m : Mech)
  | count_nonzero | mean | nanmean | var | nanvar | std | nanstd | sum | nansum
  | histogram | histogramdd | histogram2d | quantile | percentile | median
  | GaussianNB | KMeans | StandardScaler | LinearRegression | LogisticRegression | PCA
  | RandomForestClassifier | DecisionTreeClassifier | covariance_eig
  deriving DecidableEq, Repr

def meanPlan (s : Seed) : List Draw := [viaMech .LaplaceTruncated (hop s)]
def varPlan (s : Seed) : List Draw := [viaMech .LaplaceBoundedDomain (hop s)]
/-- `_sum`: GeometricTruncated for integer dtypes, LaplaceTruncated otherwise -/
def sumPlan (s : Seed) : List Draw := [viaMech .LaplaceTruncated (hop s), viaMech .GeometricTruncated (hop s)]
def histPlan (s : Seed) : List Draw := [viaMech .GeometricTruncated (hop s)]
/-- `quantile`: Exponential selects the interval; the position inside it is drawn from THE MECHANISM's generator -/
def quantilePlan (s : Seed) : List Draw :=
  let t := hop s
  [viaMech .Exponential t, ⟨.quantileUniform, .noise, mechRng .Exponential t⟩]

def covEigPlan (s : Seed) : List Draw :=
  let t := hop s
  [viaMech .LaplaceBoundedDomain t, viaMech .Bingham t]

/-- `DecisionTreeClassifier.fit` with `random_state=s` -/
def treePlan (s : Seed) : List Draw :=
  let t := hop s
  [direct .treeStructure .structural t, viaMech .PermuteAndFlip t, ⟨.emptyLeaf, .noise, mechRng .PermuteAndFlip t⟩]

/-- seed handed to a sub-problem: `None` when the estimator is unseeded, otherwise an int drawn from its generator
(when the estimator's own preamble `check_random_state(random_state)` raises, nothing is handed on: `other`) -/
def subSeed (s : Seed) : Seed :=
  if s = .none then .none else if crs s false = .error then .other else .int

def plan : Entry → Seed → List Draw
  | .mech m, s => [viaMech m s]
  | .count_nonzero, s => [viaMech .GeometricTruncated (hop (hop s))]      -- count_nonzero → sum(dtype=intp) → _sum
  | .mean, s => meanPlan s
  | .nanmean, s => meanPlan s
  | .var, s => varPlan s
  | .nanvar, s => varPlan s
  | .std, s => varPlan s
  | .nanstd, s => varPlan s
  | .sum, s => sumPlan s
  | .nansum, s => sumPlan s
  | .histogram, s => histPlan s
  | .histogramdd, s => histPlan s
  | .histogram2d, s => histPlan (hop s)                                   -- histogram2d → histogramdd
  | .quantile, s => quantilePlan s
  | .percentile, s => quantilePlan (hop s)
  | .median, s => quantilePlan (hop s)
  | .GaussianNB, s =>
    let t := hop s
    [viaMech .GeometricTruncated t, viaMech .LaplaceTruncated t, viaMech .LaplaceBoundedDomain t]
  | .KMeans, s =>
    let t := hop s
    [direct .kmeansInit .structural t, viaMech .GeometricFolded t, viaMech .LaplaceBoundedDomain t]
  | .StandardScaler, s => let t := hop s; meanPlan t ++ varPlan t         -- nanmean / nanvar with random_state=t
  | .LinearRegression, s =>
    let t := hop s
    meanPlan (hop t) ++ [viaMech .Laplace t, viaMech .LaplaceFolded t]    -- _preprocess_data → mean; then the coefficients
  | .LogisticRegression, s =>
    let t := hop s
    (if s = .none then [] else [direct .derivedSeeds .structural t]) ++ [viaMech .Vector (hop (subSeed s))]
  | .PCA, s => let t := hop s; meanPlan t ++ covEigPlan t
  | .RandomForestClassifier, s =>
    let t := hop s
    (if s = .none then [] else [direct .derivedSeeds .structural t]) ++
      [direct .forestShuffle .structural t] ++ treePlan (subSeed s)
  | .DecisionTreeClassifier, s => treePlan s
  | .covariance_eig, s => covEigPlan s

/-- the code before the repairs d3ce958 / d80d762 / 1816d17 (regression witnesses) -/
def oldQuantilePlan (s : Seed) : List Draw :=
  let t := hop s
  [viaMech .Exponential t, direct .quantileUniform .noise t]              -- `random_state.random()`

def oldForestTreeSeed (_ : Seed) : Seed := .int                            -- always an int from the forest's generator

def oldTreePlan (s : Seed) : List Draw :=
  let t := hop s
  [direct .treeStructure .structural t, viaMech .PermuteAndFlip t, direct .emptyLeaf .noise t]

def allMechs : List Mech :=
  [.Binary, .Bingham, .Exponential, .PermuteAndFlip, .ExponentialCategorical, .ExponentialHierarchical,
   .Gaussian, .GaussianAnalytic, .GaussianDiscrete, .Geometric, .GeometricTruncated, .GeometricFolded,
   .Laplace, .LaplaceTruncated, .LaplaceFolded, .LaplaceBoundedDomain, .LaplaceBoundedNoise,
   .Snapping, .Staircase, .Uniform, .Vector]

/-- acceptable provenance of a noise draw when `random_state=None` -/
def Draw.secure (d : Draw) : Bool :=
  d.src == .osCsprng ||
  (d.src == .freshGenerator && (d.site == .mech .Staircase || d.site == .mech .Bingham))

end Rng
end DPL
