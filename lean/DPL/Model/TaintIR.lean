/-
C06 — a small information-flow IR for the bodies of the library's tools and estimator methods, and its taint checker.

`harness/translate/taint.py` walks the AST of every entry point named by C06 on every run and writes
`DPL/Generated/C06Flows.lean`: one `Fn` per entry point plus the obligation `flowsOk fn = true` (`decide +kernel`).
`DPL/Proofs/TaintIR.lean` proves what a passed check means (`noninterference`): for EVERY interpretation of the pure
operations and of the branch decisions, two runs that start in environments agreeing on every variable that is not a
declared source, and that are handed the same forced mechanism outputs, configure the same mechanism calls and return the
same values (whenever both return).

Variables are numbers (the translator interns names; every program variable `v` is split into `v` — its contents — and
`v#shape` — its dimensions, which C06 treats as public).  Statements:

  assign x op args            x := op(args)              a pure function of its arguments (which one is irrelevant)
  declass x cfg input         x := <Mechanism>(cfg).randomise(input)   or a call of another entry point with `epsilon=`:
                              the value is read from the list of forced outputs (as in `Plan.run`); `cfg` is recorded in
                              the trace of configured calls and must be clean, `input` may be anything
  probe x args                x := an occupancy pattern of the data (DESIGN §6 C06: labels present / non-empty clusters);
                              read from the same forced list — "both datasets have the same occupancy" is the hypothesis
                              `Plan.noninterference` carries
  branch id cond t e          if dec_id(cond) then t else e
  loop k id cond body         while dec_id(cond): body   (k = number of rounds the checker may use to find an invariant)
  ret vs                      return (what is released: the returned values / the attributes a fit sets)
  halt raised                 raise (a refusal; allowed under data-dependent control: the theorem is about runs that return)
  halt warned                 PrivacyLeakWarning was issued (the declared leak of C11): the path is outside C06's quantifier
                              ("all domain parameters given"); must not itself sit under data-dependent control

Core Lean only.
-/
namespace DPL
namespace TaintIR

abbrev Var := Nat

inductive Halt where
  | raised | warned | stuck      -- stuck: out of fuel or out of forced outputs
  deriving DecidableEq, Repr

inductive Stmt where
  | skip
  | seq (a b : Stmt)
  | assign (x : Var) (op : Nat) (args : List Var)
  | declass (x : Var) (cfg input : List Var)
  | probe (x : Var) (args : List Var)
  | branch (id : Nat) (cond : List Var) (t e : Stmt)
  | loop (k : Nat) (id : Nat) (cond : List Var) (body : Stmt)
  | ret (vs : List Var)
  | halt (h : Halt)
  deriving Repr

/-- `Stmt.block [a, b, c] = seq a (seq b (seq c skip))` (what the generator writes) -/
def Stmt.block : List Stmt → Stmt
  | [] => .skip
  | s :: ss => .seq s (Stmt.block ss)

structure Fn where
  sources : List Var      -- the variables that hold the data on entry (contents of `array`, `X`, `y`, `weights`, …)
  body : Stmt
  deriving Repr

/-! ### the checker: abstract interpretation over "set of tainted variables" + implicit-flow context `pc` -/

abbrev Ctx := List Var

def tainted (Γ : Ctx) (vs : List Var) : Bool := vs.any fun v => Γ.contains v
def ins (x : Var) (Γ : Ctx) : Ctx := if Γ.contains x then Γ else x :: Γ
def del (x : Var) (Γ : Ctx) : Ctx := Γ.filter fun y => y != x
def union (a b : Ctx) : Ctx := a ++ b.filter fun y => !a.contains y
def subset (a b : Ctx) : Bool := a.all fun y => b.contains y

def grow (f : Ctx → Ctx) : Nat → Ctx → Ctx
  | 0, Γ => Γ
  | k + 1, Γ => grow f k (union Γ (f Γ))

/-- `flow s Γ pc = some Γ'`: no forbidden flow in `s` when the variables of `Γ` are tainted on entry and (`pc`) the
statement is under data-dependent control; `Γ'` are the variables tainted on exit -/
def flow : Stmt → Ctx → Bool → Option Ctx
  | .skip, Γ, _ => some Γ
  | .seq a b, Γ, pc =>
    match flow a Γ pc with
    | some Γ' => flow b Γ' pc
    | none => none
  | .assign x _ args, Γ, pc => some (if pc || tainted Γ args then ins x Γ else del x Γ)
  | .declass x cfg _, Γ, pc => if pc || tainted Γ cfg then none else some (del x Γ)
  | .probe x _, Γ, pc => if pc then none else some (del x Γ)
  | .branch _ c t e, Γ, pc =>
    match flow t Γ (pc || tainted Γ c), flow e Γ (pc || tainted Γ c) with
    | some a, some b => some (union a b)
    | _, _ => none
  | .loop k _ c b, Γ, pc =>
    let inv := grow (fun Δ => (flow b Δ (pc || tainted Δ c)).getD Δ) k Γ
    match flow b inv (pc || tainted inv c) with
    | some Γb => if subset Γb inv && subset Γ inv then some inv else none
    | none => none
  | .ret vs, Γ, pc => if pc || tainted Γ vs then none else some Γ
  | .halt .raised, Γ, _ => some Γ
  | .halt _, Γ, pc => if pc then none else some Γ

def flowsOk (f : Fn) : Bool := (flow f.body f.sources false).isSome

/-! ### concrete semantics -/

/-- meaning of the pure operations and of the branch / loop decisions: ARBITRARY functions of their arguments -/
structure Interp (V : Type) where
  op : Nat → List V → V
  dec : Nat → List V → Bool

structure St (V : Type) where
  env : Var → V
  outs : List V               -- forced mechanism outputs (and probe outcomes) not yet consumed
  trace : List (List V)       -- configuration of the mechanism calls made so far

inductive Res (V : Type) where
  | run (s : St V)
  | ret (trace : List (List V)) (vals : List V)
  | halt (h : Halt)

def upd {V : Type} (e : Var → V) (x : Var) (v : V) : Var → V := fun y => if y = x then v else e y

variable {V : Type}

def exec (I : Interp V) : Nat → Stmt → St V → Res V
  | 0, _, _ => .halt .stuck
  | _ + 1, .skip, s => .run s
  | n + 1, .seq a b, s =>
    match exec I n a s with
    | .run s' => exec I n b s'
    | r => r
  | _ + 1, .assign x op args, s => .run { s with env := upd s.env x (I.op op (args.map s.env)) }
  | _ + 1, .declass x cfg _, s =>
    match s.outs with
    | [] => .halt .stuck
    | o :: os => .run ⟨upd s.env x o, os, s.trace ++ [cfg.map s.env]⟩
  | _ + 1, .probe x _, s =>
    match s.outs with
    | [] => .halt .stuck
    | o :: os => .run ⟨upd s.env x o, os, s.trace⟩
  | n + 1, .branch id c t e, s => if I.dec id (c.map s.env) then exec I n t s else exec I n e s
  | n + 1, .loop k id c b, s =>
    if I.dec id (c.map s.env) then
      match exec I n b s with
      | .run s' => exec I n (.loop k id c b) s'
      | r => r
    else .run s
  | _ + 1, .ret vs, s => .ret s.trace (vs.map s.env)
  | _ + 1, .halt h, _ => .halt h

/-- run a function: `fuel` bounds the nesting depth + loop rounds -/
def Fn.run (I : Interp V) (fuel : Nat) (f : Fn) (env : Var → V) (outs : List V) : Res V :=
  exec I fuel f.body ⟨env, outs, []⟩

end TaintIR
end DPL
