/-
C16 — a tiny imperative IR for the five scoping methods of `diffprivlib/accountant.py`
(`__enter__`, `__exit__`, `set_default`, `pop_default`, `load_default`) and its interpreter over the faithful state `St`
of `DPL/Model/Scope.lean`.

The translator `harness/translate/scopeir.py` re-reads the bodies of those methods from /repo's CURRENT AST on every
run and emits them as `Stmt` terms (`DPL/Generated/C16Scope.lean`); the generated obligations say that the interpreter,
run on the generated bodies, is exactly the hand-written machine (`enterI`, `exitI`, `stepI`) that the C16 theorems are
about.  Calls of `pop_default` / `set_default` inside a body are interpreted by their CONTRACT (clear-and-return /
overwrite the class attribute); that the bodies of those two methods meet the contract is itself one of the generated
obligations (assume/guarantee, no recursion).

Values are `Option AccId` (an accountant reference or `None`).  Core Lean only.
-/
import DPL.Model.Scope
namespace DPL
namespace ScopeIR

inductive Expr where
  | none                    -- `None`
  | self                    -- `self`
  | arg                     -- the `accountant` parameter of `load_default`
  | clsDefault              -- `BudgetAccountant._default`
  | selfOld                 -- `self.old_default`  (AttributeError when the instance has none)
  | loc                     -- the method's one local variable (`default` in `pop_default`)
  | newAcc                  -- `BudgetAccountant()`
  | callPop                 -- `self.pop_default()` / `BudgetAccountant.pop_default()`
  | callSet (recv : Expr)   -- `recv.set_default()` (returns `recv`)
  deriving Repr

inductive Stmt where
  | skip
  | seq (a b : Stmt)
  | setCls (e : Expr)                 -- `BudgetAccountant._default = e`
  | setOld (e : Expr)                 -- `self.old_default = e`
  | setLoc (e : Expr)                 -- `<local> = e`
  | eval (e : Expr)                   -- expression statement
  | ifNotNone (c : Expr) (t : Stmt)   -- `if c is not None: t`
  | ifIsNone (c : Expr) (t : Stmt)    -- `if c is None: t`
  | delOld                            -- `del self.old_default`
  | ret (e : Expr)                    -- `return e`
  deriving Repr

inductive Err where
  | attributeError     -- missing `old_default`, or a method call on `None`
  | stuck              -- ill-formed body (no receiver, unset local): never produced by a well-formed translation
  deriving DecidableEq, Repr

/-- how a body ended -/
inductive Outcome where
  | normal                              -- fell off the end (Python returns `None`)
  | returned (v : Option AccId)
  | raised (e : Err)
  deriving DecidableEq, Repr

structure Frame where
  self : Option AccId            -- receiver (`none` for a static method)
  arg : Option AccId
  loc : Option (Option AccId)    -- the local variable, once assigned

/-- expression evaluation: new state (calls have side effects; the state is kept on errors too) and value -/
def evalE (fr : Frame) : St → Expr → St × Except Err (Option AccId)
  | σ, .none => (σ, .ok Option.none)
  | σ, .self => match fr.self with
      | some a => (σ, .ok (some a))
      | Option.none => (σ, .error .stuck)
  | σ, .arg => (σ, .ok fr.arg)
  | σ, .clsDefault => (σ, .ok σ.default)
  | σ, .selfOld => match fr.self with
      | some a => (match σ.old a with
          | some v => (σ, .ok v)
          | Option.none => (σ, .error .attributeError))
      | Option.none => (σ, .error .stuck)
  | σ, .loc => match fr.loc with
      | some v => (σ, .ok v)
      | Option.none => (σ, .error .stuck)
  | σ, .newAcc => ({ σ with fresh := σ.fresh + 1 }, .ok (some (.fresh σ.fresh)))
  | σ, .callPop => ({ σ with default := Option.none }, .ok σ.default)
  | σ, .callSet r =>
      match evalE fr σ r with
      | (σ', .ok (some x)) => ({ σ' with default := some x }, .ok (some x))
      | (σ', .ok Option.none) => (σ', .error .attributeError)
      | (σ', .error e) => (σ', .error e)

/-- statement execution: state, frame (the local), how it ended -/
def exec : Frame → St → Stmt → St × Frame × Outcome
  | fr, σ, .skip => (σ, fr, .normal)
  | fr, σ, .seq a b =>
      match exec fr σ a with
      | (σ', fr', .normal) => exec fr' σ' b
      | r => r
  | fr, σ, .setCls e =>
      match evalE fr σ e with
      | (σ', .ok v) => ({ σ' with default := v }, fr, .normal)
      | (σ', .error x) => (σ', fr, .raised x)
  | fr, σ, .setOld e =>
      match evalE fr σ e with
      | (σ', .ok v) => (match fr.self with
          | some a => ({ σ' with old := upd σ'.old a (some v) }, fr, .normal)
          | Option.none => (σ', fr, .raised .stuck))
      | (σ', .error x) => (σ', fr, .raised x)
  | fr, σ, .setLoc e =>
      match evalE fr σ e with
      | (σ', .ok v) => (σ', { fr with loc := some v }, .normal)
      | (σ', .error x) => (σ', fr, .raised x)
  | fr, σ, .eval e =>
      match evalE fr σ e with
      | (σ', .ok _) => (σ', fr, .normal)
      | (σ', .error x) => (σ', fr, .raised x)
  | fr, σ, .ifNotNone c t =>
      match evalE fr σ c with
      | (σ', .ok (some _)) => exec fr σ' t
      | (σ', .ok Option.none) => (σ', fr, .normal)
      | (σ', .error x) => (σ', fr, .raised x)
  | fr, σ, .ifIsNone c t =>
      match evalE fr σ c with
      | (σ', .ok Option.none) => exec fr σ' t
      | (σ', .ok (some _)) => (σ', fr, .normal)
      | (σ', .error x) => (σ', fr, .raised x)
  | fr, σ, .delOld =>
      match fr.self with
      | some a => (match σ.old a with
          | some _ => ({ σ with old := upd σ.old a Option.none }, fr, .normal)
          | Option.none => (σ, fr, .raised .attributeError))
      | Option.none => (σ, fr, .raised .stuck)
  | fr, σ, .ret e =>
      match evalE fr σ e with
      | (σ', .ok v) => (σ', fr, .returned v)
      | (σ', .error x) => (σ', fr, .raised x)

/-- run a method body; falling off the end is `return None` -/
def run (body : Stmt) (self arg : Option AccId) (σ : St) : St × Outcome :=
  match exec ⟨self, arg, Option.none⟩ σ body with
  | (σ', _, .normal) => (σ', .returned Option.none)
  | (σ', _, o) => (σ', o)

/-! ### the five contracts, as predicates on a body (what the generated obligations instantiate) -/

/-- `pop_default()`: clears the class attribute and returns what it held -/
def PopOk (body : Stmt) : Prop :=
  ∀ σ : St, run body Option.none Option.none σ = ({ σ with default := Option.none }, .returned σ.default)

/-- `a.set_default()`: overwrites the class attribute with `a` and returns `a` -/
def SetOk (body : Stmt) : Prop :=
  ∀ (σ : St) (a : AccId), run body (some a) Option.none σ = ({ σ with default := some a }, .returned (some a))

/-- `a.__enter__()` is `enterI` and returns `a` (so that `with a as b` binds `a`) -/
def EnterOk (body : Stmt) : Prop :=
  ∀ (σ : St) (a : AccId), run body (some a) Option.none σ = (enterI σ a, .returned (some a))

/-- `a.__exit__(…)` is `exitI`: same state, AttributeError exactly when the instance holds no saved default, and
otherwise it returns `None` (a falsy value: the body's exception keeps propagating) -/
def ExitOk (body : Stmt) : Prop :=
  ∀ (σ : St) (a : AccId), run body (some a) Option.none σ =
    ((exitI σ a).1, if (exitI σ a).2 then .raised .attributeError else .returned Option.none)

/-- `load_default(x)` is the `load` step of the machine: same state, returns the accountant the trace records -/
def LoadOk (body : Stmt) : Prop :=
  ∀ (σ : St) (x : Option AccId), run body Option.none x σ =
    ((stepI σ (.load x)).1,
     match (stepI σ (.load x)).2 with
     | [.loaded a] => .returned (some a)
     | _ => .raised .stuck)

/-! ### the bodies as they stand at the revision the model was written against (hand copy; the generated file
re-derives them from the source and proves the contracts for whatever it finds) -/

def handPop : Stmt := .seq (.setLoc .clsDefault) (.seq (.setCls .none) (.ret .loc))
def handSet : Stmt := .seq (.setCls .self) (.ret .self)
def handEnter : Stmt := .seq (.setOld .callPop) (.seq (.eval (.callSet .self)) (.ret .self))
def handExit : Stmt :=
  .seq (.eval .callPop) (.seq (.ifNotNone .selfOld (.eval (.callSet .selfOld))) .delOld)
def handLoad : Stmt :=
  .seq (.ifIsNone .arg (.seq (.ifIsNone .clsDefault (.setCls .newAcc)) (.ret .clsDefault))) (.ret .arg)

/-- every OTHER statement of the library that assigns `BudgetAccountant._default` or an `old_default` attribute
(file: statement, sorted).  There is exactly one: `RandomForestClassifier.__sklearn_tags__` saves the class attribute and
restores it in a `finally:` around scikit-learn's construction of a throw-away tree (repair fd6386f) — an identity on
the scope state, exercised by the C16 check's forest scenarios. -/
def knownOtherWriters : List String :=
  ["diffprivlib/models/forest.py: BudgetAccountant._default = default"]

end ScopeIR
end DPL
