/-
C04 static control-flow tie: a small IR for the bodies of `BudgetAccountant.check`, `BudgetAccountant.spend` and the
`slack` setter (diffprivlib/accountant.py), and an interpreter over the model's accountant state (`Acc α` of
`DPL/Model/Accountant.lean`).  `harness/translate/accountantir.py` re-reads the three bodies from /repo's CURRENT AST on
every run and emits them as terms of this IR (`DPL/Generated/C04Methods.lean`); `DPL/Proofs/AccountantIR.lean` proves that
the interpreter run on the bodies is the model's `Acc.step` — the machine the C04 theorems (`run_fits`,
`spend_iff_check`, `step_refused_noop`, …) are about.

What the interpreter takes from the MODEL rather than from the source: the arithmetic of `total()` (`totalCore`,
`mkBudget`; tied by the formula anchors of `DPL/Generated/AccountantFormulas.lean`) and `check_epsilon_delta`
(`checkEpsDelta`; C13's and the correspondence's business).  What it takes from the source: which validation is called on
which arguments and when, every guard (which atoms, which comparison, which connective, in which order), which list and
which slack are handed to `total()`, what is raised, what is appended/assigned and when, where the method returns.

Core Lean only, generic carrier.
-/
import DPL.Model.Accountant
namespace DPL
namespace AccIR

/-- the numbers a guard can mention -/
inductive Atom where
  | eps          -- first parameter of `check` / `spend`
  | delta        -- second parameter of `check` / `spend`
  | argSlack     -- the parameter of the `slack` setter
  | ceilEps      -- `self.epsilon`
  | ceilDelta    -- `self.delta`
  | slack        -- `self.slack`
  | minEps       -- `self.__min_epsilon`
  | zero | one
  | totEps       -- first component of the `total(…)` most recently computed in this body
  | totDelta     -- second component of it
  deriving DecidableEq, Repr

/-- guards; `a >= b` is emitted as `le b a`, `a > b` as `lt b a` (IEEE: the same relation), `x == float("inf")` as
`isInf x`, a chained comparison as the conjunction of its links -/
inductive Cond where
  | le (a b : Atom)
  | lt (a b : Atom)
  | eq (a b : Atom)
  | isInf (a : Atom)
  | and (p q : Cond)
  | or (p q : Cond)
  | not (p : Cond)
  deriving DecidableEq, Repr

/-- the `spent_budget=` argument of a call of `total` -/
inductive SpentExpr where
  | own                       -- omitted / `None`: the accountant's own list, not re-validated
  | ownPlus (a b : Atom)      -- `self.spent_budget + [(a, b)]`
  deriving DecidableEq, Repr

/-- the `slack=` argument of a call of `total` -/
inductive SlackExpr where
  | own                       -- omitted / `None`
  | given (a : Atom)
  deriving DecidableEq, Repr

inductive Stmt where
  | validate (a b : Atom) (allowZero : Bool)   -- `check_epsilon_delta(a, b[, allow_zero])`
  | retIf (c : Cond)                           -- `if c: return …`
  | raiseIf (x : Err) (c : Cond)               -- `if c: raise X(…)`
  | letTotal (sp : SpentExpr) (sl : SlackExpr) -- `… = self.total(spent_budget=sp, slack=sl)` (binds totEps, totDelta)
  | raise (x : Err)                            -- `raise X(…)`
  | callCheck (a b : Atom)                     -- `self.check(a, b)` (result discarded)
  | append (a b : Atom)                        -- `self.__spent_budget.append((a, b))`
  | setSlack (a : Atom)                        -- `self.__slack = float(a)`
  | ret                                        -- `return True` / `return self`
  deriving DecidableEq, Repr

abbrev Prog := List Stmt

section
variable {α : Type} [OfNat α 0] [OfNat α 1] [OfNat α 2] [Add α] [Sub α] [Mul α] [Div α] [Neg α]
  [LT α] [LE α] [DecidableLT α] [DecidableLE α] [NatCast α] [Transc α] [HasInf α]

/-- what a body can see: the accountant, its arguments, the last total -/
structure Env (α : Type) where
  acc : Acc α
  e : α
  d : α
  s : α
  tot : Option (Tot α)

/-- `none` = a name used before it is bound (Python: NameError) -/
def evalA (σ : Env α) : Atom → Option α
  | .eps => some σ.e
  | .delta => some σ.d
  | .argSlack => some σ.s
  | .ceilEps => some σ.acc.ceilEps
  | .ceilDelta => some σ.acc.ceilDelta
  | .slack => some σ.acc.slack
  | .minEps => some σ.acc.minEps
  | .zero => some 0
  | .one => some 1
  | .totEps => σ.tot.map (·.eps)
  | .totDelta => σ.tot.map (·.delta)

def evalC (σ : Env α) : Cond → Option Bool
  | .le a b => match evalA σ a, evalA σ b with
      | some x, some y => some (decide (x ≤ y))
      | _, _ => none
  | .lt a b => match evalA σ a, evalA σ b with
      | some x, some y => some (decide (x < y))
      | _, _ => none
  | .eq a b => match evalA σ a, evalA σ b with
      | some x, some y => some (feq x y)
      | _, _ => none
  | .isInf a => match evalA σ a with
      | some x => some (HasInf.isPosInf x)
      | none => none
  | .and p q => match evalC σ p, evalC σ q with
      | some x, some y => some (x && y)
      | _, _ => none
  | .or p q => match evalC σ p, evalC σ q with
      | some x, some y => some (x || y)
      | _, _ => none
  | .not p => match evalC σ p with
      | some x => some (!x)
      | none => none

/-- the header of `total(spent_budget=…, slack=…)` (which arguments are validated) around the model's arithmetic:
an explicit list is validated entry by entry, an explicit slack is range-checked, the accountant's own are not -/
def totalOf (a : Acc α) (spent : Option (List (Spend α))) (slack : Option α) : Except Err (Tot α) :=
  match (match spent with
    | none => (.ok a.spent : Except Err (List (Spend α)))
    | some l => match l.forM (fun sp => checkEpsDelta sp.eps sp.delta) with
        | .ok _ => .ok l
        | .error x => .error x) with
  | .error x => .error x
  | .ok sp =>
    match (match slack with
      | none => (.ok a.slack : Except Err α)
      | some s => if !(decide (0 ≤ s) && decide (s ≤ a.ceilDelta)) then .error .valueError else .ok s) with
    | .error x => .error x
    | .ok sl =>
      let t := totalCore sp sl
      mkBudget t.eps t.delta

def evalSpent (σ : Env α) : SpentExpr → Option (Option (List (Spend α)))
  | .own => some none
  | .ownPlus a b => match evalA σ a, evalA σ b with
      | some x, some y => some (some (σ.acc.spent ++ [⟨x, y⟩]))
      | _, _ => none

def evalSlack (σ : Env α) : SlackExpr → Option (Option α)
  | .own => some none
  | .given a => match evalA σ a with
      | some x => some (some x)
      | none => none

/-- run a body: the state the accountant is left in (ALSO when the body raises) and how the body ended.
`chk` is what `self.check(…)` does (state after, outcome). An unbound name ends the body with `typeError`. -/
def exec (chk : Acc α → α → α → Acc α × Res) : Prog → Env α → Acc α × Res
  | [], σ => (σ.acc, .ok)                                   -- falls off the end: returns None, raises nothing
  | .validate a b z :: k, σ => match evalA σ a, evalA σ b with
      | some x, some y => match checkEpsDelta x y z with
          | .ok _ => exec chk k σ
          | .error err => (σ.acc, .err err)
      | _, _ => (σ.acc, .err .typeError)
  | .retIf c :: k, σ => match evalC σ c with
      | some true => (σ.acc, .ok)
      | some false => exec chk k σ
      | none => (σ.acc, .err .typeError)
  | .raiseIf err c :: k, σ => match evalC σ c with
      | some true => (σ.acc, .err err)
      | some false => exec chk k σ
      | none => (σ.acc, .err .typeError)
  | .letTotal sp sl :: k, σ => match evalSpent σ sp, evalSlack σ sl with
      | some l, some s => match totalOf σ.acc l s with
          | .ok t => exec chk k { σ with tot := some t }
          | .error err => (σ.acc, .err err)
      | _, _ => (σ.acc, .err .typeError)
  | .raise err :: _, σ => (σ.acc, .err err)
  | .callCheck a b :: k, σ => match evalA σ a, evalA σ b with
      | some x, some y => match chk σ.acc x y with
          | (a', .ok) => exec chk k { σ with acc := a' }
          | (a', .err err) => (a', .err err)
      | _, _ => (σ.acc, .err .typeError)
  | .append a b :: k, σ => match evalA σ a, evalA σ b with
      | some x, some y => exec chk k { σ with acc := { σ.acc with spent := σ.acc.spent ++ [⟨x, y⟩] } }
      | _, _ => (σ.acc, .err .typeError)
  | .setSlack a :: k, σ => match evalA σ a with
      | some x => exec chk k { σ with acc := { σ.acc with slack := x } }
      | none => (σ.acc, .err .typeError)
  | .ret :: _, σ => (σ.acc, .ok)

/-- a body of `check` has no `self.check(…)` inside (the translator refuses recursion); if it had, that is an error -/
def noCheck (a : Acc α) (_ _ : α) : Acc α × Res := (a, .err .typeError)

/-- `acc.check(e, d)` with `check`'s body `p` -/
def execCheck (p : Prog) (a : Acc α) (e d : α) : Acc α × Res :=
  exec noCheck p ⟨a, e, d, a.slack, none⟩

/-- `acc.spend(e, d)` with `spend`'s body `p` and `check`'s body `c` -/
def execSpend (c p : Prog) (a : Acc α) (e d : α) : Acc α × Res :=
  exec (execCheck c) p ⟨a, e, d, a.slack, none⟩

/-- `acc.slack = s` with the setter's body `p` -/
def execSetSlack (p : Prog) (a : Acc α) (s : α) : Acc α × Res :=
  exec noCheck p ⟨a, s, s, s, none⟩

end

/-! ### hand copies of the three bodies (what accountant.py says at the revision the model was written against) -/

/-- `BudgetAccountant.check` -/
def handCheck : Prog :=
  [ .validate .eps .delta false,
    .retIf (.and (.isInf .ceilEps) (.eq .ceilDelta .one)),
    .raiseIf .valueError (.and (.lt .zero .eps) (.lt .eps .minEps)),
    .letTotal (.ownPlus .eps .delta) .own,
    .retIf (.and (.le .totEps .ceilEps) (.le .totDelta .ceilDelta)),
    .raise .budgetError ]

/-- `BudgetAccountant.spend` -/
def handSpend : Prog :=
  [ .callCheck .eps .delta,
    .append .eps .delta,
    .ret ]

/-- the `slack` setter -/
def handSetSlack : Prog :=
  [ .raiseIf .valueError (.not (.and (.le .zero .argSlack) (.le .argSlack .ceilDelta))),
    .letTotal .own (.given .argSlack),
    .raiseIf .budgetError (.or (.lt .ceilEps .totEps) (.lt .ceilDelta .totDelta)),
    .setSlack .argSlack ]

/-- what the four property getters return (source text of the returned expression) -/
def handGetters : List (String × String) :=
  [("epsilon", "self.__epsilon"), ("delta", "self.__delta"), ("slack", "self.__slack"),
   ("spent_budget", "self.__spent_budget.copy()")]

end AccIR
end DPL
