/-
Release plans of the estimators (C06, C08), transcribed from /repo AS IT IS AT HEAD (after the `fix:` commits):
  models/naive_bayes.py        GaussianNB._partial_fit / _noisy_class_counts / _update_mean_variance
  models/standard_scaler.py    StandardScaler.partial_fit / _incremental_mean_and_var (nanmean / nanvar with axis=0)
  models/k_means.py            KMeans.fit / _calc_iters / _split_epsilon / _update_centers / _distances_labels
  models/linear_regression.py  _preprocess_data / _construct_regression_obj
  models/logistic_regression.py  the epsilon / n_classes split over the one-vs-rest problems
  models/pca.py, models/utils.py covariance_eig   (schedule and parameters; eigen-decomposition inputs abstract)
  models/forest.py             row partition, one PermuteAndFlip per leaf (occupied leaves first), tree `apply`
Every epsilon share, sensitivity and bound is the coded expression.  Data enter only through `input` functions and
probes (the `Plan` type enforces it).  Generic numeric carrier, core Lean only.

Dataset = list of records; a record has features `x`, a class label `y` (index into the caller's classes) and
regression targets `t`.  Shape (`n`, `d`, number of classes/targets) is caller-visible and lives in the parameters.
Data-independent randomness of an estimator (KMeans initial centres, the random tree structure, the forest's row
partition) is a caller parameter here: it is fixed by `random_state` and never sees the data.
-/
import DPL.Model.Plan
import DPL.Model.PrivLoss
namespace DPL
namespace PM

structure Rec (α : Type) where
  x : List α
  y : Nat := 0
  t : List α := []

abbrev DS (α : Type) := List (Rec α)

/-- cube root (`np.cbrt`), only used by KMeans -/
class Cbrt (α : Type) where
  cbrt : α → α

instance : Cbrt Float := ⟨Float.cbrt⟩

variable {δ α ρ σ ι : Type}

/-- one invocation whose output is the release -/
def one (c : MechCall α) (inp : δ → α) : Plan δ α α := .call c inp (fun o => .release o)

/-- run `f i` for every `i` of a list, in order, collecting the releases -/
def forList : List ι → (ι → Plan δ α σ) → Plan δ α (List σ)
  | [], _ => .release []
  | i :: is, f => (f i).bind (fun r => (forList is f).bind (fun rs => .release (r :: rs)))

section
variable [OfNat α 0] [OfNat α 1] [Add α] [Sub α] [Mul α] [Div α] [Neg α]
  [LT α] [LE α] [DecidableLT α] [DecidableLE α] [NatCast α]

/-! ### numpy / Python pieces -/

/-- Python `max(a, b)`: `b` only when it is strictly greater -/
def pmax (a b : α) : α := if a < b then b else a
def pmin (a b : α) : α := if b < a then b else a
def pabs (a : α) : α := if a < 0 then -a else a
/-- `np.clip` / `clip_to_bounds` on one value (`lo ≤ hi`) -/
def clip (lo hi x : α) : α := if x < lo then lo else if hi < x then hi else x
def eqv (a b : α) : Bool := decide (a ≤ b) && decide (b ≤ a)
/-- sequential sum (numpy's pairwise order differs in rounding only) -/
def sumL (xs : List α) : α := xs.foldl (· + ·) 0
def meanL (xs : List α) : α := sumL xs / (xs.length : α)
/-- `np.var`, ddof = 0 -/
def varL (xs : List α) : α :=
  let m := meanL xs
  sumL (xs.map fun x => (x - m) * (x - m)) / (xs.length : α)
def nth (l : List α) (j : Nat) : α := l.getD j 0
def nat (n : Nat) : α := (n : α)

/-- feature `j` of a record after `clip_to_bounds` -/
def feat (lo hi : List α) (j : Nat) (r : Rec α) : α := clip (nth lo j) (nth hi j) (nth r.x j)
/-- target `i` of a record after `clip_to_bounds` -/
def targ (lo hi : List α) (i : Nat) (r : Rec α) : α := clip (nth lo i) (nth hi i) (nth r.t i)
/-- the records of group `c` under the grouping `g` -/
def grp (g : Rec α → Nat) (c : Nat) (D : DS α) : DS α := D.filter (fun r => g r == c)
/-- `max(abs(lower), abs(upper), upper - lower)`: a clipped record joining or leaving a group sum -/
def sumSens (lo hi : α) : α := pmax (pmax (pabs lo) (pabs hi)) (hi - lo)

/-! ### tools with `axis=0` on an `n × d` array: `d` cells of `epsilon / d` each with the cell's bounds -/

def meanCall (ε lo hi : α) (n : Nat) : MechCall α :=
  ⟨"LaplaceTruncated", ε, 0, (hi - lo) / (n : α), lo, hi, .osCsprng⟩
def varCall (ε lo hi : α) (n : Nat) : MechCall α :=
  ⟨"LaplaceBoundedDomain", ε, 0, ((hi - lo) / (n : α)) * ((hi - lo) / (n : α)) * ((n : α) - 1), 0,
    ((hi - lo) * (hi - lo)) / nat 4, .osCsprng⟩

/-- `mean(X, axis=0, bounds, epsilon)` (also `nanmean` on NaN-free data) -/
def meanAxis0 (ε : α) (lo hi : List α) (n d : Nat) : Plan (DS α) α (List α) :=
  forList (List.range d) fun j =>
    one (meanCall (ε / (d : α)) (nth lo j) (nth hi j) n) (fun D => meanL (D.map (feat lo hi j)))
def varAxis0 (ε : α) (lo hi : List α) (n d : Nat) : Plan (DS α) α (List α) :=
  forList (List.range d) fun j =>
    one (varCall (ε / (d : α)) (nth lo j) (nth hi j) n) (fun D => varL (D.map (feat lo hi j)))

/-! ### StandardScaler -/

structure ScalerParams (α : Type) where
  eps : α
  lo : List α
  hi : List α
  n : Nat
  d : Nat
  withMean : Bool := true
  withStd : Bool := true

/-- release: (noisy means, noisy variances) -/
def scalerPlan (p : ScalerParams α) : Plan (DS α) α (List α × List α) :=
  if !p.withMean && !p.withStd then .release ([], []) else
  let ε₀ := if p.withStd then p.eps / nat 2 else p.eps
  (meanAxis0 ε₀ p.lo p.hi p.n p.d).bind fun ms =>
    if p.withStd then (varAxis0 ε₀ p.lo p.hi p.n p.d).bind (fun vs => .release (ms, vs)) else .release (ms, [])

/-! ### GaussianNB -/

structure GnbParams (α : Type) where
  eps : α
  lo : List α
  hi : List α
  n : Nat
  d : Nat
  K : Nat          -- labels are 0 … K-1

def gnbCountCall (p : GnbParams α) : MechCall α :=
  ⟨"GeometricTruncated", p.eps / nat 3, 0, 1, 1, (p.n : α), .osCsprng⟩

def lab (r : Rec α) : Nat := r.y

/-- `[mech.randomise((y == y_i).sum()) for y_i in unique_y]` -/
def gnbCounts (p : GnbParams α) (present : List Nat) : Plan (DS α) α (List α) :=
  forList present fun c => one (gnbCountCall p) (fun D => (((grp lab c D).length : Nat) : α))

/-- stable insertion of index `i` (value `v`) into an ascending list of (value, index) -/
def insSorted (v : α) (i : Nat) : List (α × Nat) → List (α × Nat)
  | [] => [(v, i)]
  | (w, j) :: rest => if v < w then (v, i) :: (w, j) :: rest else (w, j) :: insSorted v i rest

/-- `np.argsort` of a short array (insertion sort, stable) -/
def argsort (xs : List α) : List Nat :=
  ((xs.zipIdx).foldl (fun acc (v, i) => insSorted v i acc) []).map (·.2)

/-- the count-repair loop of `_noisy_class_counts` (post-processing of the noisy counts) -/
def repairLoop (nT : α) (order : List Nat) (k : Nat) : Nat → Nat → List α → List α
  | 0, _, cs => cs
  | fuel + 1, i, cs =>
    let s := sumL cs
    if eqv s nT then cs else
    let idx := order.getD i 0
    let up := decide (s < nT)
    let v := nth cs idx
    let v' := clip 1 nT (if up then v + 1 else v - 1)
    repairLoop nT order k fuel (if up then (i + k - 1) % k else (i + 1) % k) (cs.set idx v')

def repairCounts (n : Nat) (cs : List α) : List α :=
  let k := cs.length
  let nT : α := (n : α)
  let i := if nT < sumL cs then 0 else k - 1
  repairLoop nT (argsort cs) k ((k + 1) * (k * n + 2)) i cs

/-- per feature: noisy class sum, then noisy sum of squared deviations from the noisy mean -/
def gnbFeature (p : GnbParams α) (c : Nat) (ni : α) (j : Nat) : Plan (DS α) α (α × α) :=
  let lo := nth p.lo j
  let hi := nth p.hi j
  let le := p.eps / nat 3 / (p.d : α)
  .call ⟨"LaplaceTruncated", le, 0, sumSens lo hi, lo * ni, hi * ni, .osCsprng⟩
    (fun D => sumL ((grp lab c D).map (feat p.lo p.hi j)))
    fun o =>
      let mu := o / ni
      let m := pmax (mu - lo) (hi - mu)
      let sq := m * m
      .call ⟨"LaplaceBoundedDomain", le, 0, sq, 0, sq * ni, .osCsprng⟩
        (fun D => sumL ((grp lab c D).map fun r => (feat p.lo p.hi j r - mu) * (feat p.lo p.hi j r - mu)))
        fun o2 => .release (mu, o2 / ni)

def gnbClass (p : GnbParams α) (ci : Nat × α) : Plan (DS α) α (List (α × α)) :=
  if eqv ci.2 0 then .release [] else forList (List.range p.d) (gnbFeature p ci.1 ci.2)

structure GnbRelease (α : Type) where
  classes : List Nat
  counts : List α
  stats : List (List (α × α))      -- per present class, per feature: (theta, var before smoothing)

/-- probe: which labels are present -/
def gnbPlan (p : GnbParams α) : Plan (DS α) α (GnbRelease α) :=
  .probe (fun D => (List.range p.K).map fun c => D.any (fun r => r.y == c)) fun occ =>
    let present := (List.range p.K).filter fun c => occ.getD c false
    (gnbCounts p present).bind fun raw =>
      let cnt := repairCounts p.n raw
      (forList (present.zip cnt) (gnbClass p)).bind fun st => .release ⟨present, cnt, st⟩

/-! ### KMeans -/

structure KmParams (α : Type) where
  eps : α
  lo : List α
  hi : List α
  n : Nat
  d : Nat
  k : Nat
  init : List (List α)      -- `_init_centers` (data independent, from `random_state`)
  inf : α                   -- `float("inf")`

section km
variable [Transc α] [Cbrt α]

def rho : α := nat 225 / nat 1000

/-- `np.cbrt(4 * dims * rho ** 2)` -/
def kmC (d : Nat) : α := Cbrt.cbrt (nat (4 * d) * (rho * rho))

/-- `_calc_iters` -/
def kmIters (p : KmParams α) : Nat :=
  let s : α := (p.d : α) + kmC p.d
  let em : α := Transc.sqrt (nat (500 * p.k ^ 3) / nat (p.n ^ 2) * Transc.pow s (nat 3))
  let v := pmax (pmin (p.eps / em) (nat 7)) (nat 2)
  (Transc.floor v).toNat

/-- `_split_epsilon`: (epsilon_0, epsilon_i) -/
def kmSplit (p : KmParams α) (iters : Nat) : α × α :=
  let e0 : α := kmC p.d
  let norm := p.eps / (iters : α) / ((p.d : α) + e0)
  (e0 * norm, 1 * norm)

end km

def clipRow (lo hi : List α) (r : Rec α) : List α := (List.range r.x.length).map fun j => feat lo hi j r

def sqDist (c x : List α) : α := sumL (List.zipWith (fun a b => (b - a) * (b - a)) c x)

/-- `np.argmin` (first minimum) of the squared distances to the centres -/
def argminFrom : List α → Nat → Nat → α → Nat
  | [], _, best, _ => best
  | v :: vs, i, best, bv => if v < bv then argminFrom vs (i + 1) i v else argminFrom vs (i + 1) best bv

def assign (lo hi : List α) (centres : List (List α)) (r : Rec α) : Nat :=
  let x := clipRow lo hi r
  match centres.map (fun c => sqDist c x) with
  | [] => 0
  | v :: vs => argminFrom vs 1 0 v

/-- one cluster's update: noisy count, then `d` noisy coordinate sums; release = the new centre -/
def kmCluster (p : KmParams α) (e0 ei : α) (centres : List (List α)) (c : Nat) : Plan (DS α) α (List α) :=
  let g := assign p.lo p.hi centres
  .call ⟨"GeometricFolded", e0, 0, 1, 1 / nat 2, p.inf, .osCsprng⟩ (fun D => (((grp g c D).length : Nat) : α))
    fun nc =>
      (forList (List.range p.d) fun j =>
        one ⟨"LaplaceBoundedDomain", ei, 0, sumSens (nth p.lo j) (nth p.hi j), nc * nth p.lo j, nc * nth p.hi j,
              .osCsprng⟩
          (fun D => sumL ((grp g c D).map (feat p.lo p.hi j)))).bind
        fun s => .release (s.map fun v => v / nc)

/-- `_update_centers`; probe: which clusters are non-empty under the current centres -/
def kmUpdate (p : KmParams α) (e0 ei : α) (centres : List (List α)) : Plan (DS α) α (List (List α)) :=
  .probe (fun D => (List.range p.k).map fun c => D.any (fun r => assign p.lo p.hi centres r == c)) fun occ =>
    forList (List.range p.k) fun c =>
      if occ.getD c false then kmCluster p e0 ei centres c else .release (centres.getD c [])

def kmLoop (p : KmParams α) (e0 ei : α) : Nat → List (List α) → Plan (DS α) α (List (List α))
  | 0, cs => .release cs
  | t + 1, cs => (kmUpdate p e0 ei cs).bind (kmLoop p e0 ei t)

/-- the whole fit for a given number of iterations and a given split (both are functions of the parameters) -/
def kmPlanWith (p : KmParams α) (iters : Nat) (e0 ei : α) : Plan (DS α) α (List (List α)) :=
  kmLoop p e0 ei iters p.init

def kmPlan [Transc α] [Cbrt α] (p : KmParams α) : Plan (DS α) α (List (List α)) :=
  let it := kmIters p
  kmPlanWith p it (kmSplit p it).1 (kmSplit p it).2

/-! ### LinearRegression -/

structure LinParams (α : Type) where
  eps : α
  lo : List α
  hi : List α
  ylo : List α
  yhi : List α
  n : Nat
  d : Nat
  t : Nat                   -- number of targets
  y1d : Bool := false       -- y passed as a 1-d array: its mean is a single-cell query
  fitIntercept : Bool := true
  inf : α

/-- `get_max_sensitivity`: `np.max(corners) - np.min(corners)` -/
def cornerSens (yl yu xl xu : α) : α :=
  let c1 := yl * xl
  let c2 := yl * xu
  let c3 := yu * xl
  let c4 := yu * xu
  pmax (pmax (pmax c1 c2) c3) c4 - pmin (pmin (pmin c1 c2) c3) c4

/-- `np.abs([l, u]).max() ** 2` -/
def sqSens (l u : α) : α := let m := pmax (pabs l) (pabs u); m * m

/-- `mean(y, axis=0, …)`: one cell when `y` is 1-d, `t` cells otherwise -/
def linMeanY (p : LinParams α) (ε : α) : Plan (DS α) α (List α) :=
  forList (List.range p.t) fun i =>
    one (meanCall (if p.y1d then ε else ε / (p.t : α)) (nth p.ylo i) (nth p.yhi i) p.n)
      (fun D => meanL (D.map (targ p.ylo p.yhi i)))

/-- number of monomial coefficients `n_targets + n_targets * d + d (d + 1) / 2` (Python float division) -/
def linCount (p : LinParams α) : α := nat (p.t + p.t * p.d) + nat (p.d * (p.d + 1)) / nat 2

/-- `_construct_regression_obj` on the centred data; `xo`, `yo` = the noisy offsets -/
def linCoefs (p : LinParams α) (ε : α) (xo yo : List α) : Plan (DS α) α (List α × List α × List α) :=
  let le := ε / linCount p
  let bxl := fun j => nth p.lo j - nth xo j
  let bxu := fun j => nth p.hi j - nth xo j
  let byl := fun i => nth p.ylo i - nth yo i
  let byu := fun i => nth p.yhi i - nth yo i
  let xv := fun j (r : Rec α) => feat p.lo p.hi j r - nth xo j
  let yv := fun i (r : Rec α) => targ p.ylo p.yhi i r - nth yo i
  (forList (List.range p.t) fun i =>
      one ⟨"LaplaceFolded", le, 0, sqSens (byl i) (byu i), 0, p.inf, .osCsprng⟩
        (fun D => sumL (D.map fun r => yv i r * yv i r))).bind fun c0 =>
  (forList ((List.range p.t).flatMap fun i => (List.range p.d).map fun j => (i, j)) fun ij =>
      one ⟨"Laplace", le, 0, cornerSens (byl ij.1) (byu ij.1) (bxl ij.2) (bxu ij.2), -p.inf, p.inf, .osCsprng⟩
        (fun D => sumL (D.map fun r => xv ij.2 r * yv ij.1 r))).bind fun c1 =>
  (forList ((List.range p.d).flatMap fun i => ((List.range p.d).filter (fun j => i ≤ j)).map fun j => (i, j)) fun ij =>
      if ij.1 == ij.2 then
        one ⟨"LaplaceFolded", le, 0, sqSens (bxl ij.1) (bxu ij.1), 0, p.inf, .osCsprng⟩
          (fun D => sumL (D.map fun r => xv ij.1 r * xv ij.1 r))
      else
        one ⟨"Laplace", le, 0, cornerSens (bxl ij.1) (bxu ij.1) (bxl ij.2) (bxu ij.2), -p.inf, p.inf, .osCsprng⟩
          (fun D => sumL (D.map fun r => xv ij.1 r * xv ij.2 r))).bind fun c2 =>
  .release (c0, c1, c2)

/-- release: the noisy offsets and the noisy monomial coefficients (the minimiser is post-processing) -/
def linPlan (p : LinParams α) : Plan (DS α) α ((List α × List α) × (List α × List α × List α)) :=
  if p.fitIntercept then
    let scale : α := 1 / nat (p.d + 1)
    let εi := p.eps * scale
    (meanAxis0 (εi / nat 2) p.lo p.hi p.n p.d).bind fun xo =>
    (linMeanY p (εi / nat 2)).bind fun yo =>
    (linCoefs p (p.eps * (1 - scale)) xo yo).bind fun cs => .release ((xo, yo), cs)
  else
    (linCoefs p (p.eps * (1 - 0)) [] []).bind fun cs => .release (([], []), cs)

/-! ### LogisticRegression: the split over the one-vs-rest problems (the Vector mechanism itself is C17) -/

/-- `n_classes` Vector invocations (one when there are two classes) of `epsilon / n_classes` each; the mechanism's input
is the loss function, which is data independent — the data reach the optimiser only through the noisy objective -/
def logregPlan (eps dataSens : α) (nClasses : Nat) : Plan (DS α) α (List α) :=
  let m := if nClasses == 2 then 1 else nClasses
  forList (List.range m) fun _ =>
    one ⟨"Vector", eps / (m : α), 0, dataSens, 0, 0, .osCsprng⟩ (fun _ => 0)

/-! ### PCA / covariance_eig: schedule and parameters (the eigen-decomposition is an abstract input) -/

structure PcaParams (α : Type) where
  eps : α
  centered : Bool
  lo : List α
  hi : List α
  n : Nat
  d : Nat
  k : Nat           -- `dims = min(n_components, d)` (all of them when n_components is not an integer)
  inf : α

/-- `eig D mean i` = i-th largest eigenvalue of `XcᵀXc / norm²` (Xc = rows minus the noisy mean, clipped to the norm);
`bing D mean i` stands for the projected covariance handed to the i-th Bingham call (a matrix; abstract here) -/
def pcaPlan (p : PcaParams α) (eig bing : DS α → List α → Nat → α) : Plan (DS α) α (List α × List α) :=
  let εc := if p.centered then p.eps else p.eps / nat 2
  let share := εc / nat (p.k + (if p.k == p.d then 0 else 1))
  let rest := fun (mean : List α) =>
    (forList (List.range p.d) fun i =>
        one ⟨"LaplaceBoundedDomain", share, 0, nat 2, 0, p.inf, .osCsprng⟩ (fun D => eig D mean i)).bind fun ev =>
    (forList (List.range (min p.k (p.d - 1))) fun i =>
        one ⟨"Bingham", share, 0, 1, -p.inf, p.inf, .osCsprng⟩ (fun D => bing D mean i)).bind fun _ =>
    .release (mean, ev)
  if p.centered then rest [] else (meanAxis0 (p.eps / nat 2) p.lo p.hi p.n p.d).bind rest

/-! ### DecisionTree / RandomForest -/

/-- the random tree of `_FittingTree.build` (data independent): per node the split feature, threshold and children
(`-1` = leaf) -/
structure Tree (α : Type) where
  feature : List Nat
  thr : List α
  left : List Int
  right : List Int
  depth : Nat

/-- `_FittingTree.apply` on one (clipped) row -/
def Tree.leafOf (t : Tree α) (x : List α) : Nat :=
  let rec go : Nat → Nat → Nat
    | 0, node => node
    | fuel + 1, node =>
      let l := t.left.getD node (-1)
      if l < 0 then node else
      if nth x (t.feature.getD node 0) ≤ nth t.thr node then go fuel l.toNat else go fuel (t.right.getD node (-1)).toNat
  go (t.depth + 1) 0

def Tree.leaves (t : Tree α) : List Nat := (List.range t.left.length).filter fun i => t.left.getD i (-1) < 0

structure ForestParams (α : Type) where
  eps : α
  lo : List α
  hi : List α
  n : Nat
  K : Nat
  trees : List (Tree α)
  treeOf : List Nat        -- row index -> tree index (`tree_idxs`, data independent)
  inf : α

/-- rows of tree `ti`, in order -/
def rowsOf (p : ForestParams α) (ti : Nat) (D : DS α) : DS α :=
  (D.zipIdx.filter fun ri => p.treeOf.getD ri.2 0 == ti).map (·.1)

/-- the utility vector of a leaf (`[np.sum(leaf_y == cls) for cls in classes]`) packed into one number, base `n + 1` -/
def packCounts (n K : Nat) (ys : List Nat) : α :=
  nat ((List.range K).foldr (fun c acc => acc * (n + 1) + (ys.filter (· == c)).length) 0)

def pfCall (p : ForestParams α) : MechCall α := ⟨"PermuteAndFlip", p.eps, 0, 1, -p.inf, p.inf, .osCsprng⟩

/-- one tree: probe = which leaves are occupied; one PermuteAndFlip per occupied leaf (ascending node id), then one per
empty leaf on the all-zero utility.  Release: (leaf, chosen class index) pairs -/
def treePlan (p : ForestParams α) (ti : Nat) (t : Tree α) : Plan (DS α) α (List (Nat × α)) :=
  let leafOfRec := fun (r : Rec α) => t.leafOf (clipRow p.lo p.hi r)
  .probe (fun D => t.leaves.map fun l => (rowsOf p ti D).any (fun r => leafOfRec r == l)) fun occ =>
    let ls := t.leaves.zip occ
    (forList ((ls.filter (·.2)).map (·.1)) fun l =>
        (one (pfCall p) (fun D => packCounts p.n p.K (((rowsOf p ti D).filter fun r => leafOfRec r == l).map (·.y)))).bind
          fun o => .release (l, o)).bind fun a =>
    (forList ((ls.filter (!·.2)).map (·.1)) fun l =>
        (one (pfCall p) (fun _ => 0)).bind fun o => .release (l, o)).bind fun b =>
    .release (a ++ b)

def forestPlan (p : ForestParams α) : Plan (DS α) α (List (List (Nat × α))) :=
  forList p.trees.zipIdx fun ti => treePlan p ti.2 ti.1

end
end PM
end DPL
