/-
Model of the seeding / parallel-section discipline of `diffprivlib/models/forest.py` (`RandomForestClassifier.fit`)
and `diffprivlib/models/logistic_regression.py` (`LogisticRegression.fit`) — C15.  Core Lean only.

What the code does (forest.py, `fit`):
    random_state = check_random_state(self.random_state)                    parent generator (from the int seed)
    trees = [self._make_estimator(append=False, random_state=random_state)  sklearn `_set_random_states`: ONE
             for _ in range(n_more_estimators)]                             `random_state.randint(MAX_INT)` per tree,
                                                                            sequentially, BEFORE the parallel section
    tree_idxs = random_state.permutation(n_samples) if self.shuffle else np.arange(n_samples)
    tree_idxs = (tree_idxs // (n_samples / n_more_estimators)).astype(int)  row -> tree, index arithmetic only
    trees = Parallel(n_jobs=self.n_jobs, prefer="threads")(
        delayed(_parallel_build_trees)(tree=t, X=X[tree_idxs == i], y=y[tree_idxs == i], …) for i, t in enumerate(trees))
  and in the worker  DecisionTreeClassifier.fit:  random_state = check_random_state(self.random_state)
  (a NEW RandomState from the tree's own int seed), handed to `_FittingTree` and to every `PermuteAndFlip`.
logistic_regression.py (`fit`, as repaired): `class_seeds = random_state.randint(MAX, size=n_classes)` before
`Parallel(n_jobs=self.n_jobs, prefer='processes')`, task i gets `random_state=class_seeds[i]`.

Model: the parent draws `k` seeds sequentially; task `i` is a small-step machine whose local state is built ONLY from
`(seed_i, input_i)` and whose step touches only that local state; a *schedule* is the order in which atomic task steps
are executed (any interleaving, any completion order, hence any number of workers); results are collected by index.
The contrast models (`runShared`: all tasks draw from the one parent generator — the thread-backend behaviour of a
shared `RandomState`; `runCopied`: every task starts from a copy of the parent state — what pickling a `RandomState`
to worker processes does) are what the code would be without the discipline.

Runtime facts the model cannot exhibit (observed by the harness, not proved): the actual thread/process interleavings;
that joblib returns results in submission order; that no other mutable state is shared inside numpy/sklearn; that
`RandomState(seed)` streams differ for different seeds (a property of MT19937).
-/
import DPL.Model.Num
namespace DPL

/-- a deterministic generator, abstractly: one draw, and construction from an integer seed (`RandomState(seed)`) -/
structure Gen (G : Type) where
  next : G → Nat × G
  ofSeed : Nat → G

/-- `k` sequential draws from the parent generator -/
def drawSeeds {G : Type} (R : Gen G) : Nat → G → List Nat × G
  | 0, g => ([], g)
  | k + 1, g => ((R.next g).1 :: (drawSeeds R k (R.next g).2).1, (drawSeeds R k (R.next g).2).2)

def iter {T : Type} (f : T → T) : Nat → T → T
  | 0, x => x
  | n + 1, x => iter f n (f x)

/-! ### the row → tree arithmetic -/

/-- numpy's `//` on doubles (`npy_floor_divide`); over the reals it is `⌊a / b⌋` -/
class PyFloorDiv (α : Type) where
  floorDiv : α → α → α

section subsets
variable (α : Type) [NatCast α] [Div α] [PyFloorDiv α] [Transc α]

/-- `(tree_idxs // (n_samples / n_more_estimators)).astype(int)` for one entry `idx` of `tree_idxs`
(`astype(int)` truncates; the argument is already an integer-valued non-negative double) -/
def treeOf (n k idx : Nat) : Int :=
  Transc.floor (PyFloorDiv.floorDiv (idx : α) ((n : α) / (k : α)))

/-- `X[tree_idxs == i]`: the rows (in increasing order) whose entry of `tree_idxs` is `i`; `perm row` is
`tree_idxs[row]` before the division (`arange`, or `random_state.permutation(n)` when `shuffle=True`) -/
def subset (n k : Nat) (perm : Nat → Nat) (i : Nat) : List Nat :=
  (List.range n).filter (fun row => treeOf α n k (perm row) == (i : Int))

end subsets

/-! ### the discipline: per-task seeds, task-local state, any schedule -/

/-- run a schedule (list of task indices, one entry = one atomic step of that task) on task-local states -/
def runOwned {T : Type} (step : T → T) (sch : List Nat) (st : Nat → T) : Nat → T :=
  sch.foldl (fun st i => fun j => if j = i then step (st j) else st j) st

/-- the local state task `i` starts from: its own generator (from its own seed, drawn before the parallel section)
and its own input; nothing else -/
def seededTasks {G D T : Type} (R : Gen G) (init : G → D → T) (parent : G) (k : Nat) (input : Nat → D) : Nat → T :=
  fun i => init (R.ofSeed ((drawSeeds R k parent).1.getD i 0)) (input i)

/-- a parallel section under the discipline: results collected by task index -/
def seededRun {G D T Res : Type} (R : Gen G) (init : G → D → T) (step : T → T) (result : T → Res)
    (parent : G) (k : Nat) (input : Nat → D) (sch : List Nat) : List Res :=
  (List.range k).map fun i => result (runOwned step sch (seededTasks R init parent k input) i)

/-- a schedule in which every task `i < k` runs exactly the number of steps it needs (the number is a function of the
task-local state it starts from) -/
def Complete {T : Type} (need : T → Nat) (st : Nat → T) (k : Nat) (sch : List Nat) : Prop :=
  ∀ i, i < k → sch.count i = need (st i)

/-- the sequential schedule (`n_jobs=1`): task 0 to completion, then task 1, … -/
def seqSchedule {T : Type} (need : T → Nat) (st : Nat → T) : Nat → List Nat
  | 0 => []
  | k + 1 => seqSchedule need st k ++ List.replicate (need (st k)) k

/-- what the sequential reference computes for task `i`: `fitTree seed_i input_i` -/
def seqResult {G D T Res : Type} (R : Gen G) (init : G → D → T) (step : T → T) (need : T → Nat) (result : T → Res)
    (parent : G) (k : Nat) (input : Nat → D) : List Res :=
  (List.range k).map fun i =>
    result (iter step (need (seededTasks R init parent k input i)) (seededTasks R init parent k input i))

/-- the forest: the input of tree `i` is its row subset; the permutation (if `shuffle`) is drawn from the parent
AFTER the seeds, still before the parallel section -/
def forestRun {G T Res : Type} (α : Type) [NatCast α] [Div α] [PyFloorDiv α] [Transc α]
    (R : Gen G) (permOf : G → Nat → (Nat → Nat)) (init : G → List Nat → T) (step : T → T) (result : T → Res)
    (parent : G) (n k : Nat) (sch : List Nat) : List Res :=
  seededRun R init step result parent k (subset α n k (permOf (drawSeeds R k parent).2 n)) sch

/-! ### contrast models: what happens without the discipline -/

/-- all tasks draw from the ONE parent generator (a `RandomState` object shared between threads): each atomic step of
task `i` consumes the next draw of the shared stream -/
def runShared {G T : Type} (R : Gen G) (acc : T → Nat → T) (sch : List Nat) (g : G) (st : Nat → T) : G × (Nat → T) :=
  sch.foldl (fun p i => ((R.next p.1).2, fun j => if j = i then acc (p.2 j) (R.next p.1).1 else p.2 j)) (g, st)

/-- every task starts from a COPY of the parent generator state (a `RandomState` pickled to worker processes):
task-local state = (own copy, accumulator) -/
def runCopied {G T : Type} (R : Gen G) (acc : T → Nat → T) (sch : List Nat) (g : G) (st : Nat → T) : Nat → G × T :=
  runOwned (fun p => ((R.next p.1).2, acc p.2 (R.next p.1).1)) sch (fun i => (g, st i))

/-! ### numpy's floor division on IEEE doubles (driver carrier)

`npy_floor_divide(a, b)` = `npy_divmod(a, b).floordiv`:
    mod = fmod(a, b);  div = (a - mod) / b;
    if (mod) { if ((b < 0) != (mod < 0)) { mod += b; div -= 1.0; } }
    if (div) { floordiv = floor(div); if (div - floordiv > 0.5) floordiv += 1.0; } else floordiv = copysign(0, a/b);
It is NOT `floor(a / b)` computed in doubles, and not `⌊a/b⌋` of the exact quotient either: e.g. 5 // (10/6) = 2.  -/

/-- `|x| = m · 2^e` for a finite double -/
def fDecode (x : Float) : Nat × Int :=
  let b : Nat := x.toBits.toNat % 2 ^ 63
  let frac : Nat := b % 2 ^ 52
  let bexp : Nat := b / 2 ^ 52
  if bexp = 0 then (frac, -1074) else (frac + 2 ^ 52, (bexp : Int) - 1075)

/-- C `fmod` for finite `a`, finite non-zero `b` (exact; sign of the dividend) -/
def fFmod (a b : Float) : Float :=
  let (ma, ea) := fDecode a
  let (mb, eb) := fDecode b
  let e := min ea eb
  let r := (ma * 2 ^ (ea - e).toNat) % (mb * 2 ^ (eb - e).toNat)
  let v := (Float.ofNat r).scaleB e
  if a < 0 then -v else v

def npyFloorDiv (a b : Float) : Float :=
  if b == 0 then a / b
  else
    let mod := fFmod a b
    let div := (a - mod) / b
    let div := if mod != 0 && ((b < 0) != (mod < 0)) then div - 1.0 else div
    if div != 0 then
      let fd := div.floor
      if div - fd > 0.5 then fd + 1.0 else fd
    else if a / b < 0 then -0.0 else 0.0

instance : PyFloorDiv Float := ⟨npyFloorDiv⟩

end DPL
