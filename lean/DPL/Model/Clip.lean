/-
Model of the clipping helpers of `diffprivlib/validation.py` — `clip_to_bounds` (with the part of `check_bounds` it
relies on) and `clip_to_norm` — transcribed statement by statement, generic in the numeric carrier.

Arrays are lists of rows.  `np.clip(a, lo, hi)` is `np.minimum(np.maximum(a, lo), hi)`; with the comparisons written
below a NaN entry stays NaN (every comparison with NaN is false), exactly as numpy propagates it.
The driver runs these definitions on `Float`; `DPL/Properties/C10.lean` proves the theorems about them over an
arbitrary linear order (bounds clipping) and over ℝ (norm clipping).
-/
import DPL.Model.Num
import DPL.Model.Accountant
namespace DPL

inductive ClipErr where
  | typeError | valueError | indexError
  deriving DecidableEq, Repr

def ClipErr.toString : ClipErr → String
  | .typeError => "typeError" | .valueError => "valueError" | .indexError => "indexError"

section bounds
variable {α : Type} [LT α] [LE α] [DecidableLT α] [DecidableLE α]

/-- `np.clip(x, lo, hi)` on one entry: `np.minimum(np.maximum(x, lo), hi)` -/
def clip1 (lo hi x : α) : α :=
  let y := if x < lo then lo else x
  if hi < y then hi else y

/-- `np.min` of a 1-d array (`none` for an empty one) -/
def minList : List α → Option α
  | [] => none
  | x :: xs => some (xs.foldl (fun m y => if y < m then y else m) x)

/-- `np.max` of a 1-d array -/
def maxList : List α → Option α
  | [] => none
  | x :: xs => some (xs.foldl (fun m y => if m < y then y else m) x)

/-- `np.all(xs == m)` -/
def allEq (xs : List α) (m : α) : Bool := xs.all (fun x => feq x m)

/-- the part of `check_bounds(bounds, np.size(bounds[0]), min_separation=0)` that can refuse:
equal shapes, at least one element, `lower[i] <= upper[i]` for every `i` (`if _lower > _upper: raise ValueError`) -/
def checkBoundsLists : List α → List α → Except ClipErr Unit
  | [], [] => .ok ()
  | l :: ls, u :: us => if u < l then .error .valueError else checkBoundsLists ls us
  | _, _ => .error .valueError

def checkBounds (lower upper : List α) : Except ClipErr Unit :=
  if lower.isEmpty then .error .valueError else checkBoundsLists lower upper

/-- the test that selects the scalar fast path:
`np.all(lower == np.min(lower)) and np.all(upper == np.max(upper))` -/
def fastPath (lower upper : List α) : Option (α × α) :=
  match minList lower, maxList upper with
  | some lo, some hi => if allEq lower lo && allEq upper hi then some (lo, hi) else none
  | _, _ => none

/-- one row of the per-feature path `np.clip(array, lower, upper)` (bounds broadcast over the rows): entry `j` is clipped
to `[lower[j], upper[j]]`; a row with a different number of columns than there are bounds cannot be broadcast
(`ValueError`).  (A 1-column array would be broadcast against several bounds to a wider array: not a clipping
configuration, not modelled.) -/
def clipRow : List α → List α → List α → Except ClipErr (List α)
  | [], [], [] => .ok []
  | l :: ls, u :: us, x :: xs =>
    match clipRow ls us xs with
    | .ok ys => .ok (clip1 l u x :: ys)
    | .error e => .error e
  | _, _, _ => .error .valueError

def clipRows (lower upper : List α) : List (List α) → Except ClipErr (List (List α))
  | [] => .ok []
  | r :: rs =>
    match clipRow lower upper r with
    | .error e => .error e
    | .ok r' =>
      match clipRows lower upper rs with
      | .ok rs' => .ok (r' :: rs')
      | .error e => .error e

/-- `clip_to_bounds(array, (lower, upper))` for a 2-dimensional array -/
def clipToBounds (rows : List (List α)) (lower upper : List α) : Except ClipErr (List (List α)) :=
  match checkBounds lower upper with
  | .error e => .error e
  | .ok () =>
    match fastPath lower upper with
    | some (lo, hi) => .ok (rows.map (fun r => r.map (clip1 lo hi)))
    | none => clipRows lower upper rows

/-- `clip_to_bounds` for a 1-dimensional array (what every tool passes: `np.ravel(array)`):
non-scalar bounds are refused with `ValueError` -/
def clipToBounds1 (xs : List α) (lower upper : List α) : Except ClipErr (List α) :=
  match checkBounds lower upper with
  | .error e => .error e
  | .ok () =>
    match fastPath lower upper with
    | some (lo, hi) => .ok (xs.map (clip1 lo hi))
    | none => .error .valueError

/-- "the row lies in the domain described by the bounds", in the sense the code gives to the bounds:
when the fast-path test succeeds the bounds are one scalar pair that applies to every column,
otherwise they are per-feature. -/
def RowIn : List α → List α → List α → Prop
  | [], [], [] => True
  | l :: ls, u :: us, x :: xs => (l ≤ x ∧ x ≤ u) ∧ RowIn ls us xs
  | _, _, _ => False

def InDomain (lower upper : List α) (row : List α) : Prop :=
  match fastPath lower upper with
  | some (lo, hi) => ∀ x ∈ row, lo ≤ x ∧ x ≤ hi
  | none => RowIn lower upper row

end bounds

section norm
variable {α : Type} [OfNat α 0] [OfNat α 1] [Add α] [Mul α] [Div α] [LT α] [DecidableLT α] [Transc α]

/-- `add.reduce(x * x)` along a row, left to right (numpy sums rows of fewer than 8 entries sequentially) -/
def sumSq (row : List α) : α := row.foldl (fun s x => s + x * x) 0

/-- `np.linalg.norm(array, axis=1)` for one row -/
def rowNorm (row : List α) : α := Transc.sqrt (sumSq row)

/-- one row of `clip_to_norm`: `norms = norm / clip; norms[norms < 1] = 1; row / norms` -/
def clipRowNorm (c : α) (row : List α) : List α :=
  let n := rowNorm row / c
  let n' := if n < 1 then 1 else n
  row.map (fun x => x / n')

/-- `clip_to_norm(array, clip)`; `clip <= 0` is refused (`if clip <= 0: raise ValueError`) -/
def clipToNorm [LE α] [DecidableLE α] (rows : List (List α)) (c : α) : Except ClipErr (List (List α)) :=
  if c ≤ 0 then .error .valueError else .ok (rows.map (clipRowNorm c))

end norm
end DPL
