/-
Release plans: the shape every statistics tool and every estimator `fit` has.

A plan is an interaction tree.  Data can enter ONLY through the `input` field of a mechanism call (and through a
`probe`, which exposes a group-occupancy pattern — see DESIGN §6 C06); the parameters of a call, the continuation and
the release see only caller parameters, the dataset's shape and earlier mechanism outputs.  Core Lean only.

`δ` = dataset type, `α` = numeric carrier, `ρ` = release type.
-/
import DPL.Model.Num
namespace DPL

/-- which generator a draw comes from (C14) -/
inductive RngSrc where
  | osCsprng | globalNumpy | seeded | freshGenerator
  deriving DecidableEq, Repr

/-- one noise-mechanism invocation as configured by the code -/
structure MechCall (α : Type) where
  kind : String          -- mechanism class name, e.g. "LaplaceTruncated"
  eps : α
  delta : α
  sens : α
  lower : α
  upper : α
  rng : RngSrc := .osCsprng

inductive Plan (δ α ρ : Type) where
  | release (r : ρ) : Plan δ α ρ
  | call (c : MechCall α) (input : δ → α) (k : α → Plan δ α ρ) : Plan δ α ρ
  | probe (occ : δ → List Bool) (k : List Bool → Plan δ α ρ) : Plan δ α ρ

structure Trace (α ρ : Type) where
  calls : List (MechCall α)
  inputs : List α
  probes : List (List Bool)
  release : Option ρ        -- `none`: ran out of forced outputs

variable {δ α ρ : Type}

/-- run a plan on dataset `D` with forced mechanism outputs (the interposed `randomise` returns `outs[i]`) -/
def Plan.run : Plan δ α ρ → δ → List α → Trace α ρ
  | .release r, _, _ => ⟨[], [], [], some r⟩
  | .call _ _ _, _, [] => ⟨[], [], [], none⟩
  | .call c inp k, D, o :: os =>
      let t := (k o).run D os
      ⟨c :: t.calls, inp D :: t.inputs, t.probes, t.release⟩
  | .probe occ k, D, os =>
      let t := (k (occ D)).run D os
      ⟨t.calls, t.inputs, occ D :: t.probes, t.release⟩

/-- sequential composition: run `p`, feed its release to `q` -/
def Plan.bind {σ : Type} : Plan δ α ρ → (ρ → Plan δ α σ) → Plan δ α σ
  | .release r, q => q r
  | .call c inp k, q => .call c inp (fun o => (k o).bind q)
  | .probe occ k, q => .probe occ (fun b => (k b).bind q)

/-- post-processing of the release -/
def Plan.map {σ : Type} (f : ρ → σ) (p : Plan δ α ρ) : Plan δ α σ := p.bind (fun r => .release (f r))

/-- run the plans of a list one after the other, collecting the releases (per-cell sub-queries of `_wrap_axis`) -/
def Plan.seq : List (Plan δ α ρ) → Plan δ α (List ρ)
  | [] => .release []
  | p :: ps => p.bind (fun r => (Plan.seq ps).map (fun rs => r :: rs))

end DPL
