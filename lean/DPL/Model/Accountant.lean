/-
Model of `diffprivlib/accountant.py` (`BudgetAccountant`) and `diffprivlib/utils.py` (`Budget`),
transcribed statement by statement, generic in the numeric carrier (see `DPL/Model/Num.lean`).
The driver runs these definitions on `Float`; `DPL/Proofs` and `DPL/Properties` instantiate them at `ℝ`.
-/
import DPL.Model.Num
namespace DPL

inductive Err where
  | typeError | valueError | budgetError
  deriving DecidableEq, Repr

def Err.toString : Err → String
  | .typeError => "typeError" | .valueError => "valueError" | .budgetError => "budgetError"

structure Spend (α : Type) where
  eps : α
  delta : α

/-- a `Budget` tuple -/
structure Tot (α : Type) where
  eps : α
  delta : α

/-- the private state of a `BudgetAccountant` -/
structure Acc (α : Type) where
  ceilEps : α
  ceilDelta : α
  minEps : α
  slack : α
  spent : List (Spend α)

/-- recognise `float("inf")`; the reals have no such element (instance returns `false`) -/
class HasInf (α : Type) where
  isPosInf : α → Bool

instance : HasInf Float := ⟨fun x => x.isInf && x > 0⟩

section
variable {α : Type} [OfNat α 0] [OfNat α 1] [OfNat α 2] [Add α] [Sub α] [Mul α] [Div α] [Neg α]
  [LT α] [LE α] [DecidableLT α] [DecidableLE α] [NatCast α] [Transc α] [HasInf α]

/-- Python `a == b` on numbers, expressed with the two comparisons (IEEE: false when either is NaN) -/
def feq (a b : α) : Bool := decide (a ≤ b) && decide (b ≤ a)

/-- `validation.check_epsilon_delta` on numeric arguments (non-numeric ones are C13's business) -/
def checkEpsDelta (e d : α) (allowZero : Bool := false) : Except Err Unit :=
  if !decide (0 ≤ e) then .error .valueError          -- `if not epsilon >= 0` (refuses NaN)
  else if !(decide (0 ≤ d) && decide (d ≤ 1)) then .error .valueError
  else if !allowZero && feq (e + d) 0 then .error .valueError
  else .ok ()

/-- `Budget.__new__` -/
def mkBudget (e d : α) : Except Err (Tot α) :=
  if !decide (0 ≤ e) then .error .valueError
  else if !(decide (0 ≤ d) && decide (d ≤ 1)) then .error .valueError
  else .ok ⟨e, d⟩

def insertSorted (x : α) : List α → List α
  | [] => [x]
  | y :: ys => if y < x then y :: insertSorted x ys else x :: y :: ys

/-- `list.sort()` (ascending, stable): insertion from the right keeps equal elements in order -/
def sortAsc : List α → List α
  | [] => []
  | x :: xs => insertSorted x (sortAsc xs)

/-- `__total_delta_safe`: prepend slack, sort ascending, fold `prod += delta - prod * delta` -/
def totalDeltaSafe (deltas : List α) (slack : α) : α :=
  (sortAsc (slack :: deltas)).foldl (fun p d => p + (d - p * d)) 0

/-- the three running sums of `total` -/
structure Sums (α : Type) where
  sum : α
  expSum : α
  sqSum : α

def epsSums (spent : List (Spend α)) : Sums α :=
  spent.foldl (fun s sp =>
    { sum := s.sum + sp.eps
      expSum := s.expSum + (1 - Transc.exp (-sp.eps)) * sp.eps / (1 + Transc.exp (-sp.eps))
      sqSum := s.sqSum + sp.eps * sp.eps }) ⟨0, 0, 0⟩

def drvEps (s : Sums α) (slack : α) : α :=
  s.expSum + Transc.sqrt (2 * s.sqSum * Transc.log (1 / slack))

def kovEps (s : Sums α) (slack : α) : α :=
  s.expSum + Transc.sqrt (2 * s.sqSum * Transc.log (Transc.exp 1 + Transc.sqrt s.sqSum / slack))

/-- Python's `min(a, b, c)`: keeps the first, replaces on strict `<` -/
def pyMin3 (a b c : α) : α :=
  let m := if b < a then b else a
  if c < m then c else m

/-- the arithmetic of `total()` (before it is wrapped in a `Budget`) -/
def totalCore (spent : List (Spend α)) (slack : α) : Tot α :=
  let s := epsSums spent
  let d := totalDeltaSafe (spent.map (·.delta)) slack
  if feq slack 0 then ⟨s.sum, d⟩
  else ⟨pyMin3 s.sum (drvEps s slack) (kovEps s slack), d⟩

/-- `total(spent_budget=…, slack=…)` with both arguments given explicitly -/
def totalGiven (ceilDelta : α) (spent : List (Spend α)) (slack : α) : Except Err (Tot α) := do
  spent.forM (fun sp => checkEpsDelta sp.eps sp.delta)
  if !(decide (0 ≤ slack) && decide (slack ≤ ceilDelta)) then throw .valueError
  let t := totalCore spent slack
  mkBudget t.eps t.delta

/-- `total()` on the accountant's own state -/
def Acc.total (a : Acc α) : Except Err (Tot α) :=
  let t := totalCore a.spent a.slack
  mkBudget t.eps t.delta

def Acc.unlimited (a : Acc α) : Bool := HasInf.isPosInf a.ceilEps && feq a.ceilDelta 1

/-- `check(epsilon, delta)` -/
def Acc.check (a : Acc α) (e d : α) : Except Err Unit := do
  checkEpsDelta e d
  if a.unlimited then return ()
  if decide (0 < e) && decide (e < a.minEps) then throw .valueError
  let spent := a.spent ++ [⟨e, d⟩]
  spent.forM (fun sp => checkEpsDelta sp.eps sp.delta)
  let t := totalCore spent a.slack
  let b ← mkBudget t.eps t.delta
  if decide (b.eps ≤ a.ceilEps) && decide (b.delta ≤ a.ceilDelta) then return () else throw .budgetError

/-- `spend(epsilon, delta)` -/
def Acc.spend (a : Acc α) (e d : α) : Except Err (Acc α) := do
  a.check e d
  return { a with spent := a.spent ++ [⟨e, d⟩] }

/-- the `slack` setter -/
def Acc.setSlack (a : Acc α) (s : α) : Except Err (Acc α) := do
  if !(decide (0 ≤ s) && decide (s ≤ a.ceilDelta)) then throw .valueError
  -- total(slack=slack): the explicit-slack branch re-validates the range, then computes
  let t := totalCore a.spent s
  let b ← mkBudget t.eps t.delta
  if decide (a.ceilEps < b.eps) || decide (a.ceilDelta < b.delta) then throw .budgetError
  return { a with slack := s }

/-- `BudgetAccountant(epsilon, delta, slack, spent_budget)` -/
def Acc.new (eps delta slack : α) (minFactor : α) (prior : List (Spend α)) : Except Err (Acc α) := do
  checkEpsDelta eps delta
  let a0 : Acc α := { ceilEps := eps, ceilDelta := delta,
                      minEps := if HasInf.isPosInf eps then 0 else eps * minFactor,
                      slack := 0, spent := [] }
  let a1 ← a0.setSlack slack
  prior.foldlM (fun a sp => a.spend sp.eps sp.delta) a1

/-- state of the bisection in `remaining` -/
structure Bis (α : Type) where
  lower : α
  upper : α
  old : α

/-- one iteration of the `while` body of `remaining` -/
def Acc.remStep (a : Acc α) (k : Nat) (b : Bis α) : Except Err (Bis α) := do
  let mid := (b.upper + b.lower) / 2
  let spent := a.spent ++ List.replicate k ⟨mid, 0⟩
  let t ← totalGiven a.ceilDelta spent a.slack
  let upper := if a.ceilEps ≤ t.eps then mid else b.upper
  let lower := if t.eps ≤ a.ceilEps then mid else b.lower
  return ⟨lower, upper, b.upper - b.lower⟩

def Acc.remLoop (a : Acc α) (k : Nat) : Nat → Bis α → Except Err (Bis α × Nat)
  | 0, b => .ok (b, 0)
  | fuel + 1, b =>
    if b.upper - b.lower < b.old then do
      let b' ← a.remStep k b
      let (r, n) ← a.remLoop k fuel b'
      return (r, n + 1)
    else .ok (b, 0)

/-- `remaining(k)`; also returns the number of loop iterations performed -/
def Acc.remaining (a : Acc α) (k : Nat) (fuel : Nat := 4000) : Except Err (Tot α × Nat) := do
  if k < 1 then throw .valueError
  let t ← a.total
  let delta : α := if t.delta < 1 then
      1 - Transc.pow ((1 - a.ceilDelta) / (1 - t.delta)) (1 / (k : α)) else 1
  let (b, n) ← a.remLoop k fuel ⟨0, a.ceilEps, (a.ceilEps - 0) * 2⟩
  let eps := (b.upper + b.lower) / 2
  let r ← mkBudget eps delta
  return (r, n)

/-! ### the operation machine (what a caller can do to an accountant) -/

inductive AOp (α : Type) where
  | spend (e d : α)
  | check (e d : α)
  | setSlack (s : α)
  | query                 -- total(), remaining(k), len(), spent_budget (a copy) and any mutation of that copy

/-- result kind of an operation -/
inductive Res where
  | ok
  | err (e : Err)
  deriving DecidableEq, Repr

def Res.ofExcept {β : Type} : Except Err β → Res
  | .ok _ => .ok
  | .error e => .err e

def Acc.step (a : Acc α) : AOp α → Acc α × Res
  | .spend e d => match a.spend e d with
      | .ok a' => (a', .ok)
      | .error x => (a, .err x)
  | .check e d => (a, Res.ofExcept (a.check e d))
  | .setSlack s => match a.setSlack s with
      | .ok a' => (a', .ok)
      | .error x => (a, .err x)
  | .query => (a, .ok)

def Acc.run (a : Acc α) (ops : List (AOp α)) : Acc α := ops.foldl (fun a op => (a.step op).1) a

end
end DPL
