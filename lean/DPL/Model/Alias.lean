/-
C20 — a small heap model for "callers' arrays are not modified".

The translator (harness/translate/alias.py) turns the bodies of the analysed Python functions into a SET of abstract
statements over versioned names (one version per static assignment; a use lists every version that may reach it):
  fresh x        x is bound to newly allocated memory (a copy, an arithmetic result, a library call returning new memory)
  alias x ys     x is bound to something that MAY share memory with any of ys (view, asarray, ravel, slicing, validate_data…)
  write xs       memory reachable through one of xs is written in place (x op= e, x[...] = e, x.sort(), out=x, …)
The concrete semantics below executes ANY finite sequence of instances of the program's statements, in any order and
with any resolution of the "may" in `alias` — an over-approximation of every control flow of the Python function.
Core Lean only.
-/
namespace DPL.Alias

/-- names are numbered by the translator (the table id ↦ Python name#version is a comment of the generated file) -/
abbrev Name := Nat

inductive AStmt where
  | fresh (x : Name)
  | alias (x : Name) (ys : List Name)
  | write (xs : List Name)
  deriving Repr, DecidableEq

/-- a heap: where each name points, a write counter per location (its contents changed iff the counter moved),
the next unused location -/
structure Heap where
  env : Name → Option Nat
  ver : Nat → Nat
  next : Nat

def upd {β : Type} (f : Name → β) (x : Name) (v : β) : Name → β := fun y => if y = x then v else f y
def updN {β : Type} (f : Nat → β) (x : Nat) (v : β) : Nat → β := fun y => if y = x then v else f y

def bindFresh (h : Heap) (x : Name) : Heap := { h with env := upd h.env x (some h.next), next := h.next + 1 }

/-- one statement instance; `choice` resolves the "may": for `alias`, `some y` = share y's memory, `none` = new memory;
for `write`, `some x` = the name through which the write happens -/
def step (h : Heap) (s : AStmt) (choice : Option Name) : Heap :=
  match s, choice with
  | .fresh x, _ => bindFresh h x
  | .alias x ys, some y =>
      if y ∈ ys then
        match h.env y with
        | some l => { h with env := upd h.env x (some l) }
        | none => bindFresh h x
      else bindFresh h x
  | .alias x _, none => bindFresh h x
  | .write xs, some x =>
      if x ∈ xs then
        match h.env x with
        | some l => { h with ver := updN h.ver l (h.ver l + 1) }
        | none => h
      else h
  | .write _, none => h

/-- run a sequence of statement instances -/
def exec (h : Heap) : List (AStmt × Option Name) → Heap
  | [] => h
  | (s, c) :: rest => exec (step h s c) rest

/-- the static check the translator's output must pass: `T` (the names that may reach caller-owned memory) contains
the caller's names, is closed under every `alias` rule, and no `write` goes through a name in `T` -/
def check (P : List AStmt) (T callers : List Name) : Bool :=
  callers.all (fun c => T.contains c) &&
  P.all (fun s => match s with
    | .fresh _ => true
    | .alias x ys => !(ys.any (fun y => T.contains y)) || T.contains x
    | .write xs => !(xs.any (fun x => T.contains x)))

end DPL.Alias
