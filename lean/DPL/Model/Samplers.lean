/-
Model of `randomise` of every additive mechanism of diffprivlib, transcribed statement by statement from
  mechanisms/laplace.py   (Laplace, LaplaceTruncated, LaplaceFolded, LaplaceBoundedDomain, LaplaceBoundedNoise)
  mechanisms/gaussian.py  (Gaussian / GaussianAnalytic, GaussianDiscrete on base.bernoulli_neg_exp)
  mechanisms/staircase.py, uniform.py, vector.py (noise vector), snapping.py, base.py (_truncate, _fold)
as it is at /repo HEAD.  Samplers are FUNCTIONS OF THEIR RANDOM DRAWS: every `self._rng.random()` is an explicit
uniform argument, `normalvariate(0,1)` an explicit normal, `gammavariate(d/4, scale)` a unit gamma times `scale`,
`rng.geometric(p)` an explicit natural number, `getrandbits` explicit integers.  Generic in the numeric carrier
(`DPL/Model/Num.lean`); the driver runs these definitions on `Float`, the theorems instantiate them at `ℝ`.
Parameter validation (`_check_all`) is C13's business and is not repeated here.  No Mathlib import.
-/
import DPL.Model.Num
namespace DPL
namespace Smp

/-- `np.cos`, `np.pi` (not in the shared `Transc` class) -/
class Trig (α : Type) where
  cos : α → α
  pi : α

/-- `np.pi` is the double 0x400921FB54442D18 -/
instance : Trig Float := ⟨Float.cos, Float.ofBits 0x400921FB54442D18⟩

/-- the two bit-level operations Snapping uses -/
class Bits (α : Type) where
  /-- `np.ldexp(m, e)` = m · 2^e -/
  ldexp : Nat → Int → α
  /-- `Snapping._get_nearest_power_of_2`: the smallest power of two ≥ x (x > 0) -/
  nextPow2 : α → α

def floatNextPow2 (x : Float) : Float :=
  let bits := x.toBits
  if bits % ((1 : UInt64) <<< 52) == 0 then x
  else Float.ofBits (((bits >>> 52) + 1) <<< 52)

instance : Bits Float := ⟨fun m e => (Float.ofNat m).scaleB e, floatNextPow2⟩

section
variable {α : Type} [OfNat α 0] [OfNat α 1] [OfNat α 2] [OfNat α 4] [OfNat α 5]
  [Add α] [Sub α] [Mul α] [Div α] [Neg α]
  [LT α] [LE α] [DecidableLT α] [DecidableLE α] [NatCast α] [IntCast α] [Transc α] [Trig α] [Bits α]

/-- Python `a == b` on numbers (IEEE: false when either is NaN) -/
def feq (a b : α) : Bool := decide (a ≤ b) && decide (b ≤ a)

/-! ### Laplace family -/

/-- `Laplace._laplace_sampler(unif1, unif2, unif3, unif4)` -/
def lap4 (u1 u2 u3 u4 : α) : α :=
  Transc.log (1 - u1) * Trig.cos (Trig.pi * u2) + Transc.log (1 - u3) * Trig.cos (Trig.pi * u4)

/-- `scale = sensitivity / (epsilon - log(1 - delta))` -/
def laplaceScale (eps delta sens : α) : α := sens / (eps - Transc.log (1 - delta))

/-- `Laplace.randomise`: `value - scale * standard_laplace` (four uniforms, in the order drawn) -/
def laplace (eps delta sens x u1 u2 u3 u4 : α) : α :=
  x - laplaceScale eps delta sens * lap4 u1 u2 u3 u4

/-- `TruncationAndFoldingMixin._truncate` -/
def truncate (lo hi v : α) : α := if hi < v then hi else if v < lo then lo else v

/-- Python float `a % b` for `b > 0` -/
def pyMod (a b : α) : α := a - b * ((Transc.floor (a / b) : Int) : α)

/-- the reflection loop of `_fold` (`while value < lower or value > upper`) -/
def foldLoop (lo hi : α) : Nat → α → α
  | 0, v => v
  | fuel + 1, v =>
    if v < lo then foldLoop lo hi fuel (2 * lo - v)
    else if hi < v then foldLoop lo hi fuel (2 * hi - v)
    else v

/-- `TruncationAndFoldingMixin._fold` (HEAD: closed-form reduction modulo 2·width, then reflections) -/
def fold (lo hi v : α) (fuel : Nat := 16) : α :=
  if feq lo hi then lo
  else
    let width := hi - lo
    let v := if v < lo - 2 * width || hi + 2 * width < v then lo + pyMod (v - lo) (2 * width) else v
    foldLoop lo hi fuel v

/-- `LaplaceTruncated.randomise` -/
def laplaceTruncated (eps delta sens lo hi x u1 u2 u3 u4 : α) : α :=
  truncate lo hi (laplace eps delta sens x u1 u2 u3 u4)

/-- `LaplaceFolded.randomise` -/
def laplaceFolded (eps delta sens lo hi x u1 u2 u3 u4 : α) : α :=
  fold lo hi (laplace eps delta sens x u1 u2 u3 u4)

/-! ### the batch-doubling rejection loop (LaplaceBoundedDomain, LaplaceBoundedNoise) -/

def zipWith4 {β : Type} (f : α → α → α → α → β) : List α → List α → List α → List α → List β
  | a :: as, b :: bs, c :: cs, d :: ds => f a b c d :: zipWith4 f as bs cs ds
  | _, _, _, _ => []

/-- one batch: `unif = [rng.random() for _ in range(4*s)]`, `_laplace_sampler(*np.array(unif).reshape(4, -1))` —
sample `i` of the batch uses `unif[i], unif[s+i], unif[2s+i], unif[3s+i]` -/
def batchLap (us : List α) (s : Nat) : List α :=
  zipWith4 lap4 (us.take s) ((us.drop s).take s) ((us.drop (2 * s)).take s) ((us.drop (3 * s)).take s)

/-- `np.argmax(mask)` after `mask.any()`: the first accepted element of the batch -/
def firstAccepted {β : Type} (acc : β → Bool) (l : List β) : Option β := l.find? acc

/-- the `while True:` loop with `samples = min(100000, samples * 2)`.
`cand` turns a standard-Laplace draw into the candidate that is tested; returns the accepted candidate and the
number of uniforms consumed; `none` = the supplied stream ran out (or fuel) before anything was accepted. -/
def rejLoop (cand : α → α) (acc : α → Bool) : Nat → Nat → List α → Nat → Option (α × Nat)
  | 0, _, _, _ => none
  | fuel + 1, s, us, used =>
    if us.length < 4 * s then none
    else
      match firstAccepted acc ((batchLap us s).map cand) with
      | some v => some (v, used + 4 * s)
      | none => rejLoop cand acc fuel (min 100000 (2 * s)) (us.drop (4 * s)) (used + 4 * s)

/-- every candidate the loop looks at, in the order it looks at them -/
def candidates (cand : α → α) : Nat → Nat → List α → List α
  | 0, _, _ => []
  | fuel + 1, s, us =>
    if us.length < 4 * s then []
    else (batchLap us s).map cand ++ candidates cand fuel (min 100000 (2 * s)) (us.drop (4 * s))

/-- Python `max(min(value, upper), lower)` -/
def clampPy (lo hi x : α) : α :=
  let m := if hi < x then hi else x
  if m < lo then lo else m

def inRange (lo hi v : α) : Bool := decide (lo ≤ v) && decide (v ≤ hi)

/-- `LaplaceBoundedDomain.randomise` given the calibrated `_scale` (`_find_scale` is C02's); NaN input excluded -/
def boundedDomain (scale lo hi x : α) (us : List α) (fuel : Nat := 40) : Option (α × Nat) :=
  let v := clampPy lo hi x
  if feq lo hi then some (v, 0)
  else rejLoop (fun l => v + scale * l) (inRange lo hi) fuel 1 us 0

/-- `_noise_bound` of `LaplaceBoundedNoise` -/
def noiseBound (eps delta sens : α) : α :=
  let scale := sens / eps
  if feq scale 0 then 0 else scale * Transc.log (1 + (Transc.exp eps - 1) / 2 / delta)

/-- the noise of `LaplaceBoundedNoise.randomise` (a function of the stream and the parameters only) -/
def boundedNoiseNoise (eps delta sens : α) (us : List α) (fuel : Nat := 40) : Option (α × Nat) :=
  let scale := sens / eps
  let b := noiseBound eps delta sens
  rejLoop (fun l => scale * l) (inRange (-b) b) fuel 1 us 0

/-- `LaplaceBoundedNoise.randomise`: `value + noisy[idx]` -/
def boundedNoise (eps delta sens x : α) (us : List α) (fuel : Nat := 40) : Option (α × Nat) :=
  (boundedNoiseNoise eps delta sens us fuel).map (fun p => (x + p.1, p.2))

/-! ### Gaussian -/

/-- `Gaussian.__init__`: `sqrt(2 log(1.25/delta)) * sensitivity / epsilon` -/
def gaussScale (eps delta sens : α) : α := Transc.sqrt (2 * Transc.log ((5 / 4) / delta)) * sens / eps

/-- `(normalvariate(0,1) + normalvariate(0,1)) / sqrt(2)` -/
def gaussUnit (n1 n2 : α) : α := (n1 + n2) / Transc.sqrt 2

/-- `Gaussian.randomise` / `GaussianAnalytic.randomise` with the mechanism's `_scale` -/
def gauss (scale x n1 n2 : α) : α := x + gaussUnit n1 n2 * scale

/-! ### GaussianDiscrete: Canonne–Kamath–Steinke on `bernoulli_neg_exp` -/

/-- `counter = 1; while rng.random() <= gamma / counter: counter += 1` — returns the final counter -/
def bernCount (g : α) : Nat → Nat → List α → Option (Nat × List α)
  | 0, _, _ => none
  | _ + 1, _, [] => none
  | fuel + 1, k, u :: us => if u ≤ g / (k : α) then bernCount g fuel (k + 1) us else some (k, us)

/-- `bernoulli_neg_exp(gamma, rng)` for `gamma ≥ 0` -/
def bernNegExp : Nat → α → List α → Option (Bool × List α)
  | 0, _, _ => none
  | fuel + 1, g, us =>
    if 1 < g then
      -- gamma -= 1; if not bernoulli_neg_exp(1, rng): return 0
      match bernCount 1 (fuel + 1) 1 us with
      | none => none
      | some (k, us') => if k % 2 == 1 then bernNegExp fuel (g - 1) us' else some (false, us')
    else
      match bernCount g (fuel + 1) 1 us with
      | none => none
      | some (k, us') => some (k % 2 == 1, us')

/-- `geom_x = 0; while bernoulli_neg_exp(tau, rng): geom_x += 1` -/
def geomCount (tau : α) : Nat → Nat → List α → Option (Nat × List α)
  | 0, _, _ => none
  | fuel + 1, n, us =>
    match bernNegExp 64 tau us with
    | none => none
    | some (true, us') => geomCount tau fuel (n + 1) us'
    | some (false, us') => some (n, us')

/-- the acceptance exponent `(abs(lap_y) - tau * sigma2) ** 2 / 2 / sigma2` -/
def cksGamma (tau sigma2 : α) (absY : Nat) : α := Transc.pow ((absY : α) - tau * sigma2) 2 / 2 / sigma2

/-- the outer `while True:` of `GaussianDiscrete.randomise`; returns the integer noise `lap_y` -/
def cksLoop (tau sigma2 : α) : Nat → List α → Option (Int × List α)
  | 0, _ => none
  | fuel + 1, us =>
    match geomCount tau 4096 0 us with
    | none => none
    | some (_, []) => none
    | some (gx, u :: us2) =>
      let b := decide (u < 1 / 2)
      if b && gx == 0 then cksLoop tau sigma2 fuel us2
      else
        let y : Int := if b then -(gx : Int) else (gx : Int)
        match bernNegExp 4096 (cksGamma tau sigma2 gx) us2 with
        | none => none
        | some (true, us3) => some (y, us3)
        | some (false, us3) => cksLoop tau sigma2 fuel us3

def cksTau (scale : α) : α := 1 / (1 + ((Transc.floor scale : Int) : α))
def cksSigma2 (scale : α) : α := Transc.pow scale 2

/-- noise of `GaussianDiscrete.randomise` and the number of uniforms consumed -/
def discreteGaussNoise (scale : α) (us : List α) (fuel : Nat := 4096) : Option (Int × Nat) :=
  if feq scale 0 then some (0, 0)
  else (cksLoop (cksTau scale) (cksSigma2 scale) fuel us).map (fun p => (p.1, us.length - p.2.length))

/-- `GaussianDiscrete.randomise`: `value + lap_y` -/
def discreteGauss (scale : α) (x : Int) (us : List α) (fuel : Nat := 4096) : Option (Int × Nat) :=
  (discreteGaussNoise scale us fuel).map (fun p => (x + p.1, p.2))

/-! ### Staircase -/

/-- the success probability handed to `rng.geometric` -/
def stairGeomP (eps : α) : α := 1 - Transc.exp (-eps)

/-- threshold of the binary choice: `gamma / (gamma + (1 - gamma) * exp(-epsilon))` -/
def stairBinP (eps gamma : α) : α := gamma / (gamma + (1 - gamma) * Transc.exp (-eps))

/-- `sign * ((1 - b) * ((g + γu)·s) + b * ((g + γ + (1-γ)u)·s))` with `g = geometric − 1` -/
def stairNoise (eps gamma sens u1 : α) (g : Nat) (u2 u3 : α) : α :=
  let sign : α := if u1 < 1 / 2 then -1 else 1
  let b : α := if u3 < stairBinP eps gamma then 0 else 1
  sign * ((1 - b) * (((g : α) + gamma * u2) * sens) + b * (((g : α) + gamma + (1 - gamma) * u2) * sens))

/-- `Staircase.randomise` -/
def staircase (eps gamma sens x u1 : α) (g : Nat) (u2 u3 : α) : α := x + stairNoise eps gamma sens u1 g u2 u3

/-- default `gamma = 1 / (1 + exp(epsilon / 2))` -/
def stairDefaultGamma (eps : α) : α := 1 / (1 + Transc.exp (eps / 2))

/-! ### Uniform -/

/-- `unif_rv = 2u − 1; unif_rv *= sensitivity / delta / 2` -/
def uniformNoise (delta sens u : α) : α := (2 * u - 1) * (sens / delta / 2)

def uniform (delta sens x u : α) : α := x + uniformNoise delta sens u

/-! ### Vector: direction from 4·d normals, norm from 4 gammas -/

/-- `np.reshape(normals, (-1, 4)).sum(axis=1) / 2` -/
def vecDir : List α → List α
  | a :: b :: c :: d :: rest => (a + b + c + d) / 2 :: vecDir rest
  | _ => []

def sumSq (v : List α) : α := v.foldl (fun s x => s + x * x) 0

/-- `np.linalg.norm(v, 2)` -/
def norm2 (v : List α) : α := Transc.sqrt (sumSq v)

/-- `sum(gammavariate(d/4, scale) for _ in range(4)) if scale > 0 else 0.0`; `gs` are the UNIT gammas
(`gammavariate(a, scale)` = unit gamma × scale) -/
def vecNorm (scale : α) (gs : List α) : α :=
  if 0 < scale then gs.foldl (fun s g => s + g * scale) 0 else 0

/-- the noise vector `normed_noisy_vector / norm * noisy_norm` -/
def vecNoise (scale : α) (normals gs : List α) : List α :=
  let dir := vecDir normals
  let nrm := norm2 dir
  let r := vecNorm scale gs
  dir.map (fun x => x / nrm * r)

/-! ### Snapping -/

/-- `_uniform_sampler`: `mantissa = 1 << 52 | getrandbits(52)`, `exponent = -53`, then 32-bit words until one is
non-zero, `exponent += x.bit_length() - 32`.  Returns (mantissa, exponent, number of 32-bit words consumed). -/
def snapUniformME (bits52 : Nat) : List Nat → Int → Nat → Option (Nat × Int × Nat)
  | [], _, _ => none
  | w :: ws, e, n =>
    let w := w % 2 ^ 32
    let e' := e + (Nat.log2 w + (if w = 0 then 0 else 1) : Nat) - 32
    if w = 0 then snapUniformME bits52 ws e' (n + 1)
    else some (2 ^ 52 ||| (bits52 % 2 ^ 52), e', n + 1)

def snapUniform (bits52 : Nat) (words : List Nat) : Option (α × Nat) :=
  (snapUniformME bits52 words (-53) 0).map (fun (m, e, n) => (Bits.ldexp m e, n))

/-- `Snapping._laplace_sampler(unif_bit, unif)`: `(-1) ** unif_bit * log(unif)` -/
def snapLaplace (bit : Nat) (u : α) : α := (if bit % 2 = 0 then (1 : α) else -1) * Transc.log u

/-- machine epsilon `np.finfo(float).epsneg` = 2^-53 -/
def epsneg : α := Bits.ldexp 1 (-53)

def snapBound (sens lo hi : α) : α := if feq sens 0 then (hi - lo) / 2 else (hi - lo) / 2 / sens

def snapEffEps (eps bound : α) : α := (eps - 2 * epsneg) / (1 + ((12 : Nat) : α) * bound * epsneg)

/-- `_round_to_nearest_power_of_2(value, lambda_)` for finite epsilon -/
def snapRound (v lam : α) : α :=
  let r := pyMod v lam
  if lam / 2 < r then v - r + lam
  else if feq r (lam / 2) then v + r
  else v - r

/-- `Snapping.randomise` (sensitivity > 0, finite epsilon): clamp, add Laplace noise, round to the grid, clamp, undo
the scaling.  Everything after `+ laplace` depends only on the bounds, the sensitivity and epsilon. -/
def snapPost (eps sens lo hi : α) (noisy : α) : α :=
  let bound := snapBound sens lo hi
  let scale := 1 / snapEffEps eps bound
  let lam := Bits.nextPow2 scale
  let rounded := snapRound noisy lam
  -- HEAD (cd9e96d): scaling back can round just past the bounds, so `_truncate` to [lower, upper] once more
  truncate lo hi ((truncate (-bound) bound rounded + bound) * sens + lo)

def snapping (eps sens lo hi x : α) (bit bits52 : Nat) (words : List Nat) : Option (α × Nat) :=
  if feq sens 0 then some (truncate lo hi x, 0)
  else
    let bound := snapBound sens lo hi
    let clamped := truncate (-bound) bound (x / sens - bound - lo / sens)
    let scale := 1 / snapEffEps eps bound
    match snapUniform bits52 words with
    | none => none
    | some (u, n) => some (snapPost eps sens lo hi (clamped + scale * snapLaplace bit u), n)

/-! ### Bingham: the acceptance test of the Kent–Ganeiber–Mardia rejection sampler, as coded -/

/-- `norm_const = exp(-(dims - b) / 2) * ((dims / b) ** (dims / 2))` -/
def binghamNormConst (dims : Nat) (b : α) : α :=
  Transc.exp (-((dims : α) - b) / 2) * Transc.pow ((dims : α) / b) ((dims : α) / 2)

/-- `prob = exp(-u·A'·u) / norm_const / ((u·Ω·u) ** (dims / 2))` — AS CODED (bingham.py:147-149) -/
def binghamAcceptCoded (uAu uOu normConst : α) (dims : Nat) : α :=
  Transc.exp (-uAu) / normConst / Transc.pow uOu ((dims : α) / 2)

/-- the ratio `f_Bing / (M · f_ACG)` of Kent–Ganeiber–Mardia with the angular-central-Gaussian envelope
`f_ACG(u) = (u·Ω·u)^(-q/2)` — what the acceptance probability has to be for the output to be Bingham -/
def binghamAcceptKGM (uAu uOu normConst : α) (dims : Nat) : α :=
  Transc.exp (-uAu) / normConst * Transc.pow uOu ((dims : α) / 2)

/-- the (unnormalised) envelope density of the proposal `N(0, Ω⁻¹)/‖·‖` -/
def acgDensity (uOu : α) (dims : Nat) : α := Transc.pow uOu (-((dims : α) / 2))

end
end Smp
end DPL
