/-
How a query or a `fit` charges the budget accountant (C09), composed with the accountant machine of
`DPL/Model/Accountant.lean`.  Transcribed from the code AT HEAD:

  scalar tool (`_mean`, `_var`, `_sum`, `histogram*`, scalar `quantile`):
      accountant = BudgetAccountant.load_default(accountant)      -- explicit argument, else the default in force
      accountant.check(epsilon, 0)
      … mechanism invocations …
      accountant.spend(epsilon, 0)
  multi-cell query (`_wrap_axis`, multi-quantile):
      _check_cells(accountant, epsilon, cell_epsilon, n_cells)    -- validate epsilon + exact check of ALL cell spends
      then one complete scalar query (resolve / check / run / spend) per cell with `cell_epsilon`
  model `fit`:
      self.accountant = load_default(accountant)                  -- in __init__: the default in force AT CONSTRUCTION
      self.accountant.check(epsilon, 0)  …  sub-queries on throw-away `BudgetAccountant()`s  …  self.accountant.spend

The world is the list of all live accountants plus the index of the current default; an outcome reports the result,
all accountants afterwards and how many noise mechanisms were invoked.  Generic carrier, core Lean only.
-/
import DPL.Model.Accountant
import DPL.Model.Plan
namespace DPL
namespace Charged

structure World (α : Type) where
  accs : List (Acc α)
  dflt : Nat                      -- index of `BudgetAccountant._default`

structure Outcome (α ρ : Type) where
  res : Except Err ρ
  accs : List (Acc α)
  mechCalls : Nat                 -- noise-mechanism invocations performed (before the error, if `res` is one)

/-- what the body of a query does between `check` and `spend`: how many mechanisms it invokes, what it releases -/
structure Body (ρ : Type) where
  calls : Nat
  release : ρ

/-- the body of a release plan run on `D` with forced mechanism outputs -/
def Body.ofPlan {δ α ρ : Type} (p : Plan δ α ρ) (D : δ) (outs : List α) : Body (Option ρ) :=
  let t := p.run D outs
  ⟨t.calls.length, t.release⟩

/-- `BudgetAccountant.load_default(accountant)` -/
def resolve {α : Type} (w : World α) (explicit : Option Nat) : Nat := explicit.getD w.dflt

/-- a query as a world transformer (the `accountant=` argument is baked in) -/
abbrev Query (α ρ : Type) := World α → Outcome α ρ

section
variable {α : Type} [OfNat α 0] [OfNat α 1] [OfNat α 2] [Add α] [Sub α] [Mul α] [Div α] [Neg α]
  [LT α] [LE α] [DecidableLT α] [DecidableLE α] [NatCast α] [Transc α] [HasInf α]
variable {ρ : Type}

/-- an accountant index that does not exist is a harness error, not a Python one: answered as `typeError` -/
def getAcc (w : World α) (i : Nat) : Except Err (Acc α) :=
  match w.accs[i]? with
  | some a => .ok a
  | none => .error .typeError

/-- scalar tool / model fit: resolve, check, body, spend -/
def scalarQ (explicit : Option Nat) (ε : α) (b : Body ρ) : Query α ρ := fun w =>
  let i := resolve w explicit
  match getAcc w i with
  | .error e => ⟨.error e, w.accs, 0⟩
  | .ok a =>
    match a.check ε 0 with
    | .error e => ⟨.error e, w.accs, 0⟩
    | .ok _ =>
      match a.spend ε 0 with
      | .error e => ⟨.error e, w.accs, b.calls⟩
      | .ok a' => ⟨.ok b.release, w.accs.set i a', b.calls⟩

/-- `_check_cells` (after `load_default`), as coded since 7bc0345: `check_epsilon_delta(epsilon, 0)` (validation only —
epsilon is NOT checked as a single spend), then the exact total of the very spends the cells will record must fit
the ceiling: `Budget(ceiling) >= total(spent_budget=spent + [(cell_epsilon, 0)] * n_cells)` (`total(spent_budget=…)`
validates every entry and uses the accountant's own slack) -/
def checkCells (a : Acc α) (ε cellε : α) (n : Nat) : Except Err Unit := do
  checkEpsDelta ε 0
  let spent := a.spent ++ List.replicate n ⟨cellε, 0⟩
  spent.forM (fun sp => checkEpsDelta sp.eps sp.delta)
  let t := totalCore spent a.slack
  let b ← mkBudget t.eps t.delta
  if decide (b.eps ≤ a.ceilEps) && decide (b.delta ≤ a.ceilDelta) then return () else throw .budgetError

/-- run sub-queries one after the other; stops at the first error (the exception propagates), keeping whatever the
earlier ones charged -/
def runAll : List (Query α ρ) → World α → Outcome α (List ρ)
  | [], w => ⟨.ok [], w.accs, 0⟩
  | q :: qs, w =>
    let o := q w
    match o.res with
    | .error e => ⟨.error e, o.accs, o.mechCalls⟩
    | .ok r =>
      let o' := runAll qs { w with accs := o.accs }
      ⟨o'.res.map (fun rs => r :: rs), o'.accs, o.mechCalls + o'.mechCalls⟩

/-- multi-cell query: `_check_cells` up front, then the sub-queries -/
def cellsQ (explicit : Option Nat) (ε cellε : α) (n : Nat) (subs : List (Query α ρ)) : Query α (List ρ) := fun w =>
  match getAcc w (resolve w explicit) with
  | .error e => ⟨.error e, w.accs, 0⟩
  | .ok a =>
    match checkCells a ε cellε n with
    | .error e => ⟨.error e, w.accs, 0⟩
    | .ok _ => runAll subs w

/-- `_wrap_axis` on `size` output cells -/
def wrapAxisQ (explicit : Option Nat) (ε : α) (bodies : List (Body ρ)) : Query α (List ρ) :=
  let size := bodies.length
  cellsQ explicit ε (ε / (size : α)) size (bodies.map (fun b => scalarQ explicit (ε / (size : α)) b))

/-- multi-quantile (`len(quant) = m > 1`), `bodies` = one list of per-cell bodies per quantile (a single body each when
there is no axis): `_check_cells(accountant, epsilon, epsilon / m / n_cells, m * n_cells)`, then per quantile the
whole single-quantile query with `epsilon / m` (which, with an axis, is `_wrap_axis` and checks its cells again) -/
def multiQuantileQ (explicit : Option Nat) (ε : α) (axis : Bool) (bodies : List (List (Body ρ))) :
    Query α (List (List ρ)) :=
  let m := bodies.length
  let nCells := if axis then (bodies.headD []).length else 1
  cellsQ explicit ε (ε / (m : α) / (nCells : α)) (m * nCells)
    (bodies.map (fun bs =>
      if axis then wrapAxisQ explicit (ε / (m : α)) bs
      else runAll (bs.map (fun b => scalarQ explicit (ε / (m : α)) b))))

/-! ### models -/

/-- an estimator object: the accountant was resolved when the object was CONSTRUCTED -/
structure Model where
  acc : Nat

/-- `Model(accountant=explicit)` under the default in force at that moment -/
def construct (w : World α) (explicit : Option Nat) : Model := ⟨resolve w explicit⟩

/-- a sub-query of a `fit` that is handed a throw-away `BudgetAccountant()`: the fresh accountant joins the world
for the duration of the sub-query (which receives it as its explicit `accountant=` argument) and is dropped
afterwards together with whatever it recorded -/
def withThrowAway (fresh : Acc α) (sub : Option Nat → Query α ρ) : Query α ρ := fun w =>
  let o := sub (some w.accs.length) { w with accs := w.accs ++ [fresh] }
  ⟨o.res, o.accs.take w.accs.length, o.mechCalls⟩

/-- `fit` as coded in every estimator: `self.accountant.check(epsilon, 0)` first, then the body — direct mechanism
invocations (`b`) and sub-queries (`subs`, e.g. `mean`/`var`/`covariance_eig` on throw-away accountants) —, and
`self.accountant.spend(epsilon, 0)` last.  `w.dflt` is not consulted: the accountant was fixed at construction. -/
def fitQ {σ : Type} (m : Model) (ε : α) (subs : Query α σ) (b : σ → Body ρ) : Query α ρ := fun w =>
  match getAcc w m.acc with
  | .error e => ⟨.error e, w.accs, 0⟩
  | .ok a =>
    match a.check ε 0 with
    | .error e => ⟨.error e, w.accs, 0⟩
    | .ok _ =>
      let o := subs w
      match o.res with
      | .error e => ⟨.error e, o.accs, o.mechCalls⟩
      | .ok s =>
        match getAcc { w with accs := o.accs } m.acc with
        | .error e => ⟨.error e, o.accs, o.mechCalls + (b s).calls⟩
        | .ok a₁ =>
          match a₁.spend ε 0 with
          | .error e => ⟨.error e, o.accs, o.mechCalls + (b s).calls⟩
          | .ok a' => ⟨.ok (b s).release, o.accs.set m.acc a', o.mechCalls + (b s).calls⟩

end
end Charged
end DPL
