/-
Line-protocol driver for the C13 validation model.  Values: none | str:x | str:<ext> | cplx:<ext> | bool:0|1 |
int:<n> | flt:<ext>   with <ext> ∈ nan inf -inf p/q.   Assignments `<var>=<value>`, flags (true ones) after `|`.
  ctor <Mech> <assignments> | <flags>       construct
  rand <Mech> <assignments> | <flags>       randomise after attribute assignment (`_check_all`)
  ced <0|1> <assignments>                   validation.check_epsilon_delta(allow_zero)
  budget <assignments>                      Budget(epsilon, delta)
  bounds <value> <value>                    validation.check_bounds((lower, upper))
  clip <assignments> | slack <assignments> | remk <assignments>
  acc <check|spend> <ceilEps> <ceilDelta> <n> <e1> <d1> … <assignments>     (ext tokens for the accountant state)
  acctotal <ceilDelta ext> <slack value | -> <e1 value> <d1 value> …   total(spent_budget=[…], slack=…)
  accnew <ceilEps value> <ceilDelta value> <e1 value> <d1 value> …       BudgetAccountant(eps, delta, spent_budget=[…])
  tool <ceilEps> <ceilDelta> <nobounds | <value> <value>> <assignments>
Answers: ok | typeError | valueError | budgetError | overflowError   (acc spend: `<res> <len>`)
-/
import DPL.Model.Num
import DPL.Model.Validation
open DPL DPL.Val

def parseRat (s : String) : Option Rat :=
  match s.splitOn "/" with
  | [p, q] => match p.toInt?, q.toNat? with
    | some p, some q => if q = 0 then none else some (mkRat p q)
    | _, _ => none
  | [p] => (p.toInt?).map fun n => (n : Rat)
  | _ => none

def parseExt (s : String) : Option Ext :=
  match s with
  | "nan" => some .nan | "inf" => some .posInf | "-inf" => some .negInf
  | _ => (parseRat s).map .fin

def parseVal (s : String) : Option PyVal :=
  match s.splitOn ":" with
  | ["none"] => some .none
  | ["str", "x"] => some (.str none)
  | ["str", e] => (parseExt e).map fun x => .str (some x)
  | ["cplx", e] => (parseExt e).map .complex
  | ["bool", "1"] => some (.bool true)
  | ["bool", "0"] => some (.bool false)
  | ["int", n] => (n.toInt?).map .int
  | ["flt", e] => (parseExt e).map .flt
  | _ => none

def varOf : String → Option Var
  | "epsilon" => some .epsilon | "delta" => some .delta | "sensitivity" => some .sensitivity
  | "data_sensitivity" => some .dataSensitivity | "lower" => some .lower | "upper" => some .upper
  | "gamma" => some .gamma | "alpha" => some .alpha | "dimension" => some .dimension | "value" => some .value
  | "clip" => some .clip | "slack" => some .slack | "k" => some .k
  | _ => none

def allFlags : List Flag :=
  [.labelsNotStr, .labelsEmpty, .labelsEqual, .utilNotList, .utilNonReal, .utilEmpty, .utilInf, .candNotList,
   .candLen, .measNotList, .measNonReal, .measInf, .measNegative, .measLen, .valueNotNone, .valueNotStr, .valueNotInDomain,
   .valueNotCallable, .valueNotArray, .valueBadShape, .nLt1]

def flagStr (f : Flag) : String := (reprStr f).replace "DPL.Val.Flag." ""
def flagOf (s : String) : Option Flag := allFlags.find? (fun f => flagStr f == s)
def mechStr (m : Mech) : String := (reprStr m).replace "DPL.Val.Mech." ""
def mechOf (s : String) : Option Mech := allMechs.find? (fun m => mechStr m == s)

def parseAssign (s : String) : Option (Var × PyVal) :=
  match s.splitOn "=" with
  | [a, b] => match varOf a, parseVal b with
    | some a, some b => some (a, b)
    | _, _ => none
  | _ => none

def mkEnv (asg : List (Var × PyVal)) (flags : List Flag) : Env :=
  { v := fun x => match asg.find? (fun p => p.1 == x) with
                  | some p => p.2
                  | none => .int 1,
    f := fun x => flags.contains x }

def parseEnv (ws : List String) : Option Env :=
  let a := ws.takeWhile (· ≠ "|")
  let f := (ws.dropWhile (· ≠ "|")).drop 1
  match a.mapM parseAssign, f.mapM flagOf with
  | some a, some f => some (mkEnv a f)
  | _, _ => none

def res : Except VErr Unit → String
  | .ok _ => "ok"
  | .error e => e.toString

def pairsE : List Ext → List (Ext × Ext)
  | a :: b :: rest => (a, b) :: pairsE rest
  | _ => []

def pairsV : List PyVal → List (PyVal × PyVal)
  | a :: b :: r => (a, b) :: pairsV r
  | _ => []

def step (_ : Unit) (ws : List String) : Unit × String :=
  match ws with
  | "ctor" :: m :: rest =>
    match mechOf m, parseEnv rest with
    | some m, some env => ((), res (construct m env))
    | _, _ => ((), "bad-op")
  | "rand" :: m :: rest =>
    match mechOf m, parseEnv rest with
    | some m, some env => ((), res (randomiseCheck m env))
    | _, _ => ((), "bad-op")
  | "ced" :: az :: rest =>
    match parseEnv rest with
    | some env => ((), res (runChain env (checkEpsilonDelta (az == "1"))))
    | none => ((), "bad-op")
  | "budget" :: rest =>
    match parseEnv rest with
    | some env => ((), res (runChain env budgetNew))
    | none => ((), "bad-op")
  | ["bounds", l, u] =>
    match parseVal l, parseVal u with
    | some l, some u => ((), res ((checkBounds l u).map fun _ => ()))
    | _, _ => ((), "bad-op")
  | "clip" :: rest =>
    match parseEnv rest with
    | some env => ((), res (runChain env clipChain))
    | none => ((), "bad-op")
  | "slack" :: rest =>
    match parseEnv rest with
    | some env => ((), res (runChain env slackChain))
    | none => ((), "bad-op")
  | "remk" :: rest =>
    match parseEnv rest with
    | some env => ((), res (runChain env remainingChain))
    | none => ((), "bad-op")
  | "acc" :: op :: ce :: cd :: n :: rest =>
    match parseExt ce, parseExt cd, n.toNat? with
    | some ce, some cd, some n =>
      match (rest.take (2 * n)).mapM parseExt, parseEnv (rest.drop (2 * n)) with
      | some sp, some env =>
        let a : AccV := ⟨ce, cd, pairsE sp⟩
        if op == "check" then ((), res (a.check env))
        else match a.spend env with
          | .ok a' => ((), s!"ok {a'.spent.length}")
          | .error e => ((), s!"{e.toString} {a.spent.length}")
      | _, _ => ((), "bad-op")
    | _, _, _ => ((), "bad-op")
  | "acctotal" :: cd :: sl :: rest =>
    match parseExt cd, rest.mapM parseVal with
    | some cd, some vs =>
      let slack : Option (Option PyVal) := if sl == "-" then some none else (parseVal sl).map some
      match slack with
      | some slack => ((), res (AccV.totalGiven ⟨.posInf, cd, []⟩ (pairsV vs) slack))
      | none => ((), "bad-op")
    | _, _ => ((), "bad-op")
  | "accnew" :: ce :: cd :: rest =>
    match parseVal ce, parseVal cd, rest.mapM parseVal with
    | some ce, some cd, some vs =>
      match AccV.new ce cd (pairsV vs) with
      | .ok a => ((), s!"ok {a.spent.length}")
      | .error e => ((), e.toString)
    | _, _, _ => ((), "bad-op")
  | "tool" :: ce :: cd :: "nobounds" :: rest =>
    match parseExt ce, parseExt cd, parseEnv rest with
    | some ce, some cd, some env => ((), res (toolEntry ⟨ce, cd, []⟩ none env))
    | _, _, _ => ((), "bad-op")
  | "tool" :: ce :: cd :: l :: u :: rest =>
    match parseExt ce, parseExt cd, parseVal l, parseVal u, parseEnv rest with
    | some ce, some cd, some l, some u, some env => ((), res (toolEntry ⟨ce, cd, []⟩ (some (l, u)) env))
    | _, _, _, _, _ => ((), "bad-op")
  | _ => ((), "bad-op")

def main : IO Unit := driverLoop step ()
