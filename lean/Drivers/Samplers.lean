/-
Line-protocol driver for the sampler model (C03) and the logistic-regression calibration model (C17).
Doubles travel as u64 bit patterns, naturals / integers as decimal text.
  lap   eps delta sens x u1 u2 u3 u4            -> ok out scale unit
  trunc eps delta sens lo hi x u1 u2 u3 u4      -> ok out
  fold  eps delta sens lo hi x u1 u2 u3 u4      -> ok out
  bdom  scale lo hi x u…                        -> ok out used | exhausted
  bnoise eps delta sens x u…                    -> ok out used bound | exhausted
  gscale eps delta sens                         -> ok scale
  gauss scale x n1 n2                           -> ok out unit
  dgauss scale <int x> u…                       -> ok <int out> used | exhausted
  stair eps gamma sens x u1 <g> u2 u3           -> ok out geomP binP
  stairgamma eps                                -> ok gamma
  unif  delta sens x u                          -> ok out
  vec   scale <d> normals(4d)… gammas(4)…       -> ok b1 … bd
  snapu <bits52> <w1> <w2> …                    -> ok value words | exhausted
  snap  eps sens lo hi x <bit> <bits52> <w>…    -> ok out words | exhausted
  calib eps c s alpha <n>                       -> ok epsP delta scale
  fit   eps C norm <nClasses> <nFeatures> <nSamples> <intercept 0/1>
                                                -> ok epsK <dim> alpha c s <n> l2 epsP delta scale
  pert  <n> delta <d> b1…bd w1…wd               -> ok value g1 … gd
  clip  clip x1 … xd                            -> ok y1 … yd
  bingacc uAu uOu <dims> b                      -> ok normConst codedProb kgmProb
-/
import DPL.Model.Samplers
import DPL.Model.LogReg
open DPL DPL.Smp DPL.LogReg

def parseNats (ss : List String) : Option (List Nat) := ss.mapM (·.toNat?)

def step (_ : Unit) (ws : List String) : Unit × String :=
  let out : String :=
    match ws with
    | "lap" :: args =>
      match parseFs args with
      | some [eps, delta, sens, x, u1, u2, u3, u4] =>
        s!"ok {showF (laplace eps delta sens x u1 u2 u3 u4)} {showF (laplaceScale eps delta sens)} {showF (lap4 u1 u2 u3 u4)}"
      | _ => "bad-op"
    | "trunc" :: args =>
      match parseFs args with
      | some [eps, delta, sens, lo, hi, x, u1, u2, u3, u4] =>
        s!"ok {showF (laplaceTruncated eps delta sens lo hi x u1 u2 u3 u4)}"
      | _ => "bad-op"
    | "fold" :: args =>
      match parseFs args with
      | some [eps, delta, sens, lo, hi, x, u1, u2, u3, u4] =>
        s!"ok {showF (laplaceFolded eps delta sens lo hi x u1 u2 u3 u4)}"
      | _ => "bad-op"
    | "bdom" :: args =>
      match parseFs args with
      | some (scale :: lo :: hi :: x :: us) =>
        match boundedDomain scale lo hi x us with
        | some (v, n) => s!"ok {showF v} {n}"
        | none => "exhausted"
      | _ => "bad-op"
    | "bnoise" :: args =>
      match parseFs args with
      | some (eps :: delta :: sens :: x :: us) =>
        match boundedNoise eps delta sens x us with
        | some (v, n) => s!"ok {showF v} {n} {showF (noiseBound eps delta sens)}"
        | none => "exhausted"
      | _ => "bad-op"
    | "gscale" :: args =>
      match parseFs args with
      | some [eps, delta, sens] => s!"ok {showF (gaussScale eps delta sens)}"
      | _ => "bad-op"
    | "gauss" :: args =>
      match parseFs args with
      | some [scale, x, n1, n2] => s!"ok {showF (gauss scale x n1 n2)} {showF (gaussUnit n1 n2)}"
      | _ => "bad-op"
    | "dgauss" :: scale :: x :: us =>
      match parseF scale, x.toInt?, parseFs us with
      | some scale, some x, some us =>
        match discreteGauss scale x us with
        | some (v, n) => s!"ok {v} {n}"
        | none => "exhausted"
      | _, _, _ => "bad-op"
    | ["stair", eps, gamma, sens, x, u1, g, u2, u3] =>
      match parseFs [eps, gamma, sens, x, u1, u2, u3], g.toNat? with
      | some [eps, gamma, sens, x, u1, u2, u3], some g =>
        s!"ok {showF (staircase eps gamma sens x u1 g u2 u3)} {showF (stairGeomP eps)} {showF (stairBinP eps gamma)}"
      | _, _ => "bad-op"
    | ["stairgamma", eps] =>
      match parseF eps with
      | some eps => s!"ok {showF (stairDefaultGamma eps)}"
      | none => "bad-op"
    | "unif" :: args =>
      match parseFs args with
      | some [delta, sens, x, u] => s!"ok {showF (uniform delta sens x u)}"
      | _ => "bad-op"
    | "vec" :: scale :: d :: rest =>
      match parseF scale, d.toNat?, parseFs rest with
      | some scale, some d, some xs =>
        if xs.length = 4 * d + 4 then
          s!"ok {showFs (vecNoise scale (xs.take (4 * d)) (xs.drop (4 * d)))}"
        else "bad-op"
      | _, _, _ => "bad-op"
    | "snapu" :: bits52 :: words =>
      match bits52.toNat?, parseNats words with
      | some b, some ws =>
        match (snapUniform b ws : Option (Float × Nat)) with
        | some (v, n) => s!"ok {showF v} {n}"
        | none => "exhausted"
      | _, _ => "bad-op"
    | "snap" :: eps :: sens :: lo :: hi :: x :: bit :: bits52 :: words =>
      match parseFs [eps, sens, lo, hi, x], bit.toNat?, bits52.toNat?, parseNats words with
      | some [eps, sens, lo, hi, x], some bit, some b52, some ws =>
        match snapping eps sens lo hi x bit b52 ws with
        | some (v, n) => s!"ok {showF v} {n}"
        | none => "exhausted"
      | _, _, _, _ => "bad-op"
    | ["calib", eps, c, s, alpha, n] =>
      match parseFs [eps, c, s, alpha], n.toNat? with
      | some [eps, c, s, alpha], some n =>
        let r := vectorCalib eps c s alpha n
        s!"ok {showF r.epsP} {showF r.delta} {showF r.scale}"
      | _, _ => "bad-op"
    | ["fit", eps, c, norm, ncl, nf, ns, ic] =>
      match parseFs [eps, c, norm], parseNats [ncl, nf, ns, ic] with
      | some [eps, c, norm], some [ncl, nf, ns, ic] =>
        let cs : CallSite Float := callSite eps c norm ncl nf ns (ic != 0)
        let r := vectorCalib cs.eps cs.c cs.s cs.alpha cs.n
        s!"ok {showF cs.eps} {cs.dim} {showF cs.alpha} {showF cs.c} {showF cs.s} {cs.n} {showF cs.l2} {showF r.epsP} {showF r.delta} {showF r.scale}"
      | _, _ => "bad-op"
    | "pert" :: n :: delta :: d :: rest =>
      match n.toNat?, parseF delta, d.toNat?, parseFs rest with
      | some n, some delta, some d, some xs =>
        if xs.length = 2 * d then
          let b := xs.take d
          let w := xs.drop d
          s!"ok {showF (perturbation b delta n w)} {showFs (perturbationGrad b delta n w)}"
        else "bad-op"
      | _, _, _, _ => "bad-op"
    | ["bingacc", a, o, d, b] =>
      match parseFs [a, o, b], d.toNat? with
      | some [a, o, b], some d =>
        let m := binghamNormConst d b
        s!"ok {showF m} {showF (binghamAcceptCoded a o m d)} {showF (binghamAcceptKGM a o m d)}"
      | _, _ => "bad-op"
    | "clip" :: args =>
      match parseFs args with
      | some (clip :: row) => s!"ok {showFs (clipRow row clip)}"
      | _ => "bad-op"
    | _ => "bad-op"
  ((), out)

def main : IO Unit := driverLoop step ()
