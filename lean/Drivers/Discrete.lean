/-
Line-protocol driver for the discrete mechanisms (C01).  Doubles travel as u64 bit patterns, integers in decimal,
bounds as `ninf` / `pinf` / <2·bound as an integer>.  One output line per input line.

  binary <eps> <ind> <u>…                          → ok <out>…
  binarylaw <eps>                                   → ok <P[flip]>
  geom <p|t|f> <eps> <sens> <value> <lo> <hi> <u>… → ok <out|none>…
  geoms <eps> <sens> <value> <u>…                   → ok <out> (uniform stream with the redraw at exactly ½) | exhausted
  geompmf <eps> <sens> <K>                          → ok <pmf(0)> … <pmf(K)> <tail(K+1)>
  geomq <eps> <sens> <k>…                           → ok <pmf(k)>…            (sens ≥ 1)
  geomtail <eps> <sens> <j>…                        → ok <P[noise ≥ j]>…      (j ≥ 1, sens ≥ 1)
  post <t|f> <lo> <hi> <v>…                         → ok <g(v)|none>…
  exp <eps> <sens> <mono> <n> <util>×n <m> <measure>×m <u>…   → ok <cum>×n | <pmf>×n | <idx|runtimeError>…
  bern <gamma> <u>…                                 → ok <0|1> <consumed>   | <error>
  bernlaw <gamma>                                   → ok <exp(-gamma)>
  paf <eps> <sens> <mono> <n> <util>×n <u>…         → ok <idx> <consumed>   | <error>
  paflaw <eps> <sens> <mono> <n> <util>×n           → ok <pmf>×n | <head>×n
  cat <eps> <t> (<a> <b> <util>)×t <value> <u>…     → ok <out|error>…       | <error>
  catlaw <eps> <t> (<a> <b> <util>)×t               → ok <balanced> <sens> <n> <domain>×n | <norm>×n | <pmf row>×n …
  hier <token>…   (tokens: `(` `)` <label>)         → ok <a> <b> <u> …      | <error>
-/
import DPL.Model.Discrete
open DPL DPL.Discrete

def rtol : Float := 1e-5
def atol : Float := 1e-8
/-- tolerances of the balanced-tree test of ExponentialCategorical (`np.isclose(z, z0, rtol=1e-12, atol=0)`) -/
def catRtol : Float := 1e-12
def catAtol : Float := 0
def fuelFold : Nat := 8
def fuelCoin : Nat := 100000

def parseBnd (s : String) : Option Bnd :=
  if s == "ninf" then some .negInf else if s == "pinf" then some .posInf else (s.toInt?).map .half

def showOI : Option Int → String
  | some v => toString v
  | none => "none"

def showEN : Except DErr Nat → String
  | .ok v => toString v
  | .error e => e.toString

def parseBool (s : String) : Option Bool := if s == "1" then some true else if s == "0" then some false else none

def takeFs (n : Nat) (ws : List String) : Option (List Float × List String) :=
  if ws.length < n then none else (parseFs (ws.take n)).map (fun l => (l, ws.drop n))

def parseTriples : Nat → List String → Option (List (Nat × Nat × Float) × List String)
  | 0, ws => some ([], ws)
  | n + 1, a :: b :: x :: ws =>
    match a.toNat?, b.toNat?, parseF x, parseTriples n ws with
    | some a, some b, some x, some (l, rest) => some ((a, b, x) :: l, rest)
    | _, _, _, _ => none
  | _, _ => none

/-- parse a bracketed token list into a forest; returns the children read up to the matching `)` (or the end) -/
partial def parseForest : List String → Option (List HTree × List String)
  | [] => some ([], [])
  | ")" :: rest => some ([], rest)
  | "(" :: rest =>
    match parseForest rest with
    | some (kids, rest') =>
      match parseForest rest' with
      | some (sibs, rest'') => some (HTree.node kids :: sibs, rest'')
      | none => none
    | none => none
  | w :: rest =>
    match w.toNat?, parseForest rest with
    | some l, some (sibs, rest') => some (HTree.leaf l :: sibs, rest')
    | _, _ => none

def geomScaleF (eps : Float) (sens : Nat) : Float := -eps / (sens : Float)

def step (_ : Unit) (ws : List String) : Unit × String :=
  let out : String :=
    match ws with
    | "binary" :: eps :: ind :: us =>
      match parseF eps, parseBool ind, parseFs us with
      | some eps, some ind, some us =>
        "ok " ++ " ".intercalate (us.map (fun u => if binaryRandomise eps (0 : Float) ind u then "1" else "0"))
      | _, _, _ => "bad-op"
    | ["binarylaw", eps] =>
      match parseF eps with
      | some eps => "ok " ++ showF (binaryFlipProb eps)
      | none => "bad-op"
    | "geom" :: var :: eps :: sens :: value :: lo :: hi :: us =>
      match parseF eps, sens.toNat?, value.toInt?, parseBnd lo, parseBnd hi, parseFs us with
      | some eps, some sens, some value, some lo, some hi, some us =>
        "ok " ++ " ".intercalate (us.map (fun u =>
          if var == "p" then toString (geomRandomise eps sens value u)
          else if var == "t" then showOI (geomTruncRandomise eps sens lo hi value u)
          else showOI (geomFoldRandomise eps sens lo hi fuelFold value u)))
      | _, _, _, _, _, _ => "bad-op"
    | "geoms" :: eps :: sens :: value :: us =>
      match parseF eps, sens.toNat?, value.toInt?, parseFs us with
      | some eps, some sens, some value, some us =>
        match geomDraw us with
        | some u => s!"ok {geomRandomise eps sens value u}"
        | none => "exhausted"
      | _, _, _, _ => "bad-op"
    | ["geompmf", eps, sens, k] =>
      match parseF eps, sens.toNat?, k.toNat? with
      | some eps, some sens, some k =>
        if sens == 0 then
          "ok " ++ showFs ((List.range (k + 1)).map (fun i => if i == 0 then (1 : Float) else 0) ++ [0])
        else
          let s := geomScaleF eps sens
          "ok " ++ showFs ((List.range (k + 1)).map (fun i => geomPmf s (Int.ofNat i)) ++ [geomTail s (k + 1)])
      | _, _, _ => "bad-op"
    | "geomq" :: eps :: sens :: ks =>
      match parseF eps, sens.toNat?, ks.mapM String.toInt? with
      | some eps, some sens, some ks => "ok " ++ showFs (ks.map (fun k => geomPmf (geomScaleF eps sens) k))
      | _, _, _ => "bad-op"
    | "geomtail" :: eps :: sens :: js =>
      match parseF eps, sens.toNat?, js.mapM String.toNat? with
      | some eps, some sens, some js => "ok " ++ showFs (js.map (fun j => geomTail (geomScaleF eps sens) j))
      | _, _, _ => "bad-op"
    | "post" :: var :: lo :: hi :: vs =>
      match parseBnd lo, parseBnd hi, vs.mapM String.toInt? with
      | some lo, some hi, some vs =>
        "ok " ++ " ".intercalate (vs.map (fun v =>
          showOI (if var == "t" then truncInt lo hi v else foldInt lo hi fuelFold v)))
      | _, _, _ => "bad-op"
    | "exp" :: eps :: sens :: mono :: n :: rest =>
      match parseF eps, parseF sens, parseBool mono, n.toNat? with
      | some eps, some sens, some mono, some n =>
        match takeFs n rest with
        | some (utils, m :: rest2) =>
          match m.toNat? with
          | some m =>
            match takeFs m rest2 with
            | some (measure, us) =>
              match parseFs us with
              | some us =>
                let pmf := expPmf eps sens mono atol utils measure
                let cum := cumFrom 0 pmf
                "ok " ++ showFs cum ++ " | " ++ showFs pmf ++ " | " ++
                  " ".intercalate (us.map (fun u => showEN (expSelect rtol atol cum u)))
              | none => "bad-op"
            | none => "bad-op"
          | none => "bad-op"
        | _ => "bad-op"
      | _, _, _, _ => "bad-op"
    | "bern" :: gamma :: us =>
      match parseF gamma, parseFs us with
      | some gamma, some us =>
        match bernNegExp fuelCoin gamma us with
        | .ok (b, rest) => s!"ok {if b then 1 else 0} {us.length - rest.length}"
        | .error e => e.toString
      | _, _ => "bad-op"
    | ["bernlaw", gamma] =>
      match parseF gamma with
      | some gamma => "ok " ++ showF (bernLaw gamma)
      | none => "bad-op"
    | "paf" :: eps :: sens :: mono :: n :: rest =>
      match parseF eps, parseF sens, parseBool mono, n.toNat? with
      | some eps, some sens, some mono, some n =>
        match takeFs n rest with
        | some (utils, us) =>
          match parseFs us with
          | some us =>
            let logp := pafLogProbs (expScale eps sens mono) utils
            match pafRun logp fuelCoin (n + 1) (List.range n) us with
            | .ok (idx, rest) => s!"ok {idx} {us.length - rest.length}"
            | .error e => e.toString
          | none => "bad-op"
        | none => "bad-op"
      | _, _, _, _ => "bad-op"
    | "paflaw" :: eps :: sens :: mono :: n :: rest =>
      match parseF eps, parseF sens, parseBool mono, n.toNat? with
      | some eps, some sens, some mono, some n =>
        match takeFs n rest with
        | some (utils, _) =>
          let heads := pafHeads (pafLogProbs (expScale eps sens mono) utils)
          "ok " ++ showFs (pafPmf heads) ++ " | " ++ showFs heads
        | none => "bad-op"
      | _, _, _, _ => "bad-op"
    | "cat" :: eps :: t :: rest =>
      match parseF eps, t.toNat? with
      | some eps, some t =>
        match parseTriples t rest with
        | some (ul, value :: us) =>
          match value.toNat?, parseFs us with
          | some value, some us =>
            match catBuild catRtol catAtol eps ul with
            | .ok c => "ok " ++ " ".intercalate (us.map (fun u => showEN (catRandomise eps c value u)))
            | .error e => e.toString
          | _, _ => "bad-op"
        | _ => "bad-op"
      | _, _ => "bad-op"
    | "catlaw" :: eps :: t :: rest =>
      match parseF eps, t.toNat? with
      | some eps, some t =>
        match parseTriples t rest with
        | some (ul, _) =>
          match catBuild catRtol catAtol eps ul with
          | .ok c =>
            s!"ok {if c.balanced then 1 else 0} {showF c.sens} {c.domain.length} " ++
              " ".intercalate (c.domain.map toString) ++ " | " ++ showFs c.norm ++ " | " ++
              " ".intercalate (c.domain.map (fun v => showFs (catPmf eps c v)))
          | .error e => e.toString
        | none => "bad-op"
      | _, _ => "bad-op"
    | "hier" :: toks =>
      match parseForest toks with
      | some (top, []) =>
        match hierUtilityList top with
        | .ok l => "ok " ++ " ".intercalate (l.map (fun (a, b, u) => s!"{a} {b} {u}"))
        | .error e => e.toString
      | _ => "bad-op"
    | _ => "bad-op"
  ((), out)

def main : IO Unit := driverLoop step ()
