/-
Line-protocol driver for the accountant model (C04, C05, C18, C09).  Doubles travel as u64 bit patterns.
  new <eps> <delta> <slack> <e1> <d1> <e2> <d2> …     construct (replaces the current state)
  spend <e> <d> | check <e> <d> | slack <s> | total | remaining <k>
  totalcore <slack> <e1> <d1> …                        the pure arithmetic of total()
Every line answers  `<res> <len> <slack> <totEps> <totDelta> [extras]`  or `nostate`.
-/
import DPL.Model.Accountant
open DPL

def resStr : Res → String
  | .ok => "ok"
  | .err e => e.toString

def pairs : List Float → List (Spend Float)
  | e :: d :: rest => ⟨e, d⟩ :: pairs rest
  | _ => []

def summary (a : Acc Float) : String :=
  match a.total with
  | .ok t => s!"{a.spent.length} {showF a.slack} {showF t.eps} {showF t.delta}"
  | .error e => s!"{a.spent.length} {showF a.slack} total-{e.toString} -"

def minFactor : Float := 1e-14

def step (st : Option (Acc Float)) (ws : List String) : Option (Acc Float) × String :=
  match ws with
  | "new" :: args =>
    match parseFs args with
    | some (eps :: delta :: slack :: rest) =>
      match Acc.new eps delta slack minFactor (pairs rest) with
      | .ok a => (some a, s!"ok {summary a}")
      | .error e => (none, s!"{e.toString}")
    | _ => (st, "bad-op")
  | "totalcore" :: args =>
    match parseFs args with
    | some (slack :: rest) =>
      let t := totalCore (pairs rest) slack
      let s := epsSums (pairs rest)
      (st, s!"ok {showF t.eps} {showF t.delta} {showF s.sum} {showF (drvEps s slack)} {showF (kovEps s slack)}")
    | _ => (st, "bad-op")
  | _ =>
    match st with
    | none => (st, "nostate")
    | some a =>
      match ws with
      | ["spend", e, d] =>
        match parseF e, parseF d with
        | some e, some d =>
          let (a', r) := a.step (.spend e d)
          (some a', s!"{resStr r} {summary a'}")
        | _, _ => (st, "bad-op")
      | ["check", e, d] =>
        match parseF e, parseF d with
        | some e, some d =>
          let (a', r) := a.step (.check e d)
          (some a', s!"{resStr r} {summary a'}")
        | _, _ => (st, "bad-op")
      | ["slack", s] =>
        match parseF s with
        | some s =>
          let (a', r) := a.step (.setSlack s)
          (some a', s!"{resStr r} {summary a'}")
        | _ => (st, "bad-op")
      | ["total"] => (st, s!"ok {summary a}")
      | ["remaining", k] =>
        match k.toNat? with
        | some k =>
          match a.remaining k with
          | .ok (t, n) => (st, s!"ok {summary a} {showF t.eps} {showF t.delta} {n}")
          | .error e => (st, s!"{e.toString} {summary a}")
        | none => (st, "bad-op")
      | _ => (st, "bad-op")

def main : IO Unit := driverLoop step none
