/-
Line-protocol driver for the forest's row -> tree arithmetic and the schedule model (C15).
  subsets <n> <k>                  tree index of every row 0..n-1 for `shuffle=False`  (answer: n integers)
  subsetsp <k> <p0> <p1> …         tree index of every row for `tree_idxs = [p0, p1, …]` (a permutation; n = its length)
  fdiv <a> <b>                     numpy `a // b` on doubles (u64 bit patterns in and out)
  sched <k> <seed> ; <need…> ; <schedule…>
        toy instance of the discipline (LCG generator, a task appends its draws): results of `seededRun` under the
        given schedule, then under the sequential schedule, then of the shared-generator contrast model under both
-/
import DPL.Model.Num
import DPL.Model.Schedule
open DPL

def lcg : Gen Nat := ⟨fun g => let g' := (g * 6364136223846793005 + 1442695040888963407) % 2 ^ 64; (g' / 2 ^ 33, g'), fun s => s⟩

def splitOnSemi (ws : List String) : List (List String) :=
  ws.foldr (fun w acc => if w = ";" then [] :: acc else match acc with
    | [] => [[w]]
    | a :: as => (w :: a) :: as) [[]]

def showLists (k : Nat) (f : Nat → List Nat) : String :=
  " / ".intercalate ((List.range k).map fun i => " ".intercalate ((f i).map toString))

def step (_ : Unit) (ws : List String) : Unit × String :=
  match ws with
  | ["subsets", n, k] =>
    match n.toNat?, k.toNat? with
    | some n, some k =>
      if k = 0 then ((), "bad-op") else
      ((), " ".intercalate ((List.range n).map fun row => toString (treeOf Float n k row)))
    | _, _ => ((), "bad-op")
  | "subsetsp" :: k :: ps =>
    match k.toNat?, ps.mapM String.toNat? with
    | some k, some ps =>
      if k = 0 then ((), "bad-op") else
      ((), " ".intercalate (ps.map fun p => toString (treeOf Float ps.length k p)))
    | _, _ => ((), "bad-op")
  | ["fdiv", a, b] =>
    match parseF a, parseF b with
    | some a, some b => ((), showF (npyFloorDiv a b))
    | _, _ => ((), "bad-op")
  | "sched" :: k :: seed :: ";" :: rest =>
    match k.toNat?, seed.toNat?, splitOnSemi rest with
    | some k, some seed, [needs, sch] =>
      match needs.mapM String.toNat?, sch.mapM String.toNat? with
      | some needs, some sch =>
        -- task-local state: (own generator, steps still needed, draws so far)
        let init : Nat → Nat → Nat × List Nat := fun g _ => (g, [])
        let stepT : Nat × List Nat → Nat × List Nat := fun p => ((lcg.next p.1).2, p.2 ++ [(lcg.next p.1).1])
        let input := fun i => needs.getD i 0
        let tasks := seededTasks lcg init seed k input
        let seqSch := (List.range k).flatMap fun i => List.replicate (needs.getD i 0) i
        let own := fun s => showLists k (fun i => (runOwned stepT s tasks i).2)
        let shared := fun s => showLists k (fun i => (runShared lcg (fun l x => l ++ [x]) s seed (fun _ => [])).2 i)
        ((), own sch ++ " ;; " ++ own seqSch ++ " ;; " ++ shared sch ++ " ;; " ++ shared seqSch)
      | _, _ => ((), "bad-op")
    | _, _, _ => ((), "bad-op")
  | _ => ((), "bad-op")

def main : IO Unit := driverLoop step ()
