/-
Line-protocol driver for the estimator plans (C06, C08).  One line = one fit of a Lean plan on a dataset with forced
mechanism outputs.  Sections are separated by `|`; doubles travel as u64 bit patterns, integers in decimal.

  gnb    | eps n d K            | lo | hi | X (row major) | y | outs
  scaler | eps n d wm ws        | lo | hi | X | outs
  kmeans | eps n d k            | lo | hi | X | init (k*d) | outs
  linreg | eps n d t y1d fi     | lo | hi | ylo | yhi | X | Y (row major, t per row) | outs
  logreg | eps datasens ncls    | outs
  pca    | eps n d k centered   | lo | hi | X | outs
  forest | eps n d K ntrees     | lo | hi | X | y | treeOf | outs | feature | thr | left | right | depth   (5 per tree)

Answer:  ok <ncalls> | kind eps delta sens lower upper input (7 tokens per call) | probes (bit strings) | release
-/
import DPL.Model.Num
import DPL.Model.PlanModels
open DPL DPL.PM

def sections (ws : List String) : List (List String) :=
  ws.foldr (fun w acc => if w = "|" then [] :: acc else match acc with
    | [] => [[w]]
    | a :: as => (w :: a) :: as) [[]]

def chunk (d : Nat) : Nat → List Float → List (List Float)
  | 0, _ => []
  | n + 1, xs => xs.take d :: chunk d n (xs.drop d)

def showCall (c : MechCall Float) (inp : Float) : String :=
  s!"{c.kind} {showF c.eps} {showF c.delta} {showF c.sens} {showF c.lower} {showF c.upper} {showF inp}"

def showTrace {ρ : Type} (t : Trace Float ρ) (rel : ρ → List Float) : String :=
  let calls := " ".intercalate (List.zipWith showCall t.calls t.inputs)
  let probes := " ".intercalate (t.probes.map fun b => String.ofList (b.map fun x => if x then '1' else '0'))
  let r := match t.release with
    | some r => showFs (rel r)
    | none => "short"
  s!"ok {t.calls.length} | {calls} | {probes} | {r}"

def inf : Float := 1.0 / 0.0

def nats (ss : List String) : Option (List Nat) := ss.mapM String.toNat?
def ints (ss : List String) : Option (List Int) := ss.mapM String.toInt?

def mkDS (d : Nat) (n : Nat) (xs : List Float) (ys : List Nat) (ts : List (List Float)) : DS Float :=
  (List.range n).map fun i => ⟨(xs.drop (i * d)).take d, ys.getD i 0, ts.getD i []⟩

def mkTrees : List (List String) → Option (List (Tree Float))
  | f :: th :: l :: r :: [dp] :: rest => do
    let f ← ints f
    let th ← parseFs th
    let l ← ints l
    let r ← ints r
    let dp ← dp.toNat?
    let ts ← mkTrees rest
    pure (⟨f.map Int.toNat, th, l, r, dp⟩ :: ts)
  | [] => some []
  | [[]] => some []
  | _ => none

def step (_ : Unit) (ws : List String) : Unit × String :=
  let bad := ((), "bad-op")
  match sections ws with
  | ["gnb"] :: [eps, n, d, K] :: lo :: hi :: xs :: ys :: outs :: [] =>
    match parseF eps, n.toNat?, d.toNat?, K.toNat?, parseFs lo, parseFs hi, parseFs xs, nats ys, parseFs outs with
    | some eps, some n, some d, some K, some lo, some hi, some xs, some ys, some outs =>
      let p : GnbParams Float := ⟨eps, lo, hi, n, d, K⟩
      let t := (gnbPlan p).run (mkDS d n xs ys []) outs
      ((), showTrace t fun r => r.counts ++ r.stats.flatten.flatMap fun s => [s.1, s.2])
    | _, _, _, _, _, _, _, _, _ => bad
  | ["scaler"] :: [eps, n, d, wm, ws] :: lo :: hi :: xs :: outs :: [] =>
    match parseF eps, n.toNat?, d.toNat?, parseFs lo, parseFs hi, parseFs xs, parseFs outs with
    | some eps, some n, some d, some lo, some hi, some xs, some outs =>
      let p : ScalerParams Float := ⟨eps, lo, hi, n, d, wm == "1", ws == "1"⟩
      let t := (scalerPlan p).run (mkDS d n xs [] []) outs
      ((), showTrace t fun r => r.1 ++ r.2)
    | _, _, _, _, _, _, _ => bad
  | ["kmeans"] :: [eps, n, d, k] :: lo :: hi :: xs :: init :: outs :: [] =>
    match parseF eps, n.toNat?, d.toNat?, k.toNat?, parseFs lo, parseFs hi, parseFs xs, parseFs init, parseFs outs with
    | some eps, some n, some d, some k, some lo, some hi, some xs, some init, some outs =>
      let p : KmParams Float := ⟨eps, lo, hi, n, d, k, chunk d k init, inf⟩
      let t := (kmPlan p).run (mkDS d n xs [] []) outs
      ((), showTrace t fun r => Float.ofNat (kmIters p) :: r.flatten)
    | _, _, _, _, _, _, _, _, _ => bad
  | ["linreg"] :: [eps, n, d, tt, y1d, fi] :: lo :: hi :: ylo :: yhi :: xs :: ys :: outs :: [] =>
    match parseF eps, n.toNat?, d.toNat?, tt.toNat?, parseFs lo, parseFs hi, parseFs ylo, parseFs yhi, parseFs xs,
        parseFs ys, parseFs outs with
    | some eps, some n, some d, some tt, some lo, some hi, some ylo, some yhi, some xs, some ys, some outs =>
      let p : LinParams Float := ⟨eps, lo, hi, ylo, yhi, n, d, tt, y1d == "1", fi == "1", inf⟩
      let t := (linPlan p).run (mkDS d n xs [] (chunk tt n ys)) outs
      ((), showTrace t fun r => r.1.1 ++ r.1.2 ++ r.2.1 ++ r.2.2.1 ++ r.2.2.2)
    | _, _, _, _, _, _, _, _, _, _, _ => bad
  | ["logreg"] :: [eps, ds, ncls] :: outs :: [] =>
    match parseF eps, parseF ds, ncls.toNat?, parseFs outs with
    | some eps, some ds, some ncls, some outs =>
      let t := (logregPlan eps ds ncls).run ([] : DS Float) outs
      ((), showTrace t fun r => r)
    | _, _, _, _ => bad
  | ["pca"] :: [eps, n, d, k, cen] :: lo :: hi :: xs :: outs :: [] =>
    match parseF eps, n.toNat?, d.toNat?, k.toNat?, parseFs lo, parseFs hi, parseFs xs, parseFs outs with
    | some eps, some n, some d, some k, some lo, some hi, some xs, some outs =>
      let p : PcaParams Float := ⟨eps, cen == "1", lo, hi, n, d, k, inf⟩
      let t := (pcaPlan p (fun _ _ _ => 0) (fun _ _ _ => 0)).run (mkDS d n xs [] []) outs
      ((), showTrace t fun r => r.1 ++ r.2)
    | _, _, _, _, _, _, _, _ => bad
  | ["forest"] :: [eps, n, d, K, _nt] :: lo :: hi :: xs :: ys :: tof :: outs :: trees =>
    match parseF eps, n.toNat?, d.toNat?, K.toNat?, parseFs lo, parseFs hi, parseFs xs, nats ys, nats tof,
        parseFs outs, mkTrees trees with
    | some eps, some n, some d, some K, some lo, some hi, some xs, some ys, some tof, some outs, some trees =>
      let p : ForestParams Float := ⟨eps, lo, hi, n, K, trees, tof, inf⟩
      let t := (forestPlan p).run (mkDS d n xs ys []) outs
      ((), showTrace t fun r => r.flatten.flatMap fun s => [Float.ofNat s.1, s.2])
    | _, _, _, _, _, _, _, _, _, _, _ => bad
  | _ => bad

def main : IO Unit := driverLoop step ()
