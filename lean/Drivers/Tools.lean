/-
Line-protocol driver for the tool plans (C07) and the charged queries (C09).  Doubles travel as u64 bit patterns,
counts and indices in decimal.  One answer line per input line.

C07 — tool traces (forced mechanism outputs):
  scalar <tool> <eps> <l> <u> <out> <x>*            tool ∈ mean var std sum nanmean nanvar nanstd nansum count intsum
      -> `1 <kind> <eps> <delta> <sens> <lower> <upper> <input> R <release>`
  axis <tool> <eps> <size> <nrec> (<l> <u>){size} <out>{size} <x>{nrec*size, record-major}
      -> `<size> (<kind> <eps> <delta> <sens> <lower> <upper> <input>){size} R <release>{size}`
  hist <dd:0|1> <weighted:0|1> <density:0|1> <eps> <maxsize> <ndim> (<m> <edge>{m}){ndim} <nrows> (<x>{ndim} <w>){nrows} <out>*
      -> `<ncalls> <kind> <eps> <delta> <sens> <lower> <upper> I <input>{ncalls} R <release>{ncalls}`
  quantile <eps> <l> <u> <minsep> <q> <idx> <uni> <x>*
      -> `nan` | `<k+1> U <utility>{k+1} M <measure>{k+1} W <weights>{k+1} R <release>`
C09 — charged queries; a world is  <dflt> <nacc> (<ceilEps> <ceilDelta> <slack> <nspent> (<e> <d>){nspent}){nacc}
  charge <world> scalar <explicit|-> <eps> <calls>
  charge <world> cells <explicit|-> <eps> <ncells> <callsPerCell>
  charge <world> multiq <explicit|-> <eps> <axis:0|1> <m> <ncells> <callsPerCell>
  charge <world> fit <explicit-at-construction|-> <dflt-at-fit> <eps> <calls>
      -> `<ok|error kind> <mechCalls> (<len> <totalEps>){nacc}`
-/
import DPL.Model.PlanTools
import DPL.Model.Charged
open DPL DPL.Tools DPL.Charged

abbrev P := StateT (List String) Option

def tok : P String := do
  match (← get) with
  | [] => failure
  | t :: ts => set ts; pure t

def pNat : P Nat := do
  let t ← tok
  match t.toNat? with
  | some n => pure n
  | none => failure

def pF : P Float := do return fOfBits (← pNat)

def pMany {β : Type} (n : Nat) (p : P β) : P (List β) := (List.range n).mapM (fun _ => p)

def pRest : P (List Float) := do
  let ts ← get
  set ([] : List String)
  match parseFs ts with
  | some xs => pure xs
  | none => failure

def pOptNat : P (Option Nat) := do
  let t ← tok
  if t = "-" then pure none else
    match t.toNat? with
    | some n => pure (some n)
    | none => failure

def showCall (c : MechCall Float) : String :=
  s!"{c.kind} {showF c.eps} {showF c.delta} {showF c.sens} {showF c.lower} {showF c.upper}"

def optF (xs : List Float) : List (Option Float) := xs.map (fun x => if x.isNaN then none else some x)

def nanF : Float := 0.0 / 0.0

/-- run a scalar plan and print `1 call input R release` -/
def showScalar {δ : Type} (p : Plan δ Float Float) (D : δ) (out : Float) : String :=
  let t := p.run D [out]
  match t.calls, t.inputs, t.release with
  | [c], [i], some r => s!"1 {showCall c} {showF i} R {showF r}"
  | _, _, _ => "bad-trace"

def scalarLine : P String := do
  let tool ← tok
  let ε ← pF; let l ← pF; let u ← pF; let out ← pF
  let xs ← pRest
  let n := xs.length
  match tool with
  | "mean" => pure (showScalar (meanPlan n ε l u) xs out)
  | "var" => pure (showScalar (varPlan n ε l u) xs out)
  | "std" => pure (showScalar (stdPlan n ε l u) xs out)
  | "sum" => pure (showScalar (sumPlan n ε l u) xs out)
  | "nanmean" => pure (showScalar (nanmeanPlan n ε l u) (optF xs) out)
  | "nanvar" => pure (showScalar (nanvarPlan n ε l u) (optF xs) out)
  | "nanstd" => pure (showScalar (nanstdPlan n ε l u) (optF xs) out)
  | "nansum" => pure (showScalar (nansumPlan n ε l u) (optF xs) out)
  | "count" => pure (showScalar (countNonzeroPlan n ε) xs out)
  | "intsum" => pure (showScalar (intSumPlan n ε l u (truncv l) (truncv u)) xs out)
  | _ => failure

def chunks {β : Type} (k : Nat) : Nat → List β → List (List β)
  | 0, _ => []
  | n + 1, xs => xs.take k :: chunks k n (xs.drop k)

def showMulti {δ : Type} (p : Plan δ Float (List Float)) (D : δ) (outs : List Float) : String :=
  let t := p.run D outs
  match t.release with
  | some r =>
    let cs := List.zipWith (fun c i => s!"{showCall c} {showF i}") t.calls t.inputs
    s!"{t.calls.length} {" ".intercalate cs} R {showFs r}"
  | none => "bad-trace"

def axisLine : P String := do
  let tool ← tok
  let ε ← pF; let size ← pNat; let nrec ← pNat
  let bs ← pMany size (do let l ← pF; let u ← pF; pure (l, u))
  let outs ← pMany size pF
  let xs ← pRest
  let rows := chunks size nrec xs
  let bnd : Nat → Float × Float := fun c => bs.getD c (0, 0)
  match tool with
  | "mean" => pure (showMulti (wrapAxis 0 size ε bnd (meanPlan nrec)) rows outs)
  | "var" => pure (showMulti (wrapAxis 0 size ε bnd (varPlan nrec)) rows outs)
  | "std" => pure (showMulti (wrapAxis 0 size ε bnd (stdPlan nrec)) rows outs)
  | "sum" => pure (showMulti (wrapAxis 0 size ε bnd (sumPlan nrec)) rows outs)
  | "nanmean" => pure (showMulti (wrapAxis none size ε bnd (nanmeanPlan nrec)) (rows.map optF) outs)
  | "nanvar" => pure (showMulti (wrapAxis none size ε bnd (nanvarPlan nrec)) (rows.map optF) outs)
  | "nanstd" => pure (showMulti (wrapAxis none size ε bnd (nanstdPlan nrec)) (rows.map optF) outs)
  | "nansum" => pure (showMulti (wrapAxis none size ε bnd (nansumPlan nrec)) (rows.map optF) outs)
  | "count" => pure (showMulti (wrapAxis 0 size ε bnd (fun e _ _ => countNonzeroPlan nrec e)) rows outs)
  | "intsum" => pure (showMulti (wrapAxis 0 size ε bnd
      (fun e l u => intSumPlan nrec e l u (truncv l) (truncv u))) rows outs)
  | _ => failure

def histLine : P String := do
  let dd ← pNat; let weighted ← pNat; let density ← pNat
  let ε ← pF; let maxsize ← pF
  let ndim ← pNat
  let edges ← pMany ndim (do let m ← pNat; pMany m pF)
  let nrows ← pNat
  let rows ← pMany nrows (do let x ← pMany ndim pF; let w ← pF; pure (WRow.mk x w))
  let outs ← pRest
  let p := if dd = 1 then histogramddPlan edges (weighted = 1) (density = 1) ε maxsize
           else histogramPlan (edges.headD []) (weighted = 1) (density = 1) ε maxsize
  let t := p.run rows outs
  match t.release, t.calls with
  | some r, c :: _ => pure s!"{t.calls.length} {showCall c} I {showFs t.inputs} R {showFs r}"
  | _, _ => pure "bad-trace"

def quantileLine : P String := do
  let ε ← pF; let l ← pF; let u ← pF; let ms ← pF; let q ← pF
  let idx ← pNat; let uni ← pF
  let xs ← pRest
  let (l', u') := sepBounds ms l u
  let s := quantileSetup xs l' u' q
  if s.hasNaN then pure "nan" else
    pure s!"{s.utility.length} U {showFs s.utility} M {showFs s.measure} W {showFs (quantileWeights s ε)} R {showF (quantileRelease s idx uni)}"

/-! ### C09 -/

def minFactor : Float := 1e-14

def pAcc : P (Acc Float) := do
  let ce ← pF; let cd ← pF; let sl ← pF
  let ns ← pNat
  let sp ← pMany ns (do let e ← pF; let d ← pF; pure (Spend.mk e d))
  pure { ceilEps := ce, ceilDelta := cd, minEps := if HasInf.isPosInf ce then 0 else ce * minFactor,
         slack := sl, spent := sp }

def pWorld : P (World Float) := do
  let d ← pNat
  let n ← pNat
  let accs ← pMany n pAcc
  pure ⟨accs, d⟩

def showOutcome {ρ : Type} (o : Outcome Float ρ) : String :=
  let r := match o.res with
    | .ok _ => "ok"
    | .error e => e.toString
  let accs := o.accs.map (fun a =>
    let t := totalCore a.spent a.slack
    s!"{a.spent.length} {showF t.eps}")
  s!"{r} {o.mechCalls} {" ".intercalate accs}"

def chargeLine : P String := do
  let w ← pWorld
  let kind ← tok
  match kind with
  | "scalar" =>
    let ex ← pOptNat; let ε ← pF; let calls ← pNat
    pure (showOutcome (scalarQ ex ε (⟨calls, ()⟩ : Body Unit) w))
  | "cells" =>
    let ex ← pOptNat; let ε ← pF; let n ← pNat; let cpc ← pNat
    pure (showOutcome (wrapAxisQ ex ε (List.replicate n (⟨cpc, ()⟩ : Body Unit)) w))
  | "multiq" =>
    let ex ← pOptNat; let ε ← pF; let axis ← pNat; let m ← pNat; let n ← pNat; let cpc ← pNat
    pure (showOutcome (multiQuantileQ ex ε (axis = 1)
      (List.replicate m (List.replicate n (⟨cpc, ()⟩ : Body Unit))) w))
  | "fit" =>
    let ex ← pOptNat; let dfltFit ← pNat; let ε ← pF; let calls ← pNat
    let m := construct w ex
    let w' : World Float := { w with dflt := dfltFit }
    pure (showOutcome (fitQ m ε (fun w => (⟨.ok (), w.accs, 0⟩ : Outcome Float Unit))
      (fun _ => (⟨calls, ()⟩ : Body Unit)) w'))
  | _ => failure

def step (_ : Unit) (ws : List String) : Unit × String :=
  let r : Option (String × List String) :=
    match ws with
    | "scalar" :: rest => scalarLine.run rest
    | "axis" :: rest => axisLine.run rest
    | "hist" :: rest => histLine.run rest
    | "quantile" :: rest => quantileLine.run rest
    | "charge" :: rest => chargeLine.run rest
    | _ => none
  match r with
  | some (s, _) => ((), s)
  | none => ((), "bad-op")

def main : IO Unit := driverLoop step ()
