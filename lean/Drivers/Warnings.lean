/-
Line-protocol driver for the C11 guard table.
  q <entry> <shape>* | <flag>*          shape ∈ g n lT lF tT tF (list/tuple, has None / has none), flag ∈ 0 1
      -> `d=<0|1> w=<0|1> s=<0|1>`      derives / warns / silent
  hist <rangeNone> <isList> <e><m> …    one token per dimension: e = edges given (0/1), m = range entry missing (0/1)
      -> `d=<0|1> shape=<tok> flag=<0|1>`
  filter <once|default|always> <n>      n identical occurrences -> delivered flags, e.g. `1 0 0`
-/
import DPL.Model.Num
import DPL.Model.Warnings
open DPL DPL.Warn

def entryOf : String → Option Entry
  | "count_nonzero" => some .count_nonzero | "mean" => some .mean | "nanmean" => some .nanmean
  | "var" => some .var | "nanvar" => some .nanvar | "std" => some .std | "nanstd" => some .nanstd
  | "sum" => some .sum | "nansum" => some .nansum | "histogram" => some .histogram
  | "histogramdd" => some .histogramdd | "histogram2d" => some .histogram2d | "quantile" => some .quantile
  | "percentile" => some .percentile | "median" => some .median | "GaussianNB" => some .GaussianNB
  | "KMeans" => some .KMeans | "StandardScaler" => some .StandardScaler
  | "LinearRegression" => some .LinearRegression | "LogisticRegression" => some .LogisticRegression
  | "PCA" => some .PCA | "RandomForestClassifier" => some .RandomForestClassifier
  | "DecisionTreeClassifier" => some .DecisionTreeClassifier | "covariance_eig" => some .covariance_eig
  | _ => none

def shapeOf : String → Option AShape
  | "g" => some .given | "n" => some .none
  | "lT" => some (.seq true true) | "lF" => some (.seq true false)
  | "tT" => some (.seq false true) | "tF" => some (.seq false false)
  | _ => none

def shapeTok : AShape → String
  | .given => "g" | .none => "n"
  | .seq true true => "lT" | .seq true false => "lF" | .seq false true => "tT" | .seq false false => "tF"

def bit (b : Bool) : String := if b then "1" else "0"
def bitOf : String → Option Bool
  | "1" => some true | "0" => some false | _ => none

def splitBar (ws : List String) : List String × List String :=
  (ws.takeWhile (· ≠ "|"), (ws.dropWhile (· ≠ "|")).drop 1)

def dimOf (s : String) : Option Dim :=
  match s.toList with
  | [e, m] => match bitOf (String.singleton e), bitOf (String.singleton m) with
    | some e, some m => some ⟨e, m⟩
    | _, _ => none
  | _ => none

def step (_ : Unit) (ws : List String) : Unit × String :=
  match ws with
  | "q" :: e :: rest =>
    let (ss, fs) := splitBar rest
    match entryOf e, ss.mapM shapeOf, fs.mapM bitOf with
    | some e, some shapes, some flags =>
      match lookup table e with
      | some ep =>
        if shapes.length = ep.params.length ∧ flags.length = ep.flags.length then
          ((), s!"d={bit (ep.derives shapes flags)} w={bit (ep.warns shapes flags)} s={bit (ep.silent shapes flags)}")
        else ((), "bad-arity")
      | none => ((), "no-entry")
    | _, _, _ => ((), "bad-op")
  | "hist" :: rn :: il :: dims =>
    match bitOf rn, bitOf il, dims.mapM dimOf with
    | some rn, some il, some ds =>
      let c : HistCall := ⟨rn, il, ds⟩
      ((), s!"d={bit c.derives} shape={shapeTok c.shape} flag={bit c.flag}")
    | _, _, _ => ((), "bad-op")
  | ["filter", a, n] =>
    let act : Option Action := match a with
      | "once" => some .once | "default" => some .default | "always" => some .always | _ => none
    match act, n.toNat? with
    | some act, some n =>
      ((), " ".intercalate ((deliverAll act .empty (List.replicate n ⟨0, 0⟩)).map bit))
    | _, _ => ((), "bad-op")
  | _ => ((), "bad-op")

def main : IO Unit := driverLoop step ()
