/-
Line-protocol driver for the clipping model (C10) and the range model (C12).  Doubles travel as u64 bit patterns,
integers in decimal.  One output line per input line: `ok …`, an error name, `hang`, or `bad-op`.

  clipb  <nrows> <ncols> <nb> <lower×nb> <upper×nb> <data×nrows·ncols>      clip_to_bounds, 2-d
  clipb1 <n> <nb> <lower×nb> <upper×nb> <data×n>                            clip_to_bounds, 1-d
  clipn  <nrows> <ncols> <c> <data…>                                        clip_to_norm
  trunc <lo> <hi> <v> | fold <lo> <hi> <v> | fmod <x> <y> | round <x>
  lapscale <eps> <delta> <sens>
  laptr|lapfold <lo> <hi> <value> <eps> <delta> <sens> <u1> <u2> <u3> <u4>
  lapbd <lo> <hi> <value> <scale> <u…>
  geom <eps> <sens> <value:int> <u…> | geomtr|geomfold <lo> <hi> <eps> <sens> <value:int> <u…>
  snap <eps> <sens> <lo> <hi> <v> <bit> <mant:nat> <word:nat…>
  expsel <u> <close:0|1> <cum…> | catsel <t> <prob…> | binary <eps> <delta> <u> <ind:0|1>
  pf <n> <pos flip>… | bern <gamma> <u…>
-/
import DPL.Model.Clip
import DPL.Model.Range
open DPL

def chunk (xs : List Float) (n : Nat) : Nat → List (List Float)
  | 0 => []
  | k + 1 => xs.take n :: chunk (xs.drop n) n k

def showRows (rs : List (List Float)) : String := showFs rs.flatten

def showInt (i : Int) : String := toString i

def optOut {β : Type} (f : β → String) : Option β → String
  | none => "hang"
  | some b => f b

def exOut (r : Except RErr Int) : String :=
  match r with
  | .ok n => s!"ok {n}"
  | .error e => e.toString

def step (_ : Unit) (ws : List String) : Unit × String :=
  let out : String :=
    match ws with
    | "clipb" :: nr :: nc :: nb :: rest =>
      match nr.toNat?, nc.toNat?, nb.toNat?, parseFs rest with
      | some nr, some nc, some nb, some xs =>
        let lower := xs.take nb
        let upper := (xs.drop nb).take nb
        let data := chunk (xs.drop (2 * nb)) nc nr
        match clipToBounds data lower upper with
        | .ok rs => "ok " ++ showRows rs
        | .error e => e.toString
      | _, _, _, _ => "bad-op"
    | "clipb1" :: n :: nb :: rest =>
      match n.toNat?, nb.toNat?, parseFs rest with
      | some _, some nb, some xs =>
        match clipToBounds1 (xs.drop (2 * nb)) (xs.take nb) ((xs.drop nb).take nb) with
        | .ok r => "ok " ++ showFs r
        | .error e => e.toString
      | _, _, _ => "bad-op"
    | "clipn" :: nr :: nc :: rest =>
      match nr.toNat?, nc.toNat?, parseFs rest with
      | some nr, some nc, some (c :: xs) =>
        match clipToNorm (chunk xs nc nr) c with
        | .ok rs => "ok " ++ showRows rs
        | .error e => e.toString
      | _, _, _ => "bad-op"
    | "trunc" :: rest =>
      match parseFs rest with
      | some [lo, hi, v] => "ok " ++ showF (truncate lo hi v)
      | _ => "bad-op"
    | "fold" :: rest =>
      match parseFs rest with
      | some [lo, hi, v] => optOut (fun (r : Float × Nat) => s!"ok {showF r.1} {r.2}") (fold lo hi v)
      | _ => "bad-op"
    | "fmod" :: rest =>
      match parseFs rest with
      | some [x, y] => "ok " ++ showF (RangeOps.fmod x y)
      | _ => "bad-op"
    | "round" :: rest =>
      match parseFs rest with
      | some [x] => exOut (intRound x)
      | _ => "bad-op"
    | "lapscale" :: rest =>
      match parseFs rest with
      | some [eps, delta, sens] => "ok " ++ showF (laplaceScale eps delta sens)
      | _ => "bad-op"
    | "laptr" :: rest =>
      match parseFs rest with
      | some [lo, hi, v, eps, delta, sens, u1, u2, u3, u4] =>
        let sc := laplaceScale eps delta sens
        s!"ok {showF (laplaceTruncated lo hi v sc u1 u2 u3 u4)} {showF (laplaceNoisy v sc u1 u2 u3 u4)}"
      | _ => "bad-op"
    | "lapfold" :: rest =>
      match parseFs rest with
      | some [lo, hi, v, eps, delta, sens, u1, u2, u3, u4] =>
        let sc := laplaceScale eps delta sens
        match laplaceFolded lo hi v sc u1 u2 u3 u4 with
        | some (r, n) => s!"ok {showF r} {n} {showF (laplaceNoisy v sc u1 u2 u3 u4)}"
        | none => s!"hang 0 0 {showF (laplaceNoisy v sc u1 u2 u3 u4)}"
      | _ => "bad-op"
    | "lapbd" :: rest =>
      match parseFs rest with
      | some (lo :: hi :: v :: sc :: us) =>
        optOut (fun (r : Float × Nat) => s!"ok {showF r.1} {r.2}") (laplaceBoundedDomain lo hi v sc us)
      | _ => "bad-op"
    | "geom" :: eps :: sens :: value :: us =>
      match parseF eps, parseF sens, value.toInt?, parseFs us with
      | some eps, some sens, some value, some us =>
        optOut (fun (n : Int) => s!"ok {n}") (geometric (geomScale eps sens) value us)
      | _, _, _, _ => "bad-op"
    | "geomtr" :: lo :: hi :: eps :: sens :: value :: us =>
      match parseFs [lo, hi, eps, sens], value.toInt?, parseFs us with
      | some [lo, hi, eps, sens], some value, some us =>
        optOut exOut (geometricTruncated lo hi (geomScale eps sens) value us)
      | _, _, _ => "bad-op"
    | "geomfold" :: lo :: hi :: eps :: sens :: value :: us =>
      match parseFs [lo, hi, eps, sens], value.toInt?, parseFs us with
      | some [lo, hi, eps, sens], some value, some us =>
        optOut exOut (geometricFolded lo hi (geomScale eps sens) value us)
      | _, _, _ => "bad-op"
    | "snap" :: eps :: sens :: lo :: hi :: v :: bit :: mant :: words =>
      match parseFs [eps, sens, lo, hi, v], bit.toNat?, mant.toNat?, words.mapM String.toNat? with
      | some [eps, sens, lo, hi, v], some bit, some mant, some words =>
        match (snapUniform mant words : Option Float) with
        | some u =>
          let p := snapPre eps sens lo hi v (bit != 0) u
          s!"ok {showF (snapping eps sens lo hi v (bit != 0) u)} {showF u} {showF (RangeOps.fmod p.1 p.2 / p.2)} {showF p.2}"
        | none => "hang"
      | _, _, _, _ => "bad-op"
    | "expsel" :: u :: close :: cum =>
      match parseF u, close.toNat?, parseFs cum with
      | some u, some close, some cum =>
        match expSelect cum u (close != 0) with
        | .ok i => s!"ok {i}"
        | .error e => e.toString
      | _, _, _ => "bad-op"
    | "catsel" :: t :: probs =>
      match parseF t, parseFs probs with
      | some t, some probs => s!"ok {catSelect probs t}"
      | _, _ => "bad-op"
    | "binary" :: rest =>
      match rest with
      | [eps, delta, u, ind] =>
        match parseFs [eps, delta, u], ind.toNat? with
        | some [eps, delta, u], some ind => s!"ok {if binaryFlip eps delta u (ind != 0) then 1 else 0}"
        | _, _ => "bad-op"
      | _ => "bad-op"
    | "bern" :: gamma :: us =>
      match parseF gamma, parseFs us with
      | some gamma, some us =>
        match bernoulliNegExp gamma us with
        | some (b, rest) => s!"ok {if b then 1 else 0} {us.length - rest.length}"
        | none => "hang"
      | _, _ => "bad-op"
    | "pf" :: n :: ds =>
      match n.toNat?, ds.mapM String.toNat? with
      | some n, some ds =>
        let rec pairs : List Nat → List (Nat × Bool)
          | p :: f :: rest => (p, f != 0) :: pairs rest
          | _ => []
        match pfLoop (List.range n) (pairs ds) with
        | some i => s!"ok {i}"
        | none => "runtime"
      | _, _ => "bad-op"
    | _ => "bad-op"
  ((), out)

def main : IO Unit := driverLoop step ()
