/-
Line-protocol driver for the calibration and moment models (C02, C19).  Doubles travel as u64 bit patterns, naturals
in decimal.  One output line per input line: `ok <values…>`, `valueError`, or `bad-op`.

  lap eps delta sens                       -> scale
  bnoise eps delta sens                    -> scale bound
  unif delta sens                          -> halfWidth
  gauss eps delta sens                     -> sigma
  stairg eps                               -> defaultGamma
  stairp eps gamma                         -> geomP binThreshold
  stairn eps gamma sens u1 <G> u3 u4       -> noise            (G = the geometric draw, a natural ≥ 1)
  snap eta eps sens lower upper            -> bound effectiveEpsilon
  bd eps delta sens diam                   -> scale <iterations>
  bdf eps delta sens diam shape            -> deltaC f
  erf x | erfc x                           -> erf(x) | erfc(x)
  agobj eps delta v                        -> bPlus bMinus
  ag eps delta sens                        -> scale left right <usedPlus 0/1> <doublings> <iterations>
  dgobj eps delta <sens> sigma             -> objective <loop iterations> lhs rhs denom
  dg eps delta <sens> half rtol atol       -> scale g0 g1 <expansions> <iterations>
  m_lap eps delta sens                     -> variance
  m_trunc eps delta sens lower upper v     -> bias variance mse
  m_fold eps delta sens lower upper v fold(v) -> bias
  m_bd scale lower upper v                 -> bias variance mse
  m_geom eps <sens>                        -> variance            (sens ≥ 1)
  m_geomscale scale                        -> variance
  m_gauss sigma                            -> variance
  m_unif delta sens                        -> variance
-/
import DPL.Model.Calibration
import DPL.Model.Moments
open DPL DPL.Cont

def okF (xs : List Float) : String := "ok " ++ showFs xs

def step (_ : Unit) (ws : List String) : Unit × String :=
  let out : String :=
    match ws with
    | "dgobj" :: e :: d :: s :: sg :: [] =>
      match parseF e, parseF d, s.toNat?, parseF sg with
      | some e, some d, some s, some sg =>
        match dgObjective e d s sg with
        | some (v, st) => s!"ok {showF v} {st.idx - 1} {showF st.lhs} {showF st.rhs} {showF st.denom}"
        | none => "valueError"
      | _, _, _, _ => "bad-op"
    | "dg" :: e :: d :: s :: rest =>
      match parseF e, parseF d, s.toNat?, parseFs rest with
      | some e, some d, some s, some [half, rtol, atol] =>
        match discreteGaussScale e d s half rtol atol with
        | some r => s!"ok {showF r.scale} {showF r.g0} {showF r.g1} {r.expansions} {r.iterations}"
        | none => "valueError"
      | _, _, _, _ => "bad-op"
    | "m_geom" :: e :: s :: [] =>
      match parseF e, s.toNat? with
      | some e, some s => okF [geomVarianceOf (geomScale e s)]
      | _, _ => "bad-op"
    | "stairn" :: e :: g :: s :: u1 :: gd :: u3 :: u4 :: [] =>
      match parseFs [e, g, s, u1, u3, u4], gd.toNat? with
      | some [e, g, s, u1, u3, u4], some gd => okF [staircaseNoise e g s u1 gd u3 u4 0.5]
      | _, _ => "bad-op"
    | op :: args =>
      match parseFs args with
      | none => "bad-op"
      | some xs =>
        match op, xs with
        | "lap", [e, d, s] => okF [laplaceScale e d s]
        | "bnoise", [e, d, s] => okF [boundedNoiseScale e s, boundedNoiseBound e d s]
        | "unif", [d, s] => okF [uniformHalfWidth d s]
        | "gauss", [e, d, s] => okF [gaussSigma e d s]
        | "stairg", [e] => okF [staircaseGammaDefault e]
        | "stairp", [e, g] => okF [staircaseGeomP e, staircaseBinThresh e g]
        | "snap", [eta, e, s, lo, hi] =>
          let b := snapBound s lo hi
          okF [b, snapEffEps eta e b]
        | "bd", [e, d, s, diam] =>
          let r := bdScale e d s diam
          s!"ok {showF r.1} {r.2}"
        | "bdf", [e, d, s, diam, sh] => okF [bdDeltaC s diam sh, bdF e d s diam sh]
        | "erf", [x] => okF [HasErf.erf x]
        | "erfc", [x] => okF [HasErf.erfc x]
        | "agobj", [e, d, v] => okF [bPlus e d v, bMinus e d v]
        | "ag", [e, d, s] =>
          let r := analyticGaussScale e d s
          s!"ok {showF r.scale} {showF r.left} {showF r.right} {if r.usedPlus then 1 else 0} {r.doublings} {r.iterations}"
        | "m_lap", [e, d, s] => okF [laplaceVariance e d s]
        | "m_trunc", [e, d, s, lo, hi, v] =>
          let b := truncBias e d s lo hi v
          let va := truncVariance e d s lo hi v
          okF [b, va, mse va b]
        | "m_fold", [e, d, s, lo, hi, v, folded] => okF [foldBias e d s lo hi v folded]
        | "m_bd", [sc, lo, hi, v] =>
          let b := bdBiasOf sc lo hi v
          let va := bdVarianceOf sc lo hi v
          okF [b, va, mse va b]
        | "m_geomscale", [sc] => okF [geomVarianceOf sc]
        | "m_gauss", [sg] => okF [gaussVarianceOf sg]
        | "m_unif", [d, s] => okF [uniformVariance d s]
        | _, _ => "bad-op"
    | [] => "bad-op"
  ((), out)

def main : IO Unit := driverLoop step ()
