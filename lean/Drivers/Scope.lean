/-
Line-protocol driver for the default-accountant scope model (C16).

One line = one whole program in prefix encoding (tokens separated by blanks), run from the initial state
(no default, no block open):
  N            nil                         R            raise
  S<id>        set_default                 P            pop_default
  C<id> | C-   call with / without accountant           L<id> | L-   load_default(x) / load_default(None)
  K            peek at `_default`
  B<id> <body> <rest>                      with <id>: body ; rest
  T <body> <rest>                          try: body except: pass ; rest
<id> = n<k> (named accountant k) | f<k> (k-th lazily created default).

Answer:  `<wf> I <events> | <exc> | <final default> ;; S <events> | <exc> | <final top>`
for the faithful machine (I) and the stack specification (S); <wf> = 1 iff the program never re-enters an open
accountant.  Events: c:<id> charge, l:<id> loaded, p:<d> popped, k:<d> peek, e:<d> entered, x:<d> exited, t:<exc> caught;
<d> = <id> or `-`; <exc> = ok | boom | attr.
-/
import DPL.Model.Num
import DPL.Model.Scope
open DPL

def parseId (s : String) : Option AccId :=
  match s.toList with
  | 'n' :: ds => (String.ofList ds).toNat?.map AccId.named
  | 'f' :: ds => (String.ofList ds).toNat?.map AccId.fresh
  | _ => none

def parseOptId (s : String) : Option (Option AccId) :=
  if s = "-" then some none else (parseId s).map some

partial def parseProg : List String → Option (Prog × List String)
  | [] => none
  | t :: ts =>
    match t.toList with
    | ['N'] => some (.nil, ts)
    | ['R'] => some (.raise, ts)
    | ['P'] => (parseProg ts).map fun (r, ts') => (.op .popDefault r, ts')
    | ['K'] => (parseProg ts).map fun (r, ts') => (.op .peek r, ts')
    | ['T'] => do
        let (b, ts₁) ← parseProg ts
        let (r, ts₂) ← parseProg ts₁
        pure (.catch b r, ts₂)
    | 'S' :: ds => do
        let a ← parseId (String.ofList ds)
        let (r, ts') ← parseProg ts
        pure (.op (.setDefault a) r, ts')
    | 'C' :: ds => do
        let e ← parseOptId (String.ofList ds)
        let (r, ts') ← parseProg ts
        pure (.op (.call e) r, ts')
    | 'L' :: ds => do
        let e ← parseOptId (String.ofList ds)
        let (r, ts') ← parseProg ts
        pure (.op (.load e) r, ts')
    | 'B' :: ds => do
        let a ← parseId (String.ofList ds)
        let (b, ts₁) ← parseProg ts
        let (r, ts₂) ← parseProg ts₁
        pure (.block a b r, ts₂)
    | _ => none

def showId : AccId → String
  | .named n => s!"n{n}"
  | .fresh k => s!"f{k}"

def showD : Option AccId → String
  | none => "-"
  | some a => showId a

def showExc : Option Exc → String
  | none => "ok"
  | some .boom => "boom"
  | some .attributeError => "attr"

def showEv : Ev → String
  | .charge a => "c:" ++ showId a
  | .loaded a => "l:" ++ showId a
  | .popped d => "p:" ++ showD d
  | .peek d => "k:" ++ showD d
  | .entered d => "e:" ++ showD d
  | .exited d => "x:" ++ showD d
  | .caught e => "t:" ++ showExc e

def showRun (evs : List Ev) (e : Option Exc) (d : Option AccId) : String :=
  " ".intercalate (evs.map showEv) ++ " | " ++ showExc e ++ " | " ++ showD d

def step (_ : Unit) (ws : List String) : Unit × String :=
  match parseProg ws with
  | some (p, []) =>
    let i := runI p St.init
    let s := runS p Sp.init
    ((), (if wfb p [] then "1" else "0") ++ " I " ++ showRun i.2.1 i.2.2 i.1.default ++ " ;; S " ++
         showRun s.2.1 s.2.2 s.1.top)
  | _ => ((), "bad-op")

def main : IO Unit := driverLoop step ()
