/-
Line-protocol driver for the C14 provenance model.
  crs <seed> <0|1>          -> source
  mech <Mech> <seed>        -> source of the `_rng` the mechanism holds
  copy <shallow|deep> <Mech> <seed>  -> source of the copy's `_rng` (error: no copy is obtained)
  plan <entry> <seed>       -> `site:kind:src` tokens (mechanism sites print as the class name)
seed ∈ none globalSingleton int randomState systemRandom other
-/
import DPL.Model.Num
import DPL.Model.Rng
open DPL DPL.Rng

def seedOf : String → Option Seed
  | "none" => some .none | "globalSingleton" => some .globalSingleton | "int" => some .int
  | "randomState" => some .randomState | "systemRandom" => some .systemRandom | "other" => some .other
  | _ => none

def srcStr : RngSrc → String
  | .osCsprng => "osCsprng" | .globalNumpy => "globalNumpy" | .seeded => "seeded"
  | .freshGenerator => "freshGenerator" | .error => "error"

def mechStr (m : Mech) : String := (reprStr m).replace "DPL.Rng.Mech." ""

def mechOf (s : String) : Option Mech := allMechs.find? (fun m => mechStr m == s)

def siteStr : Site → String
  | .mech m => mechStr m
  | .quantileUniform => "quantileUniform" | .emptyLeaf => "emptyLeaf" | .kmeansInit => "kmeansInit"
  | .treeStructure => "treeStructure" | .forestShuffle => "forestShuffle" | .derivedSeeds => "derivedSeeds"

def kindStr : Kind → String
  | .noise => "noise" | .structural => "structural"

def entryOf (s : String) : Option Entry :=
  match mechOf s with
  | some m => some (.mech m)
  | none =>
    match s with
    | "count_nonzero" => some .count_nonzero | "mean" => some .mean | "nanmean" => some .nanmean
    | "var" => some .var | "nanvar" => some .nanvar | "std" => some .std | "nanstd" => some .nanstd
    | "sum" => some .sum | "nansum" => some .nansum | "histogram" => some .histogram
    | "histogramdd" => some .histogramdd | "histogram2d" => some .histogram2d | "quantile" => some .quantile
    | "percentile" => some .percentile | "median" => some .median | "GaussianNB" => some .GaussianNB
    | "KMeans" => some .KMeans | "StandardScaler" => some .StandardScaler
    | "LinearRegression" => some .LinearRegression | "LogisticRegression" => some .LogisticRegression
    | "PCA" => some .PCA | "RandomForestClassifier" => some .RandomForestClassifier
    | "DecisionTreeClassifier" => some .DecisionTreeClassifier | "covariance_eig" => some .covariance_eig
    | _ => none

def step (_ : Unit) (ws : List String) : Unit × String :=
  match ws with
  | ["crs", s, b] =>
    match seedOf s with
    | some s => ((), srcStr (crs s (b == "1")))
    | none => ((), "bad-op")
  | ["mech", m, s] =>
    match mechOf m, seedOf s with
    | some m, some s => ((), srcStr (mechRng m s))
    | _, _ => ((), "bad-op")
  | ["copy", w, m, s] =>
    let way : Option CopyWay := match w with | "shallow" => some .shallow | "deep" => some .deep | _ => none
    match way, mechOf m, seedOf s with
    | some w, some m, some s => ((), srcStr (copySrc w m s))
    | _, _, _ => ((), "bad-op")
  | ["plan", e, s] =>
    match entryOf e, seedOf s with
    | some e, some s =>
      ((), " ".intercalate ((plan e s).map fun d => s!"{siteStr d.site}:{kindStr d.kind}:{srcStr d.src}"))
    | _, _ => ((), "bad-op")
  | _ => ((), "bad-op")

def main : IO Unit := driverLoop step ()
