-- core-only prototype of the release-plan DSL and its non-interference theorem
namespace DPL

structure MechCall (α : Type) where
  kind : Nat            -- mechanism class tag
  eps : α
  sens : α
  lower : α
  upper : α

/-- Data can enter only through `input`; parameters, continuation and release never see it. -/
inductive Plan (δ α ρ : Type) where
  | release (r : ρ) : Plan δ α ρ
  | call (c : MechCall α) (input : δ → α) (k : α → Plan δ α ρ) : Plan δ α ρ

structure Trace (α ρ : Type) where
  calls : List (MechCall α)
  inputs : List α
  release : Option ρ       -- none: ran out of forced outputs

variable {δ α ρ : Type}

/-- run with forced mechanism outputs (the interposed `randomise` returns `outs[i]`). -/
def run : Plan δ α ρ → δ → List α → Trace α ρ
  | .release r, _, _ => ⟨[], [], some r⟩
  | .call _ _ _, _, [] => ⟨[], [], none⟩
  | .call c inp k, D, o :: os =>
      let t := run (k o) D os
      ⟨c :: t.calls, inp D :: t.inputs, t.release⟩

/-- C06: parameters of every call and the release are independent of the dataset. -/
theorem plan_noninterference (p : Plan δ α ρ) (D₁ D₂ : δ) (outs : List α) :
    (run p D₁ outs).calls = (run p D₂ outs).calls ∧ (run p D₁ outs).release = (run p D₂ outs).release := by
  induction p generalizing outs with
  | release r => exact ⟨rfl, rfl⟩
  | call c inp k ih =>
    cases outs with
    | nil => exact ⟨rfl, rfl⟩
    | cons o os =>
      have := ih o os
      simp only [run]
      exact ⟨by rw [this.1], this.2⟩

/-- a scalar `mean` plan: params from (n, bounds, eps) only -/
def meanPlan (div sub : α → α → α) (ofNat : Nat → α) (stat : List α → α) (n : Nat) (lo hi eps : α) :
    Plan (List α) α α :=
  .call ⟨1, eps, div (sub hi lo) (ofNat n), lo, hi⟩ stat (fun o => .release o)

end DPL
#print axioms DPL.plan_noninterference
