import Mathlib.MeasureTheory.Measure.Lebesgue.Basic
import Mathlib.Analysis.SpecialFunctions.Log.Basic
import Mathlib.Analysis.SpecialFunctions.Pow.Real
import Mathlib.Tactic

open MeasureTheory Set

/-- magnitude part of Geometric.randomise for a positive transformed uniform `x ∈ (0,1)`:
    `floor(log x / s)` with `s = -eps/sens < 0`. -/
noncomputable def geoMag (s x : ℝ) : ℤ := ⌊Real.log x / s⌋

theorem geoMag_eq_iff (s x : ℝ) (hs : s < 0) (hx : 0 < x) (k : ℤ) :
    geoMag s x = k ↔ Real.exp (s * (k + 1)) < x ∧ x ≤ Real.exp (s * k) := by
  unfold geoMag
  rw [Int.floor_eq_iff]
  constructor
  · rintro ⟨h1, h2⟩
    constructor
    · rw [← Real.lt_log_iff_exp_lt hx]
      have := (div_lt_iff_of_neg hs).mp h2
      linarith
    · rw [← Real.log_le_iff_le_exp hx]
      have := (le_div_iff_of_neg hs).mp h1
      linarith
  · rintro ⟨h1, h2⟩
    constructor
    · rw [le_div_iff_of_neg hs]
      have := (Real.log_le_iff_le_exp hx).mpr h2
      linarith
    · rw [div_lt_iff_of_neg hs]
      have := (Real.lt_log_iff_exp_lt hx).mpr h1
      linarith

/-- law of the magnitude: the set of x ∈ (0,∞) giving k is the interval (r^(k+1), r^k]. -/
theorem geoMag_preimage (s : ℝ) (hs : s < 0) (k : ℤ) :
    {x : ℝ | 0 < x ∧ geoMag s x = k} = Ioc (Real.exp (s * (k + 1))) (Real.exp (s * k)) := by
  ext x
  simp only [mem_setOf_eq, mem_Ioc]
  constructor
  · rintro ⟨hx, h⟩; exact (geoMag_eq_iff s x hs hx k).mp h
  · rintro ⟨h1, h2⟩
    have hx : 0 < x := lt_trans (Real.exp_pos _) h1
    exact ⟨hx, (geoMag_eq_iff s x hs hx k).mpr ⟨h1, h2⟩⟩

theorem geoMag_volume (s : ℝ) (hs : s < 0) (k : ℤ) :
    volume {x : ℝ | 0 < x ∧ geoMag s x = k}
      = ENNReal.ofReal (Real.exp (s * k) - Real.exp (s * (k + 1))) := by
  rw [geoMag_preimage s hs k, Real.volume_Ioc]
#print axioms geoMag_volume
