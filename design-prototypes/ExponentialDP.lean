import Mathlib.Analysis.SpecialFunctions.Exp
import Mathlib.Algebra.Order.BigOperators.Ring.Finset
import Mathlib.Tactic

open Finset

variable {ι : Type}

noncomputable def expZ (S : Finset ι) (m u : ι → ℝ) (s : ℝ) : ℝ := ∑ j ∈ S, m j * Real.exp (s * u j)

/-- selection probability of the exponential mechanism with base measure `m`. -/
noncomputable def expProb (S : Finset ι) (m u : ι → ℝ) (s : ℝ) (i : ι) : ℝ :=
  m i * Real.exp (s * u i) / expZ S m u s

/-- the code subtracts max(u) before exponentiating; the shift cancels. -/
theorem expProb_shift (S : Finset ι) (m u : ι → ℝ) (s c : ℝ) (i : ι) :
    expProb S m (fun j => u j - c) s i = expProb S m u s i := by
  unfold expProb expZ
  have h : ∀ j, Real.exp (s * (u j - c)) = Real.exp (s * u j) * Real.exp (-(s * c)) := by
    intro j; rw [← Real.exp_add]; congr 1; ring
  simp only [h]
  have hsum : ∑ j ∈ S, m j * (Real.exp (s * u j) * Real.exp (-(s * c)))
      = (∑ j ∈ S, m j * Real.exp (s * u j)) * Real.exp (-(s * c)) := by
    rw [Finset.sum_mul]; apply Finset.sum_congr rfl; intro j _; ring
  rw [hsum, ← mul_assoc, mul_div_mul_right _ _ (Real.exp_pos _).ne']

theorem expZ_le (S : Finset ι) (m u u' : ι → ℝ) (s Δ : ℝ) (hs : 0 ≤ s) (hm : ∀ j, 0 ≤ m j)
    (hu : ∀ j, |u j - u' j| ≤ Δ) : expZ S m u' s ≤ Real.exp (s * Δ) * expZ S m u s := by
  unfold expZ
  rw [Finset.mul_sum]
  apply Finset.sum_le_sum
  intro j _
  have : Real.exp (s * u' j) ≤ Real.exp (s * Δ) * Real.exp (s * u j) := by
    rw [← Real.exp_add]; apply Real.exp_le_exp.mpr
    have := (abs_le.mp (hu j)).1
    nlinarith
  calc m j * Real.exp (s * u' j) ≤ m j * (Real.exp (s * Δ) * Real.exp (s * u j)) :=
        mul_le_mul_of_nonneg_left this (hm j)
    _ = _ := by ring

/-- exponential mechanism: sup-norm-Δ neighbours, scale s = ε/(2Δ) ⇒ ratio ≤ e^{2sΔ} = e^ε. -/
theorem exp_dp (S : Finset ι) (m u u' : ι → ℝ) (s Δ : ℝ) (hs : 0 ≤ s) (hm : ∀ j, 0 ≤ m j)
    (hu : ∀ j, |u j - u' j| ≤ Δ) (hZ : 0 < expZ S m u s) (hZ' : 0 < expZ S m u' s) (i : ι) :
    expProb S m u s i ≤ Real.exp (2 * (s * Δ)) * expProb S m u' s i := by
  unfold expProb
  have h1 : Real.exp (s * u i) ≤ Real.exp (s * Δ) * Real.exp (s * u' i) := by
    rw [← Real.exp_add]; apply Real.exp_le_exp.mpr
    have := (abs_le.mp (hu i)).2
    nlinarith
  have h2 := expZ_le S m u u' s Δ hs hm hu
  have he : Real.exp (2 * (s * Δ)) = Real.exp (s * Δ) * Real.exp (s * Δ) := by
    rw [← Real.exp_add]; congr 1; ring
  rw [div_le_iff₀ hZ, he]
  have hpos := Real.exp_pos (s * Δ)
  have hnum : 0 ≤ m i * Real.exp (s * u' i) := mul_nonneg (hm i) (Real.exp_pos _).le
  calc m i * Real.exp (s * u i) ≤ m i * (Real.exp (s * Δ) * Real.exp (s * u' i)) :=
        mul_le_mul_of_nonneg_left h1 (hm i)
    _ = Real.exp (s * Δ) * (m i * Real.exp (s * u' i) / expZ S m u' s) * expZ S m u' s := by
        field_simp
    _ ≤ Real.exp (s * Δ) * (m i * Real.exp (s * u' i) / expZ S m u' s) * (Real.exp (s * Δ) * expZ S m u s) := by
        apply mul_le_mul_of_nonneg_left h2
        exact mul_nonneg hpos.le (div_nonneg hnum hZ'.le)
    _ = _ := by ring
#print axioms exp_dp
#print axioms expProb_shift
