-- core-only prototype: default-accountant scoping refines a stack (C16)
namespace DPL

inductive SOp where
  | setDefault (a : Nat)
  | popDefault
  | call (explicit : Option Nat)

inductive Prog where
  | nil
  | raise                                   -- an exception propagates out of every enclosing block
  | op (o : SOp) (rest : Prog)
  | block (a : Nat) (body rest : Prog)      -- `with a: body` then rest

/-- faithful state: class attribute `_default`, per-instance `old_default`, counter for lazily created defaults -/
structure St where
  default : Option Nat
  old : Nat → Option (Option Nat)
  fresh : Nat

def upd (f : Nat → Option (Option Nat)) (a : Nat) (v : Option (Option Nat)) : Nat → Option (Option Nat) :=
  fun b => if b = a then v else f b

/-- load_default(None): create a default if there is none -/
def resolveTop (d : Option Nat) (fresh : Nat) : Nat × Option Nat × Nat :=
  match d with
  | some x => (x, some x, fresh)
  | none => (fresh, some fresh, fresh + 1)

def stepI (σ : St) : SOp → St × List Nat
  | .setDefault a => ({ σ with default := some a }, [])
  | .popDefault => ({ σ with default := none }, [])
  | .call (some e) => (σ, [e])
  | .call none => let (c, d, f) := resolveTop σ.default σ.fresh; ({ σ with default := d, fresh := f }, [c])

def enterI (σ : St) (a : Nat) : St := { σ with old := upd σ.old a (some σ.default), default := some a }
def exitI (σ : St) (a : Nat) : St :=
  { σ with default := (match σ.old a with | some (some d) => some d | _ => none), old := upd σ.old a none }

def runI : Prog → St → St × List Nat × Bool
  | .nil, σ => (σ, [], false)
  | .raise, σ => (σ, [], true)
  | .op o rest, σ =>
      let (σ₁, c) := stepI σ o
      let (σ₂, cs, r) := runI rest σ₁
      (σ₂, c ++ cs, r)
  | .block a body rest, σ =>
      let (σ₂, cs, r) := runI body (enterI σ a)
      let σ₃ := exitI σ₂ a
      if r then (σ₃, cs, true)
      else let (σ₄, cs', r') := runI rest σ₃; (σ₄, cs ++ cs', r')

/-- specification: a stack of defaults (top first) -/
structure Sp where
  top : Option Nat
  below : List (Option Nat)
  fresh : Nat

def stepS (s : Sp) : SOp → Sp × List Nat
  | .setDefault a => ({ s with top := some a }, [])
  | .popDefault => ({ s with top := none }, [])
  | .call (some e) => (s, [e])
  | .call none => let (c, d, f) := resolveTop s.top s.fresh; ({ s with top := d, fresh := f }, [c])

def runS : Prog → Sp → Sp × List Nat × Bool
  | .nil, s => (s, [], false)
  | .raise, s => (s, [], true)
  | .op o rest, s =>
      let (s₁, c) := stepS s o
      let (s₂, cs, r) := runS rest s₁
      (s₂, c ++ cs, r)
  | .block a body rest, s =>
      let (s₂, cs, r) := runS body ⟨some a, s.top :: s.below, s.fresh⟩
      let s₃ : Sp := match s₂.below with
        | t :: b => ⟨t, b, s₂.fresh⟩
        | [] => ⟨none, [], s₂.fresh⟩      -- unreachable (see runS_below)
      if r then (s₃, cs, true)
      else let (s₄, cs', r') := runS rest s₃; (s₄, cs ++ cs', r')

/-- blocks never re-enter an accountant that is already open -/
def WF : Prog → List Nat → Prop
  | .nil, _ => True
  | .raise, _ => True
  | .op _ rest, opened => WF rest opened
  | .block a body rest, opened => a ∉ opened ∧ WF body (a :: opened) ∧ WF rest opened

/-- abstraction relation: the stack below the top is the saved `old_default` of the open blocks -/
def Rel (σ : St) (s : Sp) (opened : List Nat) : Prop :=
  s.top = σ.default ∧ s.fresh = σ.fresh ∧ s.below.map some = opened.map σ.old

theorem runS_below (p : Prog) (s : Sp) : (runS p s).1.below = s.below := by
  induction p generalizing s with
  | nil => rfl
  | raise => rfl
  | op o rest ih =>
    simp only [runS]
    rw [ih]
    cases o with
    | setDefault a => rfl
    | popDefault => rfl
    | call e => cases e <;> simp [stepS]
  | block a body rest ihb ihr =>
    simp only [runS]
    have hb := ihb ⟨some a, s.top :: s.below, s.fresh⟩
    split <;> simp_all

theorem stepRel (σ : St) (s : Sp) (opened : List Nat) (o : SOp) (h : Rel σ s opened) :
    (stepI σ o).2 = (stepS s o).2 ∧ Rel (stepI σ o).1 (stepS s o).1 opened := by
  obtain ⟨h1, h2, h3⟩ := h
  cases o with
  | setDefault a => exact ⟨rfl, rfl, h2, h3⟩
  | popDefault => exact ⟨rfl, rfl, h2, h3⟩
  | call e =>
    cases e with
    | some e => exact ⟨rfl, h1, h2, h3⟩
    | none =>
      simp only [stepI, stepS, h1, h2]
      exact ⟨trivial, rfl, rfl, h3⟩


/-- the refinement: same charged accountants, same exception flag, related final states -/
theorem scope_refines_stack (p : Prog) : ∀ (σ : St) (s : Sp) (opened : List Nat),
    WF p opened → Rel σ s opened →
    (runI p σ).2 = (runS p s).2 ∧ Rel (runI p σ).1 (runS p s).1 opened := by
  induction p with
  | nil => intro σ s opened _ h; exact ⟨rfl, h⟩
  | raise => intro σ s opened _ h; exact ⟨rfl, h⟩
  | op o rest ih =>
    intro σ s opened hwf h
    have hs := stepRel σ s opened o h
    have hr := ih (stepI σ o).1 (stepS s o).1 opened hwf hs.2
    simp only [runI, runS]
    refine ⟨?_, hr.2⟩
    rw [hs.1]
    have := hr.1
    simp only [Prod.ext_iff] at this ⊢
    exact ⟨by rw [this.1], this.2⟩
  | block a body rest ihb ihr =>
    intro σ s opened hwf h
    obtain ⟨hna, hwb, hwr⟩ := hwf
    obtain ⟨h1, h2, h3⟩ := h
    -- entering
    have hent : Rel (enterI σ a) ⟨some a, s.top :: s.below, s.fresh⟩ (a :: opened) := by
      refine ⟨rfl, h2, ?_⟩
      show (s.top :: s.below).map some = (a :: opened).map (upd σ.old a (some σ.default))
      rw [List.map_cons, List.map_cons, h3, h1]
      congr 1
      · simp [upd]
      · apply List.map_congr_left
        intro b hb
        have : b ≠ a := fun e => hna (e ▸ hb)
        simp [upd, this]
    have hb := ihb (enterI σ a) ⟨some a, s.top :: s.below, s.fresh⟩ (a :: opened) hwb hent
    have hbelow := runS_below body ⟨some a, s.top :: s.below, s.fresh⟩
    obtain ⟨hb1, ht, hf, hbl⟩ := hb
    -- leaving: the saved value of `a` is still the default before the block
    simp only [hbelow, List.map_cons] at hbl
    have hold : (runI body (enterI σ a)).1.old a = some s.top := (List.cons.inj hbl).1.symm
    have hrest : s.below.map some = opened.map (runI body (enterI σ a)).1.old := (List.cons.inj hbl).2
    have hexit : Rel (exitI (runI body (enterI σ a)).1 a) ⟨s.top, s.below, (runS body ⟨some a, s.top :: s.below, s.fresh⟩).1.fresh⟩ opened := by
      refine ⟨?_, hf, ?_⟩
      · simp only [exitI, hold]; cases s.top <;> rfl
      · simp only [exitI]
        rw [hrest]
        apply List.map_congr_left
        intro b hb
        have : b ≠ a := fun e => hna (e ▸ hb)
        simp [upd, this]
    simp only [runI, runS, hbelow]
    have hflag : (runI body (enterI σ a)).2.2 = (runS body ⟨some a, s.top :: s.below, s.fresh⟩).2.2 := by rw [hb1]
    have hcs : (runI body (enterI σ a)).2.1 = (runS body ⟨some a, s.top :: s.below, s.fresh⟩).2.1 := by rw [hb1]
    rw [hflag, hcs]
    split
    · exact ⟨rfl, hexit⟩
    · have hr := ihr _ _ opened hwr hexit
      refine ⟨?_, hr.2⟩
      have := hr.1
      simp only [Prod.ext_iff] at this ⊢
      exact ⟨by rw [this.1], this.2⟩

/-- corollary (C16): after a `with a:` block — normal exit or exception — the previous default is back -/
theorem exit_restores (a : Nat) (body : Prog) (σ : St) (hwf : WF body [a]) :
    (runI (.block a body .raise) σ).1.default = σ.default := by
  have h := scope_refines_stack (.block a body .raise) σ ⟨σ.default, [], σ.fresh⟩ []
    ⟨by simp, hwf, trivial⟩ ⟨rfl, rfl, rfl⟩
  have hbelow := runS_below body ⟨some a, [σ.default], σ.fresh⟩
  have := h.2.1
  simp only [runS, hbelow] at this
  rw [← this]
  split <;> rfl

end DPL
#print axioms DPL.scope_refines_stack
#print axioms DPL.exit_restores
