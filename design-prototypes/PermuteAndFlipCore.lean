import Mathlib.Algebra.BigOperators.Field
import Mathlib.Algebra.Order.BigOperators.Ring.Finset
import Mathlib.Data.Finset.Card
import Mathlib.Data.Real.Basic
import Mathlib.Tactic.Ring
import Mathlib.Tactic.Linarith
import Mathlib.Tactic.Positivity
import Mathlib.Tactic.FieldSimp
import Mathlib.Tactic.GCongr

open Finset

variable {ι : Type} [DecidableEq ι]

/-- I p A = probability-weight that a distinguished candidate with coin 1 is reached,
    among "other" candidates A with head-probabilities p. -/
noncomputable def I (p : ι → ℝ) : Finset ι → ℝ :=
  Finset.strongInduction (fun A ih =>
    (1 + ∑ i ∈ A.attach, (1 - p i.1) * ih (A.erase i.1) (Finset.erase_ssubset i.2)) / ((A.card : ℝ) + 1))

theorem I_eq (p : ι → ℝ) (A : Finset ι) :
    I p A = (1 + ∑ i ∈ A, (1 - p i) * I p (A.erase i)) / ((A.card : ℝ) + 1) := by
  unfold I
  rw [Finset.strongInduction_eq]
  congr 2
  exact Finset.sum_attach A (fun i => (1 - p i) * I p (A.erase i))

theorem I_nonneg (p : ι → ℝ) (hp : ∀ i, 0 ≤ p i ∧ p i ≤ 1) (A : Finset ι) : 0 ≤ I p A := by
  induction A using Finset.strongInduction with
  | H A ih =>
    rw [I_eq]
    apply div_nonneg
    · have : 0 ≤ ∑ i ∈ A, (1 - p i) * I p (A.erase i) :=
        Finset.sum_nonneg (fun i hi => mul_nonneg (by linarith [(hp i).2]) (ih _ (Finset.erase_ssubset hi)))
      linarith
    · positivity

theorem erase_erase_comm (A : Finset ι) (i r : ι) : (A.erase i).erase r = (A.erase r).erase i := by
  ext x; simp only [mem_erase]; tauto

/-- total selection probability among A -/
theorem T_eq (p : ι → ℝ) (A : Finset ι) :
    ∑ r ∈ A, p r * I p (A.erase r) = 1 - ∏ j ∈ A, (1 - p j) := by
  induction A using Finset.strongInduction with
  | H A ih =>
    rcases A.eq_empty_or_nonempty with rfl | hne
    · simp
    have hcard : (0 : ℝ) < A.card := by exact_mod_cast Finset.card_pos.mpr hne
    have h1 : ∀ r ∈ A, p r * I p (A.erase r)
        = (p r + ∑ i ∈ A.erase r, (1 - p i) * (p r * I p ((A.erase r).erase i))) / A.card := by
      intro r hr
      rw [I_eq p (A.erase r), Finset.card_erase_of_mem hr]
      have : ((A.card - 1 : ℕ) : ℝ) + 1 = A.card := by
        have : 1 ≤ A.card := Finset.card_pos.mpr hne
        push_cast [Nat.cast_sub this]; ring
      rw [this, mul_div_assoc', mul_add, mul_one, Finset.mul_sum]
      congr 2
      apply Finset.sum_congr rfl; intro i _; ring
    rw [Finset.sum_congr rfl h1, ← Finset.sum_div, Finset.sum_add_distrib]
    have hswap : ∑ r ∈ A, ∑ i ∈ A.erase r, (1 - p i) * (p r * I p ((A.erase r).erase i))
        = ∑ i ∈ A, (1 - p i) * ∑ r ∈ A.erase i, p r * I p ((A.erase i).erase r) := by
      rw [Finset.sum_comm' (t' := A) (s' := fun i => A.erase i)]
      · apply Finset.sum_congr rfl; intro i _
        rw [Finset.mul_sum]
        apply Finset.sum_congr rfl; intro r _
        rw [erase_erase_comm]
      · intro r i; simp only [mem_erase]; tauto
    rw [hswap]
    have h2 : ∀ i ∈ A, (1 - p i) * ∑ r ∈ A.erase i, p r * I p ((A.erase i).erase r)
        = (1 - p i) - ∏ j ∈ A, (1 - p j) := by
      intro i hi
      rw [ih _ (Finset.erase_ssubset hi), mul_sub, mul_one, Finset.mul_prod_erase A (fun j => 1 - p j) hi]
    rw [Finset.sum_congr rfl h2, Finset.sum_sub_distrib, Finset.sum_const, nsmul_eq_mul]
    have : ∑ r ∈ A, p r + (∑ i ∈ A, (1 - p i) - (A.card : ℝ) * ∏ j ∈ A, (1 - p j))
        = A.card * (1 - ∏ j ∈ A, (1 - p j)) := by
      rw [Finset.sum_sub_distrib]; simp; ring
    rw [this, mul_div_assoc, mul_comm, div_mul_cancel₀]
    exact ne_of_gt hcard

theorem T_le_one (p : ι → ℝ) (hp : ∀ i, 0 ≤ p i ∧ p i ≤ 1) (A : Finset ι) :
    ∑ r ∈ A, p r * I p (A.erase r) ≤ 1 := by
  rw [T_eq]
  have : 0 ≤ ∏ j ∈ A, (1 - p j) := Finset.prod_nonneg (fun j _ => by linarith [(hp j).2])
  linarith

theorem I_scale (p : ι → ℝ) (hp : ∀ i, 0 ≤ p i ∧ p i ≤ 1) (c : ℝ) (hc0 : 0 ≤ c) (hc1 : c ≤ 1)
    (A : Finset ι) : c * I (fun i => c * p i) A ≤ I p A := by
  induction A using Finset.strongInduction with
  | H A ih =>
    rw [I_eq p A, I_eq (fun i => c * p i) A, mul_div_assoc']
    have hpos : (0 : ℝ) < (A.card : ℝ) + 1 := by positivity
    apply div_le_div_of_nonneg_right _ hpos.le
    rw [mul_add, mul_one, Finset.mul_sum]
    have step : ∀ i ∈ A, c * ((1 - c * p i) * I (fun i => c * p i) (A.erase i))
        ≤ (1 - p i) * I p (A.erase i) + (1 - c) * (p i * I p (A.erase i)) := by
      intro i hi
      have h1 := ih _ (Finset.erase_ssubset hi)
      have h2 : 0 ≤ 1 - c * p i := by nlinarith [(hp i).1, (hp i).2]
      calc c * ((1 - c * p i) * I (fun i => c * p i) (A.erase i))
          = (1 - c * p i) * (c * I (fun i => c * p i) (A.erase i)) := by ring
        _ ≤ (1 - c * p i) * I p (A.erase i) := mul_le_mul_of_nonneg_left h1 h2
        _ = _ := by ring
    have hT := T_le_one p hp A
    calc c + ∑ i ∈ A, c * ((1 - c * p i) * I (fun i => c * p i) (A.erase i))
        ≤ c + ∑ i ∈ A, ((1 - p i) * I p (A.erase i) + (1 - c) * (p i * I p (A.erase i))) := by
          gcongr with i hi; exact step i hi
      _ = c + ∑ i ∈ A, (1 - p i) * I p (A.erase i) + (1 - c) * ∑ i ∈ A, p i * I p (A.erase i) := by
          rw [Finset.sum_add_distrib, Finset.mul_sum]; ring
      _ ≤ 1 + ∑ i ∈ A, (1 - p i) * I p (A.erase i) := by nlinarith

theorem I_anti (p q : ι → ℝ) (hp : ∀ i, 0 ≤ p i ∧ p i ≤ 1) (hq : ∀ i, 0 ≤ q i ∧ q i ≤ 1)
    (A : Finset ι) (h : ∀ i ∈ A, p i ≤ q i) : I q A ≤ I p A := by
  induction A using Finset.strongInduction with
  | H A ih =>
    rw [I_eq p A, I_eq q A]
    have hpos : (0 : ℝ) < (A.card : ℝ) + 1 := by positivity
    apply div_le_div_of_nonneg_right _ hpos.le
    gcongr with i hi
    · exact I_nonneg q hq _
    · linarith [(hp i).2]
    · linarith [h i hi]
    · exact ih _ (Finset.erase_ssubset hi) (fun j hj => h j (Finset.mem_of_mem_erase hj))

/-- selection law of permute-and-flip (closed recursion) -/
noncomputable def L (p : ι → ℝ) (S : Finset ι) (r : ι) : ℝ := p r * I p (S.erase r)

theorem pf_core (p p' : ι → ℝ) (hp : ∀ i, 0 ≤ p i ∧ p i ≤ 1) (hp' : ∀ i, 0 ≤ p' i ∧ p' i ≤ 1)
    (S : Finset ι) (r : ι) (c K : ℝ) (hc0 : 0 ≤ c) (hc1 : c ≤ 1) (hK : 0 ≤ K)
    (hr : p' r ≤ K * (c * p r)) (ho : ∀ j ∈ S.erase r, c * p j ≤ p' j) :
    L p' S r ≤ K * L p S r := by
  unfold L
  have hcp : ∀ i, 0 ≤ c * p i ∧ c * p i ≤ 1 := fun i =>
    ⟨mul_nonneg hc0 (hp i).1, by nlinarith [(hp i).1, (hp i).2]⟩
  have h1 : I p' (S.erase r) ≤ I (fun i => c * p i) (S.erase r) := I_anti _ _ hcp hp' _ ho
  have h2 := I_scale p hp c hc0 hc1 (S.erase r)
  have h0 := I_nonneg (fun i => c * p i) hcp (S.erase r)
  calc p' r * I p' (S.erase r) ≤ p' r * I (fun i => c * p i) (S.erase r) :=
        mul_le_mul_of_nonneg_left h1 (hp' r).1
    _ ≤ K * (c * p r) * I (fun i => c * p i) (S.erase r) := mul_le_mul_of_nonneg_right hr h0
    _ = K * p r * (c * I (fun i => c * p i) (S.erase r)) := by ring
    _ ≤ K * p r * I p (S.erase r) := mul_le_mul_of_nonneg_left h2 (mul_nonneg hK (hp r).1)
    _ = _ := by ring
#print axioms pf_core
