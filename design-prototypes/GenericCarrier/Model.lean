-- core-only generic model fragment (no Mathlib)
namespace DPL

structure Ops (α : Type) where
  zero : α
  one : α
  add : α → α → α
  sub : α → α → α
  mul : α → α → α
  div : α → α → α
  exp : α → α
  log : α → α
  sqrt : α → α
  le : α → α → Bool
  ofNat : Nat → α

variable {α : Type}

def insertSorted (O : Ops α) (x : α) : List α → List α
  | [] => [x]
  | y :: ys => if O.le x y then x :: y :: ys else y :: insertSorted O x ys

def sortAsc (O : Ops α) : List α → List α
  | [] => []
  | x :: xs => insertSorted O x (sortAsc O xs)

/-- `__total_delta_safe`: prepend slack, sort ascending, fold `prod += d - prod*d`. -/
def totalDeltaSafe (O : Ops α) (deltas : List α) (slack : α) : α :=
  (sortAsc O (slack :: deltas)).foldl (fun p d => O.add p (O.sub d (O.mul p d))) O.zero

def floatOps : Ops Float :=
  { zero := 0, one := 1, add := (·+·), sub := (·-·), mul := (·*·), div := (·/·),
    exp := Float.exp, log := Float.log, sqrt := Float.sqrt, le := fun a b => a ≤ b, ofNat := Float.ofNat }

end DPL
