import Mathlib.Data.Real.Basic
import Mathlib.Algebra.BigOperators.Group.List.Basic
import Mathlib.Data.List.Perm.Basic
import Mathlib.Tactic
import Model
namespace DPL
open Classical in
noncomputable def realOps : Ops ℝ :=
  { zero := 0, one := 1, add := (·+·), sub := (·-·), mul := (·*·), div := (·/·),
    exp := fun x => x, log := fun x => x, sqrt := fun x => x,   -- placeholders in this sketch
    le := fun a b => decide (a ≤ b), ofNat := fun n => (n : ℝ) }

theorem insertSorted_perm (O : Ops α) (x : α) (l : List α) : (insertSorted O x l).Perm (x :: l) := by
  induction l with
  | nil => simp [insertSorted]
  | cons y ys ih =>
    simp only [insertSorted]; split
    · exact List.Perm.refl _
    · exact (List.Perm.cons y ih).trans (List.Perm.swap x y ys)

theorem sortAsc_perm (O : Ops α) (l : List α) : (sortAsc O l).Perm l := by
  induction l with
  | nil => simp [sortAsc]
  | cons x xs ih => exact (insertSorted_perm O x _).trans (List.Perm.cons x ih)

theorem fold_eq (l : List ℝ) (p : ℝ) :
    l.foldl (fun p d => realOps.add p (realOps.sub d (realOps.mul p d))) p
      = 1 - (1 - p) * (l.map (fun d => 1 - d)).prod := by
  induction l generalizing p with
  | nil => simp
  | cons d ds ih =>
    simp only [List.foldl_cons, List.map_cons, List.prod_cons]
    rw [ih]; simp only [realOps]; ring

/-- C05 `total_delta_eq`: the coded recurrence is 1 - (1-slack)·Π(1-δ_i), whatever the order. -/
theorem totalDelta_eq (deltas : List ℝ) (slack : ℝ) :
    totalDeltaSafe realOps deltas slack = 1 - (1 - slack) * (deltas.map (fun d => 1 - d)).prod := by
  unfold totalDeltaSafe
  rw [fold_eq]
  have hp := (sortAsc_perm realOps (slack :: deltas)).map (fun d => 1 - d)
  rw [hp.prod_eq]; simp [realOps]

theorem totalDelta_perm (d₁ d₂ : List ℝ) (h : d₁.Perm d₂) (slack : ℝ) :
    totalDeltaSafe realOps d₁ slack = totalDeltaSafe realOps d₂ slack := by
  rw [totalDelta_eq, totalDelta_eq, (h.map _).prod_eq]
end DPL
#print axioms DPL.totalDelta_perm
#eval DPL.totalDeltaSafe DPL.floatOps [0.1, 0.2, 1e-9] 0.001
