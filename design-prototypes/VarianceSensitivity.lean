import Mathlib.Tactic

/-- core inequality behind the variance sensitivity ((u-l)/n)^2 (n-1):
    replacing one record x by y (others sum to S, m = n-1 of them, all in [0,w]). -/
theorem var_core (m w x y S : ℝ) (hm : 0 ≤ m) (hw : 0 ≤ w)
    (hx0 : 0 ≤ x) (hx1 : x ≤ w) (hy0 : 0 ≤ y) (hy1 : y ≤ w) (hS0 : 0 ≤ S) (hS1 : S ≤ m * w) :
    |(x - y) * (m * (x + y) - 2 * S)| ≤ m * w ^ 2 := by
  rw [abs_le]
  constructor
  · -- lower bound: linear in S, worst at S = m w when x ≥ y, S = 0 when x ≤ y
    rcases le_total y x with h | h
    · have h1 : (x - y) * (m * (x + y) - 2 * S) ≥ (x - y) * (m * (x + y) - 2 * (m * w)) := by
        apply mul_le_mul_of_nonneg_left _ (sub_nonneg.mpr h); linarith
      have h2 : (x - y) * (2 * w - x - y) ≤ w ^ 2 := by nlinarith [sq_nonneg (w - x), mul_nonneg hy0 (sub_nonneg.mpr hy1)]
      have h3 : (x - y) * (m * (x + y) - 2 * (m * w)) = - (m * ((x - y) * (2 * w - x - y))) := by ring
      have h4 := mul_le_mul_of_nonneg_left h2 hm
      linarith
    · nlinarith [mul_nonneg (sub_nonneg.mpr h) hS0, mul_nonneg hm (mul_nonneg hx0 hx0),
        mul_nonneg hm (mul_nonneg hy0 (sub_nonneg.mpr hy1)), mul_nonneg hm (mul_nonneg hy0 hy0),
        mul_nonneg hm (mul_nonneg (sub_nonneg.mpr hy1) (sub_nonneg.mpr hy1)),mul_nonneg hm (mul_nonneg hx0 (sub_nonneg.mpr hy1)),
        mul_nonneg hm (mul_nonneg hy0 (sub_nonneg.mpr hx1))]
  · rcases le_total y x with h | h
    · nlinarith [mul_nonneg (sub_nonneg.mpr h) hS0, mul_nonneg hm (mul_nonneg hy0 hy0),
        mul_nonneg hm (mul_nonneg hx0 (sub_nonneg.mpr hx1)), mul_nonneg hm (mul_nonneg (sub_nonneg.mpr hx1) (sub_nonneg.mpr hx1)),
        mul_nonneg hm (mul_nonneg hx0 hx0)]
    · nlinarith [mul_nonneg (sub_nonneg.mpr h) (sub_nonneg.mpr hS1), mul_nonneg hm (mul_nonneg (sub_nonneg.mpr hx1) (sub_nonneg.mpr hx1)),
        mul_nonneg hm (mul_nonneg (sub_nonneg.mpr hy1) (sub_nonneg.mpr hy1)), mul_nonneg hm (mul_nonneg (sub_nonneg.mpr h) (sub_nonneg.mpr hy1)),
        mul_nonneg hm (mul_nonneg (sub_nonneg.mpr hy1) hy0), mul_nonneg hm (mul_nonneg (sub_nonneg.mpr hy1) hx0),
        mul_nonneg hm (mul_nonneg (sub_nonneg.mpr hx1) hx0)]
