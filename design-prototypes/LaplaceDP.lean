import Mathlib.MeasureTheory.Integral.Lebesgue.Basic
import Mathlib.MeasureTheory.Measure.Lebesgue.Basic
import Mathlib.Analysis.SpecialFunctions.Exp
import Mathlib.Tactic

open MeasureTheory

/-- pointwise density ratio ⇒ ratio on every output set (pure DP), for any densities. -/
theorem set_bound_of_pointwise {μ : Measure ℝ} (f g : ℝ → ENNReal) (c : ENNReal) (hc : c ≠ ⊤)
    (h : ∀ y, f y ≤ c * g y) (S : Set ℝ) :
    ∫⁻ y in S, f y ∂μ ≤ c * ∫⁻ y in S, g y ∂μ := by
  rw [← lintegral_const_mul' c g hc]
  exact lintegral_mono h

/-- Laplace density (unnormalised is enough for ratios): exp(-|y-x|/b). -/
theorem laplace_ratio (b x x' y Δ : ℝ) (hb : 0 < b) (hx : |x - x'| ≤ Δ) :
    Real.exp (-|y - x| / b) ≤ Real.exp (Δ / b) * Real.exp (-|y - x'| / b) := by
  rw [← Real.exp_add]
  apply Real.exp_le_exp.mpr
  have h1 : |y - x'| ≤ |y - x| + |x - x'| := by
    have := abs_sub_le y x x'; linarith
  have : (-|y - x|) / b ≤ (Δ + -|y - x'|) / b := by
    apply div_le_div_of_nonneg_right _ hb.le; linarith
  calc -|y - x| / b ≤ (Δ + -|y - x'|) / b := this
    _ = Δ / b + -|y - x'| / b := by ring

/-- [HLM15]: an e^eps/(1-delta) ratio bound on probabilities gives (eps, delta)-DP. -/
theorem approx_of_scaled (P P' e d : ℝ) (hP1 : P ≤ 1) (hP' : 0 ≤ P') (he : 0 < e) (hd0 : 0 ≤ d) (hd1 : d < 1)
    (h : P ≤ e / (1 - d) * P') : P ≤ e * P' + d := by
  have h1d : 0 < 1 - d := by linarith
  by_cases hc : e * P' ≤ 1 - d
  · have : e / (1 - d) * P' = e * P' / (1 - d) := by ring
    rw [this] at h
    have h2 : e * P' / (1 - d) ≤ e * P' + d := by
      rw [div_le_iff₀ h1d]; nlinarith [mul_nonneg he.le hP']
    linarith
  · push_neg at hc; linarith
#print axioms approx_of_scaled
