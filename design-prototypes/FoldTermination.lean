import Mathlib.Data.Real.Basic
import Mathlib.Tactic

/-- `TruncationAndFoldingMixin._fold` with the recursion depth made explicit (`none` = RecursionError). -/
noncomputable def foldFuel (l u : ℝ) : ℕ → ℝ → Option ℝ
  | 0, _ => none
  | n + 1, v => if v < l then foldFuel l u n (2 * l - v)
                else if v > u then foldFuel l u n (2 * u - v) else some v

/-- for a domain of positive width the reflection terminates after at most ⌈dist/width⌉ steps, inside the domain -/
theorem fold_terminates (l u : ℝ) (hw : l < u) :
    ∀ (n : ℕ) (v : ℝ), max (l - v) (v - u) ≤ n * (u - l) →
      ∃ r, foldFuel l u (n + 1) v = some r ∧ l ≤ r ∧ r ≤ u := by
  intro n
  induction n with
  | zero =>
    intro v h
    simp only [Nat.cast_zero, zero_mul] at h
    have h1 : l - v ≤ 0 := le_trans (le_max_left _ _) h
    have h2 : v - u ≤ 0 := le_trans (le_max_right _ _) h
    refine ⟨v, ?_, by linarith, by linarith⟩
    simp only [foldFuel]
    rw [if_neg (by linarith), if_neg (by linarith)]
  | succ n ih =>
    intro v h
    push_cast at h
    have h1 : l - v ≤ (n + 1) * (u - l) := le_trans (le_max_left _ _) h
    have h2 : v - u ≤ (n + 1) * (u - l) := le_trans (le_max_right _ _) h
    have hn : (0 : ℝ) ≤ n * (u - l) := mul_nonneg (Nat.cast_nonneg n) (by linarith)
    by_cases hl : v < l
    · obtain ⟨r, hr, hb⟩ := ih (2 * l - v) (max_le (by nlinarith) (by nlinarith))
      exact ⟨r, by rw [foldFuel, if_pos hl]; exact hr, hb⟩
    · by_cases hu : v > u
      · obtain ⟨r, hr, hb⟩ := ih (2 * u - v) (max_le (by nlinarith) (by nlinarith))
        exact ⟨r, by rw [foldFuel, if_neg hl, if_pos hu]; exact hr, hb⟩
      · push_neg at hl hu
        exact ⟨v, by rw [foldFuel, if_neg (by linarith), if_neg (by linarith)], hl, hu⟩

/-- the finding: a zero-width domain never terminates, whatever the recursion limit -/
theorem fold_zero_width_diverges (l v : ℝ) (hv : v ≠ l) : ∀ n, foldFuel l l n v = none := by
  intro n
  induction n using Nat.strong_induction_on generalizing v with
  | _ n ih =>
    match n with
    | 0 => rfl
    | 1 =>
      rcases lt_or_gt_of_ne hv with h | h
      · simp [foldFuel, h]
      · have : ¬ v < l := not_lt.mpr h.le
        simp [foldFuel, this, h]
    | k + 2 =>
      rcases lt_or_gt_of_ne hv with h | h
      · rw [foldFuel, if_pos h]
        exact ih (k + 1) (by omega) (2 * l - v) (by intro e; apply hv; linarith)
      · have hn : ¬ v < l := not_lt.mpr h.le
        rw [foldFuel, if_neg hn, if_pos h]
        exact ih (k + 1) (by omega) (2 * l - v) (by intro e; apply hv; linarith)
#print axioms fold_terminates
#print axioms fold_zero_width_diverges
