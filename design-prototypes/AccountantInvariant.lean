-- core-only prototype: accountant state machine, generic in the carrier and in `total`
namespace DPL
structure Ops (α : Type) where
  le : α → α → Bool          -- the comparison the code performs (IEEE `<=` on floats: not an order!)

structure Spend (α : Type) where
  eps : α
  delta : α

structure Acc (α : Type) where
  ceilEps : α
  ceilDelta : α
  slack : α
  spent : List (Spend α)

inductive Op (α : Type) where
  | spend (e d : α)
  | check (e d : α)
  | setSlack (s : α)
  | query            -- total(), remaining(k), len, spent_budget copy + caller-side mutation of the copy

variable {α : Type}

/-- `fits` is "Budget(ceiling) >= total(history, slack)" exactly as the code evaluates it;
    `valid` is check_epsilon_delta + min-epsilon guard; both arbitrary here. -/
structure Sem (α : Type) where
  fits : Acc α → List (Spend α) → α → Bool
  valid : Acc α → α → α → Bool
  slackOk : Acc α → α → Bool

def step (S : Sem α) (a : Acc α) : Op α → Acc α × Bool
  | .spend e d =>
      if S.valid a e d && S.fits a (a.spent ++ [⟨e, d⟩]) a.slack
      then ({ a with spent := a.spent ++ [⟨e, d⟩] }, true) else (a, false)
  | .check e d => (a, S.valid a e d && S.fits a (a.spent ++ [⟨e, d⟩]) a.slack)
  | .setSlack s =>
      if S.slackOk a s && S.fits a a.spent s then ({ a with slack := s }, true) else (a, false)
  | .query => (a, true)

def Inv (S : Sem α) (a : Acc α) : Prop := S.fits a a.spent a.slack = true

/-- fits must not depend on the mutable fields (it reads the ceiling only) -/
def Sem.ceilingOnly (S : Sem α) : Prop :=
  ∀ a b : Acc α, a.ceilEps = b.ceilEps → a.ceilDelta = b.ceilDelta → S.fits a = S.fits b

theorem step_inv (S : Sem α) (hS : S.ceilingOnly) (a : Acc α) (op : Op α) (h : Inv S a) :
    Inv S (step S a op).1 := by
  cases op with
  | spend e d =>
    simp only [step]; split
    · rename_i hc; simp only [Bool.and_eq_true] at hc
      have := hS { a with spent := a.spent ++ [⟨e, d⟩] } a rfl rfl
      simp only [Inv, this]; exact hc.2
    · exact h
  | check e d => exact h
  | setSlack s =>
    simp only [step]; split
    · rename_i hc; simp only [Bool.and_eq_true] at hc
      have := hS { a with slack := s } a rfl rfl
      simp only [Inv, this]; exact hc.2
    · exact h
  | query => exact h

theorem run_inv (S : Sem α) (hS : S.ceilingOnly) (ops : List (Op α)) (a : Acc α) (h : Inv S a) :
    Inv S (ops.foldl (fun a op => (step S a op).1) a) := by
  induction ops generalizing a with
  | nil => exact h
  | cons op ops ih => exact ih _ (step_inv S hS a op h)

/-- refused operations are no-ops; accepted ones only append -/
theorem step_refused_noop (S : Sem α) (a : Acc α) (op : Op α) (h : (step S a op).2 = false) :
    (step S a op).1 = a := by
  cases op <;> simp only [step] at * <;> (try split at h) <;> (try split) <;> simp_all

theorem step_spent_prefix (S : Sem α) (a : Acc α) (op : Op α) :
    ∃ l, (step S a op).1.spent = a.spent ++ l := by
  cases op <;> simp only [step]
  · split
    · exact ⟨_, rfl⟩
    · exact ⟨[], by simp⟩
  · exact ⟨[], by simp⟩
  · split <;> exact ⟨[], by simp⟩
  · exact ⟨[], by simp⟩
end DPL
#print axioms DPL.run_inv
#print axioms DPL.step_refused_noop
