#!/usr/bin/env python3
import subprocess, re, os
root = os.path.dirname(os.path.dirname(os.path.abspath(__file__)))
t = subprocess.check_output([os.path.join(root, "tools", "seed_table.py")]).decode()
p = os.path.join(root, "DESIGN.md")
s = open(p).read()
s = re.sub(r"<!-- SEED-TABLE-BEGIN -->.*<!-- SEED-TABLE-END -->", "<!-- SEED-TABLE-BEGIN -->\n" + t + "<!-- SEED-TABLE-END -->", s, flags=re.S)
open(p, "w").write(s)
