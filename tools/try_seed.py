#!/usr/bin/env python3
"""tools/try_seed.py <seed_dir> [--props C04,C05] [--skip-tests]
Confirms a seeded change in a scratch copy of /repo (patch applies, demo PASSes without / FAILs with the change, the 762
stable tests still pass) and runs the named checks against the scratch copy (VERIF_REPO). Prints one summary line."""
import json, os, shutil, subprocess, sys, tempfile, re

def sh(cmd, cwd=None, env=None, timeout=3600):
    p = subprocess.run(cmd, shell=True, cwd=cwd, env=env, capture_output=True, text=True, timeout=timeout)
    return p.returncode, p.stdout + p.stderr

def main():
    sd = os.path.abspath(sys.argv[1])
    props = None
    skip_tests = "--skip-tests" in sys.argv
    for a in sys.argv[2:]:
        if a.startswith("--props"):
            props = a.split("=", 1)[1].split(",")
    meta = json.load(open(os.path.join(sd, "meta.json")))
    props = props or [meta["property"]]
    tmp = tempfile.mkdtemp(prefix="tryseed_", dir="/tmp")
    repo = os.path.join(tmp, "repo")
    try:
        sh(f"git -C /repo worktree add -q --detach {repo} HEAD")
        demo = open(os.path.join(sd, "demo.py")).read()
        # the demos hard-code their worktree path: point them at the scratch copy
        demo = re.sub(r"/tmp/seed\d*_C\d+", repo, demo)
        dpath = os.path.join(tmp, "demo.py")
        open(dpath, "w").write(demo)
        rc0, out0 = sh(f"/venv/bin/python {dpath}", cwd=tmp, timeout=1200)
        rc, out = sh(f"git -C {repo} apply {os.path.join(sd, 'patch.diff')}")
        if rc != 0:
            print(f"SEED {sd}: patch does not apply: {out[-300:]}")
            return 2
        rc1, out1 = sh(f"/venv/bin/python {dpath}", cwd=tmp, timeout=1200)
        tests = meta.get("confirmed_by_me", {}).get("tests", "skipped") if skip_tests else "skipped"
        if not skip_tests:
            rct, outt = sh(f"/venv/bin/python /verif/tools/baseline.py {repo}", timeout=1800)
            tests = outt.strip().splitlines()[0] if outt.strip() else f"rc={rct}"
        res = {}
        for p in props:
            env = dict(os.environ, VERIF_REPO=repo)
            rcc, outc = sh(f"./check {p} --tier quick", cwd="/verif", env=env, timeout=3600)
            v = [l for l in outc.splitlines() if l.startswith("VIOLATION") or l.startswith("failing input")]
            res[p] = (rcc, v[:2], outc.strip().splitlines()[-1][:200] if outc.strip() else "")
        print(f"SEED {sd}\n  demo without change: rc={rc0} ({out0.strip().splitlines()[-1][:80] if out0.strip() else ''})"
              f"\n  demo with change:    rc={rc1} ({out1.strip().splitlines()[-1][:160] if out1.strip() else ''})\n  tests: {tests}")
        for p, (rcc, v, last) in res.items():
            print(f"  check {p}: exit={rcc} {'DETECTED' if rcc == 1 else ('MISSED' if rcc == 0 else 'INFRA')}  {v}\n     {last}")
        if "--record" in sys.argv:
            meta["confirmed_by_me"] = {
                "ran": "tools/try_seed.py: fresh worktree of /repo HEAD; demo before patch; git apply patch.diff; demo after; "
                       "tools/baseline.py (pinned suite vs BASELINE stable_pass); ./check <prop> --tier quick with VERIF_REPO=<worktree>",
                "demo_without_change": "PASS (exit 0)" if rc0 == 0 else f"exit {rc0}",
                "demo_with_change": "FAIL (exit 1)" if rc1 == 1 else f"exit {rc1}",
                "tests": tests,
            }
            meta.setdefault("checks", {})
            for p, (rcc, v, last) in res.items():
                meta["checks"][p] = {"exit": rcc, "verdict": "DETECTED" if rcc == 1 else ("MISSED" if rcc == 0 else "INFRA"),
                                     "lines": v}
            json.dump(meta, open(os.path.join(sd, "meta.json"), "w"), indent=1)
        return 0
    finally:
        sh(f"git -C /repo worktree remove --force {repo}")
        shutil.rmtree(tmp, ignore_errors=True)
        # restore evidence written against the scratch copy? evidence is rewritten by the next real run
if __name__ == "__main__":
    sys.exit(main())
