#!/usr/bin/env python3
"""tools/pin_sources.py — records the structural hash of every library file of /repo's current working tree in pins.json
(the revision the model was last validated against).  Run it after every check passed on that tree."""
import json, os, subprocess, sys
sys.path.insert(0, os.path.join(os.path.dirname(os.path.abspath(__file__)), ".."))
from harness import pins
repo = sys.argv[1] if len(sys.argv) > 1 else "/repo"
rev = subprocess.check_output(["git", "-C", repo, "rev-parse", "HEAD"]).decode().strip()
dirty = subprocess.check_output(["git", "-C", repo, "status", "--porcelain", "--", "diffprivlib"]).decode().strip()
if dirty:
    sys.exit("working tree of the library is not clean:\n" + dirty)
out = {"revision": rev, "files": {f: pins.fingerprint(os.path.join(repo, f)) for f in pins.library_files(repo)}}
json.dump(out, open(pins.PINS, "w"), indent=1, sort_keys=True)
print(f"pinned {len(out['files'])} files at {rev[:10]}")
