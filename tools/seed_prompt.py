#!/usr/bin/env python3
"""Prints the prompt given to a fresh sub-agent that seeds property-breaking changes (nothing from /verif is shown)."""
import json, sys
pid = sys.argv[1]
wt = sys.argv[2]
n = sys.argv[3] if len(sys.argv) > 3 else "3"
p = [json.loads(l) for l in open('/verif/properties.jsonl') if json.loads(l)['id'] == pid][0]
print(f"""You are testing how well a verification effort protects a Python library. You work ONLY inside the git worktree {wt} (a checkout of IBM's differential-privacy library `diffprivlib`). Do not read or write anything under /verif or /repo. Do not use the network.

Here is a semantic property the library is supposed to satisfy:

  Title: {p['title']}
  Statement: {p['statement']}
  Quantifier: {p['quantifier']['text']}
  Code it is anchored in: {', '.join(p['anchors']['files'])}

YOUR TASK: produce {n} DIFFERENT, realistic changes to the library source (under {wt}/diffprivlib/) each of which BREAKS this property while the library still imports and the existing test suite still passes exactly as before. I want changes of the kind a plausible refactoring, optimisation or "harmless clean-up" could introduce — NOT ones that ordinary use would expose at once. Each change should need something specific to manifest: an unusual input or parameter region, a multi-step sequence of operations, a particular configuration, a rounding/boundary condition, or two cooperating edits in different places that each look fine alone. Make the {n} changes different in kind and in location (different functions / mechanisms / code paths), small (a few lines), and syntactically innocent.

Environment notes: use /venv/bin/python. In this sandbox a plain `import diffprivlib` fails because of scikit-learn API drift (forest.py imports DOUBLE/DTYPE from sklearn.tree._tree), so in your own demonstration scripts do this BEFORE importing the library:
    import sys; sys.path.insert(0, '{wt}')
    import numpy as np, sklearn.tree._tree as t
    t.DOUBLE = np.float64; t.DTYPE = np.float32
    import diffprivlib            # then check diffprivlib.__file__ starts with {wt}
(LogisticRegression additionally needs `multi_class`/`iprint` shims; avoid it unless the property is about it — if you need it, wrap sklearn.linear_model.LogisticRegression.__init__ to drop the `multi_class` kwarg and scipy.optimize.fmin_l_bfgs_b to drop `iprint`.)
The test suite: `cd {wt} && /venv/bin/python -m pytest -q -p no:cacheprovider --timeout=900 --continue-on-collection-errors 2>&1 | tail -3` — on the UNCHANGED worktree it reports "20 failed, 762 passed, … 4 errors" (the failures/errors are the pre-existing API-drift ones). With each of your changes applied (alone) the set of passing tests must be the same 762 (same failures, no new ones).

For EACH change i = 1..{n} deliver, in the directory {wt}/_seed/<i>/ :
  patch.diff   — `git diff` of the change against the unchanged worktree (only files under diffprivlib/);
  demo.py      — a small self-contained program (using the import recipe above) that exits 0 and prints PASS on the unchanged code and exits 1 printing FAIL (with the concrete violating input/sequence and observed values) when the change is applied; it must demonstrate a violation of the property as stated above, deterministically (fix seeds / script the randomness; no flaky statistics);
  meta.json    — {{"property": "{pid}", "summary": "...one sentence...", "needs": "...what specific input/sequence/configuration is needed for the violation to manifest...", "files": [...], "tests_passed_with_change": 762}}
Procedure per change: edit → run demo (must FAIL) → run the test suite (762 passed, same failures) → save `git diff` to patch.diff → `git checkout -- diffprivlib` to restore → run demo again (must PASS). Leave the worktree restored (no source modifications) at the end; only the _seed directory remains.

Final answer: for each change, 3–4 lines: what it changes, why it breaks the property, what is needed to manifest it, and the demo's FAIL output.""")
