#!/usr/bin/env python3
"""Run /repo's pinned suite (guard off) and compare with BASELINE.json's stable_pass list. Exit 0 iff all stable tests pass."""
import json, subprocess, sys, tempfile, os, xml.etree.ElementTree as ET
repo = sys.argv[1] if len(sys.argv) > 1 else "/repo"
base = json.load(open("/root/.vp/BASELINE.json"))
with tempfile.TemporaryDirectory() as d:
    x = os.path.join(d, "j.xml")
    subprocess.run(["/venv/bin/python", "-m", "pytest", "-q", "-p", "no:cacheprovider", "--timeout=900",
                    "--continue-on-collection-errors", f"--junitxml={x}"], cwd=repo, capture_output=True)
    passed = set()
    for tc in ET.parse(x).getroot().iter("testcase"):
        if not any(ch.tag in ("failure", "error", "skipped") for ch in tc):
            passed.add(f"{tc.get('classname')}::{tc.get('name')}")
missing = [t for t in base["stable_pass"] if t not in passed]
print(f"stable_pass={len(base['stable_pass'])} passed_now={len(passed)} missing={len(missing)}")
for t in missing[:20]:
    print("  MISSING", t)
sys.exit(1 if missing else 0)
