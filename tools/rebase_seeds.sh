#!/bin/sh
# tools/rebase_seeds.sh — after a fix: commit in /repo, re-bases (3-way) every seeded patch that no longer applies to HEAD.
# The patch as delivered by the seeding agent is kept once as patch.orig.diff.
wt=/tmp/rebase_wt_$$
git -C /repo worktree add -q --detach $wt HEAD || exit 2
for d in /verif/seeded/*/; do
  n=$(basename $d)
  if ! git -C $wt apply --check $d/patch.diff 2>/dev/null; then
    if git -C $wt apply --3way $d/patch.diff >/dev/null 2>&1 && ! git -C $wt diff --name-only --diff-filter=U | grep -q .; then
      git -C $wt diff HEAD > /tmp/rebased_$n.diff
      if grep -q '^+<<<<<<<' /tmp/rebased_$n.diff; then echo "CONFLICT $n";
      else [ -f $d/patch.orig.diff ] || ls $d/patch.orig-pre-*.diff >/dev/null 2>&1 || cp $d/patch.diff $d/patch.orig.diff; cp /tmp/rebased_$n.diff $d/patch.diff; echo "rebased $n"; fi
      rm -f /tmp/rebased_$n.diff
    else echo "FAILED $n"; fi
    git -C $wt reset -q --hard HEAD; git -C $wt clean -qfd
  fi
done
git -C /repo worktree remove --force $wt
