#!/usr/bin/env python3
"""Markdown table of /verif/seeded/*/meta.json for DESIGN.md §11.4."""
import glob, json, os
rows = []
for d in sorted(glob.glob(os.path.join(os.path.dirname(os.path.dirname(os.path.abspath(__file__))), "seeded", "*"))):
    try:
        m = json.load(open(os.path.join(d, "meta.json")))
    except Exception:
        continue
    checks = m.get("checks", {})
    verdict = "; ".join(f"{p}: {c['verdict']}" + (" (failing input)" if any("failing input" in l for l in c.get("lines", [])) else
                        (" (no-failing-input-found)" if any("no-failing-input-found" in l for l in c.get("lines", [])) else ""))
                        for p, c in checks.items()) or "not yet run"
    rows.append(f"| {os.path.basename(d)} | {m.get('summary','').replace('|','/')[:160]} | {m.get('needs','').replace('|','/')[:140]} | {verdict} |")
print("| seed | change | needs | result |\n|---|---|---|---|")
print("\n".join(rows))
